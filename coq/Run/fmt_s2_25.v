From FP Require Import Lexer Parser ShowPT Digest Formatter.
From Coq Require Import String List NArith.
Import ListNotations.
Open Scope string_scope.
Set Printing Width 100000000.
Set Printing Depth 100000000.
Definition show_fres (r : fres) : string :=
  match r with
  | FOk s => "OK:" ++ sh_escaped s ""
  | FErr s => "ERR:" ++ sh_escaped s ""
  | FPanic p => "PANIC:" ++ p
  end.
Definition check (rs : list rune) : string := digest (show_fres (format_res rs)).
Definition full (rs : list rune) : string := show_fres (format_res rs).
Eval vm_compute in ("<<<M822>>>" ++ check (runes_of_ascii "packet u { @tag( 007 )
    @calculatedFrom(
    """"
    ) match i64_ as roots{ [
// `tick` ""quote"" 'q'
// packet A { u8 x, }
""`tick`"" ,
""1"" , 0,
3
// " ++ [27880; 37322]%N ++ runes_of_ascii "
// c
] :
rootA
//x
// c
00:
pack [ 0123456789, 0123456789 , ""1""
    ,	255 ]
: /// triple
msg_type ,
10
    :chars ""it's"": o
, /// triple
} ,
BodyLength{ char[ 255 // " ++ [128512]%N ++ runes_of_ascii " emoji
] metadata`
` ,
} , options1 { match  asx
    // c
    as packetx{ ""abc""/// triple
: u128 [ 3
,
4294967296 ,	"""" ,
""" ++ [28040; 24687]%N ++ runes_of_ascii """,
    4294967296 ]
: leftPad , 0 :
Header , """ ++ [233]%N ++ runes_of_ascii "t" ++ [233]%N ++ runes_of_ascii """
:  T , } ,
repeat char[] Z9_ `{ , }` ,
    }
,
@calculatedFrom( ""packet"" ) @calculatedFrom(
""x y"")@tag(255  ) leftPad
{ repeat leftPad
{
    float32 falsey @lengthOf(falsey ) `a\` ,	zchar[ 0 ] matchKey ,zchar[ 4294967296
    ] a1, match packetx	as // @lengthOf(
u {  [ 00 ,	""abc"" , """ ++ [233]%N ++ runes_of_ascii "t" ++ [233]%N ++ runes_of_ascii """ ,00,// " ++ [27880; 37322]%N ++ runes_of_ascii "
""a\\""	, ""{,}"" ]
    : BodyLength ,""" ++ [233]%N ++ runes_of_ascii "t" ++ [233]%N ++ runes_of_ascii """
    /// triple
    :asx  , [
    ""a	b"" ,007 ]
    :
body
    /// triple
    ,[ 00 ,0123456789 ] :
crc
}
    ,} , }
    , repeat uint8x o
`doc` , @tag(
65535 )u16 Logon  @lengthOf( uint8x	)
    `a\`, f32a
    { repeat  char[]
matchKey// " ++ [128512]%N ++ runes_of_ascii " emoji
`
` , zchar[ 4294967296 ] i64_,
    // packet A { u8 x, }
    repeat lengthOf {	repeat i16 matchKey	, u8 falsey ,
i32 Pad @lengthOf(u8x )
    `` ,
    charz
`crlf
line`,}
, packetx {int64 trueish
, char[42	]  u @lengthOf(u )`// not a comment`,repeat
char[ 1 ]i8i8 ,
    match x_y_z as u8x {
    [
    ""\n""
//
// " ++ [27880; 37322]%N ++ runes_of_ascii "
] : calculatedFrom } , } ,
    } , @leftPad ( '0'
    //x
    )
    As @calculatedFrom(
""it's""
)	, @calculatedFrom(""CRC32""
)x_y_z
@lengthOf( crc
    ) , @leftPad
('0'	) @calculatedFrom( ""`tick`"" )@tag( 10)char[ 42 ]Z9_ @calculatedFrom(""abc"" ) // " ++ [128512]%N ++ runes_of_ascii " emoji
,}
    MetaData
//	t
/// triple
repeatCount // trailing space 
{ i8
    u `tab	here`, char[ 255
]
    u,
    // @lengthOf(
    u32
    msg_type`doc`
,i64_ _x	,
}
options  {
    repeatCount=255 ;x_y_z = ' ' ; charz = uint8 ; Packet = false BodyLength=true
;
    } options { asx
    // @lengthOf(
    =""" ++ [128512]%N ++ runes_of_ascii """uint8x =char[  4294967296 ]
// " ++ [27880; 37322]%N ++ runes_of_ascii "
// a // b
; u = '0' }
// trailing space 
")).
Eval vm_compute in ("<<<M390>>>" ++ check (runes_of_ascii "packet calculatedFrom {
    i8 i8i8 ,//
@tag(3 )// trailing space 
repeat	uint16 u128 , u64 x_y_z``,@tag( 00
    ) @leftPad ( // " ++ [128512]%N ++ runes_of_ascii " emoji
' ') u
//x
// trailing space 
{//x
match // `tick` ""quote"" 'q'
uint8x as i64_{007 : As
    ,
007
    : len
, 42//
:
asx , 10 :
    // trailing space 
    BodyLength 0123456789 :
calculatedFrom // " ++ [128512]%N ++ runes_of_ascii " emoji
,
[ 3 ,
""it's""  ,""\n"" // trailing space 
, """ ++ [28040; 24687]%N ++ runes_of_ascii """ , 0123456789
, 42  ,
255 ,
""" ++ [233]%N ++ runes_of_ascii "t" ++ [233]%N ++ runes_of_ascii """] :
//x
//	t
tag ,
    } // trailing space 
,
    match pack
    // `tick` ""quote"" 'q'
    as charz {""CRC32"" :int
}
,len
@calculatedFrom(
// a // b
/// triple
""packet"" )  , }
,}
    packet calculatedFrom
{	repeat packetx{ repeat string
    options1 , }
    ,int64 msg_type, @tag( 3 ) leftPad float
    , match body as /// triple
Pad { 255:calculatedFrom , [
""it's""
, """" ,
""CRC32""	,
4294967296 , 10  ,
""" ++ [233]%N ++ runes_of_ascii "t" ++ [233]%N ++ runes_of_ascii """  ,
0123456789
    ]	: trueish 10 :Z9_ , [
    ""a\\""
    ] : roots	,
    // c
    0123456789
: rootA , },
}options
{	options1=0123456789 } options
{  }// " ++ [27880; 37322]%N ++ runes_of_ascii "
root
packet asx{ @lengthOf(	a1 ) match u8x as lengthOf
{
// `tick` ""quote"" 'q'
//x
[ 00, 00 ]:
    Packet
    ,  [  ""CRC32""
    /// triple
    , ""abc""  ,
//x
// c
3 ]	:x_y_z[""" ++ [28040; 24687]%N ++ runes_of_ascii """ ,
7	] :
    packetx""a	b"" :
    As""a	b"" : x_y_z , ""// no comment"": u,
} , zchar[ 0
// trailing space 
//x
]i64_ ,
match stringy as // " ++ [27880; 37322]%N ++ runes_of_ascii "
zchar
    { [ ""// no comment"" ,10
,1,  """ ++ [128512]%N ++ runes_of_ascii """ ] : Foo
, } , @rightPad
    // trailing space 
    ( '\x00') // trailing space 
float
,u64	Foo `say ""hi""`
, matchKey, // packet A { u8 x, }
uint16 tag
    `crlf
line` ,string // a // b
u8x
`two words` ,  string pack @calculatedFrom( ""packet""  )
, @calculatedFrom( ""`tick`"" //x
) float64 Logon , }
// " ++ [128512]%N ++ runes_of_ascii " emoji
")).
Eval vm_compute in ("<<<M1322>>>" ++ check (runes_of_ascii "options { rootA = """" BodyLength = 0123456789 ; roots =
    string options1=
' ' } root packet
int {repeat zchar[ 00	]
Logon, repeat	uint16
    //	t
    body `// not a comment` , @calculatedFrom(	""a\""b"")repeat
    string MetaDataX
    `a\` , string lengthOf `" ++ [28040; 24687; 31867; 22411]%N ++ runes_of_ascii "` ,
    @tag( 3 ) trueish calculatedFrom , //
} root
packet i64_ {
zchar[ 007
] //x
rootA
    `" ++ [28040; 24687; 31867; 22411]%N ++ runes_of_ascii "` , @leftPad ( ' ')
@calculatedFrom(""a\\""	) @calculatedFrom(
    // @lengthOf(
    ""a\""b"")
repeat	f64 trueish	`" ++ [233]%N ++ runes_of_ascii "`, repeat int { match msg_type as asx
    {"""" : u128 , [ //
""1"" ,
//	t
// trailing space 
""\" ++ [233]%N ++ runes_of_ascii """ ]
: options1 ,  ""x y""	: u8x,
""// no comment"" : BodyLength  , [
    7	,  ""a\""b""	, 4294967296 ]
: asx ,
} , crc @calculatedFrom(  """" )  ,
    // `tick` ""quote"" 'q'
    match metadata as lengthOf
{
[4294967296
, ""a	b"",""packet"", ""// no comment"" ]
    // a // b
    : repeatCount
    // c
    , }
    // @lengthOf(
    , u128
    { crc ,repeat options1  , uint64 BodyLength ,matchKey
    `
` ,
} ,}
    , @lengthOf(zchar ) int8 lengthOf `say ""hi""`  , }	root packet pack  {	@calculatedFrom( ""a	b"" )
    // " ++ [27880; 37322]%N ++ runes_of_ascii "
    Pad, @calculatedFrom( ""packet"" ) match u as leftPad
    { [ ""{,}""]
:// `tick` ""quote"" 'q'
A""{,}"" : u128 [  ""1""
    ,007 ]
:  a1
    ,
[ ""1"" ] :
Packet
4294967296:
    i8i8 , 00 :
// " ++ [128512]%N ++ runes_of_ascii " emoji
// @lengthOf(
roots
,
//
// packet A { u8 x, }
}	,//
char[0123456789  ] calculatedFrom`say ""hi""`
,	uint8 int @calculatedFrom(
    ""a\\""
),Packet pack,// c
}
")).
Eval vm_compute in ("<<<M1283>>>" ++ check (runes_of_ascii "packet
u
{ float64 A @calculatedFrom(
    // @lengthOf(
    ""it's"" // packet A { u8 x, }
) ,  string roots  , @rightPad (// packet A { u8 x, }
'\x00' ) char[]int @lengthOf( // a // b
metadata ) , // trailing space 
u8x {
    int
{  f64
    Pad
,asx{
repeat tag `two words` ,rootA , u16 matchKey `
` ,
} , repeat
roots { // @lengthOf(
options1 @calculatedFrom( ""a\""b"" // " ++ [27880; 37322]%N ++ runes_of_ascii "
)
    ,
char[]
    chars
, } , float64 zchar ,
    }
    , // c
} , uint16 leftPad, uint8 f32a @lengthOf( i8i8 ) , repeat
float64 stringy
, i8i8
{roots@lengthOf( repeatCount ) , }
    ,
repeat matchKey	, @leftPad	(' ' ) match	int // @lengthOf(
as trueish{
    """": a1
    ,00 : a1,
1 : crc , }
,
    // trailing space 
    } root
    packet f32a
    // trailing space 
    {@tag(0 ) // " ++ [27880; 37322]%N ++ runes_of_ascii "
zchar[ 4294967296 ]
tag
    , @tag(
    4294967296
) match	uint8x  as calculatedFrom {	""""  :BodyLength""a\\"" : MetaDataX, """ ++ [233]%N ++ runes_of_ascii "t" ++ [233]%N ++ runes_of_ascii """ : u128,
    } /// triple
,
    } options {
x = i8 x =
' '
    x_y_z='\x00'zchar=	""" ++ [128512]%N ++ runes_of_ascii """// c
;
BodyLength = float32
    ; }
// packet A { u8 x, }
//
root packet
    Packet { }
MetaData // a // b
roots { zchar u8x /// triple
`
` ,// trailing space 
char[ 42 //x
]	uint8x ,
//
// " ++ [128512]%N ++ runes_of_ascii " emoji
asx lengthOf`// not a comment` ,
Packet stringy
, repeatCount len``
, } // c")).
Eval vm_compute in ("<<<M3847>>>" ++ check (runes_of_ascii "MetaData falsey {
    i8 Logon,
    len metadata `doc`,
}

MetaData Foo {
    char[65535] calculatedFrom `
        `,
    matchKey zchar,
    u stringy `
        `,
    MetaDataX u `say ""hi""`,
}

packet msg_type {
    @lengthOf(Z9_)
    @lengthOf(x)
    @tag(0)
    calculatedFrom {
        msg_type @calculatedFrom(""CRC32"") `say ""hi""`,
        repeat matchKey {
            repeat T {
                char[1] T,
                repeatCount `line1
                                line2`,
                match int as x {
                    ""packet"" : options1,
                    00 : calculatedFrom,
                    00 : falsey,
                },
            },
            char[] uint8x,
            match Packet as falsey {
                7 : f32a,
                // a // b
                10 : u,
                1 : Header,
                [0, ""packet"", ""a	b""] : o,
                0123456789 : chars,
            },
            zchar[65535] Foo,
        },
    },
}// packet A { u8 x, }

root packet u {
    @tag(007)
    i32 stringy @lengthOf(a1) `{ , }`,
}

MetaData string_ {
    uint64 chars `crlf
        line`,
    char[3] u8x `a\`,
}")).
Eval vm_compute in ("<<<M1338>>>" ++ check (runes_of_ascii "
packet
    crc { //x
u16 // " ++ [128512]%N ++ runes_of_ascii " emoji
charz , @leftPad (' ' )match
    rootA as // packet A { u8 x, }
BodyLength{
    ""`tick`"":
    u , }
,
@tag( 1 ) Logon `" ++ [233]%N ++ runes_of_ascii "`, uint16 metadata
`// not a comment` , //
@rightPad  ( )char[00
] body
// @lengthOf(
// trailing space 
,  BodyLength {	match f32a
as // packet A { u8 x, }
calculatedFrom
// a // b
// " ++ [128512]%N ++ runes_of_ascii " emoji
{255 :
len , 65535 :i8i8
// " ++ [128512]%N ++ runes_of_ascii " emoji
// " ++ [27880; 37322]%N ++ runes_of_ascii "
007	:
    uint8x , }
    //
    , repeat repeatCount
// @lengthOf(
/// triple
{ repeat	char[ 1 ] string_ , repeat
string roots , falsey len //x
`
` , repeat i64
calculatedFrom ,
    }, u16//
leftPad @calculatedFrom(
    ""x y"" //	t
)
`// not a comment` , } // `tick` ""quote"" 'q'
, repeat zchar {
f32 packetx @lengthOf(
asx
)
    , a1
stringy
    , string_
BodyLength
    // packet A { u8 x, }
    `" ++ [233]%N ++ runes_of_ascii "`
    , },@rightPad
( '0' )repeat
o{repeat float f32a ,
char
packetx,char[] stringy// " ++ [27880; 37322]%N ++ runes_of_ascii "
, } , } root
packet float // trailing space 
{ uint16
    body  @lengthOf( body ) , match a1 as Header
{""1""
    : Z9_ , } , } options	{
MetaDataX	= 255	; charz = '0' ; matchKey = ""`tick`""
; rootA
=//x
'0'  ; }
")).
Eval vm_compute in ("<<<M1185>>>" ++ check (runes_of_ascii "packet T { x repeatCount
`tab	here` ,
    repeat	a1 `a\`
, a1 @calculatedFrom( ""CRC32"" ),	repeat string msg_type`// not a comment`, // trailing space 
} packet
// @lengthOf(
// trailing space 
uint8x {zchar[65535 ] //x
roots,	i64_ stringy
,zchar[ 0123456789 ]
tag `" ++ [28040; 24687; 31867; 22411]%N ++ runes_of_ascii "` , @tag( 42) match
i8i8 as Header {	[ ""// no comment"" ,	""abc"" // c
,
    255 ,
65535/// triple
] : charz , 00 : /// triple
Z9_,} ,
uint8 int	@calculatedFrom(
    ""`tick`"") ,@lengthOf( asx ) match crc as trueish {
[ """" ,""// no comment""
    ,
42 ,
    // @lengthOf(
    ""packet""
    ]	: chars , 0 :
// packet A { u8 x, }
//
x
""packet"" : crc ,
} ,@calculatedFrom( ""{,}"" // a // b
)repeatCount ,
@tag( 7 ) BodyLength @calculatedFrom(
""a	b""
) ,	repeat u32 i64_ , }
packet
f32a
{@tag(
    //x
    42
    ) @tag( 10 ) string MetaDataX @calculatedFrom(""" ++ [28040; 24687]%N ++ runes_of_ascii """ // " ++ [27880; 37322]%N ++ runes_of_ascii "
)
    ,
    //	t
    crc {
a1 // a // b
@calculatedFrom( ""a\\"" ) `crlf
line`
,
    repeat zchar[10] A  , } , // " ++ [27880; 37322]%N ++ runes_of_ascii "
match Packet	as Pad // a // b
{ ""CRC32""
: msg_type
, } ,
repeat string A `doc` ,}
")).
Eval vm_compute in ("<<<M3526>>>" ++ check (runes_of_ascii "options {
    StringPrefixLenType = u32;
    ArrayPrefixLenType = u8;
    FixedStringPadFromLeft = false;
}
packet Logon {
    i8 venue,
    int16 f1,
    zchar[8] Acct,
    repeat InNote16 {
        InQty73 {
            float32 tag7,
        },
        f32 Acct,
        zchar[5] sym,
    },
    uint16 Side2,
    i32 lastPx,
}
packet Fill {
    repeat InOrderid15 {
        zchar[8] sym,
        repeat char[2] OrderId,
        repeat Logon,
        InQty82 {
            char[] Tail,
            repeat Logon,
            float64 price,
            f64 Side2,
        },
        char[12] venue,
        char[4] Px,
    },
    @rightPad('0') char[2] venue,
    InPrice99 {
        InAcct72 {
            u8 pad0,
        },
        u32 OrderId,
        Logon,
    },
}
root packet Reject {
    zchar[9] msgKind,
    u32 venue,
    u16 seqNo @lengthOf(Body),
    match venue as Body {
        57 : Fill,
        8 : Logon,
    },
    u16 Tail @calculatedFrom(""CR\
C32""),
}
")).
Eval vm_compute in ("<<<M101>>>" ++ check (runes_of_ascii "MetaData
    asx
{ }
    options{
body =
//x
// @lengthOf(
char[] ;// @lengthOf(
repeatCount =true ;
    packetx= ""a\""b""; float
=
""x y"" ; zchar
    // @lengthOf(
    = ""\" ++ [233]%N ++ runes_of_ascii """ ; } MetaData _x{
u16 falsey  `` , } root packet
    metadata {  }	packet Foo { repeat
    // trailing space 
    u128
    , @tag(// trailing space 
7
) uint16
MetaDataX
    , @tag(1 )
    /// triple
    falsey `say ""hi""` , @rightPad ( //	t
) @tag(3 ) u , @lengthOf( roots// " ++ [128512]%N ++ runes_of_ascii " emoji
) match body as repeatCount
{ ""CRC32"" // " ++ [27880; 37322]%N ++ runes_of_ascii "
: asx  , 42	:  msg_type
} ,// packet A { u8 x, }
stringy {repeat char[
    // c
    3
] uint8x ,	match
Logon
as	A{ ""abc"" :i8i8 , }  ,match BodyLength as len
    { [0123456789 ,
//
// @lengthOf(
007
    ,4294967296,""{,}""
]:// " ++ [128512]%N ++ runes_of_ascii " emoji
Foo , } //	t
, } , @leftPad ( '0'  ) uint8x
@lengthOf(i8i8) ,//	t
_x
    {repeat x  `line1
line2` , }, @tag( 42 )
falsey
    // trailing space 
    u128 // trailing space 
, int64 MetaDataX ,}
")).
Eval vm_compute in ("<<<M3653>>>" ++ check (runes_of_ascii "  options {	msg_type
    = int64

; 	 // `tick` ""quote"" 'q'
      tag// c
      =
	// `tick` ""quote"" 'q'
	// " ++ [128512]%N ++ runes_of_ascii " emoji
  true
falsey
    =' '
	;}
    MetaData	float 
	    // a // b
  /// triple
		{

chars pack
,o Pad

    ,  // `tick` ""quote"" 'q'
  rootA
int
, 	 // `tick` ""quote"" 'q'
	  i64

    Logon
, 
char[ 00

    ] 
lengthOf 
`two words`
,
    u128
u8x `// not a comment`

,

    }  MetaData
    packetx
	{

    }root
    packet

    uint8x {  @lengthOf(
    matchKey)
MetaDataX {
	o{

    repeat	uint16	i64_ ,uint64

msg_type  @calculatedFrom(""""

    ) , }

    ,	//
		repeat
i64 BodyLength `u8 x,`
	,	char[]	Z9_  ,

    },  //
	char[ 3 ]  stringy 
,  @lengthOf(

uint8x)  @calculatedFrom( ""abc""
) A
`" ++ [28040; 24687; 31867; 22411]%N ++ runes_of_ascii "` ,
    i32 msg_type, 
i8 f32a 
@lengthOf(
	falsey
	)

, @calculatedFrom( 
""CRC32""  )u8

    MetaDataX

    @calculatedFrom(""`tick`"" ),
    }
")).
Eval vm_compute in ("<<<M4109>>>" ++ check (runes_of_ascii "packet stringy {
    @tag(1)
    Logon @lengthOf(roots),
    @tag(4294967296)
    repeat leftPad {
        match metadata as u8x {
            4294967296 : pack,
            ""CRC32"" : f32a,
        },
    },
    match Logon as float {
        [""// no comment""] : roots,
        0123456789 : Pad,
    },
    repeat Foo {
        matchKey {
            zchar[4294967296] repeatCount `{ , }`,
        },
        uint64 int @lengthOf(float),
        match asx as trueish {
            ""// no comment"" : lengthOf,
            10 : As,
            3 : calculatedFrom,
            [7, 4294967296] : leftPad,
            4294967296 : BodyLength,
        },
    },
    i8 Packet,
    @calculatedFrom(""" ++ [128512]%N ++ runes_of_ascii """)
    Logon o,
    repeat u64 asx,
    @calculatedFrom(""a\""b"")
    repeat int8 MetaDataX,
    @calculatedFrom(""abc"")
    uint64 tag `line1
    line2`,
}")).
Eval vm_compute in ("<<<M896>>>" ++ check (runes_of_ascii "options
/// triple
// @lengthOf(
{ o = '\x00';
} packet tag {int16
    falsey// trailing space 
`two words`
,
    /// triple
    T	,
}  packet asx {
match T as	falsey
    {7
    :  x , } , zchar[ 4294967296] matchKey
    @calculatedFrom( // `tick` ""quote"" 'q'
""`tick`"")
`" ++ [233]%N ++ runes_of_ascii "` , @lengthOf(	calculatedFrom ) // " ++ [128512]%N ++ runes_of_ascii " emoji
crc {
repeat A
{	msg_type  ,	repeat
    char[] zchar
    `{ , }` ,  u16 pack , // " ++ [128512]%N ++ runes_of_ascii " emoji
u8 metadata @lengthOf( // a // b
leftPad ) `" ++ [28040; 24687; 31867; 22411]%N ++ runes_of_ascii "` , } , }
, msg_type {
    repeat
Foo{
    match Foo as  Pad// packet A { u8 x, }
{
    [ 65535 ] : //	t
charz ,[""`tick`"" ] :o
    ,
    255 :pack
    , },
    char[]	packetx , zchar[7	] i8i8 , } , //	t
}
, i8 chars , } root packet metadata// `tick` ""quote"" 'q'
{  match uint8x as
    u8x{ 65535 :
x_y_z ,} ,}MetaData leftPad { i32 u128 , } // " ++ [27880; 37322]%N)).
Eval vm_compute in ("<<<M4113>>>" ++ check (runes_of_ascii "packet leftPad {
    matchKey crc,
    @lengthOf(u128)
    repeat char[007] a1 `
    `,
    repeat Z9_ _x,
    @tag(42)
    @lengthOf(body)
    @lengthOf(uint8x)
    repeat As {
        matchKey,
        lengthOf @calculatedFrom(""it's""),
        repeat zchar[255] body,
        char[] u @lengthOf(A),
    },
    @leftPad('0')
    string body `// not a comment`,
}

packet x_y_z {
}

root packet T {
    repeat char[3] Logon,//x
    float @lengthOf(roots) `{ , }`,
    _x T ``,
}

packet Pad {
    @calculatedFrom(""packet"")
    u16 repeatCount @calculatedFrom(""" ++ [233]%N ++ runes_of_ascii "t" ++ [233]%N ++ runes_of_ascii """) `// not a comment`,
    @tag(3)
    zchar[4294967296] repeatCount,
}

MetaData body {
    u32 matchKey,
    T repeatCount `
    `,
    char[007] tag,
    i8i8 asx,
    int u8x,
    int32 Logon `say ""hi""`,
}")).
Eval vm_compute in ("<<<M3676>>>" ++ check (runes_of_ascii "options {
    StringPrefixLenType = u16;
    ArrayPrefixLenType = u32;
    FixedStringPadFromLeft = false;
    FixedStringPadChar = '0';
}

packet Logout {
    f64 f1,
    i16 Note,
    @rightPad('\x00')
    char[11] Flags,
}

packet Cancel {
    float64 msgKind,
}

packet Reject {
    InQty43 {
        float32 sym,
        char[10] Tail,
        uint8 venue,
        uint16 f1,
        char[9] Acct,
    },
}

packet Trade {
    char[] x,
    zchar[6] Note,
    repeat Reject,
}

root packet Order {
    Cancel,
    Logout,
    u64 Acct,
    u32 OrderId,
    match OrderId as Body {
        [127, 70] : Reject,
        177 : Trade,
        58 : Logout,
        75 : Cancel,
    },
    u32 Tail @calculatedFrom(""CR\
    C32""),
}")).
Eval vm_compute in ("<<<M793>>>" ++ check (runes_of_ascii "MetaData options1 { float64 //
msg_type
`say ""hi""`
    , u32 x,f64
// a // b
//	t
tag ,
} root packet
    chars
    /// triple
    {
}
    packet
    repeatCount { @lengthOf(
a1	) rootA @lengthOf( crc
// trailing space 
// @lengthOf(
) , } root
packet x
    {	chars @lengthOf( msg_type
    ) ,
    // trailing space 
    int16 metadata @lengthOf(
    // @lengthOf(
    Pad ) , @tag( 3) @lengthOf(
a1	)uint8
options1 ,
    repeat string _x `" ++ [233]%N ++ runes_of_ascii "`
,string f32a@calculatedFrom(
""{,}""
)
    `{ , }` ,@tag( 4294967296	) @calculatedFrom(""// no comment""
)@leftPad ( ) BodyLength
@lengthOf(
    falsey
    // a // b
    ) `a\`, /// triple
repeat string
int `
`
    // " ++ [27880; 37322]%N ++ runes_of_ascii "
    , u8
    lengthOf , }")).
Eval vm_compute in ("<<<M31>>>" ++ check (runes_of_ascii "packet options1
    {@leftPad
( )
    @calculatedFrom( ""\n"" )
    @leftPad (
' ' // " ++ [27880; 37322]%N ++ runes_of_ascii "
)
chars
T `say ""hi""` // " ++ [27880; 37322]%N ++ runes_of_ascii "
,
    // @lengthOf(
    repeat zchar
{  metadata {
// @lengthOf(
// c
match A as x_y_z {""1"" :
// " ++ [128512]%N ++ runes_of_ascii " emoji
// c
string_// @lengthOf(
[""// no comment""  ,
10 ] : Foo""a\\"": Packet [""a	b"",
    65535 ]
    :	x
,
}
,
} , } // " ++ [128512]%N ++ runes_of_ascii " emoji
,
@rightPad (
) f32
msg_type
    , match f32a as body { [
    ""`tick`"" , ""\n"" ,
    ""a	b"" ,
""{,}"" , 255 ,""x y"", 3
]:// @lengthOf(
x ,
    ""CRC32""
: zchar	, ""x y"" :
rootA // `tick` ""quote"" 'q'
[ 00
    ,
    ""it's""	, 4294967296 ,""CRC32"" ]:
roots 4294967296 : Logon}, @leftPad
('0')pack `crlf
line`
, }")).
Eval vm_compute in ("<<<M835>>>" ++ check (runes_of_ascii "root packet
x{
    // trailing space 
    @lengthOf(
u)// " ++ [27880; 37322]%N ++ runes_of_ascii "
@tag( 00 )
    @calculatedFrom(
""x y""// @lengthOf(
) float64 stringy@calculatedFrom(
"""" ) ,  @leftPad( '0'
) Pad @lengthOf( i8i8
    )
,
    match metadata
    as crc //	t
{ ""abc""
    : calculatedFrom ,// @lengthOf(
[1
, 3 ,	"""" , ""a	b"" ,
007
,""a\""b"",
    42
, ""it's"" ]
: msg_type , 4294967296// @lengthOf(
:
repeatCount
,[ 0 ] : T	, 4294967296:
f32a ,	42 :
u
    , } ,
    @leftPad(' ' ) uint64 A	@calculatedFrom(""`tick`"" ) , match
// c
//
roots as Packet { ""packet"" :
    uint8x//
, 0
: Packet},  } options
{  int = ""CRC32"" charz= ""CRC32""
Foo = true
    ; } 	 ")).
Eval vm_compute in ("<<<M3628>>>" ++ check (runes_of_ascii "  // c

	options{} packet	// `tick` ""quote"" 'q'
      msg_type{ T
@calculatedFrom( 
""it's"" 
)

,@tag(  00
    //

) match 
rootA
as 
        // a // b
	// `tick` ""quote"" 'q'
  charz  { 255:

roots
    [""1""

    ,7	, 00

    ]	: 
x } ,

    zchar[ 
007
        // c
	]

    u 
@calculatedFrom(
	    // trailing space 
      //x
  """ ++ [28040; 24687]%N ++ runes_of_ascii """ 
)
,	match repeatCount 
as Pad {[/// triple
  ""packet"" ,1
    ,4294967296	, ""1"" ,
	""x y""
,42

]  :	metadata

,

[

    3

    ,65535

    , """" ,
007 ,

""" ++ [233]%N ++ runes_of_ascii "t" ++ [233]%N ++ runes_of_ascii """, """ ++ [28040; 24687]%N ++ runes_of_ascii """, // c
		""CRC32"" 
        // " ++ [128512]%N ++ runes_of_ascii " emoji
    ]

    :

pack
""\" ++ [233]%N ++ runes_of_ascii """
	:	Packet} , }
")).
Eval vm_compute in ("<<<M410>>>" ++ check (runes_of_ascii "packet // " ++ [128512]%N ++ runes_of_ascii " emoji
u8x {
    @rightPad (
)
@lengthOf( u128 )
// a // b
// a // b
char[ 65535// packet A { u8 x, }
] i8i8 `{ , }` ,	}
    packet Packet {@lengthOf( Z9_ ) float32
MetaDataX
,
@tag(
3
    )
@calculatedFrom(
""" ++ [233]%N ++ runes_of_ascii "t" ++ [233]%N ++ runes_of_ascii """
    // packet A { u8 x, }
    )
@tag(0123456789 ) repeat
// c
// @lengthOf(
_x// c
i8i8
`// not a comment` , @calculatedFrom("""") //	t
MetaDataX
    // @lengthOf(
    @lengthOf( leftPad )
`" ++ [233]%N ++ runes_of_ascii "` ,u32 A	,  }
//x
// packet A { u8 x, }
MetaData
    o
//x
// `tick` ""quote"" 'q'
{ char[  4294967296 ]
    // " ++ [27880; 37322]%N ++ runes_of_ascii "
    falsey , A _x
, }")).
Eval vm_compute in ("<<<M1372>>>" ++ check (runes_of_ascii "root
packet stringy	{ repeat char[]
MetaDataX , @calculatedFrom(""CRC32""
) body  , @tag(// @lengthOf(
42 ) @rightPad (
' ' ) @rightPad (
    ) // packet A { u8 x, }
repeat u8x {  BodyLength@lengthOf(A ) ,	} ,match f32a
    as x_y_z{  4294967296
: Foo ,
}
// @lengthOf(
//x
, repeatCount
{ uint8 As
/// triple
// a // b
`a\` // a // b
,} , } packet  u{repeat// `tick` ""quote"" 'q'
char charz ,
} options {
    Header = char ;	}root
    packet  i64_ {
u8  Z9_
`
`,
@calculatedFrom( ""1""
)u128 float  , } options{_x
    =00 ;	}")).
Eval vm_compute in ("<<<M3602>>>" ++ check (runes_of_ascii "// top
root packet msg_type {
    // c3
    i64 options1,// c6
    @lengthOf(f32a)
    // c9
    repeat uint16 Foo,// c13
    @calculatedFrom(""x y"")
    // c16
    repeat int64 pack,// c20
    @leftPad(' ')
    // c24
    uint8 Foo,// c27
}// c28

packet rootA {
    // c31
    f32a x `two words`,// c35
    char asx @lengthOf(falsey) `u8 x,`,// c42
    @lengthOf(i64_)
    // c45
    uint16 chars,// c48
    @tag(0)
    // c51
    string _x @calculatedFrom(""abc"") `// not a comment`,// c58
}// c59")).
Eval vm_compute in ("<<<M816>>>" ++ check (runes_of_ascii "options {
Packet=
false ; BodyLength=
007
    //	t
    rootA =
char[	255 ] ; uint8x= true;
// trailing space 
//	t
}
    packet msg_type { @calculatedFrom(""a\""b"" ) @leftPad ( ) repeat
    char[]
rootA, char[	7 ]
    // a // b
    Packet
, @leftPad ( ' ' )
    u64
metadata @calculatedFrom( ""x y"") ,
@tag( 42 )match lengthOf as f32a{
[ ""// no comment"" ,""\" ++ [233]%N ++ runes_of_ascii """ ,42 , ""\n""]:	metadata,
// packet A { u8 x, }
//
4294967296
:
trueish ,
007:
rootA ,
007 :	float  """"  : body, }, }")).
Eval vm_compute in ("<<<M486>>>" ++ check (runes_of_ascii "packet Pad
{@lengthOf( len	)	zchar[10 ] int  `a\` , @tag( 007 )
string leftPad@lengthOf(	string_ )
, char[ 0123456789 ] len ,u32
    crc
`two words` ,
} root
packet u128 {zchar[ 00
    ]
A @calculatedFrom( ""\" ++ [233]%N ++ runes_of_ascii """
    )
    `line1
line2`
    , @tag(
10 )
char[] len	`" ++ [28040; 24687; 31867; 22411]%N ++ runes_of_ascii "`
,	@leftPad
    (
) @lengthOf(  A
) match crc as msg_type { 7 :
trueish }
    , @leftPad
    (
'0'
)
    f32a @calculatedFrom( ""// no comment"")// @lengthOf(
`crlf
line`
    ,  }
")).
Eval vm_compute in ("<<<M30>>>" ++ check (runes_of_ascii "packet  chars { zchar[ 10
    ]x
@lengthOf( repeatCount )
    ,
repeat
    metadata{
string int ,repeat
matchKey //x
, match leftPad as o { 0 : matchKey
    // " ++ [27880; 37322]%N ++ runes_of_ascii "
    ,
[ 0 ]
: float 0 : packetx// " ++ [128512]%N ++ runes_of_ascii " emoji
255 :i64_
    ,//	t
[0 , 007 , ""a\\"" ,
    //	t
    """ ++ [128512]%N ++ runes_of_ascii """
    ,
65535  , 255 ]
:
charz ,	255 : u,	} , },  @rightPad( ' ' )
// packet A { u8 x, }
// " ++ [128512]%N ++ runes_of_ascii " emoji
@tag( 255
) // c
@rightPad
(	' ' ) u16 falsey,}options
    { f32a
= """ ++ [128512]%N ++ runes_of_ascii """ ;	}
")).
Eval vm_compute in ("<<<M3648>>>" ++ check (runes_of_ascii "root packet pack {
    repeat u8x `a\`,
    char[3] MetaDataX `two words`,
    @leftPad(' ')
    zchar[4294967296] crc @calculatedFrom(""" ++ [128512]%N ++ runes_of_ascii """),
    @lengthOf(options1)
    @calculatedFrom(""x y"")
    repeat u {
        repeat x_y_z options1 `two words`,
        zchar[3] charz,
        Logon {
            u8 pack,
            repeat zchar,
            i8i8 {
                repeat u8 matchKey,
            },
        },
    },
}")).
Eval vm_compute in ("<<<M608>>>" ++ check (runes_of_ascii "packet asx{repeat
    falsey {  match lengthOf as T {
    [""\" ++ [233]%N ++ runes_of_ascii """
    ,42 ,  1
, ""// no comment"", """ ++ [28040; 24687]%N ++ runes_of_ascii """]
    :	x , 4294967296 :matchKey ,
7 :roots
    ,[ // `tick` ""quote"" 'q'
0123456789
,// " ++ [128512]%N ++ runes_of_ascii " emoji
""// no comment""
    // trailing space 
    ,0123456789 ,
3	, 0123456789
    , 65535, ""a\\"" , ""a	b"" ]
    : metadata , [ 65535 ] : asx , [""a	b"",
""a\\"" , 4294967296	] : x ,	}//
, } , @leftPad (  ) falsey T ,	}
")).
Eval vm_compute in ("<<<M367>>>" ++ check (runes_of_ascii "packet	T  {
/// triple
// @lengthOf(
@tag( 007 )
T
    @calculatedFrom( ""CRC32"")
//	t
//
, @tag( // " ++ [27880; 37322]%N ++ runes_of_ascii "
65535	) repeat
    tag { a1 @calculatedFrom( ""a\""b"" )	, }
,
As
    {
    char[ //	t
007 ] lengthOf , char[]x @lengthOf(crc )`` ,  repeat
i8
    matchKey , tag Z9_ , } ,repeat
// c
/// triple
uint64
zchar
    // packet A { u8 x, }
    `doc` ,	@tag(255
)repeat zchar[ 7 ]lengthOf
, }")).
Eval vm_compute in ("<<<M4298>>>" ++ check (runes_of_ascii "options {
    len = 255
    tag = """ ++ [233]%N ++ runes_of_ascii "t" ++ [233]%N ++ runes_of_ascii """
}

packet packetx {
}

options {
    repeatCount = '\x00';
    x = 4294967296
    len = false;
    A = false;
    Packet = """";
}

MetaData x {
    uint32 roots,
    lengthOf o `
        `,
    u32 x_y_z `line1
        line2`,
    int64 msg_type `crlf
        line`,
    string repeatCount `line1
        line2`,
    u128 stringy,
}")).
Eval vm_compute in ("<<<M3810>>>" ++ check (runes_of_ascii "  packet
i8i8	// " ++ [27880; 37322]%N ++ runes_of_ascii "
	  {
@calculatedFrom(	""" ++ [233]%N ++ runes_of_ascii "t" ++ [233]%N ++ runes_of_ascii """ 
)
@calculatedFrom(
""" ++ [28040; 24687]%N ++ runes_of_ascii """ ) repeat  leftPad	{uint64 A	@lengthOf(pack
	) ,  As
	@calculatedFrom(""\n""  ) `it's` ,	i64_ @calculatedFrom(	""" ++ [233]%N ++ runes_of_ascii "t" ++ [233]%N ++ runes_of_ascii """)

    ,u64 
u
    ,
}  , repeat 
u8
    /// triple
    	// a // b
    Logon `u8 x,`,
    options1 
@calculatedFrom(
"""") 
,repeat
string packetx
`{ , }`
,  //
		} ")).
Eval vm_compute in ("<<<M9>>>" ++ check (runes_of_ascii "options { i64_ =// a // b
""it's"" ;
Foo =  ""\n""	; x_y_z = '\x00';
len= '0'
}	root packet Packet
{ @tag(  0)  match	crc
as A// " ++ [27880; 37322]%N ++ runes_of_ascii "
{[ ""`tick`"",
    ""`tick`""
// @lengthOf(
// a // b
, ""packet""
,
    ""CRC32""
    ,
// " ++ [27880; 37322]%N ++ runes_of_ascii "
//
""\n""
,""a\\""
,
    255 ]
    : T // c
} // @lengthOf(
, repeat float64 x,
zchar[ 00 // `tick` ""quote"" 'q'
] chars,
} //	t")).
Eval vm_compute in ("<<<M3645>>>" ++ check (runes_of_ascii "options {
}

packet chars {
    int64 i8i8 @calculatedFrom(""// no comment"") `line1
        line2`,
    @calculatedFrom(""`tick`"")
    _x `" ++ [28040; 24687; 31867; 22411]%N ++ runes_of_ascii "`,
    match float as BodyLength {
        //
        """ ++ [28040; 24687]%N ++ runes_of_ascii """ : x_y_z,
        [
            7, 10, 1, 3, """ ++ [233]%N ++ runes_of_ascii "t" ++ [233]%N ++ runes_of_ascii """,
            ""x y""
        ] : i64_,
    },// a // b
}

packet uint8x {
}// " ++ [27880; 37322]%N)).
Eval vm_compute in ("<<<M733>>>" ++ check (runes_of_ascii "packet // a // b
zchar {
    char[] trueish @calculatedFrom(
""CRC32""// `tick` ""quote"" 'q'
), char[]
    /// triple
    MetaDataX
, u8x @lengthOf(leftPad ) `
`
/// triple
// c
, @leftPad (  '\x00' )u32 u8x
,} root packet metadata
{ repeat As , // c
uint64 trueish , x `two words`,}
options {metadata =  '0' ; }
")).
Eval vm_compute in ("<<<M3806>>>" ++ check (runes_of_ascii "
// top
  packet	// c0a
	// c0b
B 	 // c1a
// c1b
      {u8 	 // c3a
	// c3b
	a // c4
    ,

    string 
	    // c6

	s 
,	// c8
    }  // c9
    root 
  // c10
	packet  // c11
    P  // c12
    {u16	L
	@lengthOf(	B

), 	 // c19
  B 	 // c20a
  	// c20b
    , u8 
    // c22
t , 
} 	 // c25
")).
Eval vm_compute in ("<<<M1472>>>" ++ check (runes_of_ascii "root packet Foo // " ++ [128512]%N ++ runes_of_ascii " emoji
{ } options {
    // a // b
    tag // `tick` ""quote"" 'q'
= //	t
""""
    ; u8x packet zchar[0  ] }
MetaData
    int {zchar[ 10]
lengthOf	`` , i64 u8x`// not a comment` ,MetaDataX pack// `tick` ""quote"" 'q'
`crlf
line`
, Logon charz `crlf
line`
    ,
    // a // b
    }
")).
Eval vm_compute in ("<<<M1425>>>" ++ check (runes_of_ascii "root packet Foo // " ++ [128512]%N ++ runes_of_ascii " emoji
{ { } options {
    // a // b
    tag // `tick` ""quote"" 'q'
= //	t
""""
    ; u8x = zchar[0  ] }
MetaData
    int {zchar[ 10]
lengthOf	`` , i64 u8x`// not a comment` ,MetaDataX pack// `tick` ""quote"" 'q'
`crlf
line`
, Logon charz `crlf
line`
    ,
    // a // b
    }
")).
Eval vm_compute in ("<<<M1617>>>" ++ check (runes_of_ascii "root packet Foo // " ++ [128512]%N ++ runes_of_ascii " emoji
{ } options {
    // a // b
    tag // `tick` ""quote"" 'q'
= //	t
""""
    ; u8x = zchar[0  ] }
MetaData
    int {zchar[ 10]
lengthOf	`` , i64 u8x`// not a comment` ,MetaDataX pack// `tick` ""quote"" 'q'
`crlf
line`
, Logon charz `crlf
" ++ [8232]%N ++ runes_of_ascii "line`
    ,
    // a // b
    }
")).
Eval vm_compute in ("<<<M1537>>>" ++ check (runes_of_ascii "root packet Foo // " ++ [128512]%N ++ runes_of_ascii " emoji
{ } options {
    // a // b
    tag // `tick` ""quote"" 'q'
= //	t
""""
    ; u8x = zchar[0  ] }
MetaData
    int {zchar[ 10]
lengthOf	`` : i64 u8x`// not a comment` ,MetaDataX pack// `tick` ""quote"" 'q'
`crlf
line`
, Logon charz `crlf
line`
    ,
    // a // b
    }
")).
Eval vm_compute in ("<<<M1574>>>" ++ check (runes_of_ascii "root packet Foo // " ++ [128512]%N ++ runes_of_ascii " emoji
{ } options {
    // a // b
    tag // `tick` ""quote"" 'q'
= //	t
""""
    ; u8x = zchar[0  ] }
MetaData
    int {zchar[ 10]
lengthOf	`` , i64 u8x`// not a comment` ,MetaDataX pack// `tick` ""quote"" 'q'
`crlf
line`
 Logon charz `crlf
line`
    ,
    // a // b
    }
")).
Eval vm_compute in ("<<<M4169>>>" ++ check (runes_of_ascii "root packet packetx {
    uint32 x_y_z @calculatedFrom(""" ++ [233]%N ++ runes_of_ascii "t" ++ [233]%N ++ runes_of_ascii """),
    @calculatedFrom(""{,}"")
    float calculatedFrom `line1
    line2`,
    u16 Packet @lengthOf(f32a),
    char[] o `tab	here`,
    @calculatedFrom(""x y"")
    T {
        repeat i64 chars,
    },
    i16 roots,
}// @lengthOf(")).
Eval vm_compute in ("<<<M3652>>>" ++ check (runes_of_ascii "packet float {
    @lengthOf(pack)
    int16 string_,
}

options {
    leftPad = true;
    x = int16
    Foo = 00
    string_ = '\x00';
}

root packet Foo {
    packetx @lengthOf(i8i8) `tab	here`,
    int16 A,
    @lengthOf(trueish)
    repeat int zchar `a\`,
}

MetaData body {
}")).
Eval vm_compute in ("<<<M601>>>" ++ check (runes_of_ascii "
options { } root packet lengthOf { repeat//x
int
    , string trueish @lengthOf( MetaDataX ) `say ""hi""` , int64 x_y_z
// trailing space 
// packet A { u8 x, }
, } packet // a // b
calculatedFrom
{@tag( 10
// packet A { u8 x, }
/// triple
) zchar leftPad
`it's` , }")).
Eval vm_compute in ("<<<M302>>>" ++ check (runes_of_ascii "packet calculatedFrom {
    @lengthOf( zchar )	char[]// `tick` ""quote"" 'q'
chars
    `line1
line2` ,string
    Logon @calculatedFrom( ""it's""  ), matchKey `say ""hi""`, @lengthOf( T
    // c
    )
x_y_z @calculatedFrom(
    ""it's"" ) `// not a comment`	,
    }")).
Eval vm_compute in ("<<<M4448>>>" ++ check (runes_of_ascii "// top
		options
    // c0
    {
// c1
	FixedStringPadFromLeft = 
// c3
	true  // c4
; 
    // c5
    } 
// c6
  root
// c7
	packet
P // c9a
// c9b
  {
// c10
char[ 
	// c11
  4// c12a
// c12b
      ] z 

    // c14
, 	 // c15a

// c15b
  }")).
Eval vm_compute in ("<<<M3827>>>" ++ check (runes_of_ascii "packet _x {
    repeat packetx {
        match Pad as roots {
            ""// no comment"" : tag,
            [""" ++ [233]%N ++ runes_of_ascii "t" ++ [233]%N ++ runes_of_ascii """, ""\" ++ [233]%N ++ runes_of_ascii """] : As,
            3 : options1,
            3 : charz,
        },//
    },
    repeat Foo `line1
        line2`,
}")).
Eval vm_compute in ("<<<M3902>>>" ++ check (runes_of_ascii "MetaData Packet {
}

packet asx {
    @lengthOf(asx)
    falsey falsey `crlf
        line`,
}

packet x {
    uint32 rootA,
    u32 options1 `say ""hi""`,
    @tag(7)
    // packet A { u8 x, }
    msg_type @lengthOf(stringy),
}")).
Eval vm_compute in ("<<<M2261>>>" ++ check (runes_of_ascii "MetaData Packet { }packet	asx  { @lengthOf( asx) falsey falsey`crlf
line`
,
    }
    packet x	{uint32// @lengthOf(
rootA	,u32 options1 `say ""hi""` , @tag( 7
    )// packet A { u8 x, }
msg_type @lengthOf(
stringy	)	, }

")).
Eval vm_compute in ("<<<M4256>>>" ++ check (runes_of_ascii "packet u8x {
    // `tick` ""quote"" 'q'
    //x
    Pad @lengthOf(_x),
}

// `tick` ""quote"" 'q'
// c
packet body {
    @rightPad('\x00')
    asx `it's`,
}

packet u128 {
}

packet stringy {
    @rightPad()
    chars,
}")).
Eval vm_compute in ("<<<M2381>>>" ++ check (runes_of_ascii "MetaData Packet { }packet	asx  { @lengthOf( asx) falsey`crlf
line`
,
    }
    packet x	{uint32// @lengthOf(
rootA	,u32 options1 `say ""hi""` , @tag( 7
    )// packet A { u8 x, }
""msg_type @lengthOf(
stringy	)	, }

")).
Eval vm_compute in ("<<<M2327>>>" ++ check (runes_of_ascii "MetaData Packet { }packet	asx  { @lengthOf( asx) falsey`crlf
line`
,
    }
    packet x	{uint32// @lengthOf(
rootA	,u32 options1 `say ""hi""` @tag( , 7
    )// packet A { u8 x, }
msg_type @lengthOf(
stringy	)	, }

")).
Eval vm_compute in ("<<<M3488>>>" ++ check (runes_of_ascii "

  options	{	FixedStringPadChar

    = '0';
	}packet
    Q
{  zchar[

4	]	z

    , @rightPad
(
'\x00'

)

char[3] n,char[ 
5  ]

d
	, }root	packet
R
    { Q
    ,
zchar[
8  ]top
	,	repeat 
zchar[
2 
] zs,
	}")).
Eval vm_compute in ("<<<M2318>>>" ++ check (runes_of_ascii "MetaData Packet { }packet	asx  { @lengthOf( asx) falsey`crlf
line`
,
    }
    packet x	{uint32// @lengthOf(
rootA	,u32 """" `say ""hi""` , @tag( 7
    )// packet A { u8 x, }
msg_type @lengthOf(
stringy	)	, }

")).
Eval vm_compute in ("<<<M4093>>>" ++ check (runes_of_ascii "MetaData Packet {
}

packet asx {
    @lengthOf(asx)
    falsey `crlf
    line`,
}

packet x {
    uint32 rootA,
    u32 options1,
    @tag(7)
    // packet A { u8 x, }
    msg_type @lengthOf(stringy),
}")).
Eval vm_compute in ("<<<M680>>>" ++ check (runes_of_ascii "packet len{} options{
o =
uint32 ;
    uint8x
= 65535
    // trailing space 
    ; crc =
    true ;
    tag=
// " ++ [27880; 37322]%N ++ runes_of_ascii "
// a // b
i16 ; } packet
// `tick` ""quote"" 'q'
// " ++ [128512]%N ++ runes_of_ascii " emoji
u8x
{ pack body ,  }
")).
Eval vm_compute in ("<<<M480>>>" ++ check (runes_of_ascii "MetaData
    u
{ string_ BodyLength// packet A { u8 x, }
,
char T ``
,// " ++ [27880; 37322]%N ++ runes_of_ascii "
u128 Logon , string
crc
, u8 matchKey , u8  i64_ // packet A { u8 x, }
`" ++ [233]%N ++ runes_of_ascii "`
,
    // trailing space 
    } // c")).
Eval vm_compute in ("<<<M911>>>" ++ check (runes_of_ascii "MetaData leftPad	{ char[] x_y_z `say ""hi""` , }  options { string_
    // " ++ [128512]%N ++ runes_of_ascii " emoji
    = ""CRC32""
} options {_x = ""1"" ;Header= f64; }packet lengthOf
{ }	packet x_y_z
{
//x
// " ++ [27880; 37322]%N ++ runes_of_ascii "
} //")).
Eval vm_compute in ("<<<M4317>>>" ++ check (runes_of_ascii "packet
	lengthOf {  options1 {  calculatedFrom`line1
line2` ,

}
	,

    @tag(
    4294967296

)

    match

_x	as msg_type

{ ""\" ++ [233]%N ++ runes_of_ascii """ 	 // @lengthOf(
	:o
    , }  ,
}
")).
Eval vm_compute in ("<<<M640>>>" ++ check (runes_of_ascii "root  packet calculatedFrom {@rightPad	( )
    match pack
as
repeatCount //
{ 007 : pack , } ,	}
options{
As =	00
    //	t
    T
    = '\x00' ;	pack =
    00 } // c")).
Eval vm_compute in ("<<<M1252>>>" ++ check (runes_of_ascii "  root packet pack  {
    /// triple
    @calculatedFrom(
""it's"" ) //
zchar[ 0123456789
    ] packetx
@calculatedFrom( ""CRC32"" ) , char[]
BodyLength , }
// c
")).
Eval vm_compute in ("<<<M4048>>>" ++ check (runes_of_ascii "packet A {
    Inner {
        match k as n {
            [
                1, 22, 007, 4, 5,
                66
            ] : B,
        },
    },
}")).
Eval vm_compute in ("<<<M1296>>>" ++ check (runes_of_ascii "packet
    u128 { u128  @lengthOf( matchKey
)
,	u64 //x
crc	`a\`
,@calculatedFrom(
""x y"" )
float32 zchar  ,
repeat char[007 ] uint8x ,
a1
, }
")).
Eval vm_compute in ("<<<M1688>>>" ++ check (runes_of_ascii "root packet /// triple
rootA {	i32
MetaDataX@calculatedFrom( ""CRC32"" ) `line1
line2` , } MetaData BodyLength BodyLength {
u8
rootA, } // c")).
Eval vm_compute in ("<<<M4395>>>" ++ check (runes_of_ascii "

  packet	calculatedFrom

    {@tag( 4294967296 )u

    msg_type
, char[ 3
    ]
    crc@lengthOf( // c

len
)
    `u8 x,`
    ,	}")).
Eval vm_compute in ("<<<M3390>>>" ++ check (runes_of_ascii "// top
MetaData // c0
_x // c1
{ // c2
zchar[ // c3
4294967296 // c4
] // c5
lengthOf // c6
`// not a comment` // c7
, // c8
} // c9
")).
Eval vm_compute in ("<<<M1678>>>" ++ check (runes_of_ascii "root packet /// triple
rootA {	i32
MetaDataX@calculatedFrom( ""CRC32"" ) `line1
line2` , } } MetaData BodyLength {
u8
rootA, } // c")).
Eval vm_compute in ("<<<M1674>>>" ++ check (runes_of_ascii "root packet /// triple
rootA {	i32
MetaDataX@calculatedFrom( ""CRC32"" ) `line1
line2` } , MetaData BodyLength {
u8
rootA, } // c")).
Eval vm_compute in ("<<<M888>>>" ++ check (runes_of_ascii "MetaData u8x {
_x Z9_, char[ 7] Logon `it's` ,char[] zchar ,
    u
Z9_`two words`
, u16 f32a `a\` , zchar[ 42 ]
    f32a ,}
")).
Eval vm_compute in ("<<<M1650>>>" ++ check (runes_of_ascii "root packet /// triple
rootA {	i32
int32@calculatedFrom( ""CRC32"" ) `line1
line2` , } MetaData BodyLength {
u8
rootA, } // c")).
Eval vm_compute in ("<<<M1346>>>" ++ check (runes_of_ascii "MetaData
    Logon {string
uint8x , msg_type
    Z9_  `{ , }`
    , f64 As`it's`
//x
// packet A { u8 x, }
, uint8	o , }
")).
Eval vm_compute in ("<<<M1811>>>" ++ check (runes_of_ascii "packet
    Pad // a // b
{ i8i8 @calculatedFrom( ""a	b"") ) `u8 x,` ,
} options{ float// " ++ [128512]%N ++ runes_of_ascii " emoji
= f64 i64_
=//	t
00 }
")).
Eval vm_compute in ("<<<M3055>>>" ++ check (runes_of_ascii "packet A {
    match k as n {
        ""x\
y"" : B,
        [""x\
y"", 1] : C,
        [1,2,3,4,5,""x\
y""] : D,
    },
}")).
Eval vm_compute in ("<<<M3728>>>" ++ check (runes_of_ascii "packet 
A 
{
    u16
	len
@lengthOf(
	body	)

`
x` ,
u32
    crc@calculatedFrom( ""CRC32""
	) `
x`
,	string  body,
} ")).
Eval vm_compute in ("<<<M4133>>>" ++ check (runes_of_ascii "// `tick` ""quote"" 'q'
  packet
As {
	u64 msg_type  ,

    @lengthOf( trueish
	)

lengthOf
int  `a\` , //
      }")).
Eval vm_compute in ("<<<M1840>>>" ++ check (runes_of_ascii "packet
    Pad // a // b
{ i8i8 @calculatedFrom( ""a	b"") `u8 x,` ,
} options{ // " ++ [128512]%N ++ runes_of_ascii " emoji
= f64 i64_
=//	t
00 }
")).
Eval vm_compute in ("<<<M1391>>>" ++ check (runes_of_ascii "options
{
x_y_z =
    uint32 asx = float64 body  = '0'
u = '\x00' ; Header = '0'
;  }
    options { } // " ++ [27880; 37322]%N)).
Eval vm_compute in ("<<<M1803>>>" ++ check (runes_of_ascii "packet
    Pad // a // b
{ i8i8 int16 ""a	b"") `u8 x,` ,
} options{ float// " ++ [128512]%N ++ runes_of_ascii " emoji
= f64 i64_
=//	t
00 }
")).
Eval vm_compute in ("<<<M2997>>>" ++ check (runes_of_ascii "packet A {
  match k as n {
    [1, 22, ""c c"", 4, 5, ""f"", 7, 8, ""i"", 10, 11, ""l""] : B,
    2 : C
  },
}")).
Eval vm_compute in ("<<<M3367>>>" ++ check (runes_of_ascii "packet calculatedFrom { @tag( 4294967296 ) u msg_type , char[ 3 ] crc @lengthOf( len // c
) `u8 x,` , }")).
Eval vm_compute in ("<<<M2981>>>" ++ check (runes_of_ascii "packet A {
  match k as n {
    [1, ""bb"", 007, ""d"", 5, ""f"", 7, ""h"", 9, ""j"", 11] : B
    2 : C
  },
}")).
Eval vm_compute in ("<<<M2985>>>" ++ check (runes_of_ascii "packet A {
  match k as n {
    [1, 22, ""c c"", 4, 5, ""f"", 7, 8, ""i"", 10, 11] : B
    2 : C
  },
}")).
Eval vm_compute in ("<<<M3217>>>" ++ check (runes_of_ascii "packet
// c
Logon { @tag( 42 ) @rightPad ( ' ' ) @leftPad ( ) repeat trueish { string T , } , }")).
Eval vm_compute in ("<<<M3249>>>" ++ check (runes_of_ascii "packet Logon { @tag( 42 ) @rightPad ( ' ' ) @leftPad ( ) repeat trueish { string
// c
T , } , }")).
Eval vm_compute in ("<<<M2976>>>" ++ check (runes_of_ascii "packet A {
  match k as n {
    [1, 22, 007, 4, 5, 66, 7, 8, 9, 10, 11] : B,
    2 : C
  },
}")).
Eval vm_compute in ("<<<M2943>>>" ++ check (runes_of_ascii "packet A {
  match k as n {
    [""a"", 22, ""c c"", 4, ""e"", 66, ""g"", 8] : B,
    2 : C
  },
}")).
Eval vm_compute in ("<<<M1256>>>" ++ check (runes_of_ascii "options { leftPad= 42 matchKey
= ""CRC32"" // `tick` ""quote"" 'q'
; lengthOf = ""{,}"" ;
}
")).
Eval vm_compute in ("<<<M2914>>>" ++ check (runes_of_ascii "packet A {
  match k as n {
    [""a"", ""bb"", ""c c"", ""d"", ""e"", ""f""] : B
    2 : C
  },
}")).
Eval vm_compute in ("<<<M1971>>>" ++ check (runes_of_ascii "root
packet crc
     f32a @calculatedFrom( """ ++ [233]%N ++ runes_of_ascii "t" ++ [233]%N ++ runes_of_ascii """ )
    `say ""hi""`, lengthOf `` ,  }")).
Eval vm_compute in ("<<<M3293>>>" ++ check (runes_of_ascii "
// c
packet o { @tag( 42 ) repeat x { char[ 0123456789 ] i64_ , } , } options { }")).
Eval vm_compute in ("<<<M3308>>>" ++ check (runes_of_ascii "packet o { @tag( 42 ) repeat x // c
{ char[ 0123456789 ] i64_ , } , } options { }")).
Eval vm_compute in ("<<<M1876>>>" ++ check (runes_of_ascii "packet
    Pad // a // b
{ i8i8 @calculatedFrom( ""a	b"") `u8 x,` ,
} options{ fl")).
Eval vm_compute in ("<<<M2009>>>" ++ check (runes_of_ascii "root
packet crc
    { f32a @calculatedFrom( """ ++ [233]%N ++ runes_of_ascii "t" ++ [233]%N ++ runes_of_ascii """ )
    `say ""hi""`, } `` ,  }")).
Eval vm_compute in ("<<<M332>>>" ++ check (runes_of_ascii "options
    { packetx =
    ' ' ;}options {	falsey =
// " ++ [128512]%N ++ runes_of_ascii " emoji
// c
00 ; }")).
Eval vm_compute in ("<<<M2177>>>" ++ check (runes_of_ascii "root
    // `tick` ""quote"" 'q'
    packet As { trueish Packet Packet , }
")).
Eval vm_compute in ("<<<M4178>>>" ++ check (runes_of_ascii "// c
MetaData _x {
    zchar[4294967296] lengthOf `// not a comment`,
}")).
Eval vm_compute in ("<<<M3412>>>" ++ check (runes_of_ascii "MetaData _x { zchar[ 4294967296 ] lengthOf `// not a comment` ,
// c
}")).
Eval vm_compute in ("<<<M2197>>>" ++ check (runes_of_ascii "# root
    // `tick` ""quote"" 'q'
    packet As { trueish Packet , }
")).
Eval vm_compute in ("<<<M918>>>" ++ check (runes_of_ascii "MetaData u128 {options1 // a // b
falsey ,
zchar[ 007 //
] x
, }
")).
Eval vm_compute in ("<<<M2166>>>" ++ check (runes_of_ascii "root
    // `tick` ""quote"" 'q'
    packet As  trueish Packet , }
")).
Eval vm_compute in ("<<<M3266>>>" ++ check (runes_of_ascii "// top
options // c0
{ // c1
u8x // c2
= // c3
3 // c4
} // c5
")).
Eval vm_compute in ("<<<M3856>>>" ++ check (runes_of_ascii "packet msg_type {
    repeat string BodyLength `two words`,
}")).
Eval vm_compute in ("<<<M3462>>>" ++ check (runes_of_ascii "root packet P {
    repeat string ss,
    repeat u16 ns,
}
")).
Eval vm_compute in ("<<<M2858>>>" ++ check (runes_of_ascii "packet A {
  match k as n {
    [1] : B,
    2 : C
  },
}")).
Eval vm_compute in ("<<<M1907>>>" ++ check (runes_of_ascii "
packet	As @calculatedFrom( {//x
""{,}""	)lengthOf , } 	 ")).
Eval vm_compute in ("<<<M3178>>>" ++ check (runes_of_ascii "packet A { repeat // a
 B // b
 b // c
 `d` // e
 , }")).
Eval vm_compute in ("<<<M1759>>>" ++ check (runes_of_ascii "options { }options '\x00'  } // `tick` ""quote"" 'q'")).
Eval vm_compute in ("<<<M2820>>>" ++ check (runes_of_ascii "match char[] , uint64 as i64 root uint32 MetaData")).
Eval vm_compute in ("<<<M1762>>>" ++ check (runes_of_ascii "options { }options {  } } // `tick` ""quote"" 'q'")).
Eval vm_compute in ("<<<M2414>>>" ++ check (runes_of_ascii "MetaData A
{
i64
a" ++ [769]%N ++ runes_of_ascii "b	, } // `tick` ""quote"" 'q'")).
Eval vm_compute in ("<<<M1990>>>" ++ check (runes_of_ascii "root
packet crc
    { f32a @calculatedFrom(")).
Eval vm_compute in ("<<<M397>>>" ++ check (runes_of_ascii "
options { string_
=
    zchar[ 007
] ; }")).
Eval vm_compute in ("<<<M3189>>>" ++ check (runes_of_ascii "
// c
MetaData zchar { zchar[ 3 ] Pad , }")).
Eval vm_compute in ("<<<M2761>>>" ++ check (runes_of_ascii "int8 @calculatedFrom( packet i32 ) as u8")).
Eval vm_compute in ("<<<M2141>>>" ++ check (runes_of_ascii "`MetaData x
{// " ++ [128512]%N ++ runes_of_ascii " emoji
i16 stringy , }")).
Eval vm_compute in ("<<<M2652>>>" ++ check (runes_of_ascii "MetaData M { match k as n { 1 : B }, }")).
Eval vm_compute in ("<<<M3181>>>" ++ check (runes_of_ascii "packet A { u8 x,// a


// b

 u8 y, }")).
Eval vm_compute in ("<<<M2696>>>" ++ check (runes_of_ascii "Ql.'X9""L&.Qjt%tErjR_Lrg0|C7=a^RM`;F")).
Eval vm_compute in ("<<<M2151>>>" ++ check (runes_of_ascii "MetaData x
{// " ++ [128512]%N ++ runes_of_ascii " emoji
i16 " ++ [21517; 23383]%N ++ runes_of_ascii " , }")).
Eval vm_compute in ("<<<M3801>>>" ++ check (runes_of_ascii "packet A {
    u8 x `d" ++ [65279]%N ++ runes_of_ascii "`,// c" ++ [65279]%N ++ runes_of_ascii "
}")).
Eval vm_compute in ("<<<M2802>>>" ++ check (runes_of_ascii "C" ++ [2]%N ++ runes_of_ascii "R" ++ [65533]%N ++ runes_of_ascii "L" ++ [16; 15; 65533; 65533; 65533]%N ++ runes_of_ascii "^o\8" ++ [65533; 65533]%N ++ runes_of_ascii "+Y" ++ [65533; 65533]%N ++ runes_of_ascii "9" ++ [65533; 65533]%N ++ runes_of_ascii "A" ++ [65533; 65533; 28]%N ++ runes_of_ascii "2+" ++ [15]%N)).
Eval vm_compute in ("<<<M2244>>>" ++ check (runes_of_ascii "MetaData Packet { }packet	asx")).
Eval vm_compute in ("<<<M266>>>" ++ check (runes_of_ascii "options
{Packet=
char[] }")).
Eval vm_compute in ("<<<M2077>>>" ++ check (runes_of_ascii "MetaData A { u64 pack, } }")).
Eval vm_compute in ("<<<M2192>>>" ++ check (runes_of_ascii "root
    // `tick` ""quote")).
Eval vm_compute in ("<<<M2078>>>" ++ check (runes_of_ascii "MetaData A { u64 pack, (")).
Eval vm_compute in ("<<<M2071>>>" ++ check (runes_of_ascii "MetaData A { u64 pack }")).
Eval vm_compute in ("<<<M2561>>>" ++ check (runes_of_ascii "packet A { repeat u8 }")).
Eval vm_compute in ("<<<M3154>>>" ++ check (runes_of_ascii "// a// bpacket A {}")).
Eval vm_compute in ("<<<M876>>>" ++ check (runes_of_ascii "// @lengthOf(
 //	t")).
Eval vm_compute in ("<<<M2656>>>" ++ check (runes_of_ascii "options { a = b; }")).
Eval vm_compute in ("<<<M3116>>>" ++ check (runes_of_ascii "packet A {
}
// c" ++ [11]%N)).
Eval vm_compute in ("<<<M2794>>>" ++ check (runes_of_ascii "?" ++ [65533]%N ++ runes_of_ascii "c" ++ [65533; 65533; 65533; 65533; 65533; 15; 65533; 65533]%N ++ runes_of_ascii "g" ++ [65533; 65533; 1439; 26]%N ++ runes_of_ascii "'")).
Eval vm_compute in ("<<<M2657>>>" ++ check (runes_of_ascii "options { a 1; }")).
Eval vm_compute in ("<<<M2083>>>" ++ check (runes_of_ascii "MetaData A { u")).
Eval vm_compute in ("<<<M2556>>>" ++ check (runes_of_ascii """" ++ [233]%N ++ runes_of_ascii """ `" ++ [21517]%N ++ runes_of_ascii "` // " ++ [252]%N)).
Eval vm_compute in ("<<<M1940>>>" ++ check (runes_of_ascii "
packet	A")).
Eval vm_compute in ("<<<M2457>>>" ++ check (runes_of_ascii "strings")).
Eval vm_compute in ("<<<M3125>>>" ++ check (runes_of_ascii "// c 	")).
Eval vm_compute in ("<<<M3065>>>" ++ check (runes_of_ascii "// c" ++ [12288]%N)).
Eval vm_compute in ("<<<M2520>>>" ++ check (runes_of_ascii "`
`")).
Eval vm_compute in ("<<<M2529>>>" ++ check (runes_of_ascii "a-b")).
Eval vm_compute in ("<<<M2545>>>" ++ check (runes_of_ascii "	a")).
