From FP Require Import Lexer Parser ShowPT Digest Formatter.
From Coq Require Import String List NArith.
Import ListNotations.
Open Scope string_scope.
Set Printing Width 100000000.
Set Printing Depth 100000000.
Definition show_fres (r : fres) : string :=
  match r with
  | FOk s => "OK:" ++ sh_escaped s ""
  | FErr s => "ERR:" ++ sh_escaped s ""
  | FPanic p => "PANIC:" ++ p
  end.
Definition check (rs : list rune) : string := digest (show_fres (format_res rs)).
Definition full (rs : list rune) : string := show_fres (format_res rs).
Eval vm_compute in ("<<<M226>>>" ++ check (runes_of_ascii "root packet Foo { @tag(00	)
char[] _x
@calculatedFrom(
    // trailing space 
    ""{,}"" ) ,@rightPad	( '0' )f32 Pad@calculatedFrom( ""abc""
// @lengthOf(
// " ++ [27880; 37322]%N ++ runes_of_ascii "
)
, @rightPad
    ( '0' )  repeat falsey string_
// @lengthOf(
// " ++ [128512]%N ++ runes_of_ascii " emoji
`{ , }` , @calculatedFrom( ""abc"" )//
@tag(
00 ) rootA@calculatedFrom( ""it's"" ), BodyLength/// triple
lengthOf `doc` , Z9_{ f64 Z9_ ,T
charz
    `" ++ [233]%N ++ runes_of_ascii "`
, x {
tag crc,
    repeat uint32	chars
, zchar[ 0123456789 ]roots ,
int64 charz@calculatedFrom(
    ""it's"" ) `" ++ [28040; 24687; 31867; 22411]%N ++ runes_of_ascii "` ,} , i8 msg_type//	t
@lengthOf( options1 )
,
    } ,
    repeat MetaDataX { matchKey i64_ , string tag @lengthOf(
    msg_type )// trailing space 
, tag { string f32a
,// " ++ [27880; 37322]%N ++ runes_of_ascii "
match crc as u128
{	4294967296  :
    Z9_ ,""" ++ [28040; 24687]%N ++ runes_of_ascii """ : a1 ,//	t
65535 : T , [ ""CRC32"" ,
1
, ""packet"" ]
: x_y_z , } ,	string matchKey @calculatedFrom(""" ++ [28040; 24687]%N ++ runes_of_ascii """ ) `two words`	, } , char[ 65535 // trailing space 
] Header@calculatedFrom( ""CRC32"" ) `// not a comment` ,
} ,match
Foo as metadata	{
[""1"" ,
//	t
// " ++ [27880; 37322]%N ++ runes_of_ascii "
""""
] :  metadata	[ 0123456789  ] : tag ,
""1"" :  T
//	t
// a // b
4294967296
    :x , // packet A { u8 x, }
0 :
trueish ,	""{,}"" :  metadata , // a // b
}, zchar[255
]
    u128
@lengthOf(float ) ,// trailing space 
} packet a1
{ @rightPad ( ' ' ) @tag( 7//x
)@tag( 10 )
//	t
// trailing space 
Header { Packet @lengthOf( lengthOf ) , string
options1
,
match zchar as pack
{ """" :o , """ ++ [28040; 24687]%N ++ runes_of_ascii """ :	leftPad  , """ ++ [28040; 24687]%N ++ runes_of_ascii """ :
crc } ,	Z9_
//x
// trailing space 
{
    //
    len//	t
int ,  } ,
    },}
")).
Eval vm_compute in ("<<<M107>>>" ++ check (runes_of_ascii "packet chars
{
    i8 Z9_ ,
match
// " ++ [128512]%N ++ runes_of_ascii " emoji
//	t
zchar
    as Logon
{ 00	: i8i8[
    ""// no comment""
, 42
    , 10 , ""it's"" , 4294967296
, ""`tick`"" ,
    ""x y"" , ""a\""b"" ]
    :leftPad [ ""\" ++ [233]%N ++ runes_of_ascii """ ]: A [ ""abc"" /// triple
, ""1""
    ] :
zchar ,	3 :
x,
    3 :
x_y_z , }
    , uint8x // a // b
@calculatedFrom(
    ""{,}"" )//x
, } // `tick` ""quote"" 'q'
packet calculatedFrom { int32
T, @lengthOf( float ) f32a len , @calculatedFrom(""" ++ [233]%N ++ runes_of_ascii "t" ++ [233]%N ++ runes_of_ascii """
    ) int32 f32a
@lengthOf( // c
matchKey
) `" ++ [233]%N ++ runes_of_ascii "`
, charz @calculatedFrom( ""x y""),} root packet stringy //	t
{ @lengthOf( Logon )
int64 len
    //x
    @calculatedFrom( // `tick` ""quote"" 'q'
""CRC32"") , T // " ++ [27880; 37322]%N ++ runes_of_ascii "
@calculatedFrom( ""1"" ) `line1
line2`, @tag( 255 )
    @tag( 7 )@tag(
007
)repeat
packetx len
//	t
// packet A { u8 x, }
, @tag(
1 ) repeat  zchar[
0] float , //
@lengthOf(
    lengthOf ) repeat x_y_z {char[ 10]u `
`
    , MetaDataX a1
    `u8 x,`  , }  , @tag( 1 ) string repeatCount `" ++ [28040; 24687; 31867; 22411]%N ++ runes_of_ascii "`,
int8 int @calculatedFrom(
""// no comment""
) , } packet
    asx
{
    @leftPad ( '\x00' )
char[
    00]
u8x @calculatedFrom( """ ++ [233]%N ++ runes_of_ascii "t" ++ [233]%N ++ runes_of_ascii """ ) , zchar[007 ] asx @calculatedFrom(
""" ++ [128512]%N ++ runes_of_ascii """)	,repeat MetaDataX metadata
    `
`,
    } 	 ")).
Eval vm_compute in ("<<<M1568>>>" ++ check (runes_of_ascii "options {
    StringPrefixLenType = u8;
    ArrayPrefixLenType = u8;
    FixedStringPadFromLeft = true;
    FixedStringPadChar = ' ';
}

packet Logout {
    repeat string Px,
    repeat string seqNo,
    InMsgkind64 {
        uint16 OrderId,
        char[] count,
        repeat i32 venue,
    },
}

packet Heartbeat {
    float32 tag7,
    repeat InPrice50 {
        repeat char[5] lastPx,
        InRef42 {
            u8 pad0,
        },
        uint32 Acct,
        repeat Logout,
        repeat char[5] Qty,
    },
    repeat InSeqno30 {
        repeat Logout,
    },
    @leftPad('0')
    char[12] Acct,
    char[] Side2,
    repeat string msgKind,
}

packet Ack {
    Heartbeat,
    char[8] seqNo,
    float64 clOrdID,
}

packet Trade {
    char[] OrderId,
    f64 Side2,
    zchar[8] f1,
    string Qty,
    float64 seqNo,
    repeat Logout,
}

packet Order {
    f32 OrderId,
    repeat u8 x,
    Ack,
    zchar[7] Note,
}

root packet Logon {
    @rightPad('\x00')
    char[9] f1,
}")).
Eval vm_compute in ("<<<M1805>>>" ++ check (runes_of_ascii "
root

packet
body
{ 	 /// triple
    	crc

    x_y_z `say ""hi""`
,  float // `tick` ""quote"" 'q'
  _x ,T  // " ++ [128512]%N ++ runes_of_ascii " emoji
    `a\` 

    // " ++ [27880; 37322]%N ++ runes_of_ascii "
  ,uint64 MetaDataX	, repeat

zchar[7
	]calculatedFrom
``
,
uint32
len 

// c
    // @lengthOf(

`a\`  , }	/// triple
  options
	{
	} packet
    a1
    {

    @tag(
1)	Logon

@lengthOf( options1
)
`{ , }`
,
    @calculatedFrom(
	""abc"") 
/// triple
		f32a// " ++ [27880; 37322]%N ++ runes_of_ascii "
    {	leftPad {// trailing space 
      o
matchKey ``	, }
	,

    int32 
int 
	    // c
	// @lengthOf(
    ``,

char[  007 ]
zchar
	@lengthOf( Z9_)
`tab	here`

    ,char[  1
    ]
	falsey

    ,},

    repeat int16  Z9_ 
, match zchar
as zchar 
{""packet"":x_y_z,  [ 3 

// " ++ [128512]%N ++ runes_of_ascii " emoji
,

""CRC32""
    ,	0

, ""CRC32"" //

,
0123456789
]  :

    len
,

[ 
0

, 4294967296] : Packet

, [
65535
    ]
:
    options1

[
	10 ]	//	t
  : u128
    ,
	}

,  // packet A { u8 x, }
}")).
Eval vm_compute in ("<<<M1927>>>" ++ check (runes_of_ascii "  packet
    Pad  { char[	007
	] string_
    ,	// @lengthOf(
		@lengthOf( zchar )

    string
    rootA

    ,
    @lengthOf( T )  char	trueish @lengthOf(zchar	)`line1
line2`
,
repeat 
f64

    calculatedFrom ,
@calculatedFrom(

""it's"") leftPad

    `it's` ,
stringy {
	int8 Packet	@lengthOf(  metadata  )	`tab	here`, A

,
	match charz  as uint8x{	3 :

    MetaDataX ,
1:
//	t
    charz
	""a	b"" 
: 
//x
msg_type,
	//x
[
	0 
,
10
,""// no comment""
,

""\" ++ [233]%N ++ runes_of_ascii """

    ]
	: A

    ,	// @lengthOf(
""\n"" :
trueish
,

    } ,

    }, @calculatedFrom(	""a\\"" )	char[

    7

]u

@calculatedFrom( ""a\\""

)  , 
    //	t
@tag(
    7  )
o{
As
`it's`,}	,  } packet

    u

{
    }
	packet

    stringy {
@tag( 0123456789	) string

    pack	@lengthOf(

    Pad ) ,}")).
Eval vm_compute in ("<<<M2017>>>" ++ check (runes_of_ascii "options

{
    LittleEndian
=

false
    ;  StringPrefixLenType=

    u16	; ArrayPrefixLenType
=  u32
    ;}

packet

Order{uint8
x
, repeat	string  venue ,
    } packet

    Heartbeat {
    i64
    count,
	zchar[ 1
] Qty
, repeat
InX29  {  InSeqno26{
int64
f1

, 
char[ 
5 ]  Acct	,Order	,

    } ,

    repeat
	InSide285 {
	repeat 
Order	,	char[10 ]

Px
,  zchar[9 ]

OrderId
,

    }	,
    char[]
	venue,	Order 
,}
    ,
@rightPad
('\x00'
)
	char[	4]	clOrdID 
,  } root

packet
Party
{zchar[
    3  ]f1
	,
    u32
clOrdID ,
u32
    Px @lengthOf(  Body

) , 
match

    clOrdID
    as 
Body {
[  180 , 64 
]

: Heartbeat
    ,11 :
    Order
    ,  },u32 Side2	@calculatedFrom( 
""CR\
C32""

) ,
}
")).
Eval vm_compute in ("<<<M333>>>" ++ check (runes_of_ascii "// a // b
packet matchKey{
@rightPad( // c
' ' // trailing space 
)
@tag(007) @lengthOf( float )
repeat	packetx ,
    // @lengthOf(
    @calculatedFrom(""a\""b"" )/// triple
@tag(
    255 )@tag( 00 )
    Pad
    @calculatedFrom(
""" ++ [28040; 24687]%N ++ runes_of_ascii """ ) `{ , }` , } root
packet
string_
    { repeat Logon
//
//x
{ match Z9_ as float {
""packet""
: packetx
    , [
""CRC32"" , 42 // a // b
,	00
    // `tick` ""quote"" 'q'
    , ""packet"" //
] : Foo, """ ++ [28040; 24687]%N ++ runes_of_ascii """ : BodyLength , [
""CRC32""] : x_y_z	,
    00 :
    packetx, 7 : rootA , } ,
}
, repeat
    // c
    metadata { u16 Logon `
` ,
    matchKey @calculatedFrom(
"""" //	t
) , repeat// c
char[]leftPad,
} , }
")).
Eval vm_compute in ("<<<M153>>>" ++ check (runes_of_ascii "packet  BodyLength { @rightPad // packet A { u8 x, }
()
i32 packetx
@lengthOf( leftPad) ,  @lengthOf( MetaDataX
    ) leftPad
    ,
    _x {
match
zchar as zchar {
    [ // `tick` ""quote"" 'q'
""a\\"" ]
: crc """ ++ [28040; 24687]%N ++ runes_of_ascii """ :
Foo ,  1 : trueish ,	42 : rootA , [ 4294967296
// @lengthOf(
// `tick` ""quote"" 'q'
]
    //	t
    :
    float
    // " ++ [128512]%N ++ runes_of_ascii " emoji
    ""a\\"": Foo ,}  ,	repeat
float
    leftPad, uint8x i8i8 ,char[ 255  ]As// trailing space 
,	} ,  char[
    // " ++ [27880; 37322]%N ++ runes_of_ascii "
    4294967296
] uint8x`u8 x,` , @leftPad ( )
float32
body `two words` , }
")).
Eval vm_compute in ("<<<M211>>>" ++ check (runes_of_ascii "packet leftPad
    {  BodyLength
{ // a // b
rootA {
char[ 00]
leftPad,
    // trailing space 
    tag // " ++ [27880; 37322]%N ++ runes_of_ascii "
@calculatedFrom( ""abc""
    // " ++ [128512]%N ++ runes_of_ascii " emoji
    ) , char[	42 ] // c
len ,
string MetaDataX  ,}, match Z9_ as A { ""1""  : x, ""packet"" // trailing space 
: lengthOf	} , i64
    // trailing space 
    chars @lengthOf(	msg_type
    ) `
`
, },zchar[ 3 //
]  u128
    @lengthOf(//	t
packetx
) , @leftPad ( '\x00'
)char[] chars @calculatedFrom( ""`tick`"" ) //
, }
")).
Eval vm_compute in ("<<<M1418>>>" ++ check (runes_of_ascii "packet Frame {
    u8 HK,
    u8 BK,
    u8 TK,
    match HK as Hdr {
        1 : HdrA,
        2 : HdrB,
    },
    match BK as Body {
        1 : BodyA,
        2 : BodyB,
    },
    match TK as Trl {
        1 : TrlA,
    },
}
packet HdrA {
    u8 a,
}
packet HdrB {
    u16 b,
}
packet BodyA {
    u32 c,
}
packet BodyB {
    u64 d,
}
packet TrlA {
    u8 e,
}
root packet Msg {
    Frame,
    u8 x,
}
")).
Eval vm_compute in ("<<<M1556>>>" ++ check (runes_of_ascii "  root  packet  i64_{	}	options	{
    chars
	=char[

    65535	] body 
=

    ""abc""

    ;
u=
""`tick`""
	trueish
=
    '0'
}
options {repeatCount = '\x00' 
    // " ++ [128512]%N ++ runes_of_ascii " emoji

  /// triple
	;	f32a
=
    ""\n"" 
int 
    /// triple
= 
false	Pad=

    ""1"" 
repeatCount 
=	""// no comment""  ;
	}
	root
    packet
string_  {
    i32 As
	`tab	here`,}	// c
")).
Eval vm_compute in ("<<<M158>>>" ++ check (runes_of_ascii "packet crc { // " ++ [128512]%N ++ runes_of_ascii " emoji
int `" ++ [28040; 24687; 31867; 22411]%N ++ runes_of_ascii "`,  repeat Header	`doc` ,
    @tag(
    // " ++ [128512]%N ++ runes_of_ascii " emoji
    65535 )
    leftPad BodyLength
    `// not a comment` // " ++ [128512]%N ++ runes_of_ascii " emoji
, /// triple
char[ 42 ]
    roots	`` // a // b
, } packet
    uint8x
    // `tick` ""quote"" 'q'
    { @lengthOf(
i8i8 )
// trailing space 
//	t
Pad
    MetaDataX//	t
,}
")).
Eval vm_compute in ("<<<M1405>>>" ++ check (runes_of_ascii "packet 
MDSnapshotZZ
{
	u8 a , 
}  packet OrderACK {
    u16

    b

    , }

packet
HTTPServerInfo{  string s  , 
}	root 
packet
FIXMsg { u8	KType

    ,  MDSnapshotZZ,repeat

OrderACK
,	match 
KType  as Body {
	1 : HTTPServerInfo
,

    2
	:

    OrderACK  ,
	}

    ,
}
")).
Eval vm_compute in ("<<<M106>>>" ++ check (runes_of_ascii "// " ++ [27880; 37322]%N ++ runes_of_ascii "
options //x
{ msg_type
//x
//	t
= '0'} packet _x { // `tick` ""quote"" 'q'
@tag( 00  ) @tag(1)	char[] a1
,
// packet A { u8 x, }
/// triple
} packet float
//	t
// " ++ [128512]%N ++ runes_of_ascii " emoji
{ }
//	t
// packet A { u8 x, }
MetaData
    // `tick` ""quote"" 'q'
    Foo {
}")).
Eval vm_compute in ("<<<M1526>>>" ++ check (runes_of_ascii "packet B {
    // c2
    u8 a,
    // c5
}// c6a

// c6b
root packet P {
    // c10a
    // c10b
    u8 K,// c13a
    // c13b
    u64 L @lengthOf(Body),
    // c19
    match K as Body {
        // c24
        1 : B,
    },
}// c31")).
Eval vm_compute in ("<<<M494>>>" ++ check (runes_of_ascii "options
{
matchKey = 42/// triple
x='0' ;
// packet A { u8 x, }
//
charz
=
// packet A { u8 x, }
// trailing space 
true  ; } MetaData BodyLength
{
uint8
pack,zchar[ char[]]float ,  float32 x_y_z `` ,u32
_x,i16 body  , }
")).
Eval vm_compute in ("<<<M492>>>" ++ check (runes_of_ascii "options
{
matchKey = 42/// triple
x='0' ;
// packet A { u8 x, }
//
charz
=
// packet A { u8 x, }
// trailing space 
true  ; } MetaData BodyLength
{
uint8
pack,zchar[ 1 1]float ,  float32 x_y_z `` ,u32
_x,i16 body  , }
")).
Eval vm_compute in ("<<<M389>>>" ++ check (runes_of_ascii "{
options
matchKey = 42/// triple
x='0' ;
// packet A { u8 x, }
//
charz
=
// packet A { u8 x, }
// trailing space 
true  ; } MetaData BodyLength
{
uint8
pack,zchar[ 1]float ,  float32 x_y_z `` ,u32
_x,i16 body  , }
")).
Eval vm_compute in ("<<<M539>>>" ++ check (runes_of_ascii "options
{
matchKey = 42/// triple
x='0' ;
// packet A { u8 x, }
//
charz
=
// packet A { u8 x, }
// trailing space 
true  ; } MetaData BodyLength
{
uint8
pack,zchar[ 1]float ,  float32 x_y_z `` ,u32
i8,i16 body  , }
")).
Eval vm_compute in ("<<<M564>>>" ++ check (runes_of_ascii "options
{
matchKey = 42/// triple
x='0' ;
// packet A { u8 x, }
//
charz
=
// packet A { u8 x, }
// trailing space 
true  ; } MetaData BodyLength
{
uint8
pack,zchar[ 1]float ,  float32 x_y_z `` ,u32
_x,i16 body  ,")).
Eval vm_compute in ("<<<M555>>>" ++ check (runes_of_ascii "options
{
matchKey = 42/// triple
x='0' ;
// packet A { u8 x, }
//
charz
=
// packet A { u8 x, }
// trailing space 
true  ; } MetaData BodyLength
{
uint8
pack,zchar[ 1]float ,  float32 x_y_z `` ,u32
_x,i16")).
Eval vm_compute in ("<<<M566>>>" ++ check (runes_of_ascii "options
{
matchKey = 42/// triple
x='0' ;
// packet A { u8 x, }
//
charz
=
// packet A { u8 x, }
// trailing space 
true  ; } MetaData BodyLength
{
uint8
pack,zchar[ 1]float ,  float32 x_")).
Eval vm_compute in ("<<<M693>>>" ++ check (runes_of_ascii "// c
packet i64_ {	char[] calculatedFrom , } packet
trueish  {@calculatedFrom(
""a\\"" ) o { i32 falsey@lengthOf( uint8x ),
} , } // `tick` ""quote"" 'q'
options { {// c
Z9_ = ' '//
}
")).
Eval vm_compute in ("<<<M515>>>" ++ check (runes_of_ascii "options
{
matchKey = 42/// triple
x='0' ;
// packet A { u8 x, }
//
charz
=
// packet A { u8 x, }
// trailing space 
true  ; } MetaData BodyLength
{
uint8
pack,zchar[ 1]float ,")).
Eval vm_compute in ("<<<M700>>>" ++ check (runes_of_ascii "// c
packet i64_ {	char[] calculatedFrom , } packet
trueish  {true
""a\\"" ) o { i32 falsey@lengthOf( uint8x ),
} , } // `tick` ""quote"" 'q'
options {// c
Z9_ = ' '//
}
")).
Eval vm_compute in ("<<<M480>>>" ++ check (runes_of_ascii "options
{
matchKey = 42/// triple
x='0' ;
// packet A { u8 x, }
//
charz
=
// packet A { u8 x, }
// trailing space 
true  ; } MetaData BodyLength
{
uint8")).
Eval vm_compute in ("<<<M2039>>>" ++ check (runes_of_ascii "
options
    {
	u
	=""a	b""  ;
charz

    =
true
	;

matchKey
= 	 //x
  0123456789 u8x=
char[]
        // trailing space 
Packet= false
	; }")).
Eval vm_compute in ("<<<M120>>>" ++ check (runes_of_ascii "root
packet Header
    // packet A { u8 x, }
    { // " ++ [27880; 37322]%N ++ runes_of_ascii "
@lengthOf(
rootA // a // b
) int8 Foo//
@lengthOf(	uint8x)`tab	here`
,}
")).
Eval vm_compute in ("<<<M588>>>" ++ check (runes_of_ascii "MetaData MetaData
    // trailing space 
    matchKey
{ u64 chars // a // b
,char[] lengthOf `// not a comment`
    , //	t
}")).
Eval vm_compute in ("<<<M1607>>>" ++ check (runes_of_ascii "

  packet
calculatedFrom
{ @tag(
4294967296 )
    u msg_type, 
char[3
	]
crc
	@lengthOf(	len
	) `u8 x,` 	 // c
	,
} ")).
Eval vm_compute in ("<<<M651>>>" ++ check (runes_of_ascii "MetaData
    // trailing space 
    matchKey
{ u64 chars // a // b
,char[] lengthOf `// not a comment`
   ~ , //	t
}")).
Eval vm_compute in ("<<<M241>>>" ++ check (runes_of_ascii "packet Pad {}packet
    options1{// trailing space 
}
    // @lengthOf(
    root
packet
crc
{
    repeat crc len , }")).
Eval vm_compute in ("<<<M1934>>>" ++ check (runes_of_ascii "options {
    LittleEndian = true;
}

root packet P {
    u16 a,
    u32 Sum @calculatedFrom(""CR\
        C32""),
}")).
Eval vm_compute in ("<<<M1672>>>" ++ check (runes_of_ascii "packet	o { 
    // c

@tag(

42

) repeat

x
{

    char[
    0123456789
    ] i64_ , }  ,} 
options
	{ 
} ")).
Eval vm_compute in ("<<<M1252>>>" ++ check (runes_of_ascii "
// c
packet calculatedFrom { @tag( 4294967296 ) u msg_type , char[ 3 ] crc @lengthOf( len ) `u8 x,` , }")).
Eval vm_compute in ("<<<M1273>>>" ++ check (runes_of_ascii "packet calculatedFrom { @tag( 4294967296 ) u msg_type , char[ 3 // c
] crc @lengthOf( len ) `u8 x,` , }")).
Eval vm_compute in ("<<<M1668>>>" ++ check (runes_of_ascii "packet A {
    Inner {
        match k as n {
            [1, 22, 007, 4, 5] : B,
        },
    },
}")).
Eval vm_compute in ("<<<M904>>>" ++ check (runes_of_ascii "packet A {
  match k as n {
    [1, 22, 007, 4, 5, 66, 7, 8, 9, 10, 11, 12] : B
    2 : C
  },
}")).
Eval vm_compute in ("<<<M1151>>>" ++ check (runes_of_ascii "packet Logon { @tag( 42 ) @rightPad ( ' ' ) @leftPad
// c
( ) repeat trueish { string T , } , }")).
Eval vm_compute in ("<<<M385>>>" ++ check (runes_of_ascii "root packet SimpleMessage {
    uint16 MsgType `" ++ [28040; 24687; 31867; 22411]%N ++ runes_of_ascii "`,
    string JsonBody `Json" ++ [23383; 31526; 20018; 28040; 24687; 20307]%N ++ runes_of_ascii "`,
}")).
Eval vm_compute in ("<<<M877>>>" ++ check (runes_of_ascii "packet A {
  match k as n {
    [1, 22, 007, 4, 5, 66, 7, 8, 9, 10] : B,
    2 : C
  },
}")).
Eval vm_compute in ("<<<M859>>>" ++ check (runes_of_ascii "packet A {
  match k as n {
    [1, 22, ""c c"", 4, 5, ""f"", 7, 8] : B,
    2 : C
  },
}")).
Eval vm_compute in ("<<<M815>>>" ++ check (runes_of_ascii "packet A {
  match k as n {
    [""a"", ""bb"", ""c c"", ""d"", ""e""] : B
    2 : C
  },
}")).
Eval vm_compute in ("<<<M1234>>>" ++ check (runes_of_ascii "packet o { @tag( 42 ) repeat x { char[ 0123456789 ] i64_ , // c
} , } options { }")).
Eval vm_compute in ("<<<M833>>>" ++ check (runes_of_ascii "packet A {
  match k as n {
    [1, 22, ""c c"", 4, 5, ""f""] : B,
    2 : C
  },
}")).
Eval vm_compute in ("<<<M825>>>" ++ check (runes_of_ascii "packet A {
  match k as n {
    [1, 22, 007, 4, 5, 66] : B,
    2 : C
  },
}")).
Eval vm_compute in ("<<<M1483>>>" ++ check (runes_of_ascii "
packet A
{

match	k
    as
n
{ [	1
,  ""bb"" 
] :
B
    , 2 :

C},}

")).
Eval vm_compute in ("<<<M1316>>>" ++ check (runes_of_ascii "MetaData _x { zchar[
// c
4294967296 ] lengthOf `// not a comment` , }")).
Eval vm_compute in ("<<<M642>>>" ++ check (runes_of_ascii "MetaData
    // trailing space 
    matchKey
{ u64 chars // a // ")).
Eval vm_compute in ("<<<M112>>>" ++ check (runes_of_ascii "options { calculatedFrom  =// `tick` ""quote"" 'q'
""packet""; }
")).
Eval vm_compute in ("<<<M772>>>" ++ check (runes_of_ascii "packet A {
  match k as n {
    [1] : B,
    2 : C
  },
}")).
Eval vm_compute in ("<<<M1937>>>" ++ check (runes_of_ascii "  MetaData
zchar
    {	// c

zchar[
	3
] Pad ,}
")).
Eval vm_compute in ("<<<M939>>>" ++ check (runes_of_ascii "root packet A {
    u8 x `a
    b
  c`,
}")).
Eval vm_compute in ("<<<M1809>>>" ++ check (runes_of_ascii "root packet A {
    u8 x `
        `,
}")).
Eval vm_compute in ("<<<M927>>>" ++ check (runes_of_ascii "root packet A {
    u8 x `a
b`,
}")).
Eval vm_compute in ("<<<M1692>>>" ++ check (runes_of_ascii "packet
    // c
  lengthOf  {}")).
Eval vm_compute in ("<<<M1891>>>" ++ check (runes_of_ascii "

  // c x
      packet A{ }
")).
Eval vm_compute in ("<<<M415>>>" ++ check (runes_of_ascii "options
{
matchKey = 42")).
Eval vm_compute in ("<<<M69>>>" ++ check (runes_of_ascii "options	{ i64_ =00 }
")).
Eval vm_compute in ("<<<M985>>>" ++ check (runes_of_ascii "packet A {
}
// c" ++ [160]%N)).
Eval vm_compute in ("<<<M1492>>>" ++ check (runes_of_ascii "MetaData charz {
}")).
Eval vm_compute in ("<<<M1070>>>" ++ check (runes_of_ascii "packet A {
}


")).
Eval vm_compute in ("<<<M974>>>" ++ check (runes_of_ascii "// c ")).
Eval vm_compute in ("<<<M44>>>" ++ check (@nil rune)).
