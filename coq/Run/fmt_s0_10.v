From FP Require Import Lexer Parser ShowPT Digest Formatter.
From Coq Require Import String List NArith.
Import ListNotations.
Open Scope string_scope.
Set Printing Width 100000000.
Set Printing Depth 100000000.
Definition show_fres (r : fres) : string :=
  match r with
  | FOk s => "OK:" ++ sh_escaped s ""
  | FErr s => "ERR:" ++ sh_escaped s ""
  | FPanic p => "PANIC:" ++ p
  end.
Definition check (rs : list rune) : string := digest (show_fres (format_res rs)).
Definition full (rs : list rune) : string := show_fres (format_res rs).
Eval vm_compute in ("<<<M1381>>>" ++ check (runes_of_ascii "// top
options // c0a
  // c0b
{ ArrayPrefixLenType
    // c2
=
    // c3
u32
    // c4
; // c5
FixedStringPadFromLeft // c6a
  // c6b
=
    // c7
false // c8a
  // c8b
; FixedStringPadChar = // c11
'0'
    // c12
; // c13a
  // c13b
}
    // c14
packet
    // c15
Trade {
    // c17
repeat // c18a
  // c18b
InVenue78 // c19a
  // c19b
{ u16 // c21
tag7 , // c23a
  // c23b
repeat
    // c24
InLastpx9 // c25a
  // c25b
{ // c26
u8
    // c27
pad0
    // c28
, // c29
} , // c31a
  // c31b
int64
    // c32
Tail , repeat // c35a
  // c35b
InQty37 { char[ 2 // c39a
  // c39b
]
    // c40
OrderId // c41
, zchar[
    // c43
6
    // c44
]
    // c45
lastPx // c46
, // c47
int64 // c48
Qty // c49a
  // c49b
, } , // c52a
  // c52b
uint8 // c53a
  // c53b
Side2 // c54a
  // c54b
, // c55a
  // c55b
} // c56a
  // c56b
,
    // c57
} // c58
packet // c59
Logon // c60
{
    // c61
repeat string // c63a
  // c63b
venue // c64a
  // c64b
, @rightPad
    // c66
( // c67a
  // c67b
'\x00'
    // c68
) // c69
char[ 3
    // c71
] sym
    // c73
, // c74a
  // c74b
zchar[ 9 // c76
]
    // c77
count // c78
, // c79
zchar[
    // c80
7
    // c81
]
    // c82
f1
    // c83
, Trade
    // c85
, } // c87a
  // c87b
packet
    // c88
Logout
    // c89
{ // c90a
  // c90b
}
    // c91
root // c92a
  // c92b
packet // c93a
  // c93b
Reject // c94
{
    // c95
int32
    // c96
sym // c97a
  // c97b
, // c98
u8 // c99
Px , u32 // c102
Tail // c103
@lengthOf(
    // c104
Body // c105
)
    // c106
, // c107a
  // c107b
match // c108
Px as Body { // c112a
  // c112b
184 // c113
: // c114
Trade ,
    // c116
173 : // c118
Logon ,
    // c120
12 : Logout , // c124a
  // c124b
} ,
    // c126
u32 // c127
tag7 @calculatedFrom( // c129
""CRC32""
    // c130
) // c131a
  // c131b
,
    // c132
} ")).
Eval vm_compute in ("<<<M1799>>>" ++ check (runes_of_ascii "options 
{
StringPrefixLenType

    = 
u16	; 
ArrayPrefixLenType
    =

u16 ;
}	packet
SampleBinary {	uint16 MsgType `" ++ [28040; 24687; 31867; 22411]%N ++ runes_of_ascii "` ,
u16 BodyLenght
@lengthOf(
	Body  )
	`" ++ [28040; 24687; 20307; 38271; 24230]%N ++ runes_of_ascii "`
	, match
    MsgType

as
Body{1
    :Logon
	, 
2  :	Logout  ,

3

    :
	Heartbeat  ,  4 :RiskControlRequest ,5 
:

    RiskControlResponse

,  }
    ,  @calculatedFrom(""CRC32""
    )u32
Ckecksum 
`" ++ [26657; 39564; 21644]%N ++ runes_of_ascii "`,

}	packet
Logon
	{ @leftPad 
('0' 
)

    char[ 
10

    ]UserName
`" ++ [29992; 25143; 21517]%N ++ runes_of_ascii "` ,
string 
Password
`" ++ [23494; 30721]%N ++ runes_of_ascii "` ,
uint64
    ClientId
`" ++ [23458; 25143; 31471]%N ++ runes_of_ascii "ID`
,

    u16

    HeartbeatInterval `" ++ [24515; 36339; 38388; 38548]%N ++ runes_of_ascii "`

    ,}  packet	Logout
{ @rightPad
    ('0')char[10 ]UserName  `" ++ [29992; 25143; 21517]%N ++ runes_of_ascii "`
	, 
uint64 ClientId
`" ++ [23458; 25143; 31471]%N ++ runes_of_ascii "ID` 
, 
} packet
	Heartbeat{ 
}
packet
    RiskControlRequest
	{ 
string UniqueOrderId`" ++ [21807; 19968; 35746; 21333; 21495]%N ++ runes_of_ascii "`	,char[  16 
]ClOrdID 
`" ++ [23458; 25143; 35746; 21333; 21495]%N ++ runes_of_ascii "`

, char[
    3  ]
	MarketID
    `" ++ [24066; 22330]%N ++ runes_of_ascii "id`
,

    char[ 12
]

SecurityID
    `" ++ [35777; 21048; 20195; 30721]%N ++ runes_of_ascii "` , char

Side`" ++ [20080; 21334; 26041; 21521]%N ++ runes_of_ascii "`,  char OrderType
    `" ++ [35746; 21333; 31867; 22411]%N ++ runes_of_ascii "`,u64  Price`" ++ [20215; 26684]%N ++ runes_of_ascii "` ,u32
    Qty `" ++ [25968; 37327]%N ++ runes_of_ascii "`, repeat
string 
ExtraInfo`" ++ [38468; 21152; 20449; 24687]%N ++ runes_of_ascii "`
    ,

repeat SubOrder { 
char[ 16]

ClOrdID `" ++ [23376; 35746; 21333; 21495]%N ++ runes_of_ascii "`

    , u64

Price 
`" ++ [23376; 35746; 21333; 20215; 26684]%N ++ runes_of_ascii "`

,

u32
Qty
`" ++ [23376; 35746; 21333; 25968; 37327]%N ++ runes_of_ascii "`  ,

    } ,}	packet
RiskControlResponse {

    string
UniqueOrderId
    `" ++ [21807; 19968; 35746; 21333; 21495]%N ++ runes_of_ascii "` , i32 
Status`" ++ [29366; 24577]%N ++ runes_of_ascii "`,
	string  Msg 
`" ++ [32467; 26524; 20449; 24687]%N ++ runes_of_ascii "` 
,

    repeat  Detail 
,
	}  packet
Detail{
	string 
RuleName `" ++ [35268; 21017; 21517; 31216]%N ++ runes_of_ascii "` ,  u16

    Code

    `" ++ [21407; 22240; 20195; 30721]%N ++ runes_of_ascii "`  ,}
")).
Eval vm_compute in ("<<<M311>>>" ++ check (runes_of_ascii "packet falsey  {
    /// triple
    string i8i8 @calculatedFrom(
""a\\""
    )	, // " ++ [128512]%N ++ runes_of_ascii " emoji
@calculatedFrom(
    """ ++ [233]%N ++ runes_of_ascii "t" ++ [233]%N ++ runes_of_ascii """ ) repeat a1
,
    } options { falsey =0
// packet A { u8 x, }
// c
Foo
    = //x
""\" ++ [233]%N ++ runes_of_ascii """ ; } root packet
packetx { metadata @lengthOf(
asx ),
// @lengthOf(
//	t
char[] BodyLength @calculatedFrom(
    """ ++ [233]%N ++ runes_of_ascii "t" ++ [233]%N ++ runes_of_ascii """
)`" ++ [233]%N ++ runes_of_ascii "`	, metadata{
    repeat rootA i64_
    `a\`
    // " ++ [128512]%N ++ runes_of_ascii " emoji
    , u8x
// a // b
// `tick` ""quote"" 'q'
chars
    ,
repeat int64 string_ // " ++ [27880; 37322]%N ++ runes_of_ascii "
`{ , }` // trailing space 
,} , @tag( 4294967296
    // " ++ [27880; 37322]%N ++ runes_of_ascii "
    )
u64
tag  @lengthOf( pack ) , // `tick` ""quote"" 'q'
u128 Z9_ ``
    , repeat
// @lengthOf(
// `tick` ""quote"" 'q'
i16 lengthOf , @calculatedFrom( ""`tick`"" )
// `tick` ""quote"" 'q'
// @lengthOf(
repeat// a // b
char[ //
00 ]
    //	t
    Packet `it's` , uint16 Pad, @calculatedFrom( ""a\\"" )match int
//
// " ++ [27880; 37322]%N ++ runes_of_ascii "
as
    pack
{ 00 : u , [ ""x y"" ]:asx  , """ ++ [28040; 24687]%N ++ runes_of_ascii """
    :
string_
    // trailing space 
    1 : Pad , },	@calculatedFrom( // " ++ [27880; 37322]%N ++ runes_of_ascii "
""" ++ [233]%N ++ runes_of_ascii "t" ++ [233]%N ++ runes_of_ascii """ ) roots @calculatedFrom( ""// no comment"" // @lengthOf(
) ,	}
    packet zchar  { // 50% %s
@leftPad	( '0' ) T `line1
line2`
    ,
    }
")).
Eval vm_compute in ("<<<M1351>>>" ++ check (runes_of_ascii "  options

    {
LittleEndian
=
false;
FixedStringPadChar=  ' ' ;	} packet

Fill	{
	InFlags6
    {

repeat
    u64 
count
	,}
, char[8
]  price
,
	repeat
    char[
    2] 
lastPx ,
	char[] count,}packet
Quote
    {  char[]
Qty
    ,

int32 sym ,zchar[
	9
]

    Flags ,
    int8
	tag7 ,
char[7
]

    count,
} 
packet
Cancel  {

string Acct

    ,  @rightPad
('\x00'
	)char[

2
    ]  Note ,

zchar[

5

]
Side2,	} 
packet  Trade

    { repeat 
Quote
    ,
    Fill 
,  repeat
    i64
    Side2
    ,	uint16 
Tail 
,
zchar[7
    ]
    OrderId,}

    root  packet
	Party 
{ repeat
    InLastpx79

    {

    char[

12 ] 
Px, int8 
Tail ,  }
,f32 
count  ,  repeat 
u8
Note,Trade	,f64
    venue 
,@rightPad

    (
'\x00')char[
    11
	]
tag7	,
u16
Px
,
    u32  Side2 @lengthOf(

Body
	)

    , match 
Px as
Body

{[ 48 , 188
    ]
	:Fill	, 190:Trade	,  160
	:Quote

    , 85

    :

    Cancel
,
	}
	, }

")).
Eval vm_compute in ("<<<M1374>>>" ++ check (runes_of_ascii "// top
options // c0a
  // c0b
{ // c1a
  // c1b
StringPrefixLenType = // c3
u16 // c4a
  // c4b
; // c5
ArrayPrefixLenType // c6
= u64
    // c8
; }
    // c10
packet // c11
Order { // c13a
  // c13b
float64 Ref // c15a
  // c15b
, // c16
repeat // c17a
  // c17b
i32 lastPx // c19
,
    // c20
}
    // c21
packet Fill
    // c23
{
    // c24
zchar[ 9 // c26
] // c27a
  // c27b
Ref
    // c28
, // c29
zchar[ // c30a
  // c30b
4 ]
    // c32
Px // c33
, // c34
Order // c35a
  // c35b
, // c36
int8 // c37
count // c38
, // c39a
  // c39b
}
    // c40
packet // c41a
  // c41b
Cancel { // c43
i16 Side2 // c45
, // c46
Order // c47a
  // c47b
, // c48
} root packet // c51
Party // c52
{ float64 // c54
Px , // c56
zchar[
    // c57
1
    // c58
] // c59
clOrdID // c60
, // c61
} ")).
Eval vm_compute in ("<<<M1398>>>" ++ check (runes_of_ascii "options { // c1
LittleEndian
    // c2
=
    // c3
true // c4a
  // c4b
; // c5
} // c6a
  // c6b
packet Sub // c8
{ // c9
u8 a // c11
,
    // c12
u16 SubSum // c14
@calculatedFrom( // c15a
  // c15b
""CRC16""
    // c16
) // c17a
  // c17b
,
    // c18
} // c19
root // c20a
  // c20b
packet // c21a
  // c21b
Frame
    // c22
{
    // c23
u16 MsgType // c25a
  // c25b
, u16 // c27
BodyLen @lengthOf( Body ) // c31a
  // c31b
, Sub Body // c34a
  // c34b
, // c35a
  // c35b
string // c36
note
    // c37
, // c38a
  // c38b
u16
    // c39
Checksum
    // c40
@calculatedFrom( // c41a
  // c41b
""CRC16"" // c42a
  // c42b
) // c43
, u8 // c45
tail
    // c46
,
    // c47
} // c48
")).
Eval vm_compute in ("<<<M1818>>>" ++ check (runes_of_ascii "

  // top
MetaData  
      // c0
		msg_type 
  // c1
		{
    // c2
  int32
    // c3

  As
    // c4
    `crlf
line`
// c5
  ,
// c6

MetaDataX 

// c7
	x  
      // c8
	  `a\` 
	// c9
, 
        // c10
  int8  
  // c11
	_x
// c12
		,  
      // c13

char[] 
	// c14
    As 
    // c15
      `u8 x,`
// c16
      ,
        // c17
	  zchar[  
      // c18
3
    // c19

] 
    // c20
  uint8x 
    // c21
    , 

    // c22
	As 
      // c23
    Foo 
// c24
    	,

    // c25
} 

// c26
	  root
// c27
  packet
// c28
repeatCount
        // c29
	{ 
      // c30
	}

// c31")).
Eval vm_compute in ("<<<M1745>>>" ++ check (runes_of_ascii "packet int {
    /// triple
    lengthOf,// " ++ [27880; 37322]%N ++ runes_of_ascii "
    match x_y_z as trueish {
        [""it's"", 0123456789] : i64_,
    },
    @tag(255)
    @leftPad('0')
    options1 @calculatedFrom(""1"") `
    `,// @lengthOf(
    @leftPad('\x00')
    // packet A { u8 x, }
    len @lengthOf(rootA),
    i64_ packetx,
    @tag(42)
    int32 trueish,
    i8 options1 `two words`,
    @leftPad('0')
    char[1] calculatedFrom `tab	here`,
    @lengthOf(o)
    @tag(007)
    u8 _x @calculatedFrom(""`tick`""),
    repeatCount @lengthOf(MetaDataX),/// triple
}")).
Eval vm_compute in ("<<<M354>>>" ++ check (runes_of_ascii "MetaData o { charz calculatedFrom`
` // a // b
, float64 rootA , } packet A
{  asx
    @lengthOf(
packetx
)
`u8 x,` , @lengthOf(
packetx
    ) a1 {  int32 matchKey @lengthOf( asx ) `" ++ [28040; 24687; 31867; 22411]%N ++ runes_of_ascii "` , Header `{ , }` ,	repeat f64 falsey `100% of %d`// 50% %s
,
}  ,
repeat
    u32// `tick` ""quote"" 'q'
lengthOf , u64 Z9_ ,
    /// triple
    @lengthOf( _x ) packetx{_x , /// triple
}
// " ++ [27880; 37322]%N ++ runes_of_ascii "
//	t
, zchar[ 1]
a1 @lengthOf( chars
)	,	u64	crc	`100% of %d` , char[65535 ]
    chars
, }
    root packet int { }

")).
Eval vm_compute in ("<<<M1486>>>" ++ check (runes_of_ascii "// top
options {
    // c1
}

// c2
MetaData packetx {
    // c5
    int falsey `two words`,
    // c9
    int32 trueish,
    // c12
    char[] u8x,
    // c15
    A x `// not a comment`,
    // c19
}

// c20
root packet i8i8 {
    // c24
    @lengthOf(repeatCount)
    // c27
    @tag(1)
    // c30
    @calculatedFrom(""a	b"")
    // c33
    string stringy @calculatedFrom(""\n"") `line1
        line2`,
    // c40
    pack `100% of %d`,
    // c43
}
// c44")).
Eval vm_compute in ("<<<M346>>>" ++ check (runes_of_ascii "MetaData body { //x
asx As , Foo calculatedFrom`` ,
    packetx
pack `{ , }`, // packet A { u8 x, }
u8x  falsey`say ""hi""` , float32
float
    `line1
line2`, char[] u
`it's`
, } packet
    // a // b
    asx{uint32 pack
@calculatedFrom(
    ""CRC32""
    ) `line1
line2` ,char[ 65535 /// triple
] roots // @lengthOf(
,Z9_
zchar // trailing space 
, repeat uint64 // 50% %s
float `line1
line2`
,
} root packet options1 { }
")).
Eval vm_compute in ("<<<M129>>>" ++ check (runes_of_ascii "packet int  { uint16 BodyLength
, zchar[ 255] charz// @lengthOf(
`100% of %d` ,	Logon@lengthOf(	MetaDataX ), }
packet// " ++ [27880; 37322]%N ++ runes_of_ascii "
a1
    {match pack as // `tick` ""quote"" 'q'
msg_type{10
    :	float ,
""" ++ [233]%N ++ runes_of_ascii "t" ++ [233]%N ++ runes_of_ascii """ :
charz  , 4294967296 : Foo , """ ++ [233]%N ++ runes_of_ascii "t" ++ [233]%N ++ runes_of_ascii """ : u128 , } , repeat Pad{	repeat Foo
    //x
    { uint64
    // `tick` ""quote"" 'q'
    Header,repeat roots rootA `say ""hi""`
, } ,} , } packet	Header {
}
")).
Eval vm_compute in ("<<<M1729>>>" ++ check (runes_of_ascii "options {
    LittleEndian = true;
    StringPrefixLenType = u16;
    ArrayPrefixLenType = u16;
    FixedStringPadFromLeft = true;
    FixedStringPadChar = '0';
}

packet Leg {
    u16 Flags,
    u8 price,
}

packet Quote {
    uint16 count,
    InNote89 {
        repeat Leg,
    },
}

root packet Ack {
    char[3] price,
    u64 sym,
    zchar[1] Tail,
}")).
Eval vm_compute in ("<<<M333>>>" ++ check (runes_of_ascii "MetaData Pad
{ } MetaData BodyLength {
// trailing space 
// trailing space 
} root	packet MetaDataX // trailing space 
{// 50% %s
@lengthOf( a1
) match
    trueish // a // b
as
uint8x {[
""// no comment"" , ""CRC32""
    ,""" ++ [28040; 24687]%N ++ runes_of_ascii """ ,
""" ++ [128512]%N ++ runes_of_ascii """, ""// no comment"" ,""abc"" ] :Logon
    , } , match T as crc {
    ""\n"":	Z9_
    , } ,	}
")).
Eval vm_compute in ("<<<M48>>>" ++ check (runes_of_ascii "  options
{ len	= 00
;
//	t
// packet A { u8 x, }
charz= zchar[ 3 ] //
; Pad
=
255 ;
falsey
=""" ++ [28040; 24687]%N ++ runes_of_ascii """ }root packet
    repeatCount { char[4294967296
] x_y_z @lengthOf(string_ )
,@calculatedFrom(
""packet""
) @tag(	4294967296 ) float32
asx @lengthOf(
    x_y_z ), u64
    zchar , } 	 ")).
Eval vm_compute in ("<<<M1716>>>" ++ check (runes_of_ascii "// top
      root// c0
packet 	 // c1
	P // c2a
  	// c2b
  {	// c3a
      // c3b

	u8  // c4a
  // c4b

s_u8 // c5a

	// c5b
  ,  repeat
// c7

u8  // c8a
// c8b
		r_u8// c9a

	// c9b
	,
    // c10
u16
// c11
b_len 	 // c12

,  // c13a
    // c13b
    }
")).
Eval vm_compute in ("<<<M494>>>" ++ check (runes_of_ascii "packet
    asx { @calculatedFrom(
""""  ) @tag( 255 )repeat
// packet A { u8 x, }
// trailing space 
int16 u8x
,
@tag(
    //
    007 )
    @tag( 0
    /// triple
    ) @tag( 1 string u
    @lengthOf( T ),
// `tick` ""quote"" 'q'
//x
} // " ++ [128512]%N ++ runes_of_ascii " emoji")).
Eval vm_compute in ("<<<M522>>>" ++ check (runes_of_ascii "packet
    asx { @calculatedFrom(
""""  ) @tag( 255 )repeat
// packet A { u8 x, }
// trailing space 
int16 u8x
,
@tag(
    //
    007 )
    @tag( 0
    /// triple
    ) @tag( 1) u
    @lengthOf( T ),
// `tick` ""quote"" 'q'
//x
} } // " ++ [128512]%N ++ runes_of_ascii " emoji")).
Eval vm_compute in ("<<<M453>>>" ++ check (runes_of_ascii "packet
    asx { @calculatedFrom(
""""  ) @tag( 255 )repeat
// packet A { u8 x, }
// trailing space 
int16 u8x
,
007
    //
    @tag( )
    @tag( 0
    /// triple
    ) @tag( 1) u
    @lengthOf( T ),
// `tick` ""quote"" 'q'
//x
} // " ++ [128512]%N ++ runes_of_ascii " emoji")).
Eval vm_compute in ("<<<M491>>>" ++ check (runes_of_ascii "packet
    asx { @calculatedFrom(
""""  ) @tag( 255 )repeat
// packet A { u8 x, }
// trailing space 
int16 u8x
,
@tag(
    //
    007 )
    @tag( 0
    /// triple
    ) @tag( 1 u
    @lengthOf( T ),
// `tick` ""quote"" 'q'
//x
} // " ++ [128512]%N ++ runes_of_ascii " emoji")).
Eval vm_compute in ("<<<M529>>>" ++ check (runes_of_ascii "packet
    asx { @calculatedFrom(
""""  ) @tag( 255 )repeat
// packet A { u8 x, }
// trailing space 
int16 u8x
,
@tag(
    //
    007 )
    @tag( 0
    /// triple
    ) @tag( 1) u
    @lengthOf( T ),
// `tick` ""quote"" 'q'
//x
}")).
Eval vm_compute in ("<<<M325>>>" ++ check (runes_of_ascii "MetaData lengthOf {chars asx
,
T
// trailing space 
// @lengthOf(
Header
`100% of %d`	,
int32 x_y_z `two words`
, zchar[	0123456789 ] Header
    ``,len x_y_z`
` , // c
}// " ++ [27880; 37322]%N ++ runes_of_ascii "
packet//
BodyLength
    { }
")).
Eval vm_compute in ("<<<M1334>>>" ++ check (runes_of_ascii "root packet Frame {
    u8 K,
    Logon first,
    match K as Body {
        1 : Logon,
        2 : Logout,
    },
}
packet Logon {
    string user,
}
packet Logout {
    u16 reason,
}
")).
Eval vm_compute in ("<<<M548>>>" ++ check (runes_of_ascii "MetaData MetaData u
    { } MetaData o
{ float uint8x
`100% of %d` ,repeatCount u8x, string_ leftPad
, i32
    Foo , int64 x `two words` , calculatedFrom
stringy `a\` ,
}
")).
Eval vm_compute in ("<<<M147>>>" ++ check (runes_of_ascii "packet
Pad { /// triple
trueish {  uint16	Packet @lengthOf(i8i8 ) `" ++ [28040; 24687; 31867; 22411]%N ++ runes_of_ascii "`
,Logon
    , repeat// `tick` ""quote"" 'q'
zchar[ 255  ]
f32a	`say ""hi""` ,	}
,
    //	t
    }
")).
Eval vm_compute in ("<<<M613>>>" ++ check (runes_of_ascii "MetaData u
    { } MetaData o
{ float uint8x
`100% of %d` ,repeatCount u8x string_ , leftPad
, i32
    Foo , int64 x `two words` , calculatedFrom
stringy `a\` ,
}
")).
Eval vm_compute in ("<<<M638>>>" ++ check (runes_of_ascii "MetaData u
    { } MetaData o
{ float uint8x
`100% of %d` ,repeatCount u8x, string_ leftPad
, i32
    , Foo int64 x `two words` , calculatedFrom
stringy `a\` ,
}
")).
Eval vm_compute in ("<<<M358>>>" ++ check (runes_of_ascii "  packet
// 50% %s
// @lengthOf(
len{ @rightPad ( ' '
)uint8x asx `// not a comment` , @calculatedFrom( ""// no comment""
) // @lengthOf(
repeat f64 uint8x`a\` , }")).
Eval vm_compute in ("<<<M1975>>>" ++ check (runes_of_ascii "packet A {
    Inner {
        match k as n {
            [
                1, 22, 007, 4, 5,
                66, 7, 8
            ] : B,
        },
    },
}")).
Eval vm_compute in ("<<<M1496>>>" ++ check (runes_of_ascii "packet A {
    match k as n {
        [
            ""a"", ""bb"", ""c c"", ""d"", ""e"",
            ""f"", ""g"", ""h"", ""i""
        ] : B,
        2 : C,
    },
}")).
Eval vm_compute in ("<<<M1625>>>" ++ check (runes_of_ascii "options  {} options 
{ MetaDataX
=

    char
	; }
MetaData
	Pad
	{

// c
i8
metadata

    , string
stringy
,

int8	As
`{ , }`,
	}
")).
Eval vm_compute in ("<<<M1307>>>" ++ check (runes_of_ascii "packet A {
    u8 a,
}
packet B {
    u16 b,
}
root packet P {
    u8 K,
    match K as M {
        1 : A,
        1 : B,
    },
}
")).
Eval vm_compute in ("<<<M1577>>>" ++ check (runes_of_ascii "MetaData metadata {
    u64 charz `crlf
    line`,
    int64 options1,
}

options {
    tag = ""CRC32"";
    u8x = '\x00'
}")).
Eval vm_compute in ("<<<M1612>>>" ++ check (runes_of_ascii "options {
    LittleEndian = true;
}

root packet P {
    u16 a,
    u32 Sum @calculatedFrom(""CR\
        C32""),
}")).
Eval vm_compute in ("<<<M1231>>>" ++ check (runes_of_ascii "options { } options { MetaDataX = char ; } MetaData Pad { i8 metadata // c
, string stringy , int8 As `{ , }` , }")).
Eval vm_compute in ("<<<M1654>>>" ++ check (runes_of_ascii "
packet
	A
{ match
	k
as
n 
{ [
	""a""  ,""bb"" ,

007,

""d"" , ""e"",	66

,
	""g""

    ,""h""  ]
	:	B 2
:C	} ,	}

")).
Eval vm_compute in ("<<<M273>>>" ++ check (runes_of_ascii "MetaData
float {
repeatCount zchar,
charz
a1 , i64_
    /// triple
    string_	, float64 trueish,	}
")).
Eval vm_compute in ("<<<M1179>>>" ++ check (runes_of_ascii "// top
options
    // c0
{
    // c1
A
    // c2
=
    // c3
""// no comment""
    // c4
}
    // c5
")).
Eval vm_compute in ("<<<M635>>>" ++ check (runes_of_ascii "MetaData u
    { } MetaData o
{ float uint8x
`100% of %d` ,repeatCount u8x, string_ leftPad
,")).
Eval vm_compute in ("<<<M1974>>>" ++ check (runes_of_ascii "packet options1 {
    repeat char[] A `" ++ [233]%N ++ runes_of_ascii "`,
    float rootA,
    Foo,
}

root packet Z9_ {
}")).
Eval vm_compute in ("<<<M827>>>" ++ check (runes_of_ascii "packet A {
  match k as n {
    [""a"", ""bb"", ""c c"", ""d"", ""e"", ""f""] : B
    2 : C
  },
}")).
Eval vm_compute in ("<<<M1608>>>" ++ check (runes_of_ascii "packet  Inner 
{ 
u8  a
    ,	} root
packet
    P 
{Inner
    ref_obj
, u8 
x ,
}
")).
Eval vm_compute in ("<<<M988>>>" ++ check (runes_of_ascii "packet A {
    u32 crc @calculatedFrom(""\
""),
    @calculatedFrom(""\
"") u8 y,
}")).
Eval vm_compute in ("<<<M369>>>" ++ check (runes_of_ascii "packet
_x { }
    root
    packet leftPad { }
options { Pad
=	string ; }
")).
Eval vm_compute in ("<<<M967>>>" ++ check (runes_of_ascii "MetaData M {
    u8 x `100% of %s %d %v`,
    T t `100% of %s %d %v`,
}")).
Eval vm_compute in ("<<<M922>>>" ++ check (runes_of_ascii "packet A {
    B b `a
b`,
    B `a
b`,
    repeat B bs `a
b`,
}")).
Eval vm_compute in ("<<<M823>>>" ++ check (runes_of_ascii "packet A { Inner { match k as n { [1,22,007,4,5] : B, }, }, }")).
Eval vm_compute in ("<<<M970>>>" ++ check (runes_of_ascii "packet A {
    B b `%`,
    B `%`,
    repeat B bs `%`,
}")).
Eval vm_compute in ("<<<M775>>>" ++ check (runes_of_ascii "packet A { Inner { match k as n { [1] : B, }, }, }")).
Eval vm_compute in ("<<<M1162>>>" ++ check (runes_of_ascii "// top
packet // c0
x // c1
{ // c2
} // c3
")).
Eval vm_compute in ("<<<M1657>>>" ++ check (runes_of_ascii "  packet  len
{ repeat

    A
    ,}
")).
Eval vm_compute in ("<<<M1181>>>" ++ check (runes_of_ascii "// c
options { A = ""// no comment"" }")).
Eval vm_compute in ("<<<M944>>>" ++ check (runes_of_ascii "root packet A {
    u8 x `a

b`,
}")).
Eval vm_compute in ("<<<M739>>>" ++ check ([65533; 8; 65533; 65533]%N ++ runes_of_ascii "_" ++ [18]%N ++ runes_of_ascii "%" ++ [65533]%N ++ runes_of_ascii "." ++ [65533; 65533; 65533; 6]%N ++ runes_of_ascii "AR" ++ [31; 65533]%N ++ runes_of_ascii "rNi" ++ [1450; 22]%N ++ runes_of_ascii "tL9" ++ [0; 65533]%N ++ runes_of_ascii "A" ++ [65533]%N ++ runes_of_ascii "/")).
Eval vm_compute in ("<<<M1096>>>" ++ check (runes_of_ascii "MetaData M {
}// c
options {}")).
Eval vm_compute in ("<<<M1824>>>" ++ check (runes_of_ascii "// c" ++ [160]%N ++ runes_of_ascii "
	packet
	A 
{  }
")).
Eval vm_compute in ("<<<M1123>>>" ++ check (runes_of_ascii "
// c
MetaData tag { }")).
Eval vm_compute in ("<<<M1001>>>" ++ check (runes_of_ascii "// c" ++ [12288]%N ++ runes_of_ascii "
packet A {
}")).
Eval vm_compute in ("<<<M1102>>>" ++ check (runes_of_ascii "packet A { // a
 }")).
Eval vm_compute in ("<<<M1851>>>" ++ check (runes_of_ascii "packet Packet {
}")).
Eval vm_compute in ("<<<M1690>>>" ++ check (runes_of_ascii "/// triple")).
Eval vm_compute in ("<<<M159>>>" ++ check (runes_of_ascii "  
")).
