From FP Require Import Lexer Parser ShowPT Digest Formatter.
From Coq Require Import String List NArith.
Import ListNotations.
Open Scope string_scope.
Set Printing Width 100000000.
Set Printing Depth 100000000.
Definition show_fres (r : fres) : string :=
  match r with
  | FOk s => "OK:" ++ sh_escaped s ""
  | FErr s => "ERR:" ++ sh_escaped s ""
  | FPanic p => "PANIC:" ++ p
  end.
Definition check (rs : list rune) : string := digest (show_fres (format_res rs)).
Definition full (rs : list rune) : string := show_fres (format_res rs).
Eval vm_compute in ("<<<M1959>>>" ++ check (runes_of_ascii "packet falsey {
    char[7] Foo @calculatedFrom(""CRC32""),
    @tag(10)
    u8 Packet `" ++ [233]%N ++ runes_of_ascii "`,
    repeat stringy,
    @lengthOf(float)
    tag {
        repeat u8x {
            int16 charz @lengthOf(trueish),//	t
            repeat string calculatedFrom,
            charz @calculatedFrom(""a\""b"") `line1
            line2`,
        },
        u64 MetaDataX @calculatedFrom(""" ++ [128512]%N ++ runes_of_ascii """) `" ++ [233]%N ++ runes_of_ascii "`,
        rootA {
            repeat u64 BodyLength `" ++ [233]%N ++ runes_of_ascii "`,
            pack @calculatedFrom(""{,}"") `" ++ [28040; 24687; 31867; 22411]%N ++ runes_of_ascii "`,
            repeat x charz,
        },
        // a // b
        char[] packetx,
    },// `tick` ""quote"" 'q'
    calculatedFrom,
    u x_y_z,
    repeat int i64_,
    @leftPad(' ')
    u32 T @calculatedFrom(""{,}""),
    repeat metadata,
}

root packet chars {
    char[65535] pack @lengthOf(As) `tab	here`,
    char[255] msg_type `// not a comment`,
    @calculatedFrom(""// no comment"")
    @tag(0)
    @tag(10)
    repeat Header {
        char[] i64_,
        repeat T ``,
        match uint8x as i64_ {
            00 : _x,
            65535 : Z9_,
            ""1"" : u8x,
            007 : Z9_,
            255 : matchKey,
            ""1"" : crc,
        },
    },
    @calculatedFrom(""packet"")
    match int as x_y_z {
        0123456789 : Logon,
        //	t
        [0123456789, ""it's""] : int,
        [""a	b"", ""CRC32"", 0, 4294967296, """"] : pack,
        0 : u,
    },
    match string_ as int {
        0 : repeatCount,
        [""abc""] : float,
        007 : msg_type,
        [""a\""b""] : charz,
    },
    i16 MetaDataX `say ""hi""`,
    repeat u `tab	here`,
    repeat falsey {
        repeat i8 lengthOf `a\`,
        repeatCount @lengthOf(o) `{ , }`,
    },
}

packet rootA {
    calculatedFrom @calculatedFrom(""x y""),
    char Pad @calculatedFrom(""a\""b"") `" ++ [233]%N ++ runes_of_ascii "`,
    @leftPad('\x00')
    repeat float64 tag,
    // " ++ [27880; 37322]%N ++ runes_of_ascii "
    @calculatedFrom(""1"")
    repeat Foo,
}// " ++ [27880; 37322]%N)).
Eval vm_compute in ("<<<M1347>>>" ++ check (runes_of_ascii "// top
options // c0a
  // c0b
{ // c1
ArrayPrefixLenType
    // c2
=
    // c3
u64 // c4a
  // c4b
; // c5
FixedStringPadFromLeft
    // c6
= true
    // c8
; // c9a
  // c9b
FixedStringPadChar // c10
=
    // c11
'0'
    // c12
; }
    // c14
packet
    // c15
Quote // c16
{ // c17a
  // c17b
} // c18a
  // c18b
packet // c19
Ack // c20a
  // c20b
{ repeat // c22
InNote66 { // c24a
  // c24b
u8 // c25a
  // c25b
pad0 // c26
,
    // c27
} // c28
, // c29
} // c30
packet
    // c31
Reject // c32a
  // c32b
{
    // c33
} // c34a
  // c34b
root // c35
packet // c36a
  // c36b
Order
    // c37
{ // c38
Quote // c39
, repeat // c41
Reject , // c43a
  // c43b
string
    // c44
venue
    // c45
, string
    // c47
seqNo // c48a
  // c48b
, // c49
uint32
    // c50
Ref // c51a
  // c51b
, // c52a
  // c52b
u16 // c53a
  // c53b
lastPx
    // c54
,
    // c55
u32 // c56a
  // c56b
clOrdID // c57
@lengthOf(
    // c58
Body ) // c60
, // c61a
  // c61b
match
    // c62
lastPx // c63
as // c64a
  // c64b
Body // c65a
  // c65b
{ 190 // c67
: // c68a
  // c68b
Reject // c69
,
    // c70
186 : // c72a
  // c72b
Quote ,
    // c74
22 :
    // c76
Ack
    // c77
, // c78
} // c79
,
    // c80
u16 // c81a
  // c81b
Flags // c82
@calculatedFrom( // c83a
  // c83b
""CRC32"" ) , // c86
} // c87a
  // c87b
")).
Eval vm_compute in ("<<<M96>>>" ++ check (runes_of_ascii "packet  int//x
{
// " ++ [128512]%N ++ runes_of_ascii " emoji
//	t
} packet Z9_ {
    @tag(  1
) @tag(00 ) zchar[ 0 ] trueish `// not a comment`
, Header @lengthOf(
repeatCount ) // `tick` ""quote"" 'q'
,charz float`crlf
line` , match
lengthOf as	u
    // c
    { // `tick` ""quote"" 'q'
65535  :
    msg_type
,""1""
:
    // " ++ [27880; 37322]%N ++ runes_of_ascii "
    x
    ,
""a\""b"" : packetx , 10:
msg_type """ ++ [128512]%N ++ runes_of_ascii """ :
calculatedFrom [
7 ,0	]
    // c
    : // " ++ [128512]%N ++ runes_of_ascii " emoji
u128 , }, string i8i8`{ , }` , } packet// @lengthOf(
a1{ } root packet roots {
    @lengthOf(
    // " ++ [128512]%N ++ runes_of_ascii " emoji
    u )
f64 Logon,@lengthOf(
_x	) As
    @calculatedFrom(""\n"" ) , @leftPad
// packet A { u8 x, }
// " ++ [27880; 37322]%N ++ runes_of_ascii "
(  )repeatCount
@calculatedFrom( ""{,}""
)
`tab	here`
    // trailing space 
    , @tag(
    //x
    42)char[
1
    ]T
    `a\`
,int64
_x// packet A { u8 x, }
, zchar[	4294967296
    ]
i64_ @lengthOf(  tag
    //	t
    )
    `
`
    , @calculatedFrom(""a\""b""
    //x
    ) u8 len`it's` , @leftPad
(
) metadata@lengthOf(tag
    ) `{ , }` ,@leftPad// packet A { u8 x, }
( ' '
) MetaDataX  {
    repeat char[]	rootA
    ,
    // c
    } ,i8 body ,}
")).
Eval vm_compute in ("<<<M1878>>>" ++ check (runes_of_ascii "packet i8i8 {
    @tag(0)
    int32 leftPad `it's`,
    repeat char[] Header `crlf
    line`,
    @calculatedFrom(""\" ++ [233]%N ++ runes_of_ascii """)
    /// triple
    repeat uint8 float,
    @rightPad('\x00')
    char[] zchar @lengthOf(leftPad) `
    `,
    Z9_,
    @lengthOf(x)
    match As as tag {
        ""a	b"" : string_,
        [
            10, 7, ""1"", 255, 3,
            42, 0123456789, """ ++ [128512]%N ++ runes_of_ascii """
        ] : x_y_z,
        ""CRC32"" : Z9_,
        00 : Logon,
    },
    @tag(007)
    o {
        char Packet @lengthOf(repeatCount),
    },
    @lengthOf(pack)
    float64 rootA `two words`,
    repeat char[] BodyLength,
}

packet Z9_ {
    match As as a1 {
        //
        0 : trueish,
    },
    /// triple
    // " ++ [27880; 37322]%N ++ runes_of_ascii "
}

root packet u8x {
    /// triple
    // " ++ [128512]%N ++ runes_of_ascii " emoji
    repeat string Logon `tab	here`,// " ++ [128512]%N ++ runes_of_ascii " emoji
}

options {
    _x = ""packet"";
    f32a = 007
}

packet i8i8 {
    @calculatedFrom(""CRC32"")
    A @lengthOf(a1),
}")).
Eval vm_compute in ("<<<M135>>>" ++ check (runes_of_ascii "
packet crc
    {@tag(	0)  @calculatedFrom(
    ""{,}""	) @rightPad ( ' ')	repeat uint8 lengthOf // a // b
,
    char[	42 ] float ,
    repeat a1 // packet A { u8 x, }
{ match
x_y_z as charz
    { [
00
, 4294967296,
//x
// a // b
""it's"",""" ++ [28040; 24687]%N ++ runes_of_ascii """ ] ://x
zchar,	[
    ""packet"" ,// c
""x y"",
""it's"" ,""abc"" ,
""it's""
    ] :string_ , 0 : Z9_
}
    // `tick` ""quote"" 'q'
    , // `tick` ""quote"" 'q'
} ,match u8x
as//x
pack {[ 0123456789
, ""x y""
] : // c
trueish /// triple
, }	,
    @calculatedFrom( ""a\""b""
    // c
    ) repeat string_ `a\`,
packetx@calculatedFrom(
""`tick`"" ) , int64 chars `say ""hi""` , @calculatedFrom(
""a	b"" )@leftPad (  '\x00'
) @lengthOf(
    repeatCount)u64
    falsey@calculatedFrom( ""\" ++ [233]%N ++ runes_of_ascii """
    )
,
repeat Header { repeat
    metadata , char[] chars`" ++ [28040; 24687; 31867; 22411]%N ++ runes_of_ascii "` , zchar[ 10] x_y_z `a\` ,	},
// trailing space 
// c
}
")).
Eval vm_compute in ("<<<M1944>>>" ++ check (runes_of_ascii "packet float {
    char[] u8x @lengthOf(roots),
}

MetaData leftPad {
    string a1,
}

root packet pack {
    falsey,
    /// triple
    match Logon as trueish {
        ""packet"" : Foo,
        """" : len,
        0123456789 : i64_,
        ""it's"" : packetx,
        255 : len,
    },
    repeat As As `" ++ [233]%N ++ runes_of_ascii "`,
    @tag(3)
    uint32 a1,
    repeat zchar[4294967296] pack,
    @leftPad(' ')
    zchar @lengthOf(string_) `// not a comment`,
    repeat int,
    repeat i8i8 {
        u64 tag `say ""hi""`,
        u8x,
        char trueish,
        repeat float32 stringy `line1
                line2`,
    },
    match o as o {
        007 : float,
    },
    // packet A { u8 x, }
    // c
    repeat Pad,
    // " ++ [27880; 37322]%N ++ runes_of_ascii "
    // trailing space 
}")).
Eval vm_compute in ("<<<M216>>>" ++ check (runes_of_ascii "// " ++ [27880; 37322]%N ++ runes_of_ascii "
packet chars {match
charz
as
    // trailing space 
    A // trailing space 
{0123456789: rootA ,
    42
:
    x , ""1"" :Logon , 7 :u , ""\n"" : packetx , }, char[]MetaDataX
@calculatedFrom(""""
) `" ++ [233]%N ++ runes_of_ascii "`
    // trailing space 
    ,	@leftPad( ' ' )  char[] Foo,
    crc , f64 string_ , // " ++ [128512]%N ++ runes_of_ascii " emoji
char[]
packetx,i64 u8x@lengthOf(  stringy ) `// not a comment`, repeat zchar {
repeat
A _x , lengthOf	@lengthOf( u8x
) ,	match A as matchKey { 3 :Z9_ , ""// no comment"": As 00 //x
:
i64_ ,
// a // b
// " ++ [128512]%N ++ runes_of_ascii " emoji
""a\\""  :i64_ , [ ""`tick`""/// triple
] : T ,
    }
,
// a // b
// packet A { u8 x, }
uint32 T
`" ++ [28040; 24687; 31867; 22411]%N ++ runes_of_ascii "`
    , }
    , uint64
    /// triple
    charz
, }")).
Eval vm_compute in ("<<<M1466>>>" ++ check (runes_of_ascii "packet BodyLength {
    @rightPad('\x00')
    u8x,
    @tag(007)
    @calculatedFrom(""packet"")
    repeat uint8x x_y_z,
}

MetaData A {
    // packet A { u8 x, }
    Z9_ f32a,
    zchar[255] msg_type `say ""hi""`,
    char[1] Logon `tab	here`,//
}

packet uint8x {
    @calculatedFrom(""" ++ [28040; 24687]%N ++ runes_of_ascii """)
    @tag(65535)
    u32 int @lengthOf(u8x) `say ""hi""`,
    @leftPad(' ')
    stringy {
        string_ A,
        char[4294967296] i8i8 `" ++ [233]%N ++ runes_of_ascii "`,
        char[] Logon,
        string x_y_z @lengthOf(Packet),
    },
    zchar[4294967296] int `{ , }`,
}

// trailing space 
// " ++ [27880; 37322]%N ++ runes_of_ascii "
packet u8x {
}
// a // b")).
Eval vm_compute in ("<<<M296>>>" ++ check (runes_of_ascii "MetaData u128
{  zchar[ 3 ] matchKey	`crlf
line` //
, } // packet A { u8 x, }
options
{ //x
} root	packet rootA
    { @calculatedFrom(
    ""{,}"" ) repeat u16 len ,repeat body,i8i8 @lengthOf( packetx),metadata int `line1
line2` ,  uint8x `two words` // c
, int16 //
x_y_z
, repeatCount , Logon {  repeat// trailing space 
i8 Packet `line1
line2`
, } ,}
options
{// " ++ [128512]%N ++ runes_of_ascii " emoji
lengthOf
//
// trailing space 
= ' ' ;
i64_ = ""{,}"" ; msg_type
= '0'
; u=
// packet A { u8 x, }
// " ++ [27880; 37322]%N ++ runes_of_ascii "
i32;_x = ""abc""
    // packet A { u8 x, }
    ; }
")).
Eval vm_compute in ("<<<M1472>>>" ++ check (runes_of_ascii "// top
packet MDSnapshotZZ {
    // c2
    u8 a,// c5a
    // c5b
}// c6

packet OrderACK {
    // c9a
    // c9b
    u16 b,
    // c12
}// c13a

// c13b
packet HTTPServerInfo {
    // c16
    string s,
    // c19
}

// c20
root packet FIXMsg {
    u8 KType,// c27a
    // c27b
    MDSnapshotZZ,// c29a
    // c29b
    repeat OrderACK,// c32a
    // c32b
    match KType as Body {
        // c37
        1 : HTTPServerInfo,
        2 : OrderACK,
    },
    // c47
}// c48a
// c48b")).
Eval vm_compute in ("<<<M1372>>>" ++ check (runes_of_ascii "options {
    LittleEndian = true;
    StringPrefixLenType = u64;
    ArrayPrefixLenType = u16;
    FixedStringPadFromLeft = false;
    FixedStringPadChar = ' ';
}
packet Logon {
    zchar[5] Side2,
}
root packet Logout {
    repeat i64 Tail,
    Logon,
    repeat i16 OrderId,
    char[] venue,
    uint64 x,
    repeat i16 count,
    u8 Flags,
    match Flags as Body {
        25 : Logon,
    },
    u16 Qty @calculatedFrom(""CRC32""),
}
")).
Eval vm_compute in ("<<<M220>>>" ++ check (runes_of_ascii "root
    packet string_{
//	t
//x
i16 o /// triple
,
    @tag( 4294967296
)
repeat char o ,Foo {match MetaDataX // trailing space 
as leftPad
    { 0123456789 : calculatedFrom ,
[ 0 ]
: u128}
, repeat
u
// `tick` ""quote"" 'q'
// @lengthOf(
{
    zchar[65535]body@lengthOf( float  )
,o , asx @calculatedFrom( ""{,}"" ) `it's` // `tick` ""quote"" 'q'
,}// `tick` ""quote"" 'q'
,
} ,  }
")).
Eval vm_compute in ("<<<M1805>>>" ++ check (runes_of_ascii "
options
	{	LittleEndian
=
true
    ;

    } packet

    Logon 
{  u8

    x
    ,
    }

    packet 
Logout  {	u16	reason
	, }  root
packet

Frame{
u64	Kind
    ,
    u64
Kind2 ,

match Kind
as
Body {
1
    :
	Logon 
,

[  2
,
3  ,
    4  ] :

Logout
, 100 :

Logon
    ,

} , match

    Kind2 as Trailer 
{
	0 :Logout
,}
, } ")).
Eval vm_compute in ("<<<M1848>>>" ++ check (runes_of_ascii "packet A {
    u8 a,
}

packet B {
    u16 b,
}

packet C {
    u32 c,
}

root packet M {
    u16 Kc,
    u16 Kb,
    u16 Ka,
    match Kc as X {
        9 : A,
        10 : B,
    },
    match Kb as Y {
        2 : C,
        1 : A,
    },
    match Ka as Z {
        1 : B,
    },
    A,
    B,
    C,
}")).
Eval vm_compute in ("<<<M94>>>" ++ check (runes_of_ascii "MetaData chars{ uint64	A, msg_type asx
    // c
    , Z9_  a1,
    stringy
    i64_ //
`doc` , }packet
/// triple
// a // b
x_y_z {	} options {
float // c
=float32 rootA= false ;
repeatCount// c
=  char[ 10 ]
; }	packet Z9_{zchar[007 ]
    //	t
    charz // c
,
} //x")).
Eval vm_compute in ("<<<M1306>>>" ++ check (runes_of_ascii "// top
packet // c0a
  // c0b
orderItem // c1a
  // c1b
{ u8 // c3
a // c4
, // c5a
  // c5b
}
    // c6
root packet // c8a
  // c8b
newOrder // c9a
  // c9b
{ orderItem // c11
, u8
    // c13
x // c14a
  // c14b
,
    // c15
} // c16
")).
Eval vm_compute in ("<<<M1434>>>" ++ check (runes_of_ascii "packet A {
    match k as n {
        ""x\
                y"" : B,
        [""x\
                y"", 1] : C,
        [
            1, 2, 3, 4, 5,
            ""x\
                        y""
        ] : D,
    },
}")).
Eval vm_compute in ("<<<M357>>>" ++ check (runes_of_ascii "MetaData x_y_z
{
lengthOf // packet A { u8 x, }
rootA , MetaDataX// " ++ [128512]%N ++ runes_of_ascii " emoji
_x , char[ 4294967296 ] stringy , char[
//
// c
007
] u128
, tag u8x `line1
line2` ,  uint8 u128 , }
")).
Eval vm_compute in ("<<<M60>>>" ++ check (runes_of_ascii "root packet _x
{ uint32 trueish @calculatedFrom( ""1"" ) `crlf
line`
,  }
    //
    packet	Header { repeat u64
stringy `// not a comment` , float32  msg_type ,}
")).
Eval vm_compute in ("<<<M438>>>" ++ check (runes_of_ascii "packet uint8x
{ match pack
    as msg_type	{
    0123456789 `it's`	float
}
,
} packet //	t
a1
    { } options {packetx
    = '\x00'	; u128= ""a	b""  ; }
")).
Eval vm_compute in ("<<<M456>>>" ++ check (runes_of_ascii "packet uint8x
{ match pack
    as msg_type	{
    0123456789 :	float
}
,
} } packet //	t
a1
    { } options {packetx
    = '\x00'	; u128= ""a	b""  ; }
")).
Eval vm_compute in ("<<<M393>>>" ++ check (runes_of_ascii "uint8x packet
{ match pack
    as msg_type	{
    0123456789 :	float
}
,
} packet //	t
a1
    { } options {packetx
    = '\x00'	; u128= ""a	b""  ; }
")).
Eval vm_compute in ("<<<M673>>>" ++ check (runes_of_ascii "// @lengthOf(
packet i8i8 { u128 o , }
options { MetaDataX = true;
    BodyLength =""packet"" x_y_z float64 007
crc //x
= ""abc"" ;
    msg_type =
i16 }")).
Eval vm_compute in ("<<<M394>>>" ++ check (runes_of_ascii "u32 uint8x
{ match pack
    as msg_type	{
    0123456789 :	float
}
,
} packet //	t
a1
    { } options {packetx
    = '\x00'	; u128= ""a	b""  ; }
")).
Eval vm_compute in ("<<<M1720>>>" ++ check (runes_of_ascii "
MetaData leftPad{ 
chars
	MetaDataX
	,
	}packet
repeatCount

{

    char[
    255 ] 
uint8x
`" ++ [233]%N ++ runes_of_ascii "` ,} 
MetaData 
    // c
    pack{ As
Foo,
}
")).
Eval vm_compute in ("<<<M722>>>" ++ check (runes_of_ascii "// @lengthOf(
packet i8i8 { u128 o , }
options { MetaDataX = true;
    BodyLength =x_y_z ""packet""= 007
crc //x
= ""abc"" ;
    msg_type =
i16 }")).
Eval vm_compute in ("<<<M1611>>>" ++ check (runes_of_ascii "
packet	A	{

    match
k	as
    n  {[	""a"" ,  22
	,
    ""c c""  ,
	4

    ,  ""e""
,  66  ,""g"" ,
8 
,	""i""
,	10 ]	:
B
,  2 :
C

} ,  } ")).
Eval vm_compute in ("<<<M1266>>>" ++ check (runes_of_ascii "  packet B
    {
u8 a
	,
    } 
root  packet

P {
u8
    K  ,
	match
    K as Body

{
1

:  B,
}  ,
	u16	L@lengthOf(	Body

) ,
	}
")).
Eval vm_compute in ("<<<M1694>>>" ++ check (runes_of_ascii "packet A 
{
match k
as

n
    {
	[  ""a"",
    ""bb""
	, 
007	, ""d""

, 
""e"",66

,""g""	,  ""h""

,
	9 ,	""j""
	]	:B	2

: 
C }

,
}")).
Eval vm_compute in ("<<<M1145>>>" ++ check (runes_of_ascii "MetaData leftPad // c
{ chars MetaDataX , } packet repeatCount { char[ 255 ] uint8x `" ++ [233]%N ++ runes_of_ascii "` , } MetaData pack { As Foo , }")).
Eval vm_compute in ("<<<M1177>>>" ++ check (runes_of_ascii "MetaData leftPad { chars MetaDataX , } packet repeatCount { char[ 255 ] uint8x `" ++ [233]%N ++ runes_of_ascii "` , } MetaData // c
pack { As Foo , }")).
Eval vm_compute in ("<<<M346>>>" ++ check (runes_of_ascii "MetaData chars {
x_y_z
/// triple
/// triple
x
    `line1
line2` ,_x A`// not a comment`,	} // `tick` ""quote"" 'q'")).
Eval vm_compute in ("<<<M962>>>" ++ check (runes_of_ascii "packet A {
    Inner {
        u8 x `tab
	x`,
        Deep {
            u8 y `tab
	x`,
        },
    },
}")).
Eval vm_compute in ("<<<M1732>>>" ++ check (runes_of_ascii "packet

    A
	{ match k
as n

{
[
""a"" 
,22 ,

""c c""
,
4  , ""e"" 
,
    66]:	B 2 
:C
    }
    ,}
")).
Eval vm_compute in ("<<<M882>>>" ++ check (runes_of_ascii "packet A {
  match k as n {
    [1, ""bb"", 007, ""d"", 5, ""f"", 7, ""h"", 9, ""j""] : B,
    2 : C
  },
}")).
Eval vm_compute in ("<<<M558>>>" ++ check (runes_of_ascii "
packet
    asx asx {match u128 as lengthOf
{
//	t
// `tick` ""quote"" 'q'
255 : x ,
    } ,	}")).
Eval vm_compute in ("<<<M639>>>" ++ check (runes_of_ascii "
packet
    asx {match u128 as lengthOf
{
//	t
// `tick` ""quote"" 'q'
255 : x ,
    } ,	"" }")).
Eval vm_compute in ("<<<M604>>>" ++ check (runes_of_ascii "
packet
    asx {match u128 as lengthOf
{
//	t
// `tick` ""quote"" 'q'
255 : , x
    } ,	}")).
Eval vm_compute in ("<<<M1507>>>" ++ check (runes_of_ascii "
root	packet
    P { u16	a

,

    u32 Sum @calculatedFrom(

    ""CR\
C32"" 
)
, }
")).
Eval vm_compute in ("<<<M116>>>" ++ check (runes_of_ascii "root packet Z9_ { repeat lengthOf
pack , repeat
    A {	repeatCount`doc` ,
    },	}")).
Eval vm_compute in ("<<<M824>>>" ++ check (runes_of_ascii "packet A {
  match k as n {
    [""a"", ""bb"", 007, ""d"", ""e""] : B
    2 : C
  },
}")).
Eval vm_compute in ("<<<M810>>>" ++ check (runes_of_ascii "packet A {
  match k as n {
    [""a"", ""bb"", 007, ""d""] : B,
    2 : C
  },
}")).
Eval vm_compute in ("<<<M808>>>" ++ check (runes_of_ascii "packet A {
  match k as n {
    [1, 22, ""c c"", 4] : B,
    2 : C
  },
}")).
Eval vm_compute in ("<<<M1463>>>" ++ check (runes_of_ascii "MetaData x {
    x Packet,
    i32 lengthOf,// `tick` ""quote"" 'q'
}")).
Eval vm_compute in ("<<<M1712>>>" ++ check (runes_of_ascii "packet
A
{ match  k
	as
n

{

    [
    1

]
: B 2 :	C

},}
")).
Eval vm_compute in ("<<<M1624>>>" ++ check (runes_of_ascii "

  MetaData 
lengthOf	{Header

    o`doc`  ,

    }
")).
Eval vm_compute in ("<<<M1552>>>" ++ check (runes_of_ascii "MetaData M {
    u8 x `a
    b`,
    T t `a
    b`,
}")).
Eval vm_compute in ("<<<M341>>>" ++ check (runes_of_ascii "options  { len = // " ++ [128512]%N ++ runes_of_ascii " emoji
""packet"" int
= ""abc""}")).
Eval vm_compute in ("<<<M1445>>>" ++ check (runes_of_ascii "
options { 
x
= ""{,}""matchKey
=
    true;
}

")).
Eval vm_compute in ("<<<M772>>>" ++ check (runes_of_ascii "false int8 uint64 @lengthOf( , @leftPad :")).
Eval vm_compute in ("<<<M1081>>>" ++ check (runes_of_ascii "options { a = 1; // a
 b = 2 // b
 }")).
Eval vm_compute in ("<<<M1419>>>" ++ check (runes_of_ascii "options {
    int = char[];
}
//")).
Eval vm_compute in ("<<<M1038>>>" ++ check (runes_of_ascii "packet A {
 u8 x `d" ++ [12]%N ++ runes_of_ascii "`, // c" ++ [12]%N ++ runes_of_ascii "
}")).
Eval vm_compute in ("<<<M1910>>>" ++ check (runes_of_ascii "

  packet
A  {

}

// c" ++ [8232]%N ++ runes_of_ascii "
")).
Eval vm_compute in ("<<<M1599>>>" ++ check (runes_of_ascii "// a
// b
packet A {
}")).
Eval vm_compute in ("<<<M22>>>" ++ check (runes_of_ascii "packet leftPad {
}")).
Eval vm_compute in ("<<<M997>>>" ++ check (runes_of_ascii "// c" ++ [5760]%N ++ runes_of_ascii "
packet A {
}")).
Eval vm_compute in ("<<<M172>>>" ++ check (runes_of_ascii "packet
len { }

")).
Eval vm_compute in ("<<<M11>>>" ++ check (runes_of_ascii "packet zchar { }")).
Eval vm_compute in ("<<<M1477>>>" ++ check (runes_of_ascii "
// " ++ [128512]%N ++ runes_of_ascii " emoji")).
Eval vm_compute in ("<<<M1030>>>" ++ check (runes_of_ascii "// c" ++ [11]%N)).
