From FP Require Import Lexer Parser ShowPT Digest Formatter.
From Coq Require Import String List NArith.
Import ListNotations.
Open Scope string_scope.
Set Printing Width 100000000.
Set Printing Depth 100000000.
Definition show_fres (r : fres) : string :=
  match r with
  | FOk s => "OK:" ++ sh_escaped s ""
  | FErr s => "ERR:" ++ sh_escaped s ""
  | FPanic p => "PANIC:" ++ p
  end.
Definition check (rs : list rune) : string := digest (show_fres (format_res rs)).
Definition full (rs : list rune) : string := show_fres (format_res rs).
Eval vm_compute in ("<<<M1623>>>" ++ check (runes_of_ascii "packet falsey {
    char[7] Foo @calculatedFrom(""CRC32""),
    @tag(10)
    u8 Packet `" ++ [233]%N ++ runes_of_ascii "`,
    repeat stringy,
    @lengthOf(float)
    tag {
        repeat u8x {
            int16 charz @lengthOf(trueish),//	t
            repeat string calculatedFrom,
            charz @calculatedFrom(""a\""b"") `line1
            line2`,
        },
        u64 MetaDataX @calculatedFrom(""" ++ [128512]%N ++ runes_of_ascii """) `" ++ [233]%N ++ runes_of_ascii "`,
        rootA {
            repeat u64 BodyLength `" ++ [233]%N ++ runes_of_ascii "`,
            pack @calculatedFrom(""{,}"") `" ++ [28040; 24687; 31867; 22411]%N ++ runes_of_ascii "`,
            repeat x charz,
        },
        // a // b
        char[] packetx,
    },// `tick` ""quote"" 'q'
    calculatedFrom,
    u x_y_z,
    repeat int i64_,
    @leftPad(' ')
    u32 T @calculatedFrom(""{,}""),
    repeat metadata,
}

root packet chars {
    char[65535] pack @lengthOf(As) `tab	here`,
    char[255] msg_type `// not a comment`,
    @calculatedFrom(""// no comment"")
    @tag(0)
    @tag(10)
    repeat Header {
        char[] i64_,
        repeat T ``,
        match uint8x as i64_ {
            00 : _x,
            65535 : Z9_,
            ""1"" : u8x,
            007 : Z9_,
            255 : matchKey,
            ""1"" : crc,
        },
    },
    @calculatedFrom(""packet"")
    match int as x_y_z {
        0123456789 : Logon,
        //	t
        [0123456789, ""it's""] : int,
        [0, 4294967296, ""a	b"", ""CRC32"", """"] : pack,
        0 : u,
    },
    match string_ as int {
        0 : repeatCount,
        [""abc""] : float,
        007 : msg_type,
        [""a\""b""] : charz,
    },
    i16 MetaDataX `say ""hi""`,
    repeat u `tab	here`,
    repeat falsey {
        repeat i8 lengthOf `a\`,
        repeatCount @lengthOf(o) `{ , }`,
    },
}

packet rootA {
    calculatedFrom @calculatedFrom(""x y""),
    char Pad @calculatedFrom(""a\""b"") `" ++ [233]%N ++ runes_of_ascii "`,
    @leftPad('\x00')
    repeat float64 tag,
    @calculatedFrom(""1"")
    repeat Foo,
}// " ++ [27880; 37322]%N)).
Eval vm_compute in ("<<<M1773>>>" ++ check (runes_of_ascii "packet asx {
    leftPad @calculatedFrom(""" ++ [233]%N ++ runes_of_ascii "t" ++ [233]%N ++ runes_of_ascii """),
    @leftPad('0')
    // trailing space 
    u8x As `crlf
    line`,
    char[3] asx @calculatedFrom(""{,}""),
    // @lengthOf(
    // trailing space 
    repeat u128 {
        int {
            packetx @calculatedFrom(""packet""),
            match T as T {
                ""a	b"" : o,
            },
            zchar[00] lengthOf `{ , }`,
            /// triple
            // trailing space 
            char[] crc @calculatedFrom(""abc""),
        },
        Header @calculatedFrom(""" ++ [233]%N ++ runes_of_ascii "t" ++ [233]%N ++ runes_of_ascii """) `two words`,
        repeat uint8 uint8x,
        repeat char[0123456789] float `u8 x,`,
    },
    packetx x `say ""hi""`,
    @rightPad()
    i8i8 @calculatedFrom(""x y""),
    @leftPad()
    BodyLength {
        repeat int32 _x ``,
        i8 msg_type `doc`,
    },
}

// `tick` ""quote"" 'q'
// packet A { u8 x, }
packet body {
}

packet repeatCount {
    zchar[3] Packet,
    @lengthOf(Header)
    i64 Packet `two words`,
    zchar[65535] calculatedFrom `tab	here`,
    match x as leftPad {
        ""// no comment"" : rootA,
        ""`tick`"" : o,
    },// " ++ [128512]%N ++ runes_of_ascii " emoji
    zchar[3] u128 @calculatedFrom(""{,}"") `{ , }`,
}

//	t
options {
    u = char[42]// " ++ [27880; 37322]%N ++ runes_of_ascii "
    metadata = ""a\\"";
    Logon = string;
    Z9_ = u16;
}")).
Eval vm_compute in ("<<<M1687>>>" ++ check (runes_of_ascii "  options{

} options{

uint8x
=

// @lengthOf(
  // " ++ [27880; 37322]%N ++ runes_of_ascii "
  	42

    uint8x = 	 /// triple
    ""abc""  ;//x
	  _x = 
'0'

    }  packet u8x{  zchar[1

    ]
As
    `crlf
line`  ,
	match

    metadata
as

    float
	{

    ""packet""
	: //
	  trueish
    ,	},repeat rootA,
    repeat	metadata repeatCount  // trailing space 
  	,
	@rightPad

( 	 // `tick` ""quote"" 'q'
    	'0'

    )  i64 body 
`// not a comment` ,@tag( 1  )	string
    string_
	`line1
line2` 
, 
uint8

u8x `" ++ [28040; 24687; 31867; 22411]%N ++ runes_of_ascii "` ,
packetx
u128

    , u tag
,
	repeat Logon	zchar
`` , } packet
zchar

    {
}
packet
MetaDataX
{@lengthOf( Packet ) repeatCount int 
`doc`	,

@tag(

7
)packetx
@calculatedFrom( ""a\""b"" 	 // c
)
,match	msg_type	as x {
""\n""  :
calculatedFrom

    }, //x
  @leftPad
( 	 // packet A { u8 x, }
    '\x00'

    ) @lengthOf( MetaDataX// c
  ) 
// a // b
	char[  007 ]	a1
	`tab	here`
, 
As  @calculatedFrom(
""`tick`""	)
`// not a comment`
,
} ")).
Eval vm_compute in ("<<<M1502>>>" ++ check (runes_of_ascii "options {
    matchKey = ""x y"";
    MetaDataX = '0';
}

packet msg_type {
    @rightPad(' ')
    repeat u128 body,
    match body as pack {
        [""\" ++ [233]%N ++ runes_of_ascii """, ""1""] : BodyLength,
        [
            255, 007, 007, 0123456789, ""a	b"",
            ""a\\"", ""{,}""
        ] : options1,
    },
    @leftPad()
    @lengthOf(charz)
    @tag(42)
    o {
        i32 msg_type @lengthOf(A) `doc`,
        zchar[1] charz,// c
        i8 packetx `{ , }`,
        msg_type `crlf
        line`,
    },
    @calculatedFrom(""\" ++ [233]%N ++ runes_of_ascii """)
    Z9_ @calculatedFrom(""" ++ [128512]%N ++ runes_of_ascii """) `tab	here`,
    repeat char[] Foo,
    repeat zchar[0123456789] u128,
}

packet f32a {
    f32a @lengthOf(matchKey),
    @rightPad(' ')
    @lengthOf(chars)
    _x Foo ``,
    match body as body {
        [4294967296, 3, 0123456789, ""packet"", """ ++ [128512]%N ++ runes_of_ascii """] : T,
        [""a\\""] : T,
        ""\n"" : u8x,
    },
}//x

root packet lengthOf {
}")).
Eval vm_compute in ("<<<M362>>>" ++ check (runes_of_ascii "MetaData len
{i8 _x
    //	t
    `` , zchar[ 00 ] tag , roots
u
    // `tick` ""quote"" 'q'
    ,uint16 repeatCount , msg_type tag , } packet x_y_z
    {
metadata { i8i8 chars
,i64
chars , }
, repeat u16 asx
// a // b
// a // b
,
}	packet u8x  { @lengthOf( BodyLength	)	@leftPad(
// a // b
//
)float
    /// triple
    `
` ,
@calculatedFrom( ""// no comment"" ) float32 // " ++ [128512]%N ++ runes_of_ascii " emoji
chars`// not a comment` , uint32
u128 , @tag( 0 )
int16	tag , leftPad
    msg_type , // trailing space 
pack
    `tab	here` ,
@lengthOf(
repeatCount
// c
// c
)zchar[ 4294967296 ] len, i32 packetx`tab	here` , calculatedFrom ,metadata @calculatedFrom(
""// no comment"" ) , } options { // trailing space 
options1 = 42 ; i64_
    // a // b
    = char[] falsey=
// packet A { u8 x, }
//	t
42 // a // b
Packet =
true
;}
")).
Eval vm_compute in ("<<<M1664>>>" ++ check (runes_of_ascii "// a // b
packet u128 {
    repeat chars {
        i64 u8x `
        `,// c
        _x @lengthOf(falsey),
        Logon `" ++ [28040; 24687; 31867; 22411]%N ++ runes_of_ascii "`,
        repeat char[] trueish `tab	here`,
    },
}

root packet T {
    match Packet as trueish {
        ""packet"" : charz,
        [4294967296, ""1""] : A,
        7 : x,
        [7, ""a	b""] : u128,
        255 : As,
        3 : Packet,
    },
    //	t
    // trailing space 
    pack `a\`,
    @calculatedFrom(""" ++ [233]%N ++ runes_of_ascii "t" ++ [233]%N ++ runes_of_ascii """)
    rootA matchKey,
    char[65535] leftPad @lengthOf(roots),
    repeat MetaDataX {
        u64 a1 @calculatedFrom(""x y"") `doc`,//	t
        uint8 falsey,
        match BodyLength as A {
            [255, ""\" ++ [233]%N ++ runes_of_ascii """, """", ""it's""] : Foo,
            3 : u128,
        },
    },
}")).
Eval vm_compute in ("<<<M58>>>" ++ check (runes_of_ascii "packet pack
// c
// packet A { u8 x, }
{u8 a1
// trailing space 
/// triple
`say ""hi""` // packet A { u8 x, }
, @leftPad (
'\x00' )  uint8 Logon	`
` // `tick` ""quote"" 'q'
,
char[]lengthOf // " ++ [27880; 37322]%N ++ runes_of_ascii "
`" ++ [233]%N ++ runes_of_ascii "` ,
//
//x
repeat char[] As,
    //	t
    @lengthOf(string_ )  @calculatedFrom(
""a\\"" )
    repeat
    u8x	o	, char string_ @calculatedFrom(
""a\""b"" )
`tab	here`
    , repeat As { char[
    // packet A { u8 x, }
    0 ] i64_//	t
@lengthOf( T)
`" ++ [233]%N ++ runes_of_ascii "` , char[4294967296	]
T @calculatedFrom( ""\" ++ [233]%N ++ runes_of_ascii """ )
, trueish
, repeat int
{string Logon @calculatedFrom(	""1"" ) , metadata  ,
uint32
Z9_  , // " ++ [27880; 37322]%N ++ runes_of_ascii "
} , },@tag( 00 ) //	t
i16  a1 `a\`
    ,
    }
")).
Eval vm_compute in ("<<<M1431>>>" ++ check (runes_of_ascii "packet f32a {
    char[] Header `" ++ [233]%N ++ runes_of_ascii "`,
    @tag(00)
    zchar[255] int,
    @lengthOf(trueish)
    x @calculatedFrom(""" ++ [128512]%N ++ runes_of_ascii """) `say ""hi""`,
    @leftPad('\x00')
    @lengthOf(u128)
    //	t
    repeat BodyLength,
    falsey @lengthOf(uint8x),//
    @lengthOf(rootA)
    repeat uint8 T `a\`,
    repeat string lengthOf `it's`,
    @leftPad('\x00')
    zchar[42] u `say ""hi""`,// a // b
    repeat packetx {
        Pad f32a,// trailing space 
        i8i8 msg_type `say ""hi""`,
        i64_ repeatCount,
        char[] chars,
    },
}

MetaData _x {
    x matchKey `" ++ [28040; 24687; 31867; 22411]%N ++ runes_of_ascii "`,
}")).
Eval vm_compute in ("<<<M163>>>" ++ check (runes_of_ascii "options { As = // trailing space 
zchar[ 4294967296] ; } //	t
packet len // packet A { u8 x, }
{ @lengthOf(
_x) match
    // c
    lengthOf
    as
//
// `tick` ""quote"" 'q'
string_// c
{
    [ 4294967296 ]: i64_ ""a	b"": o
,
}
, leftPad
    @calculatedFrom( ""`tick`""	)
// trailing space 
// `tick` ""quote"" 'q'
,@leftPad( '\x00' ) repeat charz /// triple
msg_type
,
repeat i8
Foo , }packet msg_type {
//x
// @lengthOf(
@leftPad (
'0'
)
u64 repeatCount @calculatedFrom(
""" ++ [28040; 24687]%N ++ runes_of_ascii """) ,// packet A { u8 x, }
}
")).
Eval vm_compute in ("<<<M1473>>>" ++ check (runes_of_ascii "packet crc

// a // b
//x
	  {

    u128  packetx	, 	 // " ++ [128512]%N ++ runes_of_ascii " emoji
	match
    roots as 

    //
    falsey

    {

    0123456789	// a // b
    :	Header""packet""// a // b
	: 	 // a // b
      Z9_
3

:A
	,
    // trailing space 
	  // a // b
  ""a	b""
: 
roots 
10 :
_x 
,
	}  , @tag( 255  // a // b
	  )  match

calculatedFrom

    as o {255	:
string_
""" ++ [28040; 24687]%N ++ runes_of_ascii """ :
    i64_

,  }
,

    }
	MetaData 
T
	{ float64 u , } packet Pad{ /// triple

}
")).
Eval vm_compute in ("<<<M256>>>" ++ check (runes_of_ascii "
options // " ++ [27880; 37322]%N ++ runes_of_ascii "
{ T = zchar[ 42
] options1 = uint8 ;
lengthOf
=
    // a // b
    char[4294967296
    ]
    ; } packet Z9_ { repeat
MetaDataX
`crlf
line`
    ,
repeat string x_y_z	,
    u32 x
, // `tick` ""quote"" 'q'
@tag(
// " ++ [128512]%N ++ runes_of_ascii " emoji
// " ++ [128512]%N ++ runes_of_ascii " emoji
00 )repeat i64 Logon ,
u8x
f32a, repeat
    lengthOf``, repeat
stringy Pad
    // @lengthOf(
    `
`,
    repeat
    string_ chars `// not a comment` , }

")).
Eval vm_compute in ("<<<M1259>>>" ++ check (runes_of_ascii "// top
packet // c0
B // c1a
  // c1b
{ // c2
u8 // c3a
  // c3b
a // c4
, } // c6
root // c7a
  // c7b
packet // c8a
  // c8b
P { // c10
u8
    // c11
K , // c13
u8 // c14a
  // c14b
L // c15a
  // c15b
@lengthOf( // c16a
  // c16b
Body )
    // c18
, match // c20
K as // c22a
  // c22b
Body
    // c23
{ 1 :
    // c26
B // c27
, }
    // c29
,
    // c30
}
    // c31
")).
Eval vm_compute in ("<<<M110>>>" ++ check (runes_of_ascii "root // trailing space 
packet
leftPad { T
@lengthOf(A
) `" ++ [233]%N ++ runes_of_ascii "`,
    Header
    @lengthOf( As ) // " ++ [27880; 37322]%N ++ runes_of_ascii "
,
string	calculatedFrom `{ , }`
, @tag( 1) // trailing space 
u16  x_y_z ,
@tag( 4294967296
) x_y_z metadata// " ++ [128512]%N ++ runes_of_ascii " emoji
,asx { asx `it's`
    ,} , char[ 65535 ]
As@lengthOf(
    Logon ) `a\`
,@lengthOf(
Z9_
    ) string
BodyLength ,
}")).
Eval vm_compute in ("<<<M1665>>>" ++ check (runes_of_ascii "packet A {
    u8 a,
}

packet B {
    u16 b,
}

packet C {
    u32 c,
}

root packet M {
    u16 Kc,
    u16 Kb,
    u16 Ka,
    match Kc as X {
        9 : A,
        10 : B,
    },
    match Kb as Y {
        2 : C,
        1 : A,
    },
    match Ka as Z {
        1 : B,
    },
    A,
    B,
    C,
}")).
Eval vm_compute in ("<<<M1570>>>" ++ check (runes_of_ascii "packet float {
    @rightPad()
    // c5a
    // c5b
    rootA @lengthOf(trueish),
    // c10
    stringy @lengthOf(matchKey),// c15a
    // c15b
    char[4294967296] pack @lengthOf(uint8x),
}// c24

root packet trueish {
    // c28
    repeat uint64 u128 `line1
    line2`,
}")).
Eval vm_compute in ("<<<M1783>>>" ++ check (runes_of_ascii "root packet chars {
    string T `say ""hi""`,
    @tag(1)
    body {
        repeat o {
            f64 Packet @calculatedFrom(""a\\""),
        },
    },
}

packet pack {
    @tag(4294967296)
    repeat char[] Logon,
    repeat BodyLength len,
}")).
Eval vm_compute in ("<<<M350>>>" ++ check (runes_of_ascii "MetaData Pad
{ i64 Packet `{ , }`
    , // `tick` ""quote"" 'q'
repeatCount  trueish // packet A { u8 x, }
`say ""hi""`	, f32 pack`// not a comment` ,// `tick` ""quote"" 'q'
u32
calculatedFrom ,char //	t
zchar
,}
")).
Eval vm_compute in ("<<<M9>>>" ++ check (runes_of_ascii "
options {body = """ ++ [28040; 24687]%N ++ runes_of_ascii """ }	packet matchKey
{string_
// packet A { u8 x, }
// a // b
@lengthOf( f32a) ,	int32 int @lengthOf(u128 )	, tag x_y_z ,}packet BodyLength /// triple
{ }")).
Eval vm_compute in ("<<<M1580>>>" ++ check (runes_of_ascii "

  MetaData

    leftPad  {

chars 
MetaDataX ,	}
        // c
    packet

    repeatCount {
	char[
255]

uint8x
`" ++ [233]%N ++ runes_of_ascii "` ,} MetaData pack 
{ As

    Foo, }
")).
Eval vm_compute in ("<<<M438>>>" ++ check (runes_of_ascii "packet uint8x
{ match pack
    as msg_type	{
    0123456789 `it's`	float
}
,
} packet //	t
a1
    { } options {packetx
    = '\x00'	; u128= ""a	b""  ; }
")).
Eval vm_compute in ("<<<M436>>>" ++ check (runes_of_ascii "packet uint8x
{ match pack
    as msg_type	{
    0123456789 : :	float
}
,
} packet //	t
a1
    { } options {packetx
    = '\x00'	; u128= ""a	b""  ; }
")).
Eval vm_compute in ("<<<M549>>>" ++ check (runes_of_ascii "pa\cket uint8x
{ match pack
    as msg_type	{
    0123456789 :	float
}
,
} packet //	t
a1
    { } options {packetx
    = '\x00'	; u128= ""a	b""  ; }
")).
Eval vm_compute in ("<<<M512>>>" ++ check (runes_of_ascii "packet uint8x
{ match pack
    as msg_type	{
    0123456789 :	float
}
,
} packet //	t
a1
    { } options {packetx
    = '\x00'	; =u128 ""a	b""  ; }
")).
Eval vm_compute in ("<<<M503>>>" ++ check (runes_of_ascii "packet uint8x
{ match pack
    as msg_type	{
    0123456789 :	float
}
,
} packet //	t
a1
    { } options {packetx
    = char	; u128= ""a	b""  ; }
")).
Eval vm_compute in ("<<<M678>>>" ++ check (runes_of_ascii "// @lengthOf(
packet i8i8 { u128 o , }
options { MetaDataX = true;
    BodyLength =""packet"" x_y_z= 007
crc //x
= ""abc"" ;
    < msg_type =
i16 }")).
Eval vm_compute in ("<<<M679>>>" ++ check (runes_of_ascii "// @lengthOf(
packet { i8i8 u128 o , }
options { MetaDataX = true;
    BodyLength =""packet"" x_y_z= 007
crc //x
= ""abc"" ;
    msg_type =
i16 }")).
Eval vm_compute in ("<<<M1802>>>" ++ check (runes_of_ascii "
packet

stringy { 
}MetaData  u8x{

zchar[
65535
    // a // b
] 
Pad ,
stringy

string_`u8 x,`
,u8 lengthOf`
` 
,
char[ 255]  pack ,  }

")).
Eval vm_compute in ("<<<M649>>>" ++ check (runes_of_ascii "// @lengthOf(
packet i8i8 { u128 o , }
options {  = true;
    BodyLength =""packet"" x_y_z= 007
crc //x
= ""abc"" ;
    msg_type =
i16 }")).
Eval vm_compute in ("<<<M1690>>>" ++ check (runes_of_ascii "packet A {
    match k as n {
        [
            1, 22, 007, 4, 5,
            66, 7
        ] : B,
        2 : C,
    },
}")).
Eval vm_compute in ("<<<M970>>>" ++ check (runes_of_ascii "packet A {
    match k as n {
        ""x\
y"" : B,
        [""x\
y"", 1] : C,
        [1,2,3,4,5,""x\
y""] : D,
    },
}")).
Eval vm_compute in ("<<<M1173>>>" ++ check (runes_of_ascii "MetaData leftPad { chars MetaDataX , } packet repeatCount { char[ 255 ] uint8x `" ++ [233]%N ++ runes_of_ascii "` , // c
} MetaData pack { As Foo , }")).
Eval vm_compute in ("<<<M300>>>" ++ check (runes_of_ascii "packet
Logon  { repeat u {zchar { zchar[ 007
] a1
`` ,  x_y_z@calculatedFrom(
//
// " ++ [128512]%N ++ runes_of_ascii " emoji
""{,}""
    ), }, } ,}
")).
Eval vm_compute in ("<<<M949>>>" ++ check (runes_of_ascii "packet A {
    u16 len @lengthOf(body) `x
`,
    u32 crc @calculatedFrom(""CRC32"") `x
`,
    string body,
}")).
Eval vm_compute in ("<<<M913>>>" ++ check (runes_of_ascii "packet A {
  match k as n {
    [1, 22, ""c c"", 4, 5, ""f"", 7, 8, ""i"", 10, 11, ""l""] : B
    2 : C
  },
}")).
Eval vm_compute in ("<<<M932>>>" ++ check (runes_of_ascii "packet A {
    Inner {
        u8 x `
`,
        Deep {
            u8 y `
`,
        },
    },
}")).
Eval vm_compute in ("<<<M615>>>" ++ check (runes_of_ascii "
packet
    asx {match u128 as lengthOf
{
//	t
// `tick` ""quote"" 'q'
255 : x ,
    match ,	}")).
Eval vm_compute in ("<<<M870>>>" ++ check (runes_of_ascii "packet A {
  match k as n {
    [1, ""bb"", 007, ""d"", 5, ""f"", 7, ""h"", 9] : B
    2 : C
  },
}")).
Eval vm_compute in ("<<<M619>>>" ++ check (runes_of_ascii "
packet
    asx {match u128 as lengthOf
{
//	t
// `tick` ""quote"" 'q'
255 : x ,
    } }	,")).
Eval vm_compute in ("<<<M557>>>" ++ check (runes_of_ascii "
packet
     {match u128 as lengthOf
{
//	t
// `tick` ""quote"" 'q'
255 : x ,
    } ,	}")).
Eval vm_compute in ("<<<M553>>>" ++ check (runes_of_ascii "

    asx {match u128 as lengthOf
{
//	t
// `tick` ""quote"" 'q'
255 : x ,
    } ,	}")).
Eval vm_compute in ("<<<M839>>>" ++ check (runes_of_ascii "packet A {
  match k as n {
    [1, 22, 007, 4, 5, 66, 7] : B,
    2 : C
  },
}")).
Eval vm_compute in ("<<<M1774>>>" ++ check (runes_of_ascii "packet A {
    match k as n {
        [1, ""bb""] : B,
        2 : C,
    },
}")).
Eval vm_compute in ("<<<M1831>>>" ++ check (runes_of_ascii "MetaData x_y_z {
    i8i8 u8x,
    string uint8x `crlf
        line`,
}")).
Eval vm_compute in ("<<<M768>>>" ++ check (runes_of_ascii "char = char[] options char[] ] uint64 metadata match 1 zchar[ int16")).
Eval vm_compute in ("<<<M1452>>>" ++ check (runes_of_ascii "

  // top
packet  // c0

x 	 // c1
    { 	 // c2
  } 	 // c3
")).
Eval vm_compute in ("<<<M751>>>" ++ check (runes_of_ascii "options @calculatedFrom( repeat } [ @tag( uint32 char[] ] :")).
Eval vm_compute in ("<<<M627>>>" ++ check (runes_of_ascii "
packet
    asx {match u128 as lengthOf
{
//	t
// `t")).
Eval vm_compute in ("<<<M1215>>>" ++ check (runes_of_ascii "packet body { i32 f32a `{ , }` , } options // c
{ }")).
Eval vm_compute in ("<<<M756>>>" ++ check (runes_of_ascii "zchar ( : f64 ) , repeat f32 u16 float64 , ; :")).
Eval vm_compute in ("<<<M933>>>" ++ check (runes_of_ascii "MetaData M {
    u8 x `
`,
    T t `
`,
}")).
Eval vm_compute in ("<<<M50>>>" ++ check (runes_of_ascii "options {
    Packet =  char[]  }
")).
Eval vm_compute in ("<<<M766>>>" ++ check (runes_of_ascii "Dr1UAAa-*U|u3S?xE-Vr&9^'H>gI<.E")).
Eval vm_compute in ("<<<M175>>>" ++ check (runes_of_ascii "
packet calculatedFrom { } 	 ")).
Eval vm_compute in ("<<<M1475>>>" ++ check (runes_of_ascii "// c" ++ [8202]%N ++ runes_of_ascii "
packet A
	{
    }
")).
Eval vm_compute in ("<<<M238>>>" ++ check (runes_of_ascii "root packet chars
{}
")).
Eval vm_compute in ("<<<M1062>>>" ++ check (runes_of_ascii "// c x
packet A {
}")).
Eval vm_compute in ("<<<M1022>>>" ++ check (runes_of_ascii "// c" ++ [8239]%N ++ runes_of_ascii "
packet A {
}")).
Eval vm_compute in ("<<<M999>>>" ++ check (runes_of_ascii "packet A {
}// c" ++ [8192]%N)).
Eval vm_compute in ("<<<M1071>>>" ++ check (runes_of_ascii "packet A {
}


")).
Eval vm_compute in ("<<<M975>>>" ++ check (runes_of_ascii "// c ")).
Eval vm_compute in ("<<<M19>>>" ++ check (runes_of_ascii "
")).
