From FP Require Import Lexer Parser ShowPT Digest Formatter.
From Coq Require Import String List NArith.
Import ListNotations.
Open Scope string_scope.
Set Printing Width 100000000.
Set Printing Depth 100000000.
Definition show_fres (r : fres) : string :=
  match r with
  | FOk s => "OK:" ++ sh_escaped s ""
  | FErr s => "ERR:" ++ sh_escaped s ""
  | FPanic p => "PANIC:" ++ p
  end.
Definition check (rs : list rune) : string := digest (show_fres (format_res rs)).
Definition full (rs : list rune) : string := show_fres (format_res rs).
Eval vm_compute in ("<<<M266>>>" ++ check (runes_of_ascii "packet metadata { repeat f64 // " ++ [128512]%N ++ runes_of_ascii " emoji
Foo , repeat
Logon
    f32a`
` , @calculatedFrom( ""1"" ) repeat
    uint8 // trailing space 
calculatedFrom `u8 x,`
, char[]
    packetx , // packet A { u8 x, }
@calculatedFrom(
""abc"" ) Pad
@lengthOf(msg_type  )`line1
line2` ,
@rightPad
(
' ' )
tag`" ++ [233]%N ++ runes_of_ascii "` ,@tag( 10
    /// triple
    )u8x
@calculatedFrom( ""CRC32"" ),match
// trailing space 
// trailing space 
metadata
as msg_type
//
// " ++ [27880; 37322]%N ++ runes_of_ascii "
{[
""\n"" //x
, 0123456789// c
] : options1
,
    ""\n""
    :
    float ,},} packet
// " ++ [128512]%N ++ runes_of_ascii " emoji
// " ++ [128512]%N ++ runes_of_ascii " emoji
MetaDataX {string string_ `doc`
,
@rightPad
    (
    '0' ) zchar[
// " ++ [128512]%N ++ runes_of_ascii " emoji
// `tick` ""quote"" 'q'
00 ]
zchar `a\`
,} options {leftPad = 0 float = 4294967296 ;
}// `tick` ""quote"" 'q'
root packet body{ @calculatedFrom( ""1"" ) @lengthOf( int ) match float as Z9_  {
// packet A { u8 x, }
// trailing space 
42
: x
""packet"" :// `tick` ""quote"" 'q'
matchKey	, """ ++ [28040; 24687]%N ++ runes_of_ascii """
/// triple
// packet A { u8 x, }
: o ,	255 :	float }
, @tag( 0123456789 ) match	calculatedFrom as // @lengthOf(
trueish { [ ""packet"" , ""`tick`"" //x
,	""" ++ [233]%N ++ runes_of_ascii "t" ++ [233]%N ++ runes_of_ascii """ ] : MetaDataX 4294967296 :trueish
, 3 :
// trailing space 
// packet A { u8 x, }
i64_ , 0123456789 :
f32a , [ 7, //	t
10	,	""CRC32"" ,	""x y"" , ""\n""
    // `tick` ""quote"" 'q'
    , ""CRC32""
    , ""`tick`""
    ]// `tick` ""quote"" 'q'
: body , }, char[ 1//
]Foo // " ++ [128512]%N ++ runes_of_ascii " emoji
, @rightPad( ' ' ) @calculatedFrom( // " ++ [27880; 37322]%N ++ runes_of_ascii "
""a	b""
) repeat string_ { repeat Logon // @lengthOf(
,	Z9_	i8i8 ,match Z9_ as
    A {[ 42
    ] :Logon , [ ""CRC32"" , 1 , ""a\""b"" , 4294967296 , 0, ""\" ++ [233]%N ++ runes_of_ascii """ ] : roots ""a\""b"" : MetaDataX , 255
: _x
,
    65535
    :
    rootA , }	,match _x as Foo {[ 255
    , """ ++ [28040; 24687]%N ++ runes_of_ascii """ ,// packet A { u8 x, }
""CRC32"" ,
    // c
    """ ++ [233]%N ++ runes_of_ascii "t" ++ [233]%N ++ runes_of_ascii """ ,
    ""abc"" ] : len""a\\""
: Pad  0
: falsey,3 :	u128
    ,
} ,// a // b
} , repeat // packet A { u8 x, }
options1 int `{ , }`
// packet A { u8 x, }
//
,
}")).
Eval vm_compute in ("<<<M1710>>>" ++ check (runes_of_ascii "// top
options {
    // c1
    StringPrefixLenType = u16;// c5
    ArrayPrefixLenType = u32;
    // c9
    FixedStringPadFromLeft = true;
    FixedStringPadChar = '0';
    // c17
}

packet Cancel {
    // c21a
    // c21b
}// c22a

// c22b
packet Party {
}

// c26
packet Logon {
}

packet Ack {
    // c33a
    // c33b
}// c34

packet Logout {
    // c37a
    // c37b
    repeat InSym87 {
        // c40a
        // c40b
        InClordid94 {
            // c42
            string clOrdID,
            // c45
        },
        // c47
        string Px,
        i16 Qty,// c53
        repeat InCount71 {
            repeat Cancel,
            // c59
            uint16 Tail,
            // c62
            char[2] x,// c67a
            // c67b
            repeat string Ref,// c71
        },
        Cancel,// c75a
        // c75b
    },
}

// c78
root packet Order {
    // c82
    repeat string tag7,
    @leftPad(' ')
    // c90
    char[3] Px,// c95a
    // c95b
    u8 Qty,
    // c98
    match Qty as Body {
        [
            28,
            62
        ] : Logon,
        // c111a
        // c111b
        148 : Ack,
        // c115a
        // c115b
        88 : Party,
        // c119
        184 : Cancel,
        // c123
    },// c125a
    // c125b
    u16 Note @calculatedFrom(""CRC32""),// c131
}")).
Eval vm_compute in ("<<<M1770>>>" ++ check (runes_of_ascii "
packet
MetaDataX{
    metadata
trueish`" ++ [233]%N ++ runes_of_ascii "` 
    //x
      //x
,	// trailing space 
  @calculatedFrom( ""`tick`"")
	uint8x
// c
	@calculatedFrom(
    """ ++ [128512]%N ++ runes_of_ascii """
    )`{ , }` , 
@calculatedFrom(
    ""a\""b""
)	// packet A { u8 x, }

match
	Packet  as
	body {  3
:
    repeatCount , ""x y"" 
    /// triple
  :lengthOf // `tick` ""quote"" 'q'
	  4294967296 : 
packetx	, [  ""abc""
    ,  ""// no comment""
    ,
    ""abc""
	, 
""\n"" 	 //	t
    ,
    ""1"" 
]
    :
    u128 [

00 
,
65535 
,	""x y""
    ,
	""{,}""
	]: calculatedFrom  ,	7
	:i8i8
	}
    , u8x
, match

    int 
as
matchKey {[
1	,
""CRC32""
    ]
// trailing space 
  : 	 // @lengthOf(

  asx
,	} ,
	@lengthOf(  // " ++ [128512]%N ++ runes_of_ascii " emoji
    	a1  )
    string
x`it's`,repeat  // @lengthOf(
    char matchKey 
, 
	// a // b
      @leftPad // trailing space 
()
    @rightPad
( )
	match	metadata
    as Packet  {
    [
65535  ]
	:

Header  ,
}

,@tag(

255 
) 
zchar[3]
crc 
`u8 x,` , 
}

MetaData
rootA // trailing space 
{ i8i8
Pad,
    int8  packetx  `{ , }`,
	int8	stringy ,
    // `tick` ""quote"" 'q'
    	body _x , body

o
    , 
}
")).
Eval vm_compute in ("<<<M289>>>" ++ check (runes_of_ascii "options  {
// " ++ [27880; 37322]%N ++ runes_of_ascii "
//x
float // packet A { u8 x, }
=char[]
    // @lengthOf(
    ; Header = false
//
/// triple
}
    // `tick` ""quote"" 'q'
    options {	x =char[] ; }	MetaData i64_{f64 As
    /// triple
    `
` , repeatCount MetaDataX
// `tick` ""quote"" 'q'
// `tick` ""quote"" 'q'
,
repeatCount u128 //x
,	metadata msg_type `tab	here`
    ,
    }
packet  options1
    {
    repeat char[0123456789] T  , @tag(  65535
)
    //x
    @calculatedFrom( ""CRC32""
) @calculatedFrom( """ ++ [28040; 24687]%N ++ runes_of_ascii """ ) repeat string
Logon
    ,	@lengthOf( u128 )
stringy  {string_ x ,
} , @tag( // " ++ [27880; 37322]%N ++ runes_of_ascii "
10) u64 tag @lengthOf(roots), Foo	@lengthOf(
Foo
)`// not a comment` ,
string pack `a\` , match A
    as charz {
[ 3 ] : x ,} ,@tag(42 ) f64 msg_type @lengthOf(
trueish )
,match	pack /// triple
as
options1 { """ ++ [28040; 24687]%N ++ runes_of_ascii """ : // packet A { u8 x, }
string_ ,	[ 65535, 7 ,
""a\""b""
    , 7]//	t
: f32a 4294967296: o ,  }	,
    char[] falsey ,
} // " ++ [128512]%N ++ runes_of_ascii " emoji")).
Eval vm_compute in ("<<<M168>>>" ++ check (runes_of_ascii "options
//x
// @lengthOf(
{
    Foo =""// no comment""
/// triple
//	t
; }
packet float {
} packet
    len { @lengthOf(
    _x ) stringy{
    metadata	@calculatedFrom( ""a\\"" )
, } ,
//x
//
}	packet asx {
@tag( 0 ) repeat float64
A`say ""hi""` ,
//
// trailing space 
i16 int
    `say ""hi""` , @calculatedFrom( """ ++ [128512]%N ++ runes_of_ascii """) lengthOf Header `two words` ,
f32a
    zchar , @rightPad
    ( '0'
)repeat string_
    // packet A { u8 x, }
    chars ``  , @tag( 4294967296)
    @calculatedFrom( ""a	b"" )repeat
    msg_type,  @leftPad( ) repeat f64 _x ,	repeat As { Logon @lengthOf(
calculatedFrom) `two words` ,
    repeat u64 o `u8 x,`	, } , @calculatedFrom(
""packet"" ) repeat // @lengthOf(
uint8 u ,} packet
uint8x{@leftPad ( '0'
    )
//	t
//x
zchar[
// packet A { u8 x, }
// " ++ [27880; 37322]%N ++ runes_of_ascii "
255
    ]	metadata `a\`
    ,//
} // `tick` ""quote"" 'q'")).
Eval vm_compute in ("<<<M1946>>>" ++ check (runes_of_ascii "packet float {
    char[] u8x @lengthOf(roots),
}

MetaData leftPad {
    string a1,
}

root packet pack {
    falsey,
    /// triple
    match Logon as trueish {
        ""packet"" : Foo,
        """" : len,
        0123456789 : i64_,
        ""it's"" : packetx,
        255 : len,
    },
    repeat As As `" ++ [233]%N ++ runes_of_ascii "`,
    @tag(3)
    uint32 a1,
    repeat zchar[4294967296] pack,
    @leftPad(' ')
    zchar @lengthOf(string_) `// not a comment`,
    repeat int,
    repeat i8i8 {
        u64 tag `say ""hi""`,
        u8x,
        char trueish,
        repeat float32 stringy `line1
                line2`,
    },
    match o as o {
        007 : float,
    },
    // packet A { u8 x, }
    // c
    repeat Pad,
    // " ++ [27880; 37322]%N ++ runes_of_ascii "
    // trailing space 
}")).
Eval vm_compute in ("<<<M1424>>>" ++ check (runes_of_ascii "  // top
    	options// c0
      { // c1a
  // c1b
    zchar// c2
	=	// c3a
    // c3b
	true	// c4
		; Pad  // c6a
  	// c6b

= 
  // c7

  char[00// c9a
// c9b
	]
        // c10
	a1	=	// c12a
  // c12b
	  uint32// c13a
		// c13b
    	BodyLength
	=
true 	 // c16a

	// c16b
; 
// c17

}root	// c19
    packet 	 // c20
	T	// c21a
    	// c21b
	{ 
    // c22
@lengthOf(  // c23a
    // c23b
	  repeatCount
    ) @tag(// c26a

// c26b

	1 
  // c27

  ) 	 // c28a
  // c28b
@calculatedFrom(	// c29
  ""a	b""	// c30a
  // c30b
)	// c31a
	// c31b
	string// c32
  	stringy @calculatedFrom( ""\n""  )  // c36

`u8 x,`  // c37a
    // c37b
    	,// c38

	}// c39")).
Eval vm_compute in ("<<<M1470>>>" ++ check (runes_of_ascii "  packet float  
      // c1

	{	// c2
@rightPad 	 // c3a
	// c3b
      ( 	 // c4a
// c4b
    )// c5a
  	// c5b
rootA  // c6

@lengthOf(  // c7a
// c7b
	trueish  // c8
) 
  // c9
  , 
        // c10
stringy  // c11a
    // c11b
  @lengthOf( 	 // c12a

  // c12b
      matchKey ) 
	    // c14
    	,// c15a
  // c15b
	char[ 4294967296 ] 
	    // c18
pack@lengthOf(
        // c20
    uint8x
	// c21

  ) 	 // c22a
  // c22b
  ,
// c23
    } // c24
  root// c25
  	packet
	trueish
{ 
	    // c28
    	repeat
    uint64

// c30
	u128 
// c31
`line1
line2`// c32

, 

// c33
  } 

// c34
")).
Eval vm_compute in ("<<<M64>>>" ++ check (runes_of_ascii "
MetaData //	t
body { T
    calculatedFrom, string f32a `line1
line2`, leftPad BodyLength
`tab	here` ,
}options {
}
MetaData
    options1	{
char[ 3 ] MetaDataX
// " ++ [128512]%N ++ runes_of_ascii " emoji
/// triple
`" ++ [28040; 24687; 31867; 22411]%N ++ runes_of_ascii "` ,  BodyLength x	`
`,u16 tag	`say ""hi""`, u8
float ,float32 As `
`
    ,
    i8i8 Z9_ `
`, } packet u { @tag( 42
) options1 // c
o `crlf
line` ,@calculatedFrom( ""`tick`""
// packet A { u8 x, }
// a // b
) repeat
    char[]	a1
    //x
    ,	} options
    { uint8x=
true
    A
= // `tick` ""quote"" 'q'
7 ; // packet A { u8 x, }
len=	""" ++ [128512]%N ++ runes_of_ascii """
    }")).
Eval vm_compute in ("<<<M1871>>>" ++ check (runes_of_ascii "

  // top

  MetaData
	// c0

uint8x // c1
	  {char[] 

// c3

  f32a// c4a
	// c4b
  `// not a comment`  
      // c5
,// c6a
  // c6b
  float32 // c7

  roots 
	// c8
	, 	 // c9
  	char[ // c10a

// c10b
  	7// c11
  ]// c12

u8x  // c13
	, 	 // c14a
  // c14b
  zchar[
	    // c15
    10 
	// c16
  ]  // c17

f32a 	 // c18

	,	// c19a
		// c19b
      u64
	// c20
	pack 	 // c21a
  // c21b
	,

u16  
  // c23

	pack  // c24a
	// c24b
  ,
    // c25

	}
    // c26")).
Eval vm_compute in ("<<<M1113>>>" ++ check (runes_of_ascii "// top
packet // c0
float // c1
{ // c2
@rightPad // c3
( // c4
) // c5
rootA // c6
@lengthOf( // c7
trueish // c8
) // c9
, // c10
stringy // c11
@lengthOf( // c12
matchKey // c13
) // c14
, // c15
char[ // c16
4294967296 // c17
] // c18
pack // c19
@lengthOf( // c20
uint8x // c21
) // c22
, // c23
} // c24
root // c25
packet // c26
trueish // c27
{ // c28
repeat // c29
uint64 // c30
u128 // c31
`line1
line2` // c32
, // c33
} // c34
")).
Eval vm_compute in ("<<<M1598>>>" ++ check (runes_of_ascii "options {
    LittleEndian = false;
    StringPrefixLenType = u8;
    ArrayPrefixLenType = u64;
    FixedStringPadFromLeft = false;
    FixedStringPadChar = ' ';
}

packet Reject {
    repeat char[4] seqNo,
    string Px,
}

root packet Trade {
    @rightPad('0')
    char[2] msgKind,
    repeat f64 price,
    InAcct79 {
        repeat Reject,
        zchar[7] OrderId,
    },
    Reject,
}")).
Eval vm_compute in ("<<<M299>>>" ++ check (runes_of_ascii "// packet A { u8 x, }
MetaData roots{ char[ 00]lengthOf
``  , As stringy, x	calculatedFrom ,} packet i8i8	{
crc `crlf
line` , @rightPad// a // b
( )zchar[ 42] falsey // trailing space 
,
    /// triple
    @tag( 42 ) u32	leftPad  , @tag( 42 ) a1@lengthOf( Z9_ ) , match leftPad as crc{ [""a\""b"" , 1
, 255
]:	trueish ,3
: float ,
0 :lengthOf
    ,
} ,}")).
Eval vm_compute in ("<<<M368>>>" ++ check (runes_of_ascii "MetaData T
    {
uint8
float ,
repeatCount x ,	char[ 10  ] asx /// triple
, char[ 00]
metadata
    `" ++ [233]%N ++ runes_of_ascii "` ,u8x asx//	t
, } MetaData
    trueish {	charz	string_ `crlf
line`,  zchar[ 42 ]	_x
//
// `tick` ""quote"" 'q'
, }packet o { char[]u8x
    @calculatedFrom(""abc""  ) , } options{ x
=
    255 ; u // " ++ [27880; 37322]%N ++ runes_of_ascii "
= '0'	}
")).
Eval vm_compute in ("<<<M130>>>" ++ check (runes_of_ascii "packet zchar { @lengthOf( a1
// " ++ [128512]%N ++ runes_of_ascii " emoji
//	t
) i64_ @lengthOf( Header )
`" ++ [28040; 24687; 31867; 22411]%N ++ runes_of_ascii "`, charz`" ++ [233]%N ++ runes_of_ascii "` , char[007] i64_ , tag  { u16  matchKey // " ++ [27880; 37322]%N ++ runes_of_ascii "
,match Pad as lengthOf { [""CRC32"" ,	""abc""
] : Packet
,	}
, }
    , } MetaData body {char[
    10 ]u128
    `doc`
    ,
/// triple
//x
} //x")).
Eval vm_compute in ("<<<M1624>>>" ++ check (runes_of_ascii "root packet i8i8 {
    @tag(4294967296)
    // packet A { u8 x, }
    Header calculatedFrom `
        `,
    @tag(4294967296)
    @rightPad(' ')
    @lengthOf(float)
    options1 zchar `" ++ [233]%N ++ runes_of_ascii "`,
}

root packet x {
    repeat zchar[10] x `u8 x,`,
}")).
Eval vm_compute in ("<<<M1318>>>" ++ check (runes_of_ascii "packet FooBar // c1
{ u8 a ,
    // c5
} // c6
packet foo_bar // c8a
  // c8b
{
    // c9
u16
    // c10
b , // c12a
  // c12b
} // c13
root // c14
packet R { // c17a
  // c17b
FooBar ,
    // c19
foo_bar // c20
, } ")).
Eval vm_compute in ("<<<M1890>>>" ++ check (runes_of_ascii "

  root

packet
Frame{	u8 K	, 
Logon
first ,	match
	K
as 
Body	{
1 :
Logon
    ,

    2
: 
Logout

    , }  ,

} packet 
Logon
{
	string
user,}packet Logout {u16 reason ,
    }

")).
Eval vm_compute in ("<<<M1776>>>" ++ check (runes_of_ascii "MetaData falsey  {
o
i8i8
,

char[]

    pack
    ,float32

    lengthOf

    ,	len //x
    	BodyLength

, 
BodyLength 
o

, stringy	u128`crlf
line`
	,}
")).
Eval vm_compute in ("<<<M1449>>>" ++ check (runes_of_ascii "packet A {
    match k as n {
        [
            1, 22, ""c c"", 4, 5,
            ""f"", 7, 8, ""i"", 10,
            11
        ] : B,
        2 : C,
    },
}")).
Eval vm_compute in ("<<<M552>>>" ++ check (runes_of_ascii "packet uint8x
{ match pack
    as msg_type	{
    0123456789 :	float
}
,
} packet //	t
na" ++ [239]%N ++ runes_of_ascii "ve
    { } options {packetx
    = '\x00'	; u128= ""a	b""  ; }
")).
Eval vm_compute in ("<<<M538>>>" ++ check (runes_of_ascii "packet uint8x
{ match pack
    as msg_type	{
    0123456789 :	float
}
,
} packet //	t
a1
    { } options {packetx
    = '\x00'	%; u128= ""a	b""  ; }
")).
Eval vm_compute in ("<<<M487>>>" ++ check (runes_of_ascii "packet uint8x
{ match pack
    as msg_type	{
    0123456789 :	float
}
,
} packet //	t
a1
    { } options packetx{
    = '\x00'	; u128= ""a	b""  ; }
")).
Eval vm_compute in ("<<<M676>>>" ++ check (runes_of_ascii "// @lengthOf(
packet i8i8 { u128 o , }
options { MetaDataX = true;
    BodyLength =""packet"" x_y_z x_y_z= 007
crc //x
= ""abc"" ;
    msg_type =
i16 }")).
Eval vm_compute in ("<<<M665>>>" ++ check (runes_of_ascii "// @lengthOf(
packet i8i8 { u128 o , }
options { MetaDataX = true;
    BodyLength =""packet"" x_y_z= 007
crc //x
= ""abc"" ; ;
    msg_type =
i16 }")).
Eval vm_compute in ("<<<M675>>>" ++ check (runes_of_ascii "// @lengthOf(
packet i8i8 { u128 o , }
options { MetaDataX true =;
    BodyLength =""packet"" x_y_z= 007
crc //x
= ""abc"" ;
    msg_type =
i16 }")).
Eval vm_compute in ("<<<M1757>>>" ++ check (runes_of_ascii "MetaData
	leftPad
    {chars MetaDataX 
,} packet
repeatCount {
	char[255] 
uint8x 	 // c
  `" ++ [233]%N ++ runes_of_ascii "`
    , }MetaData pack 
{

    As	Foo ,
}
")).
Eval vm_compute in ("<<<M719>>>" ++ check (runes_of_ascii "// @lengthOf(
packet i8i8 { u128 o , }
options { MetaDataX = true;
     =""packet"" x_y_z= 007
crc //x
= ""abc"" ;
    msg_type =
i16 }")).
Eval vm_compute in ("<<<M1464>>>" ++ check (runes_of_ascii "

  packet 
A

    { match	k 
as
    n {  [
""a""

    , 
22	,

""c c"" , 4 ,""e""
    ,
66
,
""g"" ,

8 
]
:	B
2

: 
C} , }

")).
Eval vm_compute in ("<<<M1190>>>" ++ check (runes_of_ascii "MetaData leftPad { chars MetaDataX , } packet repeatCount { char[ 255 ] uint8x `" ++ [233]%N ++ runes_of_ascii "` , } MetaData pack { As Foo , }
// c
")).
Eval vm_compute in ("<<<M1171>>>" ++ check (runes_of_ascii "MetaData leftPad { chars MetaDataX , } packet repeatCount { char[ 255 ] uint8x `" ++ [233]%N ++ runes_of_ascii "` // c
, } MetaData pack { As Foo , }")).
Eval vm_compute in ("<<<M1697>>>" ++ check (runes_of_ascii "// top
root packet P {
    // c3
    hdr {
        // c5
        u8 a,
        // c8
    },// c10
    u8 x,
}
// c14")).
Eval vm_compute in ("<<<M910>>>" ++ check (runes_of_ascii "packet A {
  match k as n {
    [""a"", 22, ""c c"", 4, ""e"", 66, ""g"", 8, ""i"", 10, ""k"", 12] : B,
    2 : C
  },
}")).
Eval vm_compute in ("<<<M898>>>" ++ check (runes_of_ascii "packet A {
  match k as n {
    [""a"", 22, ""c c"", 4, ""e"", 66, ""g"", 8, ""i"", 10, ""k""] : B
    2 : C
  },
}")).
Eval vm_compute in ("<<<M634>>>" ++ check (runes_of_ascii "
packet
    asx {matc@lengthOfh u128 as lengthOf
{
//	t
// `tick` ""quote"" 'q'
255 : x ,
    } ,	}")).
Eval vm_compute in ("<<<M600>>>" ++ check (runes_of_ascii "
packet
    asx {match u128 as lengthOf
{
//	t
// `tick` ""quote"" 'q'
255 packet x ,
    } ,	}")).
Eval vm_compute in ("<<<M588>>>" ++ check (runes_of_ascii "
packet
    asx {match u128 as lengthOf
{ {
//	t
// `tick` ""quote"" 'q'
255 : x ,
    } ,	}")).
Eval vm_compute in ("<<<M564>>>" ++ check (runes_of_ascii "
packet
    asx match{ u128 as lengthOf
{
//	t
// `tick` ""quote"" 'q'
255 : x ,
    } ,	}")).
Eval vm_compute in ("<<<M595>>>" ++ check (runes_of_ascii "
packet
    asx {match u128 as lengthOf
{
//	t
// `tick` ""quote"" 'q'
: : x ,
    } ,	}")).
Eval vm_compute in ("<<<M843>>>" ++ check (runes_of_ascii "packet A {
  match k as n {
    [1, ""bb"", 007, ""d"", 5, ""f"", 7] : B,
    2 : C
  },
}")).
Eval vm_compute in ("<<<M823>>>" ++ check (runes_of_ascii "packet A {
  match k as n {
    [""a"", ""bb"", 007, ""d"", ""e""] : B,
    2 : C
  },
}")).
Eval vm_compute in ("<<<M1282>>>" ++ check (runes_of_ascii "root 
packet

    P  { u16	a ,

u32

Sum	@calculatedFrom( ""CRC32""
	) ,

} ")).
Eval vm_compute in ("<<<M1099>>>" ++ check (runes_of_ascii "packet A {
    match k as n {
        1 : B // c
        , // d
    },
}")).
Eval vm_compute in ("<<<M768>>>" ++ check (runes_of_ascii "char = char[] options char[] ] uint64 metadata match 1 zchar[ int16")).
Eval vm_compute in ("<<<M365>>>" ++ check (runes_of_ascii "MetaData x_y_z { i8i8 u8x , string	uint8x
    `crlf
line` , }")).
Eval vm_compute in ("<<<M1627>>>" ++ check (runes_of_ascii "MetaData M {
    u8 x `tab
    	x`,
    T t `tab
    	x`,
}")).
Eval vm_compute in ("<<<M627>>>" ++ check (runes_of_ascii "
packet
    asx {match u128 as lengthOf
{
//	t
// `t")).
Eval vm_compute in ("<<<M1218>>>" ++ check (runes_of_ascii "packet body { i32 f32a `{ , }` , } options {
// c
}")).
Eval vm_compute in ("<<<M1125>>>" ++ check (runes_of_ascii "// top
MetaData // c0
u // c1
{ // c2
} // c3
")).
Eval vm_compute in ("<<<M31>>>" ++ check (runes_of_ascii "options {
x=
""{,}""
matchKey=  true	; }
")).
Eval vm_compute in ("<<<M1081>>>" ++ check (runes_of_ascii "options { a = 1; // a
 b = 2 // b
 }")).
Eval vm_compute in ("<<<M1487>>>" ++ check (runes_of_ascii "packet A {
    u8 x `d" ++ [5760]%N ++ runes_of_ascii "`,// c" ++ [5760]%N ++ runes_of_ascii "
}")).
Eval vm_compute in ("<<<M1023>>>" ++ check (runes_of_ascii "packet A {
 u8 x `d" ++ [8239]%N ++ runes_of_ascii "`, // c" ++ [8239]%N ++ runes_of_ascii "
}")).
Eval vm_compute in ("<<<M1785>>>" ++ check (runes_of_ascii "

  packet
A  {

}

// c" ++ [8232]%N ++ runes_of_ascii "
")).
Eval vm_compute in ("<<<M1560>>>" ++ check (runes_of_ascii "root packet Packet {
}")).
Eval vm_compute in ("<<<M1530>>>" ++ check (runes_of_ascii "  // only a comment
")).
Eval vm_compute in ("<<<M986>>>" ++ check (runes_of_ascii "packet A {
}
// c" ++ [160]%N)).
Eval vm_compute in ("<<<M1225>>>" ++ check (runes_of_ascii "
// c
packet x { }")).
Eval vm_compute in ("<<<M1435>>>" ++ check (runes_of_ascii "MetaData i64_ {
}")).
Eval vm_compute in ("<<<M241>>>" ++ check (runes_of_ascii "/// triple
")).
Eval vm_compute in ("<<<M1035>>>" ++ check (runes_of_ascii "// c" ++ [12]%N)).
