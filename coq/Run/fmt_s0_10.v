From FP Require Import Lexer Parser ShowPT Digest Formatter.
From Coq Require Import String List NArith.
Import ListNotations.
Open Scope string_scope.
Set Printing Width 100000000.
Set Printing Depth 100000000.
Definition show_fres (r : fres) : string :=
  match r with
  | FOk s => "OK:" ++ sh_escaped s ""
  | FErr s => "ERR:" ++ sh_escaped s ""
  | FPanic p => "PANIC:" ++ p
  end.
Definition check (rs : list rune) : string := digest (show_fres (format_res rs)).
Definition full (rs : list rune) : string := show_fres (format_res rs).
Eval vm_compute in ("<<<M1381>>>" ++ check (runes_of_ascii "// top
options // c0a
  // c0b
{ ArrayPrefixLenType
    // c2
=
    // c3
u32
    // c4
; // c5
FixedStringPadFromLeft // c6a
  // c6b
=
    // c7
false // c8a
  // c8b
; FixedStringPadChar = // c11
'0'
    // c12
; // c13a
  // c13b
}
    // c14
packet
    // c15
Trade {
    // c17
repeat // c18a
  // c18b
InVenue78 // c19a
  // c19b
{ u16 // c21
tag7 , // c23a
  // c23b
repeat
    // c24
InLastpx9 // c25a
  // c25b
{ // c26
u8
    // c27
pad0
    // c28
, // c29
} , // c31a
  // c31b
int64
    // c32
Tail , repeat // c35a
  // c35b
InQty37 { char[ 2 // c39a
  // c39b
]
    // c40
OrderId // c41
, zchar[
    // c43
6
    // c44
]
    // c45
lastPx // c46
, // c47
int64 // c48
Qty // c49a
  // c49b
, } , // c52a
  // c52b
uint8 // c53a
  // c53b
Side2 // c54a
  // c54b
, // c55a
  // c55b
} // c56a
  // c56b
,
    // c57
} // c58
packet // c59
Logon // c60
{
    // c61
repeat string // c63a
  // c63b
venue // c64a
  // c64b
, @rightPad
    // c66
( // c67a
  // c67b
'\x00'
    // c68
) // c69
char[ 3
    // c71
] sym
    // c73
, // c74a
  // c74b
zchar[ 9 // c76
]
    // c77
count // c78
, // c79
zchar[
    // c80
7
    // c81
]
    // c82
f1
    // c83
, Trade
    // c85
, } // c87a
  // c87b
packet
    // c88
Logout
    // c89
{ // c90a
  // c90b
}
    // c91
root // c92a
  // c92b
packet // c93a
  // c93b
Reject // c94
{
    // c95
int32
    // c96
sym // c97a
  // c97b
, // c98
u8 // c99
Px , u32 // c102
Tail // c103
@lengthOf(
    // c104
Body // c105
)
    // c106
, // c107a
  // c107b
match // c108
Px as Body { // c112a
  // c112b
184 // c113
: // c114
Trade ,
    // c116
173 : // c118
Logon ,
    // c120
12 : Logout , // c124a
  // c124b
} ,
    // c126
u32 // c127
tag7 @calculatedFrom( // c129
""CRC32""
    // c130
) // c131a
  // c131b
,
    // c132
} ")).
Eval vm_compute in ("<<<M125>>>" ++ check (runes_of_ascii "
packet
    o // @lengthOf(
{
    @leftPad(
    ) @tag( 00
)  int16 int
    @lengthOf(
Header )
`
`	,
@leftPad (
'\x00')
    char[00// c
]	body@lengthOf( // packet A { u8 x, }
a1 ) `" ++ [28040; 24687; 31867; 22411]%N ++ runes_of_ascii "` , } packet roots
{ Logon  `crlf
line` ,}packet // `tick` ""quote"" 'q'
_x
// `tick` ""quote"" 'q'
//
{ zchar[4294967296
] Header`
`	,chars @calculatedFrom( ""1"" ) // packet A { u8 x, }
, match As
// 50% %s
//
as
// @lengthOf(
//x
A {""`tick`""// " ++ [27880; 37322]%N ++ runes_of_ascii "
:u }
    , repeat string
    zchar ,
    repeat packetx { match
pack
    //x
    as
lengthOf
    { 3: calculatedFrom
    , 3
    // packet A { u8 x, }
    : metadata ,
    ""abc"" // " ++ [128512]%N ++ runes_of_ascii " emoji
:
    falsey,4294967296 :
len ,
}  , match Packet as repeatCount
{ [""a\\"", 1 , ""a\\"" ,0
, ""packet"" , ""a	b"" ] : f32a
    , 4294967296
    :
tag  1 :
packetx  , [ ""\n"", 42 ,
    4294967296
    ,
""a	b""
    , 10
,
255 ,	007 ]
:
chars
,  [ ""1"" ,""// no comment""
,0 , // 50% %s
1 ,""`tick`"" , 3 , 42 , ""\" ++ [233]%N ++ runes_of_ascii """ ]
: BodyLength
    }, // trailing space 
},string u8x `" ++ [28040; 24687; 31867; 22411]%N ++ runes_of_ascii "`  ,
    repeat
    f32a{
char[7 ] // " ++ [128512]%N ++ runes_of_ascii " emoji
x_y_z `
` // trailing space 
,
} , }
MetaData Packet { chars u , char[]u8x
,
// 50% %s
// trailing space 
x_y_z
    /// triple
    asx
    `" ++ [28040; 24687; 31867; 22411]%N ++ runes_of_ascii "`,
int8 Header `{ , }` , zchar[
4294967296 ]
    rootA `u8 x,`
/// triple
//
,
char[] calculatedFrom, }
")).
Eval vm_compute in ("<<<M1347>>>" ++ check (runes_of_ascii "// top
packet
    // c0
NewOrder {
    // c2
u32 // c3
qty ,
    // c5
} packet
    // c7
Cancel { u64 // c10a
  // c10b
id // c11
, // c12a
  // c12b
} packet // c14a
  // c14b
Business // c15
{ // c16
u8 Kind // c18
, match // c20
Kind // c21a
  // c21b
as Detail
    // c23
{ 1 // c25
: NewOrder
    // c27
, // c28a
  // c28b
2 :
    // c30
Cancel // c31a
  // c31b
, }
    // c33
, // c34
} packet // c36
TcpFrame // c37a
  // c37b
{ // c38
u8 // c39a
  // c39b
T // c40
, // c41
match // c42
T as
    // c44
Body
    // c45
{ 1 : // c48a
  // c48b
Business , } // c51a
  // c51b
, // c52a
  // c52b
} // c53
packet // c54
UdpFrame {
    // c56
u8 // c57
U
    // c58
, // c59
match // c60a
  // c60b
U as // c62
Body // c63a
  // c63b
{
    // c64
1 : // c66
Business , // c68a
  // c68b
} // c69
,
    // c70
Business
    // c71
extra
    // c72
, } root // c75a
  // c75b
packet // c76a
  // c76b
Wire
    // c77
{ // c78
TcpFrame
    // c79
, // c80a
  // c80b
UdpFrame // c81a
  // c81b
, // c82
} // c83
")).
Eval vm_compute in ("<<<M22>>>" ++ check (runes_of_ascii "root packet packetx
{	char[] leftPad
@lengthOf( chars )
, @lengthOf(
u
    )repeat uint8 float , A
,	zchar[ 4294967296 ]string_ @lengthOf( float ), match
rootA
as As {// " ++ [128512]%N ++ runes_of_ascii " emoji
[
    ""it's"", 255
    ,// 50% %s
0123456789
,""" ++ [233]%N ++ runes_of_ascii "t" ++ [233]%N ++ runes_of_ascii """, ""{,}"" , ""abc"" ,
""" ++ [233]%N ++ runes_of_ascii "t" ++ [233]%N ++ runes_of_ascii """
]
    :int , 4294967296
:
    tag// trailing space 
, }, @calculatedFrom(
    ""\" ++ [233]%N ++ runes_of_ascii """
    // packet A { u8 x, }
    ) @lengthOf( tag ) match leftPad as u {[ ""it's""
    ] : string_,
} , @calculatedFrom( ""\n""
// 50% %s
// packet A { u8 x, }
) @lengthOf(calculatedFrom)
    // 50% %s
    @lengthOf(
// trailing space 
// trailing space 
MetaDataX)charz, @tag( 65535 ) match f32a as rootA
    { [
    """ ++ [128512]%N ++ runes_of_ascii """ ] :
falsey 0 :// packet A { u8 x, }
MetaDataX, // @lengthOf(
}
    ,
char[
    007 ] i8i8 @calculatedFrom( // c
""" ++ [233]%N ++ runes_of_ascii "t" ++ [233]%N ++ runes_of_ascii """
// trailing space 
// " ++ [128512]%N ++ runes_of_ascii " emoji
) `
` ,
} options{trueish
    /// triple
    = // c
true ; rootA	= ""\" ++ [233]%N ++ runes_of_ascii """; trueish
= false ; } // a // b")).
Eval vm_compute in ("<<<M1937>>>" ++ check (runes_of_ascii "options {
    ArrayPrefixLenType = u32;
    FixedStringPadFromLeft = false;
    FixedStringPadChar = '0';
}

packet Trade {
    repeat InVenue78 {
        u16 tag7,
        repeat InLastpx9 {
            u8 pad0,
        },
        int64 Tail,
        repeat InQty37 {
            char[2] OrderId,
            zchar[6] lastPx,
            int64 Qty,
        },
        uint8 Side2,
    },
}

packet Logon {
    repeat string venue,
    @rightPad('\x00')
    char[3] sym,
    zchar[9] count,
    zchar[7] f1,
    Trade,
}

packet Logout {
}

root packet Reject {
    int32 sym,
    u8 Px,
    u32 Tail @lengthOf(Body),
    match Px as Body {
        184 : Trade,
        173 : Logon,
        12 : Logout,
    },
    u32 tag7 @calculatedFrom(""CR\
    C32""),
}")).
Eval vm_compute in ("<<<M1390>>>" ++ check (runes_of_ascii "
options{LittleEndian =true	;
StringPrefixLenType =

    u32
	;

    ArrayPrefixLenType= u8;}
	packet
    Heartbeat	{ 
string

    msgKind,
}
    packet

Logon 
{
repeat  Heartbeat 
,  repeat

    string  Px ,

uint8

Tail 
,	char[]

    f1
, }packet
	Cancel
	{
	zchar[ 4  ]
OrderId

,
    Logon  ,
repeat

    InMsgkind98{  repeat
    u8

tag7,
	repeat
	InFlags69
{
	char[]

Note	,char[]
lastPx

    ,	char[ 11
]
	Ref ,
Logon,}
    ,repeat  Heartbeat , } , 
zchar[

    7	]

Px 
,
	u32
seqNo 
,	}

root

    packet Reject {
	i16
tag7
    ,
	char[3

] Qty

    ,
	InRef42 {  u8
pad0

,
},
uint32 f1 ,zchar[

7]
OrderId  ,zchar[ 
8
]x	,} ")).
Eval vm_compute in ("<<<M1133>>>" ++ check (runes_of_ascii "// top
packet
    // c0
float
    // c1
{
    // c2
@rightPad
    // c3
(
    // c4
)
    // c5
rootA
    // c6
@lengthOf(
    // c7
trueish
    // c8
)
    // c9
,
    // c10
stringy
    // c11
@lengthOf(
    // c12
matchKey
    // c13
)
    // c14
,
    // c15
char[
    // c16
4294967296
    // c17
]
    // c18
pack
    // c19
@lengthOf(
    // c20
uint8x
    // c21
)
    // c22
,
    // c23
}
    // c24
root
    // c25
packet
    // c26
trueish
    // c27
{
    // c28
repeat
    // c29
uint64
    // c30
u128
    // c31
`say ""hi""`
    // c32
,
    // c33
}
    // c34
")).
Eval vm_compute in ("<<<M1757>>>" ++ check (runes_of_ascii "MetaData i8i8 {
    char[00] msg_type `say ""hi""`,
}// " ++ [128512]%N ++ runes_of_ascii " emoji

MetaData charz {
    zchar[0] options1,
}

packet MetaDataX {
    // packet A { u8 x, }
    Header u8x `// not a comment`,
    x rootA,
    @lengthOf(falsey)
    @lengthOf(i8i8)
    match MetaDataX as stringy {
        [""" ++ [128512]%N ++ runes_of_ascii """, ""a\""b""] : i64_,
    },
}

MetaData msg_type {
    string zchar `doc`,
    //
}

MetaData leftPad {
    uint8 x `crlf
        line`,
    i32 msg_type `// not a comment`,
    char[255] leftPad,// a // b
    char[] u,//	t
}")).
Eval vm_compute in ("<<<M1161>>>" ++ check (runes_of_ascii "// top
MetaData
    // c0
x
    // c1
{ // c2
f32a // c3a
  // c3b
Pad
    // c4
`` // c5a
  // c5b
, // c6a
  // c6b
}
    // c7
packet leftPad { // c10a
  // c10b
repeat // c11
int64 // c12
crc // c13a
  // c13b
, // c14a
  // c14b
BodyLength
    // c15
{
    // c16
uint8 pack // c18
`say ""hi""` // c19a
  // c19b
,
    // c20
lengthOf @lengthOf( // c22
asx
    // c23
) // c24a
  // c24b
`" ++ [28040; 24687; 31867; 22411]%N ++ runes_of_ascii "` ,
    // c26
} // c27a
  // c27b
, // c28
} // c29a
  // c29b
")).
Eval vm_compute in ("<<<M133>>>" ++ check (runes_of_ascii "MetaData x_y_z {zchar[ 00 ] MetaDataX// a // b
, }
root
packet u { @lengthOf(
// @lengthOf(
// a // b
calculatedFrom
    )	repeat Header{
charz  @lengthOf( matchKey)
    ,	repeat u8// trailing space 
charz , char[]
float
    @calculatedFrom( ""CRC32"" )
`{ , }`
, }	,	}
root packet lengthOf {
@tag(7 ) @lengthOf( o )
@tag(
0 ) BodyLength  @calculatedFrom(
// " ++ [128512]%N ++ runes_of_ascii " emoji
//
""a\\"" )	, } options {
    f32a=
    ""// no comment"" ; }")).
Eval vm_compute in ("<<<M1177>>>" ++ check (runes_of_ascii "// top
options // c0a
  // c0b
{ f32a
    // c2
= // c3
0 } // c5
packet trueish // c7a
  // c7b
{ // c8
}
    // c9
MetaData _x // c11
{ char[ // c13a
  // c13b
0123456789 // c14
] // c15a
  // c15b
zchar
    // c16
, // c17a
  // c17b
string // c18
crc ,
    // c20
char[
    // c21
1 ] // c23a
  // c23b
options1
    // c24
, uint8 // c26a
  // c26b
repeatCount
    // c27
, // c28
} // c29
")).
Eval vm_compute in ("<<<M1782>>>" ++ check (runes_of_ascii "options {
    LittleEndian = true;
    StringPrefixLenType = u16;
    ArrayPrefixLenType = u16;
    FixedStringPadFromLeft = true;
    FixedStringPadChar = '0';
}

packet Leg {
    u16 Flags,
    u8 price,
}

packet Quote {
    uint16 count,
    InNote89 {
        repeat Leg,
    },
}

root packet Ack {
    char[3] price,
    u64 sym,
    zchar[1] Tail,
}")).
Eval vm_compute in ("<<<M1468>>>" ++ check (runes_of_ascii "options {
    stringy = true;
    x_y_z = false
    x = '\x00';
    matchKey = i64;// c
}

root packet o {
    @lengthOf(float)
    int32 As,
}

root packet x {
    // a // b
    @rightPad( )
    i8i8 @calculatedFrom(""x y""),
}

MetaData u {
    A u8x,
}

options {
    u8x = i64
    _x = ""CRC32"";
    MetaDataX = u8
}")).
Eval vm_compute in ("<<<M1327>>>" ++ check (runes_of_ascii "
packet

MDSnapshotZZ {

u8  a	,

}packet	OrderACK

{

    u16
    b , }	packet
    HTTPServerInfo {  string s, }

    root  packet
FIXMsg
    { 
u8 KType  ,  MDSnapshotZZ
	, repeat OrderACK
    ,  match

    KType  as 
Body

    { 1 :HTTPServerInfo ,2: OrderACK ,
}	,
	}")).
Eval vm_compute in ("<<<M1768>>>" ++ check (runes_of_ascii "packet rootA {
    match BodyLength as A {
        42 : leftPad,
        1 : u8x,
        [10, """ ++ [128512]%N ++ runes_of_ascii """] : i8i8,
        7 : u8x,
        007 : trueish,
        // c
    },
    o uint8x,
    repeat zchar[7] pack,
    string x_y_z @lengthOf(charz) `
        `,
}// c")).
Eval vm_compute in ("<<<M467>>>" ++ check (runes_of_ascii "packet
    asx { @calculatedFrom(
""""  ) @tag( 255 )repeat
// packet A { u8 x, }
// trailing space 
int16 u8x
,
@tag(
    //
    007 )
    @tag( @tag( 0
    /// triple
    ) @tag( 1) u
    @lengthOf( T ),
// `tick` ""quote"" 'q'
//x
} // " ++ [128512]%N ++ runes_of_ascii " emoji")).
Eval vm_compute in ("<<<M492>>>" ++ check (runes_of_ascii "packet
    asx { @calculatedFrom(
""""  ) @tag( 255 )repeat
// packet A { u8 x, }
// trailing space 
int16 u8x
,
@tag(
    //
    007 )
    @tag( 0
    /// triple
    ) @tag( 1) ) u
    @lengthOf( T ),
// `tick` ""quote"" 'q'
//x
} // " ++ [128512]%N ++ runes_of_ascii " emoji")).
Eval vm_compute in ("<<<M429>>>" ++ check (runes_of_ascii "packet
    asx { @calculatedFrom(
""""  ) @tag( 255 ;repeat
// packet A { u8 x, }
// trailing space 
int16 u8x
,
@tag(
    //
    007 )
    @tag( 0
    /// triple
    ) @tag( 1) u
    @lengthOf( T ),
// `tick` ""quote"" 'q'
//x
} // " ++ [128512]%N ++ runes_of_ascii " emoji")).
Eval vm_compute in ("<<<M426>>>" ++ check (runes_of_ascii "packet
    asx { @calculatedFrom(
""""  ) @tag( 255 repeat
// packet A { u8 x, }
// trailing space 
int16 u8x
,
@tag(
    //
    007 )
    @tag( 0
    /// triple
    ) @tag( 1) u
    @lengthOf( T ),
// `tick` ""quote"" 'q'
//x
} // " ++ [128512]%N ++ runes_of_ascii " emoji")).
Eval vm_compute in ("<<<M263>>>" ++ check (runes_of_ascii "MetaData i64_{int16 u128 ,}
    MetaData	packetx
{ char[]
T, uint16 a1 `a\`
, zchar[ 007 ] uint8x	, }
root
packet//	t
A {
@leftPad ( ' ' ) @tag( 255 // " ++ [27880; 37322]%N ++ runes_of_ascii "
) @leftPad ( '\x00' ) repeat leftPad i64_
    // `tick` ""quote"" 'q'
    ,}")).
Eval vm_compute in ("<<<M1673>>>" ++ check (runes_of_ascii "// top
  root	// c0a
  	// c0b
	packet	// c1a
  // c1b
P // c2a
// c2b
  	{ 

    // c3
	char 
    // c4
  c// c5
    , 
	// c6
      u8// c7a
    	// c7b
    x  
      // c8
	  , // c9a
  // c9b
  }
// c10
")).
Eval vm_compute in ("<<<M4>>>" ++ check (runes_of_ascii "MetaData
    // " ++ [128512]%N ++ runes_of_ascii " emoji
    u { float64 A , calculatedFrom zchar, char[1]
repeatCount, int32
x_y_z , u16 Packet`say ""hi""`
    // " ++ [128512]%N ++ runes_of_ascii " emoji
    ,
    // a // b
    }options
{ repeatCount = ' ' }
")).
Eval vm_compute in ("<<<M1267>>>" ++ check (runes_of_ascii "// top
root
    // c0
packet
    // c1
P // c2
{ // c3
hdr {
    // c5
u8 // c6
a // c7a
  // c7b
, } ,
    // c10
u8 // c11a
  // c11b
x // c12a
  // c12b
, // c13a
  // c13b
} ")).
Eval vm_compute in ("<<<M677>>>" ++ check (runes_of_ascii "MetaData u
    { } MetaData o
{ float uint8x
`100% of %d` ,repeatCount u8x, string_ leftPad
, i32
    Foo , int64 x `two words` , calculatedFrom
stringy `a\` `a\` ,
}
")).
Eval vm_compute in ("<<<M652>>>" ++ check (runes_of_ascii "MetaData u
    { } MetaData o
{ float uint8x
`100% of %d` ,repeatCount u8x, string_ leftPad
, i32
    Foo , int64 x x `two words` , calculatedFrom
stringy `a\` ,
}
")).
Eval vm_compute in ("<<<M578>>>" ++ check (runes_of_ascii "MetaData u
    { } MetaData o
float { uint8x
`100% of %d` ,repeatCount u8x, string_ leftPad
, i32
    Foo , int64 x `two words` , calculatedFrom
stringy `a\` ,
}
")).
Eval vm_compute in ("<<<M576>>>" ++ check (runes_of_ascii "MetaData u
    { } MetaData o
 float uint8x
`100% of %d` ,repeatCount u8x, string_ leftPad
, i32
    Foo , int64 x `two words` , calculatedFrom
stringy `a\` ,
}
")).
Eval vm_compute in ("<<<M589>>>" ++ check (runes_of_ascii "MetaData u
    { } MetaData o
{ float )
`100% of %d` ,repeatCount u8x, string_ leftPad
, i32
    Foo , int64 x `two words` , calculatedFrom
stringy `a\` ,
}
")).
Eval vm_compute in ("<<<M707>>>" ++ check (runes_of_ascii "MetaData u
    { } MetaData o
{ float uint8x
`100% of %d` ,repeatCount u8x, string_ leftPad
, i32
    Foo , int64 x `two words` , a" ++ [769]%N ++ runes_of_ascii "b
stringy `a\` ,
}
")).
Eval vm_compute in ("<<<M1876>>>" ++ check (runes_of_ascii "
// " ++ [128512]%N ++ runes_of_ascii " emoji
	packet lengthOf	{
    zchar[	1
]

u8x
`tab	here`
    ,

    }
    packet 
packetx
	{  @leftPad

    (
    )

f32a	`it's`,
	} ")).
Eval vm_compute in ("<<<M153>>>" ++ check (runes_of_ascii "MetaData packetx { As packetx // @lengthOf(
`it's` ,
f64
Foo ,u8x i64_ , u32
    x `doc` // " ++ [27880; 37322]%N ++ runes_of_ascii "
, int32 metadata , string _x
    ,	}
")).
Eval vm_compute in ("<<<M1596>>>" ++ check (runes_of_ascii "options {
}

options {
    MetaDataX = char;
}// c

MetaData Pad {
    i8 metadata,
    string stringy,
    int8 As `{ , }`,
}")).
Eval vm_compute in ("<<<M1678>>>" ++ check (runes_of_ascii "packet

MetaDataX //	t

{ 
chars
@lengthOf( lengthOf	)
    `" ++ [233]%N ++ runes_of_ascii "` ,
	repeat 
int64

o
	,
	} MetaData
matchKey
    {
    }")).
Eval vm_compute in ("<<<M1208>>>" ++ check (runes_of_ascii "options { }
// c
options { MetaDataX = char ; } MetaData Pad { i8 metadata , string stringy , int8 As `{ , }` , }")).
Eval vm_compute in ("<<<M1240>>>" ++ check (runes_of_ascii "options { } options { MetaDataX = char ; } MetaData Pad { i8 metadata , string stringy ,
// c
int8 As `{ , }` , }")).
Eval vm_compute in ("<<<M899>>>" ++ check (runes_of_ascii "packet A {
  match k as n {
    [""a"", ""bb"", 007, ""d"", ""e"", 66, ""g"", ""h"", 9, ""j"", ""k""] : B,
    2 : C
  },
}")).
Eval vm_compute in ("<<<M942>>>" ++ check (runes_of_ascii "packet A {
    Inner {
        u8 x `a

b`,
        Deep {
            u8 y `a

b`,
        },
    },
}")).
Eval vm_compute in ("<<<M127>>>" ++ check (runes_of_ascii "root packet MetaDataX{
} options  {	rootA = 7
    ; _x = ""it's"" ; matchKey = 3 }
packet rootA
{}
")).
Eval vm_compute in ("<<<M870>>>" ++ check (runes_of_ascii "packet A {
  match k as n {
    [""a"", 22, ""c c"", 4, ""e"", 66, ""g"", 8, ""i""] : B
    2 : C
  },
}")).
Eval vm_compute in ("<<<M1448>>>" ++ check (runes_of_ascii "packet A {
    Inner {
        match k as n {
            [1, 22] : B,
        },
    },
}")).
Eval vm_compute in ("<<<M1622>>>" ++ check (runes_of_ascii "packet A {
    match k as n {
        [""a"", 22, ""c c"", 4] : B,
        2 : C,
    },
}")).
Eval vm_compute in ("<<<M830>>>" ++ check (runes_of_ascii "packet A {
  match k as n {
    [""a"", 22, ""c c"", 4, ""e"", 66] : B,
    2 : C
  },
}")).
Eval vm_compute in ("<<<M833>>>" ++ check (runes_of_ascii "packet A {
  match k as n {
    [1, 22, ""c c"", 4, 5, ""f""] : B
    2 : C
  },
}")).
Eval vm_compute in ("<<<M1696>>>" ++ check (runes_of_ascii "packet  A {Inner

    { 
u8 
x `
x`
    ,
Deep 
{u8
	y`
x`
,} ,	}  ,} ")).
Eval vm_compute in ("<<<M79>>>" ++ check (runes_of_ascii "root  packet Packet {
match
    f32a	as Foo// " ++ [27880; 37322]%N ++ runes_of_ascii "
{
1 :
    tag ,	} ,
}")).
Eval vm_compute in ("<<<M922>>>" ++ check (runes_of_ascii "packet A {
    B b `a
b`,
    B `a
b`,
    repeat B bs `a
b`,
}")).
Eval vm_compute in ("<<<M937>>>" ++ check (runes_of_ascii "MetaData M {
    u8 x `a
    b
  c`,
    T t `a
    b
  c`,
}")).
Eval vm_compute in ("<<<M970>>>" ++ check (runes_of_ascii "packet A {
    B b `%`,
    B `%`,
    repeat B bs `%`,
}")).
Eval vm_compute in ("<<<M1552>>>" ++ check (runes_of_ascii "

  // c
	options

{
    A	=  ""// no comment""  }

")).
Eval vm_compute in ("<<<M41>>>" ++ check (runes_of_ascii "root
packet
msg_type
    // 50% %s
    {  }
")).
Eval vm_compute in ("<<<M1961>>>" ++ check (runes_of_ascii "  packet A	{	u8
    x
`d" ++ [65279]%N ++ runes_of_ascii "`, 	 // c" ++ [65279]%N ++ runes_of_ascii "
  }
")).
Eval vm_compute in ("<<<M357>>>" ++ check (runes_of_ascii "MetaData rootA
{ options1 a1
, }

")).
Eval vm_compute in ("<<<M713>>>" ++ check (runes_of_ascii "packet
crc
{repeat  Foo A  `u8 x,`")).
Eval vm_compute in ("<<<M1609>>>" ++ check (runes_of_ascii "options  {} // trailing space 
")).
Eval vm_compute in ("<<<M759>>>" ++ check ([15]%N ++ runes_of_ascii "2	k" ++ [65533]%N ++ runes_of_ascii "p" ++ [65533; 65533]%N ++ runes_of_ascii "6" ++ [65533]%N ++ runes_of_ascii "f" ++ [65533]%N ++ runes_of_ascii "@""y" ++ [65533; 25; 65533; 65533]%N ++ runes_of_ascii "?" ++ [65533; 65533; 65533]%N ++ runes_of_ascii "Y" ++ [65533; 65533]%N ++ runes_of_ascii "#" ++ [65533]%N)).
Eval vm_compute in ("<<<M331>>>" ++ check (runes_of_ascii "
 // `tick` ""quote"" 'q'")).
Eval vm_compute in ("<<<M1964>>>" ++ check (runes_of_ascii "// c" ++ [8192]%N ++ runes_of_ascii "
  packet 
A{ }
")).
Eval vm_compute in ("<<<M1005>>>" ++ check (runes_of_ascii "packet A {
}
// c" ++ [160]%N)).
Eval vm_compute in ("<<<M1166>>>" ++ check (runes_of_ascii "
// c
packet x { }")).
Eval vm_compute in ("<<<M1967>>>" ++ check (runes_of_ascii "packet Packet {
}")).
Eval vm_compute in ("<<<M1420>>>" ++ check (runes_of_ascii "// a
// b")).
Eval vm_compute in ("<<<M17>>>" ++ check (runes_of_ascii "
")).
