From FP Require Import Lexer Parser ShowPT Digest Formatter.
From Coq Require Import String List NArith.
Import ListNotations.
Open Scope string_scope.
Set Printing Width 100000000.
Set Printing Depth 100000000.
Definition show_fres (r : fres) : string :=
  match r with
  | FOk s => "OK:" ++ sh_escaped s ""
  | FErr s => "ERR:" ++ sh_escaped s ""
  | FPanic p => "PANIC:" ++ p
  end.
Definition check (rs : list rune) : string := digest (show_fres (format_res rs)).
Definition full (rs : list rune) : string := show_fres (format_res rs).
Eval vm_compute in ("<<<M1921>>>" ++ check (runes_of_ascii "  root	packet u
	{  match
	crc

    as  leftPad
	{ [
    00	]  :	//

	o ,
    42
    /// triple
:

    // trailing space 
      //x

crc
	[
	""a	b""
, ""CRC32""
,

    ""a\""b""  ,  ""\n""
,

0,
255]
    : // packet A { u8 x, }
    zchar

    , 
// " ++ [128512]%N ++ runes_of_ascii " emoji
  //

}	//	t
	,
	string
    stringy

@lengthOf(matchKey	) , int ,  @tag(  1 )	repeat  zchar[
    4294967296

] roots
	,
	@leftPad ( 
'\x00')
x

//x
    @lengthOf(

crc )  , }	packet  // c
    	repeatCount {

    zchar[

255	]

    f32a
	@calculatedFrom(""x y""  )
    ,
    @tag(
	255)	char[] asx 
@calculatedFrom( 
""" ++ [28040; 24687]%N ++ runes_of_ascii """ 

// " ++ [27880; 37322]%N ++ runes_of_ascii "
    ) ,leftPad { 

    /// triple
    	// a // b
repeat int u8x  ,
i64  trueish

    @lengthOf(
	i8i8	)
`" ++ [28040; 24687; 31867; 22411]%N ++ runes_of_ascii "` 
	    // a // b
, repeat int64//	t
    	pack ,
}
, match
    float
	as o

    { //
	  65535
    :  Pad ,
	[

""" ++ [128512]%N ++ runes_of_ascii """ ,
""" ++ [28040; 24687]%N ++ runes_of_ascii """,

0123456789] 
	//x
  // @lengthOf(
: i8i8 
, 7:
asx
    00 :stringy} 
,
@calculatedFrom(

""" ++ [233]%N ++ runes_of_ascii "t" ++ [233]%N ++ runes_of_ascii """
) f32a
// packet A { u8 x, }
	// trailing space 

	u
    ,
	repeat
msg_type
`" ++ [233]%N ++ runes_of_ascii "` ,

    repeat
zchar[ 
42
]crc

,uint64 
    // " ++ [27880; 37322]%N ++ runes_of_ascii "
  lengthOf	,

    repeat As
    `` ,zchar[ 007
    ]

    tag  `tab	here` 
,

}
root
packet  charz  {	string
msg_type
,
@calculatedFrom(
    """"
)repeat//	t
	string tag	`tab	here` ,

repeat calculatedFrom ,
    repeat
    Foo
,
uint64 Foo

    @lengthOf( packetx

    ),
@rightPad (
    ) match
	falsey
as

calculatedFrom
    { [0 , 10
,

    ""a\""b""
    ] :	metadata , }
    ,
    @calculatedFrom(  ""\" ++ [233]%N ++ runes_of_ascii """) i64

    As	`` ,
    @lengthOf(	rootA

    )
u32

Logon  // c
    @lengthOf(
a1
)	, @calculatedFrom(""""  )

@leftPad 
(	' ' )	uint16

    i8i8 
@calculatedFrom(""// no comment""
), 
}root
	packet // trailing space 
		uint8x 
{repeat f32
chars`tab	here`

    , }  MetaData
calculatedFrom { 
      //
// `tick` ""quote"" 'q'
    metadata
crc	, 
}
")).
Eval vm_compute in ("<<<M385>>>" ++ check (runes_of_ascii "options {
    StringPrefixLenType = u16;
    ArrayPrefixLenType = u16;
}

packet SampleBinary {
    uint16 MsgType `" ++ [28040; 24687; 31867; 22411]%N ++ runes_of_ascii "`,
    u16 BodyLenght @lengthOf(Body) `" ++ [28040; 24687; 20307; 38271; 24230]%N ++ runes_of_ascii "`,
    match MsgType as Body {
        1 : Logon,
        2 : Logout,
        3 : Heartbeat,
        4 : RiskControlRequest,
        5 : RiskControlResponse,
    },
    @calculatedFrom(""CRC32"")
    u32 Ckecksum `" ++ [26657; 39564; 21644]%N ++ runes_of_ascii "`,
}

packet Logon {
    @leftPad('0')
    char[10] UserName `" ++ [29992; 25143; 21517]%N ++ runes_of_ascii "`,
    string Password `" ++ [23494; 30721]%N ++ runes_of_ascii "`,
    uint64 ClientId `" ++ [23458; 25143; 31471]%N ++ runes_of_ascii "ID`,
    u16 HeartbeatInterval `" ++ [24515; 36339; 38388; 38548]%N ++ runes_of_ascii "`,
}

packet Logout {
    @rightPad('0')
    char[10] UserName `" ++ [29992; 25143; 21517]%N ++ runes_of_ascii "`,
    uint64 ClientId `" ++ [23458; 25143; 31471]%N ++ runes_of_ascii "ID`,
}

packet Heartbeat {
}

packet RiskControlRequest {
    string UniqueOrderId `" ++ [21807; 19968; 35746; 21333; 21495]%N ++ runes_of_ascii "`,
    char[16] ClOrdID `" ++ [23458; 25143; 35746; 21333; 21495]%N ++ runes_of_ascii "`,
    char[3] MarketID `" ++ [24066; 22330]%N ++ runes_of_ascii "id`,
    char[12] SecurityID `" ++ [35777; 21048; 20195; 30721]%N ++ runes_of_ascii "`,
    char Side `" ++ [20080; 21334; 26041; 21521]%N ++ runes_of_ascii "`,
    char OrderType `" ++ [35746; 21333; 31867; 22411]%N ++ runes_of_ascii "`,
    u64 Price `" ++ [20215; 26684]%N ++ runes_of_ascii "`,
    u32 Qty `" ++ [25968; 37327]%N ++ runes_of_ascii "`,
    repeat string ExtraInfo `" ++ [38468; 21152; 20449; 24687]%N ++ runes_of_ascii "`,
    repeat SubOrder {
        char[16] ClOrdID `" ++ [23376; 35746; 21333; 21495]%N ++ runes_of_ascii "`,
        u64 Price `" ++ [23376; 35746; 21333; 20215; 26684]%N ++ runes_of_ascii "`,
        u32 Qty `" ++ [23376; 35746; 21333; 25968; 37327]%N ++ runes_of_ascii "`,
    },
}

packet RiskControlResponse {
    string UniqueOrderId `" ++ [21807; 19968; 35746; 21333; 21495]%N ++ runes_of_ascii "`,
    i32 Status `" ++ [29366; 24577]%N ++ runes_of_ascii "`,
    string Msg `" ++ [32467; 26524; 20449; 24687]%N ++ runes_of_ascii "`,
    repeat Detail,
}

packet Detail {
    string RuleName `" ++ [35268; 21017; 21517; 31216]%N ++ runes_of_ascii "`,
    u16 Code `" ++ [21407; 22240; 20195; 30721]%N ++ runes_of_ascii "`,
}")).
Eval vm_compute in ("<<<M1699>>>" ++ check (runes_of_ascii "// a // b
packet stringy {
    string zchar,
    repeat T,
    match u as charz {
        007 : float,
        ""\" ++ [233]%N ++ runes_of_ascii """ : Logon,
        ""a	b"" : pack,
    },
    match uint8x as roots {
        1 : len,
    },
}

packet zchar {
    roots options1 `// not a comment`,
    int64 As,
    i16 float @lengthOf(falsey) `a\`,
    int64 msg_type `tab	here`,
    @tag(0)
    repeat uint8x,
    @lengthOf(x)
    repeat metadata,
    zchar[0] int,
    uint64 zchar,
    zchar[7] msg_type,
    @calculatedFrom(""" ++ [28040; 24687]%N ++ runes_of_ascii """)
    crc,
}

root packet zchar {
    repeat leftPad,
}

packet A {
    @lengthOf(string_)
    x @lengthOf(options1) `two words`,
    string len,
}

packet falsey {
    i64_ @calculatedFrom(""{,}""),
    repeat string chars,
    zchar[7] calculatedFrom,
    Header {
        char u `two words`,
        repeat char[] tag `say ""hi""`,
        Z9_ @lengthOf(T) `line1
        line2`,
    },
    msg_type @calculatedFrom(""// no comment""),
    @rightPad('\x00')
    @lengthOf(asx)
    falsey,
}// packet A { u8 x, }")).
Eval vm_compute in ("<<<M1331>>>" ++ check (runes_of_ascii "  options { 
FixedStringPadFromLeft 
=	true;

FixedStringPadChar =
    '0' ;
} packet
Leg{	InPrice0 { 
repeat string clOrdID ,

    int16 msgKind
, 
zchar[

    5  ]	Px

    ,
} 
,
i16  f1 ,
repeat 
f64 Side2

    , string 
Acct	,
} 
packet Cancel { zchar[ 4

    ]clOrdID ,	string
	seqNo  ,

    Leg,	@leftPad
    ('0' ) char[ 11  ] OrderId 
,	}
    packet Quote  {
    repeat
	char[

4]
	sym 
,

    f64
	OrderId  ,
    repeat
Leg ,repeat
i64 f1 , int16 Note ,  zchar[3
	]
	count ,
	}root	packet Ack
{ @leftPad	(
' ')	char[

    10 ] 
sym
	, InPx60	{Cancel

,

repeat
char[  1
]

    f1 , string Tail,
    repeat

InNote55
    {  int8
	count, f64	f1,repeat  Cancel
    ,
} ,	char[] 
tag7

,	repeat

    string
msgKind ,
}
, u8
lastPx
	,
match 
lastPx as Body
{
152

:	Quote ,173 : Cancel ,

4
	:
Leg
, }

    ,	u16 Ref
@calculatedFrom( ""CRC32"")	, } ")).
Eval vm_compute in ("<<<M1321>>>" ++ check (runes_of_ascii "// top
packet // c0
P1
    // c1
{ // c2
u8
    // c3
a // c4a
  // c4b
,
    // c5
} // c6
packet
    // c7
P2 // c8
{ // c9a
  // c9b
P1 // c10
, } // c12a
  // c12b
packet // c13a
  // c13b
P3
    // c14
{
    // c15
P2
    // c16
, // c17
P1 , // c19
} // c20a
  // c20b
packet // c21
P4 // c22
{ // c23
repeat // c24a
  // c24b
P3
    // c25
, P2 , } root // c30a
  // c30b
packet // c31
P5 { // c33
P4
    // c34
,
    // c35
P3 // c36a
  // c36b
, P1
    // c38
,
    // c39
u8 K // c41
, // c42
match // c43
K // c44a
  // c44b
as
    // c45
Body // c46a
  // c46b
{ // c47a
  // c47b
4 : // c49a
  // c49b
P4 // c50
, // c51
3 :
    // c53
P3 // c54a
  // c54b
, // c55a
  // c55b
2 // c56a
  // c56b
:
    // c57
P2 ,
    // c59
1 : // c61a
  // c61b
P1 // c62
, // c63a
  // c63b
}
    // c64
, }
    // c66
")).
Eval vm_compute in ("<<<M312>>>" ++ check (runes_of_ascii "packet // packet A { u8 x, }
tag
    { @calculatedFrom(""x y"" ) lengthOf{ options1
    `
`,} , @tag( 7 )
int {
//x
// " ++ [27880; 37322]%N ++ runes_of_ascii "
char[ 007  ] // `tick` ""quote"" 'q'
calculatedFrom @lengthOf(
metadata
)  , tag @lengthOf( falsey
) ,	f32
    // " ++ [128512]%N ++ runes_of_ascii " emoji
    calculatedFrom
// `tick` ""quote"" 'q'
//
`{ , }` , i8i8
    {string
    i64_ @lengthOf( asx )	`it's` , u @calculatedFrom(  ""\n"" ) ,
    } ,	}
    ,
    @calculatedFrom(""abc"" //
)  @leftPad ( ' '
    )  uint64 calculatedFrom
,// " ++ [27880; 37322]%N ++ runes_of_ascii "
} packet o { Header ,
    @lengthOf(	i8i8
) float32
    Pad // c
,char[ 42 ]
leftPad
    @calculatedFrom(	"""" // " ++ [128512]%N ++ runes_of_ascii " emoji
)
    , @tag( 255 )
body
    u , } packet lengthOf{
// packet A { u8 x, }
// c
@tag(
    255 //x
) char[ 0123456789 ] o
`
` , }

")).
Eval vm_compute in ("<<<M1776>>>" ++ check (runes_of_ascii "options {
}

packet i8i8 {
    @tag(3)
    x @calculatedFrom(""it's""),
    @lengthOf(f32a)
    match rootA as uint8x {
        0 : string_,
        42 : Packet,
    },
    @leftPad('\x00')
    i64_ packetx `u8 x,`,
    @calculatedFrom(""x y"")
    matchKey {
        len,
    },
    @lengthOf(matchKey)
    @calculatedFrom(""abc"")
    @lengthOf(x_y_z)
    /// triple
    repeat metadata `line1
    line2`,
    lengthOf repeatCount,/// triple
    int32 roots @calculatedFrom(""`tick`"") `" ++ [233]%N ++ runes_of_ascii "`,
    zchar[1] Packet @calculatedFrom(""// no comment""),
}

packet options1 {
    @lengthOf(uint8x)
    A @calculatedFrom(""it's"") `doc`,
}

root packet crc {
    char[65535] chars,
}")).
Eval vm_compute in ("<<<M1720>>>" ++ check (runes_of_ascii "root packet u8x {
    char i64_,
    repeat char[1] Z9_,
    @tag(42)
    repeat Logon MetaDataX,
    @leftPad()
    Foo @lengthOf(As),
    match u128 as calculatedFrom {
        // " ++ [128512]%N ++ runes_of_ascii " emoji
        4294967296 : BodyLength,
        3 : A,
        //
        [4294967296, ""packet""] : o,
        65535 : roots,
    },
    repeat Pad {
        uint64 x @calculatedFrom(""" ++ [128512]%N ++ runes_of_ascii """),
        a1 @lengthOf(As) `line1
        line2`,
        repeat string_ {
            repeat uint32 _x,
            f32 MetaDataX `it's`,
            u64 As @lengthOf(crc),
        },
        roots,
    },
    zchar[00] u128,
}")).
Eval vm_compute in ("<<<M1635>>>" ++ check (runes_of_ascii "packet u8x {
}

root packet matchKey {
    repeat zchar[0123456789] int,
    char[4294967296] asx `{ , }`,
    repeat i8i8,
    repeat Packet {
        repeat leftPad {
            f32 u128 @lengthOf(As),
            body `two words`,// packet A { u8 x, }
            rootA Pad,
        },
        char[00] msg_type `tab	here`,
        repeat i64_ `doc`,
        zchar x_y_z,
    },
}

root packet int {
    repeat f32a {
        repeat f32a asx `u8 x,`,
    },
    @lengthOf(msg_type)
    body,
    // c
    //
    Z9_ zchar `a\`,
}//x")).
Eval vm_compute in ("<<<M334>>>" ++ check (runes_of_ascii "MetaData pack {
int16 rootA `{ , }` ,
    //	t
    int16 // c
x,// " ++ [27880; 37322]%N ++ runes_of_ascii "
u32 msg_type,
    }
packet i64_
    {// trailing space 
@leftPad
    ( '0') @rightPad ( '\x00' // packet A { u8 x, }
)
@lengthOf(options1	)
    string body @lengthOf( asx) `" ++ [233]%N ++ runes_of_ascii "` ,
    }
options { msg_type
    //	t
    = 00//
;} MetaData
    stringy// c
{
    zchar MetaDataX `line1
line2` , char[255] len `it's` , f32 pack ,
    uint16 Foo
`it's` , int16 i64_`two words` ,
    // `tick` ""quote"" 'q'
    }")).
Eval vm_compute in ("<<<M1192>>>" ++ check (runes_of_ascii "// top
MetaData
    // c0
uint8x
    // c1
{
    // c2
char[]
    // c3
f32a
    // c4
`// not a comment`
    // c5
,
    // c6
float32
    // c7
roots
    // c8
,
    // c9
char[
    // c10
7
    // c11
]
    // c12
u8x
    // c13
,
    // c14
zchar[
    // c15
10
    // c16
]
    // c17
f32a
    // c18
,
    // c19
u64
    // c20
pack
    // c21
,
    // c22
u16
    // c23
pack
    // c24
,
    // c25
}
    // c26
")).
Eval vm_compute in ("<<<M1139>>>" ++ check (runes_of_ascii "// top
MetaData
    // c0
leftPad
    // c1
{
    // c2
chars
    // c3
MetaDataX
    // c4
,
    // c5
}
    // c6
packet
    // c7
repeatCount
    // c8
{
    // c9
char[
    // c10
255
    // c11
]
    // c12
uint8x
    // c13
`" ++ [233]%N ++ runes_of_ascii "`
    // c14
,
    // c15
}
    // c16
MetaData
    // c17
pack
    // c18
{
    // c19
As
    // c20
Foo
    // c21
,
    // c22
}
    // c23
")).
Eval vm_compute in ("<<<M77>>>" ++ check (runes_of_ascii "
packet	float { char[ 42] int`say ""hi""` , @tag( 255// packet A { u8 x, }
) match// a // b
stringy  as
    x { [ 00 ,42
]: i64_ 42 : matchKey , [ ""1"" , 1
, 42
    ,
""" ++ [28040; 24687]%N ++ runes_of_ascii """ , ""abc"" ,
// a // b
//x
1 // trailing space 
]
: //
roots
,
    65535
: trueish ,	} ,@calculatedFrom( ""{,}"" )body @calculatedFrom(""" ++ [28040; 24687]%N ++ runes_of_ascii """ ) , zchar[
    007 ] lengthOf, }
")).
Eval vm_compute in ("<<<M1454>>>" ++ check (runes_of_ascii "options {
    LittleEndian = true;
}

packet Logon {
    u8 x,
}

packet Logout {
    u16 reason,
}

root packet Frame {
    i8 Kind,
    i8 Kind2,
    match Kind as Body {
        1 : Logon,
        [2, 3, 4] : Logout,
        100 : Logon,
    },
    match Kind2 as Trailer {
        0 : Logout,
    },
}")).
Eval vm_compute in ("<<<M1495>>>" ++ check (runes_of_ascii "options

    {pack  // `tick` ""quote"" 'q'
=
    0123456789

} 
packet 
metadata 
{ @leftPad
    (	' ' ) stringy 
@lengthOf( _x

    )
, 
repeat
u8 int
	`{ , }` ,@leftPad  //	t
  ( '0'

    )repeat 
char  msg_type `it's` 
,  }
MetaData x_y_z
{  // trailing space 

	}
")).
Eval vm_compute in ("<<<M1594>>>" ++ check (runes_of_ascii "root packet i8i8 {
    @tag(4294967296)
    // packet A { u8 x, }
    Header calculatedFrom `
    `,
    @tag(4294967296)
    @rightPad(' ')
    @lengthOf(float)
    options1 zchar `" ++ [233]%N ++ runes_of_ascii "`,
}

root packet x {
    repeat zchar[10] x `u8 x,`,
}")).
Eval vm_compute in ("<<<M1303>>>" ++ check (runes_of_ascii "// top
packet
    // c0
order_item // c1
{ u8 // c3
a // c4a
  // c4b
, // c5
} root // c7
packet
    // c8
new_order
    // c9
{ // c10
order_item
    // c11
,
    // c12
u8 // c13a
  // c13b
x ,
    // c15
} ")).
Eval vm_compute in ("<<<M1295>>>" ++ check (runes_of_ascii "packet
    A{ 
u8 a,
}packet
B

{u16
	b

    , } root
packet 
P

    {  u8
    K1
, u8

K2 
,match K1
	as	M1
{
1
    :

A,

    } ,	match

K2
as M2  {
1:B ,
    }
    ,}
")).
Eval vm_compute in ("<<<M1488>>>" ++ check (runes_of_ascii "//	t
options {
    chars = true
    As = char[];/// triple
    x_y_z = 7;// " ++ [27880; 37322]%N ++ runes_of_ascii "
    i8i8 = true
    packetx = ' '
}

root packet x_y_z {
    repeat char[42] Pad,
}")).
Eval vm_compute in ("<<<M438>>>" ++ check (runes_of_ascii "packet uint8x
{ match pack
    as msg_type	{
    0123456789 `it's`	float
}
,
} packet //	t
a1
    { } options {packetx
    = '\x00'	; u128= ""a	b""  ; }
")).
Eval vm_compute in ("<<<M456>>>" ++ check (runes_of_ascii "packet uint8x
{ match pack
    as msg_type	{
    0123456789 :	float
}
,
} } packet //	t
a1
    { } options {packetx
    = '\x00'	; u128= ""a	b""  ; }
")).
Eval vm_compute in ("<<<M275>>>" ++ check (runes_of_ascii "MetaData
stringy { zchar[10 ] crc,  }
    packet u128
{ repeat uint16  BodyLength `// not a comment`, @lengthOf( falsey ) _x ,
char[ 42 ]  i8i8	, }

")).
Eval vm_compute in ("<<<M532>>>" ++ check (runes_of_ascii "packet uint8x
{ match pack
    as msg_type	{
    0123456789 :	float
}
,
} packet //	t
a1
    { } options {packetx
    = '\x00'	; u128= ""a	b""  ; )
")).
Eval vm_compute in ("<<<M1464>>>" ++ check (runes_of_ascii "
options {  }MetaData

    u8x

    {
uint8x
body `crlf
line`
	//	t
    , calculatedFrom body ,  }	options
	{  }root
	packet
options1
{ }
")).
Eval vm_compute in ("<<<M705>>>" ++ check (runes_of_ascii "// @lengthOf(
packet i8i8 { u128 o , }
options { MetaDataX = true;
    BodyLength =""packet"" x_y_z= 007
crc //x
= = ""abc"" ;
    msg_type =
i16 }")).
Eval vm_compute in ("<<<M720>>>" ++ check (runes_of_ascii "// @lengthOf(
packet i8i8 { u128 o , }
options { MetaDataX = true;
    BodyLength =""packet"" =x_y_z 007
crc //x
= ""abc"" ;
    msg_type =
i16 }")).
Eval vm_compute in ("<<<M1865>>>" ++ check (runes_of_ascii "
packet
	A

{
match k
	as	n  {
    [
""a""  ,

""bb""

    ,
    007	,""d""	,

    ""e"", 66

]
	:

    B

,

    2
:
	C

    }
,
}

")).
Eval vm_compute in ("<<<M1803>>>" ++ check (runes_of_ascii "packet A {
    match k as n {
        [
            1, 22, 4, 5, 7,
            8, ""c c"", ""f""
        ] : B,
        2 : C,
    },
}")).
Eval vm_compute in ("<<<M1466>>>" ++ check (runes_of_ascii "MetaData leftPad {
    chars MetaDataX,
}

packet repeatCount {
    char[255] uint8x `" ++ [233]%N ++ runes_of_ascii "`,
}

MetaData pack {
    As Foo,
}")).
Eval vm_compute in ("<<<M1157>>>" ++ check (runes_of_ascii "MetaData leftPad { chars MetaDataX , } packet // c
repeatCount { char[ 255 ] uint8x `" ++ [233]%N ++ runes_of_ascii "` , } MetaData pack { As Foo , }")).
Eval vm_compute in ("<<<M1379>>>" ++ check (runes_of_ascii "  packet
	A	{
match k
    as  n	{[ 1
,
    22 
,

""c c"" ,
4,  5
,

""f"" ,
    7 
,

8 ,""i""]:
B  2

    : C
}

,

}
")).
Eval vm_compute in ("<<<M1567>>>" ++ check (runes_of_ascii "packet Header {
    repeat char[0123456789] BodyLength `" ++ [28040; 24687; 31867; 22411]%N ++ runes_of_ascii "`,
    zchar[3] chars,// trailing space 
    A,
}//")).
Eval vm_compute in ("<<<M49>>>" ++ check (runes_of_ascii "options  { f32a = true;  metadata =""CRC32"" ;
body // " ++ [27880; 37322]%N ++ runes_of_ascii "
=
char ; A =
float64	;
} MetaData
    rootA { }")).
Eval vm_compute in ("<<<M1573>>>" ++ check (runes_of_ascii "
packet
A {

    Inner  {

match  k
as

n
{
[ 1

    ,  22
	, 
007 , 4
    ]
: B,
}
	,
}
,}
")).
Eval vm_compute in ("<<<M554>>>" ++ check (runes_of_ascii "
packet packet
    asx {match u128 as lengthOf
{
//	t
// `tick` ""quote"" 'q'
255 : x ,
    } ,	}")).
Eval vm_compute in ("<<<M1727>>>" ++ check (runes_of_ascii "

  packet
A
    {
	match

k as 
n
	{
[
    ""a"" , 22,  ""c c"" 
]

:
B

    2 :	C
	}
,
	}

")).
Eval vm_compute in ("<<<M559>>>" ++ check (runes_of_ascii "
packet
    { asx match u128 as lengthOf
{
//	t
// `tick` ""quote"" 'q'
255 : x ,
    } ,	}")).
Eval vm_compute in ("<<<M1533>>>" ++ check (runes_of_ascii "packet A

    {
match  k
as n	{[ 1
    ,  ""bb""
    , 007]
    :

B,
2
: C
	}
    ,	} ")).
Eval vm_compute in ("<<<M846>>>" ++ check (runes_of_ascii "packet A {
  match k as n {
    [""a"", 22, ""c c"", 4, ""e"", 66, ""g""] : B
    2 : C
  },
}")).
Eval vm_compute in ("<<<M966>>>" ++ check (runes_of_ascii "packet A {
    u32 crc @calculatedFrom(""x\
y""),
    @calculatedFrom(""x\
y"") u8 y,
}")).
Eval vm_compute in ("<<<M972>>>" ++ check (runes_of_ascii "packet A {
    u32 crc @calculatedFrom(""\
""),
    @calculatedFrom(""\
"") u8 y,
}")).
Eval vm_compute in ("<<<M827>>>" ++ check (runes_of_ascii "packet A {
  match k as n {
    [1, 22, 007, 4, 5, 66] : B
    2 : C
  },
}")).
Eval vm_compute in ("<<<M1740>>>" ++ check (runes_of_ascii "packet A {
    B b `x
    `,
    B `x
    `,
    repeat B bs `x
    `,
}")).
Eval vm_compute in ("<<<M796>>>" ++ check (runes_of_ascii "packet A {
  match k as n {
    [1, 22, ""c c""] : B
    2 : C
  },
}")).
Eval vm_compute in ("<<<M1890>>>" ++ check (runes_of_ascii "
packet
body {i32 f32a
	`{ , }`
,
    }options
// c
  { 
}
")).
Eval vm_compute in ("<<<M1287>>>" ++ check (runes_of_ascii "root packet P {
    repeat string ss,
    repeat u16 ns,
}
")).
Eval vm_compute in ("<<<M1078>>>" ++ check (runes_of_ascii "// a
MetaData M {} // b
// c
MetaData N {} // d
// e")).
Eval vm_compute in ("<<<M1079>>>" ++ check (runes_of_ascii "packet A { u8 x, } // a
// b
packet B {} // c
// d")).
Eval vm_compute in ("<<<M1580>>>" ++ check (runes_of_ascii "packet
	A
{  @tag(// a
      1)
u8 
x
, }
")).
Eval vm_compute in ("<<<M1679>>>" ++ check (runes_of_ascii "root packet A {
    u8 x `
        x`,
}")).
Eval vm_compute in ("<<<M54>>>" ++ check (runes_of_ascii "options
{ T= '0' ;A= u8 ;
    } 	 ")).
Eval vm_compute in ("<<<M1728>>>" ++ check (runes_of_ascii "  MetaData 

    // c
  u
{	}
")).
Eval vm_compute in ("<<<M270>>>" ++ check (runes_of_ascii "  root packet msg_type
{
}
")).
Eval vm_compute in ("<<<M1860>>>" ++ check (runes_of_ascii "packet

f32a
{

    }")).
Eval vm_compute in ("<<<M1107>>>" ++ check (runes_of_ascii "MetaData tag // c
{ }")).
Eval vm_compute in ("<<<M1869>>>" ++ check (runes_of_ascii "// top
packet x {
}")).
Eval vm_compute in ("<<<M1039>>>" ++ check (runes_of_ascii "packet A {
}// c 	")).
Eval vm_compute in ("<<<M1034>>>" ++ check (runes_of_ascii "packet A {
}// c" ++ [12]%N)).
Eval vm_compute in ("<<<M1852>>>" ++ check (runes_of_ascii "packet int {
}")).
Eval vm_compute in ("<<<M975>>>" ++ check (runes_of_ascii "// c ")).
Eval vm_compute in ("<<<M730>>>" ++ check (runes_of_ascii "//")).
