From FP Require Import Lexer Parser ShowPT Digest Formatter.
From Coq Require Import String List NArith.
Import ListNotations.
Open Scope string_scope.
Set Printing Width 100000000.
Set Printing Depth 100000000.
Definition show_fres (r : fres) : string :=
  match r with
  | FOk s => "OK:" ++ sh_escaped s ""
  | FErr s => "ERR:" ++ sh_escaped s ""
  | FPanic p => "PANIC:" ++ p
  end.
Definition check (rs : list rune) : string := digest (show_fres (format_res rs)).
Definition full (rs : list rune) : string := show_fres (format_res rs).
Eval vm_compute in ("<<<M1610>>>" ++ check (runes_of_ascii "
root packet
    u 
{
    match crc
as
leftPad 
{ [00]: 	 //
	o

,
42 
	/// triple
  	:  
      // trailing space 
  //x
crc[ ""a	b""
,	""CRC32"" 
,	""a\""b""
,	""\n""
, 0 
,255
    ]
:// packet A { u8 x, }
	zchar
	,

// " ++ [128512]%N ++ runes_of_ascii " emoji
  //
  }  //	t

,

    string

    stringy @lengthOf(  matchKey)	, int,@tag(1

    )repeat
    zchar[

4294967296 ]  roots

, @leftPad
	( 
'\x00'

    ) x 
//x
@lengthOf(crc
	)
,	}packet// c
		repeatCount

    { 
zchar[ 255

] f32a
	@calculatedFrom(

""x y"" ) ,@tag(

    255 
)
char[]asx@calculatedFrom(
    """ ++ [28040; 24687]%N ++ runes_of_ascii """  
      // " ++ [27880; 37322]%N ++ runes_of_ascii "
)
    ,	leftPad	{ 
	    /// triple
	// a // b
  repeat	int

u8x

    ,
    i64	trueish
	@lengthOf(i8i8
) 
`" ++ [28040; 24687; 31867; 22411]%N ++ runes_of_ascii "` 
// a // b

,
    repeat
	int64 	 //	t
  pack

    , 
}
, match 
float	as o	{ //
		65535:
    Pad

    ,

[
""" ++ [128512]%N ++ runes_of_ascii """ , 
""" ++ [28040; 24687]%N ++ runes_of_ascii """

    , 0123456789

] 
//x

  // @lengthOf(
	:i8i8 , 7:	asx
    00 :
	stringy },
	@calculatedFrom(

    """ ++ [233]%N ++ runes_of_ascii "t" ++ [233]%N ++ runes_of_ascii """ )
    f32a
// packet A { u8 x, }
	  // trailing space 
	u  , 
repeat

msg_type`" ++ [233]%N ++ runes_of_ascii "`,

    repeat zchar[
42

    ] crc ,

    uint64 
    // " ++ [27880; 37322]%N ++ runes_of_ascii "
    lengthOf
,  repeat As``
, zchar[	007
]tag`tab	here`,
	}
	root

    packet  charz
{
	string	msg_type, @calculatedFrom( 
""""

) 
repeat  //	t
	string

tag `tab	here`  , repeat calculatedFrom  , repeat
	Foo ,
uint64
    Foo  @lengthOf(  packetx  ),
	@rightPad( )
	match
    falsey
	as
	calculatedFrom	{	[ 0

    ,
    10

, ""a\""b""

]:metadata	, } 
, @calculatedFrom(
""\" ++ [233]%N ++ runes_of_ascii """ ) i64 As ``

    , @lengthOf(

rootA)
	u32

Logon 	 // c
  @lengthOf(a1
	)
	,

    @calculatedFrom(

    """"
)@leftPad (
	' '	)

uint16
    i8i8 @calculatedFrom(
""// no comment""

    ) ,
}
root
    packet	// trailing space 
    uint8x {
	repeat

f32
chars
    `tab	here`
,

}MetaData calculatedFrom  { 

//
    	// `tick` ""quote"" 'q'
	  metadata	crc ,
}")).
Eval vm_compute in ("<<<M257>>>" ++ check (runes_of_ascii "options
{
BodyLength
=3 ;// " ++ [128512]%N ++ runes_of_ascii " emoji
T = ""packet""
// @lengthOf(
// trailing space 
;
// c
// trailing space 
crc = true ;
falsey= '\x00'/// triple
;
} root packet A
    {@leftPad (
'0' )	char[
65535 ] Header  `" ++ [233]%N ++ runes_of_ascii "` ,
@rightPad( '0' ) //
a1 @lengthOf( msg_type ) , @lengthOf( rootA )
    match
_x as //x
stringy {""CRC32"" : chars, 3// `tick` ""quote"" 'q'
:float , 255	:	asx // `tick` ""quote"" 'q'
, 10  : tag ,//
} ,
    @calculatedFrom(
    """ ++ [128512]%N ++ runes_of_ascii """	) u32 u8x`crlf
line` , repeat char[]	asx `a\` , @rightPad ( '0'	)match f32a  as Packet
    { [ 255 , ""CRC32"" , 007
, ""1"",""packet"" , 00 ,
    4294967296 ]	: calculatedFrom , ""packet"" :
    falsey, ""a\""b"": body , 7// a // b
: Packet // " ++ [128512]%N ++ runes_of_ascii " emoji
0123456789 :	i64_ ,
    // a // b
    [4294967296 , 0123456789 ]  : // `tick` ""quote"" 'q'
options1	} ,crc /// triple
@lengthOf(	Foo
    )
    ,
@calculatedFrom( ""{,}"")@lengthOf(metadata ) @lengthOf( i8i8
)int64 options1 @calculatedFrom(""CRC32"" )
    `line1
line2` , // @lengthOf(
} packet a1 // `tick` ""quote"" 'q'
{ match lengthOf//
as x_y_z
{ ""it's"" :matchKey
//
// @lengthOf(
, 10 :
Packet , [ //x
""abc""
    ]// a // b
: A 10 //x
: metadata
    ,
    } ,
}MetaData
    body { char string_, char[]
x, len Pad , string
    leftPad , } // trailing space ")).
Eval vm_compute in ("<<<M1462>>>" ++ check (runes_of_ascii "  packet

pack { 
@lengthOf( 
Foo 
    // c
	)

    asx 
@lengthOf(

_x )/// triple
	,
    u8	x_y_z `two words` , repeat zchar[
    0]	roots

`
` 

// `tick` ""quote"" 'q'
, lengthOf	@calculatedFrom(
""abc""  ) ,
	@tag(

3)

@rightPad

    ( ' '
	)

@calculatedFrom( ""1""
    //x
    // " ++ [27880; 37322]%N ++ runes_of_ascii "
	)repeat
    uint64
i64_  // trailing space 

	`say ""hi""`	// @lengthOf(

	,@tag(007

) 
match	roots 
as

float

{  ""a	b""

:
lengthOf ,[1
    ,	// @lengthOf(
  ""\n"" , ""a\""b"" ,

""\" ++ [233]%N ++ runes_of_ascii """ ,

""1""  , 42
]
    :	msg_type
,""" ++ [128512]%N ++ runes_of_ascii """:  Foo}
,  T//x

{ match 
Header

as  trueish
    {

[
    // `tick` ""quote"" 'q'
    // @lengthOf(

  0  ,
	3 // @lengthOf(
, ""{,}""  , ""1""
,

    00
,

0123456789,
	""// no comment""] :

    As, }  ,  } ,
repeat
    char[ 10]o
	`
`  ,  @calculatedFrom( 
    //
""`tick`""//x
    ) repeat
    crc  {
    repeatCount o
,u8x
	As ,
} , } packet
pack  {@calculatedFrom( 
""" ++ [233]%N ++ runes_of_ascii "t" ++ [233]%N ++ runes_of_ascii """
	)

u32
f32a
,  }
MetaData 
float

{
u32 options1 , } 
packet f32a
    {	} ")).
Eval vm_compute in ("<<<M1373>>>" ++ check (runes_of_ascii "  options{	FixedStringPadFromLeft  =
    true
    ; FixedStringPadChar

=  '0'
    ;	} packet
	Leg {	repeat InSym93
    {

zchar[
3 ]
Acct, string
Side2,
    i32	Flags,	f32  Note
	, 
i32
	msgKind 
,  }
    ,	f64 Note
    ,
    uint16

Px ,

}
packet
	Quote

{  zchar[	2  ]
OrderId

    ,}

    packet Ack

{
repeat
    string
    lastPx  ,
zchar[

4  ]  price,

uint32

OrderId,Quote  , int8  Acct
    ,
} packet
Fill
{repeat
	Leg, 
@rightPad
	(	'0' 
)  char[11 ]Note  ,	f64

Px  ,@rightPad ( 
'\x00'	)  char[5 ] Flags
    ,
zchar[	9
]
x  , string 
msgKind , }	root packet
	Order{ 
Leg

, repeat
    Ack,
	@rightPad (
	'\x00'	)	char[ 3 ]Side2

    ,
	repeat 
char[ 1]  seqNo  ,

u16 clOrdID, match

    clOrdID 
as
Body{198:Leg
    ,
	23

: Quote,
	13 
:Ack ,	159 
:  Fill

,
	} , 
u32
venue
    @calculatedFrom(

""CRC32""
    ) ,
}
")).
Eval vm_compute in ("<<<M1629>>>" ++ check (runes_of_ascii "options

    {
StringPrefixLenType  =
u16	;
	ArrayPrefixLenType=
	u32
;
	FixedStringPadFromLeft =
    true  ; FixedStringPadChar

=

'0'
    ;  }

    packet
	Cancel
    {}
	packet 
Party {

    }	packet Logon
    {

} 
packet
    Ack{ }
	packet 
Logout {repeat

InSym87

    {

InClordid94{	string	clOrdID ,}  , string Px,	i16

    Qty ,
repeat
InCount71
{

    repeat Cancel
, 
uint16

    Tail

    , char[
2 ]
    x , repeat
    string
    Ref ,

    }, Cancel
,
} , 
}
	root packet Order
{

    repeat string
    tag7 ,
    @leftPad	( ' '

)
char[
    3

]
    Px
,
	u8

    Qty  , match

Qty
	as  Body
    {
[ 28

    ,
62] :
Logon,

    148 :Ack  , 
88: 
Party  , 184 :
    Cancel	, }
, 
u16

    Note	@calculatedFrom( ""CR\
C32""	)
	, }")).
Eval vm_compute in ("<<<M192>>>" ++ check (runes_of_ascii "// trailing space 
options { f32a=
false;	stringy=	true
;
u=  ""\" ++ [233]%N ++ runes_of_ascii """  ;
    stringy = false;
} packet options1 // " ++ [27880; 37322]%N ++ runes_of_ascii "
{
} MetaData
packetx { f32 uint8x  ,  } root packet zchar {
@tag( 4294967296
) @lengthOf(a1
)
i8
_x
`it's` ,//x
char[]	o , body
    ,
zchar[ 65535] msg_type
`crlf
line` , repeat
    BodyLength{ repeat char[ 65535
    ] stringy,
},
@calculatedFrom( """ ++ [128512]%N ++ runes_of_ascii """
) @tag( 10
    // a // b
    ) repeat f32
lengthOf`line1
line2` , repeat  u {
    uint32 Z9_, //
repeat body
`
` , }  , @tag( 4294967296
) i64_ @lengthOf( tag
    // packet A { u8 x, }
    ), @lengthOf(//	t
float) @lengthOf(
    // " ++ [128512]%N ++ runes_of_ascii " emoji
    packetx	) @calculatedFrom( """ ++ [128512]%N ++ runes_of_ascii """
)	repeat x_y_z u  ,@tag( 65535 )u8
A	,} //")).
Eval vm_compute in ("<<<M78>>>" ++ check (runes_of_ascii "options {
Header	=u32; } options {
i8i8	=
    f64 ; body
    =  zchar[
// " ++ [128512]%N ++ runes_of_ascii " emoji
/// triple
00//
] ; }
    //
    MetaData BodyLength  { // trailing space 
}// " ++ [27880; 37322]%N ++ runes_of_ascii "
options
{ Logon= u64 As =
    true i64_
= '\x00' ;
} root packet asx {
@tag(
// `tick` ""quote"" 'q'
//	t
4294967296
    )
    roots @lengthOf( A ) ,repeat uint8 u128
    , int32 i64_  ,
    u8 u `` ,
@lengthOf(
// c
// c
len ) uint64
    //x
    matchKey ,	match rootA
    as stringy {
1 : string_, 7 : charz , 255 : u128, [ // trailing space 
0
,0123456789 ,1,007  ]: len
    , 10
    :trueish } ,
@rightPad	()
    char[ 7] int //
@lengthOf(
x ) `two words`
, }")).
Eval vm_compute in ("<<<M1905>>>" ++ check (runes_of_ascii "options {
    LittleEndian = false;
    ArrayPrefixLenType = u8;
    FixedStringPadFromLeft = true;
    FixedStringPadChar = '0';
}

packet Heartbeat {
    string lastPx,
    uint8 Qty,
    i64 Acct,
    char[4] Ref,
}

packet Fill {
    uint8 Ref,
    Heartbeat,
    f32 OrderId,
    repeat f32 x,
}

root packet Order {
    zchar[2] OrderId,
    zchar[2] Acct,
    zchar[1] Note,
    zchar[9] Qty,
    string price,
    string tag7,
    u32 x,
    match x as Body {
        123 : Fill,
        112 : Heartbeat,
    },
    u32 seqNo @calculatedFrom(""CR\
    C32""),
}")).
Eval vm_compute in ("<<<M1352>>>" ++ check (runes_of_ascii "options {
    ArrayPrefixLenType = u64;
    FixedStringPadFromLeft = true;
    FixedStringPadChar = '0';
}
packet Quote {
}
packet Ack {
    repeat InNote66 {
        u8 pad0,
    },
}
packet Reject {
}
root packet Order {
    Quote,
    repeat Reject,
    string venue,
    string seqNo,
    uint32 Ref,
    u16 lastPx,
    u32 clOrdID @lengthOf(Body),
    match lastPx as Body {
        190 : Reject,
        186 : Quote,
        22 : Ack,
    },
    u16 Flags @calculatedFrom(""CR\
C32""),
}
")).
Eval vm_compute in ("<<<M253>>>" ++ check (runes_of_ascii "packet
u	{ @lengthOf( //
zchar )match Header as len  {
    42// trailing space 
:
    x_y_z ,
    // " ++ [27880; 37322]%N ++ runes_of_ascii "
    },rootA	`
`	,	match u8x as pack {[ 1 , """" ]
    : float , ""abc""  :
string_ ,42 :
    i64_/// triple
,
1:zchar
// trailing space 
// " ++ [128512]%N ++ runes_of_ascii " emoji
} ,char[ 3 ] int ,
match options1 as u128 { [ ""`tick`"" ] : u
// packet A { u8 x, }
/// triple
, } ,	}
options {	len	= //	t
i8 // " ++ [27880; 37322]%N ++ runes_of_ascii "
; zchar = true; } packet T{char[ 42 ] asx@calculatedFrom(""CRC32"" ) , }
")).
Eval vm_compute in ("<<<M1604>>>" ++ check (runes_of_ascii "

  packet As	{

    @leftPad
(
	)
char[ 0  ] Logon

    ,  char[ 0
] Z9_@calculatedFrom( ""abc"" 
    // c
),@tag(	4294967296 
)	i64

matchKey

    @calculatedFrom(

""// no comment"" 	 //
    	) `two words`,  i16  A

    , }	// " ++ [27880; 37322]%N ++ runes_of_ascii "
	packet
T{
zchar[
3 ]tag// packet A { u8 x, }
  @lengthOf(chars)

,  }
packet// " ++ [128512]%N ++ runes_of_ascii " emoji

BodyLength {
calculatedFrom @lengthOf(
	body)
`
` 
,

    } 	 // a // b
 
")).
Eval vm_compute in ("<<<M114>>>" ++ check (runes_of_ascii "packet
a1 {@calculatedFrom(""`tick`"" ) uint32 charz	`crlf
line` ,
// c
//x
a1 `tab	here`, }
    options
    {
// " ++ [27880; 37322]%N ++ runes_of_ascii "
// " ++ [128512]%N ++ runes_of_ascii " emoji
stringy =
// c
// a // b
255 ;
    metadata =	4294967296 pack
    = /// triple
string	; crc= string
    ; }  root  packet
crc	{ @tag(  42  )
@calculatedFrom( ""abc""  )
@rightPad ( '0'
) u128 u8x
/// triple
//x
,@lengthOf(len) uint16 int, }
")).
Eval vm_compute in ("<<<M1596>>>" ++ check (runes_of_ascii "

  root packet

chars	{ string
    T

`say ""hi""` 
,@tag(1

    ) body

    {	repeat
	o

{ f64 
Packet	@calculatedFrom( ""a\\""
    ) , 
},} ,
    } packet

pack 
// @lengthOf(
	// a // b
  	{
    @tag(

4294967296 	 // `tick` ""quote"" 'q'

  )
repeat

char[]	Logon 
	// trailing space 
	,
	repeat
	BodyLength

len  , 
        // c
}

")).
Eval vm_compute in ("<<<M377>>>" ++ check (runes_of_ascii "packet crc {match  trueish
    as
len {
42 : uint8x,// " ++ [128512]%N ++ runes_of_ascii " emoji
""1"" :asx ,	3
: body [ ""1"" , 0123456789]: u ""packet"" : o , } , } MetaData tag
{
    string
o `line1
line2`
,
char[] //
Header `{ , }`// c
,  uint8x Z9_, } MetaData
tag
{ i8 len , }
    options //x
{
// `tick` ""quote"" 'q'
/// triple
x= 10;
}
")).
Eval vm_compute in ("<<<M1578>>>" ++ check (runes_of_ascii "
packet MDSnapshotZZ {  u8

a, 
} 
packet

OrderACK {

    u16 
b 
,} packet
	HTTPServerInfo	{ string s

    ,	}root

packet 
FIXMsg 
{u8  KType
,MDSnapshotZZ ,  repeat
    OrderACK

    , match
KType as Body {
1 
:HTTPServerInfo ,

    2
	:

OrderACK	, } ,
}
")).
Eval vm_compute in ("<<<M308>>>" ++ check (runes_of_ascii "options { pack// `tick` ""quote"" 'q'
= 0123456789
}
packet metadata { @leftPad ( ' ' ) stringy
@lengthOf( _x )
    , repeat	u8
int
    `{ , }` ,
@leftPad //	t
('0' ) repeat char msg_type `it's`,
} MetaData x_y_z { // trailing space 
}")).
Eval vm_compute in ("<<<M1808>>>" ++ check (runes_of_ascii "packet Logon {
    string user,
}

root packet Frame {
    u8 K,
    match K as Body {
        1 : Logon,
        2 : Logout,
    },
    Tail,
}

packet Logout {
    u16 reason,
}

packet Tail {
    u32 crc,
}")).
Eval vm_compute in ("<<<M357>>>" ++ check (runes_of_ascii "MetaData x_y_z
{
lengthOf // packet A { u8 x, }
rootA , MetaDataX// " ++ [128512]%N ++ runes_of_ascii " emoji
_x , char[ 4294967296 ] stringy , char[
//
// c
007
] u128
, tag u8x `line1
line2` ,  uint8 u128 , }
")).
Eval vm_compute in ("<<<M1877>>>" ++ check (runes_of_ascii "packet A {
    match k as n {
        [
            1, ""bb"", 007, ""d"", 5,
            ""f"", 7, ""h"", 9, ""j"",
            11, ""l""
        ] : B,
        2 : C,
    },
}")).
Eval vm_compute in ("<<<M406>>>" ++ check (runes_of_ascii "packet uint8x
{ match match pack
    as msg_type	{
    0123456789 :	float
}
,
} packet //	t
a1
    { } options {packetx
    = '\x00'	; u128= ""a	b""  ; }
")).
Eval vm_compute in ("<<<M426>>>" ++ check (runes_of_ascii "packet uint8x
{ match pack
    as msg_type	{ {
    0123456789 :	float
}
,
} packet //	t
a1
    { } options {packetx
    = '\x00'	; u128= ""a	b""  ; }
")).
Eval vm_compute in ("<<<M1299>>>" ++ check (runes_of_ascii "packet A {
    u8 a,
}
packet B {
    u16 b,
}
root packet P {
    u8 K,
    match K as M {
        [1, 2] : A,
        3 : B,
        7 : A,
    },
}
")).
Eval vm_compute in ("<<<M517>>>" ++ check (runes_of_ascii "packet uint8x
{ match pack
    as msg_type	{
    0123456789 :	float
}
,
} packet //	t
a1
    { } options {packetx
    = '\x00'	; u128""a	b"" =  ; }
")).
Eval vm_compute in ("<<<M666>>>" ++ check (runes_of_ascii "// @lengthOf(
packet i8i8 { u128 u128 o , }
options { MetaDataX = true;
    BodyLength =""packet"" x_y_z= 007
crc //x
= ""abc"" ;
    msg_type =
i16 }")).
Eval vm_compute in ("<<<M695>>>" ++ check (runes_of_ascii "// @lengthOf(
packet i8i8 { u128 o , }
options { MetaDataX = true;
    BodyLe@xngth =""packet"" x_y_z= 007
crc //x
= ""abc"" ;
    msg_type =
i16 }")).
Eval vm_compute in ("<<<M720>>>" ++ check (runes_of_ascii "// @lengthOf(
packet i8i8 { u128 o , }
options { MetaDataX = true;
    BodyLength =""packet"" =x_y_z 007
crc //x
= ""abc"" ;
    msg_type =
i16 }")).
Eval vm_compute in ("<<<M650>>>" ++ check (runes_of_ascii "// @lengthOf(
packet i8i8 { u128 o , }
options { MetaDataX = true;
    BodyLength =""packet"" x_y_z= 007
crc //x
=  ;
    msg_type =
i16 }")).
Eval vm_compute in ("<<<M1704>>>" ++ check (runes_of_ascii "packet

A
	{ u16 len

@lengthOf( body )`tab
	x` 
, u32
    crc@calculatedFrom( ""CRC32""

    ) `tab
	x`

,
	string body

    , }
")).
Eval vm_compute in ("<<<M1682>>>" ++ check (runes_of_ascii "packet A {
    match k as n {
        [
            1, 22, 007, 4, 5,
            66, 7
        ] : B,
        2 : C,
    },
}")).
Eval vm_compute in ("<<<M1924>>>" ++ check (runes_of_ascii "packet A {
    Inner {
        u8 x `x
        `,
        Deep {
            u8 y `x
            `,
        },
    },
}")).
Eval vm_compute in ("<<<M1172>>>" ++ check (runes_of_ascii "MetaData leftPad { chars MetaDataX , } packet repeatCount { char[ 255 ] uint8x `" ++ [233]%N ++ runes_of_ascii "`
// c
, } MetaData pack { As Foo , }")).
Eval vm_compute in ("<<<M300>>>" ++ check (runes_of_ascii "packet
Logon  { repeat u {zchar { zchar[ 007
] a1
`` ,  x_y_z@calculatedFrom(
//
// " ++ [128512]%N ++ runes_of_ascii " emoji
""{,}""
    ), }, } ,}
")).
Eval vm_compute in ("<<<M901>>>" ++ check (runes_of_ascii "packet A {
  match k as n {
    [""a"", ""bb"", 007, ""d"", ""e"", 66, ""g"", ""h"", 9, ""j"", ""k""] : B,
    2 : C
  },
}")).
Eval vm_compute in ("<<<M353>>>" ++ check (runes_of_ascii "options { _x
    =
    ""`tick`""	;matchKey=
""it's""
;	options1
    = u16 ; stringy= true
    // c
    }
")).
Eval vm_compute in ("<<<M656>>>" ++ check (runes_of_ascii "// @lengthOf(
packet i8i8 { u128 o , }
options { MetaDataX = true;
    BodyLength =""packet"" x_y_z")).
Eval vm_compute in ("<<<M872>>>" ++ check (runes_of_ascii "packet A {
  match k as n {
    [""a"", 22, ""c c"", 4, ""e"", 66, ""g"", 8, ""i""] : B
    2 : C
  },
}")).
Eval vm_compute in ("<<<M603>>>" ++ check (runes_of_ascii "
packet
    asx {match u128 as lengthOf
{
//	t
// `tick` ""quote"" 'q'
255 : x x ,
    } ,	}")).
Eval vm_compute in ("<<<M564>>>" ++ check (runes_of_ascii "
packet
    asx match{ u128 as lengthOf
{
//	t
// `tick` ""quote"" 'q'
255 : x ,
    } ,	}")).
Eval vm_compute in ("<<<M879>>>" ++ check (runes_of_ascii "packet A {
  match k as n {
    [1, 22, 007, 4, 5, 66, 7, 8, 9, 10] : B
    2 : C
  },
}")).
Eval vm_compute in ("<<<M390>>>" ++ check (runes_of_ascii "root packet SimpleMessage {
	uint16 MsgType `" ++ [28040; 24687; 31867; 22411]%N ++ runes_of_ascii "`,
	string JsonBody `Json" ++ [23383; 31526; 20018; 28040; 24687; 20307]%N ++ runes_of_ascii "`,
}")).
Eval vm_compute in ("<<<M1292>>>" ++ check (runes_of_ascii "

  root
    packet

P

    {
	u8
	s_u8,  repeat  u8 r_u8  , u16
    b_len, }

")).
Eval vm_compute in ("<<<M611>>>" ++ check (runes_of_ascii "
packet
    asx {match u128 as lengthOf
{
//	t
// `tick` ""quote"" 'q'
255 : x")).
Eval vm_compute in ("<<<M890>>>" ++ check (runes_of_ascii "packet A { Inner { match k as n { [1,22,007,4,5,66,7,8,9,10] : B, }, }, }")).
Eval vm_compute in ("<<<M795>>>" ++ check (runes_of_ascii "packet A {
  match k as n {
    [1, 22, ""c c""] : B,
    2 : C
  },
}")).
Eval vm_compute in ("<<<M246>>>" ++ check (runes_of_ascii "MetaData x {x Packet
,i32 lengthOf
, // `tick` ""quote"" 'q'
}
")).
Eval vm_compute in ("<<<M1791>>>" ++ check (runes_of_ascii "packet i64_ {
    @tag(0123456789)
    repeat u16 stringy,
}")).
Eval vm_compute in ("<<<M1070>>>" ++ check (runes_of_ascii "packet A { match k as n { 1 : B // a // b 2 : C }, }")).
Eval vm_compute in ("<<<M1212>>>" ++ check (runes_of_ascii "packet body { i32 f32a `{ , }` ,
// c
} options { }")).
Eval vm_compute in ("<<<M1286>>>" ++ check (runes_of_ascii "

  root
    packet P{ 
string
	s

    , }
")).
Eval vm_compute in ("<<<M933>>>" ++ check (runes_of_ascii "MetaData M {
    u8 x `
`,
    T t `
`,
}")).
Eval vm_compute in ("<<<M1409>>>" ++ check (runes_of_ascii "

  packet 
A
    {
} 
    // c" ++ [8192]%N ++ runes_of_ascii "
")).
Eval vm_compute in ("<<<M179>>>" ++ check (runes_of_ascii "// `tick` ""quote"" 'q'
options {}")).
Eval vm_compute in ("<<<M993>>>" ++ check (runes_of_ascii "packet A {
 u8 x `d" ++ [133]%N ++ runes_of_ascii "`, // c" ++ [133]%N ++ runes_of_ascii "
}")).
Eval vm_compute in ("<<<M655>>>" ++ check (runes_of_ascii "// @lengthOf(
packet i8i8 {")).
Eval vm_compute in ("<<<M1468>>>" ++ check (runes_of_ascii "
packet
A{
} // c" ++ [8203]%N ++ runes_of_ascii "
")).
Eval vm_compute in ("<<<M1110>>>" ++ check (runes_of_ascii "MetaData tag {
// c
}")).
Eval vm_compute in ("<<<M744>>>" ++ check (runes_of_ascii "`" ++ [28040; 24687; 31867; 22411]%N ++ runes_of_ascii "` '0' options")).
Eval vm_compute in ("<<<M1056>>>" ++ check (runes_of_ascii "packet A {
}
// c" ++ [6158]%N)).
Eval vm_compute in ("<<<M1226>>>" ++ check (runes_of_ascii "packet // c
x { }")).
Eval vm_compute in ("<<<M1528>>>" ++ check (runes_of_ascii "// @lengthOf(")).
Eval vm_compute in ("<<<M1010>>>" ++ check (runes_of_ascii "// c" ++ [8232]%N)).
Eval vm_compute in ("<<<M735>>>" ++ check ([0]%N)).
