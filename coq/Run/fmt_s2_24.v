From FP Require Import Lexer Parser ShowPT Digest Formatter.
From Coq Require Import String List NArith.
Import ListNotations.
Open Scope string_scope.
Set Printing Width 100000000.
Set Printing Depth 100000000.
Definition show_fres (r : fres) : string :=
  match r with
  | FOk s => "OK:" ++ sh_escaped s ""
  | FErr s => "ERR:" ++ sh_escaped s ""
  | FPanic p => "PANIC:" ++ p
  end.
Definition check (rs : list rune) : string := digest (show_fres (format_res rs)).
Definition full (rs : list rune) : string := show_fres (format_res rs).
Eval vm_compute in ("<<<M3718>>>" ++ check (runes_of_ascii "
packet o{  i64
Packet `
`

,
} root packet  falsey  { i8
zchar	@lengthOf(
i64_ )
// trailing space 
    , @tag( 
255

) 
char[ 
10
    ]	// c
      i64_ @calculatedFrom( ""\n"" ) `u8 x,`, @leftPad
	(
' ' ) i64
	uint8x,repeat
	u8x
	{	// " ++ [27880; 37322]%N ++ runes_of_ascii "
    rootA {  MetaDataX
@lengthOf( 	 // `tick` ""quote"" 'q'
  trueish )  , 
T  @lengthOf( f32a) 
,
// a // b
		repeat
	stringy ,
    }
,pack

    @calculatedFrom(
""it's""
)

    , i16

    metadata`u8 x,` ,

repeat int  ,

}

    ,  
  // @lengthOf(
	} packet 
// " ++ [128512]%N ++ runes_of_ascii " emoji
  body {leftPad
{match	u8x
as 
i64_ { 	 // @lengthOf(

[
    007
,
    0

] :
	a1 
,  [
    42
    ]	:
	A,}	,
    match x	as
Z9_
    {	007
    :
    MetaDataX ,
0
//	t
:leftPad ,
""" ++ [128512]%N ++ runes_of_ascii """
:MetaDataX  ,""abc"" 
:
    uint8x , 007:trueish, 

// c

}

    ,

}

,
    zchar @calculatedFrom(

""// no comment""	)
, trueish @lengthOf( u
    )	`line1
line2`

    ,
@calculatedFrom(

    ""abc""  )  char[]
    /// triple

  len/// triple
    `tab	here` ,

    float64
	zchar  `line1
line2`,  match
i64_ //
	as body

{

    [  // @lengthOf(
      0123456789 

    // c
]
:  float 10

    :
Foo,  [
""CRC32""] :
    Foo""x y""	: 
metadata
    , [
    10

    ,255

    ,	""abc"" , 0123456789	,	//x
  0
,
1 ,	7

]  : f32a
    ,	}  ,@calculatedFrom(
    ""{,}""
    )
@lengthOf(
len // a // b

)match
x_y_z

as
uint8x
{

    ""\" ++ [233]%N ++ runes_of_ascii """

:T	,

}
,  o @lengthOf(	// trailing space 
body

)  , u64  //
  o @calculatedFrom(  ""a	b""
)	// c
  `say ""hi""`,  repeat
    string

    Header ,
}
packet

    zchar

{ 
    // `tick` ""quote"" 'q'
		// packet A { u8 x, }
	@rightPad
    (  // " ++ [27880; 37322]%N ++ runes_of_ascii "
    '0' 
    //	t
/// triple
) 
repeat 
zchar[ 3
    ] o

`doc` 
,

    zchar[ 
    // packet A { u8 x, }
	  4294967296
    ] 
x_y_z  ,

    @calculatedFrom(  ""{,}"" 
    /// triple
      )
@calculatedFrom( """ ++ [28040; 24687]%N ++ runes_of_ascii """

    )
	float32

    A 
@lengthOf(

Pad ), @tag( 7 )
// `tick` ""quote"" 'q'

  Packet @calculatedFrom(
	""// no comment""
    ) , zchar[

    10
	]
asx 
    // " ++ [27880; 37322]%N ++ runes_of_ascii "
      ``/// triple
		,	tag
    len `tab	here` ,  }

")).
Eval vm_compute in ("<<<M3532>>>" ++ check (runes_of_ascii "// top
options // c0
{
    // c1
LittleEndian = // c3a
  // c3b
true // c4a
  // c4b
;
    // c5
FixedStringPadFromLeft // c6
= true ;
    // c9
FixedStringPadChar = // c11a
  // c11b
'0'
    // c12
; // c13
} // c14
packet
    // c15
Trade // c16a
  // c16b
{ // c17
string // c18
clOrdID
    // c19
, // c20a
  // c20b
char[] // c21a
  // c21b
Px // c22
,
    // c23
u32 // c24
x // c25
, // c26
}
    // c27
packet // c28a
  // c28b
Reject // c29
{
    // c30
int32 // c31a
  // c31b
Side2 ,
    // c33
repeat // c34a
  // c34b
char[
    // c35
3 ] // c37
clOrdID // c38
,
    // c39
i32
    // c40
tag7
    // c41
,
    // c42
} // c43
packet // c44a
  // c44b
Leg // c45a
  // c45b
{ // c46a
  // c46b
}
    // c47
root // c48
packet // c49
Quote // c50
{ string // c52
Side2 // c53
, // c54
string lastPx , // c57a
  // c57b
InSym58 // c58a
  // c58b
{ // c59a
  // c59b
int16
    // c60
OrderId
    // c61
, // c62a
  // c62b
Reject // c63a
  // c63b
, // c64a
  // c64b
i8 // c65
Qty , // c67
i64 // c68
venue // c69
, // c70
f32 // c71
Note ,
    // c73
} // c74a
  // c74b
, // c75
char[] // c76
count // c77a
  // c77b
, // c78a
  // c78b
zchar[
    // c79
9 ] // c81
price
    // c82
, // c83a
  // c83b
u16 // c84a
  // c84b
Qty
    // c85
, match // c87
Qty // c88a
  // c88b
as
    // c89
Body
    // c90
{ // c91a
  // c91b
69 // c92a
  // c92b
: // c93a
  // c93b
Leg // c94a
  // c94b
,
    // c95
48
    // c96
:
    // c97
Trade // c98a
  // c98b
, // c99a
  // c99b
51
    // c100
: // c101
Reject
    // c102
,
    // c103
}
    // c104
, // c105
u16 Acct // c107a
  // c107b
@calculatedFrom( ""CRC32""
    // c109
) // c110
,
    // c111
} // c112a
  // c112b
")).
Eval vm_compute in ("<<<M1387>>>" ++ check (runes_of_ascii "
MetaData x { string_ x
    `tab	here`,}
packet
u { @tag(
1 ) match x
as
    Z9_
{
""a\""b"" : asx
    } , // " ++ [128512]%N ++ runes_of_ascii " emoji
leftPad @calculatedFrom(
    ""it's"" ) `" ++ [28040; 24687; 31867; 22411]%N ++ runes_of_ascii "` ,//	t
@tag(10 ) Packet ,
u64
//x
// a // b
stringy @calculatedFrom( ""1"" )  `doc`
    , char[ 3 ]// " ++ [128512]%N ++ runes_of_ascii " emoji
x_y_z @lengthOf( lengthOf
)	`" ++ [28040; 24687; 31867; 22411]%N ++ runes_of_ascii "` , } root packet Pad
{ int8
Header @calculatedFrom(
""1""  ) `u8 x,` ,
@calculatedFrom(
    """ ++ [128512]%N ++ runes_of_ascii """// packet A { u8 x, }
) int64 BodyLength
`u8 x,`
, @leftPad
    ( ' '
    // a // b
    )
char[]
float ,@lengthOf(//x
repeatCount ) char[] repeatCount, } packet falsey
//
// `tick` ""quote"" 'q'
{@calculatedFrom( """ ++ [28040; 24687]%N ++ runes_of_ascii """) @rightPad ( )@leftPad // c
( '\x00' )	zchar[3]
i8i8 `tab	here`
,
    }
//x
// packet A { u8 x, }
packet
zchar
    { Header
@calculatedFrom(
    ""a\\"" ) , // a // b
msg_type``
,  @calculatedFrom( """ ++ [28040; 24687]%N ++ runes_of_ascii """)  Logon
    zchar	,i32 u128 @calculatedFrom(""packet"")
// packet A { u8 x, }
/// triple
,
// `tick` ""quote"" 'q'
// c
u8 _x
    `
` ,
@leftPad ( '0'
) uint16 asx `a\` ,@calculatedFrom( ""\n"" )
@calculatedFrom( ""a	b""	)
    float64
    leftPad @lengthOf(
    // c
    repeatCount
/// triple
//
) `it's` , match metadata
as
options1 { [  42, 1	]// `tick` ""quote"" 'q'
: BodyLength""`tick`""
    :_x ,
    65535
: asx, 65535
    : BodyLength ""a\\"" :
    //
    string_ } ,match
/// triple
//
uint8x as
chars
{ 10 :/// triple
Logon
""// no comment"": float , /// triple
[ ""packet""	,  7
] :MetaDataX
    10
:asx
    , """ ++ [28040; 24687]%N ++ runes_of_ascii """ :
i64_ ,} ,  }")).
Eval vm_compute in ("<<<M938>>>" ++ check (runes_of_ascii "root packet
    options1{ repeat u { f64 roots// @lengthOf(
, },
    zchar falsey `crlf
line`// `tick` ""quote"" 'q'
,
    match
u
    as Foo
{ 42
: lengthOf
    , ""\n"" : crc,
[
4294967296 // c
,// trailing space 
4294967296
    , 3 ,
""\" ++ [233]%N ++ runes_of_ascii """	,
// " ++ [128512]%N ++ runes_of_ascii " emoji
//x
""x y"" ]:	o ,}  ,
    a1`crlf
line`, @rightPad(
// " ++ [128512]%N ++ runes_of_ascii " emoji
//
) char[ 0123456789 // " ++ [128512]%N ++ runes_of_ascii " emoji
] //
x_y_z  `line1
line2`
, @lengthOf(trueish ) i32 A// packet A { u8 x, }
`u8 x,` ,}
packet packetx	{ // " ++ [128512]%N ++ runes_of_ascii " emoji
match	u as
u8x
    {// " ++ [27880; 37322]%N ++ runes_of_ascii "
255 :
lengthOf	,	[ """ ++ [233]%N ++ runes_of_ascii "t" ++ [233]%N ++ runes_of_ascii """, 7
    ,00	, // packet A { u8 x, }
""a\\"", 10 ,0 ,
    007 ,  3
    // c
    ]
: string_ 0123456789: f32a // " ++ [128512]%N ++ runes_of_ascii " emoji
,
}	, // trailing space 
stringy@calculatedFrom( ""\" ++ [233]%N ++ runes_of_ascii """
)`line1
line2`
    //x
    , @leftPad
    (
) zchar[
10 ] trueish , // packet A { u8 x, }
}root packet Logon {
i64_
@lengthOf( int )`// not a comment` , @tag(3) match lengthOf as pack
{
42 // `tick` ""quote"" 'q'
:
    T, 255
    : int
    , 007 : tag // " ++ [128512]%N ++ runes_of_ascii " emoji
,4294967296 : _x, }
, @calculatedFrom( ""packet"" ) @tag( 10
// @lengthOf(
// a // b
) @tag(65535 )
zchar[ 65535
] roots ,
    @rightPad ( // `tick` ""quote"" 'q'
' '
) @tag(
7)
    // @lengthOf(
    string
Packet @lengthOf(
    u	)  `tab	here` // trailing space 
,
    }
packet metadata {} root packet x {}
")).
Eval vm_compute in ("<<<M107>>>" ++ check (runes_of_ascii "packet chars
{
    i8 Z9_ ,
match
// " ++ [128512]%N ++ runes_of_ascii " emoji
//	t
zchar
    as Logon
{ 00	: i8i8[
    ""// no comment""
, 42
    , 10 , ""it's"" , 4294967296
, ""`tick`"" ,
    ""x y"" , ""a\""b"" ]
    :leftPad [ ""\" ++ [233]%N ++ runes_of_ascii """ ]: A [ ""abc"" /// triple
, ""1""
    ] :
zchar ,	3 :
x,
    3 :
x_y_z , }
    , uint8x // a // b
@calculatedFrom(
    ""{,}"" )//x
, } // `tick` ""quote"" 'q'
packet calculatedFrom { int32
T, @lengthOf( float ) f32a len , @calculatedFrom(""" ++ [233]%N ++ runes_of_ascii "t" ++ [233]%N ++ runes_of_ascii """
    ) int32 f32a
@lengthOf( // c
matchKey
) `" ++ [233]%N ++ runes_of_ascii "`
, charz @calculatedFrom( ""x y""),} root packet stringy //	t
{ @lengthOf( Logon )
int64 len
    //x
    @calculatedFrom( // `tick` ""quote"" 'q'
""CRC32"") , T // " ++ [27880; 37322]%N ++ runes_of_ascii "
@calculatedFrom( ""1"" ) `line1
line2`, @tag( 255 )
    @tag( 7 )@tag(
007
)repeat
packetx len
//	t
// packet A { u8 x, }
, @tag(
1 ) repeat  zchar[
0] float , //
@lengthOf(
    lengthOf ) repeat x_y_z {char[ 10]u `
`
    , MetaDataX a1
    `u8 x,`  , }  , @tag( 1 ) string repeatCount `" ++ [28040; 24687; 31867; 22411]%N ++ runes_of_ascii "`,
int8 int @calculatedFrom(
""// no comment""
) , } packet
    asx
{
    @leftPad ( '\x00' )
char[
    00]
u8x @calculatedFrom( """ ++ [233]%N ++ runes_of_ascii "t" ++ [233]%N ++ runes_of_ascii """ ) , zchar[007 ] asx @calculatedFrom(
""" ++ [128512]%N ++ runes_of_ascii """)	,repeat MetaDataX metadata
    `
`,
    } 	 ")).
Eval vm_compute in ("<<<M1403>>>" ++ check (runes_of_ascii "options {
	StringPrefixLenType = u16;
	ArrayPrefixLenType = u16;
}

packet SampleBinary {
	uint16 MsgType `" ++ [28040; 24687; 31867; 22411]%N ++ runes_of_ascii "`,
	u16 BodyLenght @lengthOf(Body) `" ++ [28040; 24687; 20307; 38271; 24230]%N ++ runes_of_ascii "`,
	match MsgType as Body {
		1 : Logon,
		2 : Logout,
		3 : Heartbeat,
		4 : RiskControlRequest,
		5 : RiskControlResponse,
	},
		@calculatedFrom(""CRC32"")
	u32 Ckecksum `" ++ [26657; 39564; 21644]%N ++ runes_of_ascii "`,
}

packet Logon {
	 @leftPad('0')
	char[10] UserName `" ++ [29992; 25143; 21517]%N ++ runes_of_ascii "`,
	string Password `" ++ [23494; 30721]%N ++ runes_of_ascii "`,
	uint64 ClientId `" ++ [23458; 25143; 31471]%N ++ runes_of_ascii "ID`,
	u16 HeartbeatInterval `" ++ [24515; 36339; 38388; 38548]%N ++ runes_of_ascii "`,
}

packet Logout {
	  @rightPad('0')
	char[10] UserName `" ++ [29992; 25143; 21517]%N ++ runes_of_ascii "`,
	uint64 ClientId `" ++ [23458; 25143; 31471]%N ++ runes_of_ascii "ID`,
}

packet Heartbeat {
}

packet RiskControlRequest {
	string UniqueOrderId `" ++ [21807; 19968; 35746; 21333; 21495]%N ++ runes_of_ascii "`,
	char[16] ClOrdID `" ++ [23458; 25143; 35746; 21333; 21495]%N ++ runes_of_ascii "`,
	char[3] MarketID `" ++ [24066; 22330]%N ++ runes_of_ascii "id`,
	char[12] SecurityID `" ++ [35777; 21048; 20195; 30721]%N ++ runes_of_ascii "`,
	char Side `" ++ [20080; 21334; 26041; 21521]%N ++ runes_of_ascii "`,
	char OrderType `" ++ [35746; 21333; 31867; 22411]%N ++ runes_of_ascii "`,
	u64 Price `" ++ [20215; 26684]%N ++ runes_of_ascii "`,
	u32 Qty `" ++ [25968; 37327]%N ++ runes_of_ascii "`,
	repeat string ExtraInfo `" ++ [38468; 21152; 20449; 24687]%N ++ runes_of_ascii "`,
	repeat SubOrder {
			char[16] ClOrdID `" ++ [23376; 35746; 21333; 21495]%N ++ runes_of_ascii "`,
			u64 Price `" ++ [23376; 35746; 21333; 20215; 26684]%N ++ runes_of_ascii "`,
			u32 Qty `" ++ [23376; 35746; 21333; 25968; 37327]%N ++ runes_of_ascii "`,
		},
}

packet RiskControlResponse {
	string UniqueOrderId `" ++ [21807; 19968; 35746; 21333; 21495]%N ++ runes_of_ascii "`,
	i32 Status `" ++ [29366; 24577]%N ++ runes_of_ascii "`,
	string Msg `" ++ [32467; 26524; 20449; 24687]%N ++ runes_of_ascii "`,
	repeat Detail,
}

packet Detail {
	string RuleName `" ++ [35268; 21017; 21517; 31216]%N ++ runes_of_ascii "`,
	u16 Code `" ++ [21407; 22240; 20195; 30721]%N ++ runes_of_ascii "`,
}")).
Eval vm_compute in ("<<<M4295>>>" ++ check (runes_of_ascii "  packet	lengthOf
    { crc @calculatedFrom(	"""")
`two words`
, @lengthOf(
	crc) 

// c
@calculatedFrom( ""x y"" ) u16
    Logon
`line1
line2`, }	MetaData

u128
    { }
packet
len
	{

    match
options1 
as  pack	{

    00
: BodyLength

    ,}, @calculatedFrom( ""a	b"") asx Z9_ `` ,
@rightPad ( )	u32
calculatedFrom @lengthOf( 
asx
    )	`doc` , @calculatedFrom(
    """ ++ [28040; 24687]%N ++ runes_of_ascii """)
uint8x

    , repeat

    zchar[ // " ++ [128512]%N ++ runes_of_ascii " emoji
	  007  ]u128 , stringy{  repeat

    zchar[
    3

]
	A
    ,repeat

i64 o  /// triple
    ``
,
    f32// @lengthOf(

packetx @calculatedFrom(  ""\" ++ [233]%N ++ runes_of_ascii """ 
) 
,packetx

    charz  , } ,
    match  int as  Z9_
    {
""a\\""
:
crc  
  // " ++ [128512]%N ++ runes_of_ascii " emoji

  // " ++ [128512]%N ++ runes_of_ascii " emoji
  ,

    """" 
/// triple
	:
    trueish  , [00
,
""\" ++ [233]%N ++ runes_of_ascii """
, 4294967296
] :Packet
,}	, 
    /// triple
  // packet A { u8 x, }
u8
        // packet A { u8 x, }
	/// triple
  msg_type
    // @lengthOf(
		//

	@lengthOf( i64_ )
,	}  root
    packet
	A { BodyLength @lengthOf(

    stringy
)

, rootA 
As,repeat 
BodyLength	options1
`a\`	,	}")).
Eval vm_compute in ("<<<M4421>>>" ++ check (runes_of_ascii "packet rootA {
    @calculatedFrom(""// no comment"")
    repeat roots `tab	here`,
    u8x len,
    u8x ``,
    @lengthOf(o)
    @tag(0)
    repeat char[] options1,
    int32 o `" ++ [233]%N ++ runes_of_ascii "`,
    @tag(00)
    uint16 int,
}

packet BodyLength {
    @tag(4294967296)
    repeat zchar[1] Z9_,
    uint32 leftPad @calculatedFrom(""" ++ [28040; 24687]%N ++ runes_of_ascii """),
    i8 f32a,
    repeat u8 lengthOf,
    Header {
        leftPad,
        repeat stringy {
            msg_type @lengthOf(body) `crlf
            line`,
            repeat packetx `say ""hi""`,
            o,
        },
    },
    repeat int8 f32a `{ , }`,
    Z9_,
    body,
    match tag as zchar {
        10 : lengthOf,
        10 : i64_,
        65535 : len,
        1 : msg_type,
        ""\n"" : Foo,
        10 : zchar,
    },
    repeat lengthOf {
        // `tick` ""quote"" 'q'
        int64 lengthOf @calculatedFrom(""packet""),
        repeat calculatedFrom A,
        repeat char uint8x,
        As {
            stringy `it's`,
        },
    },
}")).
Eval vm_compute in ("<<<M749>>>" ++ check (runes_of_ascii "root packet chars	{ @tag( 1) zchar[ 0123456789
    ] MetaDataX,f32 Packet
//x
/// triple
, @rightPad // a // b
(	' ' ) repeat chars {o stringy	`crlf
line`
    , matchKey int ,},} packet
// trailing space 
//
uint8x {
match stringy  as
    len
{  ""CRC32"" : trueish // c
, [ 3 ,	42]  :
x_y_z	""CRC32"" : leftPad	,// " ++ [128512]%N ++ runes_of_ascii " emoji
[ 3
,
42, ""a\\"", ""1""	,""it's""	, 255 ,  ""CRC32""
,
    0123456789 ] // c
:
    uint8x ,
    //	t
    [ 42,// " ++ [128512]%N ++ runes_of_ascii " emoji
""a	b"" ,7 ,
    65535
    , 42 ,
"""",""""
    ]: x_y_z },
    repeat
    trueish
    { repeat As	`u8 x,`, } ,repeat chars `two words`
, @rightPad  ( '\x00' ) repeat
    f64 _x `" ++ [233]%N ++ runes_of_ascii "`  , repeat i16 //
u `say ""hi""` , // c
@lengthOf(
x
) i8i8{ match
options1	as a1 { 1 : u128 , }, }
    , string
    chars, repeat char[] Logon `it's` ,u8
float @lengthOf(
/// triple
// c
o ) `{ , }`,
@lengthOf(int	)@tag(	1)
asx
    // `tick` ""quote"" 'q'
    @calculatedFrom(""\" ++ [233]%N ++ runes_of_ascii """) , // `tick` ""quote"" 'q'
}
")).
Eval vm_compute in ("<<<M1132>>>" ++ check (runes_of_ascii "packet charz { zchar @lengthOf( body) , string
    BodyLength``
,
    float
`" ++ [233]%N ++ runes_of_ascii "` , @lengthOf( len ) @tag(
    255
)@calculatedFrom(	""{,}"" )a1 int `two words` //x
,
char[3 ] float @calculatedFrom( ""CRC32"" )  , repeat int32 stringy
, //
@tag( 3 )  @tag( 3
    ) a1
{ match chars as //x
roots {
""it's""  : o
    ""CRC32"" : stringy ,	0123456789 :Pad ,[
""a	b"" , """ ++ [128512]%N ++ runes_of_ascii """ ] :
body // c
, }, char[ /// triple
42	] u8x ,char[ 255
// " ++ [27880; 37322]%N ++ runes_of_ascii "
//	t
]
x_y_z
@calculatedFrom( ""packet""
    )
    ,
    match body
as BodyLength
    { 10
: zchar,007 :uint8x
, ""a\""b"" :
Header,
""x y"" :chars	007 : f32a //	t
,} ,
} , match
    T	as // trailing space 
stringy{
10 :float ,
    // trailing space 
    0
: string_ 10 : crc,
7 : chars ,7  : body ,	}
, repeat crc
`
` , } MetaData roots {	char[]  string_  `{ , }`,} root packet As {
    @rightPad	( ' ' ) i64 leftPad @calculatedFrom(  ""abc"" )	`doc` , char[]options1 ,}
")).
Eval vm_compute in ("<<<M974>>>" ++ check (runes_of_ascii "packet len { repeat char[ 0 ]
leftPad`{ , }` ,
@calculatedFrom( ""abc"" )  zchar[	65535
    ]Z9_ @lengthOf( tag)
`tab	here` , match
u128 as packetx { [ ""it's"" ,
""\" ++ [233]%N ++ runes_of_ascii """
    ]:o , ""\n""
:
    int  ""a\""b"" // a // b
: As,
""{,}"" : chars
42 : T""1"" : packetx /// triple
,}, x Pad
    , int8 Pad
`a\` ,
chars a1
    , char[ 0 ]
Z9_@calculatedFrom( ""// no comment"" )
    `" ++ [28040; 24687; 31867; 22411]%N ++ runes_of_ascii "`  ,  }
    packet x_y_z	{ repeat
    //	t
    stringy x_y_z , }root
packet charz { } // " ++ [128512]%N ++ runes_of_ascii " emoji
root packet	x{ _x msg_type
,@tag(
    0123456789
) i64  body
    `two words`
, @rightPad (
    // a // b
    '\x00'
    )
@lengthOf(charz)
//x
// @lengthOf(
zchar[
    0123456789 ] stringy,repeat Packet
    stringy , repeat A`tab	here` ,	@tag( 0)
match asx as Pad {	[
3,
""" ++ [233]%N ++ runes_of_ascii "t" ++ [233]%N ++ runes_of_ascii """ , ""\n"" ,"""",
    1
, 1
]: Packet 42
    // c
    : roots //	t
},} options	{float
    = true ;	} /// triple")).
Eval vm_compute in ("<<<M759>>>" ++ check (runes_of_ascii "// @lengthOf(
MetaData
uint8x{ char[	42
] packetx
    ,} packet
len {
}MetaData	Logon
{
    matchKey u128 `
`
,
    string
MetaDataX`" ++ [233]%N ++ runes_of_ascii "` , }	MetaData
//
//	t
rootA {
u32 i8i8 , }
root packet i64_// `tick` ""quote"" 'q'
{ u32
    calculatedFrom
// trailing space 
/// triple
,	@tag(10)@rightPad
    ( ) @leftPad(
' ' ) uint16
// c
// " ++ [128512]%N ++ runes_of_ascii " emoji
rootA ,
@lengthOf(
    //x
    Pad
)
    pack @calculatedFrom(	""x y"") `it's`
    , uint8 matchKey ,@tag(
1 // " ++ [128512]%N ++ runes_of_ascii " emoji
) match Pad as  calculatedFrom
    {
[ ""\n"" ,
7,  1 , """ ++ [233]%N ++ runes_of_ascii "t" ++ [233]%N ++ runes_of_ascii """ ] :len
    00:Packet, } ,@lengthOf( string_
    // @lengthOf(
    )match matchKey as MetaDataX {
[ ""`tick`""
, 42 ,
""x y"" ,
""" ++ [233]%N ++ runes_of_ascii "t" ++ [233]%N ++ runes_of_ascii """ ,
4294967296 ]
    : o // packet A { u8 x, }
,
}
    , uint8
charz
    @calculatedFrom( ""a	b"") ,
    @calculatedFrom( ""a\""b"") repeat
    u8x {pack , } ,
}
")).
Eval vm_compute in ("<<<M85>>>" ++ check (runes_of_ascii "packet chars
{}// c
packet
len
{
    repeat char[] Foo
, @rightPad ('0' ) zchar[ 007 ]/// triple
a1`say ""hi""` , repeat BodyLength  leftPad ,}
root	packet u8x { f64 lengthOf
    @calculatedFrom(
""CRC32""	)
    ,
    string
zchar @lengthOf( int)
    `crlf
line` , int calculatedFrom , @lengthOf(As ) match falsey as asx {
65535: _x
    [ 1 ] :
    u 007:	uint8x
00:	f32a
, """ ++ [233]%N ++ runes_of_ascii "t" ++ [233]%N ++ runes_of_ascii """ :	Packet ,[ 42 ,""a\""b"" ] : len
    //x
    , } , @lengthOf(stringy
    // " ++ [128512]%N ++ runes_of_ascii " emoji
    )@calculatedFrom(  ""1"" )repeat A { char[]lengthOf  `it's` , }
, _x `" ++ [28040; 24687; 31867; 22411]%N ++ runes_of_ascii "` ,
    @leftPad ('0'
    ) match Foo as
crc {10 :
    trueish
// " ++ [27880; 37322]%N ++ runes_of_ascii "
//
, 42
:// " ++ [128512]%N ++ runes_of_ascii " emoji
Pad
, [4294967296
,  ""// no comment"" , ""{,}"" ]:
float
    ,  } , @lengthOf( u8x ) a1
// c
// trailing space 
@calculatedFrom( ""\" ++ [233]%N ++ runes_of_ascii """ ) // c
,} 	 ")).
Eval vm_compute in ("<<<M0>>>" ++ check (runes_of_ascii "packet body{ @tag( 0123456789 )repeatCount { // @lengthOf(
i32
roots	@calculatedFrom( ""it's""
    )
    // trailing space 
    ,
    char[]repeatCount @calculatedFrom(
""packet"" ) `two words` // " ++ [128512]%N ++ runes_of_ascii " emoji
,repeat u16 roots , match lengthOf as As //	t
{ [ ""packet"" ,""" ++ [28040; 24687]%N ++ runes_of_ascii """,	255
, 42 ,""\" ++ [233]%N ++ runes_of_ascii """ ] : x_y_z ,
    } , } , trueish ,@tag( 65535 )
@tag( 255  ) /// triple
@tag(00) chars @calculatedFrom(""it's"" ) ,	match o as
    // `tick` ""quote"" 'q'
    roots {
// " ++ [27880; 37322]%N ++ runes_of_ascii "
// c
""{,}""
: options1 , """ ++ [28040; 24687]%N ++ runes_of_ascii """
    :	lengthOf	, 00: pack  ,[ ""a\""b"" ] :
    msg_type ,1 : i8i8
, [ 10  , 3 ,"""" ] : falsey ,} , }
root packet// `tick` ""quote"" 'q'
Z9_ {repeat char[] // a // b
Packet	, string chars@calculatedFrom( ""a\""b"" )
`// not a comment`
    // " ++ [128512]%N ++ runes_of_ascii " emoji
    ,	}
")).
Eval vm_compute in ("<<<M2>>>" ++ check (runes_of_ascii "
packet int{ len	T , }MetaData trueish { // packet A { u8 x, }
}
    packet BodyLength { @calculatedFrom( ""packet"" )
@calculatedFrom(
    ""CRC32"" )
    // c
    @tag(
00 ) char[ 4294967296 ] stringy, @lengthOf(
leftPad
)// c
char zchar ,@lengthOf( MetaDataX	)@tag(10) // " ++ [128512]%N ++ runes_of_ascii " emoji
@rightPad ( '0') options1 matchKey//
`{ , }`
    // packet A { u8 x, }
    , @tag( 42
    ) @tag( 1 ) @tag( 10
) char[] // c
stringy
`doc` , msg_type `" ++ [233]%N ++ runes_of_ascii "` ,
@lengthOf(trueish )body {	repeat o stringy `crlf
line` , repeat u32 i8i8 ,
    char[65535] stringy
`a\` ,
    //x
    }
    ,
@calculatedFrom(""packet""	) matchKey/// triple
, @tag( 4294967296 ) uint32 rootA @lengthOf( trueish ) ,string body `u8 x,` , }")).
Eval vm_compute in ("<<<M28>>>" ++ check (runes_of_ascii "root
// c
// packet A { u8 x, }
packet
    // packet A { u8 x, }
    f32a {@rightPad ()// packet A { u8 x, }
options1 ,uint64
    MetaDataX ,
x_y_z `two words` ,
// packet A { u8 x, }
// trailing space 
i8i8
    `" ++ [28040; 24687; 31867; 22411]%N ++ runes_of_ascii "` ,int16 f32a@lengthOf( zchar	) ,}
//x
//x
root
    packet u8x { @rightPad	(
' ' ) repeat a1
    { repeat string_ stringy  ,
    } , stringy// `tick` ""quote"" 'q'
a1
`// not a comment` ,
@tag(	4294967296 ) float64 o, @lengthOf(a1 )
repeat string_ {
    // `tick` ""quote"" 'q'
    match BodyLength// trailing space 
as int {65535:u
, } , pack
    options1`a\` ,
repeat lengthOf	matchKey , }
    , repeat
char[65535 ] BodyLength
    , }
")).
Eval vm_compute in ("<<<M3543>>>" ++ check (runes_of_ascii "packet Sub // c1a
  // c1b
{
    // c2
u8 // c3
a
    // c4
, // c5a
  // c5b
u32
    // c6
SubSum // c7a
  // c7b
@calculatedFrom( // c8a
  // c8b
""CRC16"" ) // c10a
  // c10b
, } // c12a
  // c12b
root
    // c13
packet // c14
Frame // c15
{ // c16a
  // c16b
u16
    // c17
MsgType // c18
, u16 BodyLen @lengthOf( // c22
Body // c23
)
    // c24
, // c25
Sub
    // c26
Body // c27a
  // c27b
, // c28a
  // c28b
string
    // c29
note , u32 Checksum // c33a
  // c33b
@calculatedFrom( // c34a
  // c34b
""CRC16"" ) // c36a
  // c36b
, // c37a
  // c37b
u8
    // c38
tail // c39a
  // c39b
,
    // c40
} // c41a
  // c41b
")).
Eval vm_compute in ("<<<M1278>>>" ++ check (runes_of_ascii "MetaData
o
{
uint8 asx ,// " ++ [27880; 37322]%N ++ runes_of_ascii "
}
MetaData _x { A Z9_
`a\` , } packet string_
{ repeat
x_y_z f32a,
charz
//x
// " ++ [27880; 37322]%N ++ runes_of_ascii "
{ msg_type @lengthOf( A
)
    ,} ,
uint16
stringy, @calculatedFrom(
""" ++ [233]%N ++ runes_of_ascii "t" ++ [233]%N ++ runes_of_ascii """)	leftPad msg_type , @tag(
7 ) @calculatedFrom(
    //	t
    """ ++ [28040; 24687]%N ++ runes_of_ascii """)
    i64_ , repeat trueish
x	`doc`  ,uint16 metadata//	t
@lengthOf(
i8i8 )`tab	here` ,repeat tag Logon , repeat repeatCount metadata
`` // a // b
, // trailing space 
} packet roots
{
repeat x_y_z  {
    // `tick` ""quote"" 'q'
    char[4294967296] stringy`line1
line2`
,uint16
    body
    , }, @leftPad (' ')
    MetaDataX
stringy
,}
")).
Eval vm_compute in ("<<<M4345>>>" ++ check (runes_of_ascii "MetaData Header {
}

root packet chars {
    char[00] MetaDataX `u8 x,`,
    repeat Foo stringy,
    @lengthOf(u8x)
    char[] Foo,
    match Header as leftPad {
        [255, ""abc"", """ ++ [128512]%N ++ runes_of_ascii """, """"] : charz,
        007 : uint8x,
        0 : asx,
        """" : MetaDataX,
    },
    char[] uint8x,
    @tag(1)
    i8i8 {
        x Packet `doc`,
        zchar[4294967296] metadata @calculatedFrom(""a\\"") `" ++ [233]%N ++ runes_of_ascii "`,
        zchar[10] crc @lengthOf(Foo) `crlf
        line`,
    },
}

MetaData msg_type {
    char[] calculatedFrom `line1
    line2`,
}// `tick` ""quote"" 'q'")).
Eval vm_compute in ("<<<M3855>>>" ++ check (runes_of_ascii "  packet
	x
    {

repeat	float32 Foo`{ , }`,float64

    i8i8  ,
	@lengthOf( chars 
  // @lengthOf(
  ) @tag(

    65535 
)
    // @lengthOf(
	string_  ,

@leftPad (	'0') repeat
    A

charz 
, } 
root packet
Header

    { 
@calculatedFrom(

    ""// no comment""  ) 
repeat metadata
	{ repeat

u64 o 	 // c

,
    T

    ``  //	t
	, 
}
	, 
}	MetaData
	A

{ zchar[	// a // b

4294967296 ]
asx	,
	int8 
pack ,
char[
//
  65535 ]
    Packet
	, 
uint8
lengthOf
`" ++ [28040; 24687; 31867; 22411]%N ++ runes_of_ascii "` ,
	char[

10  // @lengthOf(
  ]i64_ `" ++ [233]%N ++ runes_of_ascii "`,

    }
")).
Eval vm_compute in ("<<<M232>>>" ++ check (runes_of_ascii "packet
    string_ { match charz as  len {
7 : Pad
    // @lengthOf(
    } ,
    match //	t
i64_ as string_ { // @lengthOf(
007:float [0 ]:Packet
// `tick` ""quote"" 'q'
//
, 10 : leftPad
,
}
,
char[]
// trailing space 
// @lengthOf(
roots, char[ 3 ] Header `it's` ,
options1 @calculatedFrom( ""packet"" )`" ++ [233]%N ++ runes_of_ascii "`
,
BodyLength
// @lengthOf(
//x
, repeat char[	65535 // " ++ [27880; 37322]%N ++ runes_of_ascii "
]  body , char[ 42 ]
// a // b
// " ++ [128512]%N ++ runes_of_ascii " emoji
Packet// packet A { u8 x, }
`" ++ [233]%N ++ runes_of_ascii "`  , repeat/// triple
f64 float	`it's`, packetx
matchKey , }
")).
Eval vm_compute in ("<<<M4266>>>" ++ check (runes_of_ascii "packet i64_ {
}

packet crc {
}

options {
}

root packet charz {
}

packet trueish {
    repeat char[255] lengthOf `" ++ [28040; 24687; 31867; 22411]%N ++ runes_of_ascii "`,
    zchar[00] x `it's`,/// triple
    repeat char[] Packet `say ""hi""`,
    @calculatedFrom(""x y"")
    char[1] lengthOf,
    lengthOf `crlf
    line`,
    match charz as MetaDataX {
        ""a	b"" : uint8x,
        ""\n"" : calculatedFrom,
    },
    @tag(10)
    float64 i8i8 @calculatedFrom(""" ++ [128512]%N ++ runes_of_ascii """) `say ""hi""`,
    @rightPad('\x00')
    i32 Foo `it's`,
}")).
Eval vm_compute in ("<<<M476>>>" ++ check (runes_of_ascii "options
    { chars =
'\x00'
metadata = true ; x_y_z =string;
    // trailing space 
    } packet
Logon{ repeat char[ 10 ] packetx `" ++ [28040; 24687; 31867; 22411]%N ++ runes_of_ascii "` ,}
options
{	stringy
= 4294967296 As  = ""x y""
    // " ++ [27880; 37322]%N ++ runes_of_ascii "
    ; f32a=
    ' ' ; }packet chars{	@calculatedFrom(
""x y"") packetx @calculatedFrom(
    """ ++ [128512]%N ++ runes_of_ascii """ )// a // b
,  i8i8 @lengthOf(
// trailing space 
// a // b
u
// " ++ [128512]%N ++ runes_of_ascii " emoji
/// triple
) , @rightPad( ' '
) @lengthOf(
    msg_type) @lengthOf( Z9_
    )T stringy , }
")).
Eval vm_compute in ("<<<M4347>>>" ++ check (runes_of_ascii "options {
}// " ++ [27880; 37322]%N ++ runes_of_ascii "

root packet leftPad {
    match T as u8x {
        // trailing space 
        4294967296 : Logon,
        ""1"" : i8i8,
        0123456789 : tag,
        ""a\""b"" : options1,
        4294967296 : T,
    },
    repeat matchKey {
        repeat string rootA,
        repeat int64 zchar `
        `,
    },
    i32 x_y_z,
    zchar[007] packetx `it's`,
    // a // b
    // `tick` ""quote"" 'q'
    repeat zchar[255] falsey,
}// " ++ [27880; 37322]%N)).
Eval vm_compute in ("<<<M716>>>" ++ check (runes_of_ascii "
root packet Z9_ { asx
// trailing space 
//
@lengthOf(u8x  )
    `crlf
line`
    , i16 trueish `tab	here`  , i8 metadata , @calculatedFrom(
""// no comment"" // a // b
) Z9_ `tab	here`
, @calculatedFrom( """" )	A x
    ,
    Logon Foo ,
    repeat  zchar[	3
]// `tick` ""quote"" 'q'
pack , } MetaData u8x {} packet x_y_z
    {
    @rightPad ( ' ')
    repeat
    crc  asx /// triple
, // " ++ [128512]%N ++ runes_of_ascii " emoji
}
    options {
body =
u32 ; }")).
Eval vm_compute in ("<<<M1348>>>" ++ check (runes_of_ascii "MetaData
asx {
    //x
    } packet falsey { @tag( 00 ) char[
1 ] options1`crlf
line`, // `tick` ""quote"" 'q'
@tag( 3
) asx {
    Header @lengthOf( pack )
    `say ""hi""` ,	match Pad as calculatedFrom
    // " ++ [27880; 37322]%N ++ runes_of_ascii "
    { ""{,}"" : string_[""x y"",	007 ]
    :
    msg_type ,
    ""abc"" : string_ ,
[
// c
/// triple
42 , 1, ""// no comment"" , ""\" ++ [233]%N ++ runes_of_ascii """ ,
""`tick`"", ""`tick`"" , ""a\""b""] : Packet ,
    255 :options1},
} , }
")).
Eval vm_compute in ("<<<M361>>>" ++ check (runes_of_ascii "// c
packet float// `tick` ""quote"" 'q'
{ match tag
as	x // " ++ [128512]%N ++ runes_of_ascii " emoji
{
""\n"" :
    // a // b
    A ,
} , @lengthOf(
    o ) A  , char[ 4294967296 ] o @lengthOf( // packet A { u8 x, }
a1 ) , }	packet x {
    char[
3 ] BodyLength
, }
packet Header { @lengthOf( stringy )
@tag(42	)@calculatedFrom(""1"" ) zchar[ 0123456789 ] As
@lengthOf(
    // a // b
    packetx ) `// not a comment` , } //	t")).
Eval vm_compute in ("<<<M3947>>>" ++ check (runes_of_ascii "root packet Packet {
    @calculatedFrom(""packet"")
    char[] Packet,
    match crc as T {
        255 : A,
    },
    /// triple
    // `tick` ""quote"" 'q'
    repeat x_y_z,
    x_y_z @calculatedFrom(""`tick`"") `a\`,
    @calculatedFrom(""" ++ [28040; 24687]%N ++ runes_of_ascii """)
    @lengthOf(Foo)
    match MetaDataX as T {
        0 : repeatCount,
    },
}

MetaData string_ {
    u64 x_y_z,
}

packet u {
}")).
Eval vm_compute in ("<<<M304>>>" ++ check (runes_of_ascii "
MetaData
a1 {
u128// @lengthOf(
As ,char[
4294967296] lengthOf ,
uint64 msg_type	, x_y_z f32a
, float32	o // " ++ [27880; 37322]%N ++ runes_of_ascii "
,	} options
// " ++ [27880; 37322]%N ++ runes_of_ascii "
// " ++ [128512]%N ++ runes_of_ascii " emoji
{
//x
// @lengthOf(
}MetaData string_
    {
}
packet roots {
repeat f32 As `" ++ [28040; 24687; 31867; 22411]%N ++ runes_of_ascii "` , } options {
    // " ++ [128512]%N ++ runes_of_ascii " emoji
    uint8x = ""a	b""Packet//
=42
;pack =
    10
    ;
    tag= string	; repeatCount = // " ++ [27880; 37322]%N ++ runes_of_ascii "
char[ 0	] ; }")).
Eval vm_compute in ("<<<M647>>>" ++ check (runes_of_ascii "//x
packet BodyLength { // a // b
@tag( 10 //x
) @calculatedFrom( ""1"" ) falsey
uint8x
,
repeat trueish// trailing space 
body ,	@leftPad ( '0' ) @calculatedFrom( """ ++ [28040; 24687]%N ++ runes_of_ascii """ )
@calculatedFrom(
""1""	) match falsey // packet A { u8 x, }
as	matchKey
{  ""x y"": As	, [ ""CRC32"" , 3]: Foo
, """":roots /// triple
,
} // " ++ [27880; 37322]%N ++ runes_of_ascii "
,string stringy
    `{ , }`
, }
")).
Eval vm_compute in ("<<<M3558>>>" ++ check (runes_of_ascii "
// top
options  // c0a
// c0b
  {LittleEndian = 	 // c3a
  // c3b

  true

    ; 	 // c5a
    	// c5b

}  // c6
  	root
	// c7
    	packet
	P
// c9

	{

    u16 
  // c11
    a ,

    u32  // c14a
  // c14b
    Sum
@calculatedFrom(  // c16a
    // c16b
    	""CRC32"" // c17

  )

,  // c19
    }// c20a
		// c20b
 
")).
Eval vm_compute in ("<<<M3852>>>" ++ check (runes_of_ascii "MetaData a1 {
    u128 As,
    char[4294967296] lengthOf,
    uint64 msg_type,
    x_y_z f32a,
    float32 o,
}

options {
}

MetaData string_ {
}

packet roots {
    repeat f32 As `" ++ [28040; 24687; 31867; 22411]%N ++ runes_of_ascii "`,
}

options {
    // " ++ [128512]%N ++ runes_of_ascii " emoji
    uint8x = ""a	b""
    Packet = 42;
    pack = 10;
    tag = string;
    repeatCount = char[0];
}")).
Eval vm_compute in ("<<<M1065>>>" ++ check (runes_of_ascii "packet// a // b
i64_
{ repeat int64 asx	`line1
line2`	, } options {
    // trailing space 
    chars=	255
; tag =
    // c
    3  ;
matchKey =0123456789 }
    MetaData
packetx {charz BodyLength ,//x
MetaDataX _x `two words` ,
MetaDataX BodyLength	, float32 f32a `line1
line2`, zchar[0 ]
    stringy, }
")).
Eval vm_compute in ("<<<M1462>>>" ++ check (runes_of_ascii "root packet Foo // " ++ [128512]%N ++ runes_of_ascii " emoji
{ } options {
    // a // b
    tag // `tick` ""quote"" 'q'
= //	t
""""
    char[] u8x = zchar[0  ] }
MetaData
    int {zchar[ 10]
lengthOf	`` , i64 u8x`// not a comment` ,MetaDataX pack// `tick` ""quote"" 'q'
`crlf
line`
, Logon charz `crlf
line`
    ,
    // a // b
    }
")).
Eval vm_compute in ("<<<M627>>>" ++ check (runes_of_ascii "packet Foo {asx {falsey
    ,  }
, @calculatedFrom(
// " ++ [128512]%N ++ runes_of_ascii " emoji
/// triple
""CRC32"" ) repeat char[ 007 ] rootA ,
A , repeat// packet A { u8 x, }
i8i8 pack
`two words`
// c
// a // b
,
} options {
    }packet uint8x // @lengthOf(
{ string Foo
@lengthOf( u
    ) `u8 x,`  ,  i32 BodyLength ,
}

")).
Eval vm_compute in ("<<<M1614>>>" ++ check (runes_of_ascii "root packet Foo // " ++ [128512]%N ++ runes_of_ascii " emoji
{ } options {
    // a // b
    tag // `tick` ""quote"" 'q'
= //	t
""""
    ; u8x = zchar[0  ] }
~MetaData
    int {zchar[ 10]
lengthOf	`` , i64 u8x`// not a comment` ,MetaDataX pack// `tick` ""quote"" 'q'
`crlf
line`
, Logon charz `crlf
line`
    ,
    // a // b
    }
")).
Eval vm_compute in ("<<<M1536>>>" ++ check (runes_of_ascii "root packet Foo // " ++ [128512]%N ++ runes_of_ascii " emoji
{ } options {
    // a // b
    tag // `tick` ""quote"" 'q'
= //	t
""""
    ; u8x = zchar[0  ] }
MetaData
    int {zchar[ 10]
lengthOf	`` i64 , u8x`// not a comment` ,MetaDataX pack// `tick` ""quote"" 'q'
`crlf
line`
, Logon charz `crlf
line`
    ,
    // a // b
    }
")).
Eval vm_compute in ("<<<M1554>>>" ++ check (runes_of_ascii "root packet Foo // " ++ [128512]%N ++ runes_of_ascii " emoji
{ } options {
    // a // b
    tag // `tick` ""quote"" 'q'
= //	t
""""
    ; u8x = zchar[0  ] }
MetaData
    int {zchar[ 10]
lengthOf	`` , i64 u8x`// not a comment` MetaDataX pack// `tick` ""quote"" 'q'
`crlf
line`
, Logon charz `crlf
line`
    ,
    // a // b
    }
")).
Eval vm_compute in ("<<<M3913>>>" ++ check (runes_of_ascii "options {
    calculatedFrom = i32;// @lengthOf(
    string_ = 7
    uint8x = true;
}

packet chars {
    string stringy @lengthOf(stringy),
}

options {
    lengthOf = '\x00'
    // c
    /// triple
    matchKey = '0';
    Z9_ = string;
    calculatedFrom = true;
    metadata = ""a	b"";
}")).
Eval vm_compute in ("<<<M3508>>>" ++ check (runes_of_ascii "options {
    LittleEndian = true;
    ArrayPrefixLenType = u64;
    FixedStringPadFromLeft = false;
}
packet Quote {
}
root packet Order {
    i64 Side2,
    Quote,
    u32 Px,
    match Px as Body {
        [119, 147] : Quote,
    },
    u16 Flags @calculatedFrom(""CR\
C32""),
}
")).
Eval vm_compute in ("<<<M4287>>>" ++ check (runes_of_ascii "  packet
falsey
    {
    }
MetaData
	x

    {

    body

len  // @lengthOf(
	,
lengthOf trueish	`two words`
	, zchar[// packet A { u8 x, }
	65535 ]	Header`it's`
,
	packetx

    uint8x	`
`
,

int32  As,
    } 
    // " ++ [128512]%N ++ runes_of_ascii " emoji
    	root	packet	i8i8
    {
    }
")).
Eval vm_compute in ("<<<M4187>>>" ++ check (runes_of_ascii "packet 
charz 
//	t

	{
@tag(7

    )
	@leftPad
    ('0') @rightPad( '0'
)
repeat 
Logon,
}

options// trailing space 
{} options

{
	}
MetaData
	roots {	float
a1 
`" ++ [233]%N ++ runes_of_ascii "`
    // " ++ [27880; 37322]%N ++ runes_of_ascii "
  , 
zchar[255	]

    calculatedFrom , u32 	 // " ++ [27880; 37322]%N ++ runes_of_ascii "
    	Packet, }//x
 
")).
Eval vm_compute in ("<<<M1588>>>" ++ check (runes_of_ascii "root packet Foo // " ++ [128512]%N ++ runes_of_ascii " emoji
{ } options {
    // a // b
    tag // `tick` ""quote"" 'q'
= //	t
""""
    ; u8x = zchar[0  ] }
MetaData
    int {zchar[ 10]
lengthOf	`` , i64 u8x`// not a comment` ,MetaDataX pack// `tick` ""quote"" 'q'
`crlf
line`
, Logon")).
Eval vm_compute in ("<<<M1267>>>" ++ check (runes_of_ascii "
MetaData
    // a // b
    uint8x /// triple
{ }packet matchKey	{ @rightPad (	)
    a1
{
zchar[
    1 ] u128 @calculatedFrom(  ""a\""b"" ),	i64_ i8i8 ,
    // c
    repeat int roots , i8 charz
//
// packet A { u8 x, }
,  }	,
} options { }")).
Eval vm_compute in ("<<<M3702>>>" ++ check (runes_of_ascii "root packet Foo {
}

options {
    // a // b
    tag = """";
    u8x = zchar[0]
}

MetaData int {
    zchar[10] lengthOf ``,
    i64 u8x `// not a comment`,
    MetaDataX pack `crlf
    line`,
    charz Logon `crlf
    line`,
}")).
Eval vm_compute in ("<<<M2243>>>" ++ check (runes_of_ascii "MetaData Packet { }packet	asx  @leftPad @lengthOf( asx) falsey`crlf
line`
,
    }
    packet x	{uint32// @lengthOf(
rootA	,u32 options1 `say ""hi""` , @tag( 7
    )// packet A { u8 x, }
msg_type @lengthOf(
stringy	)	, }

")).
Eval vm_compute in ("<<<M2382>>>" ++ check (runes_of_ascii "MetaData Packet { }packet	asx  { @lengthOf( asx) falsey`crlf
line`
,
    }
    pac'1'ket x	{uint32// @lengthOf(
rootA	,u32 options1 `say ""hi""` , @tag( 7
    )// packet A { u8 x, }
msg_type @lengthOf(
stringy	)	, }

")).
Eval vm_compute in ("<<<M2380>>>" ++ check (runes_of_ascii "MetaData Packet { }packet	asx  { @lengthOf( asx) falsey`crlf
line`
,
    }
    packet x	{uint32// @lengthOf(
rootA	,u32 options1 `say ""hi""` `, @tag( 7
    )// packet A { u8 x, }
msg_type @lengthOf(
stringy	)	, }

")).
Eval vm_compute in ("<<<M2322>>>" ++ check (runes_of_ascii "MetaData Packet { }packet	asx  { @lengthOf( asx) falsey`crlf
line`
,
    }
    packet x	{uint32// @lengthOf(
rootA	,u32 options1 , `say ""hi""` @tag( 7
    )// packet A { u8 x, }
msg_type @lengthOf(
stringy	)	, }

")).
Eval vm_compute in ("<<<M2395>>>" ++ check (runes_of_ascii "MetaData Packet { }packet	" ++ [21517; 23383]%N ++ runes_of_ascii "  { @lengthOf( asx) falsey`crlf
line`
,
    }
    packet x	{uint32// @lengthOf(
rootA	,u32 options1 `say ""hi""` , @tag( 7
    )// packet A { u8 x, }
msg_type @lengthOf(
stringy	)	, }

")).
Eval vm_compute in ("<<<M2295>>>" ++ check (runes_of_ascii "MetaData Packet { }packet	asx  { @lengthOf( asx) falsey`crlf
line`
,
    }
    packet x	{// @lengthOf(
rootA	,u32 options1 `say ""hi""` , @tag( 7
    )// packet A { u8 x, }
msg_type @lengthOf(
stringy	)	, }

")).
Eval vm_compute in ("<<<M3950>>>" ++ check (runes_of_ascii "

  packet
    // `tick` ""quote"" 'q'
  // " ++ [27880; 37322]%N ++ runes_of_ascii "

	len{
	match
x
	as

pack{ 	 // @lengthOf(
  3  :  MetaDataX	255 :

Foo
,00
: o 
}
    ,
@calculatedFrom( ""CRC32"")

    u128 @lengthOf(

packetx  )  ,  }

")).
Eval vm_compute in ("<<<M1>>>" ++ check (runes_of_ascii "// c
options {
    lengthOf = false Logon =
    false ;
} MetaData lengthOf
{ // " ++ [128512]%N ++ runes_of_ascii " emoji
float32 i8i8, }
root // `tick` ""quote"" 'q'
packet roots
{  zchar[
7	] f32a
    // trailing space 
    , }
")).
Eval vm_compute in ("<<<M1563>>>" ++ check (runes_of_ascii "root packet Foo // " ++ [128512]%N ++ runes_of_ascii " emoji
{ } options {
    // a // b
    tag // `tick` ""quote"" 'q'
= //	t
""""
    ; u8x = zchar[0  ] }
MetaData
    int {zchar[ 10]
lengthOf	`` , i64 u8x`// not a comment` ,")).
Eval vm_compute in ("<<<M3730>>>" ++ check (runes_of_ascii "packet len {
}//	t

root packet Pad {
    char[] Header,
    @lengthOf(falsey)
    // " ++ [128512]%N ++ runes_of_ascii " emoji
    char[] Header,
    len `line1
        line2`,
}

packet asx {
    repeat int16 u,
}")).
Eval vm_compute in ("<<<M3965>>>" ++ check (runes_of_ascii "
MetaData

float {

    i64_ Z9_`tab	here`,pack // " ++ [27880; 37322]%N ++ runes_of_ascii "
	falsey
,
	uint8x float 
,  // c
  	zchar[  4294967296 ]
x_y_z
, 
int16 chars  `" ++ [233]%N ++ runes_of_ascii "` 
, x_y_z

    stringy
    ,	}")).
Eval vm_compute in ("<<<M370>>>" ++ check (runes_of_ascii "packet
    rootA // packet A { u8 x, }
{ tag
`u8 x,`
, char[]	o	,
    i8i8	@lengthOf(
    // @lengthOf(
    stringy ) `// not a comment`
    ,
    // " ++ [128512]%N ++ runes_of_ascii " emoji
    }
")).
Eval vm_compute in ("<<<M1104>>>" ++ check (runes_of_ascii "packet
As {u128 MetaDataX , char[
3
] falsey ,  } options { falsey
    /// triple
    = ""it's""	;
}MetaData a1
{u8x A , matchKey _x `" ++ [28040; 24687; 31867; 22411]%N ++ runes_of_ascii "` ,
    string T
, }")).
Eval vm_compute in ("<<<M3796>>>" ++ check (runes_of_ascii "packet lengthOf {
    @leftPad()
    @tag(7)
    u8 BodyLength,
    char[1] chars `
        `,
    @tag(00)
    char[0] Z9_ @lengthOf(float) `u8 x,`,
}")).
Eval vm_compute in ("<<<M1208>>>" ++ check (runes_of_ascii "
packet asx{ @tag( 10 )  u64
_x @calculatedFrom( """ ++ [28040; 24687]%N ++ runes_of_ascii """ ) ,
    } options
{ i64_ = true /// triple
packetx = u16 ; } options {
msg_type =
""{,}"" }")).
Eval vm_compute in ("<<<M3895>>>" ++ check (runes_of_ascii "

  packet
A 
{
match k
as  n 
{
    [
	""a"" ,	""bb""
,
""c c""

    ,	""d""
,
	""e""
    ,

    ""f""
,""g"" 
,""h""
,

""i""
] :
B
2:C  }

, } ")).
Eval vm_compute in ("<<<M4251>>>" ++ check (runes_of_ascii "packet A {
    match k as n {
        [
            1, 22, 007, 4, 5,
            66, 7, 8, 9, 10
        ] : B,
        2 : C,
    },
}")).
Eval vm_compute in ("<<<M3186>>>" ++ check (runes_of_ascii "// top
MetaData
    // c0
zchar
    // c1
{
    // c2
zchar[
    // c3
3
    // c4
]
    // c5
Pad
    // c6
,
    // c7
}
    // c8
")).
Eval vm_compute in ("<<<M1673>>>" ++ check (runes_of_ascii "root packet /// triple
rootA {	i32
MetaDataX@calculatedFrom( ""CRC32"" ) `line1
line2` , , } MetaData BodyLength {
u8
rootA, } // c")).
Eval vm_compute in ("<<<M1669>>>" ++ check (runes_of_ascii "root packet /// triple
rootA {	i32
MetaDataX@calculatedFrom( ""CRC32"" ) , `line1
line2` } MetaData BodyLength {
u8
rootA, } // c")).
Eval vm_compute in ("<<<M874>>>" ++ check (runes_of_ascii "  options { Logon = 007	leftPad= true
; repeatCount =
    // trailing space 
    0
    // a // b
    u =	i32
; f32a
='0';
}

")).
Eval vm_compute in ("<<<M1625>>>" ++ check (runes_of_ascii " packet /// triple
rootA {	i32
MetaDataX@calculatedFrom( ""CRC32"" ) `line1
line2` , } MetaData BodyLength {
u8
rootA, } // c")).
Eval vm_compute in ("<<<M4331>>>" ++ check (runes_of_ascii "packet A {
    u16 len @lengthOf(body) `
        x`,
    u32 crc @calculatedFrom(""CRC32"") `
        x`,
    string body,
}")).
Eval vm_compute in ("<<<M1791>>>" ++ check (runes_of_ascii "packet
    Pad // a // b
{ { i8i8 @calculatedFrom( ""a	b"") `u8 x,` ,
} options{ float// " ++ [128512]%N ++ runes_of_ascii " emoji
= f64 i64_
=//	t
00 }
")).
Eval vm_compute in ("<<<M2314>>>" ++ check (runes_of_ascii "MetaData Packet { }packet	asx  { @lengthOf( asx) falsey`crlf
line`
,
    }
    packet x	{uint32// @lengthOf(
rootA	,")).
Eval vm_compute in ("<<<M3650>>>" ++ check (runes_of_ascii "  options  {  len =char[	10 
]
    asx

=
    false

    ;
    string_

    =
""""
    ; } // `tick` ""quote"" 'q'
")).
Eval vm_compute in ("<<<M4124>>>" ++ check (runes_of_ascii "// top
packet o {
    @tag(42)
    // c5
    repeat x {
        char[0123456789] i64_,
    },
}

options {
}// c19a")).
Eval vm_compute in ("<<<M1805>>>" ++ check (runes_of_ascii "packet
    Pad // a // b
{ i8i8 @calculatedFrom( ) `u8 x,` ,
} options{ float// " ++ [128512]%N ++ runes_of_ascii " emoji
= f64 i64_
=//	t
00 }
")).
Eval vm_compute in ("<<<M764>>>" ++ check (runes_of_ascii "// c
root packet u128	{asx ,} packet body
    { @lengthOf(
    i8i8 ) crc @lengthOf(
    Header)
    , } // c")).
Eval vm_compute in ("<<<M1478>>>" ++ check (runes_of_ascii "root packet Foo // " ++ [128512]%N ++ runes_of_ascii " emoji
{ } options {
    // a // b
    tag // `tick` ""quote"" 'q'
= //	t
""""
    ; u8x =")).
Eval vm_compute in ("<<<M2983>>>" ++ check (runes_of_ascii "packet A {
  match k as n {
    [""a"", 22, ""c c"", 4, ""e"", 66, ""g"", 8, ""i"", 10, ""k""] : B
    2 : C
  },
}")).
Eval vm_compute in ("<<<M3366>>>" ++ check (runes_of_ascii "packet calculatedFrom { @tag( 4294967296 ) u msg_type , char[ 3 ] crc @lengthOf(
// c
len ) `u8 x,` , }")).
Eval vm_compute in ("<<<M2019>>>" ++ check (runes_of_ascii "root
packet crc
    { f32a @calculatedFrom( """ ++ [233]%N ++ runes_of_ascii "t" ++ [233]%N ++ runes_of_ascii """ )
    `say ""hi""`, lengthOf `` @calculatedFrom(  }")).
Eval vm_compute in ("<<<M2967>>>" ++ check (runes_of_ascii "packet A {
  match k as n {
    [1, ""bb"", 007, ""d"", 5, ""f"", 7, ""h"", 9, ""j""] : B,
    2 : C
  },
}")).
Eval vm_compute in ("<<<M3216>>>" ++ check (runes_of_ascii "packet // c
Logon { @tag( 42 ) @rightPad ( ' ' ) @leftPad ( ) repeat trueish { string T , } , }")).
Eval vm_compute in ("<<<M3248>>>" ++ check (runes_of_ascii "packet Logon { @tag( 42 ) @rightPad ( ' ' ) @leftPad ( ) repeat trueish { string // c
T , } , }")).
Eval vm_compute in ("<<<M2972>>>" ++ check (runes_of_ascii "packet A {
  match k as n {
    [1, 22, ""c c"", 4, 5, ""f"", 7, 8, ""i"", 10] : B
    2 : C
  },
}")).
Eval vm_compute in ("<<<M1977>>>" ++ check (runes_of_ascii "root
packet crc
    { f32a f32a @calculatedFrom( """ ++ [233]%N ++ runes_of_ascii "t" ++ [233]%N ++ runes_of_ascii """ )
    `say ""hi""`, lengthOf `` ,  }")).
Eval vm_compute in ("<<<M1137>>>" ++ check (runes_of_ascii "packet roots {rootA @lengthOf(
    trueish ) `line1
line2` , int16 Packet
`" ++ [28040; 24687; 31867; 22411]%N ++ runes_of_ascii "` , } 	 ")).
Eval vm_compute in ("<<<M2044>>>" ++ check (runes_of_ascii "root
packet crc
    { na" ++ [239]%N ++ runes_of_ascii "ve @calculatedFrom( """ ++ [233]%N ++ runes_of_ascii "t" ++ [233]%N ++ runes_of_ascii """ )
    `say ""hi""`, lengthOf `` ,  }")).
Eval vm_compute in ("<<<M1409>>>" ++ check (runes_of_ascii "root packet SimpleMessage {
	uint16 MsgType `" ++ [28040; 24687; 31867; 22411]%N ++ runes_of_ascii "`,
	string JsonBody `Json" ++ [23383; 31526; 20018; 28040; 24687; 20307]%N ++ runes_of_ascii "`,
}")).
Eval vm_compute in ("<<<M2937>>>" ++ check (runes_of_ascii "packet A {
  match k as n {
    [1, 22, 007, 4, 5, 66, 7, 8] : B,
    2 : C
  },
}")).
Eval vm_compute in ("<<<M3307>>>" ++ check (runes_of_ascii "packet o { @tag( 42 ) repeat
// c
x { char[ 0123456789 ] i64_ , } , } options { }")).
Eval vm_compute in ("<<<M856>>>" ++ check (runes_of_ascii "MetaData
    uint8x{ // " ++ [27880; 37322]%N ++ runes_of_ascii "
packetx body
`// not a comment`, zchar[ 7 ]rootA , }")).
Eval vm_compute in ("<<<M823>>>" ++ check (runes_of_ascii "options{Header = true ; pack
= ""{,}"" ; }
//
/// triple
options{
i8i8= false
}")).
Eval vm_compute in ("<<<M4460>>>" ++ check (runes_of_ascii "MetaData uint8x {
    packetx body `// not a comment`,
    zchar[7] rootA,
}")).
Eval vm_compute in ("<<<M2158>>>" ++ check (runes_of_ascii "root
    // `tick` ""quote"" 'q'
    packet packet As { trueish Packet , }
")).
Eval vm_compute in ("<<<M4140>>>" ++ check (runes_of_ascii "// top
root packet P {
    // c3
    repeat char cs,
    u8 x,// c10a
}")).
Eval vm_compute in ("<<<M3411>>>" ++ check (runes_of_ascii "MetaData _x { zchar[ 4294967296 ] lengthOf `// not a comment` , // c
}")).
Eval vm_compute in ("<<<M2188>>>" ++ check (runes_of_ascii "root
    // `tick` ""quote"" 'q'
    packet As { trueish Packet , i32
")).
Eval vm_compute in ("<<<M4466>>>" ++ check (runes_of_ascii "

  // top
    packet	// c0
  lengthOf 	 // c1
	{// c2
} 	 // c3
")).
Eval vm_compute in ("<<<M2164>>>" ++ check (runes_of_ascii "root
    // `tick` ""quote"" 'q'
    packet = { trueish Packet , }
")).
Eval vm_compute in ("<<<M3003>>>" ++ check (runes_of_ascii "packet A {
    B b `a
b`,
    B `a
b`,
    repeat B bs `a
b`,
}")).
Eval vm_compute in ("<<<M3594>>>" ++ check (runes_of_ascii "packet f32a {
    @tag(1)
    Z9_ chars,
    chars `
    `,
}")).
Eval vm_compute in ("<<<M3430>>>" ++ check (runes_of_ascii "root packet P {
    hdr {
        u8 a,
    },
    u8 x,
}
")).
Eval vm_compute in ("<<<M2718>>>" ++ check (runes_of_ascii "} } int64 """ ++ [28040; 24687]%N ++ runes_of_ascii """ ] char[ ) i64 packet @lengthOf( ; lengthOf")).
Eval vm_compute in ("<<<M1902>>>" ++ check (runes_of_ascii "
packet	{ As @calculatedFrom(//x
""{,}""	)lengthOf , } 	 ")).
Eval vm_compute in ("<<<M2871>>>" ++ check (runes_of_ascii "packet A { Inner { match k as n { [1,22] : B, }, }, }")).
Eval vm_compute in ("<<<M1745>>>" ++ check (runes_of_ascii "options uint32 }options {  } // `tick` ""quote"" 'q'")).
Eval vm_compute in ("<<<M2586>>>" ++ check (runes_of_ascii "packet A { x @lengthOf(y) @calculatedFrom(""c""), }")).
Eval vm_compute in ("<<<M1757>>>" ++ check (runes_of_ascii "options { }options { {  } // `tick` ""quote"" 'q'")).
Eval vm_compute in ("<<<M2175>>>" ++ check (runes_of_ascii "root
    // `tick` ""quote"" 'q'
    packet As {")).
Eval vm_compute in ("<<<M1761>>>" ++ check (runes_of_ascii "options { }options {   // `tick` ""quote"" 'q'")).
Eval vm_compute in ("<<<M355>>>" ++ check (runes_of_ascii "root
    packet repeatCount {	A	,
    } 	 ")).
Eval vm_compute in ("<<<M3151>>>" ++ check (runes_of_ascii "packet A {
    u8 x,    // c    u8 y,
}")).
Eval vm_compute in ("<<<M2758>>>" ++ check (runes_of_ascii "int32 char[] i32 = float32 float32 char[")).
Eval vm_compute in ("<<<M2140>>>" ++ check (runes_of_ascii "MetaData x
{// " ++ [128512]%N ++ runes_of_ascii " emoji
/i16 stringy , }")).
Eval vm_compute in ("<<<M2616>>>" ++ check (runes_of_ascii "packet A { match k as n { '0' : B }, }")).
Eval vm_compute in ("<<<M3160>>>" ++ check (runes_of_ascii "MetaData M {
}// c
MetaData N {
}// d")).
Eval vm_compute in ("<<<M2639>>>" ++ check (runes_of_ascii "root packet A { } root packet B { }")).
Eval vm_compute in ("<<<M2048>>>" ++ check (runes_of_ascii "MetaData MetaData A { u64 pack, }")).
Eval vm_compute in ("<<<M3635>>>" ++ check (runes_of_ascii "packet A {
    u8 x `d" ++ [11]%N ++ runes_of_ascii "`,// c" ++ [11]%N ++ runes_of_ascii "
}")).
Eval vm_compute in ("<<<M2784>>>" ++ check (runes_of_ascii "uint32 : ; 7 `tab	here` , char")).
Eval vm_compute in ("<<<M2092>>>" ++ check (runes_of_ascii "MetaData A { u64 pack, }@tag ")).
Eval vm_compute in ("<<<M66>>>" ++ check (runes_of_ascii "packet Foo{ f64 Pad ,x
, }")).
Eval vm_compute in ("<<<M2072>>>" ++ check (runes_of_ascii "MetaData A { u64 pack, , }")).
Eval vm_compute in ("<<<M2099>>>" ++ check (runes_of_ascii "MetaData A { u64 na" ++ [239]%N ++ runes_of_ascii "ve, }")).
Eval vm_compute in ("<<<M2073>>>" ++ check (runes_of_ascii "MetaData A { u64 pack} ,")).
Eval vm_compute in ("<<<M2056>>>" ++ check (runes_of_ascii "MetaData A  u64 pack, }")).
Eval vm_compute in ("<<<M2398>>>" ++ check (runes_of_ascii "MetaData A
{
i64
chars")).
Eval vm_compute in ("<<<M3149>>>" ++ check (runes_of_ascii "packet A {
}// a// b")).
Eval vm_compute in ("<<<M590>>>" ++ check (runes_of_ascii "
packet x_y_z { }

")).
Eval vm_compute in ("<<<M2080>>>" ++ check (runes_of_ascii "MetaData A { u64 p")).
Eval vm_compute in ("<<<M3112>>>" ++ check (runes_of_ascii "// c" ++ [8287]%N ++ runes_of_ascii "
packet A {
}")).
Eval vm_compute in ("<<<M2759>>>" ++ check ([65533; 65533; 65533; 65533; 65533; 65533]%N ++ runes_of_ascii "|G" ++ [65533; 65533; 65533; 65533; 7; 65533; 65533]%N ++ runes_of_ascii "qb")).
Eval vm_compute in ("<<<M2651>>>" ++ check (runes_of_ascii "MetaData M M { }")).
Eval vm_compute in ("<<<M1794>>>" ++ check (runes_of_ascii "packet
    Pad")).
Eval vm_compute in ("<<<M2550>>>" ++ check ([65279]%N ++ runes_of_ascii "packet A {}")).
Eval vm_compute in ("<<<M1751>>>" ++ check (runes_of_ascii "options {")).
Eval vm_compute in ("<<<M2447>>>" ++ check (runes_of_ascii "trueish")).
Eval vm_compute in ("<<<M2852>>>" ++ check (runes_of_ascii "uint32")).
Eval vm_compute in ("<<<M3060>>>" ++ check (runes_of_ascii "// c ")).
Eval vm_compute in ("<<<M2514>>>" ++ check (runes_of_ascii """//""")).
Eval vm_compute in ("<<<M2527>>>" ++ check (runes_of_ascii "1.5")).
Eval vm_compute in ("<<<M2535>>>" ++ check (runes_of_ascii "1_")).
