From FP Require Import Lexer Parser ShowPT Digest Formatter.
From Coq Require Import String List NArith.
Import ListNotations.
Open Scope string_scope.
Set Printing Width 100000000.
Set Printing Depth 100000000.
Definition show_fres (r : fres) : string :=
  match r with
  | FOk s => "OK:" ++ sh_escaped s ""
  | FErr s => "ERR:" ++ sh_escaped s ""
  | FPanic p => "PANIC:" ++ p
  end.
Definition check (rs : list rune) : string := digest (show_fres (format_res rs)).
Definition full (rs : list rune) : string := show_fres (format_res rs).
Eval vm_compute in ("<<<M3584>>>" ++ check (runes_of_ascii "options {
    LittleEndian = true;
    ArrayPrefixLenType = u8;
    FixedStringPadChar = '0';
    JavaPackage = ""co\
m.example.msg"";
    GoPackage = ""ms\
g"";
    GoModule = ""example.com/msg"";
}
MetaData Meta {
    u32 SeqNum `sequence number`,
    char[8] Symbol `symbol`,
    zchar[5] ZSym `z symbol`,
    string Note,
    Symbol AltSymbol `alias of symbol`,
    f64 Price,
}
packet Inner {
    u8 a,
    i16 b,
    string c,
}
packet Inner2 {
    u8 a2,
    char[3] c2,
}
packet Logon {
    u8 x,
    string user,
    repeat u16 codes,
}
packet Logout {
    u16 reason,
}
packet Empty {
}
root packet Msg {
    u8 su8,
    uint8 luint8,
    u16 su16,
    uint16 luint16,
    u32 su32,
    uint32 luint32,
    u64 su64,
    uint64 luint64,
    i8 si8,
    int8 lint8,
    i16 si16,
    int16 lint16,
    i32 si32,
    int32 lint32,
    i64 si64,
    int64 lint64,
    f32 sf32,
    float32 lfloat32,
    f64 sf64,
    float64 lfloat64,
    char[6] fsplain,
    @leftPad('0') char[4] fs0,
    @rightPad('0') char[5] fs1,
    @leftPad(' ') char[6] fs2,
    @rightPad(' ') char[7] fs3,
    @leftPad('\x00') char[8] fs4,
    @rightPad('\x00') char[9] fs5,
    @leftPad() char[10] fs6,
    @rightPad() char[11] fs7,
    zchar[7] fz,
    @leftPad('0') zchar[3] fzl0,
    string s1 `doc`,
    char[] s2,
    Inner,
    Sub {
        u8 q,
        string w,
        Deep {
            u16 z,
            repeat i32 zs,
        },
    },
    repeat u8 ru8,
    repeat u16 ru16,
    repeat u32 ru32,
    repeat u64 ru64,
    repeat i8 ri8,
    repeat i16 ri16,
    repeat i32 ri32,
    repeat i64 ri64,
    repeat f32 rf32,
    repeat f64 rf64,
    repeat string rstr,
    repeat char[] rstr2,
    repeat char[3] rfs,
    repeat zchar[3] rfz,
    repeat Inner2,
    repeat Grp {
        u8 k,
        char[2] v,
    },
    SeqNum,
    SeqNum seq2,
    repeat SeqNum seqs,
    Symbol,
    AltSymbol alt,
    ZSym,
    Note,
    repeat Symbol syms,
    Price px,
    u16 MsgType,
    u32 BodyLen @lengthOf(Body),
    match MsgType as Body {
        1 : Logon,
        [2, 3] : Logout,
        7 : Logon,
        9 : Empty,
    },
    u32 Checksum @calculatedFrom(""CRC32""),
}
")).
Eval vm_compute in ("<<<M505>>>" ++ check (runes_of_ascii "options {
Pad ='0'o = true ; // c
x = false } root packet trueish { @tag( 4294967296) repeat
// @lengthOf(
// packet A { u8 x, }
u32
/// triple
//x
metadata
, @calculatedFrom(
    ""CRC32"" )@rightPad ( ) @lengthOf( x_y_z	) falsey
{ i8
i8i8  `it's` ,
    Header
{ // trailing space 
repeat calculatedFrom {	calculatedFrom `{ , }` ,
} , }
    , repeat //
Pad,}
    ,
x_y_z u8x`// not a comment`
, lengthOf tag , // `tick` ""quote"" 'q'
repeat zchar[ 7 ]
options1,f32 _x  `// not a comment` ,
    match  calculatedFrom as o
{ [ 0 ,
0 ] :uint8x
,[ ""`tick`""] : options1//	t
,[7 , 255 ,""" ++ [233]%N ++ runes_of_ascii "t" ++ [233]%N ++ runes_of_ascii """ ,"""" ,""\n""
,// 50% %s
65535
] :
options1 ""// no comment"": pack [
// a // b
// packet A { u8 x, }
007 , ""packet"", 3 ,
0123456789
] : MetaDataX ,} , match string_ as
    roots	{ [0 ]
: crc
    ,}// @lengthOf(
,
@lengthOf(
    // `tick` ""quote"" 'q'
    asx )roots,@lengthOf( i8i8 ) u , }packet // packet A { u8 x, }
Logon {
@calculatedFrom( ""a\\"" ) @tag(
    1
) @leftPad
(
'\x00'
    // a // b
    )roots
// 50% %s
// packet A { u8 x, }
@lengthOf(
    // packet A { u8 x, }
    metadata ),
    zchar[
4294967296 ] roots `say ""hi""` , match //x
u//x
as
chars{
    10  : roots , ""`tick`"": o
    ,
    255
    :
    int[ 1
,
10 ,""" ++ [128512]%N ++ runes_of_ascii """ ] :
    Packet ,// trailing space 
255 :Header [
""a\\"" , 0123456789 ,
//	t
// a // b
65535
,// packet A { u8 x, }
""\" ++ [233]%N ++ runes_of_ascii """ , 65535 ,1,""\n""]: u } ,_x // `tick` ""quote"" 'q'
@calculatedFrom( """ ++ [128512]%N ++ runes_of_ascii """ ) `100% of %d` ,uint8
// c
//
As/// triple
@lengthOf( BodyLength )
    ,}
options{ u
= ""a	b"" ; float
=
// c
// packet A { u8 x, }
zchar[
    1	]; }
options
    {
//x
//
metadata =	""it's"" ;rootA
    //x
    =
'0'
/// triple
// packet A { u8 x, }
A = true
    ;}
")).
Eval vm_compute in ("<<<M358>>>" ++ check (runes_of_ascii "root packet
repeatCount
{ zchar[ 7 ]
leftPad//	t
, }
root
    packet
Z9_ {
//
// a // b
char[
4294967296
    ]
//x
//x
charz,	@calculatedFrom( ""packet"" )Foo @calculatedFrom( """ ++ [128512]%N ++ runes_of_ascii """ ) , // " ++ [27880; 37322]%N ++ runes_of_ascii "
@rightPad  () repeat zchar[ 42 ]rootA `
`//x
, @lengthOf( lengthOf )
As
    int `a\` ,
    match tag as roots
    { [ ""it's"" ]: o, 3
    // packet A { u8 x, }
    : leftPad
    , 3
: a1 ,
    0123456789 : crc
,3 :
BodyLength  }, repeat string i64_
`two words`
    , @calculatedFrom( ""1"") zchar[ 0123456789
//	t
/// triple
] As @lengthOf( packetx	) `100% of %d` , }  packet matchKey{ } packet As { string u8x
    // `tick` ""quote"" 'q'
    , repeat options1
    zchar
,
char[]leftPad`a\` , @rightPad(
    '0' )@tag( // 50% %s
4294967296 ) char[ 255] o, f64  Header,@calculatedFrom( ""a	b"" ) // a // b
zchar[ 7
    ] // packet A { u8 x, }
chars,
    @lengthOf( Header )
repeat uint64 // " ++ [27880; 37322]%N ++ runes_of_ascii "
options1 `doc` , u8x	{ repeat
    char[
3 ]
msg_type , //
repeat options1
    ,// a // b
}
    // trailing space 
    , _x,
} packet BodyLength
{
@calculatedFrom( ""CRC32""//
) repeat o Z9_ ,
    @calculatedFrom(	""" ++ [233]%N ++ runes_of_ascii "t" ++ [233]%N ++ runes_of_ascii """) @calculatedFrom( ""a\\""
)
// packet A { u8 x, }
//
@tag(
    // trailing space 
    42 ) match Header
    as	tag {
    ""`tick`"" :
As
    , [""\" ++ [233]%N ++ runes_of_ascii """ ] :asx [
3 ,
""1""
, ""\n"" , 007 // 50% %s
,
    //
    ""\n"" ] : options1 ""abc""
    :
falsey , 4294967296: metadata , }, @tag(// a // b
4294967296 ) tag @calculatedFrom( """ ++ [128512]%N ++ runes_of_ascii """ ) ,
// " ++ [128512]%N ++ runes_of_ascii " emoji
// `tick` ""quote"" 'q'
}")).
Eval vm_compute in ("<<<M1075>>>" ++ check (runes_of_ascii "
packet
asx
    {
// " ++ [128512]%N ++ runes_of_ascii " emoji
// `tick` ""quote"" 'q'
repeat As
    { int8 A @lengthOf(BodyLength )  ,
}
,	matchKey`two words` , repeat Header, roots , @tag( 0//	t
) // trailing space 
i16	Logon @lengthOf( options1
    ), // `tick` ""quote"" 'q'
@calculatedFrom(
// 50% %s
//	t
""`tick`""  )
char[ 00 ]
trueish //	t
, } packet Logon	{ f64 u8x ,// @lengthOf(
int16
leftPad , repeat
Logon _x	,} packet float{repeat
    u8x {
match
asx
    as asx
    { ""a\""b"" : BodyLength// c
, [	0 ] :len ,""" ++ [28040; 24687]%N ++ runes_of_ascii """ : BodyLength , [	0 ,""\" ++ [233]%N ++ runes_of_ascii """ ]:leftPad// " ++ [27880; 37322]%N ++ runes_of_ascii "
,
4294967296 :T ,
}  , }//	t
,
//	t
// " ++ [128512]%N ++ runes_of_ascii " emoji
chars
{ match Pad as
    zchar
    {10:  i8i8 [
    3 , 10]
    : u8x ,} ,zchar[
    4294967296 ] stringy@calculatedFrom( ""\" ++ [233]%N ++ runes_of_ascii """ ) ,
// packet A { u8 x, }
// " ++ [27880; 37322]%N ++ runes_of_ascii "
}	, x
,T
{
    match
    // " ++ [128512]%N ++ runes_of_ascii " emoji
    rootA as
    Z9_ { 65535 : pack  , } , repeat i8 zchar , i64 string_ , match
asx as string_ {255 :u8x ,
// a // b
//	t
""CRC32""
    : /// triple
i64_ , } , }  ,@calculatedFrom(
""""
) @lengthOf( msg_type
)
    repeat calculatedFrom , } MetaData
    leftPad {char[ 3
] metadata ,string tag`it's` ,
Pad crc
    ,
u64 int
,
} root
    packet x
{BodyLength { char[]
// @lengthOf(
// `tick` ""quote"" 'q'
leftPad @calculatedFrom( ""\" ++ [233]%N ++ runes_of_ascii """) , // " ++ [27880; 37322]%N ++ runes_of_ascii "
char[
    10 ]  repeatCount , repeat  f64  Z9_ ,
string
    Header ,} ,
    }
")).
Eval vm_compute in ("<<<M4217>>>" ++ check (runes_of_ascii "  packet
    roots {

@rightPad	(

    '\x00' 
) 
char[]
u8x
@lengthOf( float) `say ""hi""` , repeat
rootA	{zchar[  42
] 
As
    `say ""hi""` ,

    }
, }
options{ A	= true

;
uint8x =' '
; 
}
    packet

    MetaDataX

    {@calculatedFrom( ""it's""	)	u64
	lengthOf @calculatedFrom(""a\\"" 
)

    `it's` // " ++ [27880; 37322]%N ++ runes_of_ascii "
    	,

string_ {

    metadata	, 
float64 
len  //
`" ++ [28040; 24687; 31867; 22411]%N ++ runes_of_ascii "`
, repeat

    u`say ""hi""`
	,
    u  BodyLength
    ,	// `tick` ""quote"" 'q'
    } ,

repeat  T 
,

    @tag(
	0123456789 )float // " ++ [27880; 37322]%N ++ runes_of_ascii "
  	T ,
    @tag(
    10 
)
@tag( 3) @rightPad 
(

)
	repeat 
body { 
      // c
	// c
	int32

float@calculatedFrom(
	""abc""
	)
    , 
repeat  uint32
asx, repeat asx

    { repeat

roots
	{ int64  _x 
`100% of %d`

    ,len

    rootA  ``

, }
,repeat
	zchar[
	42

    ] 
len

    , uint8x
	i8i8	,f32a@lengthOf(

Logon
        // packet A { u8 x, }
	// " ++ [27880; 37322]%N ++ runes_of_ascii "

  ) , }	, 
}  // packet A { u8 x, }
      , repeat

Foo

{  Header

    {
    Header x_y_z, 

/// triple
zchar 
    // a // b
    // c
	  x_y_z,

    },

}

, 	 // a // b
      As
{

    repeat
u32 Pad `// not a comment` ,

// a // b
	}	,

leftPad
	@calculatedFrom(""a\\"" ) // c
    ,
	}
packet  body {} ")).
Eval vm_compute in ("<<<M1218>>>" ++ check (runes_of_ascii "// a // b
root	packet asx // packet A { u8 x, }
{}
    root packet asx { @calculatedFrom(
    // 50% %s
    ""\n""  ) metadata@lengthOf( T )  , @lengthOf(
x ) Logon@calculatedFrom(
    """" ) // 50% %s
,@calculatedFrom( ""a	b"" ) x_y_z  `a\`
, stringy { uint64 float  `doc` ,//
}
    ,
    @tag(
    7 )@lengthOf(MetaDataX ) @tag(10 ) string
    packetx
`a\` , int	@calculatedFrom(""it's"" ) , A trueish	, @calculatedFrom(  ""{,}""
)
    i32 chars, }
root packet lengthOf {
@leftPad ( '0' )
    @lengthOf( float )@tag(
    00
// c
//	t
)
    // `tick` ""quote"" 'q'
    repeat f32
    metadata	`` ,	@lengthOf( As// trailing space 
) // a // b
float32
msg_type `line1
line2` ,@lengthOf(
repeatCount ) @lengthOf(	Logon ) char[
    // 50% %s
    4294967296 ] BodyLength
, } packet
    // packet A { u8 x, }
    packetx {@leftPad (
)
Logon// " ++ [27880; 37322]%N ++ runes_of_ascii "
`u8 x,`
,
match matchKey
as
    MetaDataX {1 : _x , """ ++ [128512]%N ++ runes_of_ascii """ : f32a 00// c
:x , } ,@calculatedFrom(""a	b"" )
repeat
x_y_z	x_y_z , zchar[007
]calculatedFrom `100% of %d`,
    packetx // @lengthOf(
@lengthOf( // a // b
msg_type
) `a\`  , char[ // a // b
007] x_y_z `it's` // trailing space 
, }
")).
Eval vm_compute in ("<<<M517>>>" ++ check (runes_of_ascii "//	t
root  packet matchKey
    { repeat i64_ {repeatCount i64_ , f32a{repeat MetaDataX
{ repeat chars `a\` , zchar[4294967296] // c
o@calculatedFrom( ""// no comment"" ) `doc`
    , repeat f32 calculatedFrom, repeat uint16 string_ ,
    } ,match falsey as	lengthOf {[ """"/// triple
]: zchar , }
    , },	repeat// " ++ [27880; 37322]%N ++ runes_of_ascii "
char
uint8x`tab	here` , x ,
} ,	Header , repeat float32 i8i8,
// a // b
// " ++ [27880; 37322]%N ++ runes_of_ascii "
@leftPad ( ' ' ) _x @lengthOf( i64_ ) `100% of %d` ,match
    falsey as body { 00 :crc ,
} ,
@tag( 0123456789)
    f64 asx `" ++ [233]%N ++ runes_of_ascii "`, @tag(00
)
repeat string_ `doc`, @tag( 1
) match pack as rootA {
42
    :o
7
:// a // b
Header
//
// c
[// " ++ [27880; 37322]%N ++ runes_of_ascii "
""a\""b""/// triple
]//
: A, [
    //x
    007 ,0 ]:
    calculatedFrom
// 50% %s
//	t
, 4294967296 :  asx [
""`tick`""
,
    // trailing space 
    ""x y""] : T}
    ,// " ++ [27880; 37322]%N ++ runes_of_ascii "
@tag( 10)chars crc ,
@calculatedFrom( ""\n"" ) char[ 42] Pad `
`,
    }MetaData uint8x {char[ 3 // c
]o `" ++ [233]%N ++ runes_of_ascii "` ,
// c
// a // b
uint16
// a // b
/// triple
A
    /// triple
    , leftPad matchKey,
char[]
As`say ""hi""`
, u32
string_ , metadata len , // c
}")).
Eval vm_compute in ("<<<M1369>>>" ++ check (runes_of_ascii "MetaData crc {}
root packet
float { zchar[	1 ] chars
    ,repeat f32 rootA
,@rightPad (
'0') i8 matchKey@calculatedFrom(""a\\"" ) ,
    char[ 65535 ]
// trailing space 
//	t
lengthOf `say ""hi""` ,
    tag
,	@lengthOf( packetx ) match i8i8 as
    u // " ++ [27880; 37322]%N ++ runes_of_ascii "
{ 4294967296
    : rootA , } // " ++ [128512]%N ++ runes_of_ascii " emoji
, metadata@calculatedFrom(	""{,}"" // a // b
), } packet MetaDataX
    { // @lengthOf(
@lengthOf(
float)	T
x`two words` ,
}packet body { repeat tag , @leftPad
//x
// " ++ [128512]%N ++ runes_of_ascii " emoji
(
    ) repeat zchar[ 3// @lengthOf(
] pack , @lengthOf(
    // c
    pack  )@calculatedFrom( ""abc"" ) repeat
    uint8x {string u8x @calculatedFrom(""""	) `a\`
,
    //	t
    repeat u16
// c
// " ++ [128512]%N ++ runes_of_ascii " emoji
As `tab	here` ,
    } ,
repeat// @lengthOf(
roots { repeat f64 Foo// @lengthOf(
`line1
line2` ,  char[] i8i8 @calculatedFrom(	""1"" ) ,
} // trailing space 
, repeat BodyLength `a\` ,
@rightPad	(  ) repeat Pad packetx `it's`, A @calculatedFrom(
"""" ) ,@calculatedFrom( //
"""") u128	, } packet f32a
    { } // c")).
Eval vm_compute in ("<<<M4462>>>" ++ check (runes_of_ascii "root packet _x {
    match Packet as msg_type {
        """" : trueish,
        /// triple
        // a // b
        """ ++ [28040; 24687]%N ++ runes_of_ascii """ : uint8x,
        ""a\\"" : T,
        00 : _x,
        ""`tick`"" : Logon,
    },// " ++ [128512]%N ++ runes_of_ascii " emoji
    @lengthOf(Logon)
    @calculatedFrom(""a\""b"")
    @leftPad(' ')
    int8 leftPad,// @lengthOf(
    repeat i32 i8i8,
    @lengthOf(metadata)
    // a // b
    // a // b
    string trueish @calculatedFrom(""CRC32"") `" ++ [233]%N ++ runes_of_ascii "`,
    @calculatedFrom(""packet"")
    @calculatedFrom(""abc"")
    char[3] uint8x `
        `,
    match _x as BodyLength {
        7 : repeatCount,
        ""\" ++ [233]%N ++ runes_of_ascii """ : lengthOf,
        4294967296 : MetaDataX,
        [""" ++ [128512]%N ++ runes_of_ascii """, 00] : o,
        ""CRC32"" : matchKey,
        7 : lengthOf,
    },
    int8 leftPad @calculatedFrom(""" ++ [233]%N ++ runes_of_ascii "t" ++ [233]%N ++ runes_of_ascii """),
}

packet x_y_z {
    @lengthOf(_x)
    MetaDataX {
        char[00] x @calculatedFrom(""" ++ [128512]%N ++ runes_of_ascii """),
        match u128 as i8i8 {
            [""""] : uint8x,
        },// 50% %s
    },
}")).
Eval vm_compute in ("<<<M3532>>>" ++ check (runes_of_ascii "options {
    LittleEndian = false;
    StringPrefixLenType = u16;
    ArrayPrefixLenType = u8;
    FixedStringPadFromLeft = true;
    FixedStringPadChar = ' ';
}
packet Logon {
}
packet Reject {
    InPx48 {
        repeat string price,
        u32 msgKind,
        repeat InSide223 {
            Logon,
            repeat f64 Ref,
            string tag7,
        },
        InClordid8 {
            zchar[5] Qty,
            u64 x,
            repeat string lastPx,
        },
    },
    Logon,
    i16 lastPx,
    repeat char[5] clOrdID,
    zchar[2] Flags,
    repeat string Side2,
}
root packet Order {
    uint16 sym,
    zchar[8] Side2,
    repeat string clOrdID,
    string tag7,
    zchar[3] OrderId,
    zchar[4] seqNo,
    u32 f1,
    u32 Acct @lengthOf(Body),
    match f1 as Body {
        58 : Reject,
        180 : Logon,
    },
    u32 Px @calculatedFrom(""CRC32""),
}
")).
Eval vm_compute in ("<<<M90>>>" ++ check (runes_of_ascii "// " ++ [27880; 37322]%N ++ runes_of_ascii "
packet u { float @calculatedFrom( ""it's""  )
    , }
    // " ++ [27880; 37322]%N ++ runes_of_ascii "
    packet string_
    {// `tick` ""quote"" 'q'
@tag( // " ++ [128512]%N ++ runes_of_ascii " emoji
4294967296 )
    @lengthOf( charz ) @leftPad(
    ' '
    )	uint8x
@lengthOf(
zchar
) // c
, //
string body, @calculatedFrom(  ""{,}"" )As,}
    packet  u
    { // packet A { u8 x, }
@lengthOf(
roots // a // b
) uint8
    f32a `{ , }`// " ++ [128512]%N ++ runes_of_ascii " emoji
,
    // " ++ [27880; 37322]%N ++ runes_of_ascii "
    repeat options1
    // `tick` ""quote"" 'q'
    , u8x
    // trailing space 
    As `a\` , @lengthOf(
// " ++ [27880; 37322]%N ++ runes_of_ascii "
// " ++ [128512]%N ++ runes_of_ascii " emoji
msg_type
    // " ++ [128512]%N ++ runes_of_ascii " emoji
    )
    repeat char[ // a // b
42	] u8x ,_x
{ repeat Packet
// " ++ [27880; 37322]%N ++ runes_of_ascii "
// " ++ [27880; 37322]%N ++ runes_of_ascii "
a1 `u8 x,` , repeat int
As , repeat
    f64 // trailing space 
chars
    `100% of %d`
,} // `tick` ""quote"" 'q'
,
zchar[ 3
    ]  uint8x,
    // trailing space 
    zchar[ 007]Packet , } MetaData	repeatCount {float32 calculatedFrom, } //	t")).
Eval vm_compute in ("<<<M3538>>>" ++ check (runes_of_ascii "options
    {StringPrefixLenType
=u64
	; ArrayPrefixLenType
    = 
u8
;
	FixedStringPadChar=	'0'	;}

    packet
    Logout

{  char[]f1,
    repeat
	u64
Qty 
,  string 
Acct

    ,  char[]
Side2  ,
	repeat
i64 clOrdID  ,}
	packet
Logon
{
	i64

tag7 
,
    Logout , @rightPad

    (
    '\x00'  )

    char[

    4 ]	Qty ,repeat  char[ 4 ]
venue, string
seqNo
    ,}

    packet

Party {
Logon

    ,
    float32 
x
    ,
uint32 
price ,

    repeat
string 
venue, 
repeat
char[
3  ] seqNo
	,  }
packet

    Leg
{string Flags ,
	i32
Ref

,
	repeat Logout ,	repeat u16
x ,}  packet  Cancel{ 
repeat
Logon,  int8  Ref ,Logout , char[] OrderId
, 
int16
Tail,
    } root

packet Heartbeat
    {

zchar[

    8 ]  price
, repeat

Logout, Cancel,char[]

    Qty 
, int32 x , Leg ,
	} ")).
Eval vm_compute in ("<<<M180>>>" ++ check (runes_of_ascii "packet msg_type {
// " ++ [128512]%N ++ runes_of_ascii " emoji
// `tick` ""quote"" 'q'
char[ 0 ] matchKey
, @leftPad( ' '
)repeat i8i8 `tab	here` ,match T as	packetx{ 7 :
Packet
,
""" ++ [128512]%N ++ runes_of_ascii """ : i64_ , } ,
    uint64
    T
,@leftPad (
    ) u64
    rootA @calculatedFrom(
    //	t
    ""a	b"" // trailing space 
) , @calculatedFrom(  ""it's"" // " ++ [27880; 37322]%N ++ runes_of_ascii "
)	char[ // @lengthOf(
3 ]
    // packet A { u8 x, }
    calculatedFrom,@tag(7 )int64 roots `" ++ [233]%N ++ runes_of_ascii "`,packetx@lengthOf(	roots ) ,
@lengthOf( int )  @calculatedFrom( ""a\""b"" )
    @calculatedFrom(
""" ++ [28040; 24687]%N ++ runes_of_ascii """ )  int32 MetaDataX
    `it's` ,
} packet u	{
    repeat char options1 // " ++ [27880; 37322]%N ++ runes_of_ascii "
,
}// " ++ [27880; 37322]%N ++ runes_of_ascii "
packet metadata
{ @tag(	7 ) Logon
@calculatedFrom( ""packet"") `say ""hi""`
, } root
packet repeatCount // " ++ [128512]%N ++ runes_of_ascii " emoji
{
    //x
    match
int
    as charz {
    ""abc""	: roots
}, } packet _x{ }
")).
Eval vm_compute in ("<<<M3555>>>" ++ check (runes_of_ascii "options {
    LittleEndian = true;
    ArrayPrefixLenType = u32;
}
packet Order {
    repeat u64 Acct,
    i16 price,
}
packet Logon {
    zchar[3] venue,
    string Flags,
    repeat InQty82 {
        string Px,
    },
    repeat char[1] clOrdID,
}
packet Cancel {
    int32 Tail,
    repeat Logon,
    repeat InFlags55 {
        uint64 Note,
        repeat InQty28 {
            char[] msgKind,
            char[7] OrderId,
        },
        char[] Px,
    },
    int16 Ref,
}
root packet Leg {
    repeat Logon,
    char[] venue,
    u16 Flags,
    i16 Tail,
    repeat Cancel,
    u8 Side2,
    match Side2 as Body {
        151 : Logon,
        148 : Order,
        162 : Cancel,
    },
    u16 x @calculatedFrom(""CRC32""),
}
")).
Eval vm_compute in ("<<<M4054>>>" ++ check (runes_of_ascii "root	packet

    chars
	{ @calculatedFrom(
"""" 	 // c
    	)

char[]Foo
	@lengthOf(  Pad

)

, 
        //x
	// trailing space 

match  x as

pack { ""CRC32""
:

u8x
	,} ,

asx `" ++ [28040; 24687; 31867; 22411]%N ++ runes_of_ascii "` 
,
@rightPad  ( )@calculatedFrom(
    ""\n""	)	uint8

    zchar	// @lengthOf(
    	`line1
line2` 	 // @lengthOf(
	,
@lengthOf( 
x  ) f32
Pad

    ,
    match 
falsey as

BodyLength 
{  """ ++ [233]%N ++ runes_of_ascii "t" ++ [233]%N ++ runes_of_ascii """// @lengthOf(
    :charz 10

:

roots
	, 10  : x_y_z,

    ""`tick`"" :  _x

,
""// no comment""
: 	 // 50% %s
  chars[ 
10
	,

    1 ] :
	Foo ,
}
, repeat u64
u8x ``
	,  }options 
        // @lengthOf(
	{
    Logon= 
	    // trailing space 
	zchar[ 
//x

10]zchar
	=
    char[10]
	; Packet = 
42

    ;  }")).
Eval vm_compute in ("<<<M4273>>>" ++ check (runes_of_ascii "MetaData  As

{} root  packet
matchKey {	// " ++ [128512]%N ++ runes_of_ascii " emoji
@calculatedFrom(""CRC32"") 
// @lengthOf(

@tag(
4294967296) repeat
char[
7
] 
MetaDataX ,  @lengthOf( 
pack ) asx @lengthOf( 	 // 50% %s
	  zchar 
// " ++ [27880; 37322]%N ++ runes_of_ascii "
  ),  @calculatedFrom(
	""" ++ [233]%N ++ runes_of_ascii "t" ++ [233]%N ++ runes_of_ascii """
    )zchar[ 0123456789 ] // `tick` ""quote"" 'q'
tag 
@lengthOf( i8i8)	`tab	here`,
repeat  
  // 50% %s
  	// `tick` ""quote"" 'q'
  u8x,// 50% %s
  uint32
    crc `doc`  ,
@leftPad
(
'0'  )
	@calculatedFrom(
""1"" ) @tag(
    0 
	    //

)	Logon crc,@lengthOf(  zchar
)
	@rightPad(  )@leftPad  (
'\x00' )

repeat
    u8 
	//	t
    options1
    `// not a comment`

,// " ++ [128512]%N ++ runes_of_ascii " emoji
  string
repeatCount 
,
    } 
packet 
u128{ }
")).
Eval vm_compute in ("<<<M624>>>" ++ check (runes_of_ascii "packet tag{
@rightPad( ) repeat options1
T `a\`
,
@calculatedFrom( ""it's"" )/// triple
float64
// packet A { u8 x, }
// `tick` ""quote"" 'q'
float `100% of %d` , @rightPad ('0' )Foo //	t
repeatCount
, // a // b
repeat	float pack `line1
line2`
    // packet A { u8 x, }
    , // a // b
@leftPad(	) match Foo as
//x
// " ++ [128512]%N ++ runes_of_ascii " emoji
MetaDataX // 50% %s
{
    // " ++ [128512]%N ++ runes_of_ascii " emoji
    """ ++ [233]%N ++ runes_of_ascii "t" ++ [233]%N ++ runes_of_ascii """ :  f32a ,00	: roots
    , [
""a\\"" ] : BodyLength }
,
    int16
// " ++ [128512]%N ++ runes_of_ascii " emoji
//	t
body
,/// triple
match
    // `tick` ""quote"" 'q'
    roots as Z9_{ 65535 //	t
:tag , [""it's"" , 255 ] : // `tick` ""quote"" 'q'
Foo
    } , // @lengthOf(
leftPad`{ , }` , f64 chars `a\`, }
")).
Eval vm_compute in ("<<<M4485>>>" ++ check (runes_of_ascii "MetaData string_ {
    charz uint8x `say ""hi""`,
    float64 float,
    tag As `u8 x,`,
}

options {
    len = ' ';
}

root packet i8i8 {
    match charz as o {
        [
            """ ++ [28040; 24687]%N ++ runes_of_ascii """, ""\" ++ [233]%N ++ runes_of_ascii """, 3, 007, ""a\""b"",
            1
        ] : msg_type,
        ""CRC32"" : x,
    },
    uint16 a1 @calculatedFrom(""1""),
    Z9_ @calculatedFrom(""abc"") `" ++ [28040; 24687; 31867; 22411]%N ++ runes_of_ascii "`,
    Header @lengthOf(len),
    @lengthOf(int)
    int64 msg_type,
    trueish,
    uint64 Logon `two words`,
    float {
        a1 calculatedFrom `{ , }`,
    },
    @tag(65535)
    _x @lengthOf(tag) `say ""hi""`,
}

packet falsey {
    // " ++ [27880; 37322]%N ++ runes_of_ascii "
    repeat x_y_z,
}")).
Eval vm_compute in ("<<<M579>>>" ++ check (runes_of_ascii "root
packet
x_y_z
// c
// " ++ [128512]%N ++ runes_of_ascii " emoji
{
    @rightPad
    //
    (
    ) u64
zchar
    @calculatedFrom( ""a\\"" /// triple
) ,@lengthOf(msg_type
) @tag(
65535 )u8
    x_y_z ,
@rightPad
    ('\x00' ) @lengthOf(// " ++ [128512]%N ++ runes_of_ascii " emoji
rootA )
    _x crc ,	@calculatedFrom(
    ""`tick`"" )o {match T as rootA {""" ++ [233]%N ++ runes_of_ascii "t" ++ [233]%N ++ runes_of_ascii """ : Logon ,
    //
    [""x y"" ] :
    As  , },
}
,  }
packet //	t
msg_type {
match asx as asx { ""packet"" : uint8x , [
65535 , """ ++ [28040; 24687]%N ++ runes_of_ascii """	]
:u8x
, ""it's""
:Packet , [ ""`tick`""
, 10 ,
""1"" // c
]
: calculatedFrom	4294967296 :
T , }, }
packet	charz { //
float64
    o , repeat Packet, }
")).
Eval vm_compute in ("<<<M637>>>" ++ check (runes_of_ascii "
MetaData f32a {i8 asx
,
    string o `a\` ,  uint8 o `a\` , T BodyLength
`{ , }`	,
float64 Packet	`{ , }` ,char[3 ]
As , }  packet f32a// trailing space 
{ } root packet
int{  i8
Header // 50% %s
@lengthOf(
    body
) ``//
,	@tag(
    4294967296
    ) char[007
    ]
falsey , MetaDataX
leftPad,match lengthOf as i64_
    {""a\\""
    : T // packet A { u8 x, }
, [ 65535
, // 50% %s
00] : //x
int , ""packet""
    : Pad  } , char asx	,
string lengthOf
,
    // trailing space 
    }	MetaData stringy// a // b
{u16  metadata
    , _x
u8x // " ++ [27880; 37322]%N ++ runes_of_ascii "
,	}")).
Eval vm_compute in ("<<<M882>>>" ++ check (runes_of_ascii "
options
{	string_ = """"// trailing space 
; _x = 1  chars = // a // b
' ' ; _x =
    '\x00' // trailing space 
; matchKey = 4294967296
    }options	{
    float
=true; metadata
= 65535
Foo  = '\x00'A =
    f64  ; As
= // c
""// no comment"" ; } packet As { f32
matchKey // trailing space 
@calculatedFrom(  ""abc""  )  ,
f32  x @calculatedFrom(
""{,}"" ) `doc`
, i32 BodyLength , match A as asx { 1 :	int [ 42
,	""a\""b""
,// c
""\n"" ] : options1// `tick` ""quote"" 'q'
,	} ,
i16 f32a
    `// not a comment`,
}
    options{ u= 255
    ;
    }
")).
Eval vm_compute in ("<<<M4518>>>" ++ check (runes_of_ascii "root packet roots {
}

packet u128 {
    @tag(65535)
    // `tick` ""quote"" 'q'
    zchar[42] x @calculatedFrom(""a	b"") `doc`,
}

options {
    calculatedFrom = int32;/// triple
}

packet u8x {
    @calculatedFrom(""\" ++ [233]%N ++ runes_of_ascii """)
    string_ @lengthOf(asx),
    @tag(007)
    @tag(10)
    repeat char[] Foo `100% of %d`,
    repeat i64_ {
        match u8x as tag {
            [""`tick`""] : T,
            42 : x_y_z,
        },
        char[7] Z9_ @calculatedFrom(""a\\"") `line1
        line2`,
        float64 msg_type,
    },
}")).
Eval vm_compute in ("<<<M1091>>>" ++ check (runes_of_ascii "MetaData// c
falsey{
char[
255] // " ++ [128512]%N ++ runes_of_ascii " emoji
trueish `{ , }` // trailing space 
,  }// packet A { u8 x, }
MetaData
// packet A { u8 x, }
/// triple
falsey { u32 u8x , }	MetaData a1
    { }packet u8x
    // @lengthOf(
    {
    match
Z9_
    as stringy
    // " ++ [128512]%N ++ runes_of_ascii " emoji
    { 1
    :_x,//	t
[ 255 ,0 ]
:i8i8 , //x
65535:
    msg_type
,
    0123456789 : T , } ,@rightPad
    (  '0' ) char[]	pack @calculatedFrom(
""a\""b""
    )
, len@lengthOf(  _x
// `tick` ""quote"" 'q'
// @lengthOf(
)
`" ++ [233]%N ++ runes_of_ascii "`, }
")).
Eval vm_compute in ("<<<M1164>>>" ++ check (runes_of_ascii "packet
leftPad{	int8 stringy @calculatedFrom(
    ""a\\"" )
,
    match
a1
as x_y_z{ 1:BodyLength
,	42 :
body,  [ ""x y"" // 50% %s
, ""`tick`"" ] :x, }
    , @lengthOf(x_y_z
    )
    @tag(
65535
    ) @lengthOf(Pad)f32 u8x // c
`say ""hi""` ,match charz as body
{ [ 255 ,
""// no comment""
,""" ++ [128512]%N ++ runes_of_ascii """ , 0
,	42 ]
:
    BodyLength	, }
    , @rightPad	( ) stringy // 50% %s
@lengthOf(
Z9_) `{ , }` ,@lengthOf(uint8x  )
string
    // packet A { u8 x, }
    o `100% of %d` ,}
")).
Eval vm_compute in ("<<<M48>>>" ++ check (runes_of_ascii "MetaData	i8i8 { Packet // `tick` ""quote"" 'q'
roots ,
} root packet
//	t
// packet A { u8 x, }
matchKey {	@leftPad(
    '\x00'
) charz
, match MetaDataX // c
as T { [ 42
    ] :
_x
/// triple
// " ++ [27880; 37322]%N ++ runes_of_ascii "
,// 50% %s
42 : Packet
0// `tick` ""quote"" 'q'
:
chars
    // packet A { u8 x, }
    ,
// @lengthOf(
//x
255 : Foo }, @tag(
007 ) /// triple
repeat int32 chars , } packet x_y_z {
    stringy
    zchar `it's` , repeat trueish
    /// triple
    ,}")).
Eval vm_compute in ("<<<M3823>>>" ++ check (runes_of_ascii "
packet	B	// c1

{ // c2a
	// c2b
    u8// c3a
	  // c3b
	a 
    // c4
,// c5a
		// c5b
    	} root

    packet 	 // c8
  P	// c9a
    // c9b
  {	u8
    K// c12a
		// c12b
, 
    // c13
	u8  // c14a
  // c14b
L  // c15

  @lengthOf(// c16

Body
    )  // c18
  ,
	match

// c20
K

as  // c22
	  Body 	 // c23a

// c23b

  { 
	    // c24
    1 :B 
  // c27
		, 
}
    // c29
    	, // c30a
    // c30b

} 
    // c31
")).
Eval vm_compute in ("<<<M4219>>>" ++ check (runes_of_ascii "packet
	Pad

{

    // @lengthOf(
/// triple
	  @tag(  1

    )
	@leftPad (
	'0'
	)

    repeat 
zchar[ 10 
] Packet 
,
	uint32 
BodyLength `100% of %d` ,
repeat
    char[
	10	] Z9_  , @leftPad('0' ) repeat
    Foo
    a1
    ,
	char[42
    ]  repeatCount `line1
line2` 
    // packet A { u8 x, }

// trailing space 
  ,
    @rightPad

(
)  char[]  // packet A { u8 x, }
	crc,
pack@calculatedFrom(

""\" ++ [233]%N ++ runes_of_ascii """ ), }
")).
Eval vm_compute in ("<<<M3529>>>" ++ check (runes_of_ascii "packet NewOrder {
    u32 qty,
}
packet Cancel {
    u64 id,
}
packet Business {
    u8 Kind,
    match Kind as Detail {
        1 : NewOrder,
        2 : Cancel,
    },
}
packet TcpFrame {
    u8 T,
    match T as Body {
        1 : Business,
    },
}
packet UdpFrame {
    u8 U,
    match U as Body {
        1 : Business,
    },
    Business extra,
}
root packet Wire {
    TcpFrame,
    UdpFrame,
}
")).
Eval vm_compute in ("<<<M4072>>>" ++ check (runes_of_ascii "packet BodyLength {
    pack {
        repeat uint8 u128 `it's`,
        repeat chars Foo `u8 x,`,
        i32 x_y_z `
                `,
    },
    @rightPad()
    chars,
}

/// triple
root packet f32a {
    @calculatedFrom(""1"")
    match repeatCount as matchKey {
        0123456789 : BodyLength,
        007 : metadata,
        ""a\""b"" : stringy,
    },
    repeat f32a tag `a\`,
}")).
Eval vm_compute in ("<<<M4164>>>" ++ check (runes_of_ascii "MetaData lengthOf {
    //
    char[00] falsey,
    string packetx `crlf
    line`,
    charz _x,
    crc metadata,
    uint32 metadata `tab	here`,
    u16 i64_,
}

MetaData As {
    char[] crc,
    i8 T,
    u8 u,// `tick` ""quote"" 'q'
    string crc `line1
    line2`,
    i16 leftPad,
}

root packet crc {
    // packet A { u8 x, }
    i32 uint8x `line1
    line2`,
}")).
Eval vm_compute in ("<<<M27>>>" ++ check (runes_of_ascii "packet u8x //
{ char[
1]
roots
    , msg_type @calculatedFrom(
""" ++ [28040; 24687]%N ++ runes_of_ascii """ ) `{ , }` , rootA , } packet stringy { charz
// a // b
//	t
,
// 50% %s
// `tick` ""quote"" 'q'
repeat
options1{ asx , Logon {
i64_
metadata
`
` , }
//x
//
, i64 metadata ,repeat// c
packetx { charz @lengthOf( Header
), } // c
, }
    , }
options {leftPad
    = 10 ;
    } // " ++ [128512]%N ++ runes_of_ascii " emoji")).
Eval vm_compute in ("<<<M3717>>>" ++ check (runes_of_ascii "
packet  trueish {// @lengthOf(
		i8
	Pad 
,

    repeat Foo 	 // " ++ [27880; 37322]%N ++ runes_of_ascii "
		stringy
	, }

MetaData

_x
    {

} packet

calculatedFrom{ 
repeat  char[]  //	t
	uint8x
    `tab	here` , @leftPad ( ' ' 
)  match 
chars  as metadata
{ 00 
: a1 
""it's""
:  _x
, }

,

}//	t
	packet 
  //x
	msg_type
    {char[] // " ++ [128512]%N ++ runes_of_ascii " emoji
  uint8x 
,}
	    //	t
")).
Eval vm_compute in ("<<<M3948>>>" ++ check (runes_of_ascii "packet matchKey {
    @tag(0)
    @lengthOf(chars)
    @calculatedFrom(""`tick`"")
    f64 asx,
    @calculatedFrom(""" ++ [128512]%N ++ runes_of_ascii """)
    repeat repeatCount charz `tab	here`,/// triple
    @rightPad()
    string_,
}

options {
    repeatCount = char[1]
    lengthOf = """ ++ [28040; 24687]%N ++ runes_of_ascii """// packet A { u8 x, }
    As = ""a\\""
    o = '\x00'
    i8i8 = true;
}")).
Eval vm_compute in ("<<<M679>>>" ++ check (runes_of_ascii "packet u8x{
metadata`line1
line2` , Packet @lengthOf( float ) `u8 x,` ,@tag( 0123456789
) x , } options { }
    MetaData Z9_ { zchar[ 0 ]
i8i8 //x
, leftPad
    repeatCount , f32 o
// trailing space 
//x
,
    repeatCount
// 50% %s
//x
repeatCount`crlf
line` , char[] pack `it's`// @lengthOf(
, }
/// triple
")).
Eval vm_compute in ("<<<M4294>>>" ++ check (runes_of_ascii "
root  packet falsey{
	@tag(0123456789) leftPad 
,	repeat
o 

    // @lengthOf(
    	metadata
	,calculatedFrom	@lengthOf(
pack
    ),

    repeat
    int {
        // packet A { u8 x, }

//
		int8

zchar  // @lengthOf(

,

    float32
float
	`100% of %d`
    ,
	repeat
	u64
	repeatCount
, } , }")).
Eval vm_compute in ("<<<M507>>>" ++ check (runes_of_ascii "  options {} packet//
Foo {
// trailing space 
// c
Logon
    x_y_z  ,@leftPad ( ) // `tick` ""quote"" 'q'
@calculatedFrom(
    // trailing space 
    ""\n"" ) @lengthOf( asx)zchar[ 4294967296	] o , string a1 @lengthOf(_x  )`u8 x,`  ,	@tag( 1
)char[
007 ]
i64_ `tab	here`, } packet float
    {}")).
Eval vm_compute in ("<<<M1992>>>" ++ check (runes_of_ascii "packet	packetx { // trailing space 
x_y_z
{
string
charz ,
string x// @lengthOf(
`two words`
    ,  u8x { // `tick` ""quote"" 'q'
charz `100% of %d` // packet A { u8 x, }
,}// " ++ [27880; 37322]%N ++ runes_of_ascii "
,} , }
    // a // b
    packet metadata {  @leftPad ( '0') repeat repeat i32 options1 ,u64 uint8x , }
")).
Eval vm_compute in ("<<<M2040>>>" ++ check (runes_of_ascii "packet	packetx { // trailing space 
x_y_z
{
string
charz ,
string x// @lengthOf(
`two words`
    ,  u8x { // `tick` ""quote"" 'q'
charz `100% of %d` // packet A { u8 x, }
,}// " ++ [27880; 37322]%N ++ runes_of_ascii "
,} , }
    // a // b
    packet metadata {  @leftPad ( '1''0') repeat i32 options1 ,u64 uint8x , }
")).
Eval vm_compute in ("<<<M2039>>>" ++ check (runes_of_ascii "packet	packetx { // trailing space 
x_y_z
{
string
charz ,
string x// @lengthOf(
`two words`
    ,  u8x { // `tick` ""quote"" 'q'
charz `100% of $%d` // packet A { u8 x, }
,}// " ++ [27880; 37322]%N ++ runes_of_ascii "
,} , }
    // a // b
    packet metadata {  @leftPad ( '0') repeat i32 options1 ,u64 uint8x , }
")).
Eval vm_compute in ("<<<M1973>>>" ++ check (runes_of_ascii "packet	packetx { // trailing space 
x_y_z
{
string
charz ,
string x// @lengthOf(
`two words`
    ,  u8x { // `tick` ""quote"" 'q'
charz `100% of %d` // packet A { u8 x, }
,}// " ++ [27880; 37322]%N ++ runes_of_ascii "
,} , }
    // a // b
    packet metadata {  ( @leftPad '0') repeat i32 options1 ,u64 uint8x , }
")).
Eval vm_compute in ("<<<M2006>>>" ++ check (runes_of_ascii "packet	packetx { // trailing space 
x_y_z
{
string
charz ,
string x// @lengthOf(
`two words`
    ,  u8x { // `tick` ""quote"" 'q'
charz `100% of %d` // packet A { u8 x, }
,}// " ++ [27880; 37322]%N ++ runes_of_ascii "
,} , }
    // a // b
    packet metadata {  @leftPad ( '0') repeat i32 options1 u64 uint8x , }
")).
Eval vm_compute in ("<<<M836>>>" ++ check (runes_of_ascii "packet// `tick` ""quote"" 'q'
calculatedFrom
// 50% %s
//x
{ @tag(
    4294967296
// " ++ [27880; 37322]%N ++ runes_of_ascii "
/// triple
)
@tag(
    //	t
    65535
// 50% %s
// 50% %s
) @calculatedFrom( """ ++ [28040; 24687]%N ++ runes_of_ascii """
    ) u8 u128 `tab	here`// `tick` ""quote"" 'q'
, }packet stringy {@rightPad ( ) chars , } options {
    }")).
Eval vm_compute in ("<<<M4203>>>" ++ check (runes_of_ascii "

  packet

MDSnapshotZZ{ u8

    a	,	} packet OrderACK
{	u16
b 
,	} packet  HTTPServerInfo
    {
	string

s

    ,
	}	root packet FIXMsg{u8
	KType	,

MDSnapshotZZ
    ,

    repeat
OrderACK,
match  KType 
as Body { 1:HTTPServerInfo ,

2
	:  OrderACK
, } , }

")).
Eval vm_compute in ("<<<M512>>>" ++ check (runes_of_ascii "MetaData T // a // b
{ }MetaData msg_type { // `tick` ""quote"" 'q'
string Pad ,}
    root packet MetaDataX
    // a // b
    {  u64 u  , }
    MetaData metadata	{float BodyLength, char[]
repeatCount ,
u64 uint8x// @lengthOf(
`// not a comment`  ,string len
`` ,
}")).
Eval vm_compute in ("<<<M2070>>>" ++ check (runes_of_ascii "packet// packet A { u8 x, }
repeatCount	{// packet A { u8 x, }
@leftPad ( ( '\x00'
) repeat u8x MetaDataX `crlf
line`,
    repeat
    char[] MetaDataX
    ,
u64	uint8x@calculatedFrom(""a\""b""
// c
// packet A { u8 x, }
) `tab	here`
,//
}MetaData pack
    {
    }
")).
Eval vm_compute in ("<<<M1399>>>" ++ check (runes_of_ascii "
packet	lengthOf { } // `tick` ""quote"" 'q'
root packet x{char[ 42	]
    As , zchar[
    1 //	t
] Foo @calculatedFrom( ""it's""
)
// @lengthOf(
// 50% %s
,@lengthOf(
    trueish )char matchKey//	t
@calculatedFrom(""a	b"" )  `line1
line2` , } packet Packet{
    }
")).
Eval vm_compute in ("<<<M2171>>>" ++ check (runes_of_ascii "packet// packet A { u8 x, }
repeatCount	{// packet A { u8 x, }
@leftPad ( '\x00'
) repeat u8x MetaDataX `crlf
line`,
    repeat
    char[] MetaDataX
    ,
u64	uint8x@calculatedFrom(""a\""b""
// c
// packet A { u8 x, }
) `tab	here`
,//
}pack MetaData
    {
    }
")).
Eval vm_compute in ("<<<M938>>>" ++ check (runes_of_ascii "// c
root
    packet roots { @leftPad	( '\x00') repeat BodyLength { repeat Pad {Foo {
repeat i8i8
,	MetaDataX  , match stringy as lengthOf
    //	t
    { 7//	t
: len
    }
    // trailing space 
    , }, }
, repeat string rootA,
}
,
}
// trailing space 
")).
Eval vm_compute in ("<<<M2157>>>" ++ check (runes_of_ascii "packet// packet A { u8 x, }
repeatCount	{// packet A { u8 x, }
@leftPad ( '\x00'
) repeat u8x MetaDataX `crlf
line`,
    repeat
    char[] MetaDataX
    ,
u64	uint8x@calculatedFrom(""a\""b""
// c
// packet A { u8 x, }
) '0'
,//
}MetaData pack
    {
    }
")).
Eval vm_compute in ("<<<M1576>>>" ++ check (runes_of_ascii "packet calculatedFrom
{ @calculatedFrom( ""a\\"" ) zchar[ 4294967296 ]
calculatedFrom@lengthOf( pack )	`100% of %d` ,char[]body@calculatedFrom( ""// no comment"" )  ,
@tag( 007) //x
int8
leftPad`it's` , repeat pack
    { repeat metadata 3] body
,},
}")).
Eval vm_compute in ("<<<M433>>>" ++ check (runes_of_ascii "MetaData
    body{string
    metadata
    // trailing space 
    `u8 x,`
,
    uint16
    string_`it's` , zchar Logon
,u // c
_x
// a // b
// `tick` ""quote"" 'q'
, } options	{
string_
= """ ++ [28040; 24687]%N ++ runes_of_ascii """ ; msg_type
=42 ;
    Foo  = 0123456789 ;o =int64 ;
    }")).
Eval vm_compute in ("<<<M1445>>>" ++ check (runes_of_ascii "packet calculatedFrom
{ @calculatedFrom( ""a\\"" ) 4294967296 zchar[ ]
calculatedFrom@lengthOf( pack )	`100% of %d` ,char[]body@calculatedFrom( ""// no comment"" )  ,
@tag( 007) //x
int8
leftPad`it's` , repeat pack
    { repeat char[ 3] body
,},
}")).
Eval vm_compute in ("<<<M1633>>>" ++ check (runes_of_ascii "packet calculatedFrom
{ @calculatedFrom( ""a\\"" ) zchar[ 4294967296 ]
calculatedFrom@lengthOf( pack )	`100% of %d` ,char[]body@calculatedFrom( ""// no comment"" )  ,
@tag( 007) //x
int8
leftPad`it's` , repeat " ++ [252]%N ++ runes_of_ascii "ber
    { repeat char[ 3] body
,},
}")).
Eval vm_compute in ("<<<M1611>>>" ++ check (runes_of_ascii "packet calculatedFrom
{ @calculatedFrom( ""a\\"" ) zchar[ 4294967296 ]
calculatedFrom@lengthOf( pack )	`100% of %d` ,char[]body@calculatedFrom( ""// no comment"" )  ,
@tag( 007) //x
int8
leftPad`it's` , repeat pack
    { repeat char[ 3] body
,},")).
Eval vm_compute in ("<<<M1543>>>" ++ check (runes_of_ascii "packet calculatedFrom
{ @calculatedFrom( ""a\\"" ) zchar[ 4294967296 ]
calculatedFrom@lengthOf( pack )	`100% of %d` ,char[]body@calculatedFrom( ""// no comment"" )  ,
@tag( 007) //x
int8
leftPad , repeat pack
    { repeat char[ 3] body
,},
}")).
Eval vm_compute in ("<<<M3507>>>" ++ check (runes_of_ascii "options {

FixedStringPadChar= 
'0';

    }

packet 
Q{	zchar[
4 ]
    z	,@rightPad (
'\x00' )
char[
3
]	n,  char[
    5

    ]
d ,
}	root packet

    R
{	Q ,

zchar[ 
8]

    top

,repeat zchar[	2  ]

    zs
    ,  }
")).
Eval vm_compute in ("<<<M1153>>>" ++ check (runes_of_ascii "MetaData string_{char[ 255 ] msg_type	`crlf
line` , }  packet
    As { a1
`u8 x,` ,
    i8i8  ,
    @tag( 00 )
char[ // c
0]
    stringy , } // @lengthOf(
options
{ lengthOf
//
//	t
= int64}
    MetaData
    u128
{}

")).
Eval vm_compute in ("<<<M3701>>>" ++ check (runes_of_ascii "

  packet
    packetx 
{ 	 // trailing space 
	x_y_z
{
string
charz , string	x  // @lengthOf(

`two words` , 
u8x
{	// `tick` ""quote"" 'q'
      charz
`100% of %d`// packet A { u8 x, }
	, }// " ++ [27880; 37322]%N ++ runes_of_ascii "
    	,  }, }")).
Eval vm_compute in ("<<<M3978>>>" ++ check (runes_of_ascii "MetaData string_ {
    char[255] msg_type `crlf
    line`,
}

packet As {
    a1 `u8 x,`,
    i8i8,
    @tag(00)
    char[0] stringy,
}// @lengthOf(

options {
    lengthOf = int64
}

MetaData u128 {
}")).
Eval vm_compute in ("<<<M979>>>" ++ check (runes_of_ascii "packet
Pad {
    @lengthOf( pack) char[] Header, match Pad as
Logon
{42:
//
// 50% %s
x
    , [0 , 4294967296  ]
    : len	,
//	t
// @lengthOf(
""a\""b""//	t
: metadata, } ,msg_type
msg_type
, }
")).
Eval vm_compute in ("<<<M874>>>" ++ check (runes_of_ascii "root packet chars {  @rightPad ( ) @calculatedFrom( ""CRC32"" )
@calculatedFrom( ""// no comment""
)zchar[ 42
// 50% %s
//	t
] A `it's`, // " ++ [128512]%N ++ runes_of_ascii " emoji
string len , } options { Pad =false ;
}

")).
Eval vm_compute in ("<<<M956>>>" ++ check (runes_of_ascii "MetaData trueish
    { Z9_ rootA
    , }MetaData x_y_z {f32 zchar ,
    options1 asx`tab	here` ,	float u8x
    // `tick` ""quote"" 'q'
    ,
    string_ trueish,
leftPad trueish, }
")).
Eval vm_compute in ("<<<M1000>>>" ++ check (runes_of_ascii "// packet A { u8 x, }
packet a1 { }//
packet
charz
    { @calculatedFrom(""\" ++ [233]%N ++ runes_of_ascii """
    )@tag( 65535 ) @calculatedFrom( ""abc"") repeat
//	t
//
crc Z9_ , } root packet u8x {// " ++ [27880; 37322]%N ++ runes_of_ascii "
}")).
Eval vm_compute in ("<<<M3757>>>" ++ check (runes_of_ascii "
packet 
MetaDataX { @leftPad ( // a // b

'0') 
u @lengthOf( 
MetaDataX
    )
	`say ""hi""`
,	}

    MetaData
BodyLength 
{ asx x_y_z

    `" ++ [233]%N ++ runes_of_ascii "` ,
uint64
u128,  }")).
Eval vm_compute in ("<<<M1837>>>" ++ check (runes_of_ascii "options { } packet Packet{char[] i64_ ,
@tag(
    255) match
crc as i8i8{@leftpad""{,}"" : trueish """" : Pad , ""a\\"" :
Foo ,
    1 :packetx
, """ ++ [128512]%N ++ runes_of_ascii """ : trueish , } , }")).
Eval vm_compute in ("<<<M1286>>>" ++ check (runes_of_ascii "
root packet asx{
u64 T
//
// " ++ [27880; 37322]%N ++ runes_of_ascii "
`doc`
    ,
} MetaData Header // trailing space 
{ pack
    o`` ,	} MetaData repeatCount {pack  roots
    `" ++ [233]%N ++ runes_of_ascii "`,
    // c
    }
")).
Eval vm_compute in ("<<<M1698>>>" ++ check (runes_of_ascii "options { } packet Packet{char[] i64_ ,
@tag(
    255) match
crc crc as i8i8{""{,}"" : trueish """" : Pad , ""a\\"" :
Foo ,
    1 :packetx
, """ ++ [128512]%N ++ runes_of_ascii """ : trueish , } , }")).
Eval vm_compute in ("<<<M2390>>>" ++ check (runes_of_ascii "
MetaDataX packet
{
    @leftPad
( // a // b
'0'
) i8 u @lengthOf(
MetaDataX
    ) `say ""hi""` ,	} MetaData BodyLength {
    asx
x_y_z `" ++ [233]%N ++ runes_of_ascii "`
, uint64 u128 , }
")).
Eval vm_compute in ("<<<M1818>>>" ++ check (runes_of_ascii "options { } packet Packet{char[] i64_ ,
@tag(
    255) match
crc as i8i8{""{,}"" : trueish """" : Pad , ""a\\"" :
Foo ,
    1 :packetx
, """ ++ [128512]%N ++ runes_of_ascii """ : trueish , } , , }")).
Eval vm_compute in ("<<<M1834>>>" ++ check (runes_of_ascii "options { } packet Packet{char[] i64_ ,
@tag(
    255) m~atch
crc as i8i8{""{,}"" : trueish """" : Pad , ""a\\"" :
Foo ,
    1 :packetx
, """ ++ [128512]%N ++ runes_of_ascii """ : trueish , } , }")).
Eval vm_compute in ("<<<M1739>>>" ++ check (runes_of_ascii "options { } packet Packet{char[] i64_ ,
@tag(
    255) match
crc as i8i8{""{,}"" : trueish """" Pad : , ""a\\"" :
Foo ,
    1 :packetx
, """ ++ [128512]%N ++ runes_of_ascii """ : trueish , } , }")).
Eval vm_compute in ("<<<M1643>>>" ++ check (runes_of_ascii "options {  packet Packet{char[] i64_ ,
@tag(
    255) match
crc as i8i8{""{,}"" : trueish """" : Pad , ""a\\"" :
Foo ,
    1 :packetx
, """ ++ [128512]%N ++ runes_of_ascii """ : trueish , } , }")).
Eval vm_compute in ("<<<M1702>>>" ++ check (runes_of_ascii "options { } packet Packet{char[] i64_ ,
@tag(
    255) match
crc  i8i8{""{,}"" : trueish """" : Pad , ""a\\"" :
Foo ,
    1 :packetx
, """ ++ [128512]%N ++ runes_of_ascii """ : trueish , } , }")).
Eval vm_compute in ("<<<M1667>>>" ++ check (runes_of_ascii "options { } packet Packet{char[]  ,
@tag(
    255) match
crc as i8i8{""{,}"" : trueish """" : Pad , ""a\\"" :
Foo ,
    1 :packetx
, """ ++ [128512]%N ++ runes_of_ascii """ : trueish , } , }")).
Eval vm_compute in ("<<<M413>>>" ++ check (runes_of_ascii "
options	{ metadata
= // trailing space 
'0' }
root  packet MetaDataX	{// c
i8 // " ++ [27880; 37322]%N ++ runes_of_ascii "
string_, @rightPad
( '0') repeat lengthOf lengthOf
, }
//
")).
Eval vm_compute in ("<<<M1062>>>" ++ check (runes_of_ascii "root
    // c
    packet options1
    {//	t
u8x { char[ // c
007 ] stringy @calculatedFrom(
    ""// no comment""
) `100% of %d`
    , }  ,
    }")).
Eval vm_compute in ("<<<M2423>>>" ++ check (runes_of_ascii "
packet MetaDataX
{
    @leftPad
( // a // b
'0'
) i8 u @lengthOf(
MetaDataX
    ) `say ""hi""` ,	} MetaData BodyLength {
    asx
x_y_z `" ++ [233]%N ++ runes_of_ascii "`")).
Eval vm_compute in ("<<<M3438>>>" ++ check (runes_of_ascii "root packet // c1
P // c2
{ repeat // c4a
  // c4b
char // c5a
  // c5b
cs
    // c6
, u8 // c8
x
    // c9
,
    // c10
}
    // c11
")).
Eval vm_compute in ("<<<M1791>>>" ++ check (runes_of_ascii "options { } packet Packet{char[] i64_ ,
@tag(
    255) match
crc as i8i8{""{,}"" : trueish """" : Pad , ""a\\"" :
Foo ,
    1 :packetx")).
Eval vm_compute in ("<<<M3309>>>" ++ check (runes_of_ascii "MetaData metadata { } MetaData rootA { i8 i64_ , roots options1 `a\` , lengthOf Header , Z9_ Foo , int16 BodyLength , }
// c
")).
Eval vm_compute in ("<<<M3288>>>" ++ check (runes_of_ascii "MetaData metadata { } MetaData rootA { i8 i64_ , roots options1 `a\` , // c
lengthOf Header , Z9_ Foo , int16 BodyLength , }")).
Eval vm_compute in ("<<<M3455>>>" ++ check (runes_of_ascii "packet B {
    u8 a,
}
root packet P {
    u8 K,
    u64 L @lengthOf(Body),
    match K as Body {
        1 : B,
    },
}
")).
Eval vm_compute in ("<<<M4060>>>" ++ check (runes_of_ascii "packet  stringy

{  @calculatedFrom(

    ""1""

)	zchar[
	0

] body @calculatedFrom(

    ""a\""b""  )

    ,  }

")).
Eval vm_compute in ("<<<M3000>>>" ++ check (runes_of_ascii "packet A {
  match k as n {
    [""a"", ""bb"", ""c c"", ""d"", ""e"", ""f"", ""g"", ""h"", ""i"", ""j"", ""k""] : B,
    2 : C
  },
}")).
Eval vm_compute in ("<<<M3327>>>" ++ check (runes_of_ascii "MetaData float { uint8 BodyLength
// c
, } MetaData charz { float32 trueish `a\` , i16 metadata `say ""hi""` , }")).
Eval vm_compute in ("<<<M4335>>>" ++ check (runes_of_ascii "packet	A
	{
    match

k
as n{ [

1 ,
22,
007 ,
	4	,  5  , 
66
,
	7
	,8 ,
	9 ,
    10
]

:
B ,
2 :	C  },
}")).
Eval vm_compute in ("<<<M2988>>>" ++ check (runes_of_ascii "packet A {
  match k as n {
    [""a"", ""bb"", ""c c"", ""d"", ""e"", ""f"", ""g"", ""h"", ""i"", ""j""] : B
    2 : C
  },
}")).
Eval vm_compute in ("<<<M377>>>" ++ check (runes_of_ascii "  options // a // b
{ Logon = char[] ; } options{BodyLength
    = ' ' ;tag = 3} // `tick` ""quote"" 'q'")).
Eval vm_compute in ("<<<M4402>>>" ++ check (runes_of_ascii "  packet 
A{
	match k
as 
n  {  [""a"" ,  ""bb""
    ,""c c""
    ,""d"" ]
:B

    ,
	2
:	C
    }
,
	} ")).
Eval vm_compute in ("<<<M3228>>>" ++ check (runes_of_ascii "// top
MetaData // c0
zchar // c1
{ // c2
zchar[ // c3
3 // c4
] // c5
Pad // c6
, // c7
} // c8
")).
Eval vm_compute in ("<<<M4171>>>" ++ check (runes_of_ascii "
packet A {  Inner

{
u8
	x 
`a
    b
  c`, Deep 
{ u8	y `a
    b
  c`
	,
	}

    ,}

,	}
")).
Eval vm_compute in ("<<<M2948>>>" ++ check (runes_of_ascii "packet A {
  match k as n {
    [""a"", ""bb"", ""c c"", ""d"", ""e"", ""f"", ""g""] : B,
    2 : C
  },
}")).
Eval vm_compute in ("<<<M2288>>>" ++ check (runes_of_ascii "MetaData " ++ [252]%N ++ runes_of_ascii "ber {string x `// not a comment` , string
i64_ // trailing space 
`a\` ,
    }
")).
Eval vm_compute in ("<<<M1>>>" ++ check (runes_of_ascii "root packet metadata //
{ } options{ Logon =/// triple
false
; o
    =
    '\x00' ;
}
")).
Eval vm_compute in ("<<<M3442>>>" ++ check (runes_of_ascii "options 
{
LittleEndian 
= 
true;}	root
packet  P {	repeat 
char
    cs
	,
u8  x,

}
")).
Eval vm_compute in ("<<<M419>>>" ++ check (runes_of_ascii "MetaData	charz { char crc , options1 body	,zchar[255 ]
    A ,
} packet Packet
{}
")).
Eval vm_compute in ("<<<M2224>>>" ++ check (runes_of_ascii "MetaData _x { x `// not a comment` , string
i64_ // trailing space 
`a\` ,
    }
")).
Eval vm_compute in ("<<<M851>>>" ++ check (runes_of_ascii "packet u8x
// 50% %s
//
{ // 50% %s
zchar[ 007 ]BodyLength // 50% %s
,
    }

")).
Eval vm_compute in ("<<<M989>>>" ++ check (runes_of_ascii "options {// " ++ [27880; 37322]%N ++ runes_of_ascii "
zchar = ""a\""b""	; metadata= 65535	}options{ i64_
    = 0 //x
;}
")).
Eval vm_compute in ("<<<M2924>>>" ++ check (runes_of_ascii "packet A {
  match k as n {
    [1, ""bb"", 007, ""d"", 5] : B,
    2 : C
  },
}")).
Eval vm_compute in ("<<<M3661>>>" ++ check (runes_of_ascii "packet A {
    match k as n {
        [1, ""bb""] : B,
        2 : C,
    },
}")).
Eval vm_compute in ("<<<M3680>>>" ++ check (runes_of_ascii "
MetaData
    u {i64  pack  //
`{ , }`	,
	T	tag
	`" ++ [28040; 24687; 31867; 22411]%N ++ runes_of_ascii "`	,crc  int , }
")).
Eval vm_compute in ("<<<M2984>>>" ++ check (runes_of_ascii "packet A { Inner { match k as n { [1,22,007,4,5,66,7,8,9] : B, }, }, }")).
Eval vm_compute in ("<<<M3406>>>" ++ check (runes_of_ascii "packet o { // c
@tag( 4294967296 ) options1 @lengthOf( u8x ) `" ++ [233]%N ++ runes_of_ascii "` , }")).
Eval vm_compute in ("<<<M2899>>>" ++ check (runes_of_ascii "packet A {
  match k as n {
    [1, ""bb"", 007] : B
    2 : C
  },
}")).
Eval vm_compute in ("<<<M2887>>>" ++ check (runes_of_ascii "packet A {
  match k as n {
    [""a"", ""bb""] : B,
    2 : C
  },
}")).
Eval vm_compute in ("<<<M1001>>>" ++ check (runes_of_ascii "
options
    { msg_type = false Foo
    = zchar[ 42] ;
    }
")).
Eval vm_compute in ("<<<M4027>>>" ++ check (runes_of_ascii "packet	i8i8  {@leftPad
	('\x00'	)
trueish
	packetx
    ,
}")).
Eval vm_compute in ("<<<M2880>>>" ++ check (runes_of_ascii "packet A {
  match k as n {
    [1] : B,
    2 : C
  },
}")).
Eval vm_compute in ("<<<M823>>>" ++ check (runes_of_ascii "MetaData packetx
    { char[00 // a // b
] lengthOf ,}")).
Eval vm_compute in ("<<<M2294>>>" ++ check (runes_of_ascii "
MetaData Pad Pad{
u32 rootA `line1
line2` ,
    }
")).
Eval vm_compute in ("<<<M2340>>>" ++ check (runes_of_ascii "
MetaData Pad{
u32 % rootA `line1
line2` ,
    }
")).
Eval vm_compute in ("<<<M4368>>>" ++ check (runes_of_ascii "packet Z9_ {
    @lengthOf(a1)
    i32 stringy,
}")).
Eval vm_compute in ("<<<M4474>>>" ++ check (runes_of_ascii "packet	A 
{

    u8	x

    `a
b` ,
    }
")).
Eval vm_compute in ("<<<M1228>>>" ++ check (runes_of_ascii "MetaData
zchar {u16
T`// not a comment`	, }
")).
Eval vm_compute in ("<<<M1070>>>" ++ check (runes_of_ascii "
packet float {
    repeat
u16 packetx	,}
")).
Eval vm_compute in ("<<<M2607>>>" ++ check (runes_of_ascii "packet A { x @calculatedFrom(""c"") `d`, }")).
Eval vm_compute in ("<<<M833>>>" ++ check (runes_of_ascii "root packet  Z9_{	repeat body`doc`, }
")).
Eval vm_compute in ("<<<M4177>>>" ++ check (runes_of_ascii "packet
	A
{ 
u8 x 
`d" ++ [8192]%N ++ runes_of_ascii "`  , // c" ++ [8192]%N ++ runes_of_ascii "

} ")).
Eval vm_compute in ("<<<M2580>>>" ++ check (runes_of_ascii "packet A { repeat x @lengthOf(y), }")).
Eval vm_compute in ("<<<M4289>>>" ++ check (runes_of_ascii "packet A {
    u8 x `d 	`,// c 	
}")).
Eval vm_compute in ("<<<M2728>>>" ++ check (runes_of_ascii "?" ++ [65533; 127]%N ++ runes_of_ascii "Q" ++ [65533]%N ++ runes_of_ascii "Q" ++ [65533]%N ++ runes_of_ascii "3" ++ [65533; 65533]%N ++ runes_of_ascii "N" ++ [65533; 65533]%N ++ runes_of_ascii "PNmE4" ++ [4; 65533]%N ++ runes_of_ascii "z" ++ [65533; 65533; 1572]%N ++ runes_of_ascii "Q" ++ [65533; 25]%N ++ runes_of_ascii "?" ++ [25; 127; 65533]%N ++ runes_of_ascii "E")).
Eval vm_compute in ("<<<M3136>>>" ++ check (runes_of_ascii "packet A {
 u8 x `d" ++ [8202]%N ++ runes_of_ascii "`, // c" ++ [8202]%N ++ runes_of_ascii "
}")).
Eval vm_compute in ("<<<M2719>>>" ++ check (runes_of_ascii ", float64 o uint64 false ] [")).
Eval vm_compute in ("<<<M907>>>" ++ check (runes_of_ascii "options {
    asx =u8 ;
}")).
Eval vm_compute in ("<<<M2780>>>" ++ check (runes_of_ascii "k" ++ [65533]%N ++ runes_of_ascii "h" ++ [65533]%N ++ runes_of_ascii "#E" ++ [5; 65533; 65533]%N ++ runes_of_ascii "l" ++ [65533]%N ++ runes_of_ascii "2" ++ [28]%N ++ runes_of_ascii "$3H" ++ [65533; 1]%N ++ runes_of_ascii "3" ++ [2]%N ++ runes_of_ascii "F7" ++ [65533]%N ++ runes_of_ascii "O6")).
Eval vm_compute in ("<<<M930>>>" ++ check (runes_of_ascii "packet
packetx
    {}
")).
Eval vm_compute in ("<<<M2759>>>" ++ check (runes_of_ascii "[ float32 { root root")).
Eval vm_compute in ("<<<M2312>>>" ++ check (runes_of_ascii "
MetaData Pad{
u32")).
Eval vm_compute in ("<<<M3114>>>" ++ check (runes_of_ascii "packet A {
}
// c" ++ [160]%N)).
Eval vm_compute in ("<<<M3690>>>" ++ check (runes_of_ascii "
packet

A 
{ 
} ")).
Eval vm_compute in ("<<<M3152>>>" ++ check (runes_of_ascii "packet A {
}// c" ++ [8287]%N)).
Eval vm_compute in ("<<<M2586>>>" ++ check (runes_of_ascii "packet A { u8 }")).
Eval vm_compute in ("<<<M2781>>>" ++ check (runes_of_ascii "k'SVG~y<dzlq;")).
Eval vm_compute in ("<<<M2877>>>" ++ check (runes_of_ascii "uint16 int8")).
Eval vm_compute in ("<<<M2499>>>" ++ check (runes_of_ascii "@leftPad")).
Eval vm_compute in ("<<<M4461>>>" ++ check (runes_of_ascii "  // c
")).
Eval vm_compute in ("<<<M2469>>>" ++ check (runes_of_ascii "true1")).
Eval vm_compute in ("<<<M941>>>" ++ check (runes_of_ascii "
 //")).
Eval vm_compute in ("<<<M609>>>" ++ check (runes_of_ascii " 	 ")).
Eval vm_compute in ("<<<M9>>>" ++ check (runes_of_ascii "
")).
Eval vm_compute in ("<<<M2525>>>" ++ check (runes_of_ascii """")).
