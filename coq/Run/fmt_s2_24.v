From FP Require Import Lexer Parser ShowPT Digest Formatter.
From Coq Require Import String List NArith.
Import ListNotations.
Open Scope string_scope.
Set Printing Width 100000000.
Set Printing Depth 100000000.
Definition show_fres (r : fres) : string :=
  match r with
  | FOk s => "OK:" ++ sh_escaped s ""
  | FErr s => "ERR:" ++ sh_escaped s ""
  | FPanic p => "PANIC:" ++ p
  end.
Definition check (rs : list rune) : string := digest (show_fres (format_res rs)).
Definition full (rs : list rune) : string := show_fres (format_res rs).
Eval vm_compute in ("<<<M180>>>" ++ check (runes_of_ascii "// @lengthOf(
MetaData
zchar {string
o
`crlf
line`	, char[]
pack // c
`crlf
line` , char[]
    // trailing space 
    Foo,
} options { stringy =
""`tick`""
    } packet leftPad {
    packetx
    @lengthOf(  roots), @lengthOf(int
// a // b
// " ++ [27880; 37322]%N ++ runes_of_ascii "
) @calculatedFrom( ""a\""b"" )
    @calculatedFrom( """ ++ [28040; 24687]%N ++ runes_of_ascii """ ) int32
MetaDataX `" ++ [233]%N ++ runes_of_ascii "` // " ++ [27880; 37322]%N ++ runes_of_ascii "
, u8 int// `tick` ""quote"" 'q'
,
@lengthOf( options1
    ) repeat u8 BodyLength// `tick` ""quote"" 'q'
,
    @tag( 1
    ) Logon
    ,repeat int32 u8x
`say ""hi""`, match int
as
charz	{ ""abc"" : roots } ,string_ {zchar	@lengthOf( calculatedFrom ) ``
,
} , } root packet lengthOf {
@tag( 4294967296 )A // packet A { u8 x, }
@lengthOf( i64_ )`doc` , body@lengthOf( lengthOf ) `it's`
    // packet A { u8 x, }
    , zchar[ 10 ] // " ++ [27880; 37322]%N ++ runes_of_ascii "
i8i8, @calculatedFrom( """ ++ [233]%N ++ runes_of_ascii "t" ++ [233]%N ++ runes_of_ascii """	) i64 int `u8 x,`,	repeat trueish { string  options1 , zchar[
    0123456789 ]_x
`tab	here` ,
Pad
    { repeat string repeatCount , repeat string _x , Packet
@lengthOf( roots ) `
`
    , string crc@calculatedFrom(""abc""),
} , match i8i8 as  string_ {// c
[ ""it's""
]
:
options1 ,
//
// @lengthOf(
""a	b"":
string_ , [
""a	b""
, 00 ] //	t
: // `tick` ""quote"" 'q'
metadata  ,
    0 :	o
    ""\" ++ [233]%N ++ runes_of_ascii """
    : Pad // packet A { u8 x, }
,}
,} , char[7 ]  i8i8 `tab	here`
    , roots { repeat uint8 _x`tab	here`,	}  ,
    repeat int64 f32a	,
match asx
as calculatedFrom { 65535 : asx
// trailing space 
//x
, [ 1
] :  uint8x,
42 :x
[ ""x y"" , ""1"",""`tick`"" , ""1"" ,
""1""
,	""a	b"" ]
    :
    MetaDataX }
,} MetaData
chars
    { }")).
Eval vm_compute in ("<<<M213>>>" ++ check (runes_of_ascii "packet a1
{
@lengthOf(	f32a	) repeat u64	string_
    ,
    @calculatedFrom( """"
    ) repeat	i16 tag `u8 x,` , @tag( 42 ) @calculatedFrom(	""a\\"")  @calculatedFrom( ""\" ++ [233]%N ++ runes_of_ascii """
) zchar[ 10
] Foo , char[42
    //	t
    ]
    body `// not a comment` , }MetaData roots{ uint64
Z9_ `{ , }`,
char[]charz `doc` , uint16 u128 `u8 x,` , zchar[ 4294967296 // trailing space 
]
    len
,
float32
stringy
,
} packet
Z9_	{ @leftPad ('\x00')
    @tag(42 ) @tag( 7)
    roots x
    , @lengthOf( int ) crc zchar
//	t
//
, } packet string_ { u8 Pad
// c
// " ++ [128512]%N ++ runes_of_ascii " emoji
, u64 chars
,
    @lengthOf(	Logon
)
    pack
,
@leftPad (
    ) @rightPad//
(
    ' '	)@calculatedFrom(""a	b"")
    i8 x `crlf
line`
    , char[ 0123456789 // @lengthOf(
]options1 @calculatedFrom( ""{,}"" )
`two words` ,uint64 charz `doc` , char[] u128
// packet A { u8 x, }
//	t
,
    @calculatedFrom( ""1"" ) repeat matchKey
    {
repeat int o// c
, } ,
@lengthOf(calculatedFrom
    )@rightPad ( '\x00')
@tag( 00 )
MetaDataX { uint32 BodyLength, } ,
// trailing space 
//
} packet lengthOf {  @calculatedFrom(	""" ++ [28040; 24687]%N ++ runes_of_ascii """
    )
// trailing space 
// " ++ [27880; 37322]%N ++ runes_of_ascii "
repeat	repeatCount { repeat char[ 7]	pack `// not a comment`, }
, }
")).
Eval vm_compute in ("<<<M248>>>" ++ check (runes_of_ascii "packet
Packet
    {
} packet repeatCount{@tag(	4294967296
    ) @lengthOf(A  ) @lengthOf( float ) rootA ,
@tag(0123456789  )
Header
    `// not a comment`,  matchKey
    f32a
    , Pad, repeat float32	uint8x
    `" ++ [233]%N ++ runes_of_ascii "` ,@leftPad
    ('\x00' )	repeat
    char[3]
tag `
`, repeat
pack {
repeat x { repeat f64 len ,
    i64_ len, }
    ,
repeatCount
    // `tick` ""quote"" 'q'
    @lengthOf(uint8x
    ) , match	zchar  as a1 {
// a // b
// packet A { u8 x, }
3: u ,
},// packet A { u8 x, }
repeat rootA
{ options1 {
repeat body u8x `crlf
line`	, match Z9_ as
    f32a{007
:repeatCount ,
    ""packet""
: calculatedFrom
    ,
    // " ++ [128512]%N ++ runes_of_ascii " emoji
    10 // `tick` ""quote"" 'q'
: /// triple
calculatedFrom
    ,
""CRC32""  :	_x , [	""x y""	] : i64_ , ""packet""
// `tick` ""quote"" 'q'
// a // b
:// `tick` ""quote"" 'q'
MetaDataX
    ,  }
// a // b
// " ++ [27880; 37322]%N ++ runes_of_ascii "
, } ,
    //x
    } , } ,  } MetaData// @lengthOf(
asx {	u trueish ,chars // c
f32a `// not a comment`	, float64 u128 , string_ string_ `
` , }packet crc
{ }")).
Eval vm_compute in ("<<<M1889>>>" ++ check (runes_of_ascii "  options	{ LittleEndian
	= true ;StringPrefixLenType = 
u32  ; 
FixedStringPadChar 
='0'
	;	}  packet Logout
	{ 
repeat

InMsgkind49	{
    u8
    pad0

,
	}
,repeat char[ 
5]seqNo ,repeat

u8 price 
,} 
packet Party
    { zchar[ 7
]  Qty
    ,

    }
packet Logon
{
repeat
	InRef10 {  string 
price	, 
char[]  sym	,
repeat	Logout
,},

    repeat
    char[ 3
]count ,repeat 
Party,	char[] tag7, 
@rightPad 
( '0'
) char[

2]clOrdID ,
    }packet
Order 
{

    InTail13 { Party ,  }
,	repeat  char[

4  ]
count ,}root

packet 
Cancel{

Logout

    ,
@leftPad

('0' ) 
char[
	9 
] msgKind ,
string
	lastPx
	,	string

tag7

    ,
	zchar[
1  ]

OrderId
,
    repeat	Party

,  u16  sym	, 
u16 
Acct
	@lengthOf(
Body
) ,
match

sym
    as 
Body {
	[
24 , 
44	]
:
Logout , 
160 : Order	,91

    :Logon

    ,43:
Party	,
    } ,
u16	Tail
@calculatedFrom(""CRC32""

)
	,
} ")).
Eval vm_compute in ("<<<M1924>>>" ++ check (runes_of_ascii "MetaData msg_type {
    string charz,
    crc u8x,
    u16 x_y_z `u8 x,`,
    i64 zchar,
}

// @lengthOf(
packet T {
    @calculatedFrom(""a\\"")
    uint16 chars @calculatedFrom(""x y"") `
    `,
}

packet pack {
}

options {
}

packet trueish {
    // trailing space 
    @calculatedFrom(""abc"")
    match chars as lengthOf {
        [4294967296] : a1,
        [
            ""CRC32"", 7, ""1"", 4294967296, ""a\\"",
            0, 65535, ""{,}""
        ] : a1,
    },
    string lengthOf `" ++ [28040; 24687; 31867; 22411]%N ++ runes_of_ascii "`,
    @lengthOf(x)
    match charz as a1 {
        255 : Logon,
    },
    @calculatedFrom(""a	b"")
    @tag(00)
    @lengthOf(zchar)
    body @lengthOf(msg_type),
    MetaDataX @lengthOf(len) `a\`,
    @rightPad('\x00')
    @lengthOf(Packet)
    string u128 `u8 x,`,
    packetx @lengthOf(o),
}
// @lengthOf(")).
Eval vm_compute in ("<<<M292>>>" ++ check (runes_of_ascii "packet tag	{/// triple
@leftPad (  '\x00' )char[ 10 ]
//	t
// a // b
calculatedFrom , @calculatedFrom( ""a\\"")
    char[ // " ++ [128512]%N ++ runes_of_ascii " emoji
65535 ] BodyLength
,
match i8i8 as repeatCount  { ""{,}"" : asx
""" ++ [233]%N ++ runes_of_ascii "t" ++ [233]%N ++ runes_of_ascii """ : lengthOf/// triple
,  [
    10 ,""""
    ] : crc } , @tag( // trailing space 
10 ) match chars
as
    // " ++ [128512]%N ++ runes_of_ascii " emoji
    Logon {0:
crc ,	[ """ ++ [128512]%N ++ runes_of_ascii """  ,
//x
// " ++ [128512]%N ++ runes_of_ascii " emoji
255, ""a\\"" ]:len
    ,
// @lengthOf(
// " ++ [27880; 37322]%N ++ runes_of_ascii "
} ,
@calculatedFrom(  ""`tick`""
    ) @calculatedFrom(""\" ++ [233]%N ++ runes_of_ascii """  ) o matchKey `crlf
line`  ,
@calculatedFrom( """ ++ [28040; 24687]%N ++ runes_of_ascii """ ) @lengthOf(leftPad/// triple
)// packet A { u8 x, }
@rightPad  (
'0' ) char[] float@calculatedFrom( ""it's"" )
    ,@rightPad
(
    '0' ) crc x
    , Foo T ,// @lengthOf(
zchar[  00 ] charz @lengthOf( tag )
, }")).
Eval vm_compute in ("<<<M1602>>>" ++ check (runes_of_ascii "options {
    string_ = char[7];
}

options {
    crc = float64;
    Logon = false// a // b
    As = '0'
    f32a = char[];// packet A { u8 x, }
    T = 00
}

root packet x {
    @calculatedFrom(""1"")
    repeat zchar[255] string_,
}

root packet int {
    @tag(4294967296)
    char[255] a1,
    repeat x ``,
    char[] packetx @lengthOf(uint8x) `u8 x,`,
    zchar[10] leftPad @calculatedFrom(""a	b""),
    lengthOf @calculatedFrom(""""),
    @calculatedFrom(""packet"")
    i32 matchKey,
    @rightPad()
    zchar[1] A,
    u32 Packet @calculatedFrom(""{,}"") `a\`,// c
    repeat char[00] Header `say ""hi""`,
    stringy trueish `// not a comment`,
}")).
Eval vm_compute in ("<<<M1921>>>" ++ check (runes_of_ascii "packet chars
{
zchar[  10	]x  @lengthOf(repeatCount
    )

    ,  repeat metadata{string
    int ,

repeat
matchKey //x
  ,

match  leftPad  as

o 
{

    0

: matchKey

    // " ++ [27880; 37322]%N ++ runes_of_ascii "
,
[ 0]  :

float
    0:	packetx	// " ++ [128512]%N ++ runes_of_ascii " emoji
    	255  :

i64_ , //	t
      [	0  ,007
    ,
""a\\"" , 
    //	t
    	""" ++ [128512]%N ++ runes_of_ascii """,65535 ,
255

    ]

:

    charz  ,	255 :

    u
	, 
} ,
}
, @rightPad  (  ' '	)
	// packet A { u8 x, }
    // " ++ [128512]%N ++ runes_of_ascii " emoji
	  @tag( 
255
    )  // c
  	@rightPad(

    ' ') u16  falsey

, } options
    { f32a =
    """ ++ [128512]%N ++ runes_of_ascii """ 
; }")).
Eval vm_compute in ("<<<M1551>>>" ++ check (runes_of_ascii "  packet float 	 // a // b
    { // c

}
	packet  u128 { 
@calculatedFrom( 
""1""
	)	asx	x_y_z
`" ++ [28040; 24687; 31867; 22411]%N ++ runes_of_ascii "`
,  } root	packet

    u8x
	{  repeat uint8x	T 
,  } packet

    leftPad
    {
i64_,

    @leftPad(

    '0'	)
	repeat tag 
,
repeat uint8x { matchKey @calculatedFrom(""abc"") 
,
string charz
	,	} 	 // trailing space 
  ,@rightPad	(

    ) zchar[ 
10 ]
charz @calculatedFrom( 
""" ++ [128512]%N ++ runes_of_ascii """

    ) `// not a comment`	, 	 // trailing space 
    	} 
// @lengthOf(
")).
Eval vm_compute in ("<<<M1461>>>" ++ check (runes_of_ascii "options {
    LittleEndian = false;
    StringPrefixLenType = u8;
    ArrayPrefixLenType = u16;
    FixedStringPadFromLeft = false;
}
packet Heartbeat {
    u8 seqNo,
    @rightPad('\x00') char[8] x,
}
root packet Trade {
    repeat Heartbeat,
    float32 OrderId,
    i64 Acct,
    u16 Qty,
    u16 clOrdID,
    match clOrdID as Body {
        131 : Heartbeat,
    },
    u16 sym @calculatedFrom(""CRC32""),
}
")).
Eval vm_compute in ("<<<M260>>>" ++ check (runes_of_ascii "// " ++ [27880; 37322]%N ++ runes_of_ascii "
packet tag { repeat i64_
/// triple
// @lengthOf(
{
zchar[007 ]  Logon@calculatedFrom( ""packet""
    ) , repeat char[]leftPad `a\`
    ,
    zchar[ 3
] float , }, }packet pack //
{
    repeat i8
    len `
` ,
    }
root packet uint8x
    { // packet A { u8 x, }
@leftPad
() @calculatedFrom( ""a\\""
    ) @rightPad ( '\x00') repeat char[	0
]
T,
    } //	t")).
Eval vm_compute in ("<<<M64>>>" ++ check (runes_of_ascii "MetaData chars {
char[] // " ++ [128512]%N ++ runes_of_ascii " emoji
As `a\` , } packet repeatCount {repeat
    //x
    charz
{ char[ 00 ]	Pad,
} , @calculatedFrom( ""// no comment"" )
char[] matchKey //x
`doc` ,u64 T@lengthOf(
int
) , }
packet Header /// triple
{  @calculatedFrom(""a\""b"") char[65535 ]
// trailing space 
// `tick` ""quote"" 'q'
falsey , }
")).
Eval vm_compute in ("<<<M192>>>" ++ check (runes_of_ascii "root
packet	i64_
    {
    }options{ chars
= char[
65535 ] body = ""abc""; u= ""`tick`"" trueish
='0' }options
{repeatCount= '\x00'
// " ++ [128512]%N ++ runes_of_ascii " emoji
/// triple
;
    f32a =""\n"" int
    /// triple
    = false Pad
= ""1""repeatCount =""// no comment""; }root packet string_
{i32 As `tab	here` , } // c")).
Eval vm_compute in ("<<<M14>>>" ++ check (runes_of_ascii "MetaData	packetx {
    packetx i64_ `say ""hi""` ,  } options {
    } packet string_ {
@lengthOf(repeatCount ) len
{ zchar[ 10]
// " ++ [128512]%N ++ runes_of_ascii " emoji
// `tick` ""quote"" 'q'
u128 ,
    f32
    falsey`say ""hi""`
,uint16// a // b
f32a
    `crlf
line`
,
    } , }
// " ++ [27880; 37322]%N ++ runes_of_ascii "
")).
Eval vm_compute in ("<<<M1807>>>" ++ check (runes_of_ascii "// top
packet u128 {
    // c2
    @lengthOf(body)
    // c5
    match x_y_z as u {
        // c10
        ""x y"" : i8i8,
        // c14
    },
    // c16
    @tag(255)
    // c19
    char[] roots @lengthOf(int),
    // c25
}
// c26")).
Eval vm_compute in ("<<<M477>>>" ++ check (runes_of_ascii "options
{
matchKey = 42/// triple
x='0' ;
// packet A { u8 x, }
//
charz
=
// packet A { u8 x, }
// trailing space 
true  ; } MetaData BodyLength
{
uint8
pack pack,zchar[ 1]float ,  float32 x_y_z `` ,u32
_x,i16 body  , }
")).
Eval vm_compute in ("<<<M482>>>" ++ check (runes_of_ascii "options
{
matchKey = 42/// triple
x='0' ;
// packet A { u8 x, }
//
charz
=
// packet A { u8 x, }
// trailing space 
true  ; } MetaData BodyLength
{
uint8
pack, ,zchar[ 1]float ,  float32 x_y_z `` ,u32
_x,i16 body  , }
")).
Eval vm_compute in ("<<<M262>>>" ++ check (runes_of_ascii "packet charz
{ @lengthOf(leftPad ) charz  @calculatedFrom( ""a\""b""
)`it's`	, char[]
Foo ,	uint8 MetaDataX `u8 x,`
    ,int64 i8i8 , @calculatedFrom( ""a	b""
) zchar[ // trailing space 
7 ] string_, } MetaData Pad{
    }")).
Eval vm_compute in ("<<<M534>>>" ++ check (runes_of_ascii "options
{
matchKey = 42/// triple
x='0' ;
// packet A { u8 x, }
//
charz
=
// packet A { u8 x, }
// trailing space 
true  ; } MetaData BodyLength
{
uint8
pack,zchar[ 1]float ,  float32 x_y_z `` ,u64
_x,i16 body  , }
")).
Eval vm_compute in ("<<<M554>>>" ++ check (runes_of_ascii "options
{
matchKey = 42/// triple
x='0' ;
// packet A { u8 x, }
//
charz
=
// packet A { u8 x, }
// trailing space 
true  ; } MetaData BodyLength
{
uint8
pack,zchar[ 1]float ,  float32 x_y_z `` ,u32
_x,i16 :  , }
")).
Eval vm_compute in ("<<<M173>>>" ++ check (runes_of_ascii "//
packet
    u { }
    packet
    u8x { }options  {
    Logon =string ; calculatedFrom ='\x00'
;
BodyLength// " ++ [27880; 37322]%N ++ runes_of_ascii "
= 1; //	t
_x// " ++ [27880; 37322]%N ++ runes_of_ascii "
=""CRC32""; } root
/// triple
// " ++ [27880; 37322]%N ++ runes_of_ascii "
packet Z9_ {
}
    MetaData chars  {
}
")).
Eval vm_compute in ("<<<M1880>>>" ++ check (runes_of_ascii "// top
packet Logon {
    // c2
    @tag(42)
    // c5
    @rightPad(' ')
    // c9
    @leftPad()
    // c12
    repeat trueish {
        // c15
        string T,// c18
    },// c20
}// c21")).
Eval vm_compute in ("<<<M684>>>" ++ check (runes_of_ascii "// c
packet i64_ {	char[] calculatedFrom , } packet
trueish  {@calculatedFrom(
""a\\"" ) o { i32 falsey@lengthOf( uint8x ),
} } , } // `tick` ""quote"" 'q'
options {// c
Z9_ = ' '//
}
")).
Eval vm_compute in ("<<<M722>>>" ++ check (runes_of_ascii "// c
packet i64_ {	char[] calculatedFrom , } packet
trueish  {@calculatedFrom(
""a\\"" ) o { i32 falsey@lengthOf( uint8x ),
 , } // `tick` ""quote"" 'q'
options {// c
Z9_ = ' '//
}
")).
Eval vm_compute in ("<<<M495>>>" ++ check (runes_of_ascii "options
{
matchKey = 42/// triple
x='0' ;
// packet A { u8 x, }
//
charz
=
// packet A { u8 x, }
// trailing space 
true  ; } MetaData BodyLength
{
uint8
pack,zchar[")).
Eval vm_compute in ("<<<M1964>>>" ++ check (runes_of_ascii "packet A {
    match k as n {
        [
            1, 22, 007, 4, 5,
            66, 7, 8, 9, 10,
            11, 12
        ] : B,
        2 : C,
    },
}")).
Eval vm_compute in ("<<<M1952>>>" ++ check (runes_of_ascii "packet A {
    match k as n {
        [
            ""a"", ""bb"", 007, ""d"", ""e"",
            66, ""g"", ""h"", 9
        ] : B,
        2 : C,
    },
}")).
Eval vm_compute in ("<<<M1882>>>" ++ check (runes_of_ascii "packet Header {
    float32 repeatCount @lengthOf(f32a),
}

options {
    As = true;
}

packet Pad {
    @rightPad(' ')
    leftPad,
}")).
Eval vm_compute in ("<<<M152>>>" ++ check (runes_of_ascii "options
    {
matchKey
= ' '
tag  = '\x00' ;
    metadata
// `tick` ""quote"" 'q'
// @lengthOf(
=  string ; charz
= 65535
; }
")).
Eval vm_compute in ("<<<M1606>>>" ++ check (runes_of_ascii "packet
    i8i8
	{
lengthOf

lengthOf `u8 x,`
	,

} options
	{ u
	='\x00'
    ; }
	MetaData
	i64_	{
} MetaData Header{	}")).
Eval vm_compute in ("<<<M649>>>" ++ check (runes_of_ascii "MetaData
    // trailing space 
    matchKey
{ u64 chars // a // b
,char[] lengthOf `// not a comment`
    , //	t" ++ [8232]%N ++ runes_of_ascii "
}")).
Eval vm_compute in ("<<<M1980>>>" ++ check (runes_of_ascii "  packet
    o

    {
	@tag(
    42	)

    repeat	x{ 
char[
    0123456789 ]	i64_	,
	}  ,  } options
	{  }	// c
")).
Eval vm_compute in ("<<<M1857>>>" ++ check (runes_of_ascii "// @lengthOf(
options {
}

packet pack {
    //
}

options {
}

MetaData msg_type {
}

root packet repeatCount {
}")).
Eval vm_compute in ("<<<M1485>>>" ++ check (runes_of_ascii "packet Logon {
    @tag(42)
    @rightPad(' ')
    @leftPad()
    repeat trueish {
        string T,
    },
}")).
Eval vm_compute in ("<<<M930>>>" ++ check (runes_of_ascii "packet A {
    u16 len @lengthOf(body) `
`,
    u32 crc @calculatedFrom(""CRC32"") `
`,
    string body,
}")).
Eval vm_compute in ("<<<M1272>>>" ++ check (runes_of_ascii "packet calculatedFrom { @tag( 4294967296 ) u msg_type , char[
// c
3 ] crc @lengthOf( len ) `u8 x,` , }")).
Eval vm_compute in ("<<<M1406>>>" ++ check (runes_of_ascii "packet FooBar {
    u8 a,
}
packet foo_bar {
    u16 b,
}
root packet R {
    FooBar,
    foo_bar,
}
")).
Eval vm_compute in ("<<<M882>>>" ++ check (runes_of_ascii "packet A {
  match k as n {
    [1, ""bb"", 007, ""d"", 5, ""f"", 7, ""h"", 9, ""j""] : B
    2 : C
  },
}")).
Eval vm_compute in ("<<<M1150>>>" ++ check (runes_of_ascii "packet Logon { @tag( 42 ) @rightPad ( ' ' ) @leftPad // c
( ) repeat trueish { string T , } , }")).
Eval vm_compute in ("<<<M1648>>>" ++ check (runes_of_ascii "

  MetaData
	_x {zchar[
        // c

	4294967296
    ]

lengthOf 
`// not a comment`
	,

}

")).
Eval vm_compute in ("<<<M873>>>" ++ check (runes_of_ascii "packet A {
  match k as n {
    [1, 22, ""c c"", 4, 5, ""f"", 7, 8, ""i""] : B
    2 : C
  },
}")).
Eval vm_compute in ("<<<M630>>>" ++ check (runes_of_ascii "MetaData
    // trailing space 
    matchKey
{ u64 chars // a // b
,char[] lengthOf")).
Eval vm_compute in ("<<<M331>>>" ++ check (runes_of_ascii "MetaData
// a // b
//	t
rootA { } options //
{ tag // `tick` ""quote"" 'q'
=
3; }
")).
Eval vm_compute in ("<<<M1233>>>" ++ check (runes_of_ascii "packet o { @tag( 42 ) repeat x { char[ 0123456789 ] i64_
// c
, } , } options { }")).
Eval vm_compute in ("<<<M823>>>" ++ check (runes_of_ascii "packet A {
  match k as n {
    [""a"", ""bb"", 007, ""d"", ""e""] : B
    2 : C
  },
}")).
Eval vm_compute in ("<<<M816>>>" ++ check (runes_of_ascii "packet A {
  match k as n {
    [1, ""bb"", 007, ""d"", 5] : B,
    2 : C
  },
}")).
Eval vm_compute in ("<<<M1098>>>" ++ check (runes_of_ascii "packet A {
    match k as n {
        1 : B // c
        , // d
    },
}")).
Eval vm_compute in ("<<<M1315>>>" ++ check (runes_of_ascii "MetaData _x { zchar[ // c
4294967296 ] lengthOf `// not a comment` , }")).
Eval vm_compute in ("<<<M568>>>" ++ check (runes_of_ascii "options
{
matchKey = 42/// triple
x='0' ;
// packet A { u8 x, }
/")).
Eval vm_compute in ("<<<M1747>>>" ++ check (runes_of_ascii "packet A {
    B {
        // a
        u8 x,// b
    },// d
}")).
Eval vm_compute in ("<<<M615>>>" ++ check (runes_of_ascii "MetaData
    // trailing space 
    matchKey
{ u64 chars")).
Eval vm_compute in ("<<<M1959>>>" ++ check (runes_of_ascii "packet x_y_z {
    i8 As @calculatedFrom(""a	b""),
}")).
Eval vm_compute in ("<<<M932>>>" ++ check (runes_of_ascii "MetaData M {
    u8 x `
`,
    T t `
`,
}")).
Eval vm_compute in ("<<<M1982>>>" ++ check (runes_of_ascii "// " ++ [128512]%N ++ runes_of_ascii " emoji
packet roots {
}// @lengthOf(")).
Eval vm_compute in ("<<<M762>>>" ++ check (runes_of_ascii "false , @calculatedFrom( ""abc"" [ =")).
Eval vm_compute in ("<<<M1550>>>" ++ check (runes_of_ascii "
options
// " ++ [128512]%N ++ runes_of_ascii " emoji
    	{ }

")).
Eval vm_compute in ("<<<M1504>>>" ++ check (runes_of_ascii "
options

{Packet = char[] 
}")).
Eval vm_compute in ("<<<M114>>>" ++ check (runes_of_ascii "//	t
packet
Logon { } 	 ")).
Eval vm_compute in ("<<<M1666>>>" ++ check (runes_of_ascii "// packet A { u8 x, }
")).
Eval vm_compute in ("<<<M981>>>" ++ check (runes_of_ascii "// c" ++ [12288]%N ++ runes_of_ascii "
packet A {
}")).
Eval vm_compute in ("<<<M1082>>>" ++ check (runes_of_ascii "packet A { // a
 }")).
Eval vm_compute in ("<<<M751>>>" ++ check (runes_of_ascii "u16 uint16 true")).
Eval vm_compute in ("<<<M191>>>" ++ check (runes_of_ascii "//


")).
Eval vm_compute in ("<<<M734>>>" ++ check ([0]%N)).
