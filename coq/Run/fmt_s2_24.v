From FP Require Import Lexer Parser ShowPT Digest Formatter.
From Coq Require Import String List NArith.
Import ListNotations.
Open Scope string_scope.
Set Printing Width 100000000.
Set Printing Depth 100000000.
Definition show_fres (r : fres) : string :=
  match r with
  | FOk s => "OK:" ++ sh_escaped s ""
  | FErr s => "ERR:" ++ sh_escaped s ""
  | FPanic p => "PANIC:" ++ p
  end.
Definition check (rs : list rune) : string := digest (show_fres (format_res rs)).
Definition full (rs : list rune) : string := show_fres (format_res rs).
Eval vm_compute in ("<<<M3530>>>" ++ check (runes_of_ascii "// top
options // c0a
  // c0b
{ // c1
LittleEndian = // c3a
  // c3b
false
    // c4
; // c5a
  // c5b
StringPrefixLenType
    // c6
= u16 ; // c9
ArrayPrefixLenType = // c11
u64 // c12a
  // c12b
; FixedStringPadFromLeft // c14a
  // c14b
=
    // c15
true // c16
; // c17a
  // c17b
FixedStringPadChar
    // c18
= // c19
' '
    // c20
; // c21
} // c22a
  // c22b
packet
    // c23
Logon // c24a
  // c24b
{ // c25
u16 // c26a
  // c26b
Tail // c27a
  // c27b
, repeat string
    // c30
x
    // c31
, i16
    // c33
count // c34a
  // c34b
, @leftPad // c36a
  // c36b
( // c37
'0' ) // c39a
  // c39b
char[ 3 // c41
]
    // c42
Note // c43a
  // c43b
, } // c45
packet // c46a
  // c46b
Fill // c47
{
    // c48
}
    // c49
packet Heartbeat // c51a
  // c51b
{
    // c52
} // c53
packet
    // c54
Reject // c55
{ // c56
string // c57
msgKind // c58a
  // c58b
, // c59a
  // c59b
repeat
    // c60
Logon // c61
, // c62
InFlags25 // c63
{ repeat InPrice29 { u8 // c68a
  // c68b
price // c69a
  // c69b
, // c70a
  // c70b
Logon
    // c71
, repeat
    // c73
char[ // c74a
  // c74b
1 // c75a
  // c75b
] Note
    // c77
, }
    // c79
, // c80
char[] // c81
x // c82
, // c83
Fill , // c85
} // c86a
  // c86b
, repeat // c88a
  // c88b
Heartbeat , // c90a
  // c90b
} // c91a
  // c91b
root // c92
packet // c93a
  // c93b
Order { InNote88 // c96
{ // c97
repeat // c98a
  // c98b
i32
    // c99
Acct ,
    // c101
repeat // c102a
  // c102b
i16 clOrdID // c104
, // c105a
  // c105b
repeat // c106a
  // c106b
Logon // c107
, } // c109
, // c110a
  // c110b
u16 tag7 // c112a
  // c112b
,
    // c113
match // c114
tag7 as
    // c116
Body // c117
{ [
    // c119
14 // c120
, // c121a
  // c121b
22 // c122a
  // c122b
] :
    // c124
Logon // c125
,
    // c126
55 // c127a
  // c127b
: // c128a
  // c128b
Heartbeat , // c130
93 // c131a
  // c131b
: Reject , // c134a
  // c134b
13 // c135
: // c136a
  // c136b
Fill
    // c137
, // c138
}
    // c139
, // c140a
  // c140b
}
    // c141
")).
Eval vm_compute in ("<<<M869>>>" ++ check (runes_of_ascii "// trailing space 
root packet options1
{
match u8x as tag {1 :As } ,
// packet A { u8 x, }
// `tick` ""quote"" 'q'
} // " ++ [128512]%N ++ runes_of_ascii " emoji
root  packet
// " ++ [27880; 37322]%N ++ runes_of_ascii "
// " ++ [27880; 37322]%N ++ runes_of_ascii "
roots
{MetaDataX
@calculatedFrom(""abc""
)// " ++ [128512]%N ++ runes_of_ascii " emoji
, //
repeat zchar uint8x
,
u8x
roots
,// packet A { u8 x, }
a1	`u8 x,`
, float32 int@lengthOf( metadata ) `a\`, match
    charz as i8i8
    { 42	:Pad [  10  ,
    ""1"" ] // `tick` ""quote"" 'q'
:  pack}
    // packet A { u8 x, }
    , repeat // c
Header
// a // b
//x
, } packet repeatCount {
    @lengthOf( metadata)@calculatedFrom( ""CRC32""
    )@lengthOf(
// c
// " ++ [27880; 37322]%N ++ runes_of_ascii "
x_y_z )
    As @lengthOf(
    u128 ), @calculatedFrom(
    ""a	b""
) // " ++ [27880; 37322]%N ++ runes_of_ascii "
o {  A@calculatedFrom( ""CRC32""
)
`it's` , body`{ , }` , }, @calculatedFrom(""packet""
    )
    @lengthOf( A
) @tag( 255 ) repeat BodyLength trueish ,  u
{ Pad{ string repeatCount ``/// triple
, } ,
}
    ,@tag(
    4294967296
)@tag(
10 )repeat zchar tag
,repeat crc {repeat tag	T // " ++ [27880; 37322]%N ++ runes_of_ascii "
`" ++ [28040; 24687; 31867; 22411]%N ++ runes_of_ascii "`
    , //
match
    // " ++ [128512]%N ++ runes_of_ascii " emoji
    matchKey as crc {
4294967296 /// triple
: tag, """ ++ [128512]%N ++ runes_of_ascii """
: // @lengthOf(
Packet 65535: uint8x ,}// @lengthOf(
,
pack { f32 zchar @calculatedFrom( ""abc"" )
,} , match zchar as// @lengthOf(
options1
{
//
// @lengthOf(
0123456789	:x 007  : repeatCount
[ ""packet""
    //x
    ,0123456789
,
    ""// no comment"",
""x y"" ]
// @lengthOf(
// " ++ [128512]%N ++ runes_of_ascii " emoji
:
Header	, 3: MetaDataX	""// no comment""
:
    len  ,  [  0 ] :
    //x
    Header ,} ,
} ,
repeat f32a {repeat
    Header  , // " ++ [27880; 37322]%N ++ runes_of_ascii "
calculatedFrom
{ a1 {leftPad
`say ""hi""` ,
    zchar[ 255 ]//x
f32a //
@calculatedFrom(
""\n"" ) `// not a comment` ,  Foo @lengthOf(o ) //
`" ++ [233]%N ++ runes_of_ascii "` , } , }	,},} 	 ")).
Eval vm_compute in ("<<<M441>>>" ++ check (runes_of_ascii "packet // " ++ [27880; 37322]%N ++ runes_of_ascii "
o //x
{  @tag( 0 ) match leftPad as // @lengthOf(
metadata { 1 :	calculatedFrom ,
    7 : i64_ ,
""it's""
    : i64_ 0123456789 :repeatCount , 0
    // packet A { u8 x, }
    :
    Foo }
, lengthOf { A`doc`	, } , char[3
] matchKey `{ , }` ,leftPad // `tick` ""quote"" 'q'
{ repeat
    // a // b
    u8
options1 ,
body @calculatedFrom( """ ++ [128512]%N ++ runes_of_ascii """ )
, zchar { // `tick` ""quote"" 'q'
u64 Logon @lengthOf( u8x	)
,
char[ 007 ] packetx
@lengthOf(
    zchar )`
` ,}
, repeat metadata x ,	}
    , u32 repeatCount
    ,@tag(
    // c
    10
)
    @lengthOf( T  )
u16 repeatCount `say ""hi""`, /// triple
repeat
u128 {
//
// packet A { u8 x, }
zchar[4294967296 ] BodyLength  ,} , i32  x `doc`
, }
    packet MetaDataX { // a // b
@tag(// c
7
) repeat lengthOf
// a // b
//
,
    } root
packet As
    {
@lengthOf(
lengthOf
) match _x	as T{""packet"":string_ ,3 : // @lengthOf(
BodyLength ,""" ++ [128512]%N ++ runes_of_ascii """ // trailing space 
:
    i64_, 0 :
    lengthOf // trailing space 
, /// triple
7
    : Logon} ,Z9_
@calculatedFrom( ""\" ++ [233]%N ++ runes_of_ascii """ //	t
) ,	float32
int @lengthOf(
    msg_type ) `// not a comment`
// packet A { u8 x, }
// `tick` ""quote"" 'q'
,char[] A @calculatedFrom(	""\n""
    )
, @tag(4294967296) i8i8 {uint32
u8x , } ,
zchar[
00
// c
// c
] uint8x ,repeat msg_type string_	, repeat zchar[007//x
]
    Pad // " ++ [27880; 37322]%N ++ runes_of_ascii "
`doc`,  match rootA as stringy {  007: leftPad , [ """ ++ [233]%N ++ runes_of_ascii "t" ++ [233]%N ++ runes_of_ascii """, 7 ] :
    x
},}
")).
Eval vm_compute in ("<<<M3865>>>" ++ check (runes_of_ascii "root packet As {
    @calculatedFrom(""{,}"")
    // packet A { u8 x, }
    // @lengthOf(
    Header {
        repeat uint8 uint8x `// not a comment`,
    },
    @tag(3)
    repeat i64 i64_ `it's`,
    @lengthOf(i8i8)
    repeat i64 metadata,
    repeat i8 chars `a\`,
    repeat zchar[4294967296] x_y_z,
    @leftPad('0')
    char[42] options1,
    repeat o,
}

root packet float {
}

packet Packet {
    uint8x roots,
    zchar[0123456789] msg_type `a\`,
    @calculatedFrom(""" ++ [233]%N ++ runes_of_ascii "t" ++ [233]%N ++ runes_of_ascii """)
    //
    // trailing space 
    repeat Packet {
        repeat int64 T,
        repeat zchar[1] falsey `it's`,
        match leftPad as f32a {
            // " ++ [128512]%N ++ runes_of_ascii " emoji
            ""a\""b"" : MetaDataX,
            [65535] : rootA,
        },
    },
    @tag(007)
    repeat char[4294967296] Z9_,
    string Packet @calculatedFrom(""CRC32"") `u8 x,`,
}

root packet x {
    pack tag ``,// `tick` ""quote"" 'q'
}

packet Z9_ {
    char[] BodyLength,
    zchar @lengthOf(x) `" ++ [28040; 24687; 31867; 22411]%N ++ runes_of_ascii "`,
    uint8 float,
    i64 u8x,
    @lengthOf(leftPad)
    //
    int @lengthOf(lengthOf),
    zchar {
        zchar[0] Z9_,
    },
    float `crlf
        line`,
    repeat Z9_ {
        repeat options1,
        i32 As,
        string stringy @lengthOf(leftPad) `" ++ [28040; 24687; 31867; 22411]%N ++ runes_of_ascii "`,
    },
    char[10] x,
    int,
}// c")).
Eval vm_compute in ("<<<M107>>>" ++ check (runes_of_ascii "packet chars
{
    i8 Z9_ ,
match
// " ++ [128512]%N ++ runes_of_ascii " emoji
//	t
zchar
    as Logon
{ 00	: i8i8[
    ""// no comment""
, 42
    , 10 , ""it's"" , 4294967296
, ""`tick`"" ,
    ""x y"" , ""a\""b"" ]
    :leftPad [ ""\" ++ [233]%N ++ runes_of_ascii """ ]: A [ ""abc"" /// triple
, ""1""
    ] :
zchar ,	3 :
x,
    3 :
x_y_z , }
    , uint8x // a // b
@calculatedFrom(
    ""{,}"" )//x
, } // `tick` ""quote"" 'q'
packet calculatedFrom { int32
T, @lengthOf( float ) f32a len , @calculatedFrom(""" ++ [233]%N ++ runes_of_ascii "t" ++ [233]%N ++ runes_of_ascii """
    ) int32 f32a
@lengthOf( // c
matchKey
) `" ++ [233]%N ++ runes_of_ascii "`
, charz @calculatedFrom( ""x y""),} root packet stringy //	t
{ @lengthOf( Logon )
int64 len
    //x
    @calculatedFrom( // `tick` ""quote"" 'q'
""CRC32"") , T // " ++ [27880; 37322]%N ++ runes_of_ascii "
@calculatedFrom( ""1"" ) `line1
line2`, @tag( 255 )
    @tag( 7 )@tag(
007
)repeat
packetx len
//	t
// packet A { u8 x, }
, @tag(
1 ) repeat  zchar[
0] float , //
@lengthOf(
    lengthOf ) repeat x_y_z {char[ 10]u `
`
    , MetaDataX a1
    `u8 x,`  , }  , @tag( 1 ) string repeatCount `" ++ [28040; 24687; 31867; 22411]%N ++ runes_of_ascii "`,
int8 int @calculatedFrom(
""// no comment""
) , } packet
    asx
{
    @leftPad ( '\x00' )
char[
    00]
u8x @calculatedFrom( """ ++ [233]%N ++ runes_of_ascii "t" ++ [233]%N ++ runes_of_ascii """ ) , zchar[007 ] asx @calculatedFrom(
""" ++ [128512]%N ++ runes_of_ascii """)	,repeat MetaDataX metadata
    `
`,
    } 	 ")).
Eval vm_compute in ("<<<M273>>>" ++ check (runes_of_ascii "root packet T // trailing space 
{
//	t
//
@rightPad( // " ++ [27880; 37322]%N ++ runes_of_ascii "
'\x00'
    ) repeat metadata {repeat
    i64 Z9_ , }
    , } options {_x = char[] ; tag
    =
    // packet A { u8 x, }
    uint32 calculatedFrom	=u16;  } packet // c
packetx { @leftPad /// triple
(' '	) int trueish , packetx
{
    leftPad	@lengthOf( //	t
string_ )
    , // `tick` ""quote"" 'q'
repeat o	string_	,  match // " ++ [27880; 37322]%N ++ runes_of_ascii "
stringy as packetx{ 0 :// `tick` ""quote"" 'q'
pack,
    // @lengthOf(
    ""CRC32""	:tag ,
    // trailing space 
    """ ++ [128512]%N ++ runes_of_ascii """:
    Z9_	4294967296 :  chars//x
,007 : calculatedFrom ,10
    : u8x , }
    , } // " ++ [27880; 37322]%N ++ runes_of_ascii "
, repeat BodyLength{ //	t
repeat char[ 3 ]	metadata `a\` ,  repeat char
pack`a\` , char
Header
    //	t
    @calculatedFrom(
""// no comment"")
    ,
    uint32 roots
    @lengthOf( i64_ ) ,
    }
    ,
// a // b
// trailing space 
pack , repeat len Header `
` ,	f64	f32a, char[] x,
    Header @lengthOf(a1	) , asx
@lengthOf( calculatedFrom	) ,  } MetaData roots {
options1 As// a // b
, string_
// `tick` ""quote"" 'q'
// c
float
`{ , }`
/// triple
// packet A { u8 x, }
, // trailing space 
} 	 ")).
Eval vm_compute in ("<<<M276>>>" ++ check (runes_of_ascii "
packet body {match u as f32a {  ""// no comment""	:
    float ,}	,
    // trailing space 
    float32 int ,
    char[]tag `u8 x,`
    // packet A { u8 x, }
    , @lengthOf( body ) repeat // " ++ [27880; 37322]%N ++ runes_of_ascii "
i64_ crc
,@leftPad ('0' ) float64 zchar
    , // packet A { u8 x, }
@lengthOf( A)
@leftPad  ( ) @lengthOf( int
)
    //
    crc	@calculatedFrom( ""1"") ,
    }  root packet
    body{
    /// triple
    @lengthOf( T
    ) repeat
u128 `line1
line2` ,
string // `tick` ""quote"" 'q'
BodyLength , @calculatedFrom( ""x y"" ) char[] zchar @calculatedFrom(
    ""a\""b"")	`" ++ [28040; 24687; 31867; 22411]%N ++ runes_of_ascii "` //x
, falsey//	t
trueish	, /// triple
@rightPad // @lengthOf(
( '\x00'  )	@lengthOf( As) @tag( 4294967296  )repeat char[] uint8x , packetx,
    @tag(
7 )
    //
    i64 roots
// `tick` ""quote"" 'q'
// " ++ [27880; 37322]%N ++ runes_of_ascii "
@calculatedFrom( """ ++ [233]%N ++ runes_of_ascii "t" ++ [233]%N ++ runes_of_ascii """
)  `// not a comment`
    , @calculatedFrom( ""x y"" )
    /// triple
    f64 float@lengthOf(
    Packet // " ++ [27880; 37322]%N ++ runes_of_ascii "
), @tag(  4294967296 ) u32
lengthOf@calculatedFrom(""\" ++ [233]%N ++ runes_of_ascii """)// c
, @tag(	10 ) Foo ,
}	packet leftPad { } options {i8i8 =zchar[ 7 ]}")).
Eval vm_compute in ("<<<M391>>>" ++ check (runes_of_ascii "packet body{ }root packet  x { @rightPad
/// triple
// @lengthOf(
(  '\x00' ) charz // c
`tab	here`	, @calculatedFrom( ""\" ++ [233]%N ++ runes_of_ascii """
    ) // a // b
u128 , }packet trueish // " ++ [128512]%N ++ runes_of_ascii " emoji
{  match leftPad as u { // packet A { u8 x, }
""1"" :
float , 007: Packet
, 65535
// `tick` ""quote"" 'q'
//
:  _x 0123456789 : //x
charz ,
""" ++ [233]%N ++ runes_of_ascii "t" ++ [233]%N ++ runes_of_ascii """	: f32a  , ""abc"" : BodyLength ,} ,
repeat char T
,
    @tag(
    // trailing space 
    42 ) @tag(// packet A { u8 x, }
4294967296// @lengthOf(
)
@rightPad // @lengthOf(
('0' )repeat // c
int64 zchar
//	t
// `tick` ""quote"" 'q'
, }root packet Packet{
repeat	_x {
trueish
/// triple
// a // b
Foo ,} , @rightPad( '\x00' )int64 x_y_z @lengthOf(
    rootA )`
`
, @tag(
// @lengthOf(
// " ++ [27880; 37322]%N ++ runes_of_ascii "
4294967296
    ) //	t
match
pack	as pack
{ 007  :Logon, [42
    ] :metadata
    4294967296 : rootA
// a // b
//x
""1"" // c
: uint8x
, } , i8i8
{ i16 stringy `crlf
line` ,
    // trailing space 
    Pad x_y_z , u16 Packet @calculatedFrom( """"
)
, } , // c
} /// triple")).
Eval vm_compute in ("<<<M301>>>" ++ check (runes_of_ascii "root  packet
    MetaDataX { } options
    {
matchKey
= ""abc""
;i64_ =// a // b
7 ; len  = 1 x_y_z =//x
'0' ; } options { A
    = 7 len
// a // b
//x
=	zchar[4294967296 ]	;o
    = string ;
    int = false f32a = // trailing space 
""CRC32"" ;} root
    packet crc
    // " ++ [27880; 37322]%N ++ runes_of_ascii "
    { char[]
string_
    ,match i8i8 // c
as tag { //x
3 :packetx } ,  @rightPad(' '	)  repeat _x
// packet A { u8 x, }
//x
{ a1
trueish `// not a comment` , }	, int16// packet A { u8 x, }
Z9_ ,@lengthOf( uint8x
    // @lengthOf(
    )
// `tick` ""quote"" 'q'
// `tick` ""quote"" 'q'
zchar[
    // " ++ [128512]%N ++ runes_of_ascii " emoji
    4294967296  ]A
@lengthOf( i64_  ) //	t
`two words` ,repeat // " ++ [27880; 37322]%N ++ runes_of_ascii "
uint64 metadata
,
@calculatedFrom(
""packet"" ) string
//x
//	t
x
`it's`
, match	T
as asx
// " ++ [27880; 37322]%N ++ runes_of_ascii "
//	t
{ ""abc"" : A , ""it's""
:
    Logon, }  ,// packet A { u8 x, }
@calculatedFrom(
//
// a // b
""\n"" ) string _x , uint64 zchar @lengthOf(
lengthOf
) , } packet
uint8x { } // a // b")).
Eval vm_compute in ("<<<M4341>>>" ++ check (runes_of_ascii "  MetaData i8i8
    {A	u128
	,

    }/// triple
  	packet 
tag
{
repeat
    string_ 
falsey

    `doc`,
repeat	Z9_ 
{  Header
Logon
`doc` 	 // packet A { u8 x, }
    ,
	int16

    uint8x // `tick` ""quote"" 'q'
@lengthOf(
	body
	)
, 
char[]
lengthOf
,}
	, 
@lengthOf( asx

) repeat matchKey  ,  @leftPad
    (
' ' ) @rightPad (
    // " ++ [128512]%N ++ runes_of_ascii " emoji
  // " ++ [27880; 37322]%N ++ runes_of_ascii "

' '

)
Z9_`{ , }`,	char[
1

    ]
	len

    `{ , }`	,} 	 // trailing space 
  options{ chars

    =
""1""
	trueish // c
    	=	// " ++ [27880; 37322]%N ++ runes_of_ascii "
""a	b""u 
=
true
; 
crc 
='0'
    ;}

packet  leftPad 
{ @leftPad (

' '
)  // packet A { u8 x, }
  zchar
i64_ , match options1 as // c
    string_

    {
[

""a\""b""

,
	""packet""  ,
    ""a\\""	, 
""" ++ [128512]%N ++ runes_of_ascii """	]	:
i64_ ,42 	 /// triple
:  Z9_ ,	} ,
    zchar[ 00

] trueish
	,
    @rightPad	// trailing space 
    (

    ' '
) packetx

options1

    `line1
line2`  ,  }//
 
")).
Eval vm_compute in ("<<<M1290>>>" ++ check (runes_of_ascii "  packet len//	t
{ @tag(255
// packet A { u8 x, }
// trailing space 
) chars leftPad  ,
repeat char[ 0123456789 ] o
// `tick` ""quote"" 'q'
// trailing space 
`{ , }`  , falsey { f32a @lengthOf(metadata
    ) `// not a comment`, //	t
match pack // trailing space 
as//	t
asx{
10	:	u128 ,
} , } ,body Logon ,@calculatedFrom(""\" ++ [233]%N ++ runes_of_ascii """ ) u32 tag@lengthOf(
uint8x ) `crlf
line` ,  uint8x { zchar[ 10
    ]  packetx @lengthOf(
    pack// @lengthOf(
) ,
char[	4294967296]// trailing space 
msg_type, }
,
string float `it's`	, @tag(0)
    @tag( 42 ) u128 {repeat char[]
BodyLength
,match As as Logon{	[7
// c
//x
, 1  , ""// no comment"", 00 // `tick` ""quote"" 'q'
, """" , 0123456789 ]
:	body , """ ++ [128512]%N ++ runes_of_ascii """ : Packet
    , 42 :
    u ""1""	: chars,
} , }
    , //	t
repeat zchar[42	]u , }
    //	t
    packet stringy { body x,	} // trailing space ")).
Eval vm_compute in ("<<<M465>>>" ++ check (runes_of_ascii "root
packet rootA { repeat
//x
// c
uint32 charz , }
packet Packet{
falsey
    charz
    `say ""hi""`,
    // packet A { u8 x, }
    @tag( 7) BodyLength@calculatedFrom(""a\""b"" )
`line1
line2`, } root
    packet u //x
{
zchar[ 0 ]msg_type @calculatedFrom(""CRC32"") `tab	here` ,}packet	tag {
@lengthOf(	A)match x //	t
as roots  {
// `tick` ""quote"" 'q'
// c
"""" : tag
, 00 //x
: packetx, 007  :
    body """ ++ [28040; 24687]%N ++ runes_of_ascii """
: trueish , 0
:  lengthOf
,
} , crc ,
string Packet , Pad@calculatedFrom(""a\""b"" )
, repeat Pad
    {
match a1 as trueish
    { 00 :
trueish 7:	calculatedFrom , // c
[	""""
]	: BodyLength
,[7] :BodyLength , 3 :
i64_
0 :Pad
, }	,}
// " ++ [27880; 37322]%N ++ runes_of_ascii "
// a // b
, //	t
string T
`line1
line2` , @rightPad
    ( ' '
) rootA {	string
    x `doc`,char[
    0 ]Packet @calculatedFrom(""abc"" ),
    }
    ,
}")).
Eval vm_compute in ("<<<M479>>>" ++ check (runes_of_ascii "packet // " ++ [128512]%N ++ runes_of_ascii " emoji
BodyLength { zchar[
10 ] x
    @calculatedFrom( """" ) ,  @lengthOf(
    string_
    )metadata
, @lengthOf(	trueish
) repeat
chars { zchar[ 00 ]T @calculatedFrom(
    ""a	b"" ) `crlf
line` ,
char[// @lengthOf(
0
]
chars	, }
    , uint8
    // a // b
    rootA
@lengthOf( int) , @lengthOf( packetx
) char[	007 ]
uint8x @calculatedFrom( ""\" ++ [233]%N ++ runes_of_ascii """
) ,
    u
{ char[] Pad @calculatedFrom(
""\n"" ) , }, char[
    10 ]
pack
@lengthOf(
_x //	t
)`two words`
, char[]
    Logon	@lengthOf(body
    ) , @lengthOf(matchKey )
    chars { uint16  pack ,  char[ 4294967296]
// trailing space 
/// triple
options1@calculatedFrom( ""CRC32"") // packet A { u8 x, }
, u32 i64_
`say ""hi""`, lengthOf `// not a comment`  ,
    } , options1 @lengthOf( x
) , }
")).
Eval vm_compute in ("<<<M292>>>" ++ check (runes_of_ascii "packet tag	{/// triple
@leftPad (  '\x00' )char[ 10 ]
//	t
// a // b
calculatedFrom , @calculatedFrom( ""a\\"")
    char[ // " ++ [128512]%N ++ runes_of_ascii " emoji
65535 ] BodyLength
,
match i8i8 as repeatCount  { ""{,}"" : asx
""" ++ [233]%N ++ runes_of_ascii "t" ++ [233]%N ++ runes_of_ascii """ : lengthOf/// triple
,  [
    10 ,""""
    ] : crc } , @tag( // trailing space 
10 ) match chars
as
    // " ++ [128512]%N ++ runes_of_ascii " emoji
    Logon {0:
crc ,	[ """ ++ [128512]%N ++ runes_of_ascii """  ,
//x
// " ++ [128512]%N ++ runes_of_ascii " emoji
255, ""a\\"" ]:len
    ,
// @lengthOf(
// " ++ [27880; 37322]%N ++ runes_of_ascii "
} ,
@calculatedFrom(  ""`tick`""
    ) @calculatedFrom(""\" ++ [233]%N ++ runes_of_ascii """  ) o matchKey `crlf
line`  ,
@calculatedFrom( """ ++ [28040; 24687]%N ++ runes_of_ascii """ ) @lengthOf(leftPad/// triple
)// packet A { u8 x, }
@rightPad  (
'0' ) char[] float@calculatedFrom( ""it's"" )
    ,@rightPad
(
    '0' ) crc x
    , Foo T ,// @lengthOf(
zchar[  00 ] charz @lengthOf( tag )
, }")).
Eval vm_compute in ("<<<M230>>>" ++ check (runes_of_ascii "//x
root packet Z9_ { @calculatedFrom( ""a\\"")zchar[ 1] // @lengthOf(
a1 @lengthOf(
Z9_) ,
@tag( 0123456789
    )@lengthOf(
Header ) @tag( 4294967296 ) uint8 u128  ,i16 msg_type// trailing space 
, tag matchKey, repeat i8 options1 `tab	here` , repeat /// triple
f32a Z9_,
/// triple
//	t
match tag as Foo { 42 : Logon ,
    [ 4294967296
    ] : Pad , 3 :a1 , [007	, 1 ]
: a1 ,}
    ,// packet A { u8 x, }
repeat zchar { repeat //
u8 options1 // c
, leftPad
{	msg_type ,
} ,
leftPad@lengthOf( string_
)
    `a\` ,
    }, zchar charz , string tag @calculatedFrom(
""{,}"")
, // " ++ [27880; 37322]%N ++ runes_of_ascii "
}
    packet// @lengthOf(
u128 {@tag(// " ++ [27880; 37322]%N ++ runes_of_ascii "
4294967296 ) @tag( 42
) f32a @lengthOf( float )
    `" ++ [233]%N ++ runes_of_ascii "` ,	}
")).
Eval vm_compute in ("<<<M3724>>>" ++ check (runes_of_ascii "root packet _x {
    //	t
    uint16 _x,
    @tag(7)
    repeat uint32 crc `line1
        line2`,
    match stringy as packetx {
        255 : len,
        255 : A,
        1 : Z9_,
        ""it's"" : body,
        [""{,}"", ""packet"", 0, ""\n""] : x,
    },
    repeat uint32 Logon `tab	here`,
}

packet string_ {
    string asx @lengthOf(float),
    @calculatedFrom(""a\\"")
    match chars as x {
        42 : A,
        """ ++ [28040; 24687]%N ++ runes_of_ascii """ : T,
        ""a\\"" : tag,
        3 : i8i8,
        [255] : MetaDataX,
    },
    float64 zchar,
    @lengthOf(calculatedFrom)
    int falsey,
    i16 Packet @calculatedFrom(""// no comment"") `say ""hi""`,
    @lengthOf(rootA)
    trueish,
}")).
Eval vm_compute in ("<<<M4103>>>" ++ check (runes_of_ascii "  root	packet 
zchar
	{ @rightPad( )repeat  uint32 Pad

, 
  // a // b
    // c
char[4294967296]

    f32a@calculatedFrom(
"""" )  `u8 x,` , 
uint16

BodyLength	@lengthOf(
packetx

    )

`it's`

, @calculatedFrom(

    ""a\\""
) string

    falsey// c
`a\`
,

matchKey

    Packet
`it's`
,
	match

    trueish
    as matchKey{	""\n"" : trueish [	""\n""	,	3
]  :
    len
,

    [ 10] : Logon 	 // `tick` ""quote"" 'q'
0123456789 :
packetx
,

    ""it's""

    :Pad,  42
// @lengthOf(
	// a // b
  	: falsey
,
	}  ,
match 
metadata
	as
rootA
{""" ++ [128512]%N ++ runes_of_ascii """ :Header
	,
	255 :

T	,0123456789
    : tag	,

""x y""
:

MetaDataX ,

} ,} ")).
Eval vm_compute in ("<<<M1135>>>" ++ check (runes_of_ascii "packet falsey { @leftPad
()
zchar[ 1 ]f32a,	_x // a // b
{ int32 u128 , rootA
, } , @rightPad
    ( '\x00' )
    // " ++ [27880; 37322]%N ++ runes_of_ascii "
    char matchKey	, @lengthOf( As )
match pack as
BodyLength
    {
    ""1""
:tag,[ 65535 ]
    :
msg_type
,
    [ ""`tick`"" ]: falsey ,
""// no comment"" : u128 ,} , // " ++ [128512]%N ++ runes_of_ascii " emoji
match len  as Z9_ {[
    ""a	b""
    , 10  ]:
    Foo, 255: int , 0123456789 : tag
,
1
    /// triple
    : metadata ,[
00 ,
4294967296 ,
    """ ++ [28040; 24687]%N ++ runes_of_ascii """ ] : //	t
roots ,
    [ 42	,4294967296 ,
10
    , 00 , 4294967296	]
: int  , } , @calculatedFrom( ""{,}""	)repeat _x // c
{tag // a // b
`doc` , }
    ,
    }
")).
Eval vm_compute in ("<<<M410>>>" ++ check (runes_of_ascii "packet // " ++ [128512]%N ++ runes_of_ascii " emoji
u8x {
    @rightPad (
)
@lengthOf( u128 )
// a // b
// a // b
char[ 65535// packet A { u8 x, }
] i8i8 `{ , }` ,	}
    packet Packet {@lengthOf( Z9_ ) float32
MetaDataX
,
@tag(
3
    )
@calculatedFrom(
""" ++ [233]%N ++ runes_of_ascii "t" ++ [233]%N ++ runes_of_ascii """
    // packet A { u8 x, }
    )
@tag(0123456789 ) repeat
// c
// @lengthOf(
_x// c
i8i8
`// not a comment` , @calculatedFrom("""") //	t
MetaDataX
    // @lengthOf(
    @lengthOf( leftPad )
`" ++ [233]%N ++ runes_of_ascii "` ,u32 A	,  }
//x
// packet A { u8 x, }
MetaData
    o
//x
// `tick` ""quote"" 'q'
{ char[  4294967296 ]
    // " ++ [27880; 37322]%N ++ runes_of_ascii "
    falsey , A _x
, }")).
Eval vm_compute in ("<<<M208>>>" ++ check (runes_of_ascii "packet i64_
    {} packet
    crc {
} options
{ }root packet
charz {} packet //
trueish{ repeat char[
    255] lengthOf `" ++ [28040; 24687; 31867; 22411]%N ++ runes_of_ascii "` , zchar[
//	t
/// triple
00 // a // b
]x`it's` ,/// triple
repeat	char[]
    // `tick` ""quote"" 'q'
    Packet `say ""hi""` , @calculatedFrom(
""x y"" // " ++ [27880; 37322]%N ++ runes_of_ascii "
) char[ 1] lengthOf, lengthOf`crlf
line` ,	match charz as MetaDataX { ""a	b""
// " ++ [27880; 37322]%N ++ runes_of_ascii "
// `tick` ""quote"" 'q'
: uint8x
    ""\n"" : calculatedFrom } , @tag(	10
) float64 i8i8 @calculatedFrom( """ ++ [128512]%N ++ runes_of_ascii """ ) `say ""hi""` ,
@rightPad(
'\x00' )
i32
Foo`it's`	,
}
")).
Eval vm_compute in ("<<<M232>>>" ++ check (runes_of_ascii "packet
    string_ { match charz as  len {
7 : Pad
    // @lengthOf(
    } ,
    match //	t
i64_ as string_ { // @lengthOf(
007:float [0 ]:Packet
// `tick` ""quote"" 'q'
//
, 10 : leftPad
,
}
,
char[]
// trailing space 
// @lengthOf(
roots, char[ 3 ] Header `it's` ,
options1 @calculatedFrom( ""packet"" )`" ++ [233]%N ++ runes_of_ascii "`
,
BodyLength
// @lengthOf(
//x
, repeat char[	65535 // " ++ [27880; 37322]%N ++ runes_of_ascii "
]  body , char[ 42 ]
// a // b
// " ++ [128512]%N ++ runes_of_ascii " emoji
Packet// packet A { u8 x, }
`" ++ [233]%N ++ runes_of_ascii "`  , repeat/// triple
f64 float	`it's`, packetx
matchKey , }
")).
Eval vm_compute in ("<<<M216>>>" ++ check (runes_of_ascii "packet repeatCount
{ f64 // @lengthOf(
_x
@lengthOf( zchar
) ,
Z9_ , calculatedFrom @lengthOf(rootA
)
    `{ , }` ,} packet a1{
    /// triple
    chars
@lengthOf(
tag ), metadata
    , }packet
Packet
    { //x
@tag( 65535 )  @leftPad ( )@tag( 42)	char[ 0123456789]
    /// triple
    float @calculatedFrom(""CRC32"" )
    `tab	here` , repeat int8 string_, u8
x_y_z
`crlf
line`, // @lengthOf(
@tag( 0123456789
)zchar[
1
]	lengthOf @calculatedFrom( ""it's"" ) , // " ++ [27880; 37322]%N ++ runes_of_ascii "
}
")).
Eval vm_compute in ("<<<M476>>>" ++ check (runes_of_ascii "options
    { chars =
'\x00'
metadata = true ; x_y_z =string;
    // trailing space 
    } packet
Logon{ repeat char[ 10 ] packetx `" ++ [28040; 24687; 31867; 22411]%N ++ runes_of_ascii "` ,}
options
{	stringy
= 4294967296 As  = ""x y""
    // " ++ [27880; 37322]%N ++ runes_of_ascii "
    ; f32a=
    ' ' ; }packet chars{	@calculatedFrom(
""x y"") packetx @calculatedFrom(
    """ ++ [128512]%N ++ runes_of_ascii """ )// a // b
,  i8i8 @lengthOf(
// trailing space 
// a // b
u
// " ++ [128512]%N ++ runes_of_ascii " emoji
/// triple
) , @rightPad( ' '
) @lengthOf(
    msg_type) @lengthOf( Z9_
    )T stringy , }
")).
Eval vm_compute in ("<<<M692>>>" ++ check (runes_of_ascii "packet
    // packet A { u8 x, }
    chars {
match tag as BodyLength{7 : roots ,""a\\"":
    lengthOf
    , ""1""	:	chars
// " ++ [128512]%N ++ runes_of_ascii " emoji
// " ++ [27880; 37322]%N ++ runes_of_ascii "
, //	t
}
    ,
@leftPad
( '\x00' )  _x@lengthOf( MetaDataX
) ,  repeat
x {
    match Logon as options1
{
    //	t
    3
: Pad,
    [""abc"" , // a // b
7 , 3 ,  ""x y"" ] :
o , [ 4294967296
] : leftPad
    /// triple
    , """ ++ [28040; 24687]%N ++ runes_of_ascii """
: Pad	,
//
//x
},zchar[ 0123456789
] leftPad, stringy T
,
    }, }
options{ }")).
Eval vm_compute in ("<<<M1110>>>" ++ check (runes_of_ascii "options{ //x
}
packet
// " ++ [27880; 37322]%N ++ runes_of_ascii "
//x
crc { @rightPad ( ) // " ++ [128512]%N ++ runes_of_ascii " emoji
match lengthOf as _x {
    ""{,}"" :charz,//	t
[ """ ++ [28040; 24687]%N ++ runes_of_ascii """
, 255
    //	t
    ] : u8x ,[
    // @lengthOf(
    ""CRC32"" ,	65535 , ""it's"", """ ++ [128512]%N ++ runes_of_ascii """,	""it's""
    , 3// c
,
255 ]
    :As , ""it's"" :
    options1
    ,
3 :
chars , 42  :
    metadata ,	},
}root	packet
//x
// c
BodyLength {
match string_ as
Z9_ {  0123456789 : leftPad , }, } MetaData float { crc msg_type , }")).
Eval vm_compute in ("<<<M3446>>>" ++ check (runes_of_ascii "// top
options // c0a
  // c0b
{
    // c1
LittleEndian =
    // c3
true // c4
; }
    // c6
packet
    // c7
B // c8
{ // c9a
  // c9b
u8 // c10
a // c11a
  // c11b
, // c12
string s // c14
, // c15a
  // c15b
} // c16a
  // c16b
root
    // c17
packet // c18a
  // c18b
P { u16 // c21
L // c22a
  // c22b
@lengthOf( B ) // c25a
  // c25b
,
    // c26
B // c27a
  // c27b
, // c28
u8 // c29
t , // c31
} ")).
Eval vm_compute in ("<<<M3642>>>" ++ check (runes_of_ascii "//x
options {
}

packet As {
    @leftPad()
    Packet `a\`,// c
}

packet i64_ {
    i16 charz `tab	here`,
    @calculatedFrom(""" ++ [233]%N ++ runes_of_ascii "t" ++ [233]%N ++ runes_of_ascii """)
    @lengthOf(Packet)
    char[4294967296] msg_type @lengthOf(leftPad),
}

MetaData o {
    x falsey,// packet A { u8 x, }
    i16 u8x `crlf
    line`,
    zchar[4294967296] u8x `" ++ [28040; 24687; 31867; 22411]%N ++ runes_of_ascii "`,
    char[3] Header,
    x string_,
    // c
    //	t
}// @lengthOf(")).
Eval vm_compute in ("<<<M1021>>>" ++ check (runes_of_ascii "
options {
MetaDataX=  1;  matchKey	= ""it's"" ;f32a  = f64
    // @lengthOf(
    ; options1 = true
}// `tick` ""quote"" 'q'
packet
    As{ //
char[ 7]
lengthOf
@lengthOf( Foo )`line1
line2`
    , string msg_type
// @lengthOf(
// a // b
@lengthOf( float )	,
@calculatedFrom( ""packet"" )@tag( 00 ) o  falsey
`line1
line2` ,
}MetaData  Foo
{zchar[ 4294967296 ]	asx  ,
//
//
}
")).
Eval vm_compute in ("<<<M4292>>>" ++ check (runes_of_ascii "  packet
    zchar
{
	stringy 	 //
  @lengthOf(
    MetaDataX
	)

`it's`

,@tag(1 )

    match
    Z9_ as  calculatedFrom
{
""" ++ [28040; 24687]%N ++ runes_of_ascii """ :  Header,
    0123456789:

asx
	[ 
255
	]  //	t

	: // " ++ [128512]%N ++ runes_of_ascii " emoji
  rootA ""\n""  : zchar,	}
,

    repeat float64

rootA , char[] repeatCount ,

    repeat int32

    metadata  `" ++ [233]%N ++ runes_of_ascii "`
, repeat 
char[
7

    ]
	u8x
, }
")).
Eval vm_compute in ("<<<M709>>>" ++ check (runes_of_ascii "packet
    calculatedFrom
    {int16 asx @calculatedFrom( """"
    )
    , @calculatedFrom( ""1"" )
i8i8 { i32 stringy	@calculatedFrom(
    ""a	b""
    )`say ""hi""`
, i32//x
uint8x
, match Header as	Logon {
00 :
    A ,} ,match
    // `tick` ""quote"" 'q'
    repeatCount
as Packet { ""packet""
:
    // trailing space 
    MetaDataX """ ++ [28040; 24687]%N ++ runes_of_ascii """: u,} ,},	}
")).
Eval vm_compute in ("<<<M123>>>" ++ check (runes_of_ascii "MetaData len /// triple
{ //
f64 T
`u8 x,` , rootA	stringy ,  zchar repeatCount`say ""hi""` ,
    MetaDataX As ,i8i8 string_, x_y_z f32a , } options // c
{ Logon
    //
    =
    string float =  string
    A =
""abc""/// triple
;
    //
    A =
""\" ++ [233]%N ++ runes_of_ascii """Logon =7	}
    options{ }  options {
    packetx = ""abc""// c
; x =
    true
}
")).
Eval vm_compute in ("<<<M527>>>" ++ check (runes_of_ascii "packet
    trueish { pack
    @lengthOf( uint8x // " ++ [27880; 37322]%N ++ runes_of_ascii "
) ,A @calculatedFrom(""CRC32"" ) //
`say ""hi""`//
,
    repeat A{ /// triple
body `" ++ [28040; 24687; 31867; 22411]%N ++ runes_of_ascii "` , a1
// " ++ [27880; 37322]%N ++ runes_of_ascii "
// `tick` ""quote"" 'q'
body , o @calculatedFrom( ""a	b"" ), repeat MetaDataX ,
}//
,
    @rightPad( ) match o
as metadata
{ 65535
    : _x
, ""\" ++ [233]%N ++ runes_of_ascii """  :
pack
}
    , }
")).
Eval vm_compute in ("<<<M811>>>" ++ check (runes_of_ascii "options {
    crc
    // a // b
    =""{,}"";
body	=	1
; }//x
options { MetaDataX
=
    char[] ;chars
// a // b
// trailing space 
=10
; }// " ++ [128512]%N ++ runes_of_ascii " emoji
packet
    // " ++ [128512]%N ++ runes_of_ascii " emoji
    falsey {
@lengthOf( body
//	t
// a // b
)i16 i64_ `u8 x,`  , // a // b
@leftPad  (
) roots @lengthOf(	packetx ) , zchar, }
")).
Eval vm_compute in ("<<<M1545>>>" ++ check (runes_of_ascii "root packet Foo // " ++ [128512]%N ++ runes_of_ascii " emoji
{ } options {
    // a // b
    tag // `tick` ""quote"" 'q'
= //	t
""""
    ; u8x = zchar[0  ] }
MetaData
    int {zchar[ 10]
lengthOf	`` , i64 u8x u8x`// not a comment` ,MetaDataX pack// `tick` ""quote"" 'q'
`crlf
line`
, Logon charz `crlf
line`
    ,
    // a // b
    }
")).
Eval vm_compute in ("<<<M1520>>>" ++ check (runes_of_ascii "root packet Foo // " ++ [128512]%N ++ runes_of_ascii " emoji
{ } options {
    // a // b
    tag // `tick` ""quote"" 'q'
= //	t
""""
    ; u8x = zchar[0  ] }
MetaData
    int {zchar[ 10] ]
lengthOf	`` , i64 u8x`// not a comment` ,MetaDataX pack// `tick` ""quote"" 'q'
`crlf
line`
, Logon charz `crlf
line`
    ,
    // a // b
    }
")).
Eval vm_compute in ("<<<M1421>>>" ++ check (runes_of_ascii "root packet { // " ++ [128512]%N ++ runes_of_ascii " emoji
Foo } options {
    // a // b
    tag // `tick` ""quote"" 'q'
= //	t
""""
    ; u8x = zchar[0  ] }
MetaData
    int {zchar[ 10]
lengthOf	`` , i64 u8x`// not a comment` ,MetaDataX pack// `tick` ""quote"" 'q'
`crlf
line`
, Logon charz `crlf
line`
    ,
    // a // b
    }
")).
Eval vm_compute in ("<<<M1586>>>" ++ check (runes_of_ascii "root packet Foo // " ++ [128512]%N ++ runes_of_ascii " emoji
{ } options {
    // a // b
    tag // `tick` ""quote"" 'q'
= //	t
""""
    ; u8x = zchar[0  ] }
MetaData
    int {zchar[ 10]
lengthOf	`` , i64 u8x`// not a comment` ,MetaDataX pack// `tick` ""quote"" 'q'
`crlf
line`
, Logon `crlf
line` charz
    ,
    // a // b
    }
")).
Eval vm_compute in ("<<<M1437>>>" ++ check (runes_of_ascii "root packet Foo // " ++ [128512]%N ++ runes_of_ascii " emoji
{ } false {
    // a // b
    tag // `tick` ""quote"" 'q'
= //	t
""""
    ; u8x = zchar[0  ] }
MetaData
    int {zchar[ 10]
lengthOf	`` , i64 u8x`// not a comment` ,MetaDataX pack// `tick` ""quote"" 'q'
`crlf
line`
, Logon charz `crlf
line`
    ,
    // a // b
    }
")).
Eval vm_compute in ("<<<M1509>>>" ++ check (runes_of_ascii "root packet Foo // " ++ [128512]%N ++ runes_of_ascii " emoji
{ } options {
    // a // b
    tag // `tick` ""quote"" 'q'
= //	t
""""
    ; u8x = zchar[0  ] }
MetaData
    int { 10]
lengthOf	`` , i64 u8x`// not a comment` ,MetaDataX pack// `tick` ""quote"" 'q'
`crlf
line`
, Logon charz `crlf
line`
    ,
    // a // b
    }
")).
Eval vm_compute in ("<<<M3514>>>" ++ check (runes_of_ascii "options {
    LittleEndian = true;
    ArrayPrefixLenType = u64;
    FixedStringPadFromLeft = false;
}
packet Quote {
}
root packet Order {
    i64 Side2,
    Quote,
    u32 Px,
    match Px as Body {
        [119, 147] : Quote,
    },
    u16 Flags @calculatedFrom(""CRC32""),
}
")).
Eval vm_compute in ("<<<M3493>>>" ++ check (runes_of_ascii "packet FooBar
    // c1
{
    // c2
u8 // c3
a
    // c4
, } // c6
packet // c7
foo_bar {
    // c9
u16 // c10a
  // c10b
b // c11a
  // c11b
, // c12a
  // c12b
} root // c14a
  // c14b
packet // c15
R
    // c16
{ FooBar // c18
, // c19
foo_bar , // c21
} // c22
")).
Eval vm_compute in ("<<<M3947>>>" ++ check (runes_of_ascii "root packet Foo {
}

options {
    // a // b
    tag = """";
    u8x = zchar[0]
}

MetaData int {
    zchar[10] lengthOf ``,
    float64 u8x `// not a comment`,
    MetaDataX pack `crlf
        line`,
    Logon charz `crlf
        line`,
    // a // b
}")).
Eval vm_compute in ("<<<M1335>>>" ++ check (runes_of_ascii "root
    packet BodyLength
{// " ++ [128512]%N ++ runes_of_ascii " emoji
@leftPad ('\x00' //
) zchar[ 4294967296] zchar , int64 x_y_z , @lengthOf( f32a )
    // `tick` ""quote"" 'q'
    @calculatedFrom(
""abc"" ) @lengthOf(
    calculatedFrom )  char[ 0]tag
, falsey , } // a // b")).
Eval vm_compute in ("<<<M921>>>" ++ check (runes_of_ascii "root packet
    len {@rightPad( '0') repeat msg_type Foo ,
    match  calculatedFrom
as roots{ 00 : falsey	},@lengthOf( tag ) match // `tick` ""quote"" 'q'
int as rootA { //
7 :_x , },@calculatedFrom(
    ""\" ++ [233]%N ++ runes_of_ascii """
    )	f64 // " ++ [27880; 37322]%N ++ runes_of_ascii "
crc ,
}
")).
Eval vm_compute in ("<<<M3554>>>" ++ check (runes_of_ascii "packet Sub {
    u8 a,
    @calculatedFrom(""CRC16"") i16 SubSum,
}
root packet Frame {
    u16 MsgType,
    u16 BodyLen @lengthOf(Body),
    Sub Body,
    string note,
    @calculatedFrom(""CRC16"") i16 Checksum,
    u8 tail,
}
")).
Eval vm_compute in ("<<<M2301>>>" ++ check (runes_of_ascii "MetaData Packet { }packet	asx  { @lengthOf( asx) falsey`crlf
line`
,
    }
    packet x	{uint32// @lengthOf(
rootA rootA	,u32 options1 `say ""hi""` , @tag( 7
    )// packet A { u8 x, }
msg_type @lengthOf(
stringy	)	, }

")).
Eval vm_compute in ("<<<M2303>>>" ++ check (runes_of_ascii "MetaData Packet { }packet	asx  { @lengthOf( asx) falsey`crlf
line`
,
    }
    packet x	{uint32// @lengthOf(
options	,u32 options1 `say ""hi""` , @tag( 7
    )// packet A { u8 x, }
msg_type @lengthOf(
stringy	)	, }

")).
Eval vm_compute in ("<<<M2218>>>" ++ check (runes_of_ascii "MetaData { Packet }packet	asx  { @lengthOf( asx) falsey`crlf
line`
,
    }
    packet x	{uint32// @lengthOf(
rootA	,u32 options1 `say ""hi""` , @tag( 7
    )// packet A { u8 x, }
msg_type @lengthOf(
stringy	)	, }

")).
Eval vm_compute in ("<<<M4156>>>" ++ check (runes_of_ascii "packet	Logon

{ string user ,

} root

    packet
	Frame
{u8 K, 
match
	K
	as

Body
    { 
1 
:

Logon

    ,2:Logout  ,	}, Tail,

    }
    packet
    Logout
{u16
    reason

, }packet

Tail{  u32 crc	,

}")).
Eval vm_compute in ("<<<M760>>>" ++ check (runes_of_ascii "packet charz// @lengthOf(
{ @calculatedFrom( ""{,}"" // @lengthOf(
)
char[// " ++ [128512]%N ++ runes_of_ascii " emoji
255 ] crc @calculatedFrom( """ ++ [233]%N ++ runes_of_ascii "t" ++ [233]%N ++ runes_of_ascii """  ) , @tag(
    // a // b
    7 ) uint16
    pack @calculatedFrom(
    """ ++ [233]%N ++ runes_of_ascii "t" ++ [233]%N ++ runes_of_ascii """ ) `two words`
,
}")).
Eval vm_compute in ("<<<M2212>>>" ++ check (runes_of_ascii " Packet { }packet	asx  { @lengthOf( asx) falsey`crlf
line`
,
    }
    packet x	{uint32// @lengthOf(
rootA	,u32 options1 `say ""hi""` , @tag( 7
    )// packet A { u8 x, }
msg_type @lengthOf(
stringy	)	, }

")).
Eval vm_compute in ("<<<M1304>>>" ++ check (runes_of_ascii "packet
    u8x { int32 o
    , }  options {//x
options1 =
    10
    // a // b
    Header
= 1// " ++ [27880; 37322]%N ++ runes_of_ascii "
;	lengthOf = '\x00'; } root packet // packet A { u8 x, }
falsey { @lengthOf( Header ) Foo
`" ++ [28040; 24687; 31867; 22411]%N ++ runes_of_ascii "` ,}")).
Eval vm_compute in ("<<<M3431>>>" ++ check (runes_of_ascii "// top
root // c0
packet // c1
P
    // c2
{ hdr
    // c4
{ // c5
u8 // c6
a
    // c7
, // c8a
  // c8b
} // c9a
  // c9b
, // c10
u8 // c11a
  // c11b
x // c12a
  // c12b
, // c13
} // c14
")).
Eval vm_compute in ("<<<M3988>>>" ++ check (runes_of_ascii "packet zchar {
    @tag(255)
    match u128 as roots {
        0123456789 : u,
    },
    zchar[4294967296] charz `tab	here`,// " ++ [27880; 37322]%N ++ runes_of_ascii "
    match uint8x as leftPad {
        10 : _x,
    },
}")).
Eval vm_compute in ("<<<M638>>>" ++ check (runes_of_ascii "options /// triple
{ T= //
""" ++ [128512]%N ++ runes_of_ascii """ ;
    o= '\x00'As =
    '\x00' //	t
tag	= // a // b
""1""
}
    root packet MetaDataX	{ @rightPad ('0' ) _x
`// not a comment`	, /// triple
}")).
Eval vm_compute in ("<<<M483>>>" ++ check (runes_of_ascii "options  { // packet A { u8 x, }
options1
    = ""\" ++ [233]%N ++ runes_of_ascii """ ;
    A=
    false /// triple
;
    matchKey =""\" ++ [233]%N ++ runes_of_ascii """	packetx= ' ' ;
//
// packet A { u8 x, }
options1 =
    ' ' ; }
")).
Eval vm_compute in ("<<<M1345>>>" ++ check (runes_of_ascii "options {f32a
=
""packet"" } MetaData
    float{ zchar[0 ]Z9_ `
` ,
u64 roots ,
    //	t
    uint64  zchar`` , int32
trueish, uint64 roots
,
} // `tick` ""quote"" 'q'")).
Eval vm_compute in ("<<<M1205>>>" ++ check (runes_of_ascii "
packet charz {
    char[
// packet A { u8 x, }
//
0123456789
] A `it's` , u64
Z9_
, @calculatedFrom(
""// no comment"")
    A
,u
    o
    , }  options{}
")).
Eval vm_compute in ("<<<M102>>>" ++ check (runes_of_ascii "packet u128
{ i64 A `{ , }`
,
    } MetaData
    i64_ {
trueish
Z9_ ,
// " ++ [128512]%N ++ runes_of_ascii " emoji
// `tick` ""quote"" 'q'
} options { metadata = i16 ; charz=
false}
")).
Eval vm_compute in ("<<<M2378>>>" ++ check (runes_of_ascii "MetaData Packet { }packet	asx  { @lengthOf( asx) falsey`crlf
line`
,
    }
    packet x	{uint32// @lengthOf(
rootA	,u32 options1 `say ""hi""` , ")).
Eval vm_compute in ("<<<M1648>>>" ++ check (runes_of_ascii "root packet /// triple
rootA {	i32
MetaDataX MetaDataX@calculatedFrom( ""CRC32"" ) `line1
line2` , } MetaData BodyLength {
u8
rootA, } // c")).
Eval vm_compute in ("<<<M3880>>>" ++ check (runes_of_ascii "packet trueish {
    match f32a as stringy {
        """ ++ [28040; 24687]%N ++ runes_of_ascii """ : _x,
        1 : stringy,
        65535 : u8x,
        65535 : asx,
    },
}")).
Eval vm_compute in ("<<<M1731>>>" ++ check (runes_of_ascii "root packet /// triple
rootA {	i32
MetaDataX@calculatedFrom( '' ""CRC32"" ) `line1
line2` , } MetaData BodyLength {
u8
rootA, } // c")).
Eval vm_compute in ("<<<M1732>>>" ++ check (runes_of_ascii "root packet /// triple
rootA {	i32
MetaDataX@calculatedFrom( ""CRC32"" ) `line1
line2` , } MetaD%ata BodyLength {
u8
rootA, } // c")).
Eval vm_compute in ("<<<M1707>>>" ++ check (runes_of_ascii "root packet /// triple
rootA {	i32
MetaDataX@calculatedFrom( ""CRC32"" ) `line1
line2` , } MetaData BodyLength {
u8
rootA } // c")).
Eval vm_compute in ("<<<M4098>>>" ++ check (runes_of_ascii "// top
MetaData 	 // c0
	  zchar // c1

	{  // c2
	  zchar[ // c3
3 // c4
	] 	 // c5
  Pad	// c6
  ,// c7
    } 	 // c8
")).
Eval vm_compute in ("<<<M3968>>>" ++ check (runes_of_ascii "  packet  A {

match k
	as  n

{
[  ""a""
,

""bb""	, 007	,
	""d"",
""e""
, 66 ,

    ""g"" ,
	""h"" ,	9, ""j"" 
]
:
B
	2  : C }
,	} ")).
Eval vm_compute in ("<<<M1009>>>" ++ check (runes_of_ascii "options
{
// @lengthOf(
// " ++ [27880; 37322]%N ++ runes_of_ascii "
Logon	= char[007 ] matchKey =char[7 // " ++ [128512]%N ++ runes_of_ascii " emoji
] string_= ""1"" ; msg_type
=
    ""\" ++ [233]%N ++ runes_of_ascii """ ;} 	 ")).
Eval vm_compute in ("<<<M1895>>>" ++ check (runes_of_ascii "packet
    Pad // a // b
{ i8i8 @calculatedFrom( ""a	b"") `u8 x,` ,
} options{ float// " ++ [128512]%N ++ runes_of_ascii " emoji
= f64 caf" ++ [233]%N ++ runes_of_ascii "_1
=//	t
00 }
")).
Eval vm_compute in ("<<<M1783>>>" ++ check (runes_of_ascii "Pad
    packet // a // b
{ i8i8 @calculatedFrom( ""a	b"") `u8 x,` ,
} options{ float// " ++ [128512]%N ++ runes_of_ascii " emoji
= f64 i64_
=//	t
00 }
")).
Eval vm_compute in ("<<<M1833>>>" ++ check (runes_of_ascii "packet
    Pad // a // b
{ i8i8 @calculatedFrom( ""a	b"") `u8 x,` ,
} uint64{ float// " ++ [128512]%N ++ runes_of_ascii " emoji
= f64 i64_
=//	t
00 }
")).
Eval vm_compute in ("<<<M1706>>>" ++ check (runes_of_ascii "root packet /// triple
rootA {	i32
MetaDataX@calculatedFrom( ""CRC32"" ) `line1
line2` , } MetaData BodyLength {
u8")).
Eval vm_compute in ("<<<M1036>>>" ++ check (runes_of_ascii "options {
    Packet =
    // a // b
    007
    ;
u128 =	false ; Header
    = 42 Z9_= char[ 10
]; } // a // b")).
Eval vm_compute in ("<<<M4>>>" ++ check (runes_of_ascii "packet // a // b
tag {
    char[ 7]
body
@calculatedFrom( ""a	b"")
// trailing space 
// trailing space 
,
}")).
Eval vm_compute in ("<<<M383>>>" ++ check (runes_of_ascii "options { leftPad
= '\x00'
    ;Pad =
    char
    }packet f32a {
    @leftPad ( ) f64	stringy
    , } 	 ")).
Eval vm_compute in ("<<<M3341>>>" ++ check (runes_of_ascii "packet calculatedFrom // c
{ @tag( 4294967296 ) u msg_type , char[ 3 ] crc @lengthOf( len ) `u8 x,` , }")).
Eval vm_compute in ("<<<M3373>>>" ++ check (runes_of_ascii "packet calculatedFrom { @tag( 4294967296 ) u msg_type , char[ 3 ] crc @lengthOf( len ) `u8 x,` , // c
}")).
Eval vm_compute in ("<<<M843>>>" ++ check (runes_of_ascii "  packet crc { repeat int64 string_
    `" ++ [28040; 24687; 31867; 22411]%N ++ runes_of_ascii "` , } root packet
leftPad {
    } MetaData A{
}
// c
")).
Eval vm_compute in ("<<<M3017>>>" ++ check (runes_of_ascii "packet A {
    Inner {
        u8 x `
`,
        Deep {
            u8 y `
`,
        },
    },
}")).
Eval vm_compute in ("<<<M3217>>>" ++ check (runes_of_ascii "packet
// c
Logon { @tag( 42 ) @rightPad ( ' ' ) @leftPad ( ) repeat trueish { string T , } , }")).
Eval vm_compute in ("<<<M3249>>>" ++ check (runes_of_ascii "packet Logon { @tag( 42 ) @rightPad ( ' ' ) @leftPad ( ) repeat trueish { string
// c
T , } , }")).
Eval vm_compute in ("<<<M3935>>>" ++ check (runes_of_ascii "
packet
    A

{match	k as

n {
[

1 ,
""bb""

    , 007]:  B

, 2:
C

    }
    ,
	}
")).
Eval vm_compute in ("<<<M1977>>>" ++ check (runes_of_ascii "root
packet crc
    { f32a f32a @calculatedFrom( """ ++ [233]%N ++ runes_of_ascii "t" ++ [233]%N ++ runes_of_ascii """ )
    `say ""hi""`, lengthOf `` ,  }")).
Eval vm_compute in ("<<<M2935>>>" ++ check (runes_of_ascii "packet A {
  match k as n {
    [""a"", ""bb"", 007, ""d"", ""e"", 66, ""g""] : B
    2 : C
  },
}")).
Eval vm_compute in ("<<<M4304>>>" ++ check (runes_of_ascii "packet
	A { match	k
	as n{ [ 1
,
    ""bb""
	,
	007
,

    ""d""] :B
    2  : C
}
,}

")).
Eval vm_compute in ("<<<M1988>>>" ++ check (runes_of_ascii "root
packet crc
    { f32a @calculatedFrom( ) """ ++ [233]%N ++ runes_of_ascii "t" ++ [233]%N ++ runes_of_ascii """
    `say ""hi""`, lengthOf `` ,  }")).
Eval vm_compute in ("<<<M3718>>>" ++ check (runes_of_ascii "packet A {
    B b `tab
    	x`,
    B `tab
    	x`,
    repeat B bs `tab
    	x`,
}")).
Eval vm_compute in ("<<<M1958>>>" ++ check (runes_of_ascii "
packet crc
    { f32a @calculatedFrom( """ ++ [233]%N ++ runes_of_ascii "t" ++ [233]%N ++ runes_of_ascii """ )
    `say ""hi""`, lengthOf `` ,  }")).
Eval vm_compute in ("<<<M3316>>>" ++ check (runes_of_ascii "packet o { @tag( 42 ) repeat x { char[ 0123456789 ] // c
i64_ , } , } options { }")).
Eval vm_compute in ("<<<M3448>>>" ++ check (runes_of_ascii "options {
    FixedStringPadFromLeft = true;
}
root packet P {
    char[4] z,
}
")).
Eval vm_compute in ("<<<M3482>>>" ++ check (runes_of_ascii "packet
    orderItem  { u8 a	,
} root
packet newOrder{	orderItem	, u8 x	,}
")).
Eval vm_compute in ("<<<M3845>>>" ++ check (runes_of_ascii "

  packet A
{
	Inner
	{ u8

    x	`x
`
,
	Deep{ u8  y`x
` , } 
,},  }
")).
Eval vm_compute in ("<<<M916>>>" ++ check (runes_of_ascii "MetaData crc	{ roots _x, u128 rootA `
`, zchar[ 0 ] Foo `line1
line2` , }")).
Eval vm_compute in ("<<<M3413>>>" ++ check (runes_of_ascii "MetaData _x { zchar[ 4294967296 ] lengthOf `// not a comment` , } // c
")).
Eval vm_compute in ("<<<M3408>>>" ++ check (runes_of_ascii "MetaData _x { zchar[ 4294967296 ] lengthOf
// c
`// not a comment` , }")).
Eval vm_compute in ("<<<M2167>>>" ++ check (runes_of_ascii "root
    // `tick` ""quote"" 'q'
    packet As { { trueish Packet , }
")).
Eval vm_compute in ("<<<M2881>>>" ++ check (runes_of_ascii "packet A {
  match k as n {
    [1, 22, ""c c""] : B
    2 : C
  },
}")).
Eval vm_compute in ("<<<M763>>>" ++ check (runes_of_ascii "root
    packet pack { }packet //
u8x {
    }
MetaData o
{ } // c")).
Eval vm_compute in ("<<<M2189>>>" ++ check (runes_of_ascii "root
    // `tick` ""quote"" 'q'
    packet As { trueish Packet ,")).
Eval vm_compute in ("<<<M2910>>>" ++ check (runes_of_ascii "packet A { Inner { match k as n { [1,22,007,4,5] : B, }, }, }")).
Eval vm_compute in ("<<<M3657>>>" ++ check (runes_of_ascii "
//
options { 
options1
	=""a\""b""  } 
        // @lengthOf(")).
Eval vm_compute in ("<<<M2718>>>" ++ check (runes_of_ascii "} } int64 """ ++ [28040; 24687]%N ++ runes_of_ascii """ ] char[ ) i64 packet @lengthOf( ; lengthOf")).
Eval vm_compute in ("<<<M1898>>>" ++ check (runes_of_ascii "
As	packet { @calculatedFrom(//x
""{,}""	)lengthOf , } 	 ")).
Eval vm_compute in ("<<<M2871>>>" ++ check (runes_of_ascii "packet A { Inner { match k as n { [1,22] : B, }, }, }")).
Eval vm_compute in ("<<<M1955>>>" ++ check (runes_of_ascii "
packet	As { @calculatedFrom(//x
""{,}""	)a" ++ [769]%N ++ runes_of_ascii "b , } 	 ")).
Eval vm_compute in ("<<<M3566>>>" ++ check (runes_of_ascii "
MetaData M {
    u8 x`
`
, T	t 
`
` ,

    } ")).
Eval vm_compute in ("<<<M1770>>>" ++ check (runes_of_ascii "options { }options {  } // `tick` ""quo''te"" 'q'")).
Eval vm_compute in ("<<<M1779>>>" ++ check (runes_of_ascii "options ""{ }options {  } // `tick` ""quote"" 'q'")).
Eval vm_compute in ("<<<M489>>>" ++ check (runes_of_ascii "// packet A { u8 x, }
 // `tick` ""quote"" 'q'")).
Eval vm_compute in ("<<<M3042>>>" ++ check (runes_of_ascii "MetaData M {
    u8 x `
x`,
    T t `
x`,
}")).
Eval vm_compute in ("<<<M2623>>>" ++ check (runes_of_ascii "packet A { @leftPad('0' '0') char[2] x, }")).
Eval vm_compute in ("<<<M2756>>>" ++ check (runes_of_ascii "nueM}|d!jTeH%\GJjof8G!IY}Og26Y'e]tl6awM""")).
Eval vm_compute in ("<<<M1910>>>" ++ check (runes_of_ascii "
packet	As { //x
""{,}""	)lengthOf , } 	 ")).
Eval vm_compute in ("<<<M2616>>>" ++ check (runes_of_ascii "packet A { match k as n { '0' : B }, }")).
Eval vm_compute in ("<<<M2760>>>" ++ check (runes_of_ascii "3#otkgH:+^FT^?x|t5RQ/GU$o[_gS~s3=JWej")).
Eval vm_compute in ("<<<M2696>>>" ++ check (runes_of_ascii "Ql.'X9""L&.Qjt%tErjR_Lrg0|C7=a^RM`;F")).
Eval vm_compute in ("<<<M2649>>>" ++ check (runes_of_ascii "MetaData M { u8 x @lengthOf(y), }")).
Eval vm_compute in ("<<<M776>>>" ++ check (runes_of_ascii "options { falsey = false
    }
")).
Eval vm_compute in ("<<<M3073>>>" ++ check (runes_of_ascii "packet A {
 u8 x `d" ++ [160]%N ++ runes_of_ascii "`, // c" ++ [160]%N ++ runes_of_ascii "
}")).
Eval vm_compute in ("<<<M3572>>>" ++ check (runes_of_ascii "
// c" ++ [8239]%N ++ runes_of_ascii "
	packet
    A {
	}

")).
Eval vm_compute in ("<<<M1300>>>" ++ check (runes_of_ascii "//
options {	int
=
true; }")).
Eval vm_compute in ("<<<M2086>>>" ++ check (runes_of_ascii "MetaData A { u64 pack, }@x")).
Eval vm_compute in ("<<<M2576>>>" ++ check (runes_of_ascii "packet A { char[ x ] y, }")).
Eval vm_compute in ("<<<M2578>>>" ++ check (runes_of_ascii "packet A { char[ 3 ] , }")).
Eval vm_compute in ("<<<M2056>>>" ++ check (runes_of_ascii "MetaData A  u64 pack, }")).
Eval vm_compute in ("<<<M2064>>>" ++ check (runes_of_ascii "MetaData A { ( pack, }")).
Eval vm_compute in ("<<<M3662>>>" ++ check (runes_of_ascii "// @lengthOf(

	//	t
")).
Eval vm_compute in ("<<<M2234>>>" ++ check (runes_of_ascii "MetaData Packet { }")).
Eval vm_compute in ("<<<M987>>>" ++ check (runes_of_ascii "MetaData asx	{ }

")).
Eval vm_compute in ("<<<M3102>>>" ++ check (runes_of_ascii "// c" ++ [8233]%N ++ runes_of_ascii "
packet A {
}")).
Eval vm_compute in ("<<<M2655>>>" ++ check (runes_of_ascii "options { a = ; }")).
Eval vm_compute in ("<<<M2490>>>" ++ check (runes_of_ascii "@calculatedFrom(")).
Eval vm_compute in ("<<<M2083>>>" ++ check (runes_of_ascii "MetaData A { u")).
Eval vm_compute in ("<<<M2650>>>" ++ check (runes_of_ascii "MetaData { }")).
Eval vm_compute in ("<<<M2082>>>" ++ check (runes_of_ascii "MetaData ")).
Eval vm_compute in ("<<<M2501>>>" ++ check (runes_of_ascii "// a
b")).
Eval vm_compute in ("<<<M2425>>>" ++ check (runes_of_ascii "char[")).
Eval vm_compute in ("<<<M3100>>>" ++ check (runes_of_ascii "// c" ++ [8233]%N)).
Eval vm_compute in ("<<<M2540>>>" ++ check (runes_of_ascii "[[]]")).
Eval vm_compute in ("<<<M2547>>>" ++ check (runes_of_ascii "a" ++ [12]%N ++ runes_of_ascii "b")).
Eval vm_compute in ("<<<M2830>>>" ++ check (runes_of_ascii "qp")).
