From FP Require Import Lexer Parser ShowPT Digest Formatter.
From Coq Require Import String List NArith.
Import ListNotations.
Open Scope string_scope.
Set Printing Width 100000000.
Set Printing Depth 100000000.
Definition show_fres (r : fres) : string :=
  match r with
  | FOk s => "OK:" ++ sh_escaped s ""
  | FErr s => "ERR:" ++ sh_escaped s ""
  | FPanic p => "PANIC:" ++ p
  end.
Definition check (rs : list rune) : string := digest (show_fres (format_res rs)).
Definition full (rs : list rune) : string := show_fres (format_res rs).
Eval vm_compute in ("<<<M3694>>>" ++ check (runes_of_ascii "packet u {
    @tag(007)
    @calculatedFrom("""")
    match i64_ as roots {
        [""`tick`"", ""1"", 0, 3] : rootA,
        //x
        // c
        00 : pack,
        [0123456789, 0123456789, ""1"", 255] : msg_type,
        10 : chars,
        ""it's"" : o,
        /// triple
    },
    BodyLength {
        char[255] metadata `
                `,
    },
    options1 {
        match asx as packetx {
            ""abc"" : u128,
            [3, 4294967296, """", """ ++ [28040; 24687]%N ++ runes_of_ascii """, 4294967296] : leftPad,
            0 : Header,
            """ ++ [233]%N ++ runes_of_ascii "t" ++ [233]%N ++ runes_of_ascii """ : T,
        },
        repeat char[] Z9_ `{ , }`,
    },
    @calculatedFrom(""packet"")
    @calculatedFrom(""x y"")
    @tag(255)
    leftPad {
        repeat leftPad {
            float32 falsey @lengthOf(falsey) `a\`,
            zchar[0] matchKey,
            zchar[4294967296] a1,
            match packetx as u {
                [
                    00, ""abc"", """ ++ [233]%N ++ runes_of_ascii "t" ++ [233]%N ++ runes_of_ascii """, 00, ""a\\"",
                    ""{,}""
                ] : BodyLength,
                """ ++ [233]%N ++ runes_of_ascii "t" ++ [233]%N ++ runes_of_ascii """ : asx,
                [""a	b"", 007] : body,
                [00, 0123456789] : crc,
            },
        },
    },
    repeat uint8x o `doc`,
    @tag(65535)
    u16 Logon @lengthOf(uint8x) `a\`,
    f32a {
        repeat char[] matchKey `
                `,
        zchar[4294967296] i64_,
        // packet A { u8 x, }
        repeat lengthOf {
            repeat i16 matchKey,
            u8 falsey,
            i32 Pad @lengthOf(u8x) ``,
            charz `crlf
                        line`,
        },
        packetx {
            int64 trueish,
            char[42] u @lengthOf(u) `// not a comment`,
            repeat char[1] i8i8,
            match x_y_z as u8x {
                [""\n""] : calculatedFrom,
            },
        },
    },
    @leftPad('0')
    As @calculatedFrom(""it's""),
    @calculatedFrom(""CRC32"")
    x_y_z @lengthOf(crc),
    @leftPad('0')
    @calculatedFrom(""`tick`"")
    @tag(10)
    char[42] Z9_ @calculatedFrom(""abc""),
}

MetaData repeatCount {
    i8 u `tab	here`,
    char[255] u,
    // @lengthOf(
    u32 msg_type `doc`,
    i64_ _x,
}

options {
    repeatCount = 255;
    x_y_z = ' ';
    charz = uint8;
    Packet = false
    BodyLength = true;
}

options {
    asx = """ ++ [128512]%N ++ runes_of_ascii """
    uint8x = char[4294967296];
    u = '0'
}
// trailing space ")).
Eval vm_compute in ("<<<M3967>>>" ++ check (runes_of_ascii "packet u128 {
    @calculatedFrom(""" ++ [128512]%N ++ runes_of_ascii """)
    /// triple
    // c
    i64 charz `tab	here`,
    @lengthOf(Header)
    float32 a1 @calculatedFrom(""" ++ [128512]%N ++ runes_of_ascii """),
    repeat string a1 `it's`,
    @tag(42)
    @tag(7)
    zchar stringy,
    float32 calculatedFrom `
    `,
}

MetaData x {
    // " ++ [27880; 37322]%N ++ runes_of_ascii "
    Header x_y_z `
    `,
    int64 options1 `it's`,
    char[] chars,
    u16 options1,
    u16 calculatedFrom `tab	here`,
    char[0123456789] u,
}

root packet uint8x {
    @rightPad('\x00')
    char[7] asx,
    int64 Pad @lengthOf(As) `crlf
    line`,
    msg_type @calculatedFrom(""`tick`""),
    @calculatedFrom(""a\\"")
    @rightPad(' ')
    repeatCount `line1
    line2`,
    @tag(3)
    int32 As `two words`,
    @tag(1)
    @calculatedFrom(""`tick`"")
    @lengthOf(f32a)
    match zchar as u {
        0123456789 : leftPad,
        ""\" ++ [233]%N ++ runes_of_ascii """ : _x,
        7 : MetaDataX,
        [4294967296] : stringy,
        7 : uint8x,
    },
    @leftPad()
    string Foo @lengthOf(MetaDataX) ``,//
    match calculatedFrom as A {
        [
            255, 7, 1, 1, 42,
            007, 007
        ] : A,
        [
            ""a\\"", ""it's"", ""1"", 00, """ ++ [128512]%N ++ runes_of_ascii """,
            ""{,}"", 42
        ] : calculatedFrom,
        ""it's"" : f32a,
    },
    repeat char[] i8i8,
    leftPad,
}

packet _x {
    char[] Z9_,
    int64 options1 @calculatedFrom("""") `u8 x,`,
    // `tick` ""quote"" 'q'
    @calculatedFrom(""// no comment"")
    match tag as roots {
        [""abc""] : options1,
        65535 : o,
        ""// no comment"" : f32a,
        ""packet"" : uint8x,
    },
    leftPad @calculatedFrom(""" ++ [233]%N ++ runes_of_ascii "t" ++ [233]%N ++ runes_of_ascii """),
    repeat x,
    zchar[65535] float `line1
    line2`,
    i16 uint8x,
    zchar[10] uint8x,
    @calculatedFrom(""abc"")
    repeat x {
        trueish `tab	here`,
    },
    @tag(1)
    char[3] metadata `say ""hi""`,
}")).
Eval vm_compute in ("<<<M3627>>>" ++ check (runes_of_ascii "  // " ++ [27880; 37322]%N ++ runes_of_ascii "
  packet	int	{ @tag( // a // b

  0 )
@rightPad( '0'
	) @calculatedFrom(  ""CRC32"" ) zchar[	10	]
	    //x

float
,	char[
1 // " ++ [27880; 37322]%N ++ runes_of_ascii "
	] float

    `
`
,int8  i64_
	@lengthOf(	// packet A { u8 x, }

	u128 )
`{ , }`
    ,
uint32
	rootA
,float32

    _x

    ,	u8
T	``
    ,
MetaDataX x `it's`
	, char[] calculatedFrom , 	 // @lengthOf(
    uint64 
  // a // b
	i8i8

`// not a comment`
    ,

} MetaData	lengthOf	{  
  // trailing space 
	// `tick` ""quote"" 'q'

	leftPad
leftPad, u32

    a1
	`it's` , Pad
	Packet
,  //	t
	  uint8x
leftPad

    ,
falsey
roots
`// not a comment`	,
} packet
A { 
calculatedFrom

@calculatedFrom(""CRC32""
	) ``
	,
	repeat matchKey	{
    string

chars `two words`
    ,// trailing space 
stringy
@calculatedFrom(	//	t
    	""1"" ), 

    // @lengthOf(
    // " ++ [128512]%N ++ runes_of_ascii " emoji
}  // c
	, // packet A { u8 x, }

	match
trueish as	float
    /// triple
// " ++ [27880; 37322]%N ++ runes_of_ascii "

{
3 :
	int 	 /// triple
    [
        // trailing space 
	""" ++ [233]%N ++ runes_of_ascii "t" ++ [233]%N ++ runes_of_ascii """ ,

""\n""	]
    :  Logon  // @lengthOf(
  ,
    7 :

    metadata
,
    007 : 
    //
u, }  , 
@lengthOf(

body
) char[]
    Logon  //
  `tab	here`
,	// trailing space 

	@calculatedFrom(

""\" ++ [233]%N ++ runes_of_ascii """
)
charz 	 // c
	  @lengthOf(
	i64_ 
)
	,  repeat i64 f32a ,repeat	u32 Foo`
`
	,  @calculatedFrom( ""1""

) 
repeat
	int  {repeat  trueish

    {  // trailing space 
	repeat 
f64 Foo	,
	},
}, // c
	  char[]
matchKey @lengthOf( x_y_z 
) ,

    @rightPad( )  repeat
	int64
As  //	t
  	,}

")).
Eval vm_compute in ("<<<M1402>>>" ++ check (runes_of_ascii "options {
	StringPrefixLenType = u16;
	ArrayPrefixLenType = u16;
}

packet SampleBinary {
    uint16 MsgType `" ++ [28040; 24687; 31867; 22411]%N ++ runes_of_ascii "`,
    u16 BodyLenght @lengthOf(Body) `" ++ [28040; 24687; 20307; 38271; 24230]%N ++ runes_of_ascii "`,
    match MsgType as Body {
        1 : Logon,
        2 : Logout,
        3 : Heartbeat,
        4 : RiskControlRequest,
        5 : RiskControlResponse,
    },
        @calculatedFrom(""CRC32"")
    u32 Ckecksum `" ++ [26657; 39564; 21644]%N ++ runes_of_ascii "`,
}

packet Logon {
     @leftPad('0')
    char[10] UserName `" ++ [29992; 25143; 21517]%N ++ runes_of_ascii "`,
    string Password `" ++ [23494; 30721]%N ++ runes_of_ascii "`,
    uint64 ClientId `" ++ [23458; 25143; 31471]%N ++ runes_of_ascii "ID`,
    u16 HeartbeatInterval `" ++ [24515; 36339; 38388; 38548]%N ++ runes_of_ascii "`,
}

packet Logout {
      @rightPad('0')
    char[10] UserName `" ++ [29992; 25143; 21517]%N ++ runes_of_ascii "`,
    uint64 ClientId `" ++ [23458; 25143; 31471]%N ++ runes_of_ascii "ID`,
}

packet Heartbeat {
}

packet RiskControlRequest {
    string UniqueOrderId `" ++ [21807; 19968; 35746; 21333; 21495]%N ++ runes_of_ascii "`,
    char[16] ClOrdID `" ++ [23458; 25143; 35746; 21333; 21495]%N ++ runes_of_ascii "`,
    char[3] MarketID `" ++ [24066; 22330]%N ++ runes_of_ascii "id`,
    char[12] SecurityID `" ++ [35777; 21048; 20195; 30721]%N ++ runes_of_ascii "`,
    char Side `" ++ [20080; 21334; 26041; 21521]%N ++ runes_of_ascii "`,
    char OrderType `" ++ [35746; 21333; 31867; 22411]%N ++ runes_of_ascii "`,
    u64 Price `" ++ [20215; 26684]%N ++ runes_of_ascii "`,
    u32 Qty `" ++ [25968; 37327]%N ++ runes_of_ascii "`,
    repeat string ExtraInfo `" ++ [38468; 21152; 20449; 24687]%N ++ runes_of_ascii "`,
    repeat SubOrder {
    		char[16] ClOrdID `" ++ [23376; 35746; 21333; 21495]%N ++ runes_of_ascii "`,
    		u64 Price `" ++ [23376; 35746; 21333; 20215; 26684]%N ++ runes_of_ascii "`,
    		u32 Qty `" ++ [23376; 35746; 21333; 25968; 37327]%N ++ runes_of_ascii "`,
    	},
}

packet RiskControlResponse {
    string UniqueOrderId `" ++ [21807; 19968; 35746; 21333; 21495]%N ++ runes_of_ascii "`,
    i32 Status `" ++ [29366; 24577]%N ++ runes_of_ascii "`,
    string Msg `" ++ [32467; 26524; 20449; 24687]%N ++ runes_of_ascii "`,
    repeat Detail,
}

packet Detail {
    string RuleName `" ++ [35268; 21017; 21517; 31216]%N ++ runes_of_ascii "`,
    u16 Code `" ++ [21407; 22240; 20195; 30721]%N ++ runes_of_ascii "`,
}")).
Eval vm_compute in ("<<<M396>>>" ++ check (runes_of_ascii "packet Z9_	{	repeat charz{ match chars
as T{ // trailing space 
""// no comment""//
:  float ,	42 : string_, } ,// " ++ [128512]%N ++ runes_of_ascii " emoji
} , @calculatedFrom(	""CRC32"" ) trueish
@lengthOf( As
    ) `" ++ [28040; 24687; 31867; 22411]%N ++ runes_of_ascii "`
,@lengthOf( _x
) falsey @lengthOf(  zchar  ) `two words`
    ,
@lengthOf(
    x )string chars  @lengthOf(int )
    ,f32
    options1
    // @lengthOf(
    , @lengthOf(
    // `tick` ""quote"" 'q'
    Pad )	match len as
leftPad {
4294967296 :
    /// triple
    rootA
    42
: Z9_	, } , }options
    { T
    = true }
    MetaData repeatCount {
    char[] string_`" ++ [233]%N ++ runes_of_ascii "` ,
f64
Z9_ ,
    f32
_x ,}/// triple
packet chars { match trueish as  asx /// triple
{	0123456789
:chars,
} , @tag( 10
) repeat
rootA`" ++ [233]%N ++ runes_of_ascii "`
, zchar[ 255 ] MetaDataX `doc` , u16 Header	`" ++ [233]%N ++ runes_of_ascii "` , @leftPad( ' '	) match  trueish as a1
    {
""" ++ [28040; 24687]%N ++ runes_of_ascii """: As  ,1
: pack ,
    1 : repeatCount ,
    [ 7 ]
    : // packet A { u8 x, }
u ,} , @lengthOf( tag  ) u128
{ int32 // " ++ [128512]%N ++ runes_of_ascii " emoji
tag@lengthOf( u8x ) ,
} , // trailing space 
@lengthOf( u )@calculatedFrom( ""a	b"" ) @tag(
    00 )// c
i64 calculatedFrom@lengthOf( calculatedFrom ) `" ++ [28040; 24687; 31867; 22411]%N ++ runes_of_ascii "`,	} packet pack
    // packet A { u8 x, }
    {@calculatedFrom( ""\n""// `tick` ""quote"" 'q'
) string i8i8 `line1
line2`
,
}")).
Eval vm_compute in ("<<<M809>>>" ++ check (runes_of_ascii "packet	Logon
{ @calculatedFrom(	""CRC32"" )
    a1 , @lengthOf(
    T  ) @lengthOf(
metadata )len{ repeat Header
{
    char[ 0123456789 ]float
    `// not a comment` ,}
    , } ,
    // `tick` ""quote"" 'q'
    @leftPad (
)	char[ 7
    ]
    x	@calculatedFrom( ""it's"")  ,  char[ 7 ] calculatedFrom , // trailing space 
char[]o @calculatedFrom( ""x y"" ) ,
@lengthOf( matchKey )match
    //	t
    options1 as	Logon {
    42 :
roots, }
    , @tag(3//
)int64 MetaDataX ,@calculatedFrom( ""CRC32"" ) @calculatedFrom(""x y""
    ) char[ 10
] chars@calculatedFrom( ""packet"" ) `// not a comment`
, match pack as i8i8{	[
00] : crc , [ 0,// packet A { u8 x, }
""it's"" , 7 , 255
    // a // b
    ]: trueish [ ""a	b"",// `tick` ""quote"" 'q'
4294967296 , 1,
// packet A { u8 x, }
// packet A { u8 x, }
42
,
0 , ""`tick`""] :
    Z9_
    /// triple
    ,10
:options1, } , } packet repeatCount { int8
    falsey@calculatedFrom(
""" ++ [233]%N ++ runes_of_ascii "t" ++ [233]%N ++ runes_of_ascii """
)
    , }
options{// a // b
trueish
//x
/// triple
= zchar[ 255
]	}root packet uint8x
// c
/// triple
{}
packet
    rootA {	zchar[ 0 ] leftPad @calculatedFrom(""""
    // trailing space 
    )
    `say ""hi""` ,
}
")).
Eval vm_compute in ("<<<M1311>>>" ++ check (runes_of_ascii "root packet body{
    // `tick` ""quote"" 'q'
    @tag(
    10
)repeat // trailing space 
len { // c
repeat
    i32
BodyLength ,	zchar[ 0123456789
    ]trueish@lengthOf(tag )/// triple
, }
, u64 rootA ,
@tag( 0123456789 //
)
    char[ 1
] i64_
`
` ,@tag(//	t
0123456789)repeat
    char[]_x
    ,
    @tag(
7 ) zchar[// packet A { u8 x, }
0 ] calculatedFrom
    @lengthOf(repeatCount ) , match i64_
// a // b
//
as Packet { 3 : charz,[
    ""a\\""] : options1, [
""`tick`"" ,  0123456789 , 4294967296 ,  ""a	b"", 0123456789  ,""x y"" , """ ++ [128512]%N ++ runes_of_ascii """ ,""x y""] :
    _x	, ""a\""b""  :
    pack , ""it's""	:
crc,} , }
MetaData i8i8 {
f32 u ,} packet A{ zchar[42
    ] Pad ,
    u128 , @calculatedFrom( ""x y"") repeat // `tick` ""quote"" 'q'
u16 u ,
    char[00 ]/// triple
u128  , //	t
repeat char[] u8x `doc` , }packet _x
    { @lengthOf( rootA ) @tag( 3 )uint32	msg_type ,	options1
    u128 ,char[] Pad
, @tag(
007 )  f32a @lengthOf(lengthOf ) `// not a comment` , }
packet // @lengthOf(
metadata
    { @leftPad ( '0' ) @tag(0123456789 ) @rightPad (
    ) f32a,
    } 	 ")).
Eval vm_compute in ("<<<M375>>>" ++ check (runes_of_ascii "
options{ MetaDataX= ' '
//	t
// trailing space 
; trueish = """ ++ [233]%N ++ runes_of_ascii "t" ++ [233]%N ++ runes_of_ascii """ ;
    /// triple
    } packet BodyLength{@lengthOf( repeatCount ) char[65535 ]
    crc @calculatedFrom(
    """"
),zchar[0 ]
x_y_z @calculatedFrom( ""packet"" )`a\` , } packet Header	{	repeat
    // " ++ [128512]%N ++ runes_of_ascii " emoji
    T
{
//x
//x
u128 chars , }, match Pad as
    crc{ ""a\""b"" :	x , }
    ,
    @lengthOf(	rootA
) @lengthOf(
stringy )
i32
    // a // b
    x
,
    @calculatedFrom( """ ++ [128512]%N ++ runes_of_ascii """
) int8	u @lengthOf(
    Pad
) `doc` , @tag(
65535)charz { a1
_x,
repeat	float32 Header `say ""hi""` ,char u , } ,
    //x
    @leftPad ( )
@leftPad (
    '0' ) @rightPad( '\x00'
    )
    match falsey as As { // " ++ [128512]%N ++ runes_of_ascii " emoji
""a\\"": pack } /// triple
,repeat metadata , match i8i8 as u {
[ 4294967296 ,
    42 ] // @lengthOf(
: uint8x ,}  , repeat uint16
    chars
// " ++ [27880; 37322]%N ++ runes_of_ascii "
// @lengthOf(
`u8 x,` ,
u16 repeatCount`crlf
line` ,
} packet
    tag {
    char[ 7 ]// `tick` ""quote"" 'q'
trueish  , int8
    string_ ``
// @lengthOf(
// @lengthOf(
,
    } 	 ")).
Eval vm_compute in ("<<<M867>>>" ++ check (runes_of_ascii "packet rootA
    {@calculatedFrom(	""// no comment"" )repeat roots
`tab	here` , u8x len ,
    u8x``	,@lengthOf(o )@tag(0) repeat char[] options1
    , int32 o `" ++ [233]%N ++ runes_of_ascii "`
, @tag(00) uint16 int , } packet BodyLength {
@tag( 4294967296  )
    repeat
// trailing space 
/// triple
zchar[ 1] Z9_ , uint32 leftPad @calculatedFrom( """ ++ [28040; 24687]%N ++ runes_of_ascii """)// packet A { u8 x, }
, i8 f32a , repeat u8 lengthOf, Header
{ leftPad ,	repeat stringy { msg_type @lengthOf(  body ) `crlf
line` ,repeat
    packetx `say ""hi""`
// c
//
, o ,} , } , repeat int8 f32a `{ , }` // @lengthOf(
, Z9_
// packet A { u8 x, }
// trailing space 
, body , match tag as
    //
    zchar{10 :
lengthOf , 10
    : i64_ ,65535:len , 1 :
msg_type,	""\n""	: Foo , 10:
zchar
    ,
}
,repeat lengthOf {// `tick` ""quote"" 'q'
int64 lengthOf @calculatedFrom(""packet"" ) ,
    repeat calculatedFrom
    A , repeat char uint8x
,
    As	{	stringy
    // " ++ [128512]%N ++ runes_of_ascii " emoji
    `it's` ,	} , } // trailing space 
,
    //x
    }
")).
Eval vm_compute in ("<<<M307>>>" ++ check (runes_of_ascii "options {
    string_	= zchar[ 00
    ]
;}
    packet falsey { @lengthOf( float	) string o // c
,repeat msg_type , match MetaDataX as _x
    { 3: Pad ,
    }, leftPad@lengthOf(i8i8 //
) , @tag(
0123456789
    )
    i16 Packet `
`
,o pack `tab	here` ,zchar[ 10
] int
    , int16 Foo
//	t
// " ++ [128512]%N ++ runes_of_ascii " emoji
@calculatedFrom(
    ""CRC32"" )
`u8 x,` , match f32a as	u8x
{[ ""{,}""] : T, [ ""1""
, 65535 ,3 , 0 ,/// triple
""`tick`""
    , 0123456789 ,""" ++ [128512]%N ++ runes_of_ascii """ , ""a\\"" ] :uint8x  , 255 : a1  , ""a	b""	: falsey """ ++ [28040; 24687]%N ++ runes_of_ascii """ : x
    // " ++ [128512]%N ++ runes_of_ascii " emoji
    , //	t
[
    ""packet""
// c
//	t
,3
    ]
:
int , } ,
repeat Foo /// triple
{  zchar[1
]body ``  , roots
    rootA ,	char[ 0] rootA `doc`, }	,
    }// `tick` ""quote"" 'q'
options{
    } options { Header = int16
; roots = false ; repeatCount/// triple
=
    uint8; stringy
=	""x y"" ;leftPad = ""it's"";
    } MetaData u {	string_// trailing space 
Header
, zchar[ 3 ] i64_, }
")).
Eval vm_compute in ("<<<M3558>>>" ++ check (runes_of_ascii "// top
options // c0
{
    // c1
LittleEndian // c2a
  // c2b
= // c3a
  // c3b
true // c4a
  // c4b
; // c5
} // c6
packet
    // c7
Logon // c8
{ // c9
u8 // c10
x // c11a
  // c11b
, // c12
} // c13a
  // c13b
packet Logout
    // c15
{
    // c16
u16 reason // c18
, } // c20
root // c21
packet Frame // c23a
  // c23b
{ // c24a
  // c24b
i32 // c25
Kind // c26a
  // c26b
, // c27a
  // c27b
i32
    // c28
Kind2 // c29a
  // c29b
, match Kind // c32
as // c33
Body // c34a
  // c34b
{ 1 // c36
: Logon ,
    // c39
[ 2 , // c42
3 // c43
,
    // c44
4 // c45a
  // c45b
]
    // c46
:
    // c47
Logout // c48
, 100
    // c50
: Logon
    // c52
, // c53a
  // c53b
}
    // c54
, // c55a
  // c55b
match // c56a
  // c56b
Kind2 as
    // c58
Trailer // c59a
  // c59b
{ // c60a
  // c60b
0
    // c61
: // c62
Logout // c63
, } , // c66
} ")).
Eval vm_compute in ("<<<M3624>>>" ++ check (runes_of_ascii "packet o {
    repeat char[65535] rootA,
}

packet repeatCount {
    @tag(10)
    @lengthOf(_x)
    repeat int64 f32a `" ++ [233]%N ++ runes_of_ascii "`,
    @leftPad('0')
    @leftPad(' ')
    @tag(3)
    // trailing space 
    o `doc`,
    // a // b
    @calculatedFrom("""")
    string o,
    @lengthOf(msg_type)
    match A as T {
        [
            ""packet"", ""a\\"", 1, 10, ""x y"",
            3
        ] : leftPad,
        ""packet"" : calculatedFrom,
        //	t
        [255] : o,
        42 : int,
    },
    Z9_ float `a\`,
    char[] u,
    @lengthOf(i64_)
    string A @lengthOf(int) `it's`,
    @rightPad('0')
    roots {
        pack @lengthOf(As) `crlf
        line`,// c
        zchar[00] zchar @lengthOf(u8x),
    },
    @tag(0)
    @rightPad()
    @calculatedFrom(""" ++ [128512]%N ++ runes_of_ascii """)
    f32a lengthOf `{ , }`,
}
// `tick` ""quote"" 'q'")).
Eval vm_compute in ("<<<M4090>>>" ++ check (runes_of_ascii "packet Pad {
    char[007] string_,// @lengthOf(
    @lengthOf(zchar)
    string rootA,
    @lengthOf(T)
    char trueish @lengthOf(zchar) `line1
        line2`,
    repeat f64 calculatedFrom,
    @calculatedFrom(""it's"")
    leftPad `it's`,
    stringy {
        int8 Packet @lengthOf(metadata) `tab	here`,
        A,
        match charz as uint8x {
            3 : MetaDataX,
            1 : charz,
            ""a	b"" : msg_type,
            //x
            [0, 10, ""// no comment"", ""\" ++ [233]%N ++ runes_of_ascii """] : A,
            // @lengthOf(
            ""\n"" : trueish,
        },
    },
    @calculatedFrom(""a\\"")
    char[7] u @calculatedFrom(""a\\""),
    //	t
    @tag(7)
    o {
        As `it's`,
    },
}

packet u {
}

packet stringy {
    @tag(0123456789)
    string pack @lengthOf(Pad),
}")).
Eval vm_compute in ("<<<M3524>>>" ++ check (runes_of_ascii "options {
    LittleEndian = false;
    StringPrefixLenType = u16;
    ArrayPrefixLenType = u32;
}
packet Order {
    uint8 x,
    repeat string venue,
}
packet Heartbeat {
    i64 count,
    zchar[1] Qty,
    repeat InX29 {
        InSeqno26 {
            int64 f1,
            char[5] Acct,
            Order,
        },
        repeat InSide285 {
            repeat Order,
            char[10] Px,
            zchar[9] OrderId,
        },
        char[] venue,
        Order,
    },
    @rightPad('\x00') char[4] clOrdID,
}
root packet Party {
    zchar[3] f1,
    u32 clOrdID,
    u32 Px @lengthOf(Body),
    match clOrdID as Body {
        [180, 64] : Heartbeat,
        11 : Order,
    },
    u32 Side2 @calculatedFrom(""CR\
C32""),
}
")).
Eval vm_compute in ("<<<M656>>>" ++ check (runes_of_ascii "packet
//x
/// triple
u8x { MetaDataX
@lengthOf( charz
    ) `u8 x,` , @tag(
    0
)
zchar[ 7 ]
    u , i8  len `two words` // c
,
}
MetaData roots {i64 body , // a // b
u  matchKey
    , Packet a1 ,  zchar[ 65535  ] Logon/// triple
`a\` , uint8 A  `line1
line2`
,	} root	packet
body {
// " ++ [128512]%N ++ runes_of_ascii " emoji
// c
repeatCount , u64
    x_y_z ,
o
A `a\` ,
float32 msg_type
    ,	} MetaData // trailing space 
_x
{ char[ 3 ] As `crlf
line`,} root packet u8x	{
    @tag(
7 ) char[
    // " ++ [27880; 37322]%N ++ runes_of_ascii "
    7 //	t
]
i8i8
    @calculatedFrom(""" ++ [233]%N ++ runes_of_ascii "t" ++ [233]%N ++ runes_of_ascii """
)
,f64 // " ++ [128512]%N ++ runes_of_ascii " emoji
u8x  @lengthOf( float) ,	@tag(255 ) Header Packet `// not a comment` , @leftPad
    ( ' ' ) @rightPad( ' ')
f32
trueish @lengthOf( x_y_z  ) ,
    }
//
")).
Eval vm_compute in ("<<<M21>>>" ++ check (runes_of_ascii "packet	Z9_ {repeat options1 {
    repeat i16 o
// a // b
/// triple
`two words`
, match charz
as o { [ 4294967296 ,
""// no comment""	]:
// `tick` ""quote"" 'q'
// packet A { u8 x, }
u
    , } , match float
    as
    tag
{ [
00] : leftPad ,	[
""" ++ [233]%N ++ runes_of_ascii "t" ++ [233]%N ++ runes_of_ascii """ ,
""\n""
, 0 //
, ""CRC32"" ,
    1
    , """ ++ [28040; 24687]%N ++ runes_of_ascii """ , 255
    , 1]
: options1, 255	: x  , 00 : x ,
    } , repeat
string asx `u8 x,` , } ,
// " ++ [27880; 37322]%N ++ runes_of_ascii "
// a // b
zchar[ 3	] falsey ,}
    packet u
{
//x
// trailing space 
zchar[ 0 ]asx ,
    @tag(
    10
)
    @rightPad (' ' ) @rightPad
    //x
    ( '\x00') Logon
    @calculatedFrom( """ ++ [128512]%N ++ runes_of_ascii """ ) , repeat char[255 ] calculatedFrom	, uint16 lengthOf,
    }root /// triple
packet  pack { }
")).
Eval vm_compute in ("<<<M4177>>>" ++ check (runes_of_ascii "
packet

    matchKey  {
char
	u128
    @calculatedFrom(""CRC32""

//x
    )

`{ , }`
	, }
MetaData
leftPad 
        //
  // c
		{
uint8x

lengthOf 
    // packet A { u8 x, }
// @lengthOf(
,

    o

    f32a
    // a // b
	/// triple
,zchar[ 7	]
    Z9_, 
}
packet
    body	{
@tag( 
255) repeatCount

    @lengthOf( BodyLength

),

@tag(
    7
	) repeat zchar[ 
4294967296
	] i64_
,match x_y_z as

Header
{""`tick`""
    :
	rootA

,
}
,
    @calculatedFrom(

    ""packet""
	) rootA

    {
uint64 
string_,	char[// " ++ [27880; 37322]%N ++ runes_of_ascii "
    	65535
	]

    BodyLength
@calculatedFrom( 
""a\""b""
    ) `tab	here`	,

int64 pack `line1
line2`,}
,
	}
")).
Eval vm_compute in ("<<<M1142>>>" ++ check (runes_of_ascii "options{ } options  { calculatedFrom = true int = ""it's""tag  = false
;
i64_= 3; chars
= ' ' } options //	t
{ o = ' '; repeatCount // a // b
= 00} root
// " ++ [128512]%N ++ runes_of_ascii " emoji
// " ++ [128512]%N ++ runes_of_ascii " emoji
packet
uint8x
{
// @lengthOf(
// `tick` ""quote"" 'q'
@rightPad ( '\x00'
    )i64
    pack @calculatedFrom(
    ""\" ++ [233]%N ++ runes_of_ascii """)
    , repeat char[ 255] body , @tag(10
)@lengthOf( x_y_z	)int8 a1 `doc` ,i64_ @calculatedFrom(
""// no comment"")
// " ++ [27880; 37322]%N ++ runes_of_ascii "
// " ++ [128512]%N ++ runes_of_ascii " emoji
`" ++ [233]%N ++ runes_of_ascii "` ,match asx as i64_ {
""a\""b"" :  f32a , [ ""a\\""] : Logon  , [ 4294967296 ]:
    pack ,10 : x_y_z
// `tick` ""quote"" 'q'
// trailing space 
,3
: charz } , @leftPad ( )  asx chars	`tab	here` , }
")).
Eval vm_compute in ("<<<M651>>>" ++ check (runes_of_ascii "packet
u { repeat
zchar[ 0123456789 // trailing space 
] x `tab	here`
/// triple
//	t
, @lengthOf( u8x  ) @tag( //x
3 )@tag(  255 ) options1
f32a `tab	here`
    , string BodyLength `u8 x,` ,
@calculatedFrom( """ ++ [28040; 24687]%N ++ runes_of_ascii """
    ) string
u8x  `" ++ [28040; 24687; 31867; 22411]%N ++ runes_of_ascii "`
, char[ 3 // `tick` ""quote"" 'q'
] BodyLength , // " ++ [128512]%N ++ runes_of_ascii " emoji
match rootA
as
msg_type { 007 :
    MetaDataX
    // " ++ [27880; 37322]%N ++ runes_of_ascii "
    [ 1	,255, ""CRC32"" , 4294967296] // trailing space 
: tag ,  }
// @lengthOf(
// " ++ [128512]%N ++ runes_of_ascii " emoji
, float64 a1 `doc`
, @calculatedFrom( ""a	b"" ) char[3
    ] body
, _x	, }
root
    packet len {
    repeat o rootA
    ,
}")).
Eval vm_compute in ("<<<M690>>>" ++ check (runes_of_ascii "packet Z9_	{a1,
}root packet crc
    {
/// triple
// trailing space 
u32 o@calculatedFrom( ""it's""
)
,
    float32
lengthOf  , zchar[4294967296
    //	t
    ] repeatCount @lengthOf( MetaDataX ) `{ , }` ,//
@rightPad ( '0'
// packet A { u8 x, }
// c
) body {
string Packet
`tab	here` ,}
    ,	repeat i8i8 {match
BodyLength as Foo{ 7 : f32a , 42
    : A ""packet"" : uint8x , [ ""a\\"" ]
    // a // b
    :  u8x	, ""it's"" : As
, } , repeat zchar[ 65535 ] crc , char[]
chars `a\`
    ,}//	t
,  char[ 4294967296 ]	repeatCount `two words`,
    }")).
Eval vm_compute in ("<<<M36>>>" ++ check (runes_of_ascii "root packet
leftPad { match roots as packetx{
42 : chars, 255 : f32a , }
    , @rightPad
(	' ' ) // @lengthOf(
charz
    @lengthOf( packetx ) , i32 u8x  , uint8x
, } root packet x_y_z { u64 packetx
@lengthOf( stringy )
    ,
    @leftPad// " ++ [27880; 37322]%N ++ runes_of_ascii "
( ' '
    ) // packet A { u8 x, }
@rightPad ( '\x00'
    ) // trailing space 
@calculatedFrom(	""\" ++ [233]%N ++ runes_of_ascii """ ) uint8
MetaDataX@lengthOf(
    As
    ) ,@lengthOf(
rootA ) // c
float64 uint8x`say ""hi""` ,@leftPad ( ' ' ) repeat float64 Pad ,
    // packet A { u8 x, }
    }
")).
Eval vm_compute in ("<<<M84>>>" ++ check (runes_of_ascii "MetaData
    /// triple
    Logon
{zchar[
    3 ] a1
    `" ++ [28040; 24687; 31867; 22411]%N ++ runes_of_ascii "`
    , char[ 007 ]
MetaDataX `a\` ,
}  root packet
    pack { }
packet
    // trailing space 
    i64_
{  @lengthOf(chars
)
    len	{ uint8 rootA`doc` ,
string_ `crlf
line` //x
, //	t
match charz as
Foo
{
    42 : options1 , [255
    ]:charz
    } , }, roots repeatCount
    `two words` /// triple
,
    //	t
    string Logon @calculatedFrom( ""a\""b"") , @calculatedFrom(// `tick` ""quote"" 'q'
""a\\""	) Z9_
    ,
} //x")).
Eval vm_compute in ("<<<M188>>>" ++ check (runes_of_ascii "packet asx{
@lengthOf(	falsey
    //	t
    ) repeat uint64 charz , repeat // " ++ [128512]%N ++ runes_of_ascii " emoji
char[] As `it's`
, }packet
u8x { @tag(
    4294967296
    )
@calculatedFrom(
""`tick`""
) @calculatedFrom(""abc"" ) repeat // @lengthOf(
i64 options1 `it's`, match Logon as o {  3 :Z9_ 3:T , 3// c
:// @lengthOf(
u128,4294967296: Z9_ , [""""
,
10
    ] : body ,
    // c
    """ ++ [233]%N ++ runes_of_ascii "t" ++ [233]%N ++ runes_of_ascii """ : string_
//
/// triple
, } , @tag( 7 )
uint8x
    @lengthOf(
    //
    Foo ), repeat T _x//
`" ++ [233]%N ++ runes_of_ascii "`
, }")).
Eval vm_compute in ("<<<M337>>>" ++ check (runes_of_ascii "packet
    // " ++ [128512]%N ++ runes_of_ascii " emoji
    Header {	@calculatedFrom( """" ) @calculatedFrom(
""" ++ [128512]%N ++ runes_of_ascii """ )  @calculatedFrom(
""it's"" ) tag
// trailing space 
//
{int32 repeatCount
,f32a //
@lengthOf(
    BodyLength ) , calculatedFrom{ i64_
    len, trueish @lengthOf( body ) `
` , i64 f32a `u8 x,`, //x
match  Foo as A { 007
: options1
//x
/// triple
,  255: charz ,""" ++ [233]%N ++ runes_of_ascii "t" ++ [233]%N ++ runes_of_ascii """ :zchar
, ""`tick`""	:
    u8x
    ,  1 : len },}, } ,
    repeat leftPad { uint32 packetx	`` , } // c
, }")).
Eval vm_compute in ("<<<M163>>>" ++ check (runes_of_ascii "
packet
    float {
    char[ 00 ] u8x ,	}
packet // " ++ [128512]%N ++ runes_of_ascii " emoji
A // @lengthOf(
{ string
i8i8 , A //x
@calculatedFrom(
""a	b"" ) `a\`, @tag( 1 )
    chars	@lengthOf( Pad ) `u8 x,`
    , /// triple
match repeatCount as stringy { 42 :
x
3: // @lengthOf(
tag, [ 00 , 0123456789
] : packetx , [ """ ++ [28040; 24687]%N ++ runes_of_ascii """	, ""packet""
]: string_ , }	,
}options // @lengthOf(
{ i8i8= """ ++ [233]%N ++ runes_of_ascii "t" ++ [233]%N ++ runes_of_ascii """ Foo
    = false
    // packet A { u8 x, }
    ;  Pad =
' '
    ;}")).
Eval vm_compute in ("<<<M4062>>>" ++ check (runes_of_ascii "packet x_y_z {
    @tag(7)
    u128 u8x,
    char[1] x_y_z `{ , }`,
    @lengthOf(T)
    @calculatedFrom(""" ++ [28040; 24687]%N ++ runes_of_ascii """)
    @lengthOf(BodyLength)
    //x
    // packet A { u8 x, }
    match body as u {
        0123456789 : rootA,
    },
}

root packet Logon {
}

MetaData lengthOf {
    repeatCount As,
    u16 MetaDataX `crlf
    line`,
    //	t
    // " ++ [27880; 37322]%N ++ runes_of_ascii "
    Packet BodyLength,
    falsey _x `u8 x,`,
    zchar[3] Z9_,
}")).
Eval vm_compute in ("<<<M934>>>" ++ check (runes_of_ascii "// trailing space 
packet asx
{ // @lengthOf(
} root packet Logon{ char // " ++ [128512]%N ++ runes_of_ascii " emoji
stringy
    @calculatedFrom( //	t
""abc""
)`say ""hi""` ,
//	t
//x
f64	tag ,// " ++ [27880; 37322]%N ++ runes_of_ascii "
char[ 0123456789
    ]
    packetx , match x	as pack// c
{ ""\n"" :BodyLength ,
    // packet A { u8 x, }
    007 :
    body/// triple
, [ 255 ,
255
,255  ] //	t
: A
    , 0 : o	,[
    ""abc"" , 1] :crc , [
""a	b"" ]
    :charz , } , }
")).
Eval vm_compute in ("<<<M3288>>>" ++ check (runes_of_ascii "// top
packet
    // c0
u128 // c1
{ // c2
@lengthOf(
    // c3
body // c4a
  // c4b
) // c5
match // c6
x_y_z // c7
as
    // c8
u // c9
{ // c10a
  // c10b
""x y"" : // c12a
  // c12b
i8i8 , // c14a
  // c14b
} // c15a
  // c15b
,
    // c16
@tag(
    // c17
255 // c18
)
    // c19
char[] // c20
roots // c21a
  // c21b
@lengthOf( int
    // c23
)
    // c24
, // c25
} // c26
")).
Eval vm_compute in ("<<<M4382>>>" ++ check (runes_of_ascii "packet 
calculatedFrom{ int16

    asx @calculatedFrom(
"""" ) ,
	@calculatedFrom(""1"")	i8i8
{ i32 stringy @calculatedFrom(

""a	b""
)	`say ""hi""`  ,i32//x

  uint8x 
,
match

    Header

as
Logon {
00	: A , } ,
	match 
  // `tick` ""quote"" 'q'
      repeatCount  as  Packet

{

    ""packet"" : 
	// trailing space 
    MetaDataX
""" ++ [28040; 24687]%N ++ runes_of_ascii """

    : u
    ,
} ,} ,}
")).
Eval vm_compute in ("<<<M1253>>>" ++ check (runes_of_ascii "// @lengthOf(
options { u128  = uint32
}  packet	T {// packet A { u8 x, }
}
options {} MetaData // " ++ [27880; 37322]%N ++ runes_of_ascii "
pack// " ++ [128512]%N ++ runes_of_ascii " emoji
{
    }packet _x
{	@tag( 1) char[ 00
    ] x_y_z
    @calculatedFrom( ""\" ++ [233]%N ++ runes_of_ascii """ ) ,
    f32 a1 , @rightPad
(  '0'	) zchar[ 00
]  u
    `u8 x,` ,@lengthOf(msg_type )x  {metadata , } ,
    // packet A { u8 x, }
    char[]
    float , }")).
Eval vm_compute in ("<<<M3741>>>" ++ check (runes_of_ascii "options {
    calculatedFrom = '0';
}

root packet metadata {
    i64 float @calculatedFrom(""1""),
    @rightPad()
    Logon u `crlf
        line`,// trailing space 
    falsey Packet `line1
        line2`,
    u32 a1 `tab	here`,
}// " ++ [128512]%N ++ runes_of_ascii " emoji

options {
    lengthOf = '\x00'
    msg_type = uint8;
    repeatCount = 0123456789;
}//x")).
Eval vm_compute in ("<<<M4073>>>" ++ check (runes_of_ascii "root packet f32a {
    @leftPad('0')
    @tag(00)
    @rightPad('0')
    falsey tag,/// triple
    float32 packetx `tab	here`,
    Pad,
    @tag(255)
    char[] T `" ++ [28040; 24687; 31867; 22411]%N ++ runes_of_ascii "`,
    repeat char[4294967296] Logon,
    repeat zchar[007] x `
        `,
    uint64 uint8x `two words`,
    Z9_ @lengthOf(f32a),
}// packet A { u8 x, }")).
Eval vm_compute in ("<<<M4157>>>" ++ check (runes_of_ascii "
packet	leftPad { trueish
    {

    char[]

    charz@calculatedFrom(  ""\n""  ) 
  // @lengthOf(
//x

  ,
    }  ,  @rightPad

    ( '0')
    @tag( 
255 
)
    len{ zchar[

    65535]

    f32a
,
	}
,
    f64
    i8i8 ``	,}

options {
	chars =
00
Pad  =  false // a // b
	stringy
= 
string
	} ")).
Eval vm_compute in ("<<<M1580>>>" ++ check (runes_of_ascii "root packet Foo // " ++ [128512]%N ++ runes_of_ascii " emoji
{ } options {
    // a // b
    tag // `tick` ""quote"" 'q'
= //	t
""""
    ; u8x = zchar[0  ] }
MetaData
    int {zchar[ 10]
lengthOf	`` , i64 u8x`// not a comment` ,MetaDataX pack// `tick` ""quote"" 'q'
`crlf
line`
, Logon Logon charz `crlf
line`
    ,
    // a // b
    }
")).
Eval vm_compute in ("<<<M1621>>>" ++ check (runes_of_ascii "root packet Foo // " ++ [128512]%N ++ runes_of_ascii " emoji
{ } options {
    // a // b
    tag // `tick` ""quote"" 'q'
= //	t
""""
    ; u8x = zchar[0  ] }
MetaData
    int {zchar[ 10]
lengthOf	`` , i64 u8x`// not a comment` ,MetaDataX pack// `tick` ""quote"" 'q'
`crlf
line`
, Logon charz `crlf
line`
    ,
    //'1' a // b
    }
")).
Eval vm_compute in ("<<<M1481>>>" ++ check (runes_of_ascii "root packet Foo // " ++ [128512]%N ++ runes_of_ascii " emoji
{ } options {
    // a // b
    tag // `tick` ""quote"" 'q'
= //	t
""""
    ; u8x = zchar[ ]  0 }
MetaData
    int {zchar[ 10]
lengthOf	`` , i64 u8x`// not a comment` ,MetaDataX pack// `tick` ""quote"" 'q'
`crlf
line`
, Logon charz `crlf
line`
    ,
    // a // b
    }
")).
Eval vm_compute in ("<<<M1506>>>" ++ check (runes_of_ascii "root packet Foo // " ++ [128512]%N ++ runes_of_ascii " emoji
{ } options {
    // a // b
    tag // `tick` ""quote"" 'q'
= //	t
""""
    ; u8x = zchar[0  ] }
MetaData
    int zchar[{ 10]
lengthOf	`` , i64 u8x`// not a comment` ,MetaDataX pack// `tick` ""quote"" 'q'
`crlf
line`
, Logon charz `crlf
line`
    ,
    // a // b
    }
")).
Eval vm_compute in ("<<<M1489>>>" ++ check (runes_of_ascii "root packet Foo // " ++ [128512]%N ++ runes_of_ascii " emoji
{ } options {
    // a // b
    tag // `tick` ""quote"" 'q'
= //	t
""""
    ; u8x = zchar[0  ] 
MetaData
    int {zchar[ 10]
lengthOf	`` , i64 u8x`// not a comment` ,MetaDataX pack// `tick` ""quote"" 'q'
`crlf
line`
, Logon charz `crlf
line`
    ,
    // a // b
    }
")).
Eval vm_compute in ("<<<M192>>>" ++ check (runes_of_ascii "root
packet	i64_
    {
    }options{ chars
= char[
65535 ] body = ""abc""; u= ""`tick`"" trueish
='0' }options
{repeatCount= '\x00'
// " ++ [128512]%N ++ runes_of_ascii " emoji
/// triple
;
    f32a =""\n"" int
    /// triple
    = false Pad
= ""1""repeatCount =""// no comment""; }root packet string_
{i32 As `tab	here` , } // c")).
Eval vm_compute in ("<<<M887>>>" ++ check (runes_of_ascii "
MetaData
// " ++ [128512]%N ++ runes_of_ascii " emoji
//
i8i8
{ int8 charz	`doc` ,}
    packet Header
    {  repeat
    int32 lengthOf `line1
line2` // trailing space 
,
}
    options {float= char[] ;
}packet i8i8 //
{uint8	u128 @lengthOf(
//	t
//x
repeatCount )`crlf
line` ,} options {
    Packet =
char[ 007 ]}
")).
Eval vm_compute in ("<<<M3820>>>" ++ check (runes_of_ascii "root packet u {
    @rightPad('\x00')
    Logon @calculatedFrom(""{,}"") `" ++ [233]%N ++ runes_of_ascii "`,
    @tag(3)
    string repeatCount,
    match packetx as u8x {
        65535 : i8i8,
        007 : roots,
        ""a	b"" : BodyLength,
    },
    @tag(00)
    uint32 repeatCount @lengthOf(u128),
}")).
Eval vm_compute in ("<<<M4491>>>" ++ check (runes_of_ascii "options { 
}
	options { } root packet 
uint8x
	{ @leftPad  ('\x00'  ) 
match
uint8x 
as pack  {
    [""\n""
, 
""a	b"",
    10
	,

    // " ++ [27880; 37322]%N ++ runes_of_ascii "
	255
, 
    // " ++ [27880; 37322]%N ++ runes_of_ascii "
    	//	t
	""a	b""
,	//x
  """" ]  // " ++ [27880; 37322]%N ++ runes_of_ascii "
    :
    repeatCount
,  // c
      }

    , 	 // " ++ [128512]%N ++ runes_of_ascii " emoji

}")).
Eval vm_compute in ("<<<M3653>>>" ++ check (runes_of_ascii "// packet A { u8 x, }
	  options

    { 
matchKey
    = char[]x	=
char[] 	 // " ++ [27880; 37322]%N ++ runes_of_ascii "

	}

packet
i64_ {
repeat  pack `say ""hi""` 
,i16 calculatedFrom `u8 x,`, }MetaData
	calculatedFrom	{  // trailing space 

	Logon

Packet ,}// `tick` ""quote"" 'q'
")).
Eval vm_compute in ("<<<M1151>>>" ++ check (runes_of_ascii "packet a1{
@calculatedFrom(""// no comment"")
repeat
f32a { body// `tick` ""quote"" 'q'
`// not a comment`,  } , o @calculatedFrom(""a	b""
)
    //	t
    `line1
line2`
, @calculatedFrom(""`tick`""
) repeat	tag	,
// @lengthOf(
// " ++ [128512]%N ++ runes_of_ascii " emoji
}
// c
")).
Eval vm_compute in ("<<<M181>>>" ++ check (runes_of_ascii "root
packet BodyLength {
//x
//	t
@rightPad( ' ') f32
_x @lengthOf( Header )
`" ++ [28040; 24687; 31867; 22411]%N ++ runes_of_ascii "`
, @lengthOf( crc )
    // a // b
    @tag(
    007
) char[]// c
a1
    ,  } packet metadata { Foo@calculatedFrom( ""\n""), char _x
// " ++ [27880; 37322]%N ++ runes_of_ascii "
//	t
, }
")).
Eval vm_compute in ("<<<M2372>>>" ++ check (runes_of_ascii "MetaData Packet { }packet	asx  { @lengthOf( asx) falsey`crlf
line`
,
    }
    packet x	{uint32// @lengthOf(
rootA	,u32 options1 `say ""hi""` , @tag( 7
    )// packet A { u8 x, }
msg_type @lengthOf(
stringy	)	, @rightPad

")).
Eval vm_compute in ("<<<M2258>>>" ++ check (runes_of_ascii "MetaData Packet { }packet	asx  { @lengthOf( asx i32 falsey`crlf
line`
,
    }
    packet x	{uint32// @lengthOf(
rootA	,u32 options1 `say ""hi""` , @tag( 7
    )// packet A { u8 x, }
msg_type @lengthOf(
stringy	)	, }

")).
Eval vm_compute in ("<<<M2379>>>" ++ check (runes_of_ascii "MetaData Packet { }packet	asx  { @lengthOf( asx) falsey`crlf
line`
$,
    }
    packet x	{uint32// @lengthOf(
rootA	,u32 options1 `say ""hi""` , @tag( 7
    )// packet A { u8 x, }
msg_type @lengthOf(
stringy	)	, }

")).
Eval vm_compute in ("<<<M2312>>>" ++ check (runes_of_ascii "MetaData Packet { }packet	asx  { @lengthOf( asx) falsey`crlf
line`
,
    }
    packet x	{uint32// @lengthOf(
rootA	,options1 u32 `say ""hi""` , @tag( 7
    )// packet A { u8 x, }
msg_type @lengthOf(
stringy	)	, }

")).
Eval vm_compute in ("<<<M2365>>>" ++ check (runes_of_ascii "MetaData Packet { }packet	asx  { @lengthOf( asx) falsey`crlf
line`
,
    }
    packet x	{uint32// @lengthOf(
rootA	,u32 options1 `say ""hi""` , @tag( 7
    )// packet A { u8 x, }
msg_type @lengthOf(
stringy	)	 }

")).
Eval vm_compute in ("<<<M2280>>>" ++ check (runes_of_ascii "MetaData Packet { }packet	asx  { @lengthOf( asx) falsey`crlf
line`
,
    }
     x	{uint32// @lengthOf(
rootA	,u32 options1 `say ""hi""` , @tag( 7
    )// packet A { u8 x, }
msg_type @lengthOf(
stringy	)	, }

")).
Eval vm_compute in ("<<<M169>>>" ++ check (runes_of_ascii "packet u128 {
string
T
, }
packet
A { Pad { metadata f32a, match  i8i8
    as //x
crc { 7:a1,[ ""1"" ] :Foo	, 7
    : metadata
    // c
    , 65535 : pack
    ,	} , repeat char[] string_, }/// triple
,
}
")).
Eval vm_compute in ("<<<M973>>>" ++ check (runes_of_ascii "// a // b
packet/// triple
tag
    { match	As as o
{
""`tick`"" :
    float , },	string // c
u128 `two words` ,	}
// " ++ [27880; 37322]%N ++ runes_of_ascii "
// packet A { u8 x, }
packet lengthOf	{ int64 u	@calculatedFrom( """ ++ [233]%N ++ runes_of_ascii "t" ++ [233]%N ++ runes_of_ascii """ ) ,	}
")).
Eval vm_compute in ("<<<M394>>>" ++ check (runes_of_ascii "MetaData  tag
    {i8 body ,char[]tag , int16 metadata ,
    // c
    f64 body`" ++ [28040; 24687; 31867; 22411]%N ++ runes_of_ascii "`
// a // b
/// triple
,
    char[ // `tick` ""quote"" 'q'
42 ] rootA, // a // b
T metadata `say ""hi""`
, }")).
Eval vm_compute in ("<<<M4498>>>" ++ check (runes_of_ascii "// @lengthOf(
MetaData u {
    char[] float,
    u8 leftPad `
        `,
    // a // b
    // a // b
    metadata string_,
    char[] Header,
    zchar[0123456789] a1 `
        `,
}")).
Eval vm_compute in ("<<<M3869>>>" ++ check (runes_of_ascii "root packet calculatedFrom {
    @rightPad()
    match pack as repeatCount {
        007 : pack,
    },
}

options {
    As = 00
    //	t
    T = '\x00';
    pack = 00
}// c")).
Eval vm_compute in ("<<<M4484>>>" ++ check (runes_of_ascii "
options { 
As

=
string u

    = """ ++ [233]%N ++ runes_of_ascii "t" ++ [233]%N ++ runes_of_ascii """  } 
packet string_

    {@tag( 3

)

int32

As ,  } root packet

stringy
	{	//x
    string
	int ,

    }	options
	{ 
}
")).
Eval vm_compute in ("<<<M83>>>" ++ check (runes_of_ascii "packet // trailing space 
msg_type { repeat string
// `tick` ""quote"" 'q'
// @lengthOf(
BodyLength  `two words`
// packet A { u8 x, }
// packet A { u8 x, }
, }
")).
Eval vm_compute in ("<<<M944>>>" ++ check (runes_of_ascii "packet crc {
    } MetaData/// triple
Packet { Logon
    Pad `line1
line2` ,u8 pack ,// a // b
} options
    // c
    { falsey
=  ""it's"" len = """ ++ [28040; 24687]%N ++ runes_of_ascii """ ; }
")).
Eval vm_compute in ("<<<M4034>>>" ++ check (runes_of_ascii "

  packet A {
match
k

    as	n

    { [

""a""
, ""bb"" ,

    ""c c""	,""d"" ,
""e""
,""f"",
""g""
, 
""h""  ,
	""i""
	,""j""
] 
: 
B
,

    2 : C } ,} ")).
Eval vm_compute in ("<<<M2329>>>" ++ check (runes_of_ascii "MetaData Packet { }packet	asx  { @lengthOf( asx) falsey`crlf
line`
,
    }
    packet x	{uint32// @lengthOf(
rootA	,u32 options1 `say ""hi""`")).
Eval vm_compute in ("<<<M1726>>>" ++ check (runes_of_ascii "root packet /// triple
r@leftpadootA {	i32
MetaDataX@calculatedFrom( ""CRC32"" ) `line1
line2` , } MetaData BodyLength {
u8
rootA, } // c")).
Eval vm_compute in ("<<<M3445>>>" ++ check (runes_of_ascii "options {
    LittleEndian = true;
}
packet B {
    u8 a,
    string s,
}
root packet P {
    u16 L @lengthOf(B),
    B,
    u8 t,
}
")).
Eval vm_compute in ("<<<M1708>>>" ++ check (runes_of_ascii "root packet /// triple
rootA {	i32
MetaDataX@calculatedFrom( ""CRC32"" ) `line1
line2` , } MetaData BodyLength {
u8
rootA, , } // c")).
Eval vm_compute in ("<<<M1679>>>" ++ check (runes_of_ascii "root packet /// triple
rootA {	i32
MetaDataX@calculatedFrom( ""CRC32"" ) `line1
line2` , MetaData } BodyLength {
u8
rootA, } // c")).
Eval vm_compute in ("<<<M4064>>>" ++ check (runes_of_ascii "packet
calculatedFrom

{@tag( 
4294967296
)
    u msg_type
	, char[
3]

crc @lengthOf(
	len

    )
    `u8 x,` 
,	// c
	}")).
Eval vm_compute in ("<<<M4437>>>" ++ check (runes_of_ascii "packet
	calculatedFrom	{@tag(
    4294967296

) u 
    // c
    msg_type, char[

3 
]
    crc @lengthOf( len )`u8 x,`
	, }
")).
Eval vm_compute in ("<<<M1715>>>" ++ check (runes_of_ascii "root packet /// triple
rootA {	i32
MetaDataX@calculatedFrom( ""CRC32"" ) `line1
line2` , } MetaData BodyLength {
u8
rootA,")).
Eval vm_compute in ("<<<M1788>>>" ++ check (runes_of_ascii "packet
    ""x y"" // a // b
{ i8i8 @calculatedFrom( ""a	b"") `u8 x,` ,
} options{ float// " ++ [128512]%N ++ runes_of_ascii " emoji
= f64 i64_
=//	t
00 }
")).
Eval vm_compute in ("<<<M1892>>>" ++ check (runes_of_ascii "packet
    Pad // a // b
{ i8i8 @calculatedFrom( ""a	b"") `u8 x,` ,
} options{ float// " ++ [128512]%N ++ runes_of_ascii " emoji
= f64 i6'4_
=//	t
00 }
")).
Eval vm_compute in ("<<<M1858>>>" ++ check (runes_of_ascii "packet
    Pad // a // b
{ i8i8 @calculatedFrom( ""a	b"") `u8 x,` ,
} options{ float// " ++ [128512]%N ++ runes_of_ascii " emoji
= f64 char
=//	t
00 }
")).
Eval vm_compute in ("<<<M1378>>>" ++ check (runes_of_ascii "packet f32a
    {int16 int
    ,
    } MetaData f32a { char i8i8 , /// triple
string Pad, zchar
f32a ,
    x	T,
}
")).
Eval vm_compute in ("<<<M446>>>" ++ check (runes_of_ascii "MetaData
body { int64 pack ,	i16 len,	o x ,	uint8
u128 , string calculatedFrom `two words`
, u64 len
    , } //")).
Eval vm_compute in ("<<<M3028>>>" ++ check (runes_of_ascii "packet A {
    u16 len @lengthOf(body) `a

b`,
    u32 crc @calculatedFrom(""CRC32"") `a

b`,
    string body,
}")).
Eval vm_compute in ("<<<M217>>>" ++ check (runes_of_ascii "packet i8i8  { lengthOf lengthOf
    `u8 x,`
, }options{u =
'\x00'; } MetaData i64_ {
}MetaData Header {}")).
Eval vm_compute in ("<<<M3451>>>" ++ check (runes_of_ascii "options {
    LittleEndian = true;
}
root packet P {
    u16 a,
    u32 Sum @calculatedFrom(""CRC32""),
}
")).
Eval vm_compute in ("<<<M3358>>>" ++ check (runes_of_ascii "packet calculatedFrom { @tag( 4294967296 ) u msg_type , char[
// c
3 ] crc @lengthOf( len ) `u8 x,` , }")).
Eval vm_compute in ("<<<M62>>>" ++ check (runes_of_ascii "
options{metadata
    =
// @lengthOf(
// @lengthOf(
""a	b"" u = 0
; // trailing space 
i8i8 = 0
;	} 	 ")).
Eval vm_compute in ("<<<M2970>>>" ++ check (runes_of_ascii "packet A {
  match k as n {
    [""a"", 22, ""c c"", 4, ""e"", 66, ""g"", 8, ""i"", 10] : B
    2 : C
  },
}")).
Eval vm_compute in ("<<<M4431>>>" ++ check (runes_of_ascii "
packet

    A
{

match	k
    as

n 
{

[ ""a"" 
,
    ""bb"" ]	: B ,2  :
    C 
}

    ,
    }")).
Eval vm_compute in ("<<<M3234>>>" ++ check (runes_of_ascii "packet Logon { @tag( 42 ) @rightPad ( ' ' ) // c
@leftPad ( ) repeat trueish { string T , } , }")).
Eval vm_compute in ("<<<M2007>>>" ++ check (runes_of_ascii "root
packet crc
    { f32a @calculatedFrom( """ ++ [233]%N ++ runes_of_ascii "t" ++ [233]%N ++ runes_of_ascii """ )
    `say ""hi""`, lengthOf lengthOf `` ,  }")).
Eval vm_compute in ("<<<M271>>>" ++ check (runes_of_ascii "packet BodyLength { @tag(	007
)
char[ 65535
]
    string_
`u8 x,`,
    // @lengthOf(
    }")).
Eval vm_compute in ("<<<M2294>>>" ++ check (runes_of_ascii "MetaData Packet { }packet	asx  { @lengthOf( asx) falsey`crlf
line`
,
    }
    packet x")).
Eval vm_compute in ("<<<M2289>>>" ++ check (runes_of_ascii "MetaData Packet { }packet	asx  { @lengthOf( asx) falsey`crlf
line`
,
    }
    packet")).
Eval vm_compute in ("<<<M2931>>>" ++ check (runes_of_ascii "packet A {
  match k as n {
    [""a"", 22, ""c c"", 4, ""e"", 66, ""g""] : B
    2 : C
  },
}")).
Eval vm_compute in ("<<<M972>>>" ++ check (runes_of_ascii "options	{ string_ =  '\x00'
    rootA // trailing space 
= u8; Foo =""a\\""//
;
    }
")).
Eval vm_compute in ("<<<M4453>>>" ++ check (runes_of_ascii "
// top
	options	// c0
{  // c1
  u8x  // c2
    =  // c3
3  // c4
  } // c5
 
")).
Eval vm_compute in ("<<<M3301>>>" ++ check (runes_of_ascii "packet o { @tag(
// c
42 ) repeat x { char[ 0123456789 ] i64_ , } , } options { }")).
Eval vm_compute in ("<<<M3826>>>" ++ check (runes_of_ascii "
MetaData matchKey
{
}MetaData  rootA

    { 	 //	t
  falsey
    stringy
,}
")).
Eval vm_compute in ("<<<M3057>>>" ++ check (runes_of_ascii "packet A {
    u32 crc @calculatedFrom(""\
""),
    @calculatedFrom(""\
"") u8 y,
}")).
Eval vm_compute in ("<<<M40>>>" ++ check (runes_of_ascii "  root
    packet falsey
{}
/// triple
// " ++ [27880; 37322]%N ++ runes_of_ascii "
options {}
// trailing space 
")).
Eval vm_compute in ("<<<M1984>>>" ++ check (runes_of_ascii "root
packet crc
    { f32a char[ """ ++ [233]%N ++ runes_of_ascii "t" ++ [233]%N ++ runes_of_ascii """ )
    `say ""hi""`, lengthOf `` ,  }")).
Eval vm_compute in ("<<<M2898>>>" ++ check (runes_of_ascii "packet A {
  match k as n {
    [1, 22, 007, 4, 5] : B,
    2 : C
  },
}")).
Eval vm_compute in ("<<<M2962>>>" ++ check (runes_of_ascii "packet A { Inner { match k as n { [1,22,007,4,5,66,7,8,9] : B, }, }, }")).
Eval vm_compute in ("<<<M2879>>>" ++ check (runes_of_ascii "packet A {
  match k as n {
    [""a"", 22, ""c c""] : B
    2 : C
  },
}")).
Eval vm_compute in ("<<<M3807>>>" ++ check (runes_of_ascii "options { Z9_  =
	""" ++ [233]%N ++ runes_of_ascii "t" ++ [233]%N ++ runes_of_ascii """
;

rootA
	=
	string
;}	// trailing space 
")).
Eval vm_compute in ("<<<M2660>>>" ++ check (runes_of_ascii "options { a = char[3]; b = zchar[0] c = char[] d = string e = u8 }")).
Eval vm_compute in ("<<<M2161>>>" ++ check (runes_of_ascii "root
    // `tick` ""quote"" 'q'
    packet  { trueish Packet , }
")).
Eval vm_compute in ("<<<M3810>>>" ++ check (runes_of_ascii "packet rootA {
    int @lengthOf(Packet) `// not a comment`,
}")).
Eval vm_compute in ("<<<M228>>>" ++ check (runes_of_ascii "packet Z9_
    { body MetaDataX , } MetaData asx  {
} //	t")).
Eval vm_compute in ("<<<M4392>>>" ++ check (runes_of_ascii "MetaData charz {
    zchar[42] packetx `crlf
    line`,
}")).
Eval vm_compute in ("<<<M1947>>>" ++ check (runes_of_ascii "
packet	As { @calculatedFrom(//x
""{,}""	" ++ [233]%N ++ runes_of_ascii ")lengthOf , } 	 ")).
Eval vm_compute in ("<<<M1935>>>" ++ check (runes_of_ascii "
packet	As { @calculatedFrom(//x
""{,}""	)lengthOf ,  	 ")).
Eval vm_compute in ("<<<M1081>>>" ++ check (runes_of_ascii "options {i64_ =""x y"" _x =  int32 i64_ = '0' } // " ++ [27880; 37322]%N)).
Eval vm_compute in ("<<<M406>>>" ++ check (runes_of_ascii "options
    {} packet
_x
{
}packet
matchKey { }
")).
Eval vm_compute in ("<<<M2422>>>" ++ check (runes_of_ascii "MetaData A
i64
{
chars	, } // `tick` ""quote"" 'q'")).
Eval vm_compute in ("<<<M3897>>>" ++ check (runes_of_ascii "MetaData charz {
    char[7] body `tab	here`,
}")).
Eval vm_compute in ("<<<M1754>>>" ++ check (runes_of_ascii "options { }{ options  } // `tick` ""quote"" 'q'")).
Eval vm_compute in ("<<<M732>>>" ++ check (runes_of_ascii "options {
calculatedFrom
= f64
} // a // b")).
Eval vm_compute in ("<<<M3050>>>" ++ check (runes_of_ascii "options {
    a = ""x\
y"";
    b = ""x\
y""
}")).
Eval vm_compute in ("<<<M1448>>>" ++ check (runes_of_ascii "root packet Foo // " ++ [128512]%N ++ runes_of_ascii " emoji
{ } options {")).
Eval vm_compute in ("<<<M3201>>>" ++ check (runes_of_ascii "MetaData zchar { zchar[ 3 ]
// c
Pad , }")).
Eval vm_compute in ("<<<M980>>>" ++ check (runes_of_ascii "options
// a // b
// @lengthOf(
{ } 	 ")).
Eval vm_compute in ("<<<M798>>>" ++ check (runes_of_ascii "options{ asx = u64 ; string_ = 10 }
")).
Eval vm_compute in ("<<<M3049>>>" ++ check (runes_of_ascii "root packet A {
    u8 x `tab
	x`,
}")).
Eval vm_compute in ("<<<M2805>>>" ++ check (runes_of_ascii "`// not a comment` int64 int8 true")).
Eval vm_compute in ("<<<M2836>>>" ++ check (runes_of_ascii "root float64 } packet true i32 ,")).
Eval vm_compute in ("<<<M1336>>>" ++ check (runes_of_ascii "MetaData Packet{  }
// a // b
")).
Eval vm_compute in ("<<<M3882>>>" ++ check (runes_of_ascii "
packet	A 
{x y `d`
,
    }
")).
Eval vm_compute in ("<<<M2777>>>" ++ check (runes_of_ascii "= u128 u8 u16 char u16 false")).
Eval vm_compute in ("<<<M4151>>>" ++ check (runes_of_ascii "

  MetaData
leftPad
{ } ")).
Eval vm_compute in ("<<<M614>>>" ++ check (runes_of_ascii "MetaData repeatCount {
}")).
Eval vm_compute in ("<<<M722>>>" ++ check (runes_of_ascii "packet
MetaDataX
    { }")).
Eval vm_compute in ("<<<M3382>>>" ++ check (runes_of_ascii "packet // c
lengthOf { }")).
Eval vm_compute in ("<<<M4347>>>" ++ check (runes_of_ascii "packet rootA {
    //
}")).
Eval vm_compute in ("<<<M1874>>>" ++ check (runes_of_ascii "packet
    Pad // a /")).
Eval vm_compute in ("<<<M2663>>>" ++ check (runes_of_ascii "options { a = `d`; }")).
Eval vm_compute in ("<<<M3146>>>" ++ check (runes_of_ascii "packet A {
}
// c x")).
Eval vm_compute in ("<<<M3066>>>" ++ check (runes_of_ascii "packet A {
}
// c" ++ [12288]%N)).
Eval vm_compute in ("<<<M3159>>>" ++ check (runes_of_ascii "MetaData M {
}// c")).
Eval vm_compute in ("<<<M3104>>>" ++ check (runes_of_ascii "packet A {
}// c" ++ [8239]%N)).
Eval vm_compute in ("<<<M1217>>>" ++ check (runes_of_ascii "MetaData o { }
")).
Eval vm_compute in ("<<<M2668>>>" ++ check (runes_of_ascii "options A { }")).
Eval vm_compute in ("<<<M1052>>>" ++ check (runes_of_ascii "options {}")).
Eval vm_compute in ("<<<M2806>>>" ++ check ([65533]%N ++ runes_of_ascii ">e" ++ [65533]%N ++ runes_of_ascii "ka(" ++ [65533]%N)).
Eval vm_compute in ("<<<M2466>>>" ++ check (runes_of_ascii "Packet")).
Eval vm_compute in ("<<<M2519>>>" ++ check (runes_of_ascii "`a
b`")).
Eval vm_compute in ("<<<M2443>>>" ++ check (runes_of_ascii "i8i8")).
Eval vm_compute in ("<<<M2497>>>" ++ check (runes_of_ascii "///")).
Eval vm_compute in ("<<<M2495>>>" ++ check (runes_of_ascii "//")).
Eval vm_compute in ("<<<M2680>>>" ++ check (runes_of_ascii "")).
