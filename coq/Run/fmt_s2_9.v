From FP Require Import Lexer Parser ShowPT Digest Formatter.
From Coq Require Import String List NArith.
Import ListNotations.
Open Scope string_scope.
Set Printing Width 100000000.
Set Printing Depth 100000000.
Definition show_fres (r : fres) : string :=
  match r with
  | FOk s => "OK:" ++ sh_escaped s ""
  | FErr s => "ERR:" ++ sh_escaped s ""
  | FPanic p => "PANIC:" ++ p
  end.
Definition check (rs : list rune) : string := digest (show_fres (format_res rs)).
Definition full (rs : list rune) : string := show_fres (format_res rs).
Eval vm_compute in ("<<<M3582>>>" ++ check (runes_of_ascii "  options {LittleEndian=
true
;
	ArrayPrefixLenType

    =
u8 
; FixedStringPadChar =	'0'

;  JavaPackage =
    ""com.example.msg""
;GoPackage =

    ""msg""
;GoModule
    =
	""example.com/msg""  ;	}
    MetaData

    Meta {	u32

    SeqNum

    `sequence number`,	char[

8 ]Symbol  `symbol`,
zchar[ 
5
	]
ZSym`z symbol` ,
	string Note ,Symbol
AltSymbol`alias of symbol`
	,f64 
Price
, 
}packet

    Inner
{ 
u8

    a ,
    i16	b
,string	c	,
	} packet
	Inner2 
{u8
    a2
	,

    char[

    3
] c2
, }
packet

    Logon
{
    u8 x 
,

    string
user,  repeat
u16 
codes, } packet Logout
{ u16
reason

    , }	packet
    Empty
{
    } root packet

    Msg

    {	u8  su8 
,uint8 
luint8
    ,

u16
    su16,uint16

    luint16
,  u32
    su32

,	uint32 
luint32
,  u64 su64 ,
uint64 luint64
, i8
si8
	, int8 lint8
	,

    i16 
si16 ,
int16
	lint16
	,
    i32
    si32

    ,int32 
lint32
    ,

i64
si64, int64
lint64 
,
f32 sf32
	,float32
lfloat32
    ,f64
sf64 ,	float64
lfloat64 
, char[6	] fsplain

    ,
	@leftPad(	'0'
    )
	char[

4] fs0
,

@rightPad (  '0' )  char[	5] fs1, @leftPad ( ' '
) char[ 6
	]
fs2
,
    @rightPad(

    ' ')  char[	7	]fs3	, @leftPad 
( '\x00' ) char[
8

]
	fs4
, @rightPad 
(

'\x00')

    char[9	] fs5
, @leftPad ( 
)

    char[
    10
	] fs6,@rightPad ( )
char[

11

    ]fs7 ,

zchar[
7 ] fz ,
    @leftPad 
(
	'0') zchar[

    3 ]  fzl0,	string  s1`doc`
	,
char[] s2 
,

Inner , Sub
	{

    u8 
q
,
string
    w
, 
Deep 
{ u16

z
,
	repeat 
i32

    zs
    ,	}
, }
, repeat
	u8 ru8,
repeat 
u16
ru16 ,	repeat

    u32 ru32
, repeat
u64	ru64
    ,
    repeat
	i8
ri8 , 
repeat  i16
	ri16	, repeat

    i32
	ri32
, 
repeat
i64
ri64 ,repeat
    f32
rf32
,

    repeat

    f64 rf64

    ,
	repeat
string rstr,
repeat  char[]
    rstr2, repeat	char[  3 
]
rfs	,  repeat

zchar[ 3] 
rfz

, repeat	Inner2

    ,
    repeat
	Grp
{	u8

k,
char[
    2
    ] 
v,

}
	, SeqNum,

    SeqNum seq2,
repeat SeqNum

    seqs	,
Symbol  ,
AltSymbol
    alt
,ZSym
	, 
Note

    ,
repeat
Symbol
syms
,Price px 
,
    u16	MsgType 
,
u32
	BodyLen @lengthOf(
    Body

)  ,
	match
	MsgType 
as
    Body
	{	1
    :Logon 
,[
    2,3

] :

    Logout
    ,
7  :

Logon, 
9
	:
Empty
    ,} 
, u32
Checksum @calculatedFrom(
    ""CRC32"" ) , 
}
")).
Eval vm_compute in ("<<<M3721>>>" ++ check (runes_of_ascii "options {
}

root packet msg_type {
    match u8x as zchar {
        [0, 00] : metadata,
        10 : Z9_,
        ""a\""b"" : chars,
        0 : uint8x,
        // " ++ [27880; 37322]%N ++ runes_of_ascii "
        007 : chars,
    },
    A @lengthOf(Pad),
    @leftPad(' ')
    @leftPad(' ')
    @tag(00)
    int8 Pad @calculatedFrom(""x y""),
}

root packet msg_type {
    i64 uint8x,
    @leftPad('\x00')
    Z9_ @calculatedFrom(""""),
    Pad `two words`,
}

packet f32a {
    zchar[4294967296] u,
    @leftPad('0')
    repeat uint64 zchar `crlf
        line`,
    // 50% %s
    int16 msg_type `100% of %d`,
    @lengthOf(crc)
    calculatedFrom {
        // packet A { u8 x, }
        // " ++ [27880; 37322]%N ++ runes_of_ascii "
        Header {
            matchKey @lengthOf(falsey),
            match int as BodyLength {
                // 50% %s
                7 : packetx,
                """ ++ [28040; 24687]%N ++ runes_of_ascii """ : msg_type,
            },
            x @calculatedFrom(""a\""b""),
            match body as len {
                ""`tick`"" : body,
                """ ++ [128512]%N ++ runes_of_ascii """ : roots,
                // trailing space 
                //
                4294967296 : packetx,
                /// triple
                // @lengthOf(
                ""a\""b"" : matchKey,
            },
        },
    },
    repeat i8i8 body,
    repeat As crc,
    match uint8x as tag {
        [""a\\"", 7, ""x y""] : float,
        ""a	b"" : A,
        ""CRC32"" : rootA,
        [
            ""a\""b"", ""CRC32"", 3, ""it's"", 42,
            65535, """"
        ] : options1,
        [1] : Packet,
    },
    match string_ as u8x {
        0123456789 : zchar,
        //x
    },
    zchar @calculatedFrom("""") `line1
        line2`,
    repeat T {
        metadata @calculatedFrom(""x y""),
        match a1 as metadata {
            4294967296 : options1,
            ""x y"" : i8i8,
        },
        repeat leftPad {
            char[42] float,// a // b
        },
    },
}

options {
    i64_ = true
}")).
Eval vm_compute in ("<<<M414>>>" ++ check (runes_of_ascii "root packet Foo { @leftPad (' ' )match BodyLength as
Foo{
// " ++ [128512]%N ++ runes_of_ascii " emoji
//x
255 : uint8x
    // a // b
    ,[""" ++ [28040; 24687]%N ++ runes_of_ascii """ , 42 ,
    ""a\""b"" ]:
pack
    ""\" ++ [233]%N ++ runes_of_ascii """:/// triple
calculatedFrom , // 50% %s
} , @leftPad ( ' '
    )
repeat string chars `crlf
line`
    , repeat zchar[007]
    o`tab	here`
    //
    ,	@leftPad ( ' '
    ) @lengthOf(
    packetx ) match	T as  u{  ""`tick`"" : trueish
, [""abc""
    // trailing space 
    ]:
Header
    ,[  ""\" ++ [233]%N ++ runes_of_ascii """ , 3 , ""1"", """" ] : lengthOf ,
    ""\n""	:
    // " ++ [128512]%N ++ runes_of_ascii " emoji
    charz ""packet""	:pack
// trailing space 
// packet A { u8 x, }
,	""a\""b"": zchar
    }
    , } packet float { @calculatedFrom( ""\n"" ) match chars as	stringy
{ [
""`tick`"",	""" ++ [128512]%N ++ runes_of_ascii """ , ""\n"" , ""\" ++ [233]%N ++ runes_of_ascii """ ,
""{,}""]
    : zchar""1"" : a1 [
65535] :
A
// @lengthOf(
// @lengthOf(
, } , match
    // `tick` ""quote"" 'q'
    leftPad as string_{
""abc"" : options1 10 : string_ // " ++ [27880; 37322]%N ++ runes_of_ascii "
,0
:
calculatedFrom
// `tick` ""quote"" 'q'
// " ++ [27880; 37322]%N ++ runes_of_ascii "
, 255
// a // b
// " ++ [128512]%N ++ runes_of_ascii " emoji
:	lengthOf , 3  :// a // b
falsey""\n"" : matchKey ,
    } ,@tag( 42 ) uint8x
,repeat zchar { match Foo
    as
    // " ++ [128512]%N ++ runes_of_ascii " emoji
    Z9_
{ 007:  rootA
, } ,
    zchar[ 42 ] u  ,
// " ++ [27880; 37322]%N ++ runes_of_ascii "
//x
} ,repeat u8x{
    char[ 42 ] lengthOf , },float32 i64_,
    int8 trueish	@calculatedFrom(
""CRC32"") ,
@calculatedFrom(
""a	b""  )
@calculatedFrom(""" ++ [28040; 24687]%N ++ runes_of_ascii """ )@leftPad ( ' '  ) charz len`{ , }`,	@tag( 65535 )
repeat zchar[1 ]	roots `it's`
, @tag( 42 ) zchar[ 7] // " ++ [27880; 37322]%N ++ runes_of_ascii "
i8i8
    , }MetaData Packet { // a // b
u32
    Pad ,
} packet o
    {
} MetaData uint8x {
zchar[
4294967296 ]Z9_ `u8 x,` ,
    char[]
    Packet	, o Packet ,asx float , f32a asx
    ,string  x_y_z ,} 	 ")).
Eval vm_compute in ("<<<M178>>>" ++ check (runes_of_ascii "//
packet Pad{
    BodyLength  `line1
line2` ,// a // b
Pad @lengthOf( u8x ) `100% of %d` , @lengthOf(  roots)char[]
Header@calculatedFrom( ""`tick`""
)
    ,match
repeatCount as x {
42 : float	,
//x
//
007
    // trailing space 
    : u , }, // 50% %s
@calculatedFrom( ""a	b""  ) string_ { matchKey string_ , } ,
    repeat char[]  repeatCount ,@tag(
    0 )
@rightPad (
'0'
    ) match leftPad as lengthOf { 007 :
roots
, 42 : o
[ 00
    , 65535 // " ++ [27880; 37322]%N ++ runes_of_ascii "
, 0123456789 // @lengthOf(
,
255 , 65535// 50% %s
,
    ""a\\"" ,
//	t
/// triple
65535
] : msg_type  , }, char[ 10]f32a @calculatedFrom(
    ""CRC32"" ) `doc` ,
@tag(//	t
3
    ) repeat string  roots
,// 50% %s
rootA { match zchar as zchar { [ 7 ,3 ]	: asx
    ,  ""abc"":Pad ,
4294967296 : charz ,//x
} , u64 //	t
A `" ++ [28040; 24687; 31867; 22411]%N ++ runes_of_ascii "` , f32
    msg_type
@lengthOf( o )
, } , } root packet options1 {
    } options {	repeatCount// @lengthOf(
= true ; } MetaData u
{
    // a // b
    Logon
x, Z9_ x
    `u8 x,` , zchar[
10 ]
    Packet
    `it's` ,	i8
a1
    `two words` , }root
    packet string_
    //
    {  repeat As { stringy `100% of %d` ,uint8x { packetx @calculatedFrom(""\n"" ) `doc` , match string_ as crc{ // trailing space 
4294967296 : Pad [ """"
//x
// a // b
,
007
    , 007 // " ++ [27880; 37322]%N ++ runes_of_ascii "
,
""x y"" ,	0123456789 ]
:
calculatedFrom
    3:
    Logon }
// " ++ [27880; 37322]%N ++ runes_of_ascii "
// " ++ [27880; 37322]%N ++ runes_of_ascii "
,
} ,} , char[
0 ] // c
Packet `two words`
, }
")).
Eval vm_compute in ("<<<M1408>>>" ++ check (runes_of_ascii "options {
    StringPrefixLenType = u16;
    ArrayPrefixLenType = u16;
}

packet SampleBinary {
    uint16 MsgType `" ++ [28040; 24687; 31867; 22411]%N ++ runes_of_ascii "`,
    u16 BodyLenght @lengthOf(Body) `" ++ [28040; 24687; 20307; 38271; 24230]%N ++ runes_of_ascii "`,
    match MsgType as Body {
        1 : Logon,
        2 : Logout,
        3 : Heartbeat,
        4 : RiskControlRequest,
        5 : RiskControlResponse,
    },
    @calculatedFrom(""CRC32"")
    u32 Ckecksum `" ++ [26657; 39564; 21644]%N ++ runes_of_ascii "`,
}

packet Logon {
    @leftPad('0')
    char[10] UserName `" ++ [29992; 25143; 21517]%N ++ runes_of_ascii "`,
    string Password `" ++ [23494; 30721]%N ++ runes_of_ascii "`,
    uint64 ClientId `" ++ [23458; 25143; 31471]%N ++ runes_of_ascii "ID`,
    u16 HeartbeatInterval `" ++ [24515; 36339; 38388; 38548]%N ++ runes_of_ascii "`,
}

packet Logout {
    @rightPad('0')
    char[10] UserName `" ++ [29992; 25143; 21517]%N ++ runes_of_ascii "`,
    uint64 ClientId `" ++ [23458; 25143; 31471]%N ++ runes_of_ascii "ID`,
}

packet Heartbeat {
}

packet RiskControlRequest {
    string UniqueOrderId `" ++ [21807; 19968; 35746; 21333; 21495]%N ++ runes_of_ascii "`,
    char[16] ClOrdID `" ++ [23458; 25143; 35746; 21333; 21495]%N ++ runes_of_ascii "`,
    char[3] MarketID `" ++ [24066; 22330]%N ++ runes_of_ascii "id`,
    char[12] SecurityID `" ++ [35777; 21048; 20195; 30721]%N ++ runes_of_ascii "`,
    char Side `" ++ [20080; 21334; 26041; 21521]%N ++ runes_of_ascii "`,
    char OrderType `" ++ [35746; 21333; 31867; 22411]%N ++ runes_of_ascii "`,
    u64 Price `" ++ [20215; 26684]%N ++ runes_of_ascii "`,
    u32 Qty `" ++ [25968; 37327]%N ++ runes_of_ascii "`,
    repeat string ExtraInfo `" ++ [38468; 21152; 20449; 24687]%N ++ runes_of_ascii "`,
    repeat SubOrder {
        char[16] ClOrdID `" ++ [23376; 35746; 21333; 21495]%N ++ runes_of_ascii "`,
        u64 Price `" ++ [23376; 35746; 21333; 20215; 26684]%N ++ runes_of_ascii "`,
        u32 Qty `" ++ [23376; 35746; 21333; 25968; 37327]%N ++ runes_of_ascii "`,
    },
}

packet RiskControlResponse {
    string UniqueOrderId `" ++ [21807; 19968; 35746; 21333; 21495]%N ++ runes_of_ascii "`,
    i32 Status `" ++ [29366; 24577]%N ++ runes_of_ascii "`,
    string Msg `" ++ [32467; 26524; 20449; 24687]%N ++ runes_of_ascii "`,
    repeat Detail,
}

packet Detail {
    string RuleName `" ++ [35268; 21017; 21517; 31216]%N ++ runes_of_ascii "`,
    u16 Code `" ++ [21407; 22240; 20195; 30721]%N ++ runes_of_ascii "`,
}")).
Eval vm_compute in ("<<<M1127>>>" ++ check (runes_of_ascii "packet
len
{ repeat leftPad
    `line1
line2` // trailing space 
,	@leftPad (
'0' )
match f32a
//
// `tick` ""quote"" 'q'
as leftPad {[ 42 ,10 ,""// no comment"" , """ ++ [128512]%N ++ runes_of_ascii """  ] // a // b
: // a // b
leftPad , // packet A { u8 x, }
""{,}"" : A ,
[ 007
, 65535,7 , 1
, 3
    ,	""\n""
    ,	""\" ++ [233]%N ++ runes_of_ascii """ // 50% %s
,""" ++ [233]%N ++ runes_of_ascii "t" ++ [233]%N ++ runes_of_ascii """
    // `tick` ""quote"" 'q'
    ] :matchKey , 0:	trueish
    ,
[
    """ ++ [28040; 24687]%N ++ runes_of_ascii """,
    42 ,0123456789 , """"
/// triple
// @lengthOf(
,42	,
4294967296] :
chars , } ,	@calculatedFrom(
""x y"" ) @tag( 4294967296) @tag( // a // b
1 )zchar[ 255
// " ++ [128512]%N ++ runes_of_ascii " emoji
// " ++ [128512]%N ++ runes_of_ascii " emoji
]
chars
,
// @lengthOf(
// `tick` ""quote"" 'q'
uint16 roots @lengthOf(
    charz)
    `say ""hi""` ,
    repeat zchar
    Logon , match u as chars { 42:
u 007 :	T, 007 : metadata, """"
:i64_
// 50% %s
// " ++ [27880; 37322]%N ++ runes_of_ascii "
,
} ,
zchar[3 ]
// @lengthOf(
// " ++ [128512]%N ++ runes_of_ascii " emoji
o @lengthOf(  x_y_z ) `tab	here` ,@lengthOf( A )  a1 `line1
line2` , match MetaDataX
    as MetaDataX{ 4294967296 :
// `tick` ""quote"" 'q'
// trailing space 
_x,
"""" : tag , [ ""it's"" ,  ""// no comment"" ]	: zchar ,
} ,
repeat leftPad , } MetaData Z9_ {u64
    matchKey ,i32 As `doc` ,
    char[0123456789]
    //
    charz `" ++ [233]%N ++ runes_of_ascii "`
,f32 zchar	`a\` ,
    //	t
    } 	 ")).
Eval vm_compute in ("<<<M813>>>" ++ check (runes_of_ascii "root
// c
// " ++ [27880; 37322]%N ++ runes_of_ascii "
packet f32a
    { }
    root packet matchKey {
    char[
1 // " ++ [27880; 37322]%N ++ runes_of_ascii "
] metadata  ,char[] u128
@lengthOf(
msg_type ) `doc`, @lengthOf( uint8x) match zchar
    as
    options1 {
0123456789 : x 007 : repeatCount[ ""packet""  ,
0123456789 ,""// no comment"" , ""x y"" ]/// triple
: Header ,
3
    :MetaDataX
    ""// no comment""
:len
, [0 ] :
Header, } ,repeat f32a	{ // " ++ [27880; 37322]%N ++ runes_of_ascii "
repeat
    Header //
,
    // 50% %s
    calculatedFrom
{ a1 { leftPad
`a\` /// triple
, zchar[255 ]
f32a // @lengthOf(
@calculatedFrom( ""\n"") `100% of %d` ,Foo// @lengthOf(
@lengthOf(
o ) `two words`, } , }
,} , char[ 00]// @lengthOf(
f32a
@calculatedFrom(
//
// @lengthOf(
""" ++ [128512]%N ++ runes_of_ascii """	)`u8 x,` ,  match tag
as matchKey
    //x
    {[
3
    ,""\n""
, 255
// @lengthOf(
// " ++ [128512]%N ++ runes_of_ascii " emoji
,
007	, ""CRC32"", ""`tick`""	]
:
    o  }  ,  repeat f64 rootA
    // 50% %s
    ,}
options // `tick` ""quote"" 'q'
{ }
MetaData trueish {string
    int  , // " ++ [27880; 37322]%N ++ runes_of_ascii "
char[
65535 ] trueish,
char[] body
    `u8 x,` , pack//x
matchKey // 50% %s
`a\` , f32	Header , string_
Foo, }options //
{ roots = int32 ;	Pad=zchar[255 ] // " ++ [128512]%N ++ runes_of_ascii " emoji
}
")).
Eval vm_compute in ("<<<M403>>>" ++ check (runes_of_ascii "root packet	_x
// trailing space 
// " ++ [128512]%N ++ runes_of_ascii " emoji
{
match Packet as
    // a // b
    msg_type {
    """" :
    trueish
/// triple
// a // b
""" ++ [28040; 24687]%N ++ runes_of_ascii """
:
uint8x , ""a\\"" : T
, 00	:
_x ,""`tick`"" : Logon	}
, // " ++ [128512]%N ++ runes_of_ascii " emoji
@lengthOf( //	t
Logon ) @calculatedFrom( ""a\""b"" ) @leftPad
( ' ') int8 leftPad
    , // @lengthOf(
repeat
    i32 i8i8
,
@lengthOf( metadata )
// a // b
// a // b
string trueish// packet A { u8 x, }
@calculatedFrom( ""CRC32"" ) `" ++ [233]%N ++ runes_of_ascii "`	,
    @calculatedFrom( ""packet"" )@calculatedFrom( ""abc"" ) char[
3
]
uint8x
`
`
    ,
match
_x
    // packet A { u8 x, }
    as
BodyLength{ 7 :
// c
// @lengthOf(
repeatCount// c
,
""\" ++ [233]%N ++ runes_of_ascii """ : lengthOf,4294967296 //	t
:
    // @lengthOf(
    MetaDataX , [
""" ++ [128512]%N ++ runes_of_ascii """ ,00 ]	:  o
//x
// packet A { u8 x, }
,
    ""CRC32""
//x
// `tick` ""quote"" 'q'
: matchKey  , 7
    // 50% %s
    : lengthOf ,} , int8 leftPad@calculatedFrom( """ ++ [233]%N ++ runes_of_ascii "t" ++ [233]%N ++ runes_of_ascii """ )  , }packet x_y_z { @lengthOf(
_x) MetaDataX {char[ 00	] x @calculatedFrom( // trailing space 
""" ++ [128512]%N ++ runes_of_ascii """
), match u128 as i8i8{
[	"""" ] :uint8x, } ,// 50% %s
} ,}")).
Eval vm_compute in ("<<<M4546>>>" ++ check (runes_of_ascii "packet options1 {
    body {
        i8 i8i8,
        falsey @calculatedFrom(""" ++ [28040; 24687]%N ++ runes_of_ascii """),
        a1 @calculatedFrom(""a	b"") `tab	here`,
    },
    u8 u8x `u8 x,`,
    @leftPad(' ')
    @lengthOf(a1)
    @tag(42)
    // 50% %s
    uint8x @calculatedFrom(""{,}""),
    @tag(65535)
    @tag(42)
    repeat uint64 i64_ `{ , }`,
    @leftPad('\x00')
    uint16 stringy,
    zchar,
    repeat i64_ leftPad,
    charz i64_,
    len @calculatedFrom(""packet""),/// triple
}// @lengthOf(

packet calculatedFrom {
    repeat packetx {
        repeat string options1,
        // `tick` ""quote"" 'q'
    },// 50% %s
    int64 msg_type,
    @tag(3)
    leftPad float,
    match body as Pad {
        255 : calculatedFrom,
        [
            ""it's"", """", ""CRC32"", 4294967296, 10,
            """ ++ [233]%N ++ runes_of_ascii "t" ++ [233]%N ++ runes_of_ascii """, 0123456789
        ] : trueish,
        10 : Z9_,
        [""a\\""] : roots,
        0123456789 : rootA,
    },
}

options {
    options1 = 0123456789
}

options {
    // " ++ [128512]%N ++ runes_of_ascii " emoji
}")).
Eval vm_compute in ("<<<M290>>>" ++ check (runes_of_ascii "root packet
    lengthOf{
    char[]A @lengthOf( tag )
    ,
@tag(
    7
) char[ 4294967296
]a1 `` //
, @leftPad ( ' '
) repeat char[	10 ]
    // trailing space 
    f32a ,
    uint16 As
    ,
// " ++ [27880; 37322]%N ++ runes_of_ascii "
// packet A { u8 x, }
} root/// triple
packet
charz { @calculatedFrom(
    ""// no comment""// trailing space 
) @leftPad( ) @tag(10 )	repeat float u8x `" ++ [233]%N ++ runes_of_ascii "`
,@lengthOf( rootA)  repeat zchar[10 ] Z9_
    , int32 leftPad@calculatedFrom(""a\\"" ) ,repeat // " ++ [27880; 37322]%N ++ runes_of_ascii "
zchar[	7 ] roots
, @calculatedFrom( ""a\\"" )@lengthOf(string_ )@calculatedFrom(
""{,}"" //x
)
uint8x // @lengthOf(
`// not a comment` ,
    @tag(3 // `tick` ""quote"" 'q'
)body tag
`" ++ [28040; 24687; 31867; 22411]%N ++ runes_of_ascii "` , @tag(00 )match Pad as
tag {// " ++ [128512]%N ++ runes_of_ascii " emoji
""a	b""
: int 4294967296 : u
    , [""// no comment"" , // trailing space 
""1""]: body } , @tag( 1
) @lengthOf(calculatedFrom )
@calculatedFrom(""a\""b"" ) lengthOf	@lengthOf(	chars ) , }root
packet f32a { } root packet Z9_
{ }")).
Eval vm_compute in ("<<<M4501>>>" ++ check (runes_of_ascii "

  packet
u 	 /// triple
		{A,  u	repeatCount
    `tab	here`  , @lengthOf(	//
	msg_type

) crc@lengthOf(  // @lengthOf(
	len  
  // c
  )

    , char[] 
matchKey,  @calculatedFrom(
""" ++ [28040; 24687]%N ++ runes_of_ascii """

    ) repeat	Z9_	,
	zchar[
    65535

]

    charz

,  i16 pack	@lengthOf(
charz )
,  chars	@calculatedFrom(	""\n"" 	 //x
    )  , @rightPad ( '0' )	int16

    calculatedFrom

`crlf
line`

,@tag(
7  )
    int64
chars `doc`// a // b
    	,  } 
packet chars
	{ char[
42	] asx @calculatedFrom(  ""packet"" ) , match // trailing space 
  roots as crc
    {	//

	0 :u
    ,// c

00
	:
    f32a
,

    [
65535
,

""abc"" ]

    :

// `tick` ""quote"" 'q'
    // packet A { u8 x, }
falsey
    , // " ++ [27880; 37322]%N ++ runes_of_ascii "

	""{,}"" 
	    //	t
	/// triple

	:
tag ,	} , calculatedFrom
    i8i8
`two words`	, 
	    // packet A { u8 x, }
	}  options{ _x 
= char[] 
        /// triple
  ;}
")).
Eval vm_compute in ("<<<M654>>>" ++ check (runes_of_ascii "MetaData leftPad {
    f32a
BodyLength, i8 stringy`two words`,zchar[ // trailing space 
42] calculatedFrom // a // b
,
string
chars
,}
    options	{u =3	}
packet
    lengthOf
{	repeat
u `
`	,
    i64_
    `" ++ [28040; 24687; 31867; 22411]%N ++ runes_of_ascii "`
    ,@rightPad (
) As
float , zchar[
    // c
    7
    ] options1
    @calculatedFrom(
    ""a	b""
// trailing space 
// " ++ [128512]%N ++ runes_of_ascii " emoji
) , char[] _x@calculatedFrom( """ ++ [128512]%N ++ runes_of_ascii """) , @rightPad ( ' ' ) Header `it's` , i8 tag @calculatedFrom( """ ++ [233]%N ++ runes_of_ascii "t" ++ [233]%N ++ runes_of_ascii """	) `` , metadata @calculatedFrom(  ""// no comment"" )  , } packet
    Foo { @calculatedFrom( ""\n""
    )@rightPad ( ) match T
as
Pad
    { """ ++ [28040; 24687]%N ++ runes_of_ascii """:
Header
,
    } ,	u {chars @calculatedFrom(
""\" ++ [233]%N ++ runes_of_ascii """ ) ,
} , @calculatedFrom( ""a\""b""
) @calculatedFrom(
    """ ++ [128512]%N ++ runes_of_ascii """ ) // packet A { u8 x, }
@lengthOf( BodyLength) uint8x@calculatedFrom( ""`tick`"")	, i32
// packet A { u8 x, }
// 50% %s
u
,	}
")).
Eval vm_compute in ("<<<M100>>>" ++ check (runes_of_ascii "root packet
trueish {o@calculatedFrom(
    // c
    ""abc""	)
// c
/// triple
,
    // packet A { u8 x, }
    }  packet
matchKey
    /// triple
    {repeat metadata `u8 x,`
,// a // b
@leftPad
    //
    (
'0' )
Foo	{ match A
    as x_y_z
{ [
""\n"" , //	t
""" ++ [128512]%N ++ runes_of_ascii """
    , 1
, 42
, """ ++ [233]%N ++ runes_of_ascii "t" ++ [233]%N ++ runes_of_ascii """ //	t
]: A ,} ,
} ,	@tag(
    // `tick` ""quote"" 'q'
    3) BodyLength	, char Z9_ , @leftPad ( '0'
    ) repeat a1 , @calculatedFrom( // " ++ [27880; 37322]%N ++ runes_of_ascii "
""CRC32""	)repeat
    u16 T	, @calculatedFrom( ""it's"" )repeat zchar[ 65535 ]asx , A @lengthOf(
len )
    , } MetaData
    Foo { } MetaData f32a { Logon u128 `line1
line2` , float o
, metadata
trueish
,
    //
    char options1`" ++ [28040; 24687; 31867; 22411]%N ++ runes_of_ascii "`
    /// triple
    , } options {
/// triple
// `tick` ""quote"" 'q'
T = 1 ; len
    = '\x00'
; Packet
=
    ""it's"" lengthOf =
    i8 }")).
Eval vm_compute in ("<<<M647>>>" ++ check (runes_of_ascii "packet
    msg_type {  @rightPad
( '\x00')	calculatedFrom
chars,
} packet
// " ++ [128512]%N ++ runes_of_ascii " emoji
// " ++ [27880; 37322]%N ++ runes_of_ascii "
string_ { }
MetaData o{ zchar[ 65535
] a1
, } root
packet Foo {	f32a{ // " ++ [128512]%N ++ runes_of_ascii " emoji
match len
as
Packet { [ 3
    ] : body ,
7: o  [ 00 ,
    0 ,""x y"" // trailing space 
,
    // trailing space 
    42 ]: u , """ ++ [28040; 24687]%N ++ runes_of_ascii """
: Pad , }, i64
A, string u8x, match stringy as As {65535 : i8i8 // " ++ [27880; 37322]%N ++ runes_of_ascii "
, //x
""CRC32"":u8x [ ""a\""b""
    ,// @lengthOf(
7 , ""\n""
    , ""{,}"" , 0
,
// `tick` ""quote"" 'q'
// a // b
42, ""a\""b"" ]
: MetaDataX // trailing space 
,[ ""abc""] :
    falsey
, // @lengthOf(
[ ""`tick`"" ]
: calculatedFrom //
, }
,
    } //x
, } // " ++ [128512]%N ++ runes_of_ascii " emoji
options
{body = ""CRC32""
    ; body =
""a\""b""	u128
= true ;
    BodyLength  = // " ++ [128512]%N ++ runes_of_ascii " emoji
10;
leftPad=
false ;}

")).
Eval vm_compute in ("<<<M26>>>" ++ check (runes_of_ascii "packet u128
    {zchar[7 ] Logon `` , @leftPad (
'\x00' ) repeat Logon `
` ,
    Pad  MetaDataX
    ,  @rightPad
    // a // b
    ( ) char	pack ,@lengthOf( matchKey ) repeat roots { char[
//
// c
00 ]
Logon `// not a comment`
// a // b
// @lengthOf(
,	}	,
    // 50% %s
    @calculatedFrom(
""1"" ) repeat x_y_z { tag MetaDataX
//x
// 50% %s
`two words` ,msg_type@calculatedFrom( """ ++ [233]%N ++ runes_of_ascii "t" ++ [233]%N ++ runes_of_ascii """
    ) `" ++ [28040; 24687; 31867; 22411]%N ++ runes_of_ascii "` ,int64 zchar @calculatedFrom(
    ""a\\""
) ,
BodyLength @lengthOf( tag )
, } ,
    uint64 a1,}
packet x { repeat zchar[ 10 ]falsey  `u8 x,` , }// " ++ [27880; 37322]%N ++ runes_of_ascii "
options {
    //	t
    int
=
    ""\n"" float = ""\n""  float
// `tick` ""quote"" 'q'
//x
= ""`tick`"";
}root
packet
    tag {
    //x
    x_y_z
    `crlf
line` , }
")).
Eval vm_compute in ("<<<M4234>>>" ++ check (runes_of_ascii "packet matchKey {
    @calculatedFrom(""it's"")
    u128 {
        repeat msg_type {
            pack u `// not a comment`,
            charz @calculatedFrom(""""),
            match int as float {
                ""abc"" : As,
                4294967296 : stringy,
                255 : rootA,
            },
            repeat falsey {
                falsey charz `crlf
                                line`,
                repeat uint64 x_y_z `it's`,
                i8i8 `" ++ [28040; 24687; 31867; 22411]%N ++ runes_of_ascii "`,
                uint64 As @lengthOf(trueish) `crlf
                                line`,
            },
        },
    },
    packetx As,
    // " ++ [128512]%N ++ runes_of_ascii " emoji
    @lengthOf(charz)
    uint8x u ``,
}")).
Eval vm_compute in ("<<<M664>>>" ++ check (runes_of_ascii "MetaData As
    {
    }
    root packet matchKey	{// " ++ [128512]%N ++ runes_of_ascii " emoji
@calculatedFrom(
""CRC32""
)
    // @lengthOf(
    @tag(  4294967296 ) repeat char[
7
]MetaDataX
, @lengthOf( pack
    ) asx @lengthOf( // 50% %s
zchar
    // " ++ [27880; 37322]%N ++ runes_of_ascii "
    )
    , @calculatedFrom(
""" ++ [233]%N ++ runes_of_ascii "t" ++ [233]%N ++ runes_of_ascii """ ) zchar[	0123456789 ] // `tick` ""quote"" 'q'
tag@lengthOf( i8i8
) `tab	here` , repeat
// 50% %s
// `tick` ""quote"" 'q'
u8x
,// 50% %s
uint32 crc `doc` , @leftPad
( '0' ) @calculatedFrom(
    ""1"") @tag(
0
    //
    )
Logon crc ,@lengthOf( zchar ) @rightPad (
    ) @leftPad	( '\x00'  ) repeat
    u8
    //	t
    options1`// not a comment`, // " ++ [128512]%N ++ runes_of_ascii " emoji
string repeatCount , }
    packet u128
{ }")).
Eval vm_compute in ("<<<M3891>>>" ++ check (runes_of_ascii "
packet
	rootA
    {repeat
matchKey  {	A
	calculatedFrom

`" ++ [233]%N ++ runes_of_ascii "` ,}//	t
	,f32 
int 
, @calculatedFrom(

    ""\" ++ [233]%N ++ runes_of_ascii """

    )match 	 // a // b
    options1 as 
    // " ++ [27880; 37322]%N ++ runes_of_ascii "
    // trailing space 
		i8i8{ ""// no comment"" : 
float ,
0123456789
	: 
    // trailing space 
	calculatedFrom , // packet A { u8 x, }

	4294967296 :
    calculatedFrom }, @calculatedFrom(

    ""a\\""

)
charz

    {

    repeat
	lengthOf , 
char[
42
] Header
	, 
} 
,

    } root 
    // packet A { u8 x, }
// trailing space 
    packet
// a // b
	//	t
packetx
	{char[ 	 //	t
	65535
    ]

zchar
@lengthOf( 
x_y_z
    )`two words` 
, }

")).
Eval vm_compute in ("<<<M89>>>" ++ check (runes_of_ascii "MetaData crc { }MetaData
u{	uint8x float , }
    // packet A { u8 x, }
    options {u128
=char[] }
    //	t
    packet string_ {match leftPad
    as stringy {
0
    // c
    :  i64_	,	4294967296 : Pad , ""abc""	: // `tick` ""quote"" 'q'
len , // 50% %s
""" ++ [233]%N ++ runes_of_ascii "t" ++ [233]%N ++ runes_of_ascii """: len ,3
    :falsey, [ 10 , 3 , 10,007 ] : options1
    // `tick` ""quote"" 'q'
    ,
    } ,// @lengthOf(
u8x{ match u// " ++ [27880; 37322]%N ++ runes_of_ascii "
as charz { [ 007 , ""a	b"",
    ""\" ++ [233]%N ++ runes_of_ascii """ , /// triple
""" ++ [233]%N ++ runes_of_ascii "t" ++ [233]%N ++ runes_of_ascii """
    // packet A { u8 x, }
    , ""a\""b""
/// triple
// a // b
, ""a	b""
]
    :
zchar
// trailing space 
//x
} ,	}
,@rightPad ('0'
)
A @lengthOf( metadata
),}")).
Eval vm_compute in ("<<<M4005>>>" ++ check (runes_of_ascii "packet f32a {
    @tag(4294967296)
    charz matchKey,
    @calculatedFrom(""packet"")
    repeatCount @lengthOf(len),
    uint32 stringy `
    `,
    Foo @lengthOf(string_),
    repeat char[007] Logon `// not a comment`,
    zchar[00] len @calculatedFrom(""1""),
    match len as falsey {
        ""{,}"" : o,
    },
    match body as Z9_ {
        7 : BodyLength,
        255 : _x,
        // a // b
    },
    @leftPad('\x00')
    match f32a as f32a {
        [10, 0123456789] : a1,
    },
    @calculatedFrom(""" ++ [28040; 24687]%N ++ runes_of_ascii """)
    @calculatedFrom(""abc"")
    int8 _x `say ""hi""`,
}")).
Eval vm_compute in ("<<<M3630>>>" ++ check (runes_of_ascii "  options  { }	packet	// `tick` ""quote"" 'q'

  x {
@lengthOf(BodyLength
	) charz _x
    `doc`
, 
	    //x
	// packet A { u8 x, }
	@calculatedFrom(
    ""abc"") o matchKey,@tag(  255

)
char 
	// 50% %s
  	// @lengthOf(
		repeatCount
	@lengthOf(	i64_ 

// a // b
  )
,
} root 
packet
len{@leftPad
	(

'\x00'

    )
    //x
	  // " ++ [27880; 37322]%N ++ runes_of_ascii "
	Z9_ @lengthOf(
asx

) ``

    ,  } packet
    metadata {  char[  00
]
	packetx
@lengthOf(

i8i8 
) ,

int32
	Packet @lengthOf(

x_y_z  )

    ,

    @tag(
1 )

    repeat uint8 len

    , }")).
Eval vm_compute in ("<<<M4253>>>" ++ check (runes_of_ascii "MetaData 
string_

    {

msg_type len ,
	u
	f32a , roots
pack ,	tag 
trueish

    `say ""hi""`
	,}packet

    trueish{ 
}
root packet _x { char[

007 ]Pad
,	@rightPad ( '0' 
)
u//
  repeatCount, @rightPad
    ( '0'
/// triple
// 50% %s
  )u16	metadata `100% of %d`,@lengthOf(packetx)
@rightPad (' ' ) 
@lengthOf( int

) string// " ++ [27880; 37322]%N ++ runes_of_ascii "
	repeatCount
	`
`

,  string

chars
    ,
float32 packetx

    ,

    repeat
u8
    msg_type
	,

    repeat
tag 	 //	t
    Logon
    `say ""hi""`

    ,

    }
packet	x
{
	}

")).
Eval vm_compute in ("<<<M235>>>" ++ check (runes_of_ascii "MetaData
    tag{
    float u8x`say ""hi""` ,f32
    uint8x, uint8 Z9_	, u8 int, chars f32a	, int16 body `it's` , }packet u128 {@tag( 007) char[7
    ]
_x// trailing space 
@lengthOf(	Logon
) , float32 u8x , @tag(
    10 )
packetx
Header, pack @lengthOf( x_y_z) `" ++ [233]%N ++ runes_of_ascii "` ,@tag(  42)@leftPad
    (	' '
) Z9_ `two words`
,	@lengthOf(
    f32a	)
    u32 f32a
    ,} options{ pack = 255 ; string_ = '0' ;u128 =
""abc"" float= ' '}packet u8x
{ repeat trueish{char[] Z9_ @calculatedFrom(""// no comment"" )  ,
}  , }
")).
Eval vm_compute in ("<<<M4261>>>" ++ check (runes_of_ascii "  options 
{
    StringPrefixLenType =  u8

; ArrayPrefixLenType=u16 ; 
FixedStringPadChar
=	'0'  ; 
}packet  Fill
	{char[  6
]
Acct

,	u64 venue
    ,

    }
root packet
    Logout {

    char[]
    Tail, repeat
    i8
f1	,  float64 msgKind ,zchar[	3 ]Note ,	uint64 
count

    , @leftPad
(
' '  )char[ 12

    ]	Px 
,

u32 
OrderId 
, u16
	tag7 @lengthOf(Body ), 
match  OrderId
as  Body  {

[ 
35
,

107
	]

: Fill , } , u32 Ref @calculatedFrom(""CRC32""
)
,
	}
")).
Eval vm_compute in ("<<<M3591>>>" ++ check (runes_of_ascii "  packet  f32a
{@lengthOf(
    Z9_	// c
  )
repeat
char[4294967296	]
A
    ,  i16 asx , 
@leftPad 
( 
'\x00'	)
char Header

    ,
zchar[
	4294967296 ]
	pack

    ,

match 
        // " ++ [27880; 37322]%N ++ runes_of_ascii "
  len	as tag{ 
[	""" ++ [233]%N ++ runes_of_ascii "t" ++ [233]%N ++ runes_of_ascii """ , 
1,
	""`tick`""
,  0123456789,

    00
        /// triple
  	/// triple
		,""a	b"" ,	""x y"" 	 //	t
  ,
    ""CRC32""

]	:  roots 
// 50% %s
	/// triple
,

}
	,  @tag(

    255

) u128  @lengthOf(
	trueish

)

    `100% of %d`

,}

")).
Eval vm_compute in ("<<<M3554>>>" ++ check (runes_of_ascii "

  options
{  LittleEndian=
false

    ;

    StringPrefixLenType =

u16 
;ArrayPrefixLenType

    =u32

    ;FixedStringPadFromLeft

=

true  ;  FixedStringPadChar
    = '0'

;}  packet Quote

    {repeat InSide284	{  repeat string
Acct, int64

    OrderId,}  , uint8
	Px

, int32
lastPx  , uint8 Flags  ,  } 
packet  Fill{ f32 clOrdID	,
uint32 msgKind  ,
	repeat Quote
, }
    root

packet	Trade  {
    string
	Acct, 
}
")).
Eval vm_compute in ("<<<M4181>>>" ++ check (runes_of_ascii "options {
    LittleEndian = false;
    StringPrefixLenType = u16;
    ArrayPrefixLenType = u32;
    FixedStringPadFromLeft = true;
    FixedStringPadChar = '0';
}

packet Quote {
    repeat InSide284 {
        repeat string Acct,
        int64 OrderId,
    },
    uint8 Px,
    int32 lastPx,
    uint8 Flags,
}

packet Fill {
    f32 clOrdID,
    uint32 msgKind,
    repeat Quote,
}

root packet Trade {
    string Acct,
}")).
Eval vm_compute in ("<<<M217>>>" ++ check (runes_of_ascii "root packet
// @lengthOf(
// `tick` ""quote"" 'q'
leftPad { @lengthOf(
i8i8 )  @rightPad (
    // trailing space 
    ) @calculatedFrom( ""a	b"" ) repeat
zchar[ 3 ]
    leftPad,}
    MetaData falsey{zchar // " ++ [27880; 37322]%N ++ runes_of_ascii "
Foo	,zchar[ 65535 ] // packet A { u8 x, }
pack
`line1
line2` ,  char Header `tab	here`
, f64
    chars,
    } packet
asx { repeat zchar[	3 ] msg_type
    `// not a comment` , repeat string i8i8 , }")).
Eval vm_compute in ("<<<M1107>>>" ++ check (runes_of_ascii "packet chars { @leftPad(
    //	t
    '0') repeat tag
a1
    `// not a comment`
,match i8i8
// 50% %s
//
as // packet A { u8 x, }
len { 007:zchar // " ++ [27880; 37322]%N ++ runes_of_ascii "
, [
007  ,""CRC32"" ]
    :
_x """ ++ [233]%N ++ runes_of_ascii "t" ++ [233]%N ++ runes_of_ascii """: A // " ++ [128512]%N ++ runes_of_ascii " emoji
,  } ,	@lengthOf(	options1)
    uint8 tag	,
    x @lengthOf(
i8i8 )`" ++ [233]%N ++ runes_of_ascii "`,charz  u8x ,
@lengthOf( Packet ) @leftPad (
' ' )
    uint16 Z9_
@calculatedFrom(
    """ ++ [233]%N ++ runes_of_ascii "t" ++ [233]%N ++ runes_of_ascii """
// a // b
//	t
) , }

")).
Eval vm_compute in ("<<<M259>>>" ++ check (runes_of_ascii "// " ++ [27880; 37322]%N ++ runes_of_ascii "
packet i64_ { @lengthOf( string_
/// triple
// @lengthOf(
)
zchar[255 ]  Z9_@lengthOf( Foo
    ) , @lengthOf(i8i8) @calculatedFrom(
    ""\" ++ [233]%N ++ runes_of_ascii """
    ) @calculatedFrom(
""a\\"" ) f64 pack@lengthOf( falsey) `a\` //
,
    uint32 Foo
    @lengthOf( i64_ )
    ,
zchar[ 4294967296 ]
    calculatedFrom // packet A { u8 x, }
,
repeat char[] stringy ,
    i32 x @lengthOf( T) , }
")).
Eval vm_compute in ("<<<M1288>>>" ++ check (runes_of_ascii "options{ crc
    = ' ' ;} packet  metadata  { @lengthOf( packetx
)uint64
    trueish, @tag(255
)
match lengthOf as
u8x { [
    ""x y"" ,	007
, ""it's"" ,
    ""it's""
    ,255 , /// triple
00
, 7 ,	4294967296 ]
: x_y_z , ""it's"" : lengthOf
, """ ++ [233]%N ++ runes_of_ascii "t" ++ [233]%N ++ runes_of_ascii """ : tag , 1: charz // packet A { u8 x, }
} , }
    options { _x =
'0' ;
    // c
    f32a = 255 ; a1
= ""// no comment""
}
")).
Eval vm_compute in ("<<<M384>>>" ++ check (runes_of_ascii "MetaData asx { // c
u8x
string_ ,zchar
//	t
//	t
repeatCount `doc` //x
, } root
packet chars { repeat char[ // @lengthOf(
1 ]
options1	, } packet asx {} packet BodyLength {	@lengthOf( metadata
    // c
    )
repeat u	`say ""hi""`
,
}	options {// `tick` ""quote"" 'q'
crc =
    true ; zchar =	""" ++ [233]%N ++ runes_of_ascii "t" ++ [233]%N ++ runes_of_ascii """ pack=  0	;u128
    = ""packet"" ; msg_type  = true	}")).
Eval vm_compute in ("<<<M197>>>" ++ check (runes_of_ascii "packet BodyLength {pack//	t
{ repeat uint8 u128 `it's`, repeat chars Foo `u8 x,`
,i32 x_y_z`
`
,}, @rightPad
// " ++ [128512]%N ++ runes_of_ascii " emoji
/// triple
(
    ) chars, }
    /// triple
    root packet f32a
{ @calculatedFrom(""1"" )match repeatCount as matchKey { 0123456789
:BodyLength 007 : metadata , ""a\""b""
    :stringy , },repeat f32a
    tag `a\` ,}
")).
Eval vm_compute in ("<<<M3504>>>" ++ check (runes_of_ascii "

  packet

    A  { u8  a 
,	} 
packet
B { u16	b

    ,  }packet
C

{
u32	c 
,} root packet
	M { u16
Kc

    ,
	u16

    Kb  ,
	u16

    Ka
, 
match 
Kc
as

    X { 9
    :

A ,10	:

    B
	,
	}
	,match
    Kb as

    Y{
	2: C ,
1:  A  ,

    } 
,match	Ka as
    Z
{ 1
    :
    B, },
A
,B	,C ,}")).
Eval vm_compute in ("<<<M1222>>>" ++ check (runes_of_ascii "MetaData
Packet{ Packet i8i8 // @lengthOf(
, } packet repeatCount
    { repeat u64
chars // 50% %s
`" ++ [233]%N ++ runes_of_ascii "` // " ++ [27880; 37322]%N ++ runes_of_ascii "
, }
    options// c
{ Foo =
// " ++ [27880; 37322]%N ++ runes_of_ascii "
// trailing space 
65535 ;
lengthOf = ""\n"" i8i8 = ""abc"" ;crc = // @lengthOf(
zchar[
    0123456789]charz =' '
    ;
    // trailing space 
    } packet x_y_z {
}")).
Eval vm_compute in ("<<<M737>>>" ++ check (runes_of_ascii "MetaData Logon
    { u
    tag , i8 // trailing space 
float
,
    trueish chars
`" ++ [233]%N ++ runes_of_ascii "`,
    char[3] len `it's` , int16 f32a
    , f32 trueish `tab	here`
,}
    packet metadata { @calculatedFrom( """ ++ [28040; 24687]%N ++ runes_of_ascii """ ) @leftPad () u128 , }	packet
    //
    o { stringy _x ,calculatedFrom u128`100% of %d` , }
")).
Eval vm_compute in ("<<<M3502>>>" ++ check (runes_of_ascii "packet A {
    u8 a,
}
packet B {
    u16 b,
}
packet C {
    u32 c,
}
root packet M {
    u16 Kc, u16 Kb, u16 Ka,
    match Kc as X {
        9 : A,
        10 : B,
    },
    match Kb as Y {
        2 : C,
        1 : A,
    },
    match Ka as Z {
        1 : B,
    },
    A, B, C,
}
")).
Eval vm_compute in ("<<<M1907>>>" ++ check (runes_of_ascii "packet	packetx { // trailing space 
x_y_z
{
string
charz ,
string x// @lengthOf(
`two words`
    ,  u8x u8x { // `tick` ""quote"" 'q'
charz `100% of %d` // packet A { u8 x, }
,}// " ++ [27880; 37322]%N ++ runes_of_ascii "
,} , }
    // a // b
    packet metadata {  @leftPad ( '0') repeat i32 options1 ,u64 uint8x , }
")).
Eval vm_compute in ("<<<M1969>>>" ++ check (runes_of_ascii "packet	packetx { // trailing space 
x_y_z
{
string
charz ,
string x// @lengthOf(
`two words`
    ,  u8x { // `tick` ""quote"" 'q'
charz `100% of %d` // packet A { u8 x, }
,}// " ++ [27880; 37322]%N ++ runes_of_ascii "
,} , }
    // a // b
    packet metadata ' '  @leftPad ( '0') repeat i32 options1 ,u64 uint8x , }
")).
Eval vm_compute in ("<<<M1903>>>" ++ check (runes_of_ascii "packet	packetx { // trailing space 
x_y_z
{
string
charz ,
string x// @lengthOf(
`two words`
    u8x  , { // `tick` ""quote"" 'q'
charz `100% of %d` // packet A { u8 x, }
,}// " ++ [27880; 37322]%N ++ runes_of_ascii "
,} , }
    // a // b
    packet metadata {  @leftPad ( '0') repeat i32 options1 ,u64 uint8x , }
")).
Eval vm_compute in ("<<<M1856>>>" ++ check (runes_of_ascii "packet	packetx  // trailing space 
x_y_z
{
string
charz ,
string x// @lengthOf(
`two words`
    ,  u8x { // `tick` ""quote"" 'q'
charz `100% of %d` // packet A { u8 x, }
,}// " ++ [27880; 37322]%N ++ runes_of_ascii "
,} , }
    // a // b
    packet metadata {  @leftPad ( '0') repeat i32 options1 ,u64 uint8x , }
")).
Eval vm_compute in ("<<<M1981>>>" ++ check (runes_of_ascii "packet	packetx { // trailing space 
x_y_z
{
string
charz ,
string x// @lengthOf(
`two words`
    ,  u8x { // `tick` ""quote"" 'q'
charz `100% of %d` // packet A { u8 x, }
,}// " ++ [27880; 37322]%N ++ runes_of_ascii "
,} , }
    // a // b
    packet metadata {  @leftPad ( ) repeat i32 options1 ,u64 uint8x , }
")).
Eval vm_compute in ("<<<M2056>>>" ++ check (runes_of_ascii "packet// packet A { u8 x, }
repeatCount repeatCount	{// packet A { u8 x, }
@leftPad ( '\x00'
) repeat u8x MetaDataX `crlf
line`,
    repeat
    char[] MetaDataX
    ,
u64	uint8x@calculatedFrom(""a\""b""
// c
// packet A { u8 x, }
) `tab	here`
,//
}MetaData pack
    {
    }
")).
Eval vm_compute in ("<<<M2085>>>" ++ check (runes_of_ascii "packet// packet A { u8 x, }
repeatCount	{// packet A { u8 x, }
@leftPad ( '\x00'
) repeat repeat u8x MetaDataX `crlf
line`,
    repeat
    char[] MetaDataX
    ,
u64	uint8x@calculatedFrom(""a\""b""
// c
// packet A { u8 x, }
) `tab	here`
,//
}MetaData pack
    {
    }
")).
Eval vm_compute in ("<<<M4415>>>" ++ check (runes_of_ascii "root packet float {
    @calculatedFrom(""// no comment"")
    Pad uint8x `tab	here`,
    @leftPad()
    repeat pack {
        i8 packetx `doc`,
    },
    zchar[0123456789] metadata,
    @rightPad()
    @lengthOf(leftPad)
    repeat char[7] u8x `line1
    line2`,
}")).
Eval vm_compute in ("<<<M2010>>>" ++ check (runes_of_ascii "packet	packetx { // trailing space 
x_y_z
{
string
charz ,
string x// @lengthOf(
`two words`
    ,  u8x { // `tick` ""quote"" 'q'
charz `100% of %d` // packet A { u8 x, }
,}// " ++ [27880; 37322]%N ++ runes_of_ascii "
,} , }
    // a // b
    packet metadata {  @leftPad ( '0') repeat i32 options1")).
Eval vm_compute in ("<<<M2106>>>" ++ check (runes_of_ascii "packet// packet A { u8 x, }
repeatCount	{// packet A { u8 x, }
@leftPad ( '\x00'
) repeat u8x MetaDataX `crlf
line`repeat
    ,
    char[] MetaDataX
    ,
u64	uint8x@calculatedFrom(""a\""b""
// c
// packet A { u8 x, }
) `tab	here`
,//
}MetaData pack
    {
    }
")).
Eval vm_compute in ("<<<M3514>>>" ++ check (runes_of_ascii "packet P1 {
    u8 a,
}
packet P2 {
    P1,
}
packet P3 {
    P2,
    P1,
}
packet P4 {
    repeat P3,
    P2,
}
root packet P5 {
    P4,
    P3,
    P1,
    u8 K,
    match K as Body {
        4 : P4,
        3 : P3,
        2 : P2,
        1 : P1,
    },
}
")).
Eval vm_compute in ("<<<M2074>>>" ++ check (runes_of_ascii "packet// packet A { u8 x, }
repeatCount	{// packet A { u8 x, }
@leftPad ( 
) repeat u8x MetaDataX `crlf
line`,
    repeat
    char[] MetaDataX
    ,
u64	uint8x@calculatedFrom(""a\""b""
// c
// packet A { u8 x, }
) `tab	here`
,//
}MetaData pack
    {
    }
")).
Eval vm_compute in ("<<<M352>>>" ++ check (runes_of_ascii "root packet
    Pad { }
    packet
// a // b
//
As
    {Logon  { repeat
roots{ char[
007 ]
roots ,chars
f32a
,},
charz@calculatedFrom( //x
""" ++ [28040; 24687]%N ++ runes_of_ascii """
    ) ,zchar[ 3
    // packet A { u8 x, }
    ] repeatCount
`
` , }, } MetaData u8x {//
int64 Header, }
")).
Eval vm_compute in ("<<<M1579>>>" ++ check (runes_of_ascii "packet calculatedFrom
{ @calculatedFrom( ""a\\"" ) zchar[ 4294967296 ]
calculatedFrom@lengthOf( pack )	`100% of %d` ,char[]body@calculatedFrom( ""// no comment"" )  ,
@tag( 007) //x
int8
leftPad`it's` , repeat pack
    { repeat char[ 3 3] body
,},
}")).
Eval vm_compute in ("<<<M2000>>>" ++ check (runes_of_ascii "packet	packetx { // trailing space 
x_y_z
{
string
charz ,
string x// @lengthOf(
`two words`
    ,  u8x { // `tick` ""quote"" 'q'
charz `100% of %d` // packet A { u8 x, }
,}// " ++ [27880; 37322]%N ++ runes_of_ascii "
,} , }
    // a // b
    packet metadata {  @leftPad ( '0') repeat")).
Eval vm_compute in ("<<<M1535>>>" ++ check (runes_of_ascii "packet calculatedFrom
{ @calculatedFrom( ""a\\"" ) zchar[ 4294967296 ]
calculatedFrom@lengthOf( pack )	`100% of %d` ,char[]body@calculatedFrom( ""// no comment"" )  ,
@tag( 007) //x
leftPad
int8`it's` , repeat pack
    { repeat char[ 3] body
,},
}")).
Eval vm_compute in ("<<<M1593>>>" ++ check (runes_of_ascii "packet calculatedFrom
{ @calculatedFrom( ""a\\"" ) zchar[ 4294967296 ]
calculatedFrom@lengthOf( pack )	`100% of %d` ,char[]body@calculatedFrom( ""// no comment"" )  ,
@tag( 007) //x
int8
leftPad`it's` , repeat pack
    { repeat char[ 3] body
},
}")).
Eval vm_compute in ("<<<M1451>>>" ++ check (runes_of_ascii "packet calculatedFrom
{ @calculatedFrom( ""a\\"" ) zchar[ uint8 ]
calculatedFrom@lengthOf( pack )	`100% of %d` ,char[]body@calculatedFrom( ""// no comment"" )  ,
@tag( 007) //x
int8
leftPad`it's` , repeat pack
    { repeat char[ 3] body
,},
}")).
Eval vm_compute in ("<<<M575>>>" ++ check (runes_of_ascii "MetaData Logon
    /// triple
    { i32 roots
    `a\` , calculatedFrom
Pad `// not a comment`,
char
    lengthOf`// not a comment`
// " ++ [27880; 37322]%N ++ runes_of_ascii "
//x
,
    zchar[00	] leftPad,
//
// c
crc len , } options {
msg_type=true// packet A { u8 x, }
}")).
Eval vm_compute in ("<<<M850>>>" ++ check (runes_of_ascii "
packet leftPad
{ string stringy	, } // 50% %s
packet
u8x {
repeat
float64 a1 , @tag(//x
0123456789
    ) @rightPad  ( ) A // " ++ [128512]%N ++ runes_of_ascii " emoji
@lengthOf(matchKey ) // a // b
`
` , zchar[ 7 ] Logon @calculatedFrom(
""x y"" ) ,
    a1
,}
")).
Eval vm_compute in ("<<<M585>>>" ++ check (runes_of_ascii "packet  o { tag, repeat f64 Header	`tab	here` ,@calculatedFrom( ""// no comment"") // trailing space 
asx `a\`	, }root packet
    matchKey { @leftPad( ' ' )@tag( 007) char[]crc
    /// triple
    , // trailing space 
}")).
Eval vm_compute in ("<<<M4502>>>" ++ check (runes_of_ascii "

  MetaData
	// " ++ [128512]%N ++ runes_of_ascii " emoji
    	// packet A { u8 x, }
  int

    {
    // @lengthOf(
    char[  0123456789 
]	x_y_z

, Header msg_type

    ,
//x
  // c
  	metadata
	o`say ""hi""` ,

}

    options
	{ } ")).
Eval vm_compute in ("<<<M3882>>>" ++ check (runes_of_ascii "  packet 
Logon {
    i8 MetaDataX ,

    } 
options	{
stringy = ""packet""  u8x

    =
    ""abc"";

Logon  =false
;

trueish
= """ ++ [28040; 24687]%N ++ runes_of_ascii """

u 
  // `tick` ""quote"" 'q'
	// a // b
	=""1""// " ++ [128512]%N ++ runes_of_ascii " emoji

;  }
")).
Eval vm_compute in ("<<<M958>>>" ++ check (runes_of_ascii "MetaData tag	{zchar[ 10]
    Header `it's` /// triple
,zchar[
4294967296 ] roots, }
    /// triple
    packet x {@tag(
    42 )uint8 crc ,
    } MetaData i64_ { zchar[ 1]
roots	`{ , }` , }")).
Eval vm_compute in ("<<<M4401>>>" ++ check (runes_of_ascii "packet rootA {
    i16 a1 @calculatedFrom(""a\""b"") `it's`,
    @calculatedFrom(""packet"")
    zchar[7] repeatCount `
    `,
    @lengthOf(Foo)
    int64 A @lengthOf(charz) `two words`,
}")).
Eval vm_compute in ("<<<M113>>>" ++ check (runes_of_ascii "  packet
    // @lengthOf(
    len{ char[42
] rootA  @calculatedFrom(""a	b"" ) // c
,
    }packet stringy {@leftPad (
'\x00' ) i16 Packet @lengthOf( zchar
    )`100% of %d`,	}
")).
Eval vm_compute in ("<<<M219>>>" ++ check (runes_of_ascii "options {
    //	t
    metadata = """ ++ [233]%N ++ runes_of_ascii "t" ++ [233]%N ++ runes_of_ascii """ ; Packet = '0' trueish
    = ""`tick`"" calculatedFrom = true ; repeatCount =false} root packet // " ++ [27880; 37322]%N ++ runes_of_ascii "
u
    {
i64_ , }
/// triple
")).
Eval vm_compute in ("<<<M370>>>" ++ check (runes_of_ascii "
root packet chars{ }
//	t
// trailing space 
options { trueish = true
    /// triple
    ; }packet chars{ char[ 7 ]trueish ,
    int8 string_
    `two words`
,}
")).
Eval vm_compute in ("<<<M1306>>>" ++ check (runes_of_ascii "
options {
o
= 1 ;	rootA = 4294967296 pack =
    007 charz // @lengthOf(
= """ ++ [128512]%N ++ runes_of_ascii """ }
options
{
    repeatCount
    = ""it's"" ;	charz= 1 ; leftPad  = '\x00' } // " ++ [27880; 37322]%N)).
Eval vm_compute in ("<<<M2403>>>" ++ check (runes_of_ascii "
packet MetaDataX
{
    @leftPad
( // a // b
'0'
) i8 u @lengthOf(
MetaDataX
    ) `say ""hi""` ,	} MetaData BodyLength {
    asx
x_y_z `" ++ [233]%N ++ runes_of_ascii "`
, uint64 u128 , i16
")).
Eval vm_compute in ("<<<M1690>>>" ++ check (runes_of_ascii "options { } packet Packet{char[] i64_ ,
@tag(
    255 f32 match
crc as i8i8{""{,}"" : trueish """" : Pad , ""a\\"" :
Foo ,
    1 :packetx
, """ ++ [128512]%N ++ runes_of_ascii """ : trueish , } , }")).
Eval vm_compute in ("<<<M1710>>>" ++ check (runes_of_ascii "options { } packet Packet{char[] i64_ ,
@tag(
    255) match
crc as packet{""{,}"" : trueish """" : Pad , ""a\\"" :
Foo ,
    1 :packetx
, """ ++ [128512]%N ++ runes_of_ascii """ : trueish , } , }")).
Eval vm_compute in ("<<<M4367>>>" ++ check (runes_of_ascii "
packet uint8x	{	// " ++ [128512]%N ++ runes_of_ascii " emoji
	int16 
f32a
    ,
	}options{ 
chars =

""`tick`""

    ;
trueish 
= // a // b
  	int64

    Pad =	// 50% %s

""\n""
    ; 
}
")).
Eval vm_compute in ("<<<M1657>>>" ++ check (runes_of_ascii "options { } packet Packet char[] i64_ ,
@tag(
    255) match
crc as i8i8{""{,}"" : trueish """" : Pad , ""a\\"" :
Foo ,
    1 :packetx
, """ ++ [128512]%N ++ runes_of_ascii """ : trueish , } , }")).
Eval vm_compute in ("<<<M1809>>>" ++ check (runes_of_ascii "options { } packet Packet{char[] i64_ ,
@tag(
    255) match
crc as i8i8{""{,}"" : trueish """" : Pad , ""a\\"" :
Foo ,
    1 :packetx
, """ ++ [128512]%N ++ runes_of_ascii """ : trueish } , , }")).
Eval vm_compute in ("<<<M1822>>>" ++ check (runes_of_ascii "options { } packet Packet{char[] i64_ ,
@tag(
    255) match
crc as i8i8{""{,}"" : trueish """" : Pad , ""a\\"" :
Foo ,
    1 :packetx
, """ ++ [128512]%N ++ runes_of_ascii """ : trueish , } , ")).
Eval vm_compute in ("<<<M1665>>>" ++ check (runes_of_ascii "options { } packet Packet{i64 i64_ ,
@tag(
    255) match
crc as i8i8{""{,}"" : trueish """" : Pad , ""a\\"" :
Foo ,
    1 :packetx
, """ ++ [128512]%N ++ runes_of_ascii """ : trueish , } , }")).
Eval vm_compute in ("<<<M3776>>>" ++ check (runes_of_ascii "
packet
    A{ match

    k 
as
n { [	""a""
    ,
    22
,
	""c c"",  4 ,	""e""
    ,

66
,  ""g""
,  8 
,  ""i""

    , 10 ]  :
	B ,
2
    :	C
} ,
    }")).
Eval vm_compute in ("<<<M4472>>>" ++ check (runes_of_ascii "

  options
{  
      // a // b

  //x

  o

    =
    ""a\""b"" ;

metadata= 
char[
    007 ] ;  
      // trailing space 

	Pad

    = ""\" ++ [233]%N ++ runes_of_ascii """ }
")).
Eval vm_compute in ("<<<M3>>>" ++ check (runes_of_ascii "
packet	Header	{i16 matchKey , @calculatedFrom(""\n"") charz // @lengthOf(
calculatedFrom `line1
line2` ,	}
packet crc  {calculatedFrom , }
")).
Eval vm_compute in ("<<<M3742>>>" ++ check (runes_of_ascii "packet A {
    match k as n {
        [
            1, 22, 007, 4, 5,
            66, 7, 8, 9, 10
        ] : B,
        2 : C,
    },
}")).
Eval vm_compute in ("<<<M827>>>" ++ check (runes_of_ascii "root packet Logon {
u16 Foo ,
// c
//
@rightPad	()
@lengthOf(
    // packet A { u8 x, }
    Packet)@lengthOf( Logon ) rootA,Z9_, }
")).
Eval vm_compute in ("<<<M163>>>" ++ check (runes_of_ascii "packet a1 {//x
} root  packet a1  {
    repeat Logon	,string_ //
{u16 A `tab	here` ,
repeat string uint8x ,string
u128,
} , }")).
Eval vm_compute in ("<<<M3273>>>" ++ check (runes_of_ascii "MetaData metadata { } MetaData rootA
// c
{ i8 i64_ , roots options1 `a\` , lengthOf Header , Z9_ Foo , int16 BodyLength , }")).
Eval vm_compute in ("<<<M3305>>>" ++ check (runes_of_ascii "MetaData metadata { } MetaData rootA { i8 i64_ , roots options1 `a\` , lengthOf Header , Z9_ Foo , int16 BodyLength
// c
, }")).
Eval vm_compute in ("<<<M1830>>>" ++ check (runes_of_ascii "options { } packet Packet{char[] i64_ ,
@tag(
    255) match
crc as i8i8{""{,}"" : trueish """" : Pad , ""a\\"" :
Foo ,
  ")).
Eval vm_compute in ("<<<M480>>>" ++ check (runes_of_ascii "packet As{ @calculatedFrom(
""\" ++ [233]%N ++ runes_of_ascii """ )
@lengthOf( leftPad) Pad @calculatedFrom(
    ""packet""), } // packet A { u8 x, }")).
Eval vm_compute in ("<<<M789>>>" ++ check (runes_of_ascii "MetaData
a1
{f32 charz `` ,	msg_type
x_y_z , leftPad
    msg_type ,uint8x  leftPad ,string
    falsey ,  }
")).
Eval vm_compute in ("<<<M3344>>>" ++ check (runes_of_ascii "MetaData float { uint8 BodyLength , } MetaData charz { float32 trueish `a\` , // c
i16 metadata `say ""hi""` , }")).
Eval vm_compute in ("<<<M1195>>>" ++ check (runes_of_ascii "options
    { Header
= 7 ; f32a
=
    ""x y""  options1
= false ; }
    packet Packet { } // trailing space ")).
Eval vm_compute in ("<<<M3470>>>" ++ check (runes_of_ascii "options {
    LittleEndian = true;
}
root packet P {
    u16 a,
    u32 Sum @calculatedFrom(""CRC32""),
}
")).
Eval vm_compute in ("<<<M1482>>>" ++ check (runes_of_ascii "packet calculatedFrom
{ @calculatedFrom( ""a\\"" ) zchar[ 4294967296 ]
calculatedFrom@lengthOf( pack )")).
Eval vm_compute in ("<<<M3678>>>" ++ check (runes_of_ascii "

  packet
A 
{ 
match
	k
as n { [ ""a"",
	""bb"" ,

    007  ]
	: 
B

    , 2

    :C
} ,
	}
")).
Eval vm_compute in ("<<<M913>>>" ++ check (runes_of_ascii "packet int {
char[1
] metadata @lengthOf( // c
MetaDataX)	`tab	here` , repeat body msg_type, }")).
Eval vm_compute in ("<<<M2098>>>" ++ check (runes_of_ascii "packet// packet A { u8 x, }
repeatCount	{// packet A { u8 x, }
@leftPad ( '\x00'
) repeat u8x")).
Eval vm_compute in ("<<<M1275>>>" ++ check (runes_of_ascii "packet len// @lengthOf(
{float32 // a // b
uint8x	, @tag(1 ) char[] Z9_ `line1
line2` , }
")).
Eval vm_compute in ("<<<M2280>>>" ++ check (runes_of_ascii "MetaData _x {string x ""`// not a comment` , string
i64_ // trailing space 
`a\` ,
    }
")).
Eval vm_compute in ("<<<M2261>>>" ++ check (runes_of_ascii "MetaData _x {string x `// not a comment` , string
i64_ // trailing space 
`a\` }
    ,
")).
Eval vm_compute in ("<<<M4082>>>" ++ check (runes_of_ascii "MetaData options1 {
    len chars `crlf
        line`,
    charz Logon `
        `,
}")).
Eval vm_compute in ("<<<M4384>>>" ++ check (runes_of_ascii "packet A {
    B b `tab
    	x`,
    B `tab
    	x`,
    repeat B bs `tab
    	x`,
}")).
Eval vm_compute in ("<<<M2923>>>" ++ check (runes_of_ascii "packet A {
  match k as n {
    [""a"", ""bb"", ""c c"", ""d"", ""e""] : B
    2 : C
  },
}")).
Eval vm_compute in ("<<<M396>>>" ++ check (runes_of_ascii "options
    { stringy=
    ' 'a1  = ""a	b"";
    crc= 3
    ; } packet i8i8 {
}
")).
Eval vm_compute in ("<<<M2909>>>" ++ check (runes_of_ascii "packet A {
  match k as n {
    [""a"", ""bb"", ""c c"", ""d""] : B,
    2 : C
  },
}")).
Eval vm_compute in ("<<<M3377>>>" ++ check (runes_of_ascii "MetaData _x { f64 charz `tab	here` ,
// c
} options { BodyLength = """ ++ [233]%N ++ runes_of_ascii "t" ++ [233]%N ++ runes_of_ascii """ ; }")).
Eval vm_compute in ("<<<M2237>>>" ++ check (runes_of_ascii "MetaData _x {string x true , string
i64_ // trailing space 
`a\` ,
    }
")).
Eval vm_compute in ("<<<M2073>>>" ++ check (runes_of_ascii "packet// packet A { u8 x, }
repeatCount	{// packet A { u8 x, }
@leftPad")).
Eval vm_compute in ("<<<M518>>>" ++ check (runes_of_ascii "packet Logon {
//
// `tick` ""quote"" 'q'
int	`100% of %d`
,
    } 	 ")).
Eval vm_compute in ("<<<M3423>>>" ++ check (runes_of_ascii "packet o { @tag( 4294967296 ) options1 @lengthOf( u8x ) `" ++ [233]%N ++ runes_of_ascii "`
// c
, }")).
Eval vm_compute in ("<<<M2838>>>" ++ check (runes_of_ascii "char[ `u8 x,` ( i16 ; [ match '\x00' root false char[] char[ @tag(")).
Eval vm_compute in ("<<<M407>>>" ++ check (runes_of_ascii "
packet charz { }MetaData body{
    // trailing space 
    } 	 ")).
Eval vm_compute in ("<<<M3046>>>" ++ check (runes_of_ascii "MetaData M {
    u8 x `a
    b
  c`,
    T t `a
    b
  c`,
}")).
Eval vm_compute in ("<<<M1309>>>" ++ check (runes_of_ascii "packet a1 {
// packet A { u8 x, }
// packet A { u8 x, }
}
")).
Eval vm_compute in ("<<<M3793>>>" ++ check (runes_of_ascii "
options

{

    _x
=

false }root packet  pack  {}
")).
Eval vm_compute in ("<<<M1161>>>" ++ check (runes_of_ascii "packet i8i8{ @leftPad ( '\x00' )
trueish packetx ,
}
")).
Eval vm_compute in ("<<<M2358>>>" ++ check (runes_of_ascii "
packet MetaDataX
{
    @leftPad
( // a // b
'0'
)")).
Eval vm_compute in ("<<<M2337>>>" ++ check (runes_of_ascii "
MetaData Pad{
u32 r\ootA `line1
line2` ,
    }
")).
Eval vm_compute in ("<<<M4222>>>" ++ check (runes_of_ascii "MetaData Pad {
    string uint8x,
    int8 As,
}")).
Eval vm_compute in ("<<<M2293>>>" ++ check (runes_of_ascii "
MetaData {
u32 rootA `line1
line2` ,
    }
")).
Eval vm_compute in ("<<<M2581>>>" ++ check (runes_of_ascii "packet A { repeat match k as n { 1 : B }, }")).
Eval vm_compute in ("<<<M3047>>>" ++ check (runes_of_ascii "root packet A {
    u8 x `a
    b
  c`,
}")).
Eval vm_compute in ("<<<M3245>>>" ++ check (runes_of_ascii "MetaData zchar { zchar[ 3 ] Pad // c
, }")).
Eval vm_compute in ("<<<M4527>>>" ++ check (runes_of_ascii "

  packet
BodyLength {} 
      //x
")).
Eval vm_compute in ("<<<M3042>>>" ++ check (runes_of_ascii "packet A {
    u8 x `a
    b
  c`,
}")).
Eval vm_compute in ("<<<M2414>>>" ++ check (runes_of_ascii "
packet MetaDataX
{
    @leftPad
(")).
Eval vm_compute in ("<<<M2864>>>" ++ check (runes_of_ascii "	" ++ [65533; 65533]%N ++ runes_of_ascii "G3" ++ [65533; 21]%N ++ runes_of_ascii "3" ++ [65533]%N ++ runes_of_ascii "Z" ++ [65533]%N ++ runes_of_ascii "7" ++ [65533]%N ++ runes_of_ascii "x" ++ [65533]%N ++ runes_of_ascii "M" ++ [65533]%N ++ runes_of_ascii "N" ++ [6; 65533; 24]%N ++ runes_of_ascii "}O" ++ [65533; 1758]%N ++ runes_of_ascii "WSAY" ++ [65533; 41158; 65533]%N ++ runes_of_ascii "f")).
Eval vm_compute in ("<<<M3083>>>" ++ check (runes_of_ascii "root packet A {
    u8 x `%`,
}")).
Eval vm_compute in ("<<<M2713>>>" ++ check ([65533]%N ++ runes_of_ascii "[" ++ [3; 65533]%N ++ runes_of_ascii "29" ++ [5; 6]%N ++ runes_of_ascii "<" ++ [65533]%N ++ runes_of_ascii "F>" ++ [6]%N ++ runes_of_ascii "r " ++ [65533]%N ++ runes_of_ascii "C" ++ [65533; 65533; 0; 65533]%N ++ runes_of_ascii "2N" ++ [65533; 65533]%N ++ runes_of_ascii "#" ++ [65533]%N ++ runes_of_ascii "Mn")).
Eval vm_compute in ("<<<M2643>>>" ++ check (runes_of_ascii "packet A { @leftPad u8 x, }")).
Eval vm_compute in ("<<<M4227>>>" ++ check (runes_of_ascii "
packet A
	{
}
    // c" ++ [65279]%N ++ runes_of_ascii "
")).
Eval vm_compute in ("<<<M2616>>>" ++ check (runes_of_ascii "packet A { B { u8 x, } }")).
Eval vm_compute in ("<<<M3707>>>" ++ check (runes_of_ascii "
packet A{ } // c" ++ [8287]%N ++ runes_of_ascii "
 
")).
Eval vm_compute in ("<<<M2857>>>" ++ check (runes_of_ascii "{YTSziCQTy+wy_axdil~")).
Eval vm_compute in ("<<<M3679>>>" ++ check (runes_of_ascii "// trailing space 
")).
Eval vm_compute in ("<<<M3155>>>" ++ check (runes_of_ascii "// c" ++ [8287]%N ++ runes_of_ascii "
packet A {
}")).
Eval vm_compute in ("<<<M2675>>>" ++ check (runes_of_ascii "options { a = 1 }")).
Eval vm_compute in ("<<<M2660>>>" ++ check (runes_of_ascii "root options { }")).
Eval vm_compute in ("<<<M2307>>>" ++ check (runes_of_ascii "
MetaData Pad{")).
Eval vm_compute in ("<<<M2761>>>" ++ check (runes_of_ascii "AB;Mm{?.U,^`")).
Eval vm_compute in ("<<<M1647>>>" ++ check (runes_of_ascii "options {")).
Eval vm_compute in ("<<<M2454>>>" ++ check (runes_of_ascii "zchar [")).
Eval vm_compute in ("<<<M2534>>>" ++ check (runes_of_ascii """a\b""")).
Eval vm_compute in ("<<<M3113>>>" ++ check (runes_of_ascii "// c" ++ [160]%N)).
Eval vm_compute in ("<<<M2546>>>" ++ check (runes_of_ascii "0x10")).
Eval vm_compute in ("<<<M2549>>>" ++ check (runes_of_ascii "1.5")).
Eval vm_compute in ("<<<M2567>>>" ++ check (runes_of_ascii "	a")).
Eval vm_compute in ("<<<M2847>>>" ++ check (runes_of_ascii ";")).
