From FP Require Import Lexer Parser ShowPT Digest Formatter.
From Coq Require Import String List NArith.
Import ListNotations.
Open Scope string_scope.
Set Printing Width 100000000.
Set Printing Depth 100000000.
Definition show_fres (r : fres) : string :=
  match r with
  | FOk s => "OK:" ++ sh_escaped s ""
  | FErr s => "ERR:" ++ sh_escaped s ""
  | FPanic p => "PANIC:" ++ p
  end.
Definition check (rs : list rune) : string := digest (show_fres (format_res rs)).
Definition full (rs : list rune) : string := show_fres (format_res rs).
Eval vm_compute in ("<<<M1310>>>" ++ check (runes_of_ascii "
packet Packet	{ char[7
] rootA @lengthOf(// `tick` ""quote"" 'q'
msg_type // trailing space 
)`tab	here`
, @lengthOf( msg_type
)
    falsey Header `tab	here` , match u8x as options1
{ [ 42, ""1"", ""{,}"" ]: BodyLength , [ 1
, // c
""CRC32"" , 0 ,
    007] : u	[// " ++ [27880; 37322]%N ++ runes_of_ascii "
"""" ,
// " ++ [27880; 37322]%N ++ runes_of_ascii "
// @lengthOf(
""a\\""
// " ++ [128512]%N ++ runes_of_ascii " emoji
// a // b
,
""" ++ [233]%N ++ runes_of_ascii "t" ++ [233]%N ++ runes_of_ascii """ ,7 ,
""abc"",  """", 10 ,  ""abc""]
    : metadata
    , ""1"" :x_y_z
    , ""x y"" :Packet }
    ,
lengthOf {// trailing space 
match
repeatCount as
Packet
{007 : Z9_ ,[ 65535
, 65535 ] :msg_type
,""{,}""  : tag ,
}, repeat x
msg_type, f32 Logon , } ,
zchar[ 0
]
    //x
    As
    ,
@tag(
    42 //	t
)@calculatedFrom(
""\n"") f64 u128 @calculatedFrom( """ ++ [28040; 24687]%N ++ runes_of_ascii """ ) ,rootA ,
    chars
    u128
, zchar {i64//	t
i64_ ,
    int32 i64_ @calculatedFrom(
    ""// no comment""
) ,
    falsey	`doc`  ,	}
, @leftPad ( '0' ) char packetx  @calculatedFrom( ""\n"" ) // packet A { u8 x, }
`say ""hi""` , }
packet roots { @calculatedFrom( ""a\\""
    ) chars @calculatedFrom(
    ""\n"" )`a\` ,
    @calculatedFrom( ""CRC32"" )
char[ // `tick` ""quote"" 'q'
65535
]roots
,	@tag( 7 )  Logon u8x `{ , }`,match Foo
    as // " ++ [128512]%N ++ runes_of_ascii " emoji
Logon  {
    ""`tick`""// a // b
: uint8x,
    """"
    : leftPad /// triple
, 3 :
    leftPad ,
1 : options1, } ,@lengthOf(uint8x
    ) @leftPad ( '\x00' )
    @rightPad	(
    )
u128
``,
rootA { //x
match len as
    float { 42
    : trueish
    , ""`tick`"" :Packet
//x
// @lengthOf(
, 0123456789// a // b
:
    //
    As
, ""CRC32""
: Header,
} ,
repeat string Z9_
    `say ""hi""` , } , //	t
@rightPad (
' ') @lengthOf( repeatCount )i32 _x
    `
` , match
    // a // b
    Header
as crc {	007 :	Z9_[ 4294967296
    ,
4294967296
    ] : crc ,
    10
    :A
,  [
4294967296 , 3 ,
7	, 42, 1
    ,  7] : _x ,1 : uint8x
}
    , i8i8{ stringy
@lengthOf( _x
) `
` ,
    } ,
    } packet repeatCount{
@tag(	0)@calculatedFrom(""a\\"" )repeat
    u32 T`
`,matchKey pack, // `tick` ""quote"" 'q'
options1 {// trailing space 
match asx as
o {
    ""{,}"" : lengthOf,""a	b"" : lengthOf,10  :
    calculatedFrom } ,
    // a // b
    i8i8 ,Pad@calculatedFrom( // @lengthOf(
""{,}""
    ) `// not a comment`  ,},
    @tag(
0123456789 ) // " ++ [27880; 37322]%N ++ runes_of_ascii "
repeat int , uint32 asx	`a\` , } root
    packet trueish {
zchar[ 7 ] i64_ , } packet chars /// triple
{ @rightPad(
) //	t
repeat char[255] lengthOf
`line1
line2`	, }
")).
Eval vm_compute in ("<<<M4245>>>" ++ check (runes_of_ascii "
packet T{

repeat
zchar[
007 
]
x_y_z
    ,
    repeat Logon
{repeat	f32a
`// not a comment`

,
	string 
uint8x`crlf
line`
,}  //	t
  ,

    int64
    len`// not a comment` ,
match repeatCount

    as
// " ++ [27880; 37322]%N ++ runes_of_ascii "
  x_y_z 
{00

    :
	packetx
	,[
    ""CRC32""

,

    """ ++ [128512]%N ++ runes_of_ascii """
]
: 
metadata 
,
00 	 // `tick` ""quote"" 'q'
	  :  // trailing space 
	metadata, }, repeat
msg_type

    { falsey 	 // c
	{
repeat

len
{
match float
as  stringy

{ 
        // c

[  
      //
	  // " ++ [128512]%N ++ runes_of_ascii " emoji
  007
,  ""packet"",007

    , 
""\n""
,
""abc"",1	,  4294967296  ]

    : 	 // " ++ [128512]%N ++ runes_of_ascii " emoji
		matchKey
	, 
42

: 
f32a// packet A { u8 x, }
    ,
[
10 
      // @lengthOf(
    	// c
  , ""a\\"" ]
    : 
a1

    //
  // " ++ [128512]%N ++ runes_of_ascii " emoji
	  ,65535:tag 	 // trailing space 
  ,	// `tick` ""quote"" 'q'
  	}

,  }	// " ++ [27880; 37322]%N ++ runes_of_ascii "

	,}  , u64 
_x `two words`//x
,pack
,} ,

    repeat  As  //

{

    repeat	string
	pack
    ,uint8	// c
    	leftPad

    @lengthOf(As

) ,
    string
options1
	@calculatedFrom(

    ""// no comment""	/// triple
	)

`" ++ [28040; 24687; 31867; 22411]%N ++ runes_of_ascii "` 
,
    u8

leftPad @lengthOf( 
options1 ),	}

// @lengthOf(
  ,
	} //
	packet float

    { @tag(
    42	)//
		repeat
	int64

    float`a\`	,
@calculatedFrom(""// no comment""
	)repeat i64_ 
packetx

    ,
    match lengthOf as// a // b
  falsey// @lengthOf(
    {
[

    42 
,
    ""\" ++ [233]%N ++ runes_of_ascii """ , 
10 ,
10
    ,	007  ,

    ""abc""

,
1,
	7 
]:
	metadata //	t
,

    } , repeat int ,repeatCount	,
    zchar[255
]

x @lengthOf(
A 
	// c
  	// @lengthOf(
) ,
	@leftPad(' '

    )
@lengthOf( o)@rightPad
(
	'\x00' ) 
	// a // b
    // @lengthOf(
    repeat
float64
    leftPad

    ,

    @leftPad ('0'

) 
match i8i8

as
	// @lengthOf(
	  charz
{
""" ++ [28040; 24687]%N ++ runes_of_ascii """

    :
roots
,
},  @calculatedFrom( 
      /// triple
// packet A { u8 x, }
	""abc""
) repeat zchar[00 
] matchKey, 	 // packet A { u8 x, }
uint16
/// triple
    string_
`doc`
,
	} 
        //x
")).
Eval vm_compute in ("<<<M3811>>>" ++ check (runes_of_ascii "root packet o {
    @lengthOf(BodyLength)
    uint64 string_ @calculatedFrom(""a\""b""),
    repeat tag {
        match crc as lengthOf {
            ""{,}"" : i8i8,
            255 : trueish,
            // c
            /// triple
            [
                10, 1, 0123456789, 4294967296, 00,
                ""abc""
            ] : body,
        },
        int32 uint8x @calculatedFrom(""// no comment""),// @lengthOf(
        zchar[3] msg_type ``,
        repeat float32 pack `it's`,
    },
    match u as _x {
        00 : calculatedFrom,
        255 : float,
        ""\n"" : repeatCount,
    },
    @tag(3)
    match A as Z9_ {
        ""a\\"" : rootA,
        ""// no comment"" : f32a,
        [""x y""] : i64_,
    },
    x_y_z,
    int32 f32a,// packet A { u8 x, }
    @leftPad()
    f32 roots,
    @lengthOf(packetx)
    @tag(255)
    @tag(3)
    i32 string_ @calculatedFrom(""" ++ [128512]%N ++ runes_of_ascii """) `doc`,
    @leftPad()
    int8 trueish @lengthOf(uint8x),
    zchar[007] tag @calculatedFrom(""{,}""),
}

packet leftPad {
    string Foo,
    metadata u8x,
    msg_type `
        `,
    @leftPad()
    repeat metadata {
        //x
        //	t
        char[] i8i8 @calculatedFrom(""CRC32""),
        char[1] rootA,
        match falsey as zchar {
            4294967296 : leftPad,
        },// c
        char[007] stringy @lengthOf(i64_) `a\`,// packet A { u8 x, }
    },
    @rightPad('0')
    @lengthOf(x)
    @calculatedFrom(""1"")
    repeat roots,
    char[] int @calculatedFrom(""" ++ [128512]%N ++ runes_of_ascii """) `a\`,
    zchar[42] stringy,
    @lengthOf(chars)
    char[255] int,
    crc @lengthOf(falsey) `line1
        line2`,
}")).
Eval vm_compute in ("<<<M490>>>" ++ check (runes_of_ascii "root
//
// c
packet
As
    { @calculatedFrom( ""{,}"" )
// packet A { u8 x, }
// @lengthOf(
Header { repeat uint8 uint8x
// a // b
// @lengthOf(
`// not a comment` ,
    } ,@tag(3 ) repeat i64 i64_
`it's`
// a // b
//	t
, @lengthOf( i8i8
// `tick` ""quote"" 'q'
// trailing space 
)  repeat i64
    //x
    metadata,repeat i8
chars`a\`
    // " ++ [27880; 37322]%N ++ runes_of_ascii "
    , repeat zchar[ //x
4294967296 ] x_y_z	, @leftPad( '0' /// triple
)  char[ 42 ] options1, repeat
o
    , } root packet float {
}	packet Packet {uint8x roots
,
zchar[ 0123456789 ]
    msg_type `a\`, @calculatedFrom( """ ++ [233]%N ++ runes_of_ascii "t" ++ [233]%N ++ runes_of_ascii """
)
//
// trailing space 
repeat Packet {
repeat int64 T  , repeat zchar[ 1 ]
falsey`it's` ,
    match leftPad as f32a {
    // " ++ [128512]%N ++ runes_of_ascii " emoji
    ""a\""b""
:MetaDataX , [ 65535 ]
    :
rootA
    , } , } , @tag(007 ) repeat char[
4294967296//x
] Z9_ , string Packet@calculatedFrom(
""CRC32""  ) `u8 x,` ,} root
    packet
    x
    {
pack tag//x
``, // `tick` ""quote"" 'q'
}
packet Z9_ { char[] BodyLength
,
    zchar @lengthOf( x  )	`" ++ [28040; 24687; 31867; 22411]%N ++ runes_of_ascii "`,
uint8 float
    // @lengthOf(
    ,
i64 u8x
    , @lengthOf(
leftPad
)
    //
    int @lengthOf( lengthOf ) , zchar { zchar[ 0 ] Z9_ ,
} ,
float // `tick` ""quote"" 'q'
`crlf
line`
, repeat Z9_ {  repeat options1 , i32 As
,string stringy @lengthOf(
leftPad
// a // b
// a // b
)`" ++ [28040; 24687; 31867; 22411]%N ++ runes_of_ascii "` , } , char[10 ] x , int ,} // c")).
Eval vm_compute in ("<<<M396>>>" ++ check (runes_of_ascii "packet Z9_	{	repeat charz{ match chars
as T{ // trailing space 
""// no comment""//
:  float ,	42 : string_, } ,// " ++ [128512]%N ++ runes_of_ascii " emoji
} , @calculatedFrom(	""CRC32"" ) trueish
@lengthOf( As
    ) `" ++ [28040; 24687; 31867; 22411]%N ++ runes_of_ascii "`
,@lengthOf( _x
) falsey @lengthOf(  zchar  ) `two words`
    ,
@lengthOf(
    x )string chars  @lengthOf(int )
    ,f32
    options1
    // @lengthOf(
    , @lengthOf(
    // `tick` ""quote"" 'q'
    Pad )	match len as
leftPad {
4294967296 :
    /// triple
    rootA
    42
: Z9_	, } , }options
    { T
    = true }
    MetaData repeatCount {
    char[] string_`" ++ [233]%N ++ runes_of_ascii "` ,
f64
Z9_ ,
    f32
_x ,}/// triple
packet chars { match trueish as  asx /// triple
{	0123456789
:chars,
} , @tag( 10
) repeat
rootA`" ++ [233]%N ++ runes_of_ascii "`
, zchar[ 255 ] MetaDataX `doc` , u16 Header	`" ++ [233]%N ++ runes_of_ascii "` , @leftPad( ' '	) match  trueish as a1
    {
""" ++ [28040; 24687]%N ++ runes_of_ascii """: As  ,1
: pack ,
    1 : repeatCount ,
    [ 7 ]
    : // packet A { u8 x, }
u ,} , @lengthOf( tag  ) u128
{ int32 // " ++ [128512]%N ++ runes_of_ascii " emoji
tag@lengthOf( u8x ) ,
} , // trailing space 
@lengthOf( u )@calculatedFrom( ""a	b"" ) @tag(
    00 )// c
i64 calculatedFrom@lengthOf( calculatedFrom ) `" ++ [28040; 24687; 31867; 22411]%N ++ runes_of_ascii "`,	} packet pack
    // packet A { u8 x, }
    {@calculatedFrom( ""\n""// `tick` ""quote"" 'q'
) string i8i8 `line1
line2`
,
}")).
Eval vm_compute in ("<<<M1179>>>" ++ check (runes_of_ascii "MetaData crc
// trailing space 
// packet A { u8 x, }
{Z9_  metadata
`u8 x,`, }
    packet // packet A { u8 x, }
matchKey
{	leftPad , string x ,
    // " ++ [27880; 37322]%N ++ runes_of_ascii "
    } packet x	{ match msg_type
as MetaDataX//
{ // @lengthOf(
00
:  roots , } , char[ 255
]
    // packet A { u8 x, }
    falsey `" ++ [28040; 24687; 31867; 22411]%N ++ runes_of_ascii "`
    //	t
    , @lengthOf(
    Logon	) @tag(
42 ) @lengthOf( Foo
)
    repeat//	t
char[ 1	] u,
// packet A { u8 x, }
//	t
i8 chars
@calculatedFrom( ""a\""b""
// @lengthOf(
// trailing space 
),	@calculatedFrom(""" ++ [128512]%N ++ runes_of_ascii """ /// triple
) @calculatedFrom( ""`tick`""
) f64 Logon
    ,
@lengthOf(  calculatedFrom
    ) //
repeatCount
{
    repeat Packet`two words` , match  i64_ as
charz{""a\\"" :
int[	""\" ++ [233]%N ++ runes_of_ascii """ , 0123456789
    , """ ++ [28040; 24687]%N ++ runes_of_ascii """
]
    :
Pad
, 1: As,""CRC32""
:	Header ,
},  char[ 007 // packet A { u8 x, }
]
tag
`doc` , repeat As`" ++ [233]%N ++ runes_of_ascii "` , // c
}
,
    MetaDataX @calculatedFrom("""")`line1
line2`, // c
} options{ _x=false
As = zchar[ 65535
]
BodyLength= int64 o
=	false ;
calculatedFrom
    =	'0' ;
    } root	packet Packet { // @lengthOf(
falsey Packet, @lengthOf(
    BodyLength ) @lengthOf(uint8x
) @rightPad (
) string float	`// not a comment`, } 	 ")).
Eval vm_compute in ("<<<M741>>>" ++ check (runes_of_ascii "options // packet A { u8 x, }
{// @lengthOf(
roots
= false a1
    = '0' // trailing space 
; leftPad =true ;
// a // b
// " ++ [27880; 37322]%N ++ runes_of_ascii "
Logon
=
    ""a	b""
    // " ++ [128512]%N ++ runes_of_ascii " emoji
    }
    root packet	metadata
    // packet A { u8 x, }
    { tag @lengthOf( string_
) `it's` , @leftPad (
    ' '
    ) @lengthOf(	trueish
// a // b
//
)	@lengthOf(/// triple
A )
int64
Packet
@calculatedFrom( """" ) `
`, u
    f32a`` ,@calculatedFrom( ""abc""
) @tag(255 )char[]
//
// a // b
Logon @calculatedFrom(	""\" ++ [233]%N ++ runes_of_ascii """) , // trailing space 
repeat char[ 7
    ]a1
    ,
    char[] pack
`u8 x,`
    ,repeat
    calculatedFrom `tab	here` , @tag(  1
    ) u32 options1 , }options
{ i8i8 =  4294967296 } packet // c
roots {repeat charz x_y_z
    , } packet
msg_type  {
@lengthOf( tag // c
)
i32
Pad`" ++ [28040; 24687; 31867; 22411]%N ++ runes_of_ascii "` ,i64
a1 ,metadata
{repeat int8 float //	t
, // `tick` ""quote"" 'q'
Pad
_x,
f32 //
pack ,
// a // b
// " ++ [27880; 37322]%N ++ runes_of_ascii "
} ,
    i8 repeatCount  , char
matchKey , repeat trueish `u8 x,` ,
    o // " ++ [128512]%N ++ runes_of_ascii " emoji
leftPad ,
char[] pack `it's` ,// c
As{uint32  rootA @calculatedFrom(""it's"" ) `
`, }
,
    // c
    }")).
Eval vm_compute in ("<<<M248>>>" ++ check (runes_of_ascii "packet
Packet
    {
} packet repeatCount{@tag(	4294967296
    ) @lengthOf(A  ) @lengthOf( float ) rootA ,
@tag(0123456789  )
Header
    `// not a comment`,  matchKey
    f32a
    , Pad, repeat float32	uint8x
    `" ++ [233]%N ++ runes_of_ascii "` ,@leftPad
    ('\x00' )	repeat
    char[3]
tag `
`, repeat
pack {
repeat x { repeat f64 len ,
    i64_ len, }
    ,
repeatCount
    // `tick` ""quote"" 'q'
    @lengthOf(uint8x
    ) , match	zchar  as a1 {
// a // b
// packet A { u8 x, }
3: u ,
},// packet A { u8 x, }
repeat rootA
{ options1 {
repeat body u8x `crlf
line`	, match Z9_ as
    f32a{007
:repeatCount ,
    ""packet""
: calculatedFrom
    ,
    // " ++ [128512]%N ++ runes_of_ascii " emoji
    10 // `tick` ""quote"" 'q'
: /// triple
calculatedFrom
    ,
""CRC32""  :	_x , [	""x y""	] : i64_ , ""packet""
// `tick` ""quote"" 'q'
// a // b
:// `tick` ""quote"" 'q'
MetaDataX
    ,  }
// a // b
// " ++ [27880; 37322]%N ++ runes_of_ascii "
, } ,
    //x
    } , } ,  } MetaData// @lengthOf(
asx {	u trueish ,chars // c
f32a `// not a comment`	, float64 u128 , string_ string_ `
` , }packet crc
{ }")).
Eval vm_compute in ("<<<M941>>>" ++ check (runes_of_ascii "packet Packet	{
    u128 @calculatedFrom( ""// no comment"" // trailing space 
) , zchar[ 255 ]repeatCount@lengthOf( Z9_
    )`doc` ,repeat
    matchKey { char[ 10]
    msg_type @calculatedFrom(
    ""a\\"" )
    , zchar[ 255 ]
    o @calculatedFrom( ""CRC32""// a // b
)	,repeat zchar[00
    ]Header `it's`
,repeat asx
    //
    { BodyLength//x
@lengthOf( // " ++ [27880; 37322]%N ++ runes_of_ascii "
matchKey )
`{ , }`
, match metadata as//x
a1 { 255 : calculatedFrom , 7 : u8x // @lengthOf(
} , char[ 007 //x
]  float
    // trailing space 
    , match charz as //	t
u8x// trailing space 
{
""a\""b"" : Logon, }  ,} , } , repeat Foo
    `crlf
line`, @tag(
    10 )
rootA charz , int @lengthOf( a1 ) , }
MetaData lengthOf {zchar[0 // `tick` ""quote"" 'q'
] //	t
uint8x , } packet
len { }// @lengthOf(
packet u
    {match f32a as BodyLength{0
: float
, }	, } MetaData leftPad // trailing space 
{ u32 f32a `doc` ,zchar[ 255 ] i64_ ,
    char[]zchar  ,
    // `tick` ""quote"" 'q'
    T i64_
`" ++ [233]%N ++ runes_of_ascii "`
,
    }
")).
Eval vm_compute in ("<<<M4006>>>" ++ check (runes_of_ascii "root packet matchKey {
    match uint8x as x_y_z {
        1 : falsey,
    },
}

packet MetaDataX {
    /// triple
    float @calculatedFrom(""a\\"") `// not a comment`,
    repeat stringy {
        match repeatCount as a1 {
            [""// no comment""] : metadata,
            //	t
            [4294967296, """ ++ [233]%N ++ runes_of_ascii "t" ++ [233]%N ++ runes_of_ascii """] : len,
            [
                4294967296, 10, 0, ""a\\"", ""packet"",
                """ ++ [233]%N ++ runes_of_ascii "t" ++ [233]%N ++ runes_of_ascii """
            ] : charz,
            00 : i64_,
            [7] : tag,
            00 : falsey,
        },
    },
    roots @calculatedFrom(""1"") `
    `,
    msg_type @lengthOf(stringy) `a\`,
    int MetaDataX `doc`,
    @calculatedFrom(""" ++ [128512]%N ++ runes_of_ascii """)
    u64 int `say ""hi""`,
}

packet rootA {
    asx @lengthOf(Foo) `a\`,
    @leftPad(' ')
    string Z9_,
    crc @lengthOf(leftPad) `doc`,
    repeat calculatedFrom u128 `{ , }`,//x
    @calculatedFrom(""packet"")
    @calculatedFrom(""\" ++ [233]%N ++ runes_of_ascii """)
    i16 roots `doc`,
}")).
Eval vm_compute in ("<<<M1360>>>" ++ check (runes_of_ascii "root packet lengthOf // @lengthOf(
{ } //x
packet _x{//
@calculatedFrom(//x
""a	b"" )
@tag( 65535// packet A { u8 x, }
)
    char[ 65535 ]
// c
// `tick` ""quote"" 'q'
matchKey , }packet leftPad {
u16
leftPad	, @tag( 0123456789 )
// " ++ [128512]%N ++ runes_of_ascii " emoji
// @lengthOf(
char[ 1 ] f32a @lengthOf( options1
) , string_ BodyLength , Foo
`" ++ [28040; 24687; 31867; 22411]%N ++ runes_of_ascii "`
    //
    ,@lengthOf(
u128 ) i32 trueish @lengthOf( chars
)
`it's` ,
    u8x	u8x  `{ , }` , match Foo
    as leftPad
{ // c
0123456789: calculatedFrom}, @leftPad ('0' // c
)int32	rootA	`crlf
line`
,	match BodyLength as
pack
{ [ 10
    ] : stringy,
10 :stringy 1 :u , } , match zchar as calculatedFrom
{ """ ++ [128512]%N ++ runes_of_ascii """ :	len , }
//x
// trailing space 
, } MetaData // packet A { u8 x, }
Z9_
{Pad As `line1
line2`
    // a // b
    , Z9_ zchar , int8 repeatCount , i64_ trueish,
A uint8x
,// trailing space 
leftPad Logon`two words`, } options { } 	 ")).
Eval vm_compute in ("<<<M1290>>>" ++ check (runes_of_ascii "  packet len//	t
{ @tag(255
// packet A { u8 x, }
// trailing space 
) chars leftPad  ,
repeat char[ 0123456789 ] o
// `tick` ""quote"" 'q'
// trailing space 
`{ , }`  , falsey { f32a @lengthOf(metadata
    ) `// not a comment`, //	t
match pack // trailing space 
as//	t
asx{
10	:	u128 ,
} , } ,body Logon ,@calculatedFrom(""\" ++ [233]%N ++ runes_of_ascii """ ) u32 tag@lengthOf(
uint8x ) `crlf
line` ,  uint8x { zchar[ 10
    ]  packetx @lengthOf(
    pack// @lengthOf(
) ,
char[	4294967296]// trailing space 
msg_type, }
,
string float `it's`	, @tag(0)
    @tag( 42 ) u128 {repeat char[]
BodyLength
,match As as Logon{	[7
// c
//x
, 1  , ""// no comment"", 00 // `tick` ""quote"" 'q'
, """" , 0123456789 ]
:	body , """ ++ [128512]%N ++ runes_of_ascii """ : Packet
    , 42 :
    u ""1""	: chars,
} , }
    , //	t
repeat zchar[42	]u , }
    //	t
    packet stringy { body x,	} // trailing space ")).
Eval vm_compute in ("<<<M4316>>>" ++ check (runes_of_ascii "packet i8i8 {
    options1 @calculatedFrom(""packet"") `crlf
        line`,
    @rightPad(' ')
    string lengthOf `" ++ [233]%N ++ runes_of_ascii "`,
    u64 string_,
}

options {
    options1 = false;
}

MetaData u {
    a1 options1,
    lengthOf x_y_z `line1
        line2`,
    MetaDataX rootA,
    zchar[255] len,
    char[007] int `say ""hi""`,
    char[4294967296] stringy,
}

root packet u8x {
    Z9_ @lengthOf(Packet),
    @calculatedFrom(""packet"")
    @rightPad('0')
    @calculatedFrom(""it's"")
    packetx `" ++ [28040; 24687; 31867; 22411]%N ++ runes_of_ascii "`,
    float64 Packet @calculatedFrom(""`tick`"") `a\`,
    @leftPad('0')
    match len as rootA {
        // `tick` ""quote"" 'q'
        ""x y"" : uint8x,
        ""1"" : asx,
        ""a\""b"" : u8x,
    },// " ++ [27880; 37322]%N ++ runes_of_ascii "
    @lengthOf(tag)
    trueish As,
    @lengthOf(falsey)
    zchar[1] a1,
}

root packet body {
}")).
Eval vm_compute in ("<<<M1313>>>" ++ check (runes_of_ascii "
options { trueish =
    4294967296 ; } root packet float { } packet Header{
repeat Logon , @tag(
    0123456789 )  uint8 asx  `say ""hi""` ,int@calculatedFrom( ""a	b"") // " ++ [27880; 37322]%N ++ runes_of_ascii "
,
repeat
    Logon , } packet i64_{ /// triple
repeat
char[ 0123456789 ]
metadata
`u8 x,`,
repeat
f32
    Packet , repeat crc {	int16 // trailing space 
body
    `" ++ [28040; 24687; 31867; 22411]%N ++ runes_of_ascii "` , int32 stringy,
    // @lengthOf(
    repeat char[ 65535
]
    // " ++ [128512]%N ++ runes_of_ascii " emoji
    int ,
    u64 zchar
// " ++ [27880; 37322]%N ++ runes_of_ascii "
// " ++ [128512]%N ++ runes_of_ascii " emoji
, } , @rightPad
    (	'\x00'  )	@calculatedFrom( ""abc"" )@rightPad ( ' '	)rootA o	, repeat string// a // b
msg_type,
//x
/// triple
char[
3
// `tick` ""quote"" 'q'
/// triple
]
i8i8 `two words`
//	t
// trailing space 
,@calculatedFrom( ""// no comment""	) /// triple
f32a@lengthOf( Z9_) ,	}
")).
Eval vm_compute in ("<<<M3514>>>" ++ check (runes_of_ascii "
options
    {

    LittleEndian
	=
false ;
	StringPrefixLenType=
u16 
; ArrayPrefixLenType	= 
u32 
;	}
packet	Order { uint8 x
, repeat

    string
venue, }
	packet
    Heartbeat
{ i64
    count ,
zchar[
    1 ] Qty 
,

    repeat  InX29{ InSeqno26 {int64
f1	,	char[

5]Acct
    , Order
,} ,
    repeat  InSide285

    {
    repeat  Order,  char[	10 ] Px , zchar[9 ] OrderId,} , char[]  venue 
,Order
    , } ,
@rightPad(	'\x00'

    )	char[4
    ]clOrdID
	, }root

    packet Party
    { zchar[ 3
	] 
f1 ,u32

    clOrdID
,
u32

Px @lengthOf( Body ) ,
    match
clOrdID	as
	Body	{ 
[ 180

    ,	64
]: Heartbeat 
,11
	:
Order
    ,
	}

    ,
u32
    Side2 @calculatedFrom(	""CRC32"")

, } ")).
Eval vm_compute in ("<<<M3496>>>" ++ check (runes_of_ascii "// top
packet // c0
P1 {
    // c2
u8 // c3
a // c4
, // c5
}
    // c6
packet P2 // c8
{ // c9
P1
    // c10
, // c11
} packet // c13
P3
    // c14
{ P2 // c16a
  // c16b
, P1
    // c18
, }
    // c20
packet // c21a
  // c21b
P4
    // c22
{ repeat P3
    // c25
,
    // c26
P2 // c27
, // c28
}
    // c29
root packet P5
    // c32
{ // c33
P4 // c34a
  // c34b
, // c35a
  // c35b
P3 // c36
, // c37
P1 // c38
, u8
    // c40
K , // c42
match K // c44
as
    // c45
Body // c46a
  // c46b
{ // c47
4 : // c49
P4 // c50
, 3
    // c52
:
    // c53
P3 , 2
    // c56
: // c57a
  // c57b
P2
    // c58
, // c59
1
    // c60
: // c61
P1 , } // c64
, // c65
}
    // c66
")).
Eval vm_compute in ("<<<M1386>>>" ++ check (runes_of_ascii "packet
Packet
{ MetaDataX @calculatedFrom( ""abc""), i32 zchar
    ,
    // c
    @calculatedFrom( """ ++ [128512]%N ++ runes_of_ascii """ )
    repeat x_y_z `tab	here`
, len
@calculatedFrom(""`tick`"" ) `{ , }` ,repeat
char[ 7 ]	asx `
` ,@tag(7
//	t
// packet A { u8 x, }
) repeat
int64 // " ++ [128512]%N ++ runes_of_ascii " emoji
x// trailing space 
, uint32 f32a
`u8 x,`, }
    packet uint8x{match body as u{ [ 10 ]
    : repeatCount,
[ 4294967296 ] :metadata
    ,
} ,repeat x_y_z{
u8 MetaDataX@lengthOf( packetx )
    `" ++ [233]%N ++ runes_of_ascii "`
, } ,
float32 body ,// " ++ [27880; 37322]%N ++ runes_of_ascii "
repeat
BodyLength string_ , char string_
    `line1
line2`	, @tag( 7) char[] len @calculatedFrom( """ ++ [233]%N ++ runes_of_ascii "t" ++ [233]%N ++ runes_of_ascii """) , repeat float32 _x ,
Header uint8x
`it's` , }
")).
Eval vm_compute in ("<<<M3534>>>" ++ check (runes_of_ascii "options {
    LittleEndian = true;
    FixedStringPadFromLeft = true;
    FixedStringPadChar = '0';
}
packet Trade {
    string clOrdID,
    char[] Px,
    u32 x,
}
packet Reject {
    int32 Side2,
    repeat char[3] clOrdID,
    i32 tag7,
}
packet Leg {
}
root packet Quote {
    string Side2,
    string lastPx,
    InSym58 {
        int16 OrderId,
        Reject,
        i8 Qty,
        i64 venue,
        f32 Note,
    },
    char[] count,
    zchar[9] price,
    u16 Qty,
    match Qty as Body {
        69 : Leg,
        48 : Trade,
        51 : Reject,
    },
    u16 Acct @calculatedFrom(""CR\
C32""),
}
")).
Eval vm_compute in ("<<<M4338>>>" ++ check (runes_of_ascii "// " ++ [128512]%N ++ runes_of_ascii " emoji
packet int {
    match zchar as _x {
        [4294967296] : x_y_z,
        [""a\""b""] : chars,
        [""it's"", ""\" ++ [233]%N ++ runes_of_ascii """, ""packet"", ""{,}""] : f32a,
    },
    x {
        repeat asx {
            zchar[0123456789] crc `crlf
            line`,
            msg_type i8i8 `crlf
            line`,
            uint16 rootA @calculatedFrom(""a\\""),
            Logon x_y_z `" ++ [233]%N ++ runes_of_ascii "`,
        },
    },
}

packet u {
    match pack as trueish {
        ""1"" : len,
        """ ++ [128512]%N ++ runes_of_ascii """ : leftPad,
        4294967296 : metadata,
    },
    int T `line1
    line2`,
    f32 Logon,
}

options {
}")).
Eval vm_compute in ("<<<M433>>>" ++ check (runes_of_ascii "options {
    Packet = string } root
    //	t
    packet  trueish{ // a // b
@calculatedFrom( ""packet""	) i64 trueish`// not a comment`
,match MetaDataX as rootA
// trailing space 
// a // b
{
[ ""packet"" , """ ++ [28040; 24687]%N ++ runes_of_ascii """ ,// " ++ [27880; 37322]%N ++ runes_of_ascii "
42] :uint8x 0123456789
    // a // b
    : int
// trailing space 
//x
, }
,
    @rightPad ( '0' )match metadata as
uint8x {
255 :
    len
0
:Packet,""a\""b"" :i8i8
, } /// triple
, match
msg_type as repeatCount { ""CRC32"":
x_y_z , [ ""a	b""
, ""\" ++ [233]%N ++ runes_of_ascii """, 7, ""it's""
,  1 , 7 ]
:
// c
// trailing space 
As // @lengthOf(
,
},
    }

")).
Eval vm_compute in ("<<<M1181>>>" ++ check (runes_of_ascii "  options
{	Z9_ = ""// no comment"" Foo
= ""\n""
    // c
    i64_
    = false _x = """ ++ [128512]%N ++ runes_of_ascii """ ; }packet pack { zchar[4294967296 ] float@lengthOf(repeatCount ) , match //x
Header as len{ [""`tick`"" ] :charz ""it's"": MetaDataX ""it's"" : string_,[	""a	b"" , ""\n"",	1 ]
    : zchar} , } packet uint8x // trailing space 
{ @tag(
007)repeat
    calculatedFrom  `two words`// c
,} packet uint8x {
i16
    trueish @lengthOf( Z9_) // " ++ [27880; 37322]%N ++ runes_of_ascii "
, @calculatedFrom(""a\""b""
    )@lengthOf(u8x ) roots , uint64 chars@lengthOf(tag )//
`` , }
")).
Eval vm_compute in ("<<<M3260>>>" ++ check (runes_of_ascii "// top
MetaData // c0
x_y_z // c1
{ // c2
char // c3
body // c4
, // c5
f64 // c6
i8i8 // c7
`two words` // c8
, // c9
body // c10
body // c11
`" ++ [28040; 24687; 31867; 22411]%N ++ runes_of_ascii "` // c12
, // c13
} // c14
root // c15
packet // c16
chars // c17
{ // c18
@lengthOf( // c19
i64_ // c20
) // c21
chars // c22
, // c23
i8i8 // c24
{ // c25
falsey // c26
@lengthOf( // c27
stringy // c28
) // c29
`doc` // c30
, // c31
} // c32
, // c33
x // c34
@lengthOf( // c35
A // c36
) // c37
`crlf
line` // c38
, // c39
} // c40
")).
Eval vm_compute in ("<<<M379>>>" ++ check (runes_of_ascii "
root
packet
falsey	{ @tag( 0123456789
    ) @tag( 3 )
Pad { rootA ,
//x
// a // b
x { repeat int {
// " ++ [128512]%N ++ runes_of_ascii " emoji
// @lengthOf(
match f32a as crc
{
[ """ ++ [128512]%N ++ runes_of_ascii """ ,""packet""] : metadata ,//	t
[ 42,  ""abc"" , 00
    ,""a\\""
]
    // a // b
    ://x
metadata ,
[""a\""b""
] : Header , ""\n""
: asx } , } ,
    x_y_z @calculatedFrom(""1""// " ++ [128512]%N ++ runes_of_ascii " emoji
),
zchar[ 42
    ]
    string_ `` // packet A { u8 x, }
,	matchKey	pack ,} ,
}
, @lengthOf( Logon )
@leftPad
    ('\x00' )
As u8x , }")).
Eval vm_compute in ("<<<M1355>>>" ++ check (runes_of_ascii "
MetaData asx// @lengthOf(
{
// " ++ [27880; 37322]%N ++ runes_of_ascii "
// `tick` ""quote"" 'q'
string roots
    `line1
line2` ,}
    // `tick` ""quote"" 'q'
    packet a1  {  repeat x
`" ++ [28040; 24687; 31867; 22411]%N ++ runes_of_ascii "`,}
    MetaData pack {int rootA	`" ++ [233]%N ++ runes_of_ascii "`	,
repeatCount
    i8i8 , char[]
    a1
    , int16/// triple
zchar // a // b
, int32
    falsey ,/// triple
a1
    matchKey `it's` , }
MetaData  u128 { int8 A
`" ++ [28040; 24687; 31867; 22411]%N ++ runes_of_ascii "`
,
} options{ rootA =	uint8	; u8x	=
'0'
    //
    ;o
= int32  ; MetaDataX = """ ++ [128512]%N ++ runes_of_ascii """ ; Pad = true }
")).
Eval vm_compute in ("<<<M3554>>>" ++ check (runes_of_ascii "packet	// packet A { u8 x, }

  Pad { repeat
    u8	f32a ,	string_

{

    char[ 42
]  // a // b
  As
	,

    repeat

    uint16

    asx ,

    repeat zchar[  65535
]
	a1

    ,} 
,

}

    // trailing space 

  // @lengthOf(
    MetaData	rootA	{ }MetaData _x
	{  char[]

body  ,
f64 // c
  len
	,rootA
	uint8x`
`
    ,  float

f32a

    ,} 
options 
{ metadata =

char
; 
//x

msg_type=
zchar[ 0

]
	;

}
	// " ++ [27880; 37322]%N ++ runes_of_ascii "
")).
Eval vm_compute in ("<<<M923>>>" ++ check (runes_of_ascii "packet As // " ++ [27880; 37322]%N ++ runes_of_ascii "
{ zchar[// trailing space 
3 ] BodyLength ,  @lengthOf( leftPad // a // b
) @tag( 65535 )
    roots // trailing space 
MetaDataX , u32 T
    `tab	here`,	}
    packet
string_{@lengthOf( options1
) A
T  `say ""hi""` ,match BodyLength
    as  As {
[ // c
""abc"" , ""abc"" ]: Header ,
""// no comment"" // trailing space 
:  packetx  ,  }
,  } packet
msg_type { char[]
Z9_ `" ++ [28040; 24687; 31867; 22411]%N ++ runes_of_ascii "`, repeat msg_type trueish , }")).
Eval vm_compute in ("<<<M1341>>>" ++ check (runes_of_ascii "packet // packet A { u8 x, }
len {repeat crc// c
, zchar[
//	t
// packet A { u8 x, }
7
]	roots `" ++ [233]%N ++ runes_of_ascii "`
,u{string_ x_y_z ,
} ,	}	root packet len {falsey
    `a\`,	@rightPad
(' '
)	@rightPad  ( )
// packet A { u8 x, }
// `tick` ""quote"" 'q'
@tag( 007
) repeat float	{ msg_type
    `" ++ [28040; 24687; 31867; 22411]%N ++ runes_of_ascii "`,int8 i8i8 `say ""hi""`
, match
    u128 as crc {
    007
//	t
// @lengthOf(
:tag , } ,char[]  As `it's`
, } ,
    }
")).
Eval vm_compute in ("<<<M1325>>>" ++ check (runes_of_ascii "
MetaData
MetaDataX { zchar[//
42 ] charz`` ,Packet
    stringy	`two words` , u32 // a // b
uint8x
    // packet A { u8 x, }
    ,int chars`
` ,	f32 metadata ,
    char[]
    string_
    ,} packet roots
{ char[
    7
    ]
    leftPad
    ,	@tag( 1 )uint8x@calculatedFrom( ""`tick`"" ) ,@lengthOf(x )lengthOf { repeat
    // " ++ [27880; 37322]%N ++ runes_of_ascii "
    uint8x  u, char
zchar , zchar[ 10
] tag
, }
,}")).
Eval vm_compute in ("<<<M347>>>" ++ check (runes_of_ascii "MetaData packetx {
// `tick` ""quote"" 'q'
// `tick` ""quote"" 'q'
float64 _x , msg_type calculatedFrom // a // b
`say ""hi""`  , metadata Foo `a\` ,falsey asx `two words` , char[	4294967296 ]calculatedFrom ,
int32 options1 , }options {
crc
    =
    '\x00' ;
charz = ""it's"" ; BodyLength =
    ""\" ++ [233]%N ++ runes_of_ascii """ body =//
int8
    ; }
MetaData len{
    char[ 42 ] Logon`tab	here`,	}")).
Eval vm_compute in ("<<<M556>>>" ++ check (runes_of_ascii "packet len { i8
    Pad @calculatedFrom( ""abc""
)
, } packet BodyLength{ repeat matchKey , @calculatedFrom(""1"" )
    repeat uint32
    // @lengthOf(
    f32a
`two words`, MetaDataX , zchar[0123456789
    ] options1 @lengthOf( // c
i8i8 ) `" ++ [233]%N ++ runes_of_ascii "` , @calculatedFrom(
""" ++ [28040; 24687]%N ++ runes_of_ascii """ ) match u8x as _x	{
//	t
// packet A { u8 x, }
""\" ++ [233]%N ++ runes_of_ascii """ :string_  ,
10 :  Z9_, } , }
")).
Eval vm_compute in ("<<<M4475>>>" ++ check (runes_of_ascii "
root	packet
    As
{match 
pack	as body {  [3	,
    ""\" ++ [233]%N ++ runes_of_ascii """

,  255
	, 007,00
    // trailing space 
	//	t
,  007
]

: Pad , } 
	    //x

	,
    @lengthOf( charz )
@rightPad ('0'
)

    @calculatedFrom(
    ""1""
	)repeatCount 
BodyLength  , @rightPad	( '\x00'	) zchar[	00  ] 
string_ 
`" ++ [28040; 24687; 31867; 22411]%N ++ runes_of_ascii "`
,crc@lengthOf(

    msg_type

),//x
} ")).
Eval vm_compute in ("<<<M712>>>" ++ check (runes_of_ascii "
packet Foo
    { @lengthOf( metadata) // " ++ [128512]%N ++ runes_of_ascii " emoji
repeat len {
matchKey lengthOf
,
repeat body { int8 Header	, zchar @lengthOf( x) , }
// " ++ [128512]%N ++ runes_of_ascii " emoji
// @lengthOf(
, }
    //
    ,
    char[
4294967296
]
    _x
, } MetaData T{repeatCount
    trueish,
    char[65535  ]  Pad `" ++ [233]%N ++ runes_of_ascii "` , }
options {
}
options {
u8x
=
    ""1"" ;}
")).
Eval vm_compute in ("<<<M3911>>>" ++ check (runes_of_ascii "packet zchar {
    stringy @lengthOf(MetaDataX) `it's`,
    @tag(1)
    match Z9_ as calculatedFrom {
        """ ++ [28040; 24687]%N ++ runes_of_ascii """ : Header,
        0123456789 : asx,
        [255] : rootA,
        ""\n"" : zchar,
    },
    repeat float64 rootA,
    char[] repeatCount,
    repeat int32 metadata `" ++ [233]%N ++ runes_of_ascii "`,
    repeat char[7] u8x,
}")).
Eval vm_compute in ("<<<M3769>>>" ++ check (runes_of_ascii "packet T
{ match
Packet as 
// c
		// " ++ [27880; 37322]%N ++ runes_of_ascii "
Header

    {
42 : 
BodyLength
,  ""// no comment"" 

// `tick` ""quote"" 'q'
	  // packet A { u8 x, }
  	:
    matchKey
""`tick`""
	:
	crc

,

    [

1
	] :o
,

}
,
}// " ++ [128512]%N ++ runes_of_ascii " emoji
    	packet
    As {
} options	{

    u128

= //x

' ' body

=	char[]	}

")).
Eval vm_compute in ("<<<M1422>>>" ++ check (runes_of_ascii "root packet char[] // " ++ [128512]%N ++ runes_of_ascii " emoji
{ } options {
    // a // b
    tag // `tick` ""quote"" 'q'
= //	t
""""
    ; u8x = zchar[0  ] }
MetaData
    int {zchar[ 10]
lengthOf	`` , i64 u8x`// not a comment` ,MetaDataX pack// `tick` ""quote"" 'q'
`crlf
line`
, Logon charz `crlf
line`
    ,
    // a // b
    }
")).
Eval vm_compute in ("<<<M1595>>>" ++ check (runes_of_ascii "root packet Foo // " ++ [128512]%N ++ runes_of_ascii " emoji
{ } options {
    // a // b
    tag // `tick` ""quote"" 'q'
= //	t
""""
    ; u8x = zchar[0  ] }
MetaData
    int {zchar[ 10]
lengthOf	`` , i64 u8x`// not a comment` ,MetaDataX pack// `tick` ""quote"" 'q'
`crlf
line`
, Logon charz `crlf
line`
    , ,
    // a // b
    }
")).
Eval vm_compute in ("<<<M1451>>>" ++ check (runes_of_ascii "root packet Foo // " ++ [128512]%N ++ runes_of_ascii " emoji
{ } options {
    // a // b
    tag // `tick` ""quote"" 'q'
"""" //	t
=
    ; u8x = zchar[0  ] }
MetaData
    int {zchar[ 10]
lengthOf	`` , i64 u8x`// not a comment` ,MetaDataX pack// `tick` ""quote"" 'q'
`crlf
line`
, Logon charz `crlf
line`
    ,
    // a // b
    }
")).
Eval vm_compute in ("<<<M43>>>" ++ check (runes_of_ascii "MetaData Foo
    {
    chars i8i8 ,  }MetaData
// trailing space 
// " ++ [27880; 37322]%N ++ runes_of_ascii "
BodyLength{calculatedFrom a1 `it's`
,
} packet Z9_ //	t
{ @calculatedFrom(
    """ ++ [128512]%N ++ runes_of_ascii """ ) @lengthOf( metadata )
    string a1
    /// triple
    `{ , }` ,
    match
u8x as o { 10
:  Foo // @lengthOf(
, ""abc"" : falsey},
}
")).
Eval vm_compute in ("<<<M1444>>>" ++ check (runes_of_ascii "root packet Foo // " ++ [128512]%N ++ runes_of_ascii " emoji
{ } options {
    // a // b
     // `tick` ""quote"" 'q'
= //	t
""""
    ; u8x = zchar[0  ] }
MetaData
    int {zchar[ 10]
lengthOf	`` , i64 u8x`// not a comment` ,MetaDataX pack// `tick` ""quote"" 'q'
`crlf
line`
, Logon charz `crlf
line`
    ,
    // a // b
    }
")).
Eval vm_compute in ("<<<M389>>>" ++ check (runes_of_ascii "MetaData int
{ //x
u8x
float , zchar[3 ] body	`" ++ [28040; 24687; 31867; 22411]%N ++ runes_of_ascii "`, Z9_ leftPad // c
, f32a
    msg_type , i64_ // " ++ [27880; 37322]%N ++ runes_of_ascii "
chars, u8x	o,
    // packet A { u8 x, }
    } options{ Z9_
    // packet A { u8 x, }
    = false ;
MetaDataX = // packet A { u8 x, }
'\x00' ; f32a=
    """ ++ [28040; 24687]%N ++ runes_of_ascii """
; x_y_z = ' ';}

")).
Eval vm_compute in ("<<<M1247>>>" ++ check (runes_of_ascii "packet As{ @calculatedFrom(
""1"" // c
)x_y_z f32a ,//	t
repeat Packet, @leftPad
( ' ' )float64
msg_type @calculatedFrom(  ""it's"") `
`
,@lengthOf(/// triple
i64_ ) // " ++ [128512]%N ++ runes_of_ascii " emoji
trueish @lengthOf( charz )
    ,
    // trailing space 
    @rightPad ( '0' //x
)
Z9_ `" ++ [233]%N ++ runes_of_ascii "`
,
} // c")).
Eval vm_compute in ("<<<M949>>>" ++ check (runes_of_ascii "options
    { } packet repeatCount { Foo // " ++ [128512]%N ++ runes_of_ascii " emoji
T ,_x `// not a comment` , @calculatedFrom(//	t
""x y""  ) repeat
    float32 uint8x `doc` ,char
msg_type
@lengthOf( // " ++ [27880; 37322]%N ++ runes_of_ascii "
stringy ) , @lengthOf( int) repeat float `two words`, }MetaData u8x
// " ++ [27880; 37322]%N ++ runes_of_ascii "
// a // b
{	}")).
Eval vm_compute in ("<<<M664>>>" ++ check (runes_of_ascii "MetaData i64_ {
char[
255 ]tag
    //
    , uint32 Z9_ , T options1 `a\` ,
    options1 Pad  , f32
leftPad `line1
line2` ,
}
options {	}
    root
    packet uint8x { // `tick` ""quote"" 'q'
@lengthOf(float) falsey int `
`, } MetaData A { u8 Packet ,}")).
Eval vm_compute in ("<<<M800>>>" ++ check (runes_of_ascii "root
    //	t
    packet Logon //
{ @tag(0123456789 )	@leftPad (' '
) Packet{
o @calculatedFrom(""a	b""
    )  `tab	here`
    , },
    repeat leftPad i8i8`line1
line2` , i64 calculatedFrom , float32 stringy @calculatedFrom(
""`tick`"" )	, }

")).
Eval vm_compute in ("<<<M1044>>>" ++ check (runes_of_ascii "
options{ len //
= false // " ++ [128512]%N ++ runes_of_ascii " emoji
}	options
    { leftPad =
""`tick`"" ;repeatCount
= char[// " ++ [128512]%N ++ runes_of_ascii " emoji
4294967296
// c
// trailing space 
]chars = ""`tick`""}packet trueish{ u16  crc,
@tag( 0123456789 ) string trueish `crlf
line` , }")).
Eval vm_compute in ("<<<M2389>>>" ++ check (runes_of_ascii "MetaData Packet { @lengthOf}packet	asx  { @lengthOf( asx) falsey`crlf
line`
,
    }
    packet x	{uint32// @lengthOf(
rootA	,u32 options1 `say ""hi""` , @tag( 7
    )// packet A { u8 x, }
msg_type @lengthOf(
stringy	)	, }

")).
Eval vm_compute in ("<<<M3620>>>" ++ check (runes_of_ascii "// top
packet B {
    // c2
    u8 a,
}// c6a

// c6b
root packet P {
    // c10
    u8 K,// c13
    u8 L @lengthOf(Body),// c19
    match K as Body {
        // c24a
        // c24b
        1 : B,
    },// c30
}// c31a")).
Eval vm_compute in ("<<<M2336>>>" ++ check (runes_of_ascii "MetaData Packet { }packet	asx  { @lengthOf( asx) falsey`crlf
line`
,
    }
    packet x	{uint32// @lengthOf(
rootA	,u32 options1 `say ""hi""` , @tag( 7 7
    )// packet A { u8 x, }
msg_type @lengthOf(
stringy	)	, }

")).
Eval vm_compute in ("<<<M2237>>>" ++ check (runes_of_ascii "MetaData Packet { }packet	{  asx @lengthOf( asx) falsey`crlf
line`
,
    }
    packet x	{uint32// @lengthOf(
rootA	,u32 options1 `say ""hi""` , @tag( 7
    )// packet A { u8 x, }
msg_type @lengthOf(
stringy	)	, }

")).
Eval vm_compute in ("<<<M2233>>>" ++ check (runes_of_ascii "MetaData Packet { }@tag(	asx  { @lengthOf( asx) falsey`crlf
line`
,
    }
    packet x	{uint32// @lengthOf(
rootA	,u32 options1 `say ""hi""` , @tag( 7
    )// packet A { u8 x, }
msg_type @lengthOf(
stringy	)	, }

")).
Eval vm_compute in ("<<<M2358>>>" ++ check (runes_of_ascii "MetaData Packet { }packet	asx  { @lengthOf( asx) falsey`crlf
line`
,
    }
    packet x	{uint32// @lengthOf(
rootA	,u32 options1 `say ""hi""` , @tag( 7
    )// packet A { u8 x, }
msg_type @lengthOf(
u64	)	, }

")).
Eval vm_compute in ("<<<M2315>>>" ++ check (runes_of_ascii "MetaData Packet { }packet	asx  { @lengthOf( asx) falsey`crlf
line`
,
    }
    packet x	{uint32// @lengthOf(
rootA	,u32  `say ""hi""` , @tag( 7
    )// packet A { u8 x, }
msg_type @lengthOf(
stringy	)	, }

")).
Eval vm_compute in ("<<<M3481>>>" ++ check (runes_of_ascii "packet orderItem
    // c1
{ // c2
u8 // c3a
  // c3b
a
    // c4
,
    // c5
} root packet // c8
newOrder // c9a
  // c9b
{
    // c10
orderItem // c11a
  // c11b
, // c12
u8
    // c13
x // c14
, } ")).
Eval vm_compute in ("<<<M3751>>>" ++ check (runes_of_ascii "root packet int {
    trueish @calculatedFrom(""it's"") `doc`,
    string T `crlf
        line`,
    repeat rootA {
        match chars as tag {
            [""" ++ [233]%N ++ runes_of_ascii "t" ++ [233]%N ++ runes_of_ascii """] : uint8x,
        },
    },
}")).
Eval vm_compute in ("<<<M3486>>>" ++ check (runes_of_ascii "options {
    FixedStringPadChar = '0';
}
packet Q {
    zchar[4] z,
    @rightPad('\x00') char[3] n,
    char[5] d,
}
root packet R {
    Q,
    zchar[8] top,
    repeat zchar[2] zs,
}
")).
Eval vm_compute in ("<<<M638>>>" ++ check (runes_of_ascii "options /// triple
{ T= //
""" ++ [128512]%N ++ runes_of_ascii """ ;
    o= '\x00'As =
    '\x00' //	t
tag	= // a // b
""1""
}
    root packet MetaDataX	{ @rightPad ('0' ) _x
`// not a comment`	, /// triple
}")).
Eval vm_compute in ("<<<M483>>>" ++ check (runes_of_ascii "options  { // packet A { u8 x, }
options1
    = ""\" ++ [233]%N ++ runes_of_ascii """ ;
    A=
    false /// triple
;
    matchKey =""\" ++ [233]%N ++ runes_of_ascii """	packetx= ' ' ;
//
// packet A { u8 x, }
options1 =
    ' ' ; }
")).
Eval vm_compute in ("<<<M1543>>>" ++ check (runes_of_ascii "root packet Foo // " ++ [128512]%N ++ runes_of_ascii " emoji
{ } options {
    // a // b
    tag // `tick` ""quote"" 'q'
= //	t
""""
    ; u8x = zchar[0  ] }
MetaData
    int {zchar[ 10]
lengthOf	`` ,")).
Eval vm_compute in ("<<<M185>>>" ++ check (runes_of_ascii "options {  Logon =
    ""{,}"" } //	t
MetaData leftPad { i8 zchar `// not a comment`, } MetaData len
    {char[] u128	,} // " ++ [27880; 37322]%N ++ runes_of_ascii "
root
    packet Pad
{
    }")).
Eval vm_compute in ("<<<M3438>>>" ++ check (runes_of_ascii "packet
    B
{u8 a
    ,  }	root packet

    P{ u8

    K

    ,
	u64

    L@lengthOf(	Body
)  ,  match 
K
	as
    Body {	1 
:
B 
, 
},}
")).
Eval vm_compute in ("<<<M2334>>>" ++ check (runes_of_ascii "MetaData Packet { }packet	asx  { @lengthOf( asx) falsey`crlf
line`
,
    }
    packet x	{uint32// @lengthOf(
rootA	,u32 options1 `say ""hi""` ,")).
Eval vm_compute in ("<<<M1680>>>" ++ check (runes_of_ascii "root packet /// triple
rootA {	i32
MetaDataX@calculatedFrom( ""CRC32"" ) `line1
line2` , @lengthOf( MetaData BodyLength {
u8
rootA, } // c")).
Eval vm_compute in ("<<<M1703>>>" ++ check (runes_of_ascii "root packet /// triple
rootA {	i32
MetaDataX@calculatedFrom( ""CRC32"" ) `line1
line2` , } MetaData BodyLength {
u8
rootA rootA, } // c")).
Eval vm_compute in ("<<<M1723>>>" ++ check (runes_of_ascii "root '1'packet /// triple
rootA {	i32
MetaDataX@calculatedFrom( ""CRC32"" ) `line1
line2` , } MetaData BodyLength {
u8
rootA, } // c")).
Eval vm_compute in ("<<<M1732>>>" ++ check (runes_of_ascii "root packet /// triple
rootA {	i32
MetaDataX@calculatedFrom( ""CRC32"" ) `line1
line2` , } MetaD%ata BodyLength {
u8
rootA, } // c")).
Eval vm_compute in ("<<<M1662>>>" ++ check (runes_of_ascii "root packet /// triple
rootA {	i32
MetaDataX@calculatedFrom( ""CRC32""  `line1
line2` , } MetaData BodyLength {
u8
rootA, } // c")).
Eval vm_compute in ("<<<M1705>>>" ++ check (runes_of_ascii "root packet /// triple
rootA {	i32
MetaDataX@calculatedFrom( ""CRC32"" ) `line1
line2` , } MetaData BodyLength {
u8
i8, } // c")).
Eval vm_compute in ("<<<M3479>>>" ++ check (runes_of_ascii "packet

    order_item 
{
	u8	a  ,	}
root 
packet
    new_order

    {

    order_item

    ,

    u8 x ,
    }

")).
Eval vm_compute in ("<<<M1682>>>" ++ check (runes_of_ascii "root packet /// triple
rootA {	i32
MetaDataX@calculatedFrom( ""CRC32"" ) `line1
line2` , }  BodyLength {
u8
rootA, } // c")).
Eval vm_compute in ("<<<M4066>>>" ++ check (runes_of_ascii "packet
	charz

{  // trailing space 
@tag(255  )

    @calculatedFrom(

""packet""
)  u32
repeatCount

    ,// c
  }")).
Eval vm_compute in ("<<<M1813>>>" ++ check (runes_of_ascii "packet
    Pad // a // b
{ i8i8 @calculatedFrom( ""a	b""[ `u8 x,` ,
} options{ float// " ++ [128512]%N ++ runes_of_ascii " emoji
= f64 i64_
=//	t
00 }
")).
Eval vm_compute in ("<<<M2992>>>" ++ check (runes_of_ascii "packet A {
  match k as n {
    [""a"", ""bb"", ""c c"", ""d"", ""e"", ""f"", ""g"", ""h"", ""i"", ""j"", ""k"", ""l""] : B
    2 : C
  },
}")).
Eval vm_compute in ("<<<M4143>>>" ++ check (runes_of_ascii "
packet 
A
	{ match	k 
as
n
{
[
1
    ,  22
,

""c c"",  4
	,
    5
, ""f"", 7  ,
8 ] :
B ,
2
	:

C
    }
    , }
")).
Eval vm_compute in ("<<<M3557>>>" ++ check (runes_of_ascii "
// @lengthOf(

	packet o/// triple
{
    string 
pack	,// packet A { u8 x, }
		trueish  `" ++ [233]%N ++ runes_of_ascii "` ,

}  /// triple")).
Eval vm_compute in ("<<<M3004>>>" ++ check (runes_of_ascii "packet A {
    u16 len @lengthOf(body) `a
b`,
    u32 crc @calculatedFrom(""CRC32"") `a
b`,
    string body,
}")).
Eval vm_compute in ("<<<M901>>>" ++ check (runes_of_ascii "
MetaData x{
a1 // c
repeatCount // packet A { u8 x, }
`" ++ [233]%N ++ runes_of_ascii "` , u64 falsey //	t
`" ++ [233]%N ++ runes_of_ascii "` ,  i64_ matchKey , }
")).
Eval vm_compute in ("<<<M3351>>>" ++ check (runes_of_ascii "packet calculatedFrom { @tag( 4294967296 ) u // c
msg_type , char[ 3 ] crc @lengthOf( len ) `u8 x,` , }")).
Eval vm_compute in ("<<<M2952>>>" ++ check (runes_of_ascii "packet A {
  match k as n {
    [""a"", ""bb"", ""c c"", ""d"", ""e"", ""f"", ""g"", ""h"", ""i""] : B,
    2 : C
  },
}")).
Eval vm_compute in ("<<<M854>>>" ++ check (runes_of_ascii "
options{ x = ' '
    }
packet
//	t
//x
matchKey
    { zchar[ 7 ]o  @calculatedFrom(""it's"" ) ,
}
")).
Eval vm_compute in ("<<<M3442>>>" ++ check (runes_of_ascii "packet B {
    u8 a,
    string s,
}
root packet P {
    u16 L @lengthOf(B),
    B,
    u8 t,
}
")).
Eval vm_compute in ("<<<M3233>>>" ++ check (runes_of_ascii "packet Logon { @tag( 42 ) @rightPad ( ' '
// c
) @leftPad ( ) repeat trueish { string T , } , }")).
Eval vm_compute in ("<<<M1375>>>" ++ check (runes_of_ascii "options	{
    repeatCount='0'
    roots =
""\" ++ [233]%N ++ runes_of_ascii """  ;int =
f64
Packet =
'\x00' ;
Z9_ = ""a\""b"" ; }")).
Eval vm_compute in ("<<<M1987>>>" ++ check (runes_of_ascii "root
packet crc
    { f32a @calculatedFrom( """ ++ [233]%N ++ runes_of_ascii "t" ++ [233]%N ++ runes_of_ascii """ """ ++ [233]%N ++ runes_of_ascii "t" ++ [233]%N ++ runes_of_ascii """ )
    `say ""hi""`, lengthOf `` ,  }")).
Eval vm_compute in ("<<<M2963>>>" ++ check (runes_of_ascii "packet A {
  match k as n {
    [1, 22, 007, 4, 5, 66, 7, 8, 9, 10] : B,
    2 : C
  },
}")).
Eval vm_compute in ("<<<M4116>>>" ++ check (runes_of_ascii "MetaData Packet {
}

packet asx {
    @lengthOf(asx)
    falsey `crlf
        line`,
}")).
Eval vm_compute in ("<<<M1998>>>" ++ check (runes_of_ascii "root
packet crc
    { f32a @calculatedFrom( """ ++ [233]%N ++ runes_of_ascii "t" ++ [233]%N ++ runes_of_ascii """ )
    ,`say ""hi""` lengthOf `` ,  }")).
Eval vm_compute in ("<<<M1233>>>" ++ check (runes_of_ascii "
MetaData
    u128 {
a1 Header , u
i64_,
    char[]
    Logon ,
    int64 crc , }
")).
Eval vm_compute in ("<<<M2938>>>" ++ check (runes_of_ascii "packet A {
  match k as n {
    [1, 22, 007, 4, 5, 66, 7, 8] : B
    2 : C
  },
}")).
Eval vm_compute in ("<<<M3324>>>" ++ check (runes_of_ascii "packet o { @tag( 42 ) repeat x { char[ 0123456789 ] i64_ , } , // c
} options { }")).
Eval vm_compute in ("<<<M1250>>>" ++ check (runes_of_ascii "
options
    // " ++ [128512]%N ++ runes_of_ascii " emoji
    {
lengthOf =
    f64 ;body=
    true ; } // a // b")).
Eval vm_compute in ("<<<M677>>>" ++ check (runes_of_ascii "options {
leftPad = string u128  =
    ""abc""
uint8x = """ ++ [128512]%N ++ runes_of_ascii """Z9_ = 0123456789}
")).
Eval vm_compute in ("<<<M2172>>>" ++ check (runes_of_ascii "root
    // `tick` ""quote"" 'q'
    packet As { trueish trueish Packet , }
")).
Eval vm_compute in ("<<<M146>>>" ++ check (runes_of_ascii "// `tick` ""quote"" 'q'
options { leftPad =float32
} root
packet o
{ }
")).
Eval vm_compute in ("<<<M3396>>>" ++ check (runes_of_ascii "MetaData
// c
_x { zchar[ 4294967296 ] lengthOf `// not a comment` , }")).
Eval vm_compute in ("<<<M3877>>>" ++ check (runes_of_ascii "root packet crc {
    f32a @calculatedFrom(""" ++ [233]%N ++ runes_of_ascii "t" ++ [233]%N ++ runes_of_ascii """),
    lengthOf ``,
}")).
Eval vm_compute in ("<<<M2005>>>" ++ check (runes_of_ascii "root
packet crc
    { f32a @calculatedFrom( """ ++ [233]%N ++ runes_of_ascii "t" ++ [233]%N ++ runes_of_ascii """ )
    `say ""hi""`")).
Eval vm_compute in ("<<<M2936>>>" ++ check (runes_of_ascii "packet A { Inner { match k as n { [1,22,007,4,5,66,7] : B, }, }, }")).
Eval vm_compute in ("<<<M3268>>>" ++ check (runes_of_ascii "options { // c1
u8x // c2a
  // c2b
= // c3a
  // c3b
3 } // c5
")).
Eval vm_compute in ("<<<M214>>>" ++ check (runes_of_ascii "
MetaData string_ {Header
    roots ,} MetaData
MetaDataX	{ }")).
Eval vm_compute in ("<<<M3931>>>" ++ check (runes_of_ascii "MetaData
	repeatCount 
{T
matchKey  ,float

    Packet ,
}")).
Eval vm_compute in ("<<<M4452>>>" ++ check (runes_of_ascii "root packet  P  {

repeat	string ss	, repeat
u16	ns
, }

")).
Eval vm_compute in ("<<<M1951>>>" ++ check (runes_of_ascii "
packet	As { @calculatedFrom(//x
""{,}""	)lengthOf , } 	 " ++ [8232]%N)).
Eval vm_compute in ("<<<M1920>>>" ++ check (runes_of_ascii "
packet	As { @calculatedFrom(//x
""{,}""	lengthOf , } 	 ")).
Eval vm_compute in ("<<<M475>>>" ++ check (runes_of_ascii "packet i64_{@calculatedFrom( ""\" ++ [233]%N ++ runes_of_ascii """
    )u16 a1
, }
")).
Eval vm_compute in ("<<<M4013>>>" ++ check (runes_of_ascii "
MetaData matchKey{	Packet  As//	t
      `" ++ [233]%N ++ runes_of_ascii "` 
,} ")).
Eval vm_compute in ("<<<M2416>>>" ++ check (runes_of_ascii "A MetaData
{
i64
chars	, } // `tick` ""quote"" 'q'")).
Eval vm_compute in ("<<<M3379>>>" ++ check (runes_of_ascii "// top
packet
    // c0
lengthOf {
    // c2
} ")).
Eval vm_compute in ("<<<M2139>>>" ++ check (runes_of_ascii "'\x01' MetaData x
{// " ++ [128512]%N ++ runes_of_ascii " emoji
i16 stringy , }")).
Eval vm_compute in ("<<<M1603>>>" ++ check (runes_of_ascii "root packet Foo // " ++ [128512]%N ++ runes_of_ascii " emoji
{ } options {
  ")).
Eval vm_compute in ("<<<M76>>>" ++ check (runes_of_ascii "options { repeatCount= 00 ; }
// " ++ [128512]%N ++ runes_of_ascii " emoji
")).
Eval vm_compute in ("<<<M1755>>>" ++ check (runes_of_ascii "options { }as {  } // `tick` ""quote"" 'q'")).
Eval vm_compute in ("<<<M3202>>>" ++ check (runes_of_ascii "MetaData zchar { zchar[ 3 ] Pad // c
, }")).
Eval vm_compute in ("<<<M980>>>" ++ check (runes_of_ascii "options
// a // b
// @lengthOf(
{ } 	 ")).
Eval vm_compute in ("<<<M2105>>>" ++ check (runes_of_ascii "MetaData 
{// " ++ [128512]%N ++ runes_of_ascii " emoji
i16 stringy , }")).
Eval vm_compute in ("<<<M3153>>>" ++ check (runes_of_ascii "options { a = 1 // c b = 2; // d}")).
Eval vm_compute in ("<<<M2618>>>" ++ check (runes_of_ascii "packet A { @tag(1) @tag(2) u8 x, }")).
Eval vm_compute in ("<<<M2563>>>" ++ check (runes_of_ascii "packet A { repeat repeat u8 x, }")).
Eval vm_compute in ("<<<M4413>>>" ++ check (runes_of_ascii "packet A {
    u8 x `x
    `,
}")).
Eval vm_compute in ("<<<M3133>>>" ++ check (runes_of_ascii "packet A {
 u8 x `d" ++ [8203]%N ++ runes_of_ascii "`, // c" ++ [8203]%N ++ runes_of_ascii "
}")).
Eval vm_compute in ("<<<M2074>>>" ++ check (runes_of_ascii "MetaData A { u64 pack char }")).
Eval vm_compute in ("<<<M2837>>>" ++ check (runes_of_ascii "O" ++ [65533; 8; 1374; 65533; 65533; 65533]%N ++ runes_of_ascii "w" ++ [65533]%N ++ runes_of_ascii "I" ++ [65533; 65533; 65533; 65533]%N ++ runes_of_ascii "`1" ++ [65533]%N ++ runes_of_ascii "+" ++ [65533]%N ++ runes_of_ascii ">" ++ [65533; 1492; 23; 65533]%N ++ runes_of_ascii "<q" ++ [65533]%N)).
Eval vm_compute in ("<<<M4061>>>" ++ check (runes_of_ascii "
MetaData
float	{
    } ")).
Eval vm_compute in ("<<<M3747>>>" ++ check (runes_of_ascii "packet
A{

    } // c" ++ [8239]%N ++ runes_of_ascii "
")).
Eval vm_compute in ("<<<M3279>>>" ++ check (runes_of_ascii "options { u8x = 3 // c
}")).
Eval vm_compute in ("<<<M23>>>" ++ check (runes_of_ascii "packet BodyLength { }
")).
Eval vm_compute in ("<<<M1390>>>" ++ check (runes_of_ascii "MetaData
Header	{  }
")).
Eval vm_compute in ("<<<M2642>>>" ++ check (runes_of_ascii "MetaData M { u8 x, }")).
Eval vm_compute in ("<<<M3126>>>" ++ check (runes_of_ascii "packet A {
}
// c 	")).
Eval vm_compute in ("<<<M3076>>>" ++ check (runes_of_ascii "packet A {
}
// c" ++ [133]%N)).
Eval vm_compute in ("<<<M37>>>" ++ check (runes_of_ascii "MetaData charz{ }")).
Eval vm_compute in ("<<<M3119>>>" ++ check (runes_of_ascii "packet A {
}// c" ++ [12]%N)).
Eval vm_compute in ("<<<M1428>>>" ++ check (runes_of_ascii "root packet Foo")).
Eval vm_compute in ("<<<M755>>>" ++ check (runes_of_ascii "
 // " ++ [128512]%N ++ runes_of_ascii " emoji")).
Eval vm_compute in ("<<<M861>>>" ++ check (runes_of_ascii "// a // b
")).
Eval vm_compute in ("<<<M2481>>>" ++ check (runes_of_ascii "@leftpad")).
Eval vm_compute in ("<<<M2426>>>" ++ check (runes_of_ascii "char [")).
Eval vm_compute in ("<<<M2458>>>" ++ check (runes_of_ascii "roots")).
Eval vm_compute in ("<<<M50>>>" ++ check (runes_of_ascii "//

")).
Eval vm_compute in ("<<<M2436>>>" ++ check (runes_of_ascii "u8x")).
Eval vm_compute in ("<<<M205>>>" ++ check (runes_of_ascii "

")).
Eval vm_compute in ("<<<M2532>>>" ++ check (runes_of_ascii "_")).
