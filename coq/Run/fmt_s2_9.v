From FP Require Import Lexer Parser ShowPT Digest Formatter.
From Coq Require Import String List NArith.
Import ListNotations.
Open Scope string_scope.
Set Printing Width 100000000.
Set Printing Depth 100000000.
Definition show_fres (r : fres) : string :=
  match r with
  | FOk s => "OK:" ++ sh_escaped s ""
  | FErr s => "ERR:" ++ sh_escaped s ""
  | FPanic p => "PANIC:" ++ p
  end.
Definition check (rs : list rune) : string := digest (show_fres (format_res rs)).
Definition full (rs : list rune) : string := show_fres (format_res rs).
Eval vm_compute in ("<<<M1985>>>" ++ check (runes_of_ascii "options {
    BodyLength = string;
    trueish = ""it's""
    i8i8 = ""// no comment""
    // trailing space 
    roots = """ ++ [28040; 24687]%N ++ runes_of_ascii """;// a // b
    falsey = '\x00';
}

packet metadata {
    packetx {
        repeat rootA x_y_z `tab	here`,
        repeat pack,
        Logon {
            u16 msg_type,
            u8 BodyLength `
            `,
            zchar[3] int,
        },
        a1 T,
    },// `tick` ""quote"" 'q'
    repeat f32 o `crlf
    line`,
    i32 rootA,
    int32 matchKey,
    @leftPad()
    x_y_z {
        match body as u8x {
            [""{,}""] : u8x,
            3 : u8x,
            4294967296 : As,
            [""CRC32""] : A,
            255 : body,
            // c
            42 : x_y_z,
        },
    },
    repeat body float,
}// trailing space 

packet trueish {
    stringy @lengthOf(float) `{ , }`,
    repeat i64_,
    uint16 string_ @calculatedFrom(""\" ++ [233]%N ++ runes_of_ascii """) `
    `,// a // b
    @tag(0123456789)
    char[4294967296] calculatedFrom @lengthOf(int) `line1
    line2`,// packet A { u8 x, }
    match rootA as asx {
        ""\" ++ [233]%N ++ runes_of_ascii """ : f32a,
        ""\n"" : rootA,
        [""a\\"", 0123456789] : crc,
        1 : msg_type,
        ""a	b"" : stringy,
    },
    repeat len {
        string_ {
            i16 _x,
            _x {
                repeat uint8x a1,
                char[42] zchar `say ""hi""`,
                zchar[7] uint8x,
            },
            repeat i8i8 body,
        },
        uint8 T @lengthOf(repeatCount),
    },
}

root packet asx {
    @calculatedFrom(""x y"")
    repeat pack,
    repeat string_ {
        u8 metadata,
    },
    @calculatedFrom(""abc"")
    roots @lengthOf(T) ``,
    match asx as uint8x {
        3 : u8x,
    },// trailing space 
    u8x @calculatedFrom(""{,}""),
}

packet o {
    string Logon,
    charz metadata,
    match len as float {
        255 : uint8x,
        ""CRC32"" : As,
        1 : body,
        7 : options1,
        [""" ++ [128512]%N ++ runes_of_ascii """, ""it's""] : repeatCount,
    },
    @leftPad()
    @calculatedFrom(""x y"")
    @leftPad(' ')
    repeat lengthOf,
    zchar[42] Logon @calculatedFrom(""""),
}
//x")).
Eval vm_compute in ("<<<M1708>>>" ++ check (runes_of_ascii "  options

{
StringPrefixLenType	=  u16
    ;
    ArrayPrefixLenType
	=
    u16

    ;

}
packet 
SampleBinary

    { uint16

MsgType
`" ++ [28040; 24687; 31867; 22411]%N ++ runes_of_ascii "`,

    u16 BodyLenght @lengthOf(Body
    ) 
`" ++ [28040; 24687; 20307; 38271; 24230]%N ++ runes_of_ascii "`,
    match

MsgType as Body {
	1:

Logon

,
    2: Logout, 3
:
Heartbeat 
,4

:
	RiskControlRequest ,5 :
RiskControlResponse ,}

    , @calculatedFrom( ""CRC32""
)  u32 Ckecksum
	`" ++ [26657; 39564; 21644]%N ++ runes_of_ascii "`
,  }

packet
    Logon
	{
	@leftPad
    ( '0'
)
	char[	10
]
    UserName `" ++ [29992; 25143; 21517]%N ++ runes_of_ascii "` ,
	string Password
`" ++ [23494; 30721]%N ++ runes_of_ascii "`

    , uint64  ClientId

`" ++ [23458; 25143; 31471]%N ++ runes_of_ascii "ID` ,	u16
    HeartbeatInterval `" ++ [24515; 36339; 38388; 38548]%N ++ runes_of_ascii "`
    , }  packet 
Logout

{
	@rightPad ( '0' )
char[10 ]

UserName
    `" ++ [29992; 25143; 21517]%N ++ runes_of_ascii "` 
,uint64  ClientId`" ++ [23458; 25143; 31471]%N ++ runes_of_ascii "ID` 
,  }
	packet

Heartbeat
{}

packet
    RiskControlRequest 
{

string

UniqueOrderId
	`" ++ [21807; 19968; 35746; 21333; 21495]%N ++ runes_of_ascii "` 
,	char[16

]  ClOrdID`" ++ [23458; 25143; 35746; 21333; 21495]%N ++ runes_of_ascii "` , char[
3
]
	MarketID
	`" ++ [24066; 22330]%N ++ runes_of_ascii "id` ,char[ 
12

    ]

SecurityID

`" ++ [35777; 21048; 20195; 30721]%N ++ runes_of_ascii "`
    , 
char	Side
	`" ++ [20080; 21334; 26041; 21521]%N ++ runes_of_ascii "`
,

    char
    OrderType `" ++ [35746; 21333; 31867; 22411]%N ++ runes_of_ascii "`, 
u64
Price  `" ++ [20215; 26684]%N ++ runes_of_ascii "`  ,u32
Qty `" ++ [25968; 37327]%N ++ runes_of_ascii "`, repeat

    string

ExtraInfo 
`" ++ [38468; 21152; 20449; 24687]%N ++ runes_of_ascii "` , repeat
SubOrder
{ char[ 
16
    ]
ClOrdID`" ++ [23376; 35746; 21333; 21495]%N ++ runes_of_ascii "`
,
	u64
    Price `" ++ [23376; 35746; 21333; 20215; 26684]%N ++ runes_of_ascii "` ,u32 
Qty `" ++ [23376; 35746; 21333; 25968; 37327]%N ++ runes_of_ascii "`
,

}	,	}
	packet
	RiskControlResponse  {

    string
UniqueOrderId`" ++ [21807; 19968; 35746; 21333; 21495]%N ++ runes_of_ascii "`,i32
    Status
	`" ++ [29366; 24577]%N ++ runes_of_ascii "`,
    string
    Msg
	`" ++ [32467; 26524; 20449; 24687]%N ++ runes_of_ascii "`

    , 
repeat 
Detail,
} packet Detail	{  string RuleName`" ++ [35268; 21017; 21517; 31216]%N ++ runes_of_ascii "`
    ,  u16 Code `" ++ [21407; 22240; 20195; 30721]%N ++ runes_of_ascii "`
,}
")).
Eval vm_compute in ("<<<M1725>>>" ++ check (runes_of_ascii "options {
    u = ""a\""b"";
    Z9_ = ""// no comment"";
    tag = 7
}

root packet As {
}

packet Header {
    @lengthOf(Foo)
    rootA @calculatedFrom(""\" ++ [233]%N ++ runes_of_ascii """),
    @calculatedFrom(""CRC32"")
    float64 crc,
    repeat char[007] Logon,//
    @tag(7)
    //
    // c
    @calculatedFrom(""{,}"")
    @lengthOf(stringy)
    match A as f32a {
        // `tick` ""quote"" 'q'
        [
            ""a\\"", 1, ""CRC32"", 007, ""a	b"",
            ""\" ++ [233]%N ++ runes_of_ascii """
        ] : trueish,
        4294967296 : u8x,
        //
    },
    @tag(255)
    @lengthOf(u8x)
    @calculatedFrom(""x y"")
    pack {
        uint16 uint8x,
    },
    match leftPad as asx {
        ""{,}"" : T,
        007 : _x,
        1 : options1,
        [42, 007] : calculatedFrom,
        """ ++ [233]%N ++ runes_of_ascii "t" ++ [233]%N ++ runes_of_ascii """ : lengthOf,
    },
    u8x {
        int64 charz `line1
                line2`,
    },
    repeat Header BodyLength `
        `,
    @rightPad('\x00')
    @lengthOf(tag)
    match o as uint8x {
        [255] : _x,
        1 : matchKey,
        // " ++ [128512]%N ++ runes_of_ascii " emoji
        //x
        65535 : tag,
        0123456789 : zchar,
        ""a\\"" : metadata,
    },
}")).
Eval vm_compute in ("<<<M1425>>>" ++ check (runes_of_ascii "options { LittleEndian // c2a
  // c2b
= // c3
false ; StringPrefixLenType = u32 ; // c9
ArrayPrefixLenType = // c11
u16
    // c12
;
    // c13
} // c14
packet // c15a
  // c15b
Party {
    // c17
@leftPad
    // c18
(
    // c19
'0' // c20
)
    // c21
char[
    // c22
12
    // c23
] // c24
Ref // c25a
  // c25b
, // c26
repeat // c27
char[ // c28
6 ] // c30a
  // c30b
x
    // c31
,
    // c32
} packet // c34a
  // c34b
Logon // c35
{
    // c36
uint32
    // c37
clOrdID // c38a
  // c38b
, // c39
Party , } // c42a
  // c42b
root // c43a
  // c43b
packet // c44a
  // c44b
Ack
    // c45
{ // c46
zchar[ 2 ] // c49
f1 , u32 // c52
seqNo , // c54a
  // c54b
u32 Side2 // c56a
  // c56b
@lengthOf( // c57
Body // c58a
  // c58b
) ,
    // c60
match seqNo // c62
as
    // c63
Body // c64
{
    // c65
43 // c66
:
    // c67
Logon , // c69
93
    // c70
: // c71
Party
    // c72
,
    // c73
}
    // c74
, // c75
} // c76a
  // c76b
")).
Eval vm_compute in ("<<<M164>>>" ++ check (runes_of_ascii "packet
    Logon
{
    repeat	char
MetaDataX `say ""hi""`,
@lengthOf(
packetx) char[] repeatCount// `tick` ""quote"" 'q'
`doc` , @leftPad (
    '0' )@tag(
7 ) Header@calculatedFrom(
    """" // " ++ [128512]%N ++ runes_of_ascii " emoji
)	,
@lengthOf(
    /// triple
    MetaDataX
) match // trailing space 
x
//
// trailing space 
as Header
// trailing space 
//	t
{ ""x y"" : u8x // trailing space 
,
""" ++ [128512]%N ++ runes_of_ascii """
: /// triple
charz , """ ++ [233]%N ++ runes_of_ascii "t" ++ [233]%N ++ runes_of_ascii """
:// packet A { u8 x, }
_x,[ 3 , // " ++ [27880; 37322]%N ++ runes_of_ascii "
00
    ] :  uint8x , ""it's"" //	t
:// `tick` ""quote"" 'q'
rootA[
    00
    ,  65535//x
] :
    zchar }
    ,@calculatedFrom( ""// no comment"" )int32 i64_,
repeat// " ++ [128512]%N ++ runes_of_ascii " emoji
body {zchar[
    10  ]
BodyLength `line1
line2` , lengthOf Logon
, // @lengthOf(
repeat
    float64	i8i8 ,char[0123456789]leftPad // `tick` ""quote"" 'q'
`
` ,	}
    ,  repeat char[ 255
    //
    ] a1`" ++ [28040; 24687; 31867; 22411]%N ++ runes_of_ascii "`, } 	 ")).
Eval vm_compute in ("<<<M145>>>" ++ check (runes_of_ascii "
packet
// `tick` ""quote"" 'q'
// `tick` ""quote"" 'q'
rootA{ @tag( 3  ) zchar[
00 ] // trailing space 
x_y_z
    `" ++ [28040; 24687; 31867; 22411]%N ++ runes_of_ascii "`  , _x ,
    // a // b
    float64
    A
@lengthOf( //
u8x ) , u8 rootA`line1
line2`	, zchar[ 7
    ] // c
stringy,
match Header as f32a { ""\" ++ [233]%N ++ runes_of_ascii """:	o ,[
    // `tick` ""quote"" 'q'
    4294967296
, 7 ,// c
4294967296
, ""packet"" , ""a	b"" , ""CRC32"" ,	7 ,
""a	b""// trailing space 
]	: // packet A { u8 x, }
repeatCount, ""a\""b"" :
    Header  [""a\""b"" ] :
crc  ,	[  007
,
007, ""abc"" ] :
    metadata, 4294967296 : chars ,
} // " ++ [128512]%N ++ runes_of_ascii " emoji
, @tag( 1 ) i8 matchKey	`a\` ,
// @lengthOf(
// " ++ [128512]%N ++ runes_of_ascii " emoji
@lengthOf(
    body ) tag ,@lengthOf( matchKey
)
    @lengthOf(  o	)  @lengthOf( pack
    ) repeat u {
calculatedFrom @lengthOf( falsey  ), } , }
")).
Eval vm_compute in ("<<<M284>>>" ++ check (runes_of_ascii "packet Pad
{char[ 007] string_ ,// @lengthOf(
@lengthOf( zchar
)string rootA
, @lengthOf(T ) char trueish @lengthOf(
    zchar
) `line1
line2`, repeat f64 calculatedFrom , @calculatedFrom(""it's"" ) leftPad
    `it's`
    , stringy{
int8 Packet @lengthOf( metadata
)
`tab	here`
    ,
A ,
    match charz as uint8x{ 3
:  MetaDataX ,
    1
    :
    //	t
    charz ""a	b""
    :
    //x
    msg_type	,
    //x
    [
0 , 10 , ""// no comment"" ,""\" ++ [233]%N ++ runes_of_ascii """
] : A , // @lengthOf(
""\n"" :
trueish , },	},
    @calculatedFrom( ""a\\"")
char[ 7 ] u @calculatedFrom( ""a\\""),
    //	t
    @tag(	7) o
{	As `it's`	,} ,} packet u	{
}packet stringy {
@tag(0123456789 )string pack @lengthOf( Pad), }")).
Eval vm_compute in ("<<<M259>>>" ++ check (runes_of_ascii "MetaData Header
{
} root	packet chars
    { char[	00
]
MetaDataX `u8 x,` ,repeat Foo stringy // " ++ [128512]%N ++ runes_of_ascii " emoji
, @lengthOf( u8x ) char[] Foo , match  Header as
leftPad { [
""abc"" ,
    255
, """ ++ [128512]%N ++ runes_of_ascii """ , """" ]	:charz
,007
    // packet A { u8 x, }
    : uint8x , 0 :asx , """"
    // " ++ [27880; 37322]%N ++ runes_of_ascii "
    : MetaDataX , } ,	char[]
uint8x , @tag(  1 )
    i8i8{ x Packet `doc`	, zchar[ 4294967296  ] metadata @calculatedFrom(
    ""a\\"" ) `" ++ [233]%N ++ runes_of_ascii "`, zchar[  10]//
crc
    @lengthOf( Foo
    // @lengthOf(
    ) `crlf
line` ,
} ,}	MetaData
msg_type {
    char[] calculatedFrom `line1
line2`,
} // `tick` ""quote"" 'q'")).
Eval vm_compute in ("<<<M1515>>>" ++ check (runes_of_ascii "packet leftPad {
    BodyLength {
        // a // b
        rootA {
            char[00] leftPad,
            // trailing space 
            tag @calculatedFrom(""abc""),
            char[42] len,
            string MetaDataX,
        },
        match Z9_ as A {
            ""1"" : x,
            ""packet"" : lengthOf,
        },
        i64 chars @lengthOf(msg_type) `
                `,
    },
    zchar[3] u128 @lengthOf(packetx),
    @leftPad('\x00')
    char[] chars @calculatedFrom(""`tick`""),
}")).
Eval vm_compute in ("<<<M129>>>" ++ check (runes_of_ascii "root packet options1
{ @lengthOf(	msg_type ) Logon @lengthOf( packetx )`
` , As  {
repeat	T
`
`
    ,float64 Foo	`crlf
line`
//x
// a // b
,repeat repeatCount x_y_z`a\` ,	int8 msg_type
,
    } , // `tick` ""quote"" 'q'
msg_type @lengthOf( body ) , u64 rootA @calculatedFrom(
""" ++ [128512]%N ++ runes_of_ascii """
    ) ,@calculatedFrom(""packet""	) i32
    Header ,	uint32 BodyLength @lengthOf(
trueish //x
)
, @lengthOf(
f32a ) f32
    Z9_ `{ , }`, } // a // b")).
Eval vm_compute in ("<<<M90>>>" ++ check (runes_of_ascii "options{ calculatedFrom
= '0'; }
root
    // " ++ [128512]%N ++ runes_of_ascii " emoji
    packet metadata{i64 float@calculatedFrom( ""1"" )	,	@rightPad ( // trailing space 
) Logon u `crlf
line` , // trailing space 
falsey Packet `line1
line2` , u32	a1  `tab	here`, } // " ++ [128512]%N ++ runes_of_ascii " emoji
options { lengthOf
    // packet A { u8 x, }
    = '\x00'
msg_type =
uint8;repeatCount
    // `tick` ""quote"" 'q'
    =
0123456789 ; } //x")).
Eval vm_compute in ("<<<M1830>>>" ++ check (runes_of_ascii "packet Sub {
    // c2
    u8 a,// c5
    @calculatedFrom(""CRC16"")
    // c8
    i16 SubSum,
}// c12a

// c12b
root packet Frame {
    u16 MsgType,// c19
    u16 BodyLen @lengthOf(Body),// c25a
    // c25b
    Sub Body,// c28
    string note,// c31
    @calculatedFrom(""CRC16"")
    // c34
    i16 Checksum,
    // c37
    u8 tail,// c40
}")).
Eval vm_compute in ("<<<M1200>>>" ++ check (runes_of_ascii "// top
packet // c0
u128 // c1
{ // c2
@lengthOf( // c3
body // c4
) // c5
match // c6
x_y_z // c7
as // c8
u // c9
{ // c10
""x y"" // c11
: // c12
i8i8 // c13
, // c14
} // c15
, // c16
@tag( // c17
255 // c18
) // c19
char[] // c20
roots // c21
@lengthOf( // c22
int // c23
) // c24
, // c25
} // c26
")).
Eval vm_compute in ("<<<M1618>>>" ++ check (runes_of_ascii "

  packet
calculatedFrom{
@lengthOf( 
zchar

    )
char[]// `tick` ""quote"" 'q'
	chars  `line1
line2`
,

string 
Logon

@calculatedFrom( ""it's"") 
,
matchKey
	`say ""hi""`
,@lengthOf(
T
    // c
    ) x_y_z
@calculatedFrom(

""it's"") 
`// not a comment`

    ,
	}")).
Eval vm_compute in ("<<<M1726>>>" ++ check (runes_of_ascii "
//
  	packet
u
    { 
}
packet	u8x
{
    }	options {	Logon=
	string

;
calculatedFrom =
	'\x00'
;
    BodyLength	// " ++ [27880; 37322]%N ++ runes_of_ascii "
    =

1

; //	t

_x // " ++ [27880; 37322]%N ++ runes_of_ascii "

=
    ""CRC32""  ;  }
	root 

/// triple
  // " ++ [27880; 37322]%N ++ runes_of_ascii "
  packet  Z9_  {
	}	MetaData 
chars
    { }

")).
Eval vm_compute in ("<<<M1468>>>" ++ check (runes_of_ascii "packet Sub {
    u8 a,
    u32 SubSum @calculatedFrom(""CRC16""),
}
root packet Frame {
    u16 MsgType,
    u16 BodyLen @lengthOf(Body),
    Sub Body,
    string note,
    u32 Checksum @calculatedFrom(""CRC16""),
    u8 tail,
}
")).
Eval vm_compute in ("<<<M537>>>" ++ check (runes_of_ascii "options
{
matchKey = 42/// triple
x='0' ;
// packet A { u8 x, }
//
charz
=
// packet A { u8 x, }
// trailing space 
true  ; } MetaData BodyLength
{
uint8
pack,zchar[ 1]float ,  float32 x_y_z `` ,u32
_x _x,i16 body  , }
")).
Eval vm_compute in ("<<<M483>>>" ++ check (runes_of_ascii "options
{
matchKey = 42/// triple
x='0' ;
// packet A { u8 x, }
//
charz
=
// packet A { u8 x, }
// trailing space 
true  ; } MetaData BodyLength
{
uint8
pack zchar[, 1]float ,  float32 x_y_z `` ,u32
_x,i16 body  , }
")).
Eval vm_compute in ("<<<M458>>>" ++ check (runes_of_ascii "options
{
matchKey = 42/// triple
x='0' ;
// packet A { u8 x, }
//
charz
=
// packet A { u8 x, }
// trailing space 
true  ; } BodyLength MetaData
{
uint8
pack,zchar[ 1]float ,  float32 x_y_z `` ,u32
_x,i16 body  , }
")).
Eval vm_compute in ("<<<M514>>>" ++ check (runes_of_ascii "options
{
matchKey = 42/// triple
x='0' ;
// packet A { u8 x, }
//
charz
=
// packet A { u8 x, }
// trailing space 
true  ; } MetaData BodyLength
{
uint8
pack,zchar[ 1]float ,  repeat x_y_z `` ,u32
_x,i16 body  , }
")).
Eval vm_compute in ("<<<M251>>>" ++ check (runes_of_ascii "MetaData rootA	{
roots Header ,} root packet chars{ @tag(  1  )
repeat char[] stringy `doc` ,}
    root packet int{ uint8x MetaDataX	, }MetaData Logon {
x_y_z
i64_// @lengthOf(
,Z9_
_x , body crc `say ""hi""`,
}
")).
Eval vm_compute in ("<<<M530>>>" ++ check (runes_of_ascii "options
{
matchKey = 42/// triple
x='0' ;
// packet A { u8 x, }
//
charz
=
// packet A { u8 x, }
// trailing space 
true  ; } MetaData BodyLength
{
uint8
pack,zchar[ 1]float ,  float32 x_y_z ``")).
Eval vm_compute in ("<<<M702>>>" ++ check (runes_of_ascii "// c
packet i64_ {	char[] calculatedFrom , } packet
trueish  {@calculatedFrom(
""a\\"" ) o { i32 falsey@lengthOf( uint8x )char[]
} , } // `tick` ""quote"" 'q'
options {// c
Z9_ = ' '//
}
")).
Eval vm_compute in ("<<<M689>>>" ++ check (runes_of_ascii "// c
packet i64_ {	char[] calculatedFrom , } packet
trueish  {@calculatedFrom(
""a\\"" ) { o i32 falsey@lengthOf( uint8x ),
} , } // `tick` ""quote"" 'q'
options {// c
Z9_ = ' '//
}
")).
Eval vm_compute in ("<<<M680>>>" ++ check (runes_of_ascii "// c
packet i64_ {	 calculatedFrom , } packet
trueish  {@calculatedFrom(
""a\\"" ) o { i32 falsey@lengthOf( uint8x ),
} , } // `tick` ""quote"" 'q'
options {// c
Z9_ = ' '//
}
")).
Eval vm_compute in ("<<<M490>>>" ++ check (runes_of_ascii "options
{
matchKey = 42/// triple
x='0' ;
// packet A { u8 x, }
//
charz
=
// packet A { u8 x, }
// trailing space 
true  ; } MetaData BodyLength
{
uint8
pack,")).
Eval vm_compute in ("<<<M186>>>" ++ check (runes_of_ascii "//	t
MetaData asx { char[]asx , x
_x , } root packet lengthOf{ @tag(
10
)@rightPad ( '0' )
    @rightPad('0' ) // " ++ [128512]%N ++ runes_of_ascii " emoji
u32
BodyLength, //	t
}
")).
Eval vm_compute in ("<<<M1855>>>" ++ check (runes_of_ascii "

  //x
  packet

    uint8x{u8 // packet A { u8 x, }
	roots
`a\`  , match
	len

    as
charz
{ 
[

    3,

""""
] 
:
Z9_
,	}, }
")).
Eval vm_compute in ("<<<M1653>>>" ++ check (runes_of_ascii "
MetaData Logon	{
zchar[

    10
    ]
float  `" ++ [233]%N ++ runes_of_ascii "`  ,BodyLength  Z9_,
float32 o
    `a\`	, uint64 roots `two words`	// " ++ [27880; 37322]%N ++ runes_of_ascii "
  ,
}")).
Eval vm_compute in ("<<<M1393>>>" ++ check (runes_of_ascii "packet

    order_item 
{
	u8	a  ,	}
root 
packet
    new_order

    {

    order_item

    ,

    u8 x ,
    }

")).
Eval vm_compute in ("<<<M612>>>" ++ check (runes_of_ascii "MetaData
    // trailing space 
    matchKey
{ u64 chars // a // b
, ,char[] lengthOf `// not a comment`
    , //	t
}")).
Eval vm_compute in ("<<<M589>>>" ++ check (runes_of_ascii "matchKey
    // trailing space 
    MetaData
{ u64 chars // a // b
,char[] lengthOf `// not a comment`
    , //	t
}")).
Eval vm_compute in ("<<<M658>>>" ++ check (runes_of_ascii "MetaData
    // trailing space 
    matchKey
{ u64 chars // a // b
,char[] caf" ++ [233]%N ++ runes_of_ascii "_1 `// not a comment`
    , //	t
}")).
Eval vm_compute in ("<<<M1731>>>" ++ check (runes_of_ascii "
packet
    A {
    match
k 
as 
n
{	[""a"" , 
""bb""

    ,
	""c c"",  ""d""	,  ""e""

, ""f"" , ""g"" ] : 
B 2 :C 
}, }")).
Eval vm_compute in ("<<<M217>>>" ++ check (runes_of_ascii "packet i8i8  { lengthOf lengthOf
    `u8 x,`
, }options{u =
'\x00'; } MetaData i64_ {
}MetaData Header {}")).
Eval vm_compute in ("<<<M1257>>>" ++ check (runes_of_ascii "packet calculatedFrom { // c
@tag( 4294967296 ) u msg_type , char[ 3 ] crc @lengthOf( len ) `u8 x,` , }")).
Eval vm_compute in ("<<<M1364>>>" ++ check (runes_of_ascii "
options{

    FixedStringPadFromLeft

=

    true

; } root
	packet 
P{
    char[4
]z 
,

    } ")).
Eval vm_compute in ("<<<M1665>>>" ++ check (runes_of_ascii "MetaData metadata {
    leftPad i64_,
    // " ++ [128512]%N ++ runes_of_ascii " emoji
    u8 stringy `
    `,
    char[] trueish,
}")).
Eval vm_compute in ("<<<M1135>>>" ++ check (runes_of_ascii "packet Logon {
// c
@tag( 42 ) @rightPad ( ' ' ) @leftPad ( ) repeat trueish { string T , } , }")).
Eval vm_compute in ("<<<M1167>>>" ++ check (runes_of_ascii "packet Logon { @tag( 42 ) @rightPad ( ' ' ) @leftPad ( ) repeat trueish { string T ,
// c
} , }")).
Eval vm_compute in ("<<<M869>>>" ++ check (runes_of_ascii "packet A {
  match k as n {
    [1, ""bb"", 007, ""d"", 5, ""f"", 7, ""h"", 9] : B
    2 : C
  },
}")).
Eval vm_compute in ("<<<M1987>>>" ++ check (runes_of_ascii "
packet A

{match
    k

    as 
n
{
[
1
,  22	,  ""c c""  ]
    : B , 2 
:

C
}

, }
")).
Eval vm_compute in ("<<<M836>>>" ++ check (runes_of_ascii "packet A {
  match k as n {
    [""a"", ""bb"", 007, ""d"", ""e"", 66] : B
    2 : C
  },
}")).
Eval vm_compute in ("<<<M1218>>>" ++ check (runes_of_ascii "packet o { @tag( 42 ) // c
repeat x { char[ 0123456789 ] i64_ , } , } options { }")).
Eval vm_compute in ("<<<M1814>>>" ++ check (runes_of_ascii "MetaData matchKey {
    u64 chars,
    char[] lengthOf `// not a comment`,//	t" ++ [8232]%N ++ runes_of_ascii "
}")).
Eval vm_compute in ("<<<M1704>>>" ++ check (runes_of_ascii "  packet A{
	match 
k as

n {[
	""a""
,  ""bb""	,

    007]
	:	B
	2:
C  }  ,
}
")).
Eval vm_compute in ("<<<M1715>>>" ++ check (runes_of_ascii "packet A {
    match k as n {
        [1, 22] : B,
        2 : C,
    },
}")).
Eval vm_compute in ("<<<M1709>>>" ++ check (runes_of_ascii "// c
MetaData _x {
    zchar[4294967296] lengthOf `// not a comment`,
}")).
Eval vm_compute in ("<<<M1372>>>" ++ check (runes_of_ascii "root packet P {
    u16 a,
    u32 Sum @calculatedFrom(""CR\
C32""),
}
")).
Eval vm_compute in ("<<<M780>>>" ++ check (runes_of_ascii "packet A {
  match k as n {
    [""a"", ""bb""] : B
    2 : C
  },
}")).
Eval vm_compute in ("<<<M774>>>" ++ check (runes_of_ascii "packet A {
  match k as n {
    [""a""] : B,
    2 : C
  },
}")).
Eval vm_compute in ("<<<M1949>>>" ++ check (runes_of_ascii "MetaData trueish {
    char[] chars,
    char[] int,
}")).
Eval vm_compute in ("<<<M1764>>>" ++ check (runes_of_ascii "packet o {
    char[0123456789] asx `doc`,
}")).
Eval vm_compute in ("<<<M1110>>>" ++ check (runes_of_ascii "MetaData zchar { zchar[ // c
3 ] Pad , }")).
Eval vm_compute in ("<<<M934>>>" ++ check (runes_of_ascii "packet A {
    u8 x `a
    b
  c`,
}")).
Eval vm_compute in ("<<<M1373>>>" ++ check (runes_of_ascii "root packet P {
    string s,
}
")).
Eval vm_compute in ("<<<M1017>>>" ++ check (runes_of_ascii "packet A {
 u8 x `d" ++ [8233]%N ++ runes_of_ascii "`, // c" ++ [8233]%N ++ runes_of_ascii "
}")).
Eval vm_compute in ("<<<M928>>>" ++ check (runes_of_ascii "packet A {
    u8 x `
`,
}")).
Eval vm_compute in ("<<<M1298>>>" ++ check (runes_of_ascii "packet lengthOf // c
{ }")).
Eval vm_compute in ("<<<M405>>>" ++ check (runes_of_ascii "options
{
matchKey")).
Eval vm_compute in ("<<<M1025>>>" ++ check (runes_of_ascii "packet A {
}
// c" ++ [8287]%N)).
Eval vm_compute in ("<<<M1023>>>" ++ check (runes_of_ascii "packet A {
}// c" ++ [8287]%N)).
Eval vm_compute in ("<<<M731>>>" ++ check (runes_of_ascii "// a
// b
")).
Eval vm_compute in ("<<<M50>>>" ++ check (runes_of_ascii "//

")).
