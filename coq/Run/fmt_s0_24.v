From FP Require Import Lexer Parser ShowPT Digest Formatter.
From Coq Require Import String List NArith.
Import ListNotations.
Open Scope string_scope.
Set Printing Width 100000000.
Set Printing Depth 100000000.
Definition show_fres (r : fres) : string :=
  match r with
  | FOk s => "OK:" ++ sh_escaped s ""
  | FErr s => "ERR:" ++ sh_escaped s ""
  | FPanic p => "PANIC:" ++ p
  end.
Definition check (rs : list rune) : string := digest (show_fres (format_res rs)).
Definition full (rs : list rune) : string := show_fres (format_res rs).
Eval vm_compute in ("<<<M198>>>" ++ check (runes_of_ascii "root packet int {
// @lengthOf(
// " ++ [27880; 37322]%N ++ runes_of_ascii "
@calculatedFrom( ""packet"")match repeatCount as asx {// packet A { u8 x, }
65535:int ,
"""":
    packetx
, [ 1, ""it's"", 007 , 3,
    ""a\\"" , 65535 ] : o,
[ 7 , 1 ]:
    len [ ""abc""	,""" ++ [28040; 24687]%N ++ runes_of_ascii """ ] : u
,} ,// packet A { u8 x, }
@rightPad ( ' ' ) // " ++ [27880; 37322]%N ++ runes_of_ascii "
len
    body `{ , }` , }packet repeatCount { string
trueish
,@tag(
0 )	repeat
tag/// triple
`{ , }` , // `tick` ""quote"" 'q'
@tag(255 // @lengthOf(
) match packetx as
string_
    {
10 :roots, }//
,
@leftPad
(
'\x00'	)
    @tag( 7 ) repeat i8 // packet A { u8 x, }
rootA
/// triple
// " ++ [128512]%N ++ runes_of_ascii " emoji
`it's` , uint8x tag`a\` ,
char[] Z9_ @calculatedFrom( //x
""" ++ [233]%N ++ runes_of_ascii "t" ++ [233]%N ++ runes_of_ascii """
    )
, repeat float32
trueish	, @leftPad ( /// triple
'\x00'	)	i64_
    @calculatedFrom( ""x y""
    ) //
, repeat f32 Packet ,  }
    packet u
    // c
    {int64 pack@lengthOf(metadata ) ,	repeat
    char[//	t
0123456789 ] int
    ``
    , @lengthOf(
    Header  )@calculatedFrom(""`tick`""
)	float
    trueish , @calculatedFrom(	""`tick`""
    // a // b
    ) stringy ,// " ++ [128512]%N ++ runes_of_ascii " emoji
repeat Logon  `it's`  ,
int32  Z9_ @calculatedFrom(
""\n""), match// c
u8x as falsey {
255 : f32a ,
00:packetx
, } ,
zchar[	0 ] roots , @tag( 00) Logon {
    i64_
@lengthOf( MetaDataX //
) ``
    , repeat body
MetaDataX `it's`, x { string rootA ``
    // a // b
    , repeat options1 f32a , }//
, Pad
, // `tick` ""quote"" 'q'
} , @calculatedFrom( ""1""
    // packet A { u8 x, }
    )@lengthOf(T ) char[
7 ]	pack	`{ , }`	, } MetaData u {
} /// triple")).
Eval vm_compute in ("<<<M384>>>" ++ check (runes_of_ascii "options {
	StringPrefixLenType = u16;
	ArrayPrefixLenType = u16;
}

packet SampleBinary {
	uint16 MsgType `" ++ [28040; 24687; 31867; 22411]%N ++ runes_of_ascii "`,
	u16 BodyLenght @lengthOf(Body) `" ++ [28040; 24687; 20307; 38271; 24230]%N ++ runes_of_ascii "`,
	match MsgType as Body {
		1 : Logon,
		2 : Logout,
		3 : Heartbeat,
		4 : RiskControlRequest,
		5 : RiskControlResponse,
	},
		@calculatedFrom(""CRC32"")
	u32 Ckecksum `" ++ [26657; 39564; 21644]%N ++ runes_of_ascii "`,
}

packet Logon {
	 @leftPad('0')
	char[10] UserName `" ++ [29992; 25143; 21517]%N ++ runes_of_ascii "`,
	string Password `" ++ [23494; 30721]%N ++ runes_of_ascii "`,
	uint64 ClientId `" ++ [23458; 25143; 31471]%N ++ runes_of_ascii "ID`,
	u16 HeartbeatInterval `" ++ [24515; 36339; 38388; 38548]%N ++ runes_of_ascii "`,
}

packet Logout {
	  @rightPad('0')
	char[10] UserName `" ++ [29992; 25143; 21517]%N ++ runes_of_ascii "`,
	uint64 ClientId `" ++ [23458; 25143; 31471]%N ++ runes_of_ascii "ID`,
}

packet Heartbeat {
}

packet RiskControlRequest {
	string UniqueOrderId `" ++ [21807; 19968; 35746; 21333; 21495]%N ++ runes_of_ascii "`,
	char[16] ClOrdID `" ++ [23458; 25143; 35746; 21333; 21495]%N ++ runes_of_ascii "`,
	char[3] MarketID `" ++ [24066; 22330]%N ++ runes_of_ascii "id`,
	char[12] SecurityID `" ++ [35777; 21048; 20195; 30721]%N ++ runes_of_ascii "`,
	char Side `" ++ [20080; 21334; 26041; 21521]%N ++ runes_of_ascii "`,
	char OrderType `" ++ [35746; 21333; 31867; 22411]%N ++ runes_of_ascii "`,
	u64 Price `" ++ [20215; 26684]%N ++ runes_of_ascii "`,
	u32 Qty `" ++ [25968; 37327]%N ++ runes_of_ascii "`,
	repeat string ExtraInfo `" ++ [38468; 21152; 20449; 24687]%N ++ runes_of_ascii "`,
	repeat SubOrder {
			char[16] ClOrdID `" ++ [23376; 35746; 21333; 21495]%N ++ runes_of_ascii "`,
			u64 Price `" ++ [23376; 35746; 21333; 20215; 26684]%N ++ runes_of_ascii "`,
			u32 Qty `" ++ [23376; 35746; 21333; 25968; 37327]%N ++ runes_of_ascii "`,
		},
}

packet RiskControlResponse {
	string UniqueOrderId `" ++ [21807; 19968; 35746; 21333; 21495]%N ++ runes_of_ascii "`,
	i32 Status `" ++ [29366; 24577]%N ++ runes_of_ascii "`,
	string Msg `" ++ [32467; 26524; 20449; 24687]%N ++ runes_of_ascii "`,
	repeat Detail,
}

packet Detail {
	string RuleName `" ++ [35268; 21017; 21517; 31216]%N ++ runes_of_ascii "`,
	u16 Code `" ++ [21407; 22240; 20195; 30721]%N ++ runes_of_ascii "`,
}")).
Eval vm_compute in ("<<<M1610>>>" ++ check (runes_of_ascii "

  options {
StringPrefixLenType
    =

    u64 
; ArrayPrefixLenType
= u32; FixedStringPadFromLeft  =false ; 
}	packet

Party
    {

    zchar[  7

]
    OrderId, 
InTail6 {repeat  char[
1 ]	msgKind,  char[
3	] 
Tail, char[

3

]	Flags
	, i16 
tag7
    , }
, @rightPad

    ('0')char[ 
12
	]

    clOrdID
, }	packet

Quote	{
	@leftPad  (
    '0' )
	char[
	11]	price 
,
repeat
InCount7 
{ i32 
x  ,
Party
    ,

    u8 Ref ,
u8
tag7

, }  ,

char[]	seqNo
,
Party

, }
packet
    Logon{
@rightPad	(

'\x00'

    ) 
char[

    5]
	Note,

    i16 sym,InPrice72 { char[9

]

Ref
,	zchar[ 
1	] venue
, }
    , 
char[]	clOrdID	,  }

    root
packet  Reject

{ 
repeat
Logon	, 
@leftPad (

' '
	)
	char[ 
4
]
seqNo
	,zchar[
    5] Acct
	, u32
x , 
u16

    f1 @lengthOf(Body )
,  match x  as

    Body
	{

    [ 
169 
,
	74]	:
    Quote ,
	45:	Party

    , 7
: Logon
,
	}
    ,	}
")).
Eval vm_compute in ("<<<M1798>>>" ++ check (runes_of_ascii "packet pack {
    @lengthOf(Foo)
    asx @lengthOf(_x),
    u8 x_y_z `two words`,
    repeat zchar[0] roots `
    `,
    lengthOf @calculatedFrom(""abc""),
    @tag(3)
    @rightPad(' ')
    @calculatedFrom(""1"")
    repeat uint64 i64_ `say ""hi""`,
    @tag(007)
    match roots as float {
        ""a	b"" : lengthOf,
        [
            1, 42, ""\n"", ""a\""b"", ""\" ++ [233]%N ++ runes_of_ascii """,
            ""1""
        ] : msg_type,
        """ ++ [128512]%N ++ runes_of_ascii """ : Foo,
    },
    T {
        match Header as trueish {
            [
                0, 3, 00, 0123456789, ""{,}"",
                ""1"", ""// no comment""
            ] : As,
        },
    },
    repeat char[10] o `
    `,
    @calculatedFrom(""`tick`"")
    repeat crc {
        repeatCount o,
        u8x As,
    },
}

packet pack {
    @calculatedFrom(""" ++ [233]%N ++ runes_of_ascii "t" ++ [233]%N ++ runes_of_ascii """)
    u32 f32a,
}

MetaData float {
    u32 options1,
}

packet f32a {
}")).
Eval vm_compute in ("<<<M1425>>>" ++ check (runes_of_ascii "options {
    StringPrefixLenType = u16;
    ArrayPrefixLenType = u32;
    FixedStringPadFromLeft = true;
    FixedStringPadChar = '0';
}

packet Cancel {
}

packet Party {
}

packet Logon {
}

packet Ack {
}

packet Logout {
    repeat InSym87 {
        InClordid94 {
            string clOrdID,
        },
        string Px,
        i16 Qty,
        repeat InCount71 {
            repeat Cancel,
            uint16 Tail,
            char[2] x,
            repeat string Ref,
        },
        Cancel,
    },
}

root packet Order {
    repeat string tag7,
    @leftPad(' ')
    char[3] Px,
    u8 Qty,
    match Qty as Body {
        [28, 62] : Logon,
        148 : Ack,
        88 : Party,
        184 : Cancel,
    },
    u16 Note @calculatedFrom(""CRC32""),
}")).
Eval vm_compute in ("<<<M1351>>>" ++ check (runes_of_ascii "options {
    StringPrefixLenType = u8;
    ArrayPrefixLenType = u32;
    FixedStringPadFromLeft = true;
    FixedStringPadChar = ' ';
}
packet Leg {
}
packet Heartbeat {
    zchar[6] msgKind,
    @rightPad('0') char[3] Qty,
    zchar[9] Side2,
    i8 Acct,
}
packet Logout {
    int8 x,
}
packet Order {
    char[] Acct,
    zchar[8] count,
    u32 OrderId,
    uint8 lastPx,
    u16 clOrdID,
    zchar[7] Note,
}
root packet Reject {
    @leftPad(' ') char[8] Side2,
    i8 clOrdID,
    repeat f32 x,
    u32 lastPx,
    match lastPx as Body {
        [30, 147] : Heartbeat,
        134 : Leg,
        183 : Logout,
        40 : Order,
    },
    u16 Ref @calculatedFrom(""CRC32""),
}
")).
Eval vm_compute in ("<<<M1666>>>" ++ check (runes_of_ascii "  packet
Logon	{
    repeatCount
    {
BodyLength
	`crlf
line` , }

    ,
zchar 
a1
	`u8 x,` 
,match Foo
as
Foo	{

    ""\n""

    :

i8i8 ,

    [
""abc""
	,  // trailing space 
""CRC32""

]
    /// triple
	  // " ++ [128512]%N ++ runes_of_ascii " emoji
:	// @lengthOf(
  	crc

    [ 
3
,
    //
	// " ++ [128512]%N ++ runes_of_ascii " emoji
    ""x y""
,

    42, ""`tick`""

, 1  ,
""a\""b"",

    ""CRC32""
	, 255]	: repeatCount

    ,	[// " ++ [128512]%N ++ runes_of_ascii " emoji

1 

// a // b
    // " ++ [27880; 37322]%N ++ runes_of_ascii "
	  ,007
,
    ""\n"",007
	,

    7  ,  ""// no comment""
	, 255 ] 
: uint8x 00

:f32a, 
}

,

    // a // b
  uint16  Pad @lengthOf(uint8x  )	// packet A { u8 x, }
    `doc`

    ,
    }")).
Eval vm_compute in ("<<<M65>>>" ++ check (runes_of_ascii "packet leftPad {
match A as x {""`tick`""
    : MetaDataX //
, [""it's""
,""\n"" ,
""" ++ [28040; 24687]%N ++ runes_of_ascii """ ] :
string_ , 0123456789 : o ,
[
""{,}"", ""x y"" ]
:uint8x	} , char[3	] msg_type// " ++ [128512]%N ++ runes_of_ascii " emoji
@lengthOf( u
//	t
// " ++ [27880; 37322]%N ++ runes_of_ascii "
)`two words` ,
    // c
    repeat
    int
// packet A { u8 x, }
// @lengthOf(
Foo ,
@rightPad
(
    )
@rightPad
( ' ' )
    Foo charz`{ , }`, }
MetaData A {
zchar[
0 ]A `{ , }`
    , float32 a1
    //
    ,
    char[]  pack , /// triple
string body `" ++ [233]%N ++ runes_of_ascii "` , string chars `doc` , int _x`two words`
,} options { Z9_ =
    uint16 ; }")).
Eval vm_compute in ("<<<M294>>>" ++ check (runes_of_ascii "options { rootA = 4294967296 ; falsey = ""a\""b""
;
As =
// @lengthOf(
/// triple
""""
;packetx
    = ""packet"" i8i8 =true ;
} // `tick` ""quote"" 'q'
packet x  { repeat zchar
rootA , char[]
    pack  `// not a comment`
,@tag( 00 )
@tag( 0123456789)
u @calculatedFrom( ""packet"" )`u8 x,` , Header{
    zchar[ 00
    ] body
,
    a1	@calculatedFrom( // " ++ [128512]%N ++ runes_of_ascii " emoji
""it's"" )
`" ++ [233]%N ++ runes_of_ascii "`, }, } // " ++ [27880; 37322]%N ++ runes_of_ascii "
MetaData
    A // a // b
{zchar /// triple
matchKey
    `` , int64 metadata ,char[] _x //	t
, }
")).
Eval vm_compute in ("<<<M1420>>>" ++ check (runes_of_ascii "options {
    float = char[]
}// packet A { u8 x, }

root packet Logon {
    @tag(1)
    @calculatedFrom(""packet"")
    zchar[3] Z9_,
    @lengthOf(charz)
    @calculatedFrom(""1"")
    match roots as int {
        ""a	b"" : MetaDataX,
    },
    @calculatedFrom(""a\""b"")
    match asx as lengthOf {
        """ ++ [128512]%N ++ runes_of_ascii """ : _x,
        [255] : BodyLength,
        3 : u8x,
        0123456789 : T,
    },
    len @lengthOf(leftPad) `u8 x,`,
}// @lengthOf(")).
Eval vm_compute in ("<<<M101>>>" ++ check (runes_of_ascii "MetaData T {  a1 Packet,// " ++ [128512]%N ++ runes_of_ascii " emoji
uint8x
// @lengthOf(
//x
Pad `" ++ [233]%N ++ runes_of_ascii "` , a1
    // " ++ [27880; 37322]%N ++ runes_of_ascii "
    MetaDataX ,	zchar[00]metadata`u8 x,` ,Pad// trailing space 
x `
` ,
    i8
u8x ,
}  options { As =
    false;}root packet options1 { @calculatedFrom( ""// no comment"" ) @lengthOf( _x	)
    @tag(007 ) repeat
// trailing space 
// @lengthOf(
f32 i8i8
    `" ++ [233]%N ++ runes_of_ascii "` ,
    @rightPad	( ' '// " ++ [27880; 37322]%N ++ runes_of_ascii "
) repeat Pad , }
")).
Eval vm_compute in ("<<<M1723>>>" ++ check (runes_of_ascii "// top
options {
    // c1a
    // c1b
    FixedStringPadChar = '0';
}

packet Q {
    // c9a
    // c9b
    zchar[4] z,// c14
    @rightPad('\x00')
    // c18a
    // c18b
    char[3] n,
    // c23
    char[5] d,
}// c29a

// c29b
root packet R {
    // c33
    Q,// c35a
    // c35b
    zchar[8] top,// c40a
    // c40b
    repeat zchar[2] zs,// c46a
}// c47")).
Eval vm_compute in ("<<<M109>>>" ++ check (runes_of_ascii "MetaData Header{ } packet crc {	match zchar as leftPad // `tick` ""quote"" 'q'
{ 7 : As 0 : Packet , [
00 // " ++ [128512]%N ++ runes_of_ascii " emoji
]
: Pad ,
//x
//x
""// no comment""
    :
    calculatedFrom
,	3
    :
string_ , } ,falsey  packetx `crlf
line` , // " ++ [27880; 37322]%N ++ runes_of_ascii "
@tag( 42 )repeat
u64 packetx,
@calculatedFrom(  ""1"" ) repeat u16 calculatedFrom, }
")).
Eval vm_compute in ("<<<M32>>>" ++ check (runes_of_ascii "packet int { T/// triple
{ repeat _x ,	} ,
    i64_ _x
    `
`, @calculatedFrom( ""x y"" )u32 A
,  match a1 as
    i8i8 { [ ""1""
,
4294967296
]:
    a1 ,"""":	a1
    , 007: a1 , [ ""CRC32"" ] :Header} , int64 As, int8 a1 , //
char[] float
`tab	here`/// triple
,
repeat zchar[ 1	]u8x,
} /// triple")).
Eval vm_compute in ("<<<M1250>>>" ++ check (runes_of_ascii "// top
packet
    // c0
Inner
    // c1
{ // c2a
  // c2b
u8
    // c3
a // c4a
  // c4b
, }
    // c6
root // c7
packet // c8
P // c9a
  // c9b
{
    // c10
Inner // c11a
  // c11b
ref_obj
    // c12
, // c13a
  // c13b
u8 x ,
    // c16
} // c17a
  // c17b
")).
Eval vm_compute in ("<<<M214>>>" ++ check (runes_of_ascii "MetaData tag {body Packet	, int16 // @lengthOf(
body // `tick` ""quote"" 'q'
, f32a uint8x , } packet falsey {
x { char[ 7 ] lengthOf , char[] o
    `say ""hi""`
    // `tick` ""quote"" 'q'
    ,
//
/// triple
}
,}
// `tick` ""quote"" 'q'
")).
Eval vm_compute in ("<<<M1470>>>" ++ check (runes_of_ascii "packet f32a {
    @rightPad('0')
    @lengthOf(BodyLength)
    uint8 Foo ``,
    //x
    char[] options1 @calculatedFrom(""it's""),
    @tag(255)
    uint64 Header @calculatedFrom(""abc"") `
    `,
}")).
Eval vm_compute in ("<<<M1559>>>" ++ check (runes_of_ascii "packet A {
    match k as n {
        [
            22, 4, 66, 8, 10,
            12, ""a"", ""c c"", ""e"", ""g"",
            ""i"", ""k""
        ] : B,
        2 : C,
    },
}")).
Eval vm_compute in ("<<<M187>>>" ++ check (runes_of_ascii "
options// " ++ [27880; 37322]%N ++ runes_of_ascii "
{
f32a= ""a\""b""//x
; Z9_ = // " ++ [27880; 37322]%N ++ runes_of_ascii "
""`tick`""	Logon
    // " ++ [27880; 37322]%N ++ runes_of_ascii "
    =""CRC32""u128= f64 ;rootA	=
false ;} //	t
packet lengthOf {
} MetaData len { }
")).
Eval vm_compute in ("<<<M413>>>" ++ check (runes_of_ascii "packet uint8x
{ match float32
    as msg_type	{
    0123456789 :	float
}
,
} packet //	t
a1
    { } options {packetx
    = '\x00'	; u128= ""a	b""  ; }
")).
Eval vm_compute in ("<<<M542>>>" ++ check (runes_of_ascii "$ packet uint8x
{ match pack
    as msg_type	{
    0123456789 :	float
}
,
} packet //	t
a1
    { } options {packetx
    = '\x00'	; u128= ""a	b""  ; }
")).
Eval vm_compute in ("<<<M432>>>" ++ check (runes_of_ascii "packet uint8x
{ match pack
    as msg_type	{
    : 0123456789	float
}
,
} packet //	t
a1
    { } options {packetx
    = '\x00'	; u128= ""a	b""  ; }
")).
Eval vm_compute in ("<<<M468>>>" ++ check (runes_of_ascii "packet uint8x
{ match pack
    as msg_type	{
    0123456789 :	float
}
,
} packet //	t
,
    { } options {packetx
    = '\x00'	; u128= ""a	b""  ; }
")).
Eval vm_compute in ("<<<M410>>>" ++ check (runes_of_ascii "packet uint8x
{ match 
    as msg_type	{
    0123456789 :	float
}
,
} packet //	t
a1
    { } options {packetx
    = '\x00'	; u128= ""a	b""  ; }
")).
Eval vm_compute in ("<<<M551>>>" ++ check (runes_of_ascii "packet uint8x
{ match pack
    as " ++ [21517; 23383]%N ++ runes_of_ascii "	{
    0123456789 :	float
}
,
} packet //	t
a1
    { } options {packetx
    = '\x00'	; u128= ""a	b""  ; }
")).
Eval vm_compute in ("<<<M185>>>" ++ check (runes_of_ascii "root packet lengthOf{ @leftPad
    (
' '// c
)
repeat char MetaDataX
,
}MetaData
Pad {
msg_type rootA// trailing space 
`// not a comment`, }")).
Eval vm_compute in ("<<<M1645>>>" ++ check (runes_of_ascii "// top
      root  
      // c0
	packet// c1a

// c1b
  P  
      // c2
    	{ 	 // c3
  string s 	 // c5a
	// c5b

,

    // c6
    }")).
Eval vm_compute in ("<<<M514>>>" ++ check (runes_of_ascii "packet uint8x
{ match pack
    as msg_type	{
    0123456789 :	float
}
,
} packet //	t
a1
    { } options {packetx
    = '\x00'	;")).
Eval vm_compute in ("<<<M1509>>>" ++ check (runes_of_ascii "MetaData leftPad {
    chars MetaDataX,
}

packet repeatCount {
    char[255] uint8x `" ++ [233]%N ++ runes_of_ascii "`,
}

MetaData pack {
    As Foo,
}")).
Eval vm_compute in ("<<<M1155>>>" ++ check (runes_of_ascii "MetaData leftPad { chars MetaDataX , } // c
packet repeatCount { char[ 255 ] uint8x `" ++ [233]%N ++ runes_of_ascii "` , } MetaData pack { As Foo , }")).
Eval vm_compute in ("<<<M1187>>>" ++ check (runes_of_ascii "MetaData leftPad { chars MetaDataX , } packet repeatCount { char[ 255 ] uint8x `" ++ [233]%N ++ runes_of_ascii "` , } MetaData pack { As Foo , // c
}")).
Eval vm_compute in ("<<<M915>>>" ++ check (runes_of_ascii "packet A {
  match k as n {
    [""a"", ""bb"", 007, ""d"", ""e"", 66, ""g"", ""h"", 9, ""j"", ""k"", 12] : B
    2 : C
  },
}")).
Eval vm_compute in ("<<<M897>>>" ++ check (runes_of_ascii "packet A {
  match k as n {
    [""a"", 22, ""c c"", 4, ""e"", 66, ""g"", 8, ""i"", 10, ""k""] : B,
    2 : C
  },
}")).
Eval vm_compute in ("<<<M956>>>" ++ check (runes_of_ascii "packet A {
    Inner {
        u8 x `
x`,
        Deep {
            u8 y `
x`,
        },
    },
}")).
Eval vm_compute in ("<<<M568>>>" ++ check (runes_of_ascii "
packet
    asx {match match u128 as lengthOf
{
//	t
// `tick` ""quote"" 'q'
255 : x ,
    } ,	}")).
Eval vm_compute in ("<<<M1710>>>" ++ check (runes_of_ascii "options {
    _x = ""`tick`"";
    matchKey = ""it's"";
    options1 = u16;
    stringy = true
}")).
Eval vm_compute in ("<<<M858>>>" ++ check (runes_of_ascii "packet A {
  match k as n {
    [""a"", 22, ""c c"", 4, ""e"", 66, ""g"", 8] : B,
    2 : C
  },
}")).
Eval vm_compute in ("<<<M622>>>" ++ check (runes_of_ascii "
packet
    asx {match u128 as lengthOf
{
//	t
// `tick` ""quote"" 'q'
255 : x ,
    } ,	")).
Eval vm_compute in ("<<<M969>>>" ++ check (runes_of_ascii "packet A {
    u32 crc @calculatedFrom(""x\
y""),
    @calculatedFrom(""x\
y"") u8 y,
}")).
Eval vm_compute in ("<<<M748>>>" ++ check (runes_of_ascii "options match @lengthOf( options char[] zchar[ MetaData f32 f64 u16 ""{,}"" `doc` (")).
Eval vm_compute in ("<<<M125>>>" ++ check (runes_of_ascii "//	t
options {
    roots  =  ""\n""	; o
    //
    = '0' ;
tag
    =true
    }")).
Eval vm_compute in ("<<<M1249>>>" ++ check (runes_of_ascii "packet Inner {
    u8 a,
}
root packet P {
    Inner ref_obj,
    u8 x,
}
")).
Eval vm_compute in ("<<<M108>>>" ++ check (runes_of_ascii "packet int {}
options {leftPad ='0' ;metadata= char[] Foo=
'0' ; }
")).
Eval vm_compute in ("<<<M1717>>>" ++ check (runes_of_ascii "MetaData leftPad {
    char[] body,
    As options1,
    o i64_,
}")).
Eval vm_compute in ("<<<M189>>>" ++ check (runes_of_ascii "
packet
i64_ { @tag( 0123456789 ) repeat u16 stringy
,
    }")).
Eval vm_compute in ("<<<M1756>>>" ++ check (runes_of_ascii "  MetaData 
M	{
u8
	x
    `a
b`
	,
    T 
t	`a
b` ,  }

")).
Eval vm_compute in ("<<<M963>>>" ++ check (runes_of_ascii "MetaData M {
    u8 x `tab
	x`,
    T t `tab
	x`,
}")).
Eval vm_compute in ("<<<M1671>>>" ++ check (runes_of_ascii "MetaData M {
    u8 x `
    `,
    T t `
    `,
}")).
Eval vm_compute in ("<<<M1506>>>" ++ check (runes_of_ascii "options // c
{ 
MetaDataX = int16

    }

")).
Eval vm_compute in ("<<<M1560>>>" ++ check (runes_of_ascii "

  root  packet	A 
{

u8
	x 
`a
b`
,} ")).
Eval vm_compute in ("<<<M1490>>>" ++ check (runes_of_ascii "
packet	A 
{ u8
    x`a
b`
	,  }")).
Eval vm_compute in ("<<<M993>>>" ++ check (runes_of_ascii "packet A {
 u8 x `d" ++ [133]%N ++ runes_of_ascii "`, // c" ++ [133]%N ++ runes_of_ascii "
}")).
Eval vm_compute in ("<<<M1820>>>" ++ check (runes_of_ascii "MetaData
    i64_
    {
	}
")).
Eval vm_compute in ("<<<M1739>>>" ++ check (runes_of_ascii "// c" ++ [8287]%N ++ runes_of_ascii "
	packet
A

{ }
")).
Eval vm_compute in ("<<<M1902>>>" ++ check (runes_of_ascii "root packet chars {
}")).
Eval vm_compute in ("<<<M977>>>" ++ check (runes_of_ascii "// c 
packet A {
}")).
Eval vm_compute in ("<<<M1059>>>" ++ check (runes_of_ascii "packet A {
}// c x")).
Eval vm_compute in ("<<<M1227>>>" ++ check (runes_of_ascii "packet
// c
x { }")).
Eval vm_compute in ("<<<M376>>>" ++ check (runes_of_ascii "
// " ++ [128512]%N ++ runes_of_ascii " emoji
")).
Eval vm_compute in ("<<<M1050>>>" ++ check (runes_of_ascii "// c" ++ [65279]%N)).
