From FP Require Import Lexer Parser ShowPT Digest Formatter.
From Coq Require Import String List NArith.
Import ListNotations.
Open Scope string_scope.
Set Printing Width 100000000.
Set Printing Depth 100000000.
Definition show_fres (r : fres) : string :=
  match r with
  | FOk s => "OK:" ++ sh_escaped s ""
  | FErr s => "ERR:" ++ sh_escaped s ""
  | FPanic p => "PANIC:" ++ p
  end.
Definition check (rs : list rune) : string := digest (show_fres (format_res rs)).
Definition full (rs : list rune) : string := show_fres (format_res rs).
Eval vm_compute in ("<<<M1528>>>" ++ check (runes_of_ascii "options
    {	BodyLength  =
char[	7  ]	;

}
        // c

// @lengthOf(
packet  asx// " ++ [128512]%N ++ runes_of_ascii " emoji

  {int16 x_y_z
    ,@calculatedFrom(""""
	) @lengthOf( 
    /// triple
  	chars

)//
  	repeat
    repeatCount
charz

    /// triple
// " ++ [27880; 37322]%N ++ runes_of_ascii "

  ,
@leftPad
	(
	)i64_
	@calculatedFrom(""\" ++ [233]%N ++ runes_of_ascii """)

`// not a comment`

    ,tag  Z9_
`two words`

, @lengthOf( asx )  @calculatedFrom(	""`tick`""
)
    match	uint8x
	as 
matchKey { 0123456789
	// packet A { u8 x, }
	// a // b
:  u8x

    ,
    1	:
zchar  ,
}
,

u128	@lengthOf(

u128 	 // packet A { u8 x, }
	) 	 // " ++ [128512]%N ++ runes_of_ascii " emoji
,  } MetaData
	msg_type { 
string  BodyLength
`two words`,
	options1	// " ++ [128512]%N ++ runes_of_ascii " emoji
  i64_ , } 	 // " ++ [128512]%N ++ runes_of_ascii " emoji
  packet 
roots {

    u ``
    ,  @calculatedFrom( ""a	b"" )

match
len
as msg_type	{ 
// c
    """ ++ [28040; 24687]%N ++ runes_of_ascii """ : charz} , crc
    @calculatedFrom( 
	    // packet A { u8 x, }
  // packet A { u8 x, }
  ""it's"" 
)`a\`	, 
@leftPad  (
'0' ) 
@tag(
007)zchar[  // trailing space 
    3
	    // trailing space 

	]falsey

,  @calculatedFrom( // `tick` ""quote"" 'q'

	""\n""
) @calculatedFrom(
    ""CRC32""  // c
) 
        // trailing space 
match 
    //x
  	Packet as // @lengthOf(
	stringy {

    1 :	Pad	,""it's""
:
    f32a	, },	@leftPad
(' ')
    match// " ++ [27880; 37322]%N ++ runes_of_ascii "
int
	as
	a1 {

    [

    0123456789 , 255

]

:

    options1 
	//x

  //x
	  }
    ,  BodyLength 
//

	@calculatedFrom(
	""" ++ [28040; 24687]%N ++ runes_of_ascii """),float32 zchar@calculatedFrom(  ""// no comment"" )  ,  @tag(	10 )
zchar[ 

    // packet A { u8 x, }
  1 ] 
rootA ,
} ")).
Eval vm_compute in ("<<<M324>>>" ++ check (runes_of_ascii "MetaData Pad { char[] Packet , f32a i64_
    `tab	here`
// c
// a // b
,
} root packet
    As { @calculatedFrom(""CRC32""	)@calculatedFrom(  ""1""  ) @calculatedFrom( ""// no comment""
// a // b
//
)	As
As `say ""hi""` , Foo  msg_type , calculatedFrom
@calculatedFrom( ""\n"" ) , zchar {	zchar[ 7 ] charz // `tick` ""quote"" 'q'
@calculatedFrom(""x y"" )
    , Z9_
    `{ , }` , repeat int { zchar[ 3
] i8i8
    @lengthOf( chars )
,
match zchar as
    o {1 : //
u128	,
    0
:
// trailing space 
//x
stringy
, 42
: charz""x y"": a1 3 : Header ,
4294967296 : o } , repeat
Header `two words`, match u8x  as u8x
{
[ 10] : pack ,	1 :
BodyLength
//
// " ++ [27880; 37322]%N ++ runes_of_ascii "
0 : MetaDataX
,42
:  calculatedFrom },	} /// triple
, } , // " ++ [27880; 37322]%N ++ runes_of_ascii "
}
// `tick` ""quote"" 'q'
/// triple
packet
    i64_ { }
    root packet x { Header
{char[ /// triple
0 ] _x `// not a comment`
    ,
}
    ,@lengthOf( A
)uint32 f32a
@calculatedFrom( ""abc""
    )
// `tick` ""quote"" 'q'
// " ++ [27880; 37322]%N ++ runes_of_ascii "
,
repeat i16 trueish `u8 x,` ,@rightPad	( ' ' )@calculatedFrom( ""a\\"" ) float,
    repeat char[ 7
]zchar,
    @tag( 10 ) repeat
    //	t
    a1 falsey	`say ""hi""`,
    @lengthOf(
len )repeat zchar[	00
    // `tick` ""quote"" 'q'
    ] uint8x ,}
MetaData  metadata {
u8 body
, }")).
Eval vm_compute in ("<<<M1877>>>" ++ check (runes_of_ascii "packet x {
    //x
    lengthOf @calculatedFrom(""abc"") `u8 x,`,
    @rightPad()
    //x
    // @lengthOf(
    float32 Packet @lengthOf(falsey),
    char[10] falsey,
    @tag(3)
    repeat zchar[4294967296] repeatCount,
    repeatCount `say ""hi""`,
    int16 u128,
    char[3] crc @calculatedFrom(""x y""),// trailing space 
    @leftPad('\x00')
    match chars as i8i8 {
        42 : charz,
    },
}

options {
}

MetaData metadata {
    char[4294967296] i8i8,
    float rootA,
    i64 packetx,
    i8 roots `crlf
        line`,
    tag i64_,
    uint8 Pad `" ++ [233]%N ++ runes_of_ascii "`,
}

root packet Header {
    u64 options1 `two words`,
    @calculatedFrom(""a\\"")
    // " ++ [128512]%N ++ runes_of_ascii " emoji
    i32 x_y_z @calculatedFrom(""a\""b"") `tab	here`,
    match A as len {
        [""CRC32"", ""it's""] : Z9_,
        ""a	b"" : o,
    },
    match asx as pack {
        0 : x_y_z,
    },
    char[] i64_ `{ , }`,
}

MetaData stringy {
    // trailing space 
    lengthOf o,
    string u8x,
    f32 string_ `doc`,
}")).
Eval vm_compute in ("<<<M1370>>>" ++ check (runes_of_ascii "
options	{FixedStringPadFromLeft

    = true;

FixedStringPadChar=

'0'	;
    }

    packet Leg { 
repeat
    InSym93  { 
zchar[3 ] Acct ,string Side2 ,i32 
Flags  ,  f32
    Note 
,

i32

msgKind
,
}

    ,f64

    Note 
, uint16	Px,} packet  Quote

{
zchar[ 2]  OrderId  ,
} packet  Ack
{ repeat  string
    lastPx
    , zchar[

4  ]
    price	, uint32
	OrderId ,	Quote,
    int8

Acct
, }
packet Fill {repeat

Leg
    ,	@rightPad(	'0')
	char[ 
11
	] 
Note  ,
    f64	Px ,
    @rightPad
    (

'\x00' )

char[
5
	]

Flags  ,	zchar[  9
]

    x,

    string msgKind

,
}
    root
    packet  Order
{

Leg  ,  repeat

Ack

,

@rightPad('\x00'  ) char[  3
    ]
Side2 ,
repeat
char[1
	]seqNo 
,
	u16	clOrdID 
,  match

    clOrdID as Body  {	198

:  Leg, 23 
:	Quote  ,13 : Ack
    ,
159	:
Fill
,  } , 
u32 venue @calculatedFrom(	""CRC32"" )
	,}
")).
Eval vm_compute in ("<<<M1793>>>" ++ check (runes_of_ascii "

  // trailing space 
	options { f32a 
=

false ;

stringy =true;u =
    ""\" ++ [233]%N ++ runes_of_ascii """
    ;
stringy  =  false	; }packet

options1  // " ++ [27880; 37322]%N ++ runes_of_ascii "
  { 
}

MetaData	packetx

    {f32 uint8x 
,
} root
	packet zchar
{@tag(  4294967296
    )
	@lengthOf(a1 )i8  _x
`it's`

    , //x
char[] o ,
body  , zchar[ 65535  ] msg_type `crlf
line` ,repeat

    BodyLength
	{ repeat char[
    65535 ] stringy,
    }	,	@calculatedFrom(
""" ++ [128512]%N ++ runes_of_ascii """)
@tag(10
	    // a // b
  )

    repeat	f32

lengthOf `line1
line2`,repeat
	u{uint32 Z9_ ,  //
repeat  body `
`
    , }

,

    @tag(

    4294967296
)  i64_	@lengthOf(

    tag
        // packet A { u8 x, }
) ,
@lengthOf(	//	t

	float ) 
@lengthOf(  
      // " ++ [128512]%N ++ runes_of_ascii " emoji
	packetx)@calculatedFrom(

    """ ++ [128512]%N ++ runes_of_ascii """) 
repeat
	x_y_z
u  , @tag(
    65535 
)
u8
A , }//")).
Eval vm_compute in ("<<<M1902>>>" ++ check (runes_of_ascii "packet charz {
    //	t
    repeat i64_,
    trueish {
        repeat _x,
        repeatCount,
        repeat u16 matchKey `
                `,
        // " ++ [128512]%N ++ runes_of_ascii " emoji
        // a // b
        matchKey @calculatedFrom(""a\""b"") `it's`,
    },
    @tag(007)
    @calculatedFrom(""a\\"")
    @tag(3)
    f32 f32a @lengthOf(asx) `crlf
        line`,
    repeat i8 string_,
    @lengthOf(Logon)
    @lengthOf(x_y_z)
    @lengthOf(zchar)
    repeat char[65535] Foo `" ++ [233]%N ++ runes_of_ascii "`,
    @calculatedFrom(""abc"")
    trueish @lengthOf(A),
    char[0] float,
    Packet @calculatedFrom(""a	b""),
}

MetaData Pad {
    char[00] leftPad,
    u8 rootA `
        `,
    //
    // " ++ [128512]%N ++ runes_of_ascii " emoji
    int32 a1 `say ""hi""`,
    Z9_ float,//x
    i32 Pad,
}")).
Eval vm_compute in ("<<<M154>>>" ++ check (runes_of_ascii "packet BodyLength
    // a // b
    {@rightPad (
'\x00' )
u8x/// triple
,  @tag(  007
) @calculatedFrom( ""packet""	) repeat  uint8x x_y_z, }
    MetaData A {
    // packet A { u8 x, }
    Z9_ // a // b
f32a ,
    zchar[ 255// a // b
]
    msg_type`say ""hi""` ,char[ 1	]Logon  `tab	here` ,//
}
packet uint8x {  @calculatedFrom(
""" ++ [28040; 24687]%N ++ runes_of_ascii """ )@tag(// `tick` ""quote"" 'q'
65535)	u32 int
@lengthOf( u8x )
`say ""hi""`
,	@leftPad ( ' ') stringy //
{
    string_ A ,
    char[ 4294967296
] i8i8 `" ++ [233]%N ++ runes_of_ascii "`	, char[]  Logon
,
string
x_y_z@lengthOf(	Packet ),
} , zchar[	4294967296 ]
int	`{ , }` , }
// trailing space 
// " ++ [27880; 37322]%N ++ runes_of_ascii "
packet u8x
    { }
// a // b
")).
Eval vm_compute in ("<<<M1239>>>" ++ check (runes_of_ascii "// top
options // c0
{ // c1a
  // c1b
zchar // c2
= // c3a
  // c3b
true // c4
; Pad // c6a
  // c6b
=
    // c7
char[ 00 // c9a
  // c9b
]
    // c10
a1 = // c12a
  // c12b
uint32 // c13a
  // c13b
BodyLength = true // c16a
  // c16b
;
    // c17
} root // c19
packet // c20
T // c21a
  // c21b
{
    // c22
@lengthOf( // c23a
  // c23b
repeatCount ) @tag( // c26a
  // c26b
1
    // c27
) // c28a
  // c28b
@calculatedFrom( // c29
""a	b"" // c30a
  // c30b
) // c31a
  // c31b
string // c32
stringy @calculatedFrom( ""\n"" ) // c36
`u8 x,` // c37a
  // c37b
, // c38
} // c39
")).
Eval vm_compute in ("<<<M1758>>>" ++ check (runes_of_ascii "options {
    leftPad = 0;
    //
    Logon = char// `tick` ""quote"" 'q'
    i64_ = '\x00';
}

options {
    crc = i32;
    matchKey = 255
    leftPad = ' ';
    metadata = 42;
    packetx = 10
}

root packet A {
    @calculatedFrom(""x y"")
    /// triple
    zchar[00] f32a,
    @tag(255)
    zchar[0123456789] a1 @lengthOf(As) `" ++ [28040; 24687; 31867; 22411]%N ++ runes_of_ascii "`,
    int16 body,// `tick` ""quote"" 'q'
    uint64 x @calculatedFrom(""1"") `line1
        line2`,
    @lengthOf(Logon)
    char[0] float @calculatedFrom(""abc""),
}

MetaData u128 {
}")).
Eval vm_compute in ("<<<M291>>>" ++ check (runes_of_ascii "root
// " ++ [27880; 37322]%N ++ runes_of_ascii "
// @lengthOf(
packet
    Packet
{ string o @calculatedFrom( ""\" ++ [233]%N ++ runes_of_ascii """)
, @lengthOf( Packet
    // packet A { u8 x, }
    ) body @calculatedFrom( // @lengthOf(
""x y"" )
`it's` ,
float64 As @calculatedFrom( ""`tick`""	), char[]	stringy  @calculatedFrom(""" ++ [28040; 24687]%N ++ runes_of_ascii """	) `doc` , @calculatedFrom(""a	b"") match
float as o{ [ """ ++ [128512]%N ++ runes_of_ascii """
    ,007]
    :metadata
,
} ,f32a a1 `a\` , }
MetaData
repeatCount
    { packetx i64_ `" ++ [28040; 24687; 31867; 22411]%N ++ runes_of_ascii "` , // " ++ [128512]%N ++ runes_of_ascii " emoji
zchar[
3
] tag ,
i8i8 int , }
")).
Eval vm_compute in ("<<<M1140>>>" ++ check (runes_of_ascii "// top
MetaData
    // c0
leftPad // c1
{
    // c2
chars // c3a
  // c3b
MetaDataX // c4
, // c5a
  // c5b
} packet // c7a
  // c7b
repeatCount // c8
{ char[
    // c10
255 // c11a
  // c11b
] // c12a
  // c12b
uint8x
    // c13
`" ++ [233]%N ++ runes_of_ascii "` // c14a
  // c14b
,
    // c15
} // c16a
  // c16b
MetaData // c17a
  // c17b
pack // c18
{ // c19a
  // c19b
As // c20a
  // c20b
Foo
    // c21
,
    // c22
} // c23a
  // c23b
")).
Eval vm_compute in ("<<<M1486>>>" ++ check (runes_of_ascii "packet crc {
    match trueish as len {
        42 : uint8x,
        // " ++ [128512]%N ++ runes_of_ascii " emoji
        ""1"" : asx,
        3 : body,
        [""1"", 0123456789] : u,
        ""packet"" : o,
    },
}

MetaData tag {
    string o `line1
        line2`,
    char[] Header `{ , }`,
    uint8x Z9_,
}

MetaData tag {
    i8 len,
}

options {
    // `tick` ""quote"" 'q'
    /// triple
    x = 10;
}")).
Eval vm_compute in ("<<<M30>>>" ++ check (runes_of_ascii "packet
repeatCount
    {@calculatedFrom(	""abc"" ) zchar[
    // @lengthOf(
    0
] // `tick` ""quote"" 'q'
MetaDataX  `
`	, string_
@calculatedFrom( ""1""
    ) ,	match string_
    as msg_type{ [// a // b
65535	,// a // b
""a	b""
    , 7
    ,	255 ]:
matchKey , 10 :
    options1 , 3 :Logon
    , } ,
    // " ++ [27880; 37322]%N ++ runes_of_ascii "
    packetx `a\` ,}
")).
Eval vm_compute in ("<<<M81>>>" ++ check (runes_of_ascii "root packet o {
} MetaData uint8x
    { int64 rootA  ,}
    MetaData
As{i32 // packet A { u8 x, }
chars,	}packet Z9_// trailing space 
{
@leftPad( )char[]	x_y_z,} packet tag {	@leftPad(
// " ++ [128512]%N ++ runes_of_ascii " emoji
// " ++ [27880; 37322]%N ++ runes_of_ascii "
' '
    )
zchar[ 0 // `tick` ""quote"" 'q'
] rootA @calculatedFrom(
    ""a\\"" )
    `tab	here`
,}")).
Eval vm_compute in ("<<<M1322>>>" ++ check (runes_of_ascii "packet

    P1
    { u8

    a 
,
} packet

P2  { 
P1
	,
    }  packet	P3 {	P2  ,

P1	,}
	packet  P4

{ 
repeat  P3
	,

P2,

}root

    packet
    P5 {
P4,

    P3

,

    P1 , u8	K
    ,match
    K as Body {
	4:P4 ,
3

: P3 ,
	2 : P2 , 1
: P1	,
}	,  }")).
Eval vm_compute in ("<<<M1313>>>" ++ check (runes_of_ascii "options	{ FixedStringPadChar
=

'0';  }packet
Q
{ zchar[4  ]

z
	, @rightPad  ('\x00'  )

    char[ 
3
]
n , char[
    5 ]  d,
}

    root
packet
R

{

    Q 
, zchar[8 
]top

    ,	repeat zchar[	2
]
	zs

    , 
}")).
Eval vm_compute in ("<<<M1768>>>" ++ check (runes_of_ascii "
packet

    repeatCount{  trueish ,  }packet  uint8x
    { 	 /// triple
    match
u8x 
as 
calculatedFrom  {
    [
4294967296
]

:len

, [""" ++ [128512]%N ++ runes_of_ascii """ 
,""" ++ [233]%N ++ runes_of_ascii "t" ++ [233]%N ++ runes_of_ascii """
,	255
,//

  1 ] : falsey,
    }

    ,
	}
")).
Eval vm_compute in ("<<<M1420>>>" ++ check (runes_of_ascii "// top
root
        // c0

packet  // c1
P  // c2a
	// c2b
  {	// c3
    	char 
	    // c4

c 	 // c5a
// c5b

,// c6a
	// c6b
u8  
  // c7
  x // c8
,	// c9
	}	// c10
")).
Eval vm_compute in ("<<<M145>>>" ++ check (runes_of_ascii "MetaData //x
Packet
/// triple
// " ++ [27880; 37322]%N ++ runes_of_ascii "
{	u
/// triple
// c
lengthOf `say ""hi""`
    , } MetaData metadata {
    crc chars `crlf
line` , asx f32a /// triple
,
}

")).
Eval vm_compute in ("<<<M511>>>" ++ check (runes_of_ascii "packet uint8x
{ match pack
    as msg_type	{
    0123456789 :	float
}
,
} packet //	t
a1
    { } options {packetx
    = '\x00'	; u128 u128= ""a	b""  ; }
")).
Eval vm_compute in ("<<<M486>>>" ++ check (runes_of_ascii "packet uint8x
{ match pack
    as msg_type	{
    0123456789 :	float
}
,
} packet //	t
a1
    { } options { {packetx
    = '\x00'	; u128= ""a	b""  ; }
")).
Eval vm_compute in ("<<<M407>>>" ++ check (runes_of_ascii "packet uint8x
{ pack match
    as msg_type	{
    0123456789 :	float
}
,
} packet //	t
a1
    { } options {packetx
    = '\x00'	; u128= ""a	b""  ; }
")).
Eval vm_compute in ("<<<M1660>>>" ++ check (runes_of_ascii "

  MetaData  leftPad {	chars	MetaDataX ,
	} 	 // c
	packet repeatCount
    {
	char[ 
255
    ]

    uint8x
`" ++ [233]%N ++ runes_of_ascii "`,

}
MetaData 
pack
{As 
Foo	,

}
")).
Eval vm_compute in ("<<<M652>>>" ++ check (runes_of_ascii "// @lengthOf(
packet i8i8 { u128 o , }
options { MetaDataX = true;
    BodyLength =""packet"" x_y_z= 007
crc crc //x
= ""abc"" ;
    msg_type =
i16 }")).
Eval vm_compute in ("<<<M551>>>" ++ check (runes_of_ascii "packet uint8x
{ match pack
    as " ++ [21517; 23383]%N ++ runes_of_ascii "	{
    0123456789 :	float
}
,
} packet //	t
a1
    { } options {packetx
    = '\x00'	; u128= ""a	b""  ; }
")).
Eval vm_compute in ("<<<M663>>>" ++ check (runes_of_ascii "// @lengthOf(
packet i8i8 { u128 o , }
options { MetaDataX = true;
    BodyLength =""packet"" x_y_z= 007
crc //x
= ""abc"" ;
    msg_type =
i16 ")).
Eval vm_compute in ("<<<M697>>>" ++ check (runes_of_ascii "// @lengthOf(
packet i8i8 { u128 o , }
, { MetaDataX = true;
    BodyLength =""packet"" x_y_z= 007
crc //x
= ""abc"" ;
    msg_type =
i16 }")).
Eval vm_compute in ("<<<M1414>>>" ++ check (runes_of_ascii "packet A
{

match
k

as
n	{  [ ""a""

,

""bb"" , 007 , ""d""

    ,
""e"",  66

, 
""g""
	, ""h""
    ,9
	,

""j""]
    : B,

2
	:  C 
},	} ")).
Eval vm_compute in ("<<<M1942>>>" ++ check (runes_of_ascii "packet A 
{
match k
as

n
    {
	[  ""a"",
    ""bb""
	, 
007	, ""d""

, 
""e"",66

,""g""	,  ""h""

,
	9 ,	""j""
	]	:B	2

: 
C }

,
}")).
Eval vm_compute in ("<<<M1153>>>" ++ check (runes_of_ascii "MetaData leftPad { chars MetaDataX , // c
} packet repeatCount { char[ 255 ] uint8x `" ++ [233]%N ++ runes_of_ascii "` , } MetaData pack { As Foo , }")).
Eval vm_compute in ("<<<M1185>>>" ++ check (runes_of_ascii "MetaData leftPad { chars MetaDataX , } packet repeatCount { char[ 255 ] uint8x `" ++ [233]%N ++ runes_of_ascii "` , } MetaData pack { As Foo // c
, }")).
Eval vm_compute in ("<<<M1882>>>" ++ check (runes_of_ascii "packet
    A 
{ match

    k  as  n 
{
	[1,	22
, ""c c"" ,4,
    5  ]  :

    B

    ,
2

    :	C }
, }

")).
Eval vm_compute in ("<<<M955>>>" ++ check (runes_of_ascii "packet A {
    u16 len @lengthOf(body) `
x`,
    u32 crc @calculatedFrom(""CRC32"") `
x`,
    string body,
}")).
Eval vm_compute in ("<<<M920>>>" ++ check (runes_of_ascii "packet A {
    Inner {
        u8 x `a
b`,
        Deep {
            u8 y `a
b`,
        },
    },
}")).
Eval vm_compute in ("<<<M932>>>" ++ check (runes_of_ascii "packet A {
    Inner {
        u8 x `
`,
        Deep {
            u8 y `
`,
        },
    },
}")).
Eval vm_compute in ("<<<M863>>>" ++ check (runes_of_ascii "packet A {
  match k as n {
    [""a"", ""bb"", 007, ""d"", ""e"", 66, ""g"", ""h""] : B
    2 : C
  },
}")).
Eval vm_compute in ("<<<M388>>>" ++ check (runes_of_ascii "root packet SimpleMessage {
    uint16 MsgType `" ++ [28040; 24687; 31867; 22411]%N ++ runes_of_ascii "`,
    string JsonBody `Json" ++ [23383; 31526; 20018; 28040; 24687; 20307]%N ++ runes_of_ascii "`,
}")).
Eval vm_compute in ("<<<M859>>>" ++ check (runes_of_ascii "packet A {
  match k as n {
    [""a"", 22, ""c c"", 4, ""e"", 66, ""g"", 8] : B
    2 : C
  },
}")).
Eval vm_compute in ("<<<M846>>>" ++ check (runes_of_ascii "packet A {
  match k as n {
    [""a"", 22, ""c c"", 4, ""e"", 66, ""g""] : B
    2 : C
  },
}")).
Eval vm_compute in ("<<<M1860>>>" ++ check (runes_of_ascii "packet A {
    match k as n {
        [""a"", ""bb"", 007] : B,
        2 : C,
    },
}")).
Eval vm_compute in ("<<<M840>>>" ++ check (runes_of_ascii "packet A {
  match k as n {
    [1, 22, 007, 4, 5, 66, 7] : B
    2 : C
  },
}")).
Eval vm_compute in ("<<<M811>>>" ++ check (runes_of_ascii "packet A {
  match k as n {
    [""a"", ""bb"", 007, ""d""] : B
    2 : C
  },
}")).
Eval vm_compute in ("<<<M877>>>" ++ check (runes_of_ascii "packet A { Inner { match k as n { [1,22,007,4,5,66,7,8,9] : B, }, }, }")).
Eval vm_compute in ("<<<M1630>>>" ++ check (runes_of_ascii "root packet P {
    u16 a,
    u32 Sum @calculatedFrom(""CRC32""),
}")).
Eval vm_compute in ("<<<M261>>>" ++ check (runes_of_ascii "options{ asx= ""1"" //	t
Pad =  0 stringy =
    '\x00'
    ; }")).
Eval vm_compute in ("<<<M1097>>>" ++ check (runes_of_ascii "packet A {
    match k as n {
        1 : B,// c
    },
}")).
Eval vm_compute in ("<<<M1200>>>" ++ check (runes_of_ascii "packet
// c
body { i32 f32a `{ , }` , } options { }")).
Eval vm_compute in ("<<<M1719>>>" ++ check (runes_of_ascii "root packet A {
    u8 x `a
        b
      c`,
}")).
Eval vm_compute in ("<<<M1417>>>" ++ check (runes_of_ascii "root packet A {
    u8 x `tab
        	x`,
}")).
Eval vm_compute in ("<<<M1439>>>" ++ check (runes_of_ascii "root packet P {
    char c,
    u8 x,
}")).
Eval vm_compute in ("<<<M946>>>" ++ check (runes_of_ascii "root packet A {
    u8 x `a

b`,
}")).
Eval vm_compute in ("<<<M1578>>>" ++ check (runes_of_ascii "packet A {
    // a
    u8 x,
}")).
Eval vm_compute in ("<<<M941>>>" ++ check (runes_of_ascii "packet A {
    u8 x `a

b`,
}")).
Eval vm_compute in ("<<<M1899>>>" ++ check (runes_of_ascii "MetaData tag {
    // c
}")).
Eval vm_compute in ("<<<M1107>>>" ++ check (runes_of_ascii "MetaData tag // c
{ }")).
Eval vm_compute in ("<<<M1130>>>" ++ check (runes_of_ascii "MetaData // c
u { }")).
Eval vm_compute in ("<<<M1021>>>" ++ check (runes_of_ascii "packet A {
}
// c" ++ [8239]%N)).
Eval vm_compute in ("<<<M1004>>>" ++ check (runes_of_ascii "packet A {
}// c" ++ [8202]%N)).
Eval vm_compute in ("<<<M762>>>" ++ check (runes_of_ascii "w|lL|]kVFeknSP9")).
Eval vm_compute in ("<<<M399>>>" ++ check (runes_of_ascii "packet")).
Eval vm_compute in ("<<<M736>>>" ++ check (runes_of_ascii " " ++ [12]%N ++ runes_of_ascii " ")).
