From FP Require Import Lexer Parser ShowPT Digest Formatter.
From Coq Require Import String List NArith.
Import ListNotations.
Open Scope string_scope.
Set Printing Width 100000000.
Set Printing Depth 100000000.
Definition show_fres (r : fres) : string :=
  match r with
  | FOk s => "OK:" ++ sh_escaped s ""
  | FErr s => "ERR:" ++ sh_escaped s ""
  | FPanic p => "PANIC:" ++ p
  end.
Definition check (rs : list rune) : string := digest (show_fres (format_res rs)).
Definition full (rs : list rune) : string := show_fres (format_res rs).
Eval vm_compute in ("<<<M1334>>>" ++ check (runes_of_ascii "// top
options
    // c0
{ // c1
LittleEndian // c2
= false // c4
; ArrayPrefixLenType =
    // c7
u8 ; FixedStringPadFromLeft // c10a
  // c10b
= // c11
true // c12
;
    // c13
FixedStringPadChar // c14
= // c15
'0' // c16
; // c17
}
    // c18
packet Heartbeat
    // c20
{ string // c22a
  // c22b
lastPx ,
    // c24
uint8 // c25a
  // c25b
Qty // c26a
  // c26b
,
    // c27
i64 Acct // c29
, // c30a
  // c30b
char[ // c31
4 // c32a
  // c32b
] Ref , // c35a
  // c35b
} // c36a
  // c36b
packet
    // c37
Fill // c38
{ // c39a
  // c39b
uint8 // c40a
  // c40b
Ref , Heartbeat // c43
, // c44a
  // c44b
f32 OrderId , // c47a
  // c47b
repeat f32 // c49
x , // c51
} root packet // c54a
  // c54b
Order // c55a
  // c55b
{ // c56a
  // c56b
zchar[ // c57a
  // c57b
2 // c58
]
    // c59
OrderId // c60a
  // c60b
, zchar[
    // c62
2 // c63a
  // c63b
] // c64
Acct // c65a
  // c65b
, zchar[ // c67
1 // c68a
  // c68b
]
    // c69
Note // c70
, // c71a
  // c71b
zchar[
    // c72
9 // c73
] // c74a
  // c74b
Qty // c75a
  // c75b
, // c76
string
    // c77
price ,
    // c79
string // c80
tag7
    // c81
,
    // c82
u32 // c83
x // c84
,
    // c85
match // c86a
  // c86b
x // c87a
  // c87b
as
    // c88
Body {
    // c90
123 // c91
: Fill
    // c93
, 112 // c95
: Heartbeat // c97
, } // c99a
  // c99b
, // c100a
  // c100b
u32 // c101a
  // c101b
seqNo // c102
@calculatedFrom( // c103
""CRC32"" // c104a
  // c104b
) // c105
,
    // c106
} // c107a
  // c107b
")).
Eval vm_compute in ("<<<M1478>>>" ++ check (runes_of_ascii "options {
    StringPrefixLenType = u16;// c5a
    // c5b
    ArrayPrefixLenType = u32;
    // c9
    FixedStringPadFromLeft = true;// c13
    FixedStringPadChar = '0';// c17
}// c18

packet Cancel {
}

packet Party {
}

// c26
packet Logon {
}

packet Ack {
}

// c34
packet Logout {
    repeat InSym87 {
        InClordid94 {
            // c42
            string clOrdID,// c45a
        },
        // c47
        string Px,
        // c50
        i16 Qty,
        // c53
        repeat InCount71 {
            // c56
            repeat Cancel,
            // c59
            uint16 Tail,
            // c62
            char[2] x,
            // c67
            repeat string Ref,
        },
        // c73
        Cancel,// c75a
    },// c77
}

// c78
root packet Order {
    repeat string tag7,
    @leftPad(' ')
    // c90a
    // c90b
    char[3] Px,
    // c95
    u8 Qty,
    // c98
    match Qty as Body {
        // c103
        [28, 62] : Logon,
        148 : Ack,
        // c115
        88 : Party,
        184 : Cancel,
        // c123a
    },// c125
    u16 Note @calculatedFrom(""CRC32""),
}// c132")).
Eval vm_compute in ("<<<M316>>>" ++ check (runes_of_ascii "// `tick` ""quote"" 'q'
packet crc { @tag(0 ) //x
chars , i8i8
@lengthOf( packetx ), repeat
f32a
    {
match packetx as a1{
    ""x y""
:
//
// `tick` ""quote"" 'q'
Packet, } ,}
, @leftPad(
'\x00' )
uint8 int ,
match float as a1 {
    // `tick` ""quote"" 'q'
    [4294967296
    ]
:// " ++ [27880; 37322]%N ++ runes_of_ascii "
Packet
    , } //
, repeat zchar[ 007 ] zchar`tab	here`
    , repeat
// " ++ [27880; 37322]%N ++ runes_of_ascii "
// a // b
x
    , }	packet
string_
    // c
    { char[
0123456789] a1
, @calculatedFrom( ""a\\"" ) @tag( 42)
@leftPad
('\x00' ) options1
    @calculatedFrom( """ ++ [28040; 24687]%N ++ runes_of_ascii """
)`it's`	, repeat
rootA// packet A { u8 x, }
{
    //
    match Logon as Packet { [10 ,	255 , 0,
007 ,
""CRC32""
, ""abc"" ] : len , """ ++ [28040; 24687]%N ++ runes_of_ascii """:	a1	, } , match leftPad as Header { 007:  As
, 255: repeatCount , /// triple
"""" // packet A { u8 x, }
: matchKey //
, [ 255 ,
    3,	""abc"" , """", ""\n"" , 1
, """"// " ++ [27880; 37322]%N ++ runes_of_ascii "
,
42//x
] : pack ,
}
, }
// @lengthOf(
// `tick` ""quote"" 'q'
, int
{int64 chars , }// @lengthOf(
, } 	 ")).
Eval vm_compute in ("<<<M28>>>" ++ check (runes_of_ascii "options
    { string_
= false
    ; falsey  = char[// " ++ [128512]%N ++ runes_of_ascii " emoji
4294967296 ] ; } packet
    zchar{match float as len { [ """ ++ [233]%N ++ runes_of_ascii "t" ++ [233]%N ++ runes_of_ascii """ ]:
matchKey
    , 3 : // " ++ [27880; 37322]%N ++ runes_of_ascii "
u [ 4294967296
, ""1"" ] :
// `tick` ""quote"" 'q'
// c
zchar , } // c
,} MetaData
    // @lengthOf(
    T {
// c
// a // b
}	packet packetx  { uint16 uint8x @calculatedFrom( ""it's"" ) ,
stringy { i16 crc
`{ , }`	, }
, zchar[ 00
] x
,
    zchar{ uint64 tag , zchar
f32a	`say ""hi""` , uint32 A `{ , }` , match _x as
falsey
{ [ 007// " ++ [128512]%N ++ runes_of_ascii " emoji
,
    """ ++ [128512]%N ++ runes_of_ascii """] :
    matchKey// " ++ [128512]%N ++ runes_of_ascii " emoji
[ 0123456789,3 ] : T
// " ++ [128512]%N ++ runes_of_ascii " emoji
// `tick` ""quote"" 'q'
1: Foo ,
}
    ,// trailing space 
} ,A ,
    zchar[
    // packet A { u8 x, }
    4294967296 ] string_ @lengthOf( float ) ,match rootA as As
    { [ ""it's"",
255 , 0123456789 ,
// packet A { u8 x, }
//	t
""" ++ [233]%N ++ runes_of_ascii "t" ++ [233]%N ++ runes_of_ascii """	, ""{,}"" ,	""abc""
    , """ ++ [233]%N ++ runes_of_ascii "t" ++ [233]%N ++ runes_of_ascii """]:int, 4294967296 : tag , } , }
")).
Eval vm_compute in ("<<<M1423>>>" ++ check (runes_of_ascii "  options
{

    Header  = u32 ; }

options	{ i8i8

    = f64 ; 
body  = 
zchar[
        // " ++ [128512]%N ++ runes_of_ascii " emoji
	/// triple
00	//
  ]	;  } 
  //

MetaData

    BodyLength{ // trailing space 

}// " ++ [27880; 37322]%N ++ runes_of_ascii "
    	options 
{
Logon

    = u64 
As

=

    true  i64_  = '\x00'
;

    }root

    packet	asx
{

    @tag(
    // `tick` ""quote"" 'q'
//	t
4294967296 )	roots
@lengthOf(
A )  ,
repeat uint8

    u128 ,int32
    i64_

,
	u8  u
`` 
,  @lengthOf( 
    // c
  // c
  len ) uint64
	    //x

  matchKey
    ,	match	rootA

    as

    stringy {
    1 :

string_
,7
: charz 
,255 :	u128

, [// trailing space 

	0 ,
0123456789 ,

    1	,
    007]

: len  ,10 :trueish
	}	,
@rightPad (

    )char[
    7	]
    int//
    @lengthOf(
x
    )
`two words`
    ,}
")).
Eval vm_compute in ("<<<M52>>>" ++ check (runes_of_ascii "  MetaData
    // " ++ [27880; 37322]%N ++ runes_of_ascii "
    packetx { zchar[ 7 ] leftPad
`// not a comment` ,	}	packet i64_{@calculatedFrom(
"""" )
// trailing space 
// c
@lengthOf(
x_y_z ) @tag( 00
)
repeatCount
    // packet A { u8 x, }
    @calculatedFrom(""1"" ), } packet falsey { int16
_x
@calculatedFrom(	""it's"") , } // @lengthOf(
root
packet matchKey
    {repeat u32  Pad  `" ++ [233]%N ++ runes_of_ascii "`, zchar[ 7 ]
    leftPad
,match chars as lengthOf
{ 1 :
o
    42 : chars
// trailing space 
// c
,
}//x
, repeat
zchar[
    255]
a1, matchKey //
Packet
    // `tick` ""quote"" 'q'
    ,
f32
    tag
    ,
// @lengthOf(
// trailing space 
@calculatedFrom(  ""a\""b"" ) @leftPad( ' ' ) @lengthOf(
T) stringy
@lengthOf( o) ,packetx  i64_ ,}
/// triple
")).
Eval vm_compute in ("<<<M58>>>" ++ check (runes_of_ascii "packet pack
// c
// packet A { u8 x, }
{u8 a1
// trailing space 
/// triple
`say ""hi""` // packet A { u8 x, }
, @leftPad (
'\x00' )  uint8 Logon	`
` // `tick` ""quote"" 'q'
,
char[]lengthOf // " ++ [27880; 37322]%N ++ runes_of_ascii "
`" ++ [233]%N ++ runes_of_ascii "` ,
//
//x
repeat char[] As,
    //	t
    @lengthOf(string_ )  @calculatedFrom(
""a\\"" )
    repeat
    u8x	o	, char string_ @calculatedFrom(
""a\""b"" )
`tab	here`
    , repeat As { char[
    // packet A { u8 x, }
    0 ] i64_//	t
@lengthOf( T)
`" ++ [233]%N ++ runes_of_ascii "` , char[4294967296	]
T @calculatedFrom( ""\" ++ [233]%N ++ runes_of_ascii """ )
, trueish
, repeat int
{string Logon @calculatedFrom(	""1"" ) , metadata  ,
uint32
Z9_  , // " ++ [27880; 37322]%N ++ runes_of_ascii "
} , },@tag( 00 ) //	t
i16  a1 `a\`
    ,
    }
")).
Eval vm_compute in ("<<<M113>>>" ++ check (runes_of_ascii "options	{
As
= // packet A { u8 x, }
' '}MetaData o{} root packet pack
{ } packet tag // " ++ [128512]%N ++ runes_of_ascii " emoji
{ match falsey as
BodyLength	{ 4294967296
:
    lengthOf
// c
// " ++ [27880; 37322]%N ++ runes_of_ascii "
,[ ""x y""
,""a\\""
    ]
    : rootA , [
42 , ""a	b"" ,
    ""CRC32"" , 65535 ,""abc"" , 007 ]
:
u8x	""x y"" : A ,
    /// triple
    65535 :  i64_,
    0123456789 :
    Packet }
    , @lengthOf(  msg_type)	pack msg_type,
    @tag( 0 )@lengthOf( Packet
)/// triple
@tag(
3 )
//	t
// " ++ [128512]%N ++ runes_of_ascii " emoji
Foo , repeat float64 zchar, @calculatedFrom(
""a\""b""
) @lengthOf(A )@lengthOf( roots
) options1 @lengthOf(
Z9_ ),char[] T ,  }")).
Eval vm_compute in ("<<<M40>>>" ++ check (runes_of_ascii "packet stringy
//	t
//
{ repeat T// trailing space 
{ u64 lengthOf
`tab	here`  ,
repeat
_x { match calculatedFrom as Header { [""" ++ [233]%N ++ runes_of_ascii "t" ++ [233]%N ++ runes_of_ascii """
    ] : _x  ,// @lengthOf(
[""packet"" ] :
MetaDataX , 255 : u128,42 :
A
""// no comment"" : body
    , }
, repeat crc Foo, charz
    ,
}	,zchar[ 1
    ]i8i8@calculatedFrom( ""x y"" ),  uint8x
    // " ++ [27880; 37322]%N ++ runes_of_ascii "
    Pad
`line1
line2` , } ,
@lengthOf( u )
char[ //x
4294967296 ]crc, @tag(  007 //x
)repeatCount ,
repeat
    //x
    char[] Header, @rightPad ( )char[] string_ `a\` ,
    }
")).
Eval vm_compute in ("<<<M307>>>" ++ check (runes_of_ascii "  packet	charz	{
// " ++ [27880; 37322]%N ++ runes_of_ascii "
/// triple
repeat // c
string int `" ++ [28040; 24687; 31867; 22411]%N ++ runes_of_ascii "` , @calculatedFrom( ""it's"" ) @tag(
255 )  f64 // a // b
asx
,
string
T `doc` ,zchar[
007 ]tag @lengthOf( //
Z9_ )`// not a comment` , }
options{ u= u16; }
MetaData
    chars
    { i16 falsey , f64 pack,
    char[  1
    ]
asx
`it's`, char[] body ,
// `tick` ""quote"" 'q'
//x
}packet leftPad { @rightPad
(
// @lengthOf(
//x
)
repeat Pad float
    `{ , }`
,
    }	options {
    roots= true;  }
")).
Eval vm_compute in ("<<<M1325>>>" ++ check (runes_of_ascii "
options{	LittleEndian  =
	false	;
StringPrefixLenType 
=
u8
	;
ArrayPrefixLenType = u64
; FixedStringPadFromLeft
=

false ; 
FixedStringPadChar = ' ' ;	}
packet 
Reject

    {  repeat
	char[

    4

] seqNo ,

string Px ,

}
root
	packet
	Trade{
	@rightPad
( '0'
    )
char[  2 ] msgKind

, repeat
f64 price	,
    InAcct79

{

    repeat
Reject, zchar[	7	]OrderId , } 
,
    Reject  , 
}
")).
Eval vm_compute in ("<<<M235>>>" ++ check (runes_of_ascii "packet crc
// a // b
//x
{	u128
    packetx , // " ++ [128512]%N ++ runes_of_ascii " emoji
match roots	as
    //
    falsey
{ 0123456789 // a // b
: Header ""packet""// a // b
: // a // b
Z9_	3 : A ,
// trailing space 
// a // b
""a	b""  : roots 10
:  _x
, } , @tag( 255// a // b
) match
calculatedFrom  as	o {
    255 : string_ """ ++ [28040; 24687]%N ++ runes_of_ascii """ : i64_
,	} , }MetaData
T
{ float64 u	,} packet Pad { /// triple
}
")).
Eval vm_compute in ("<<<M1350>>>" ++ check (runes_of_ascii "options {

    LittleEndian=  false

;
    StringPrefixLenType=  u16	;	} packet
Heartbeat
{

@rightPad(
'0'
    )  char[ 7]
    seqNo 
,

    uint64 
Tail , i16
    Flags,

    u16 
msgKind,
}  root

    packet

Reject 
{	zchar[

    3 
]

tag7 
,	repeat 
Heartbeat	,

    repeat string
    clOrdID
,
    } ")).
Eval vm_compute in ("<<<M32>>>" ++ check (runes_of_ascii "packet int { T/// triple
{ repeat _x ,	} ,
    i64_ _x
    `
`, @calculatedFrom( ""x y"" )u32 A
,  match a1 as
    i8i8 { [ ""1""
,
4294967296
]:
    a1 ,"""":	a1
    , 007: a1 , [ ""CRC32"" ] :Header} , int64 As, int8 a1 , //
char[] float
`tab	here`/// triple
,
repeat zchar[ 1	]u8x,
} /// triple")).
Eval vm_compute in ("<<<M1250>>>" ++ check (runes_of_ascii "// top
packet
    // c0
Inner
    // c1
{ // c2a
  // c2b
u8
    // c3
a // c4a
  // c4b
, }
    // c6
root // c7
packet // c8
P // c9a
  // c9b
{
    // c10
Inner // c11a
  // c11b
ref_obj
    // c12
, // c13a
  // c13b
u8 x ,
    // c16
} // c17a
  // c17b
")).
Eval vm_compute in ("<<<M1373>>>" ++ check (runes_of_ascii "packet Sub {
    u8 a,
    @calculatedFrom(""CRC16"") i32 SubSum,
}
root packet Frame {
    u16 MsgType,
    u16 BodyLen @lengthOf(Body),
    Sub Body,
    string note,
    @calculatedFrom(""CRC16"") i32 Checksum,
    u8 tail,
}
")).
Eval vm_compute in ("<<<M26>>>" ++ check (runes_of_ascii "root packet body { repeat // c
i8i8
`it's`
,}
packet chars
{@rightPad
    (  '\x00' )
    // `tick` ""quote"" 'q'
    leftPad {
    char[ 10
]
    asx `" ++ [233]%N ++ runes_of_ascii "`, }
    // trailing space 
    ,
}
")).
Eval vm_compute in ("<<<M1301>>>" ++ check (runes_of_ascii "

  packet A
{u8 a

    ,
	} packet 
B { u16

    b , }root packet P

    {u8 K
    , match
    K as M
	{ [ 1
,
	2 ]: 
A

    ,

3 :B
    ,	7
    : A,
	}
	,  }

")).
Eval vm_compute in ("<<<M1613>>>" ++ check (runes_of_ascii "
packet  i64_

    {}MetaData
uint8x
    {Packet 
tag
	,

u8  repeatCount

,  x_y_z	_x

`" ++ [233]%N ++ runes_of_ascii "`
	,

    zchar[

    42]	crc `a\`

    ,	} 
options
	{

}
")).
Eval vm_compute in ("<<<M1889>>>" ++ check (runes_of_ascii "packet A {
    Inner {
        match k as n {
            [
                1, 22, 007, 4, 5,
                66, 7
            ] : B,
        },
    },
}")).
Eval vm_compute in ("<<<M548>>>" ++ check (runes_of_ascii "packet uint8x
{ match pack
    as msg_type	{
    0123456789 :	float
}
,
} packet //	t
a1
    { } options {packetx
    ''= '\x00'	; u128= ""a	b""  ; }
")).
Eval vm_compute in ("<<<M448>>>" ++ check (runes_of_ascii "packet uint8x
{ match pack
    as msg_type	{
    0123456789 :	float
=
,
} packet //	t
a1
    { } options {packetx
    = '\x00'	; u128= ""a	b""  ; }
")).
Eval vm_compute in ("<<<M483>>>" ++ check (runes_of_ascii "packet uint8x
{ match pack
    as msg_type	{
    0123456789 :	float
}
,
} packet //	t
a1
    { } '\x00' {packetx
    = '\x00'	; u128= ""a	b""  ; }
")).
Eval vm_compute in ("<<<M703>>>" ++ check (runes_of_ascii "// @lengthOf(
packet i8i8 { u128 o , }
options '1'{ MetaDataX = true;
    BodyLength =""packet"" x_y_z= 007
crc //x
= ""abc"" ;
    msg_type =
i16 }")).
Eval vm_compute in ("<<<M1530>>>" ++ check (runes_of_ascii "packet A {
    match k as n {
        [
            1, 007, 5, 7, 9,
            ""bb"", ""d"", ""f"", ""h"", ""j""
        ] : B,
        2 : C,
    },
}")).
Eval vm_compute in ("<<<M710>>>" ++ check (runes_of_ascii "// @lengthOf(
packet i8i8 { u128 o , }
options { MetaDataX = true;
    BodyLength =""packet"" x_y_z= 007
crc //x
= ""abc"" ;
    msg_type 
i16 }")).
Eval vm_compute in ("<<<M659>>>" ++ check (runes_of_ascii "// @lengthOf(
packet i8i8 { u128 o , }
options { MetaDataX = true;
    " ++ [21517; 23383]%N ++ runes_of_ascii " =""packet"" x_y_z= 007
crc //x
= ""abc"" ;
    msg_type =
i16 }")).
Eval vm_compute in ("<<<M1780>>>" ++ check (runes_of_ascii "MetaData leftPad {
    string u128 `say ""hi""`,
    A packetx,
    char[42] leftPad `tab	here`,
    i16 crc,
    string uint8x,
}")).
Eval vm_compute in ("<<<M1645>>>" ++ check (runes_of_ascii "root packet string_ {
    repeat char[00] rootA,
}

MetaData u {
    i32 options1,
}

MetaData rootA {
    u16 chars,
}")).
Eval vm_compute in ("<<<M1171>>>" ++ check (runes_of_ascii "MetaData leftPad { chars MetaDataX , } packet repeatCount { char[ 255 ] uint8x `" ++ [233]%N ++ runes_of_ascii "` // c
, } MetaData pack { As Foo , }")).
Eval vm_compute in ("<<<M967>>>" ++ check (runes_of_ascii "packet A {
    match k as n {
        ""x\
y"" : B,
        [""x\
y"", 1] : C,
        [1,2,3,4,5,""x\
y""] : D,
    },
}")).
Eval vm_compute in ("<<<M919>>>" ++ check (runes_of_ascii "packet A {
    u16 len @lengthOf(body) `a
b`,
    u32 crc @calculatedFrom(""CRC32"") `a
b`,
    string body,
}")).
Eval vm_compute in ("<<<M912>>>" ++ check (runes_of_ascii "packet A {
  match k as n {
    [1, 22, ""c c"", 4, 5, ""f"", 7, 8, ""i"", 10, 11, ""l""] : B,
    2 : C
  },
}")).
Eval vm_compute in ("<<<M1914>>>" ++ check (runes_of_ascii "packet	A
    {

match  k

    as n

{

    [

    ""a""
	,  22
]

    :
B  , 2
:  C } ,
}
")).
Eval vm_compute in ("<<<M600>>>" ++ check (runes_of_ascii "
packet
    asx {match u128 as lengthOf
{
//	t
// `tick` ""quote"" 'q'
255 packet x ,
    } ,	}")).
Eval vm_compute in ("<<<M560>>>" ++ check (runes_of_ascii "
packet
    false {match u128 as lengthOf
{
//	t
// `tick` ""quote"" 'q'
255 : x ,
    } ,	}")).
Eval vm_compute in ("<<<M555>>>" ++ check (runes_of_ascii "
asx
    packet {match u128 as lengthOf
{
//	t
// `tick` ""quote"" 'q'
255 : x ,
    } ,	}")).
Eval vm_compute in ("<<<M879>>>" ++ check (runes_of_ascii "packet A {
  match k as n {
    [1, 22, 007, 4, 5, 66, 7, 8, 9, 10] : B
    2 : C
  },
}")).
Eval vm_compute in ("<<<M1649>>>" ++ check (runes_of_ascii "
packet
	A

{match  k as n
    {	[
1
	,
	""bb""
,
    007 ,""d"" ]: B 
2	: C}
	,
    }
")).
Eval vm_compute in ("<<<M830>>>" ++ check (runes_of_ascii "packet A {
  match k as n {
    [1, ""bb"", 007, ""d"", 5, ""f""] : B,
    2 : C
  },
}")).
Eval vm_compute in ("<<<M802>>>" ++ check (runes_of_ascii "packet A {
  match k as n {
    [""a"", ""bb"", ""c c"", ""d""] : B,
    2 : C
  },
}")).
Eval vm_compute in ("<<<M601>>>" ++ check (runes_of_ascii "
packet
    asx {match u128 as lengthOf
{
//	t
// `tick` ""quote"" 'q'
255")).
Eval vm_compute in ("<<<M1431>>>" ++ check (runes_of_ascii "// top
packet body {
    i32 f32a `{ , }`,
}

// c7
options {
}// c10a")).
Eval vm_compute in ("<<<M788>>>" ++ check (runes_of_ascii "packet A {
  match k as n {
    [1, 22, 007] : B
    2 : C
  },
}")).
Eval vm_compute in ("<<<M825>>>" ++ check (runes_of_ascii "packet A { Inner { match k as n { [1,22,007,4,5] : B, }, }, }")).
Eval vm_compute in ("<<<M774>>>" ++ check (runes_of_ascii "packet A {
  match k as n {
    [1] : B
    2 : C
  },
}")).
Eval vm_compute in ("<<<M1205>>>" ++ check (runes_of_ascii "packet body { i32 // c
f32a `{ , }` , } options { }")).
Eval vm_compute in ("<<<M347>>>" ++ check (runes_of_ascii "packet As{
/// triple
// packet A { u8 x, }
}

")).
Eval vm_compute in ("<<<M1456>>>" ++ check (runes_of_ascii "  root
    packet  A{
u8
	x
`a
b`  , }

")).
Eval vm_compute in ("<<<M1650>>>" ++ check (runes_of_ascii "
root
packet

    msg_type 
{	}

")).
Eval vm_compute in ("<<<M952>>>" ++ check (runes_of_ascii "root packet A {
    u8 x `x
`,
}")).
Eval vm_compute in ("<<<M1018>>>" ++ check (runes_of_ascii "packet A {
 u8 x `d" ++ [8233]%N ++ runes_of_ascii "`, // c" ++ [8233]%N ++ runes_of_ascii "
}")).
Eval vm_compute in ("<<<M929>>>" ++ check (runes_of_ascii "packet A {
    u8 x `
`,
}")).
Eval vm_compute in ("<<<M1112>>>" ++ check (runes_of_ascii "MetaData tag { }
// c
")).
Eval vm_compute in ("<<<M1137>>>" ++ check (runes_of_ascii "MetaData u { }
// c
")).
Eval vm_compute in ("<<<M996>>>" ++ check (runes_of_ascii "packet A {
}
// c" ++ [5760]%N)).
Eval vm_compute in ("<<<M1802>>>" ++ check (runes_of_ascii "MetaData roots {
}")).
Eval vm_compute in ("<<<M310>>>" ++ check (runes_of_ascii "
MetaData A {}
")).
Eval vm_compute in ("<<<M255>>>" ++ check (runes_of_ascii " /// triple")).
Eval vm_compute in ("<<<M1050>>>" ++ check (runes_of_ascii "// c" ++ [65279]%N)).
