From FP Require Import Lexer Parser ShowPT Digest Formatter.
From Coq Require Import String List NArith.
Import ListNotations.
Open Scope string_scope.
Set Printing Width 100000000.
Set Printing Depth 100000000.
Definition show_fres (r : fres) : string :=
  match r with
  | FOk s => "OK:" ++ sh_escaped s ""
  | FErr s => "ERR:" ++ sh_escaped s ""
  | FPanic p => "PANIC:" ++ p
  end.
Definition check (rs : list rune) : string := digest (show_fres (format_res rs)).
Definition full (rs : list rune) : string := show_fres (format_res rs).
Eval vm_compute in ("<<<M100>>>" ++ check (runes_of_ascii "options
/// triple
//
{matchKey	= true ;	packetx =uint32; metadata =int64
    ;Packet = float64 _x= // @lengthOf(
""" ++ [233]%N ++ runes_of_ascii "t" ++ [233]%N ++ runes_of_ascii """}root packet asx { @rightPad (
'\x00')
@calculatedFrom( """" //
)  @tag( 4294967296)msg_type { repeat
zchar[ 65535 ]charz `{ , }`  , char
roots ,T { rootA
len ,
    } ,repeat u128  `u8 x,`
    , }
    ,  }
    root packet	MetaDataX{ // c
char[ 4294967296
]
    Z9_// `tick` ""quote"" 'q'
,lengthOf// c
rootA `{ , }`,@rightPad ( '0'
    ) zchar[	00
]i8i8 ,	char[
1
]a1	,
    // c
    float32 crc  `
` , Z9_
    { f32a {
    float32//
len, f32a{ char[
0 ]// " ++ [27880; 37322]%N ++ runes_of_ascii "
pack@calculatedFrom( ""it's"" )
, T @lengthOf(// 50% %s
f32a )
// c
// `tick` ""quote"" 'q'
, i64 lengthOf// " ++ [128512]%N ++ runes_of_ascii " emoji
@calculatedFrom(  ""x y"") , zchar[ 4294967296
]	As @calculatedFrom(  ""x y""
    )
    , }
    , } ,  repeat	calculatedFrom {  repeat Packet { x
    ,  } ,}
, u8x{ metadata
@calculatedFrom(
    ""1"" )
    // 50% %s
    , repeat zchar[ // a // b
65535 ]  Z9_ ,
// " ++ [128512]%N ++ runes_of_ascii " emoji
// a // b
} , match As as  repeatCount { 65535 : roots ,
""packet""
: uint8x ,
3 :
A,
""{,}"" :
    leftPad,} , } , @calculatedFrom( // trailing space 
""// no comment"" ) repeat stringy asx , char[] MetaDataX@lengthOf(
// " ++ [128512]%N ++ runes_of_ascii " emoji
// packet A { u8 x, }
A ), @rightPad	('0' ) @leftPad
    ( ' ' )	Z9_ @calculatedFrom( ""a\""b"" ) , match// packet A { u8 x, }
o	as repeatCount {[3 , 0123456789 ]
:
    // c
    string_ ,  4294967296 :
    Logon , 7 :o	, } ,
    }
    packet body {} 	 ")).
Eval vm_compute in ("<<<M1877>>>" ++ check (runes_of_ascii "  options
	{ 
}
	packet x { repeat // trailing space 
  rootA{repeat string 
Header 
,
}

,  chars	float  ,	@tag(65535 )x_y_z {
repeat
T
`// not a comment`
,  string  string_  /// triple
	  @lengthOf(
x_y_z
)
    `say ""hi""`  ,

    Header len``
,string
    lengthOf
    , } ,	@tag(
0123456789 )
	match  crc

    as
BodyLength 
{ ""\" ++ [233]%N ++ runes_of_ascii """
:repeatCount 65535  //x
	:
	i8i8
,
0  :
A,
    [""a	b""
	,
7  ]: packetx
,},@lengthOf( 
charz )

match

    body

    as uint8x
	{  // 50% %s
    00:

stringy [
    007
	,""`tick`""// 50% %s
      ,	""\n""] :  T
[""// no comment""

, ""a\\""]

    :	float,
[

    10 
]
://x

	A
    , ""a	b""	: 	 //	t
roots 
}

,
pack  { match // a // b
	Pad as
calculatedFrom {  255

    :string_

""" ++ [28040; 24687]%N ++ runes_of_ascii """: i64_ 
, }	,// " ++ [27880; 37322]%N ++ runes_of_ascii "
	uint32	matchKey

@calculatedFrom(
""1""

// 50% %s
) , 
len
	leftPad ,
    repeat 
MetaDataX  {
    i64 
	    // " ++ [128512]%N ++ runes_of_ascii " emoji
//
		len

,

}
, }
	,  char[] tag 
        // packet A { u8 x, }
    //x

@calculatedFrom(""packet""
)
    // `tick` ""quote"" 'q'

// a // b
`line1
line2`

    ,float ,
	uint8x	@lengthOf(

crc

    )  `it's` ,	@tag( 007

) float32
	tag	@calculatedFrom(""" ++ [233]%N ++ runes_of_ascii "t" ++ [233]%N ++ runes_of_ascii """	)	,}
")).
Eval vm_compute in ("<<<M1364>>>" ++ check (runes_of_ascii "// top
options
    // c0
{ // c1a
  // c1b
LittleEndian
    // c2
= // c3
true // c4a
  // c4b
;
    // c5
StringPrefixLenType
    // c6
= // c7a
  // c7b
u32 // c8
;
    // c9
ArrayPrefixLenType // c10a
  // c10b
= // c11a
  // c11b
u64 // c12a
  // c12b
; } // c14
packet
    // c15
Logon // c16a
  // c16b
{ // c17a
  // c17b
string
    // c18
OrderId // c19a
  // c19b
, // c20a
  // c20b
uint32 lastPx
    // c22
,
    // c23
repeat // c24
char[ // c25
6 ] Side2 // c28
, // c29a
  // c29b
i64 // c30a
  // c30b
Tail // c31
, // c32
repeat
    // c33
i8 // c34
f1
    // c35
, }
    // c37
packet // c38a
  // c38b
Party // c39
{ } packet Quote // c43a
  // c43b
{ // c44
repeat // c45
char[ 6 ] // c48
clOrdID // c49
, repeat Logon // c52
, // c53
}
    // c54
root // c55
packet
    // c56
Order // c57a
  // c57b
{
    // c58
zchar[ // c59a
  // c59b
5 // c60
]
    // c61
Acct ,
    // c63
repeat // c64a
  // c64b
f64 price ,
    // c67
} // c68
")).
Eval vm_compute in ("<<<M1492>>>" ++ check (runes_of_ascii "

  root packet	charz {float32
	matchKey
	@lengthOf(falsey

)
	`` 
,@lengthOf( stringy

) trueish {
uint16
f32a @lengthOf(  Foo  // 50% %s
  )
        // " ++ [27880; 37322]%N ++ runes_of_ascii "
	//	t
      ,	},	// a // b
  	@leftPad
()

    repeat 
char[
1

    ]
asx
	,@calculatedFrom(""" ++ [233]%N ++ runes_of_ascii "t" ++ [233]%N ++ runes_of_ascii """ ) 	 /// triple
	uint8

    Foo,
char	metadata
`crlf
line`  , // " ++ [27880; 37322]%N ++ runes_of_ascii "
repeat	x_y_z
`tab	here`, 
@tag( 65535

    )	o{
	uint16 rootA
    `100% of %d` 
,

match
    charz
as

    tag
	{10 : 
float 
,
    1 // trailing space 
	:

    Foo , },	repeat char[ 0]  _x ,
	repeat	Packet ,  } 
,	@calculatedFrom(

""" ++ [128512]%N ++ runes_of_ascii """ )
    @rightPad
	(
	) matchKey	{

char[]roots`crlf
line` 
,

uint8 trueish @calculatedFrom( ""CRC32""	)
	`doc`  , // " ++ [27880; 37322]%N ++ runes_of_ascii "
	int64 crc

@calculatedFrom(  """ ++ [128512]%N ++ runes_of_ascii """

),
}, @tag( 
7// @lengthOf(
    ) 
zchar[	42	]
    uint8x@lengthOf(
tag
) , }  // " ++ [27880; 37322]%N)).
Eval vm_compute in ("<<<M1382>>>" ++ check (runes_of_ascii "

  options 
{ ArrayPrefixLenType=  u32  ;

FixedStringPadFromLeft =false ;

    FixedStringPadChar 
='0';}packet
	Trade
    {
	repeat

InVenue78 {u16
	tag7 
,repeat InLastpx9	{ 
u8  pad0

,
	} , 
int64
Tail
    ,

repeat
    InQty37 {
char[ 
2	]
OrderId	,	zchar[
    6] 
lastPx 
,
	int64	Qty
,
	}
	,

uint8	Side2 ,

}	,  }
	packet Logon 
{

repeat string
	venue  , @rightPad (

'\x00'
	) char[

3]

sym,zchar[ 9
] count
    ,zchar[
7
]

f1
	,Trade  ,
    }
	packet

Logout{
	} root packet
	Reject	{int32	sym ,u8 Px,
u32 Tail
@lengthOf(	Body

    )
,

match 
Px
    as Body
{	184	: 
Trade
	,
    173 :
    Logon
,

12  :	Logout,
    } , u32 
tag7 @calculatedFrom(""CRC32""

    )
,
}")).
Eval vm_compute in ("<<<M1667>>>" ++ check (runes_of_ascii "packet
int{ /// triple
  lengthOf

,  // " ++ [27880; 37322]%N ++ runes_of_ascii "
match  x_y_z
	as
trueish{

    [""it's""
    ,
    0123456789

    ]
:
	i64_  ,} ,@tag(  255	)	@leftPad	// " ++ [27880; 37322]%N ++ runes_of_ascii "
  (	// packet A { u8 x, }
  '0'
)

options1

@calculatedFrom(""1""
)`
`  ,  // @lengthOf(
  @leftPad
    ( '\x00' )  // packet A { u8 x, }

	len
@lengthOf(
	rootA
)
,
i64_
	packetx ,
@tag(

42 )  int32 /// triple
trueish,i8

options1 
`two words`
	,	@leftPad(	'0' ) char[1	]
calculatedFrom

`tab	here` 
,  @lengthOf(

o  ) 
@tag(
    007// 50% %s
		)u8	_x 
@calculatedFrom( 
""`tick`"" ) 
,repeatCount @lengthOf(

    MetaDataX 
)

,  /// triple
  }
")).
Eval vm_compute in ("<<<M200>>>" ++ check (runes_of_ascii "packet charz {repeat i64_
, trueish
    {	repeat _x , repeatCount
, repeat
u16
// " ++ [128512]%N ++ runes_of_ascii " emoji
// a // b
matchKey `
` , trueish
@lengthOf( Z9_)	,
}
, zchar[3
    ]body	,
    @rightPad // @lengthOf(
(' ') body packetx `{ , }` , // packet A { u8 x, }
repeat matchKey { uint8
metadata
    ``
    // @lengthOf(
    ,  trueish @calculatedFrom( ""abc"" )
    ,
}
    , @lengthOf( packetx )	int32 uint8x`tab	here`,
@rightPad//
(
) @rightPad ( ) f32a
// " ++ [27880; 37322]%N ++ runes_of_ascii "
// a // b
,tag _x `a\` , } packet
    a1 {
@tag(4294967296 ) repeat
    f32 a1 `line1
line2` , }")).
Eval vm_compute in ("<<<M1496>>>" ++ check (runes_of_ascii "
packet	repeatCount

    {
	@tag(
7 )match	T as
i64_
{""" ++ [233]%N ++ runes_of_ascii "t" ++ [233]%N ++ runes_of_ascii """ : /// triple
    body
	,  } ,
@lengthOf(	crc )
    float64
    body `u8 x,`
,repeat// a // b

rootA  //	t
	  { int16
    x_y_z
    `two words`	// " ++ [27880; 37322]%N ++ runes_of_ascii "
	,
zchar[
    4294967296 

    // @lengthOf(

] trueish`two words` ,
Pad

@lengthOf( 
Pad)	`// not a comment`
    ,
} 
, 
tag
string_
	, 
@lengthOf( len )
// packet A { u8 x, }

	@tag( 255	)	@lengthOf( 
	// " ++ [27880; 37322]%N ++ runes_of_ascii "
	Logon  )
int
, Foo
	@lengthOf(

    leftPad	)

    `
` ,}")).
Eval vm_compute in ("<<<M1557>>>" ++ check (runes_of_ascii "  options
	{
    T 
=""" ++ [28040; 24687]%N ++ runes_of_ascii """ 
;  string_
	// @lengthOf(
// 50% %s
=
false
	;  f32a
=
    0123456789	;

    Z9_
    = 
255
	}MetaData

chars 	 // " ++ [27880; 37322]%N ++ runes_of_ascii "
		{ 
float32 charz `{ , }`
,  // @lengthOf(
  	zchar[	1  ] 
u8x

    `100% of %d`  , uint16	asx

`two words` ,
    char[
	4294967296] Header
, i32
	Logon
    ,
	char[
0123456789]  // c
crc
    , 
} 
packet/// triple
	options1{ falsey `crlf
line`  ,
// `tick` ""quote"" 'q'

/// triple
    }
")).
Eval vm_compute in ("<<<M1790>>>" ++ check (runes_of_ascii "// top
options {
}// c2a

// c2b
MetaData packetx {
    int falsey `two words`,// c9
    int32 trueish,
    // c12
    char[] u8x,
    A x `// not a comment`,// c19
}// c20a

// c20b
root packet i8i8 {
    @lengthOf(repeatCount)
    // c27a
    // c27b
    @tag(1)
    @calculatedFrom(""a	b"")
    // c33
    string stringy @calculatedFrom(""\n"") `line1
    line2`,// c40
    pack `100% of %d`,
    // c43
}// c44")).
Eval vm_compute in ("<<<M152>>>" ++ check (runes_of_ascii "packet uint8x
{ }root
    packet repeatCount{ @rightPad ( '\x00') // 50% %s
i16
    roots ,@rightPad() repeat// 50% %s
trueish{tag	@calculatedFrom( ""1"" )
`line1
line2` ,
    string crc `100% of %d` , repeat	char[]trueish //
`// not a comment`,
repeat
BodyLength u `{ , }`
, } ,
char tag
,
@lengthOf(
body )
@tag( 007 ) @calculatedFrom( """ ++ [128512]%N ++ runes_of_ascii """ )
    char[	007	] uint8x , }
")).
Eval vm_compute in ("<<<M234>>>" ++ check (runes_of_ascii "MetaData Header /// triple
{ As
options1 `two words` ,u64
matchKey `100% of %d`
    ,
    }
    root packet _x
{ @lengthOf( i64_ )A @calculatedFrom(
    // trailing space 
    ""{,}"" )	, x matchKey  , o@calculatedFrom( //	t
""{,}"" )	, @rightPad( '0' )
@lengthOf(Z9_	)@calculatedFrom(
    ""a\\"")
zchar[ 65535
] Packet @lengthOf(
    Packet)	,}
")).
Eval vm_compute in ("<<<M130>>>" ++ check (runes_of_ascii "root packet
    Z9_ { repeat /// triple
MetaDataX { stringy ,
    u32 pack , // @lengthOf(
}
    , } options
{
repeatCount =""it's"" metadata
=
""abc""
A = // `tick` ""quote"" 'q'
""CRC32"" ; x_y_z = // a // b
char[ 007	] ;
    } MetaData i8i8 {uint32  charz // a // b
`doc`
, //	t
}root packet trueish { }")).
Eval vm_compute in ("<<<M24>>>" ++ check (runes_of_ascii "packet float
// trailing space 
// c
{ @leftPad (' ')repeat char[] MetaDataX , @leftPad (
)
    i16 x_y_z @calculatedFrom( ""CRC32""
)
, }packet chars {
    } packet asx
{
@tag( 255)
@tag( 4294967296 ) @calculatedFrom(
""{,}""
    // c
    )
matchKey /// triple
o `
` ,}
")).
Eval vm_compute in ("<<<M1660>>>" ++ check (runes_of_ascii "// top
MetaData msg_type {
    // c2
    int32 As `crlf
        line`,// c6
    MetaDataX x `a\`,// c10
    int8 _x,// c13
    char[] As `u8 x,`,// c17
    zchar[3] uint8x,// c22
    As Foo,// c25
}// c26

root packet repeatCount {
    // c30
}// c31")).
Eval vm_compute in ("<<<M442>>>" ++ check (runes_of_ascii "packet
    asx { @calculatedFrom(
""""  ) @tag( 255 )repeat
// packet A { u8 x, }
// trailing space 
int16 u8x u8x
,
@tag(
    //
    007 )
    @tag( 0
    /// triple
    ) @tag( 1) u
    @lengthOf( T ),
// `tick` ""quote"" 'q'
//x
} // " ++ [128512]%N ++ runes_of_ascii " emoji")).
Eval vm_compute in ("<<<M532>>>" ++ check (runes_of_ascii "packet
    asx { @calculatedFrom(
""""  ) @tag( 255 )repeat
// packet A { u8 x, }
// trailing space 
int16 u8x
,
\@tag(
    //
    007 )
    @tag( 0
    /// triple
    ) @tag( 1) u
    @lengthOf( T ),
// `tick` ""quote"" 'q'
//x
} // " ++ [128512]%N ++ runes_of_ascii " emoji")).
Eval vm_compute in ("<<<M478>>>" ++ check (runes_of_ascii "packet
    asx { @calculatedFrom(
""""  ) @tag( 255 )repeat
// packet A { u8 x, }
// trailing space 
int16 u8x
,
@tag(
    //
    007 )
    @tag( 0
    /// triple
    @tag( ) 1) u
    @lengthOf( T ),
// `tick` ""quote"" 'q'
//x
} // " ++ [128512]%N ++ runes_of_ascii " emoji")).
Eval vm_compute in ("<<<M394>>>" ++ check (runes_of_ascii "packet
    { { @calculatedFrom(
""""  ) @tag( 255 )repeat
// packet A { u8 x, }
// trailing space 
int16 u8x
,
@tag(
    //
    007 )
    @tag( 0
    /// triple
    ) @tag( 1) u
    @lengthOf( T ),
// `tick` ""quote"" 'q'
//x
} // " ++ [128512]%N ++ runes_of_ascii " emoji")).
Eval vm_compute in ("<<<M1314>>>" ++ check (runes_of_ascii "// top
packet
    // c0
order_item // c1
{ // c2a
  // c2b
u8 // c3a
  // c3b
a // c4a
  // c4b
, // c5
} root packet new_order {
    // c10
order_item // c11
, // c12
u8 // c13a
  // c13b
x
    // c14
, } // c16a
  // c16b
")).
Eval vm_compute in ("<<<M1713>>>" ++ check (runes_of_ascii "packet len {
    @calculatedFrom(""{,}"")
    zchar[10] packetx `line1
        line2`,
    @lengthOf(metadata)
    @calculatedFrom(""a	b"")
    matchKey @lengthOf(As),
    chars uint8x `a\`,
    char[65535] Foo,
}")).
Eval vm_compute in ("<<<M31>>>" ++ check (runes_of_ascii "MetaData u128
    {// @lengthOf(
len x
    `it's` ,BodyLength
    Foo
`doc`, string_ a1 `{ , }`  ,	calculatedFrom u8x `u8 x,`
, MetaDataX// trailing space 
matchKey ,
}
packet u128	{ }")).
Eval vm_compute in ("<<<M1304>>>" ++ check (runes_of_ascii "packet A {
    u8 a,
}
packet B {
    u16 b,
}
root packet P {
    u8 K1,
    u8 K2,
    match K1 as M1 {
        1 : A,
    },
    match K2 as M2 {
        1 : B,
    },
}
")).
Eval vm_compute in ("<<<M699>>>" ++ check (runes_of_ascii "MetaData u
    { } MetaData o
{ float uint8x
`100% of %d` ,repeatCount u8x, string_ leftPad
, i32
    Foo , int64 x `two '1'words` , calculatedFrom
stringy `a\` ,
}
")).
Eval vm_compute in ("<<<M613>>>" ++ check (runes_of_ascii "MetaData u
    { } MetaData o
{ float uint8x
`100% of %d` ,repeatCount u8x string_ , leftPad
, i32
    Foo , int64 x `two words` , calculatedFrom
stringy `a\` ,
}
")).
Eval vm_compute in ("<<<M638>>>" ++ check (runes_of_ascii "MetaData u
    { } MetaData o
{ float uint8x
`100% of %d` ,repeatCount u8x, string_ leftPad
, i32
    , Foo int64 x `two words` , calculatedFrom
stringy `a\` ,
}
")).
Eval vm_compute in ("<<<M634>>>" ++ check (runes_of_ascii "MetaData u
    { } MetaData o
{ float uint8x
`100% of %d` ,repeatCount u8x, string_ leftPad
, =
    Foo , int64 x `two words` , calculatedFrom
stringy `a\` ,
}
")).
Eval vm_compute in ("<<<M352>>>" ++ check (runes_of_ascii "MetaData crc
    // " ++ [128512]%N ++ runes_of_ascii " emoji
    { packetx repeatCount  ,
    f32a As //x
`line1
line2`, crc len `line1
line2` , zchar[ 0123456789 ] uint8x , zchar[0 ]As, }
")).
Eval vm_compute in ("<<<M1773>>>" ++ check (runes_of_ascii "root packet body {
    string chars `" ++ [233]%N ++ runes_of_ascii "`,
    repeat uint8x,
    match uint8x as x {
        007 : calculatedFrom,
    },
    string_ falsey `
    `,
}")).
Eval vm_compute in ("<<<M1628>>>" ++ check (runes_of_ascii "  options {
} options 
{MetaDataX 
= char

;}MetaData Pad // c
	{ i8
    metadata
, string
    stringy

    ,
    int8 As 
`{ , }` , 
}
")).
Eval vm_compute in ("<<<M247>>>" ++ check (runes_of_ascii "root	packet
f32a { float32 // packet A { u8 x, }
pack`// not a comment`, // `tick` ""quote"" 'q'
}
packet
chars{
//	t
// " ++ [128512]%N ++ runes_of_ascii " emoji
}")).
Eval vm_compute in ("<<<M1965>>>" ++ check (runes_of_ascii "
root
packet

    MetaDataX  { }

    options	{  rootA  =	7;
_x

    =
""it's""
; matchKey	=
3
	}

packet
rootA
{	}
")).
Eval vm_compute in ("<<<M1731>>>" ++ check (runes_of_ascii "
packet A 
{ match k as 
n	{
[
1 ,
22
	, 007
, 4
    , 5

,

66
,
7,
    8
	,

9
]
:  B

,
	2: C
    }
,
}

")).
Eval vm_compute in ("<<<M1222>>>" ++ check (runes_of_ascii "options { } options { MetaDataX = char ; }
// c
MetaData Pad { i8 metadata , string stringy , int8 As `{ , }` , }")).
Eval vm_compute in ("<<<M977>>>" ++ check (runes_of_ascii "packet A {
    u16 len @lengthOf(body) `%%d%!`,
    u32 crc @calculatedFrom(""CRC32"") `%%d%!`,
    string body,
}")).
Eval vm_compute in ("<<<M179>>>" ++ check (runes_of_ascii "packet MetaDataX//	t
{ chars @lengthOf(  lengthOf
    ) `" ++ [233]%N ++ runes_of_ascii "`,
repeat int64 o	,
    }	MetaData matchKey { }")).
Eval vm_compute in ("<<<M1780>>>" ++ check (runes_of_ascii "
packet

A {  match k	as
    n 
{
[  1
,	""bb"",007 ,
	""d"" 
,
5  ,
""f""
	]

    : B ,2 :	C

}
,

}

")).
Eval vm_compute in ("<<<M972>>>" ++ check (runes_of_ascii "packet A {
    Inner {
        u8 x `%`,
        Deep {
            u8 y `%`,
        },
    },
}")).
Eval vm_compute in ("<<<M1878>>>" ++ check (runes_of_ascii "packet A {
    match k as n {
        [""a"", ""bb"", 007, ""d"", ""e""] : B,
        2 : C,
    },
}")).
Eval vm_compute in ("<<<M855>>>" ++ check (runes_of_ascii "packet A {
  match k as n {
    [1, ""bb"", 007, ""d"", 5, ""f"", 7, ""h""] : B
    2 : C
  },
}")).
Eval vm_compute in ("<<<M753>>>" ++ check (runes_of_ascii "} @tag( string zchar[ float32 f64 @calculatedFrom( i8 lengthOf ) u64 ' ' uint8 @tag(")).
Eval vm_compute in ("<<<M1316>>>" ++ check (runes_of_ascii "packet orderItem {
    u8 a,
}
root packet newOrder {
    orderItem,
    u8 x,
}
")).
Eval vm_compute in ("<<<M1455>>>" ++ check (runes_of_ascii "root packet P {
    u16 a,
    u32 Sum @calculatedFrom(""CR\
        C32""),
}")).
Eval vm_compute in ("<<<M811>>>" ++ check (runes_of_ascii "packet A {
  match k as n {
    [1, 22, 007, 4, 5] : B,
    2 : C
  },
}")).
Eval vm_compute in ("<<<M1663>>>" ++ check (runes_of_ascii "packet	A

{ repeat  // a
    B	// b

	b  // c
		`d`	// e
      , }
")).
Eval vm_compute in ("<<<M1253>>>" ++ check (runes_of_ascii "

  root

    packet	P 
{ char

    c  ,

u8 x

    ,
}

")).
Eval vm_compute in ("<<<M810>>>" ++ check (runes_of_ascii "packet A { Inner { match k as n { [1,22,007,4] : B, }, }, }")).
Eval vm_compute in ("<<<M64>>>" ++ check (runes_of_ascii "options	{
    BodyLength=
true ;string_= false ;	} 	 ")).
Eval vm_compute in ("<<<M1119>>>" ++ check (runes_of_ascii "// top
MetaData // c0
tag // c1
{ // c2
} // c3
")).
Eval vm_compute in ("<<<M1164>>>" ++ check (runes_of_ascii "// top
packet // c0
x { // c2
}
    // c3
")).
Eval vm_compute in ("<<<M768>>>" ++ check (runes_of_ascii "w<w-(B[D_CTb}.VTf6[j)R_7Mxw1`%hl?2D>/d")).
Eval vm_compute in ("<<<M1191>>>" ++ check (runes_of_ascii "options { A = ""// no comment"" // c
}")).
Eval vm_compute in ("<<<M950>>>" ++ check (runes_of_ascii "root packet A {
    u8 x `x
`,
}")).
Eval vm_compute in ("<<<M1047>>>" ++ check (runes_of_ascii "packet A {
 u8 x `d" ++ [8287]%N ++ runes_of_ascii "`, // c" ++ [8287]%N ++ runes_of_ascii "
}")).
Eval vm_compute in ("<<<M1823>>>" ++ check (runes_of_ascii "packet A {
    char[3] x,
}")).
Eval vm_compute in ("<<<M1145>>>" ++ check (runes_of_ascii "root packet // c
a1 { }")).
Eval vm_compute in ("<<<M1912>>>" ++ check (runes_of_ascii "// c
MetaData tag {
}")).
Eval vm_compute in ("<<<M1040>>>" ++ check (runes_of_ascii "packet A {
}
// c" ++ [8239]%N)).
Eval vm_compute in ("<<<M1033>>>" ++ check (runes_of_ascii "packet A {
}// c" ++ [8233]%N)).
Eval vm_compute in ("<<<M216>>>" ++ check (runes_of_ascii "packet u8x { }")).
Eval vm_compute in ("<<<M1019>>>" ++ check (runes_of_ascii "// c" ++ [8192]%N)).
