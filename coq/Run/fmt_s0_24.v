From FP Require Import Lexer Parser ShowPT Digest Formatter.
From Coq Require Import String List NArith.
Import ListNotations.
Open Scope string_scope.
Set Printing Width 100000000.
Set Printing Depth 100000000.
Definition show_fres (r : fres) : string :=
  match r with
  | FOk s => "OK:" ++ sh_escaped s ""
  | FErr s => "ERR:" ++ sh_escaped s ""
  | FPanic p => "PANIC:" ++ p
  end.
Definition check (rs : list rune) : string := digest (show_fres (format_res rs)).
Definition full (rs : list rune) : string := show_fres (format_res rs).
Eval vm_compute in ("<<<M1542>>>" ++ check (runes_of_ascii "root packet u {
    match crc as leftPad {
        [00] : o,
        42 : crc,
        [
            ""a	b"", ""CRC32"", ""a\""b"", ""\n"", 0,
            255
        ] : zchar,
        // " ++ [128512]%N ++ runes_of_ascii " emoji
        //
    },
    string stringy @lengthOf(matchKey),
    int,
    @tag(1)
    repeat zchar[4294967296] roots,
    @leftPad('\x00')
    x @lengthOf(crc),
}

packet repeatCount {
    zchar[255] f32a @calculatedFrom(""x y""),
    @tag(255)
    char[] asx @calculatedFrom(""" ++ [28040; 24687]%N ++ runes_of_ascii """),
    leftPad {
        /// triple
        // a // b
        repeat int u8x,
        i64 trueish @lengthOf(i8i8) `" ++ [28040; 24687; 31867; 22411]%N ++ runes_of_ascii "`,
        repeat int64 pack,
    },
    match float as o {
        //
        65535 : Pad,
        [""" ++ [128512]%N ++ runes_of_ascii """, """ ++ [28040; 24687]%N ++ runes_of_ascii """, 0123456789] : i8i8,
        7 : asx,
        00 : stringy,
    },
    @calculatedFrom(""" ++ [233]%N ++ runes_of_ascii "t" ++ [233]%N ++ runes_of_ascii """)
    f32a u,
    repeat msg_type `" ++ [233]%N ++ runes_of_ascii "`,
    repeat zchar[42] crc,
    uint64 lengthOf,
    repeat As ``,
    zchar[007] tag `tab	here`,
}

root packet charz {
    string msg_type,
    @calculatedFrom("""")
    repeat string tag `tab	here`,
    repeat calculatedFrom,
    repeat Foo,
    uint64 Foo @lengthOf(packetx),
    @rightPad()
    match falsey as calculatedFrom {
        [0, 10, ""a\""b""] : metadata,
    },
    @calculatedFrom(""\" ++ [233]%N ++ runes_of_ascii """)
    i64 As ``,
    @lengthOf(rootA)
    u32 Logon @lengthOf(a1),
    @calculatedFrom("""")
    @leftPad(' ')
    uint16 i8i8 @calculatedFrom(""// no comment""),
}

root packet uint8x {
    repeat f32 chars `tab	here`,
}

MetaData calculatedFrom {
    //
    // `tick` ""quote"" 'q'
    metadata crc,
}")).
Eval vm_compute in ("<<<M324>>>" ++ check (runes_of_ascii "MetaData Pad { char[] Packet , f32a i64_
    `tab	here`
// c
// a // b
,
} root packet
    As { @calculatedFrom(""CRC32""	)@calculatedFrom(  ""1""  ) @calculatedFrom( ""// no comment""
// a // b
//
)	As
As `say ""hi""` , Foo  msg_type , calculatedFrom
@calculatedFrom( ""\n"" ) , zchar {	zchar[ 7 ] charz // `tick` ""quote"" 'q'
@calculatedFrom(""x y"" )
    , Z9_
    `{ , }` , repeat int { zchar[ 3
] i8i8
    @lengthOf( chars )
,
match zchar as
    o {1 : //
u128	,
    0
:
// trailing space 
//x
stringy
, 42
: charz""x y"": a1 3 : Header ,
4294967296 : o } , repeat
Header `two words`, match u8x  as u8x
{
[ 10] : pack ,	1 :
BodyLength
//
// " ++ [27880; 37322]%N ++ runes_of_ascii "
0 : MetaDataX
,42
:  calculatedFrom },	} /// triple
, } , // " ++ [27880; 37322]%N ++ runes_of_ascii "
}
// `tick` ""quote"" 'q'
/// triple
packet
    i64_ { }
    root packet x { Header
{char[ /// triple
0 ] _x `// not a comment`
    ,
}
    ,@lengthOf( A
)uint32 f32a
@calculatedFrom( ""abc""
    )
// `tick` ""quote"" 'q'
// " ++ [27880; 37322]%N ++ runes_of_ascii "
,
repeat i16 trueish `u8 x,` ,@rightPad	( ' ' )@calculatedFrom( ""a\\"" ) float,
    repeat char[ 7
]zchar,
    @tag( 10 ) repeat
    //	t
    a1 falsey	`say ""hi""`,
    @lengthOf(
len )repeat zchar[	00
    // `tick` ""quote"" 'q'
    ] uint8x ,}
MetaData  metadata {
u8 body
, }")).
Eval vm_compute in ("<<<M1373>>>" ++ check (runes_of_ascii "options { // c1a
  // c1b
LittleEndian // c2
= // c3
true ;
    // c5
StringPrefixLenType = // c7
u64 ;
    // c9
ArrayPrefixLenType = u16 ; // c13a
  // c13b
FixedStringPadFromLeft =
    // c15
false // c16
; FixedStringPadChar // c18
=
    // c19
' ' // c20a
  // c20b
;
    // c21
} packet
    // c23
Logon { // c25
zchar[ // c26a
  // c26b
5 // c27a
  // c27b
] // c28a
  // c28b
Side2 // c29a
  // c29b
, // c30
} root // c32a
  // c32b
packet // c33
Logout // c34
{ // c35
repeat i64 Tail
    // c38
, // c39
Logon , // c41
repeat
    // c42
i16 // c43
OrderId , // c45
char[] // c46
venue // c47
, uint64
    // c49
x // c50a
  // c50b
,
    // c51
repeat // c52
i16 // c53
count , u8 // c56
Flags
    // c57
, match Flags
    // c60
as
    // c61
Body // c62a
  // c62b
{ 25
    // c64
: Logon
    // c66
, // c67a
  // c67b
} // c68
, // c69a
  // c69b
u16 Qty @calculatedFrom(
    // c72
""CRC32""
    // c73
) , // c75a
  // c75b
}
    // c76
")).
Eval vm_compute in ("<<<M1370>>>" ++ check (runes_of_ascii "
options	{FixedStringPadFromLeft

    = true;

FixedStringPadChar=

'0'	;
    }

    packet Leg { 
repeat
    InSym93  { 
zchar[3 ] Acct ,string Side2 ,i32 
Flags  ,  f32
    Note 
,

i32

msgKind
,
}

    ,f64

    Note 
, uint16	Px,} packet  Quote

{
zchar[ 2]  OrderId  ,
} packet  Ack
{ repeat  string
    lastPx
    , zchar[

4  ]
    price	, uint32
	OrderId ,	Quote,
    int8

Acct
, }
packet Fill {repeat

Leg
    ,	@rightPad(	'0')
	char[ 
11
	] 
Note  ,
    f64	Px ,
    @rightPad
    (

'\x00' )

char[
5
	]

Flags  ,	zchar[  9
]

    x,

    string msgKind

,
}
    root
    packet  Order
{

Leg  ,  repeat

Ack

,

@rightPad('\x00'  ) char[  3
    ]
Side2 ,
repeat
char[1
	]seqNo 
,
	u16	clOrdID 
,  match

    clOrdID as Body  {	198

:  Leg, 23 
:	Quote  ,13 : Ack
    ,
159	:
Fill
,  } , 
u32 venue @calculatedFrom(	""CRC32"" )
	,}
")).
Eval vm_compute in ("<<<M1795>>>" ++ check (runes_of_ascii "

  // trailing space 
	options { f32a 
=

false ;

stringy =true;u =
    ""\" ++ [233]%N ++ runes_of_ascii """
    ;
stringy  =  false	; }packet

options1  // " ++ [27880; 37322]%N ++ runes_of_ascii "
  { 
}

MetaData	packetx

    {f32 uint8x 
,
} root
	packet zchar
{@tag(  4294967296
    )
	@lengthOf(a1 )i8  _x
`it's`

    , //x
char[] o ,
body  , zchar[ 65535  ] msg_type `crlf
line` ,repeat

    BodyLength
	{ repeat char[
    65535 ] stringy,
    }	,	@calculatedFrom(
""" ++ [128512]%N ++ runes_of_ascii """)
@tag(10
	    // a // b
  )

    repeat	f32

lengthOf `line1
line2`,repeat
	u{uint32 Z9_ ,  //
repeat  body `
`
    , }

,

    @tag(

    4294967296
)  i64_	@lengthOf(

    tag
        // packet A { u8 x, }
) ,
@lengthOf(	//	t

	float ) 
@lengthOf(  
      // " ++ [128512]%N ++ runes_of_ascii " emoji
	packetx)@calculatedFrom(

    """ ++ [128512]%N ++ runes_of_ascii """) 
repeat
	x_y_z
u  , @tag(
    65535 
)
u8
A , }//")).
Eval vm_compute in ("<<<M4>>>" ++ check (runes_of_ascii "packet
    // " ++ [128512]%N ++ runes_of_ascii " emoji
    u128
{ repeat char[
// trailing space 
// packet A { u8 x, }
65535 ] float ,
}
options  { f32a
= char[] ; } packet// trailing space 
_x { @rightPad ('0' ) // packet A { u8 x, }
@lengthOf(i8i8) @lengthOf(lengthOf
)  repeat	Z9_//x
`crlf
line`, string_ {
// `tick` ""quote"" 'q'
// c
zchar[7
]x_y_z , Header x
`line1
line2` ,
    }, //	t
@leftPad ( )
    match float
as	x_y_z
{ """ ++ [28040; 24687]%N ++ runes_of_ascii """ : metadata, 007 :
    A,00 : falsey
    , 0123456789  : Foo // trailing space 
,0123456789
:
    zchar
, } ,@calculatedFrom( ""1"" )
@tag(
/// triple
/// triple
0	) char[
00 ] options1	, } packet Pad{
u16
body
@lengthOf( stringy // c
), } options { BodyLength ='0'msg_type =""a\""b"" ; }

")).
Eval vm_compute in ("<<<M87>>>" ++ check (runes_of_ascii "root packet matchKey{ match	Foo as Z9_ {// c
[ ""x y"" , ""1"" ,
    007
, 7 ]: pack,
""`tick`"" :
u128 ,""a	b"" :msg_type,[
//
//
00 ,	65535
] : a1, ""it's"" :Foo
    , // " ++ [128512]%N ++ runes_of_ascii " emoji
[ //x
""""
] : u, } ,
} packet calculatedFrom // c
{msg_type {
    T @calculatedFrom( ""\n"" ) ,float64 i8i8, As`
`, u32 rootA @lengthOf(
// c
// `tick` ""quote"" 'q'
float
) ,}
, }
    packet
    // " ++ [27880; 37322]%N ++ runes_of_ascii "
    x_y_z
{@tag( //x
0 ) i64_
    // " ++ [27880; 37322]%N ++ runes_of_ascii "
    @lengthOf(
    //
    MetaDataX
) ,	}packet A { @calculatedFrom( ""a\\"" )@calculatedFrom(""abc"" ) _x
u	`say ""hi""` ,
    } options
    // `tick` ""quote"" 'q'
    { // trailing space 
metadata = ""a\\"" ; // a // b
}")).
Eval vm_compute in ("<<<M1701>>>" ++ check (runes_of_ascii "options

{

As=	// trailing space 
    zchar[4294967296 ]
;

}	//	t
	packet

len// packet A { u8 x, }
{	@lengthOf( _x)	match
    // c
	  lengthOf as 
  //
// `tick` ""quote"" 'q'
      string_ 	 // c
    	{  [ 4294967296 ] :i64_  ""a	b"" 
: o

    ,  },leftPad @calculatedFrom( ""`tick`"") 
        // trailing space 
		// `tick` ""quote"" 'q'
  ,
    @leftPad(	'\x00'	)repeat
    charz	/// triple
    msg_type

, repeat i8
Foo
, }

packet  msg_type
    { 

    //x
  // @lengthOf(
@leftPad(
'0' )  u64  repeatCount
@calculatedFrom(
    """ ++ [28040; 24687]%N ++ runes_of_ascii """) 
,  // packet A { u8 x, }
} ")).
Eval vm_compute in ("<<<M40>>>" ++ check (runes_of_ascii "packet stringy
//	t
//
{ repeat T// trailing space 
{ u64 lengthOf
`tab	here`  ,
repeat
_x { match calculatedFrom as Header { [""" ++ [233]%N ++ runes_of_ascii "t" ++ [233]%N ++ runes_of_ascii """
    ] : _x  ,// @lengthOf(
[""packet"" ] :
MetaDataX , 255 : u128,42 :
A
""// no comment"" : body
    , }
, repeat crc Foo, charz
    ,
}	,zchar[ 1
    ]i8i8@calculatedFrom( ""x y"" ),  uint8x
    // " ++ [27880; 37322]%N ++ runes_of_ascii "
    Pad
`line1
line2` , } ,
@lengthOf( u )
char[ //x
4294967296 ]crc, @tag(  007 //x
)repeatCount ,
repeat
    //x
    char[] Header, @rightPad ( )char[] string_ `a\` ,
    }
")).
Eval vm_compute in ("<<<M291>>>" ++ check (runes_of_ascii "root
// " ++ [27880; 37322]%N ++ runes_of_ascii "
// @lengthOf(
packet
    Packet
{ string o @calculatedFrom( ""\" ++ [233]%N ++ runes_of_ascii """)
, @lengthOf( Packet
    // packet A { u8 x, }
    ) body @calculatedFrom( // @lengthOf(
""x y"" )
`it's` ,
float64 As @calculatedFrom( ""`tick`""	), char[]	stringy  @calculatedFrom(""" ++ [28040; 24687]%N ++ runes_of_ascii """	) `doc` , @calculatedFrom(""a	b"") match
float as o{ [ """ ++ [128512]%N ++ runes_of_ascii """
    ,007]
    :metadata
,
} ,f32a a1 `a\` , }
MetaData
repeatCount
    { packetx i64_ `" ++ [28040; 24687; 31867; 22411]%N ++ runes_of_ascii "` , // " ++ [128512]%N ++ runes_of_ascii " emoji
zchar[
3
] tag ,
i8i8 int , }
")).
Eval vm_compute in ("<<<M1551>>>" ++ check (runes_of_ascii "

  packet  As

{ 
@leftPad() 
char[
0	]Logon
,char[
    0

]
	Z9_
@calculatedFrom(
	""abc""
        // c
    )
,@tag(
4294967296
) i64
    matchKey @calculatedFrom(
""// no comment""//
      )

    `two words` 
,

i16
    A
,}  // " ++ [27880; 37322]%N ++ runes_of_ascii "

  packet

T
	{ zchar[3 ] 
tag	// packet A { u8 x, }
  @lengthOf(
chars )  , }packet  // " ++ [128512]%N ++ runes_of_ascii " emoji
BodyLength
{
    calculatedFrom
    @lengthOf( body
)
	`
`	,} // a // b
")).
Eval vm_compute in ("<<<M1800>>>" ++ check (runes_of_ascii "// top
root packet _x {
    match Foo as Z9_ {
        // c8
        ""a	b"" : Pad,
        // c12
    },// c14
    repeat x `line1
    line2`,// c18
    @rightPad(' ')
    // c22
    @calculatedFrom(""a\\"")
    // c25a
    // c25b
    metadata MetaDataX,
    @tag(0)
    // c31
    Logon int ``,
    // c35
}// c36

options {
    // c38
    T = '\x00'
}// c42a
// c42b")).
Eval vm_compute in ("<<<M285>>>" ++ check (runes_of_ascii "packet zchar { @calculatedFrom(
    ""packet"" )
    @lengthOf( body ) @lengthOf(A )
    repeat /// triple
u128
    { f32a
chars `` , repeat x_y_z `tab	here`	, // c
} , // " ++ [27880; 37322]%N ++ runes_of_ascii "
repeat
Logon {// " ++ [27880; 37322]%N ++ runes_of_ascii "
u@calculatedFrom( // `tick` ""quote"" 'q'
""// no comment"") //
`two words` , char
    u8x , uint32  uint8x  , } , int8
    asx ``,}
")).
Eval vm_compute in ("<<<M232>>>" ++ check (runes_of_ascii "options {  A = i16
;
    }
    /// triple
    root
packet
    rootA{
    @tag( 7)int16 pack,Logon @calculatedFrom( ""a\""b"" ) `{ , }`
    , @rightPad ( '\x00' )
//
//
char[
7
    // `tick` ""quote"" 'q'
    ]options1
`tab	here`,@calculatedFrom(
""" ++ [233]%N ++ runes_of_ascii "t" ++ [233]%N ++ runes_of_ascii """ )int @lengthOf(
Packet
) `crlf
line`, }
")).
Eval vm_compute in ("<<<M1836>>>" ++ check (runes_of_ascii "packet Sub	{u8
a  ,

    @calculatedFrom(""CRC16""

)
	i32 SubSum , 
}
root
	packet
Frame 
{ u16	MsgType

    , u16 
BodyLen @lengthOf( Body

    )
    ,Sub

Body  ,string
note ,
@calculatedFrom( ""CRC16"" )

    i32  Checksum

    , u8
tail ,
}

")).
Eval vm_compute in ("<<<M1933>>>" ++ check (runes_of_ascii "root packet string_ {
    @leftPad(' ')
    chars {
        repeat zchar[0] tag,
        string falsey,// " ++ [128512]%N ++ runes_of_ascii " emoji
        repeat char[007] body `two words`,
    },
    @calculatedFrom(""// no comment"")
    Foo T,// " ++ [128512]%N ++ runes_of_ascii " emoji
}")).
Eval vm_compute in ("<<<M26>>>" ++ check (runes_of_ascii "root packet body { repeat // c
i8i8
`it's`
,}
packet chars
{@rightPad
    (  '\x00' )
    // `tick` ""quote"" 'q'
    leftPad {
    char[ 10
]
    asx `" ++ [233]%N ++ runes_of_ascii "`, }
    // trailing space 
    ,
}
")).
Eval vm_compute in ("<<<M1454>>>" ++ check (runes_of_ascii "packet A {
    match k as n {
        [
            ""a"", ""bb"", 007, ""d"", ""e"",
            66, ""g"", ""h"", 9, ""j"",
            ""k"", 12
        ] : B,
        2 : C,
    },
}")).
Eval vm_compute in ("<<<M491>>>" ++ check (runes_of_ascii "packet uint8x
{ match pack
    as msg_type	{
    0123456789 :	float
}
,
} packet //	t
a1
    { } options {packetx packetx
    = '\x00'	; u128= ""a	b""  ; }
")).
Eval vm_compute in ("<<<M413>>>" ++ check (runes_of_ascii "packet uint8x
{ match float32
    as msg_type	{
    0123456789 :	float
}
,
} packet //	t
a1
    { } options {packetx
    = '\x00'	; u128= ""a	b""  ; }
")).
Eval vm_compute in ("<<<M548>>>" ++ check (runes_of_ascii "packet uint8x
{ match pack
    as msg_type	{
    0123456789 :	float
}
,
} packet //	t
a1
    { } options {packetx
    ''= '\x00'	; u128= ""a	b""  ; }
")).
Eval vm_compute in ("<<<M452>>>" ++ check (runes_of_ascii "packet uint8x
{ match pack
    as msg_type	{
    0123456789 :	float
}
}
, packet //	t
a1
    { } options {packetx
    = '\x00'	; u128= ""a	b""  ; }
")).
Eval vm_compute in ("<<<M485>>>" ++ check (runes_of_ascii "packet uint8x
{ match pack
    as msg_type	{
    0123456789 :	float
}
,
} packet //	t
a1
    { } options packetx
    = '\x00'	; u128= ""a	b""  ; }
")).
Eval vm_compute in ("<<<M1508>>>" ++ check (runes_of_ascii "packet A {
    match k as n {
        [
            ""a"", 22, ""c c"", 4, ""e"",
            66, ""g"", 8, ""i"", 10
        ] : B,
        2 : C,
    },
}")).
Eval vm_compute in ("<<<M1748>>>" ++ check (runes_of_ascii "  packet B {
u8
	a , }

    root  packet P
{
    u8
K

,
u64 L

    @lengthOf(
Body) 
,  match K as

    Body 
{  1 
:B
,
    }	,
    } ")).
Eval vm_compute in ("<<<M1523>>>" ++ check (runes_of_ascii "packet A {
    match k as n {
        [
            1, 22, ""c c"", 4, 5,
            ""f"", 7, 8, ""i"", 10
        ] : B,
        2 : C,
    },
}")).
Eval vm_compute in ("<<<M659>>>" ++ check (runes_of_ascii "// @lengthOf(
packet i8i8 { u128 o , }
options { MetaDataX = true;
    " ++ [21517; 23383]%N ++ runes_of_ascii " =""packet"" x_y_z= 007
crc //x
= ""abc"" ;
    msg_type =
i16 }")).
Eval vm_compute in ("<<<M509>>>" ++ check (runes_of_ascii "packet uint8x
{ match pack
    as msg_type	{
    0123456789 :	float
}
,
} packet //	t
a1
    { } options {packetx
    = '\x00'")).
Eval vm_compute in ("<<<M173>>>" ++ check (runes_of_ascii "
options
    { zchar
    = 10 ; matchKey = char[ /// triple
1
    ]
u	= ""a\""b"" ;
    x_y_z =
    42 ; } MetaData Logon{ }")).
Eval vm_compute in ("<<<M1159>>>" ++ check (runes_of_ascii "MetaData leftPad { chars MetaDataX , } packet repeatCount // c
{ char[ 255 ] uint8x `" ++ [233]%N ++ runes_of_ascii "` , } MetaData pack { As Foo , }")).
Eval vm_compute in ("<<<M1838>>>" ++ check (runes_of_ascii "packet A {
    u16 len @lengthOf(body) `a
    b`,
    u32 crc @calculatedFrom(""CRC32"") `a
    b`,
    string body,
}")).
Eval vm_compute in ("<<<M925>>>" ++ check (runes_of_ascii "packet A {
    u16 len @lengthOf(body) `a
b`,
    u32 crc @calculatedFrom(""CRC32"") `a
b`,
    string body,
}")).
Eval vm_compute in ("<<<M1473>>>" ++ check (runes_of_ascii "
packet
FooBar{ 
u8
a ,}
	packet

foo_bar
    { 
u16

b

,}
root

packet  R { FooBar

, foo_bar  ,  }
")).
Eval vm_compute in ("<<<M884>>>" ++ check (runes_of_ascii "packet A {
  match k as n {
    [""a"", 22, ""c c"", 4, ""e"", 66, ""g"", 8, ""i"", 10] : B,
    2 : C
  },
}")).
Eval vm_compute in ("<<<M1740>>>" ++ check (runes_of_ascii "packet B {
    u8 a,
    string s,
}

root packet P {
    u16 L @lengthOf(B),
    B,
    u8 t,
}")).
Eval vm_compute in ("<<<M717>>>" ++ check (runes_of_ascii "// @lengthOf(
packet i8i8 { u128 o , }
options { MetaDataX = true;
    BodyLength =""packet"" ")).
Eval vm_compute in ("<<<M640>>>" ++ check (runes_of_ascii "
packet
    asx {match u128 as lengthOf
{
//	t
// `tick` ""quote"" 'q'
$255 : x ,
    } ,	}")).
Eval vm_compute in ("<<<M602>>>" ++ check (runes_of_ascii "
packet
    asx {match u128 as lengthOf
{
//	t
// `tick` ""quote"" 'q'
255 :  ,
    } ,	}")).
Eval vm_compute in ("<<<M865>>>" ++ check (runes_of_ascii "packet A {
  match k as n {
    [1, 22, 007, 4, 5, 66, 7, 8, 9] : B,
    2 : C
  },
}")).
Eval vm_compute in ("<<<M690>>>" ++ check (runes_of_ascii "// @lengthOf(
packet i8i8 { u128 o , }
options { MetaDataX = true;
    BodyLength")).
Eval vm_compute in ("<<<M1951>>>" ++ check (runes_of_ascii "  packet  A
	{match
	k  as n 
{
[ 1
    ,
22  ] :  B
    2

: C

    }

,}
")).
Eval vm_compute in ("<<<M804>>>" ++ check (runes_of_ascii "packet A {
  match k as n {
    [1, ""bb"", 007, ""d""] : B,
    2 : C
  },
}")).
Eval vm_compute in ("<<<M794>>>" ++ check (runes_of_ascii "packet A {
  match k as n {
    [""a"", 22, ""c c""] : B
    2 : C
  },
}")).
Eval vm_compute in ("<<<M1492>>>" ++ check (runes_of_ascii "root packet P {
    u8 s_u8,
    repeat u8 r_u8,
    u16 b_len,
}")).
Eval vm_compute in ("<<<M954>>>" ++ check (runes_of_ascii "packet A {
    B b `
x`,
    B `
x`,
    repeat B bs `
x`,
}")).
Eval vm_compute in ("<<<M760>>>" ++ check (runes_of_ascii "MetaData @rightPad 3 i32 int32 ; int8 body ""a	b"" `" ++ [28040; 24687; 31867; 22411]%N ++ runes_of_ascii "`")).
Eval vm_compute in ("<<<M1204>>>" ++ check (runes_of_ascii "packet body {
// c
i32 f32a `{ , }` , } options { }")).
Eval vm_compute in ("<<<M251>>>" ++ check (runes_of_ascii "
root packet
chars
{
    i16 leftPad
    , }
")).
Eval vm_compute in ("<<<M1584>>>" ++ check (runes_of_ascii "

  root  packet A
{
u8

    x `a
b`

,} ")).
Eval vm_compute in ("<<<M1722>>>" ++ check (runes_of_ascii "
MetaData
repeatCount  {	} 

    //	t
")).
Eval vm_compute in ("<<<M928>>>" ++ check (runes_of_ascii "root packet A {
    u8 x `a
b`,
}")).
Eval vm_compute in ("<<<M1640>>>" ++ check (runes_of_ascii "options {
    u8x = ""packet"";
}")).
Eval vm_compute in ("<<<M1511>>>" ++ check (runes_of_ascii "

  packet A{ }
        // c" ++ [160]%N)).
Eval vm_compute in ("<<<M1460>>>" ++ check (runes_of_ascii "  // c
packet

x
{
} ")).
Eval vm_compute in ("<<<M1109>>>" ++ check (runes_of_ascii "MetaData tag { // c
}")).
Eval vm_compute in ("<<<M1135>>>" ++ check (runes_of_ascii "MetaData u {
// c
}")).
Eval vm_compute in ("<<<M1032>>>" ++ check (runes_of_ascii "// c" ++ [11]%N ++ runes_of_ascii "
packet A {
}")).
Eval vm_compute in ("<<<M1024>>>" ++ check (runes_of_ascii "packet A {
}// c" ++ [8287]%N)).
Eval vm_compute in ("<<<M1072>>>" ++ check (runes_of_ascii "

  packet A {}")).
Eval vm_compute in ("<<<M84>>>" ++ check (runes_of_ascii " // " ++ [27880; 37322]%N)).
Eval vm_compute in ("<<<M733>>>" ++ check (runes_of_ascii "


")).
