From FP Require Import Lexer Parser ShowPT Digest Formatter.
From Coq Require Import String List NArith.
Import ListNotations.
Open Scope string_scope.
Set Printing Width 100000000.
Set Printing Depth 100000000.
Definition show_fres (r : fres) : string :=
  match r with
  | FOk s => "OK:" ++ sh_escaped s ""
  | FErr s => "ERR:" ++ sh_escaped s ""
  | FPanic p => "PANIC:" ++ p
  end.
Definition check (rs : list rune) : string := digest (show_fres (format_res rs)).
Definition full (rs : list rune) : string := show_fres (format_res rs).
Eval vm_compute in ("<<<M198>>>" ++ check (runes_of_ascii "root packet int {
// @lengthOf(
// " ++ [27880; 37322]%N ++ runes_of_ascii "
@calculatedFrom( ""packet"")match repeatCount as asx {// packet A { u8 x, }
65535:int ,
"""":
    packetx
, [ 1, ""it's"", 007 , 3,
    ""a\\"" , 65535 ] : o,
[ 7 , 1 ]:
    len [ ""abc""	,""" ++ [28040; 24687]%N ++ runes_of_ascii """ ] : u
,} ,// packet A { u8 x, }
@rightPad ( ' ' ) // " ++ [27880; 37322]%N ++ runes_of_ascii "
len
    body `{ , }` , }packet repeatCount { string
trueish
,@tag(
0 )	repeat
tag/// triple
`{ , }` , // `tick` ""quote"" 'q'
@tag(255 // @lengthOf(
) match packetx as
string_
    {
10 :roots, }//
,
@leftPad
(
'\x00'	)
    @tag( 7 ) repeat i8 // packet A { u8 x, }
rootA
/// triple
// " ++ [128512]%N ++ runes_of_ascii " emoji
`it's` , uint8x tag`a\` ,
char[] Z9_ @calculatedFrom( //x
""" ++ [233]%N ++ runes_of_ascii "t" ++ [233]%N ++ runes_of_ascii """
    )
, repeat float32
trueish	, @leftPad ( /// triple
'\x00'	)	i64_
    @calculatedFrom( ""x y""
    ) //
, repeat f32 Packet ,  }
    packet u
    // c
    {int64 pack@lengthOf(metadata ) ,	repeat
    char[//	t
0123456789 ] int
    ``
    , @lengthOf(
    Header  )@calculatedFrom(""`tick`""
)	float
    trueish , @calculatedFrom(	""`tick`""
    // a // b
    ) stringy ,// " ++ [128512]%N ++ runes_of_ascii " emoji
repeat Logon  `it's`  ,
int32  Z9_ @calculatedFrom(
""\n""), match// c
u8x as falsey {
255 : f32a ,
00:packetx
, } ,
zchar[	0 ] roots , @tag( 00) Logon {
    i64_
@lengthOf( MetaDataX //
) ``
    , repeat body
MetaDataX `it's`, x { string rootA ``
    // a // b
    , repeat options1 f32a , }//
, Pad
, // `tick` ""quote"" 'q'
} , @calculatedFrom( ""1""
    // packet A { u8 x, }
    )@lengthOf(T ) char[
7 ]	pack	`{ , }`	, } MetaData u {
} /// triple")).
Eval vm_compute in ("<<<M384>>>" ++ check (runes_of_ascii "options {
	StringPrefixLenType = u16;
	ArrayPrefixLenType = u16;
}

packet SampleBinary {
	uint16 MsgType `" ++ [28040; 24687; 31867; 22411]%N ++ runes_of_ascii "`,
	u16 BodyLenght @lengthOf(Body) `" ++ [28040; 24687; 20307; 38271; 24230]%N ++ runes_of_ascii "`,
	match MsgType as Body {
		1 : Logon,
		2 : Logout,
		3 : Heartbeat,
		4 : RiskControlRequest,
		5 : RiskControlResponse,
	},
		@calculatedFrom(""CRC32"")
	u32 Ckecksum `" ++ [26657; 39564; 21644]%N ++ runes_of_ascii "`,
}

packet Logon {
	 @leftPad('0')
	char[10] UserName `" ++ [29992; 25143; 21517]%N ++ runes_of_ascii "`,
	string Password `" ++ [23494; 30721]%N ++ runes_of_ascii "`,
	uint64 ClientId `" ++ [23458; 25143; 31471]%N ++ runes_of_ascii "ID`,
	u16 HeartbeatInterval `" ++ [24515; 36339; 38388; 38548]%N ++ runes_of_ascii "`,
}

packet Logout {
	  @rightPad('0')
	char[10] UserName `" ++ [29992; 25143; 21517]%N ++ runes_of_ascii "`,
	uint64 ClientId `" ++ [23458; 25143; 31471]%N ++ runes_of_ascii "ID`,
}

packet Heartbeat {
}

packet RiskControlRequest {
	string UniqueOrderId `" ++ [21807; 19968; 35746; 21333; 21495]%N ++ runes_of_ascii "`,
	char[16] ClOrdID `" ++ [23458; 25143; 35746; 21333; 21495]%N ++ runes_of_ascii "`,
	char[3] MarketID `" ++ [24066; 22330]%N ++ runes_of_ascii "id`,
	char[12] SecurityID `" ++ [35777; 21048; 20195; 30721]%N ++ runes_of_ascii "`,
	char Side `" ++ [20080; 21334; 26041; 21521]%N ++ runes_of_ascii "`,
	char OrderType `" ++ [35746; 21333; 31867; 22411]%N ++ runes_of_ascii "`,
	u64 Price `" ++ [20215; 26684]%N ++ runes_of_ascii "`,
	u32 Qty `" ++ [25968; 37327]%N ++ runes_of_ascii "`,
	repeat string ExtraInfo `" ++ [38468; 21152; 20449; 24687]%N ++ runes_of_ascii "`,
	repeat SubOrder {
			char[16] ClOrdID `" ++ [23376; 35746; 21333; 21495]%N ++ runes_of_ascii "`,
			u64 Price `" ++ [23376; 35746; 21333; 20215; 26684]%N ++ runes_of_ascii "`,
			u32 Qty `" ++ [23376; 35746; 21333; 25968; 37327]%N ++ runes_of_ascii "`,
		},
}

packet RiskControlResponse {
	string UniqueOrderId `" ++ [21807; 19968; 35746; 21333; 21495]%N ++ runes_of_ascii "`,
	i32 Status `" ++ [29366; 24577]%N ++ runes_of_ascii "`,
	string Msg `" ++ [32467; 26524; 20449; 24687]%N ++ runes_of_ascii "`,
	repeat Detail,
}

packet Detail {
	string RuleName `" ++ [35268; 21017; 21517; 31216]%N ++ runes_of_ascii "`,
	u16 Code `" ++ [21407; 22240; 20195; 30721]%N ++ runes_of_ascii "`,
}")).
Eval vm_compute in ("<<<M1389>>>" ++ check (runes_of_ascii "options { LittleEndian
    // c2
=
    // c3
true // c4a
  // c4b
;
    // c5
} // c6a
  // c6b
packet // c7a
  // c7b
Logon { // c9
u8
    // c10
x // c11
, // c12
} // c13a
  // c13b
packet // c14
Logout
    // c15
{ u16 // c17a
  // c17b
reason
    // c18
,
    // c19
} root // c21a
  // c21b
packet // c22
Frame
    // c23
{ // c24
u64
    // c25
Kind
    // c26
, // c27
u64 Kind2 // c29a
  // c29b
,
    // c30
match // c31a
  // c31b
Kind
    // c32
as
    // c33
Body // c34a
  // c34b
{ // c35a
  // c35b
1 // c36a
  // c36b
: // c37a
  // c37b
Logon // c38
,
    // c39
[ // c40
2
    // c41
, // c42
3 // c43a
  // c43b
, // c44
4
    // c45
] :
    // c47
Logout // c48
,
    // c49
100
    // c50
: // c51
Logon // c52a
  // c52b
,
    // c53
} // c54
,
    // c55
match // c56a
  // c56b
Kind2 // c57
as Trailer // c59
{ // c60
0
    // c61
: // c62a
  // c62b
Logout , } // c65
,
    // c66
} ")).
Eval vm_compute in ("<<<M168>>>" ++ check (runes_of_ascii "options
//x
// @lengthOf(
{
    Foo =""// no comment""
/// triple
//	t
; }
packet float {
} packet
    len { @lengthOf(
    _x ) stringy{
    metadata	@calculatedFrom( ""a\\"" )
, } ,
//x
//
}	packet asx {
@tag( 0 ) repeat float64
A`say ""hi""` ,
//
// trailing space 
i16 int
    `say ""hi""` , @calculatedFrom( """ ++ [128512]%N ++ runes_of_ascii """) lengthOf Header `two words` ,
f32a
    zchar , @rightPad
    ( '0'
)repeat string_
    // packet A { u8 x, }
    chars ``  , @tag( 4294967296)
    @calculatedFrom( ""a	b"" )repeat
    msg_type,  @leftPad( ) repeat f64 _x ,	repeat As { Logon @lengthOf(
calculatedFrom) `two words` ,
    repeat u64 o `u8 x,`	, } , @calculatedFrom(
""packet"" ) repeat // @lengthOf(
uint8 u ,} packet
uint8x{@leftPad ( '0'
    )
//	t
//x
zchar[
// packet A { u8 x, }
// " ++ [27880; 37322]%N ++ runes_of_ascii "
255
    ]	metadata `a\`
    ,//
} // `tick` ""quote"" 'q'")).
Eval vm_compute in ("<<<M1117>>>" ++ check (runes_of_ascii "// top
MetaData
    // c0
Packet
    // c1
{
    // c2
}
    // c3
packet
    // c4
charz
    // c5
{
    // c6
Foo
    // c7
asx
    // c8
`it's`
    // c9
,
    // c10
@lengthOf(
    // c11
T
    // c12
)
    // c13
@calculatedFrom(
    // c14
""""
    // c15
)
    // c16
@calculatedFrom(
    // c17
""x y""
    // c18
)
    // c19
zchar[
    // c20
007
    // c21
]
    // c22
repeatCount
    // c23
@lengthOf(
    // c24
int
    // c25
)
    // c26
`a\`
    // c27
,
    // c28
i8
    // c29
string_
    // c30
,
    // c31
repeat
    // c32
options1
    // c33
Pad
    // c34
,
    // c35
}
    // c36
root
    // c37
packet
    // c38
Packet
    // c39
{
    // c40
int8
    // c41
float
    // c42
`doc`
    // c43
,
    // c44
}
    // c45
")).
Eval vm_compute in ("<<<M1906>>>" ++ check (runes_of_ascii "packet
	metadata
    {
@rightPad

( )

    zchar[
    //	t
  	// `tick` ""quote"" 'q'

	0123456789 
] i64_
// @lengthOf(
@calculatedFrom(

    ""\n""
)

    ,
@leftPad ( ' '  // " ++ [27880; 37322]%N ++ runes_of_ascii "
	  ) 
zchar[  // `tick` ""quote"" 'q'
    255 ]	MetaDataX`{ , }`// a // b
  , @rightPad( ' '
    )
@calculatedFrom( ""abc""
)	// " ++ [128512]%N ++ runes_of_ascii " emoji
@lengthOf(
matchKey  
  // `tick` ""quote"" 'q'
// `tick` ""quote"" 'q'

) 
repeat 
char[42

]
packetx// packet A { u8 x, }
`" ++ [233]%N ++ runes_of_ascii "`

, 
trueish@calculatedFrom(""packet""
)

    `a\`, matchKey
	int`" ++ [28040; 24687; 31867; 22411]%N ++ runes_of_ascii "`
	,

@tag( 
    // c
  	0	)len

    { 
char[	65535]
    Header ,	}  ,

    @lengthOf(
f32a )zchar[

    10]trueish
	`crlf
line`
	,
}
")).
Eval vm_compute in ("<<<M1417>>>" ++ check (runes_of_ascii "packet Header {
    char[10] A `it's`,
    @calculatedFrom(""" ++ [28040; 24687]%N ++ runes_of_ascii """)
    calculatedFrom @lengthOf(zchar) `tab	here`,
    u32 BodyLength,
    @lengthOf(stringy)
    //
    @rightPad(' ')
    @tag(0123456789)
    body {
        match i8i8 as Foo {
            [7, ""CRC32""] : options1,
            [
                ""a\""b"", """ ++ [128512]%N ++ runes_of_ascii """, ""it's"", ""a	b"", ""// no comment"",
                ""it's"", 7, ""abc""
            ] : As,
            1 : _x,
            // " ++ [128512]%N ++ runes_of_ascii " emoji
            //
        },
        repeat uint8x {
            crc @calculatedFrom(""a\\""),
        },
        repeat i8 tag,// " ++ [128512]%N ++ runes_of_ascii " emoji
    },
}")).
Eval vm_compute in ("<<<M327>>>" ++ check (runes_of_ascii "root packet asx
    { tag body `u8 x,` , }
packet string_ {
    @lengthOf(
len // a // b
)repeat	zchar[ 42 ] u8x,zchar[ 0 ] asx
    , } packet
// " ++ [128512]%N ++ runes_of_ascii " emoji
// " ++ [27880; 37322]%N ++ runes_of_ascii "
int {repeat crc
    { zchar float , match
    i8i8 as rootA//x
{ 255 : lengthOf , 1 :lengthOf
,3
    :
roots , 3 : uint8x ,0
    :As , ""`tick`"" :	repeatCount , }  , repeat
/// triple
//
char[]
falsey ,
    u64 lengthOf ,} , @lengthOf( crc ) lengthOf i64_ , leftPad
`crlf
line`, }
    root	packet zchar{ f32 _x @calculatedFrom( ""a\\"" ), }	MetaData chars // trailing space 
{//
}")).
Eval vm_compute in ("<<<M1488>>>" ++ check (runes_of_ascii "MetaData body {
    T calculatedFrom,
    string f32a `line1
    line2`,
    leftPad BodyLength `tab	here`,
}

options {
}

MetaData options1 {
    char[3] MetaDataX `" ++ [28040; 24687; 31867; 22411]%N ++ runes_of_ascii "`,
    BodyLength x `
    `,
    u16 tag `say ""hi""`,
    u8 float,
    float32 As `
    `,
    i8i8 Z9_ `
    `,
}

packet u {
    @tag(42)
    options1 o `crlf
    line`,
    @calculatedFrom(""`tick`"")
    repeat char[] a1,
}

options {
    uint8x = true
    A = 7;// packet A { u8 x, }
    len = """ ++ [128512]%N ++ runes_of_ascii """
}")).
Eval vm_compute in ("<<<M1113>>>" ++ check (runes_of_ascii "// top
packet // c0
float // c1
{ // c2
@rightPad // c3
( // c4
) // c5
rootA // c6
@lengthOf( // c7
trueish // c8
) // c9
, // c10
stringy // c11
@lengthOf( // c12
matchKey // c13
) // c14
, // c15
char[ // c16
4294967296 // c17
] // c18
pack // c19
@lengthOf( // c20
uint8x // c21
) // c22
, // c23
} // c24
root // c25
packet // c26
trueish // c27
{ // c28
repeat // c29
uint64 // c30
u128 // c31
`line1
line2` // c32
, // c33
} // c34
")).
Eval vm_compute in ("<<<M1867>>>" ++ check (runes_of_ascii "options {
    LittleEndian = false;
    StringPrefixLenType = u8;
    ArrayPrefixLenType = u64;
    FixedStringPadFromLeft = false;
    FixedStringPadChar = ' ';
}

packet Reject {
    repeat char[4] seqNo,
    string Px,
}

root packet Trade {
    @rightPad('0')
    char[2] msgKind,
    repeat f64 price,
    InAcct79 {
        repeat Reject,
        zchar[7] OrderId,
    },
    Reject,
}")).
Eval vm_compute in ("<<<M118>>>" ++ check (runes_of_ascii "packet As{@leftPad ( )
    char[ 0	]
Logon, char[	0
]
Z9_@calculatedFrom(	""abc""
    // c
    ) ,  @tag( 4294967296 )
    i64 matchKey @calculatedFrom(
    ""// no comment""//
)`two words` ,i16 A
, }// " ++ [27880; 37322]%N ++ runes_of_ascii "
packet T { zchar[
3 ] tag// packet A { u8 x, }
@lengthOf(
    chars) , } packet// " ++ [128512]%N ++ runes_of_ascii " emoji
BodyLength  {calculatedFrom @lengthOf( body )
`
`	, } // a // b")).
Eval vm_compute in ("<<<M100>>>" ++ check (runes_of_ascii "
root packet
a1
    {
tag Pad``
, } options {
}
    root packet int	{
    uint64 f32a , } packet
MetaDataX {// c
@leftPad( ' ' ) /// triple
repeat uint16 Header	`{ , }`
,
// `tick` ""quote"" 'q'
/// triple
}
options {
Z9_= false
    falsey //	t
= ""x y"" ; rootA = false
    // a // b
    Foo	=true
lengthOf
    = float64 }")).
Eval vm_compute in ("<<<M321>>>" ++ check (runes_of_ascii "
options
{ a1 = '\x00'
As
= ""{,}"" u8x
=//x
""a	b""
    ; asx
    = u64;
o
// @lengthOf(
// c
=0123456789 } packet Header
{
    //
    @lengthOf(x // trailing space 
)
    // " ++ [27880; 37322]%N ++ runes_of_ascii "
    repeat
falsey { repeatCount
    trueish
`u8 x,` , } ,
// `tick` ""quote"" 'q'
// " ++ [128512]%N ++ runes_of_ascii " emoji
zchar[
65535 ] x
    ,
}")).
Eval vm_compute in ("<<<M1250>>>" ++ check (runes_of_ascii "// top
packet
    // c0
Inner
    // c1
{ // c2a
  // c2b
u8
    // c3
a // c4a
  // c4b
, }
    // c6
root // c7
packet // c8
P // c9a
  // c9b
{
    // c10
Inner // c11a
  // c11b
ref_obj
    // c12
, // c13a
  // c13b
u8 x ,
    // c16
} // c17a
  // c17b
")).
Eval vm_compute in ("<<<M124>>>" ++ check (runes_of_ascii "MetaData Z9_
{zchar[4294967296 ]
    leftPad `u8 x,`,
}
MetaData body { trueish
    len `// not a comment` , }root
packet // @lengthOf(
u8x{ char[ 10 ] x
    @calculatedFrom(
// a // b
// packet A { u8 x, }
""\" ++ [233]%N ++ runes_of_ascii """ ) , }
")).
Eval vm_compute in ("<<<M26>>>" ++ check (runes_of_ascii "root packet body { repeat // c
i8i8
`it's`
,}
packet chars
{@rightPad
    (  '\x00' )
    // `tick` ""quote"" 'q'
    leftPad {
    char[ 10
]
    asx `" ++ [233]%N ++ runes_of_ascii "`, }
    // trailing space 
    ,
}
")).
Eval vm_compute in ("<<<M1734>>>" ++ check (runes_of_ascii "  MetaData

    leftPad
{

    chars

MetaDataX ,
    }

packet
repeatCount
{
    char[

    255 ]
uint8x `" ++ [233]%N ++ runes_of_ascii "`

    ,
    } MetaData pack  {As 

// c
		Foo , }

")).
Eval vm_compute in ("<<<M1581>>>" ++ check (runes_of_ascii "packet A {
    match k as n {
        [
            1, ""bb"", 007, ""d"", 5,
            ""f"", 7, ""h"", 9, ""j"",
            11
        ] : B,
        2 : C,
    },
}")).
Eval vm_compute in ("<<<M55>>>" ++ check (runes_of_ascii "MetaData x_y_z
//x
//x
{ int32
    o
,zchar[
65535  ]Packet , i64_ o , i64 o`
` , } options
{ x =
//x
/// triple
u8;
// " ++ [27880; 37322]%N ++ runes_of_ascii "
// a // b
} // trailing space ")).
Eval vm_compute in ("<<<M540>>>" ++ check (runes_of_ascii "packet uint8x
{ match pack
    as msg_type	{
    0123456789 :	float
}
,
} packet //	t
a1
    { } options " ++ [65279]%N ++ runes_of_ascii " {packetx
    = '\x00'	; u128= ""a	b""  ; }
")).
Eval vm_compute in ("<<<M437>>>" ++ check (runes_of_ascii "packet uint8x
{ match pack
    as msg_type	{
    0123456789 float	:
}
,
} packet //	t
a1
    { } options {packetx
    = '\x00'	; u128= ""a	b""  ; }
")).
Eval vm_compute in ("<<<M475>>>" ++ check (runes_of_ascii "packet uint8x
{ match pack
    as msg_type	{
    0123456789 :	float
}
,
} packet //	t
a1
    {  options {packetx
    = '\x00'	; u128= ""a	b""  ; }
")).
Eval vm_compute in ("<<<M510>>>" ++ check (runes_of_ascii "packet uint8x
{ match pack
    as msg_type	{
    0123456789 :	float
}
,
} packet //	t
a1
    { } options {packetx
    = '\x00'	; = ""a	b""  ; }
")).
Eval vm_compute in ("<<<M718>>>" ++ check (runes_of_ascii "// @lengthOf(
packet i8i8 { u128 o , }
options { MetaDataX = true;
    BodyLength =""packet"" x_y_z= 007
crc //x
= ""abc"" ;
    msg_type as
i16 }")).
Eval vm_compute in ("<<<M709>>>" ++ check (runes_of_ascii "// @lengthOf(
packet i8i8 { u128 o , }
options { MetaDataX = true;
    BodyLength =""packet"" x_y_z= 007
crc //x
= ""abc"" 
    msg_type =
i16 }")).
Eval vm_compute in ("<<<M1592>>>" ++ check (runes_of_ascii "packet A {
    match k as n {
        [
            1, 22, 007, 4, 5,
            66, 7, 8, 9, 10
        ] : B,
        2 : C,
    },
}")).
Eval vm_compute in ("<<<M1813>>>" ++ check (runes_of_ascii "  packet B
{ u8
a,

    }
root
	packet
P  { u8
	K, 
u8 L

    @lengthOf(
Body

    )
,
	match  K	as

Body	{1 : B
	, }, }
")).
Eval vm_compute in ("<<<M1554>>>" ++ check (runes_of_ascii "packet B {
    u8 a,
}

root packet P {
    u8 K,
    match K as Body {
        1 : B,
    },
    u16 L @lengthOf(Body),
}")).
Eval vm_compute in ("<<<M1154>>>" ++ check (runes_of_ascii "MetaData leftPad { chars MetaDataX ,
// c
} packet repeatCount { char[ 255 ] uint8x `" ++ [233]%N ++ runes_of_ascii "` , } MetaData pack { As Foo , }")).
Eval vm_compute in ("<<<M1186>>>" ++ check (runes_of_ascii "MetaData leftPad { chars MetaDataX , } packet repeatCount { char[ 255 ] uint8x `" ++ [233]%N ++ runes_of_ascii "` , } MetaData pack { As Foo
// c
, }")).
Eval vm_compute in ("<<<M290>>>" ++ check (runes_of_ascii "options {
    /// triple
    asx // " ++ [27880; 37322]%N ++ runes_of_ascii "
= 3 } MetaData T
{  f32/// triple
Pad `u8 x,` , } // `tick` ""quote"" 'q'")).
Eval vm_compute in ("<<<M1278>>>" ++ check (runes_of_ascii "  options{ 
LittleEndian =	true
	; } root	packet
	P {	u16  a ,u32 
Sum
@calculatedFrom(
""CRC32""  )	, }

")).
Eval vm_compute in ("<<<M671>>>" ++ check (runes_of_ascii "// @lengthOf(
packet i8i8 { u128 o , }
options { MetaDataX = true;
    BodyLength =""packet"" x_y_z= 0")).
Eval vm_compute in ("<<<M883>>>" ++ check (runes_of_ascii "packet A {
  match k as n {
    [1, ""bb"", 007, ""d"", 5, ""f"", 7, ""h"", 9, ""j""] : B
    2 : C
  },
}")).
Eval vm_compute in ("<<<M578>>>" ++ check (runes_of_ascii "
packet
    asx {match u128 as as lengthOf
{
//	t
// `tick` ""quote"" 'q'
255 : x ,
    } ,	}")).
Eval vm_compute in ("<<<M1959>>>" ++ check (runes_of_ascii "
packet	calculatedFrom {
    repeat 	 // packet A { u8 x, }
	string

Foo  `{ , }` ,
    } ")).
Eval vm_compute in ("<<<M859>>>" ++ check (runes_of_ascii "packet A {
  match k as n {
    [""a"", 22, ""c c"", 4, ""e"", 66, ""g"", 8] : B
    2 : C
  },
}")).
Eval vm_compute in ("<<<M557>>>" ++ check (runes_of_ascii "
packet
     {match u128 as lengthOf
{
//	t
// `tick` ""quote"" 'q'
255 : x ,
    } ,	}")).
Eval vm_compute in ("<<<M844>>>" ++ check (runes_of_ascii "packet A {
  match k as n {
    [1, ""bb"", 007, ""d"", 5, ""f"", 7] : B
    2 : C
  },
}")).
Eval vm_compute in ("<<<M839>>>" ++ check (runes_of_ascii "packet A {
  match k as n {
    [1, 22, 007, 4, 5, 66, 7] : B,
    2 : C
  },
}")).
Eval vm_compute in ("<<<M606>>>" ++ check (runes_of_ascii "
packet
    asx {match u128 as lengthOf
{
//	t
// `tick` ""quote"" 'q'
255 :")).
Eval vm_compute in ("<<<M790>>>" ++ check (runes_of_ascii "packet A {
  match k as n {
    [""a"", ""bb"", ""c c""] : B
    2 : C
  },
}")).
Eval vm_compute in ("<<<M942>>>" ++ check (runes_of_ascii "packet A {
    B b `a

b`,
    B `a

b`,
    repeat B bs `a

b`,
}")).
Eval vm_compute in ("<<<M88>>>" ++ check (runes_of_ascii "options// @lengthOf(
{a1 = 65535
// `tick` ""quote"" 'q'
// c
}")).
Eval vm_compute in ("<<<M799>>>" ++ check (runes_of_ascii "packet A { Inner { match k as n { [1,22,007] : B, }, }, }")).
Eval vm_compute in ("<<<M1811>>>" ++ check (runes_of_ascii "
MetaData
M
{

} // c
    	packet

A

    {
}
")).
Eval vm_compute in ("<<<M1085>>>" ++ check (runes_of_ascii "packet A { B { // a
 u8 x, // b
 } // c
 , // d
 }")).
Eval vm_compute in ("<<<M429>>>" ++ check (runes_of_ascii "packet uint8x
{ match pack
    as msg_type")).
Eval vm_compute in ("<<<M1903>>>" ++ check (runes_of_ascii "root packet A {
    u8 x `
        `,
}")).
Eval vm_compute in ("<<<M1774>>>" ++ check (runes_of_ascii "

  options	{
	a
=
1 	 // a
	;
} ")).
Eval vm_compute in ("<<<M1961>>>" ++ check (runes_of_ascii "packet A {
    repeat B b `d`,
}")).
Eval vm_compute in ("<<<M1467>>>" ++ check (runes_of_ascii "packet

    x  {
	// c
  } ")).
Eval vm_compute in ("<<<M217>>>" ++ check (runes_of_ascii "root	packet falsey
{
}
")).
Eval vm_compute in ("<<<M1738>>>" ++ check (runes_of_ascii "root packet falsey {
}")).
Eval vm_compute in ("<<<M1041>>>" ++ check (runes_of_ascii "packet A {
}
// c 	")).
Eval vm_compute in ("<<<M1007>>>" ++ check (runes_of_ascii "// c" ++ [8202]%N ++ runes_of_ascii "
packet A {
}")).
Eval vm_compute in ("<<<M974>>>" ++ check (runes_of_ascii "packet A {
}// c ")).
Eval vm_compute in ("<<<M1750>>>" ++ check (runes_of_ascii "
// @lengthOf(
")).
Eval vm_compute in ("<<<M1765>>>" ++ check (runes_of_ascii "

  // c")).
Eval vm_compute in ("<<<M765>>>" ++ check (runes_of_ascii "/" ++ [65533; 65533; 65533]%N)).
