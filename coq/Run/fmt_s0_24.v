From FP Require Import Lexer Parser ShowPT Digest Formatter.
From Coq Require Import String List NArith.
Import ListNotations.
Open Scope string_scope.
Set Printing Width 100000000.
Set Printing Depth 100000000.
Definition show_fres (r : fres) : string :=
  match r with
  | FOk s => "OK:" ++ sh_escaped s ""
  | FErr s => "ERR:" ++ sh_escaped s ""
  | FPanic p => "PANIC:" ++ p
  end.
Definition check (rs : list rune) : string := digest (show_fres (format_res rs)).
Definition full (rs : list rune) : string := show_fres (format_res rs).
Eval vm_compute in ("<<<M1814>>>" ++ check (runes_of_ascii "
packet
    falsey	{	@leftPad
(  )  int8

    uint8x
, zchar[
10

] matchKey

, 

    // c
repeat matchKey
{ repeat i8
    matchKey
	,
a1@calculatedFrom(	//
		""\n"" )
	`two words`, } 
,  a1 {
	char[]
	a1

, char x_y_z
	// @lengthOf(

,zchar[
	65535
]	// a // b
  	len	`u8 x,`	, } ,	repeat MetaDataX
	{ repeat  leftPad

    pack , 
string i8i8`say ""hi""` ,
}	// 50% %s

, 
      // " ++ [27880; 37322]%N ++ runes_of_ascii "
// @lengthOf(

@leftPad //x
  ( '0'  ) @lengthOf(

    BodyLength

)

    @rightPad (
    ' ' 	 // 50% %s
  )char[]  // " ++ [128512]%N ++ runes_of_ascii " emoji
  charz , @lengthOf(
i8i8 )

@calculatedFrom(
    ""CRC32"" 
)
@lengthOf(
T
	) metadata , // 50% %s
} packet  x	{
    @tag(
0123456789  )match
tag as
Pad
	{  [  //x

  ""\" ++ [233]%N ++ runes_of_ascii """ 
,
""a	b"" ,  // " ++ [27880; 37322]%N ++ runes_of_ascii "
	""a\\"" ,""{,}"",	007

,	007
,

0123456789
] // c
  	:  options1
,  }
,
@leftPad	(
	)

    @lengthOf(
	charz
	)
    @tag(
42) 
o{	i32 msg_type
@lengthOf(	// `tick` ""quote"" 'q'
  A
    )
``	,
zchar[
	1
    ]	charz
	    //	t
	//x
  ,

    i8 	 //x
	packetx`tab	here`
,repeat

crc

    rootA ,  },//	t
    repeat	uint8x asx

    , repeat  char[]
Foo

,

repeat zchar[ 0123456789	] u128
, 
match	uint8x 
as

_x  {""packet""
    : f32a	,
    255 
:	roots

,[

""" ++ [28040; 24687]%N ++ runes_of_ascii """,	0123456789	,""CRC32""

    ,  0
	, 
1 ,
255  ] 
:
    // @lengthOf(
  Packet
    ,
	""`tick`"" // packet A { u8 x, }

  :
    metadata  ,
    ""x y""
	:
	rootA  }
,	_x@lengthOf( crc)	,
	@lengthOf(Logon
	)repeat  Packet options1 , match

trueish

as

    lengthOf {
	65535  :
float
, } , @tag( 65535  ) lengthOf

@lengthOf( 	 // `tick` ""quote"" 'q'
a1
	)

`tab	here` ,
} ")).
Eval vm_compute in ("<<<M1634>>>" ++ check (runes_of_ascii "

  root packet  o	{	repeat
    zchar[ 65535 ] o ,	repeat char[ // trailing space 
		0	]
	zchar, int64
x
	`
`
	    //
		//
,// a // b
string
msg_type // a // b
	,
        // c
@leftPad( '\x00'
	) repeat
calculatedFrom 
    // trailing space 
  A

    ,

string	Header @lengthOf(  a1
)
`crlf
line`, repeat  crc
	{f32  Pad
    ,  match
    charz 
	/// triple
	  as Logon  
      //

  { [	""1"" 
,	// c
	""CRC32"" , 
""" ++ [28040; 24687]%N ++ runes_of_ascii """,	00
,
""1""
    ,""{,}""

    ,

""" ++ [28040; 24687]%N ++ runes_of_ascii """, ""{,}"" ] 
  // packet A { u8 x, }
	  //x
    :  uint8x,
	[  3
,
""CRC32""

] : 
        // a // b
lengthOf,

    42
:u128	,	} 
,  Z9_ ,float64 u128

    `{ , }`
,}	,

u16

calculatedFrom , 
zchar[ 3
]
    calculatedFrom	//	t

,
@tag(
	10
	) match charz
    as
_x{
    ""abc""

/// triple
	:
	    // `tick` ""quote"" 'q'
    //	t

zchar 
,

    ""packet""
	:
roots , 255	//x

	: 
options1

, ""1""
	: uint8x // packet A { u8 x, }
  ,  
      // 50% %s
} 

    // trailing space 
,}
    MetaData
len
{  uint8x len ,} 
packet

    options1
{

    @tag(10

) i8
roots @lengthOf(
    lengthOf), char[  1

]

u128  `" ++ [28040; 24687; 31867; 22411]%N ++ runes_of_ascii "`// @lengthOf(
    ,
	a1 
tag

`say ""hi""` ,string asx
    `// not a comment` 
,}

    packet calculatedFrom{  int64 
a1	//x
  ,
// a // b
    //x
}
")).
Eval vm_compute in ("<<<M1743>>>" ++ check (runes_of_ascii "packet rootA {
    @lengthOf(a1)
    f32a @lengthOf(Header) `// not a comment`,
    match T as i64_ {
        42 : string_,
    },
    match stringy as Header {
        [65535] : msg_type,
        ""it's"" : u,
        ""\n"" : lengthOf,
        // `tick` ""quote"" 'q'
    },
    @tag(42)
    repeat zchar f32a `u8 x,`,
    @tag(255)
    //
    repeat Pad {
        x T,
    },
    @calculatedFrom(""{,}"")
    repeat leftPad {
        //	t
        u64 u8x `" ++ [28040; 24687; 31867; 22411]%N ++ runes_of_ascii "`,
        len @calculatedFrom(""\" ++ [233]%N ++ runes_of_ascii """),
        zchar[4294967296] falsey,
    },
    @tag(7)
    match i8i8 as pack {
        3 : string_,
        0123456789 : packetx,
        [42] : tag,
        ""\n"" : a1,
        [0123456789, 1] : x_y_z,
        0 : float,
    },
    repeat u128 As,
}

options {
    packetx = """ ++ [128512]%N ++ runes_of_ascii """;
    msg_type = ' ';
    Packet = 10;
}

// a // b
packet Pad {
    // " ++ [27880; 37322]%N ++ runes_of_ascii "
    char[] pack,
    repeat float32 falsey,
    char[42] Z9_,
    Logon @lengthOf(i8i8) `
    `,
    tag {
        x,
        i32 float @lengthOf(crc),
    },
}")).
Eval vm_compute in ("<<<M1359>>>" ++ check (runes_of_ascii "options {
    LittleEndian = false;
    StringPrefixLenType = u16;
    ArrayPrefixLenType = u8;
    FixedStringPadChar = '0';
}
packet Leg {
    zchar[1] Ref,
    repeat string count,
    repeat InMsgkind21 {
        repeat char[2] price,
        uint64 sym,
        zchar[9] msgKind,
    },
    zchar[5] Note,
}
packet Ack {
    u16 seqNo,
    repeat char[1] Acct,
    @leftPad(' ') char[4] msgKind,
    repeat InTag747 {
        Leg,
    },
    repeat string Tail,
    Leg,
}
packet Trade {
    u64 clOrdID,
    repeat InLastpx24 {
        char[10] Note,
        char[3] Qty,
        repeat char[2] Side2,
        Ack,
        repeat InX47 {
            Ack,
        },
    },
}
root packet Heartbeat {
    repeat u64 Acct,
    string lastPx,
    u8 Side2,
    match Side2 as Body {
        2 : Trade,
        157 : Ack,
        46 : Leg,
    },
    u32 sym @calculatedFrom(""CR\
C32""),
}
")).
Eval vm_compute in ("<<<M1896>>>" ++ check (runes_of_ascii "
root
	packet  crc {
	MetaDataX 
@calculatedFrom( 
    // " ++ [128512]%N ++ runes_of_ascii " emoji
    	//
      ""// no comment""

    ) , 	 // " ++ [27880; 37322]%N ++ runes_of_ascii "
@calculatedFrom(  """"

    ) 

    // trailing space 

  len metadata  // @lengthOf(
    	, @tag( 
0	) 
	    // `tick` ""quote"" 'q'
    // c
char As

`doc`  ,	@lengthOf(	// `tick` ""quote"" 'q'

  crc 
    // c
    //	t
  )repeat leftPad 
	// a // b
	  {
repeat
    chars
	u8x 
`// not a comment`,uint8x
{
    repeat

char[ 10	] 
crc,
options1,  }
    , 

    // " ++ [128512]%N ++ runes_of_ascii " emoji

  // trailing space 
match 
leftPad

as Packet{ ""// no comment"" :  chars
,
[ 42,
    0
	]:a1 

// c
	  ""\n""
:	len  // `tick` ""quote"" 'q'
      , 3
:// " ++ [128512]%N ++ runes_of_ascii " emoji

Header
}
    ,
char[]
options1 @lengthOf(  //	t
f32a

) `
`
	,

}	, // a // b

}

")).
Eval vm_compute in ("<<<M1950>>>" ++ check (runes_of_ascii "packet Pad {
    match string_ as asx {
        7 : len,
        3 : lengthOf,
        [1] : charz,
        ""{,}"" : string_,
        ""\n"" : tag,
    },
    @calculatedFrom(""a	b"")
    // packet A { u8 x, }
    // " ++ [128512]%N ++ runes_of_ascii " emoji
    i16 calculatedFrom `it's`,
    @tag(10)
    repeat o {
        repeat char[] o `say ""hi""`,
        int @calculatedFrom(""a\\""),
        Foo {
            repeat T {
                f32 A @lengthOf(charz),
                Logon @lengthOf(pack) `a\`,
            },
        },
        // " ++ [128512]%N ++ runes_of_ascii " emoji
        //
    },
}

options {
    i64_ = uint32;
    falsey = ""a	b"";
    BodyLength = '0';
    lengthOf = """ ++ [28040; 24687]%N ++ runes_of_ascii """;
    repeatCount = u64
}")).
Eval vm_compute in ("<<<M348>>>" ++ check (runes_of_ascii "packet //x
rootA
    {
    @calculatedFrom( ""{,}""	)
    @calculatedFrom( ""x y"" ) char[ 0
    // packet A { u8 x, }
    ] lengthOf,  @tag( 3 )
    //	t
    trueish,charz`" ++ [28040; 24687; 31867; 22411]%N ++ runes_of_ascii "` , match u8x as roots { ""x y"":
    //	t
    i64_ // " ++ [128512]%N ++ runes_of_ascii " emoji
, ""a\\"":
    As , ""CRC32"" :
    calculatedFrom
    //
    , ""1""
    :msg_type
    ,
[ """ ++ [233]%N ++ runes_of_ascii "t" ++ [233]%N ++ runes_of_ascii """  , 007 ]
: Foo ,} , u32 lengthOf ,@lengthOf(
options1 ) x_y_z Logon `100% of %d`, @tag(
42
) // packet A { u8 x, }
A	{ f32a `u8 x,`
// " ++ [128512]%N ++ runes_of_ascii " emoji
// packet A { u8 x, }
, }
,//x
@rightPad( ' ' ) char[// c
65535]f32a `tab	here` ,
// c
/// triple
}
")).
Eval vm_compute in ("<<<M342>>>" ++ check (runes_of_ascii "packet x
{ @lengthOf( options1
//
//x
)
uint8
    MetaDataX
`// not a comment`
    , packetx ,  @tag(
42  )
_x
@calculatedFrom(
// " ++ [27880; 37322]%N ++ runes_of_ascii "
//
""abc"" ) `" ++ [28040; 24687; 31867; 22411]%N ++ runes_of_ascii "`  , @lengthOf( stringy)string trueish
`
` , o	stringy`{ , }` , zchar[ 007 ] Logon , // 50% %s
@rightPad
(	'\x00'
)repeat// 50% %s
lengthOf{char[
    65535 ]u128 ,int8 A , body { match // trailing space 
x
as
options1 {
7:
    // trailing space 
    roots // " ++ [128512]%N ++ runes_of_ascii " emoji
""CRC32""
:// packet A { u8 x, }
i8i8  , }
,
} , } , }
    //	t
    packet As {
} // @lengthOf(")).
Eval vm_compute in ("<<<M1631>>>" ++ check (runes_of_ascii "MetaData u128 {
}

MetaData a1 {
}// " ++ [128512]%N ++ runes_of_ascii " emoji

root packet o {
    char[10] stringy @lengthOf(Z9_),
    match x_y_z as stringy {
        3 : float,
    },
    @leftPad(' ')
    u128 {
        repeat i32 msg_type `it's`,
        x,
        repeat char[65535] T,
        match A as i8i8 {
            """ ++ [128512]%N ++ runes_of_ascii """ : Logon,
        },
    },
}

MetaData x_y_z {
    // @lengthOf(
    options1 a1,
    u8x x_y_z `tab	here`,
    char MetaDataX,// " ++ [27880; 37322]%N ++ runes_of_ascii "
    zchar[65535] chars,
    char[] crc `doc`,
}")).
Eval vm_compute in ("<<<M214>>>" ++ check (runes_of_ascii "
options {string_ = float64 ; } root packet BodyLength
    { Header , i16 Foo, lengthOf@calculatedFrom(
""`tick`""	) //
`// not a comment`
    , @lengthOf( charz )// " ++ [128512]%N ++ runes_of_ascii " emoji
repeat u32 a1 ,
    calculatedFrom {
    f64 chars @lengthOf( a1
) `u8 x,`
    , }  , repeat
    i8
    _x `
`
,} options
{ }
MetaData	i8i8
    { // trailing space 
MetaDataX A
,	string
asx,Packet Pad  `say ""hi""` , u128 stringy ,	i64 _x // " ++ [27880; 37322]%N ++ runes_of_ascii "
,
} packet x
{	}")).
Eval vm_compute in ("<<<M1793>>>" ++ check (runes_of_ascii "packet	o
    {

@rightPad(	'\x00' ) @calculatedFrom( ""a\""b"" 
)	@rightPad(
'0') char[ // trailing space 
    	255

]	zchar  @calculatedFrom(

    ""\" ++ [233]%N ++ runes_of_ascii """ ) ,

    char[ 
      // 50% %s
    	//	t
		10 	 /// triple
    	]
	_x`" ++ [28040; 24687; 31867; 22411]%N ++ runes_of_ascii "`  , 
} options 
{ }

    options {Pad ='0' 
; 
}packet i64_ 
{

    repeat string	// " ++ [128512]%N ++ runes_of_ascii " emoji
	zchar
, 
@calculatedFrom(
    """" ) @lengthOf(	Packet )  f32a 
// c
  // " ++ [27880; 37322]%N ++ runes_of_ascii "
,	}
")).
Eval vm_compute in ("<<<M152>>>" ++ check (runes_of_ascii "packet uint8x
{ }root
    packet repeatCount{ @rightPad ( '\x00') // 50% %s
i16
    roots ,@rightPad() repeat// 50% %s
trueish{tag	@calculatedFrom( ""1"" )
`line1
line2` ,
    string crc `100% of %d` , repeat	char[]trueish //
`// not a comment`,
repeat
BodyLength u `{ , }`
, } ,
char tag
,
@lengthOf(
body )
@tag( 007 ) @calculatedFrom( """ ++ [128512]%N ++ runes_of_ascii """ )
    char[	007	] uint8x , }
")).
Eval vm_compute in ("<<<M1175>>>" ++ check (runes_of_ascii "// top
options // c0
{ // c1
f32a // c2
= // c3
0 // c4
} // c5
packet // c6
trueish // c7
{ // c8
} // c9
MetaData // c10
_x // c11
{ // c12
char[ // c13
0123456789 // c14
] // c15
zchar // c16
, // c17
string // c18
crc // c19
, // c20
char[ // c21
1 // c22
] // c23
options1 // c24
, // c25
uint8 // c26
repeatCount // c27
, // c28
} // c29
")).
Eval vm_compute in ("<<<M1795>>>" ++ check (runes_of_ascii "packet len {
    // " ++ [27880; 37322]%N ++ runes_of_ascii "
    @leftPad('0')
    // trailing space 
    Logon @lengthOf(_x) `100% of %d`,
    char rootA,
    @calculatedFrom(""" ++ [28040; 24687]%N ++ runes_of_ascii """)
    @leftPad(' ')
    // `tick` ""quote"" 'q'
    i8 crc,
    msg_type @calculatedFrom("""") `
    `,// `tick` ""quote"" 'q'
}

options {
}

options {
    u8x = true
}")).
Eval vm_compute in ("<<<M1868>>>" ++ check (runes_of_ascii "// top
packet float {
    // c2
    @rightPad()
    // c5
    rootA @lengthOf(trueish),// c10
    stringy @lengthOf(matchKey),// c15
    char[4294967296] pack @lengthOf(uint8x),// c23
}// c24

root packet trueish {
    // c28
    repeat uint64 u128 `say ""hi""`,// c33
}// c34")).
Eval vm_compute in ("<<<M502>>>" ++ check (runes_of_ascii "packet
    asx { @calculatedFrom(
""""  ) @tag( 255 )repeat
// packet A { u8 x, }
// trailing space 
int16 u8x
,
@tag(
    //
    007 )
    @tag( 0
    /// triple
    ) @tag( 1) u
    @lengthOf( @lengthOf( T ),
// `tick` ""quote"" 'q'
//x
} // " ++ [128512]%N ++ runes_of_ascii " emoji")).
Eval vm_compute in ("<<<M407>>>" ++ check (runes_of_ascii "packet
    asx { @calculatedFrom(
"""" """"  ) @tag( 255 )repeat
// packet A { u8 x, }
// trailing space 
int16 u8x
,
@tag(
    //
    007 )
    @tag( 0
    /// triple
    ) @tag( 1) u
    @lengthOf( T ),
// `tick` ""quote"" 'q'
//x
} // " ++ [128512]%N ++ runes_of_ascii " emoji")).
Eval vm_compute in ("<<<M540>>>" ++ check (runes_of_ascii "packet
    asx { @calculatedFrom(
""""  ) @tag( 255 )repeat
// packet A { u8 x, }
// trailing space 
int16 u8x
,
@tag(
    //
    007 )
    @tag( 0
    /// triple
    ) @tag( 1) u
    @lengthOf( T )/,
// `tick` ""quote"" 'q'
//x
} // " ++ [128512]%N ++ runes_of_ascii " emoji")).
Eval vm_compute in ("<<<M508>>>" ++ check (runes_of_ascii "packet
    asx { @calculatedFrom(
""""  ) @tag( 255 )repeat
// packet A { u8 x, }
// trailing space 
int16 u8x
,
@tag(
    //
    007 )
    @tag( 0
    /// triple
    ) @tag( 1) u
    @lengthOf( ) T,
// `tick` ""quote"" 'q'
//x
} // " ++ [128512]%N ++ runes_of_ascii " emoji")).
Eval vm_compute in ("<<<M416>>>" ++ check (runes_of_ascii "packet
    asx { @calculatedFrom(
""""  )  255 )repeat
// packet A { u8 x, }
// trailing space 
int16 u8x
,
@tag(
    //
    007 )
    @tag( 0
    /// triple
    ) @tag( 1) u
    @lengthOf( T ),
// `tick` ""quote"" 'q'
//x
} // " ++ [128512]%N ++ runes_of_ascii " emoji")).
Eval vm_compute in ("<<<M1429>>>" ++ check (runes_of_ascii "  options  {}

packet
u128 	 // 50% %s
    	{ @tag( 
    // `tick` ""quote"" 'q'
  // " ++ [27880; 37322]%N ++ runes_of_ascii "
	  255)

    @tag( // `tick` ""quote"" 'q'
    	0)  Packet	, }packet
u8x	{ o,}packet
As{

repeat
msg_type

    Header	,
    }

")).
Eval vm_compute in ("<<<M510>>>" ++ check (runes_of_ascii "packet
    asx { @calculatedFrom(
""""  ) @tag( 255 )repeat
// packet A { u8 x, }
// trailing space 
int16 u8x
,
@tag(
    //
    007 )
    @tag( 0
    /// triple
    ) @tag( 1) u
    @lengthOf(")).
Eval vm_compute in ("<<<M500>>>" ++ check (runes_of_ascii "packet
    asx { @calculatedFrom(
""""  ) @tag( 255 )repeat
// packet A { u8 x, }
// trailing space 
int16 u8x
,
@tag(
    //
    007 )
    @tag( 0
    /// triple
    ) @tag( 1)")).
Eval vm_compute in ("<<<M582>>>" ++ check (runes_of_ascii "MetaData u
    { } MetaData o
{ float float uint8x
`100% of %d` ,repeatCount u8x, string_ leftPad
, i32
    Foo , int64 x `two words` , calculatedFrom
stringy `a\` ,
}
")).
Eval vm_compute in ("<<<M612>>>" ++ check (runes_of_ascii "MetaData u
    { } MetaData o
{ float uint8x
`100% of %d` ,repeatCount u8x, , string_ leftPad
, i32
    Foo , int64 x `two words` , calculatedFrom
stringy `a\` ,
}
")).
Eval vm_compute in ("<<<M558>>>" ++ check (runes_of_ascii "MetaData u
    } { MetaData o
{ float uint8x
`100% of %d` ,repeatCount u8x, string_ leftPad
, i32
    Foo , int64 x `two words` , calculatedFrom
stringy `a\` ,
}
")).
Eval vm_compute in ("<<<M551>>>" ++ check (runes_of_ascii "MetaData 
    { } MetaData o
{ float uint8x
`100% of %d` ,repeatCount u8x, string_ leftPad
, i32
    Foo , int64 x `two words` , calculatedFrom
stringy `a\` ,
}
")).
Eval vm_compute in ("<<<M709>>>" ++ check (runes_of_ascii "packet
crc
{repeat  Foo A   ,	@lengthOf( uint8x ) string
matchKey @lengthOf( stringy ) `a\`
,
    // c
    }
MetaData chars{
leftPad
    //	t
    crc
`" ++ [233]%N ++ runes_of_ascii "`
,}")).
Eval vm_compute in ("<<<M656>>>" ++ check (runes_of_ascii "MetaData u
    { } MetaData o
{ float uint8x
`100% of %d` ,repeatCount u8x, string_ leftPad
, i32
    Foo , int64 x  , calculatedFrom
stringy `a\` ,
}
")).
Eval vm_compute in ("<<<M1255>>>" ++ check (runes_of_ascii "// top
root
    // c0
packet P // c2
{ // c3
repeat // c4a
  // c4b
char
    // c5
cs ,
    // c7
u8 // c8
x // c9
, // c10
} // c11a
  // c11b
")).
Eval vm_compute in ("<<<M965>>>" ++ check (runes_of_ascii "packet A {
    u16 len @lengthOf(body) `100% of %s %d %v`,
    u32 crc @calculatedFrom(""CRC32"") `100% of %s %d %v`,
    string body,
}")).
Eval vm_compute in ("<<<M1415>>>" ++ check (runes_of_ascii "packet
    _x 
{	@lengthOf(
    packetx)
_x@lengthOf(  // c
  f32a

)

    , 
float64 Header  @calculatedFrom( ""it's"")
, }

")).
Eval vm_compute in ("<<<M660>>>" ++ check (runes_of_ascii "MetaData u
    { } MetaData o
{ float uint8x
`100% of %d` ,repeatCount u8x, string_ leftPad
, i32
    Foo , int64 x")).
Eval vm_compute in ("<<<M1213>>>" ++ check (runes_of_ascii "options { } options { MetaDataX // c
= char ; } MetaData Pad { i8 metadata , string stringy , int8 As `{ , }` , }")).
Eval vm_compute in ("<<<M1245>>>" ++ check (runes_of_ascii "options { } options { MetaDataX = char ; } MetaData Pad { i8 metadata , string stringy , int8 As `{ , }` // c
, }")).
Eval vm_compute in ("<<<M909>>>" ++ check (runes_of_ascii "packet A {
  match k as n {
    [""a"", 22, ""c c"", 4, ""e"", 66, ""g"", 8, ""i"", 10, ""k"", 12] : B
    2 : C
  },
}")).
Eval vm_compute in ("<<<M911>>>" ++ check (runes_of_ascii "packet A {
  match k as n {
    [1, 22, ""c c"", 4, 5, ""f"", 7, 8, ""i"", 10, 11, ""l""] : B
    2 : C
  },
}")).
Eval vm_compute in ("<<<M852>>>" ++ check (runes_of_ascii "packet A {
  match k as n {
    [""a"", ""bb"", ""c c"", ""d"", ""e"", ""f"", ""g"", ""h""] : B,
    2 : C
  },
}")).
Eval vm_compute in ("<<<M526>>>" ++ check (runes_of_ascii "packet
    asx { @calculatedFrom(
""""  ) @tag( 255 )repeat
// packet A { u8 x, }
// trailing ")).
Eval vm_compute in ("<<<M1561>>>" ++ check (runes_of_ascii "  packet	A {

    match
k

    as n  { 
[ ""a"" ,22 , ""c c""
]
:

B ,
    2 :

C} ,

} ")).
Eval vm_compute in ("<<<M386>>>" ++ check (runes_of_ascii "root packet SimpleMessage {
	uint16 MsgType `" ++ [28040; 24687; 31867; 22411]%N ++ runes_of_ascii "`,
	string JsonBody `Json" ++ [23383; 31526; 20018; 28040; 24687; 20307]%N ++ runes_of_ascii "`,
}")).
Eval vm_compute in ("<<<M846>>>" ++ check (runes_of_ascii "packet A {
  match k as n {
    [1, 22, ""c c"", 4, 5, ""f"", 7] : B
    2 : C
  },
}")).
Eval vm_compute in ("<<<M801>>>" ++ check (runes_of_ascii "packet A {
  match k as n {
    [""a"", ""bb"", ""c c"", ""d""] : B
    2 : C
  },
}")).
Eval vm_compute in ("<<<M265>>>" ++ check (runes_of_ascii "// c
packet options1
{options1
x
, }
    options
{
Logon = float32  } 	 ")).
Eval vm_compute in ("<<<M1303>>>" ++ check (runes_of_ascii "
root	packet

P	{u8
	s_u8
    ,repeat
    u8
	r_u8 
, u16  b_len
,}

")).
Eval vm_compute in ("<<<M1253>>>" ++ check (runes_of_ascii "

  root

    packet	P 
{ char

    c  ,

u8 x

    ,
}

")).
Eval vm_compute in ("<<<M810>>>" ++ check (runes_of_ascii "packet A { Inner { match k as n { [1,22,007,4] : B, }, }, }")).
Eval vm_compute in ("<<<M1089>>>" ++ check (runes_of_ascii "packet A { match k as n { 1 : B // a // b 2 : C }, }")).
Eval vm_compute in ("<<<M243>>>" ++ check (runes_of_ascii "// `tick` ""quote"" 'q'
options { f32a  = uint16}")).
Eval vm_compute in ("<<<M301>>>" ++ check (runes_of_ascii "MetaData matchKey{ int64
    Packet ,} 	 ")).
Eval vm_compute in ("<<<M415>>>" ++ check (runes_of_ascii "packet
    asx { @calculatedFrom(
""""")).
Eval vm_compute in ("<<<M1644>>>" ++ check (runes_of_ascii "
// c" ++ [8232]%N ++ runes_of_ascii "
  packet A
    {

    }

")).
Eval vm_compute in ("<<<M49>>>" ++ check (runes_of_ascii "root packet i8i8
{ } /// triple")).
Eval vm_compute in ("<<<M1017>>>" ++ check (runes_of_ascii "packet A {
 u8 x `d" ++ [5760]%N ++ runes_of_ascii "`, // c" ++ [5760]%N ++ runes_of_ascii "
}")).
Eval vm_compute in ("<<<M575>>>" ++ check (runes_of_ascii "MetaData u
    { } MetaData")).
Eval vm_compute in ("<<<M289>>>" ++ check (runes_of_ascii "// `tick` ""quote"" 'q'

")).
Eval vm_compute in ("<<<M1129>>>" ++ check (runes_of_ascii "MetaData tag {
// c
}")).
Eval vm_compute in ("<<<M1036>>>" ++ check (runes_of_ascii "// c" ++ [8233]%N ++ runes_of_ascii "
packet A {
}")).
Eval vm_compute in ("<<<M1023>>>" ++ check (runes_of_ascii "packet A {
}// c" ++ [8202]%N)).
Eval vm_compute in ("<<<M123>>>" ++ check (runes_of_ascii "
packet _x {}
")).
Eval vm_compute in ("<<<M999>>>" ++ check (runes_of_ascii "// c" ++ [12288]%N)).
Eval vm_compute in ("<<<M732>>>" ++ check ([65279]%N)).
