From FP Require Import Lexer Parser ShowPT Digest.
From Coq Require Import String List NArith.
Import ListNotations.
Open Scope string_scope.
Set Printing Width 100000000.
Set Printing Depth 100000000.
Definition nl : string := String (Ascii.ascii_of_nat 10) EmptyString.
Definition model_lex (rs : list rune) : string := show_toks (lex rs).
Definition model_parse (rs : list rune) : string :=
  show_pt (match lex rs with Some ts => parse ts | None => None end).
(* coqc is slow at printing long strings: digests first (Digest.v), full texts on demand *)
Definition check (rs : list rune) : string :=
  digest (model_lex rs) ++ " " ++ digest (model_parse rs).
Definition full (rs : list rune) : string := model_lex rs ++ nl ++ model_parse rs.
Definition terms (ts : list tok) (t : pt) : string :=
  digest (show_toks (Some ts)) ++ " " ++ digest (show_pt (Some t)) ++ " " ++ digest (show_pt (parse ts)).
Definition terms_full (ts : list tok) (t : pt) : string :=
  show_toks (Some ts) ++ nl ++ show_pt (Some t) ++ nl ++ show_pt (parse ts).
Eval vm_compute in ("<<<M8>>>" ++ check (@nil rune)).
Eval vm_compute in ("<<<M18>>>" ++ check (runes_of_ascii "
MetaData i64_
{float32 trueish `
`,
    /// triple
    char[
    3 ]
stringy`say ""hi""`
    ,
char[ 4294967296
    /// triple
    ] roots , char[] pack	,
lengthOf
u8x `it's` , }MetaData
string_ {
    Header Header ,
    } MetaData u128 { }
")).
Eval vm_compute in ("<<<M28>>>" ++ check (runes_of_ascii "
packet
asx {
    int16
    u128 ,//x
match calculatedFrom
as
u8x { // @lengthOf(
10	: msg_type , // " ++ [27880; 37322]%N ++ runes_of_ascii "
7 :Packet , 0123456789 : falsey, } ,match // `tick` ""quote"" 'q'
trueish as msg_type {  [	""" ++ [28040; 24687]%N ++ runes_of_ascii """
    /// triple
    ]: f32a 255  : T
, [	""CRC32"" , // " ++ [27880; 37322]%N ++ runes_of_ascii "
65535 ]:
    zchar
""" ++ [28040; 24687]%N ++ runes_of_ascii """ :
As ""x y"" : metadata } , }root packet Header{ }")).
Eval vm_compute in ("<<<M38>>>" ++ check (runes_of_ascii "  root  packet MetaDataX  { char[ 0 ] As
    @calculatedFrom(	""a\\"" ) , @lengthOf( body )repeatCount tag
    , i16 uint8x
    // packet A { u8 x, }
    , @lengthOf(len ) repeat char[]	A `say ""hi""`, }
")).
Eval vm_compute in ("<<<M48>>>" ++ check (runes_of_ascii "// trailing space 
options { }

")).
Eval vm_compute in ("<<<T48>>>" ++ terms [mkTok 44 "// trailing space " 1 0 true; mkTok 1 "options" 2 0 false; mkTok 2 "{" 2 8 false; mkTok 3 "}" 2 10 false; mkTok 0 "<EOF>" 4 0 false] (mkPacket (mkPtok 1 "options" 2 0 1) (Some (mkPtok 3 "}" 2 10 3)) [(DOption (mkOptionDef (mkSpan (mkPtok 1 "options" 2 0 1) (mkPtok 3 "}" 2 10 3)) (mkPtok 1 "options" 2 0 1) (mkPtok 2 "{" 2 8 2) [] (mkPtok 3 "}" 2 10 3)))])).
Eval vm_compute in ("<<<M58>>>" ++ check (runes_of_ascii "
packet // @lengthOf(
options1 {@rightPad (' ')
// `tick` ""quote"" 'q'
//	t
match MetaDataX as a1
{ 3: Foo , // c
0123456789: //
charz
,}
    ,  }
    packet  rootA{ match // packet A { u8 x, }
int
    as Packet	{""abc""
: string_ , },} MetaData
body
    // a // b
    {	Pad MetaDataX ,len float
`line1
line2`, uint8x falsey
    , char metadata	, MetaDataX body , } MetaData falsey {char[42 ] msg_type
, } packet
roots//x
{ repeatCount @lengthOf(
Foo )
    , msg_type @lengthOf(
trueish	), repeat zchar[
    0
] falsey , @lengthOf(
x_y_z	)@calculatedFrom( """ ++ [233]%N ++ runes_of_ascii "t" ++ [233]%N ++ runes_of_ascii """	) @calculatedFrom( ""packet"" ) zchar[
1 ] charz@lengthOf( options1
)
,repeat body
// a // b
// @lengthOf(
`{ , }` ,}
")).
Eval vm_compute in ("<<<M68>>>" ++ check (runes_of_ascii "options  {
    Pad =42 Packet = ""`tick`"" // trailing space 
; u =
string ; float =
'\x00' ; }packet Header
{// " ++ [27880; 37322]%N ++ runes_of_ascii "
}
")).
Eval vm_compute in ("<<<M78>>>" ++ check (runes_of_ascii "root
    packet	A {
    // " ++ [27880; 37322]%N ++ runes_of_ascii "
    }	packet // trailing space 
x_y_z {}")).
Eval vm_compute in ("<<<M88>>>" ++ check (runes_of_ascii "packet _x/// triple
{  metadata @lengthOf(	Header
)
    `line1
line2` ,}")).
Eval vm_compute in ("<<<M98>>>" ++ check (runes_of_ascii "packet chars {
char[	3
] charz @lengthOf( // packet A { u8 x, }
options1
    )
, }
options {o= 65535 ;
len //
=	0 o= true ;
// @lengthOf(
//	t
roots
    = char[
7
    //x
    ]  matchKey
    = float32  ;
    } root packet	msg_type { @lengthOf(	u ) string crc , @leftPad ( '\x00'
) @tag( 7)  i8i8
`doc`  ,int16
Packet , match
// " ++ [27880; 37322]%N ++ runes_of_ascii "
// " ++ [27880; 37322]%N ++ runes_of_ascii "
roots as i8i8 {
4294967296 : u128  , """" :
    // " ++ [27880; 37322]%N ++ runes_of_ascii "
    packetx ,// a // b
[ ""`tick`"" ,
    255
    ]
    :
    // trailing space 
    uint8x ,[ ""// no comment"" , 10 , 4294967296
    , 65535 ,// @lengthOf(
0
// trailing space 
//
] :
//
// " ++ [27880; 37322]%N ++ runes_of_ascii "
Foo, } ,
@lengthOf(
chars // `tick` ""quote"" 'q'
)
    //x
    asx
// a // b
// c
@lengthOf(
stringy),
    @tag(
0 ) uint64 calculatedFrom @calculatedFrom( ""\n"" ), // `tick` ""quote"" 'q'
}

")).
Eval vm_compute in ("<<<M108>>>" ++ check (runes_of_ascii "packet
metadata
    {  i64_`a\` ,  @tag( 7	) zchar[
    10
    // a // b
    ]	roots ,
@tag(
    3 )	Foo `" ++ [28040; 24687; 31867; 22411]%N ++ runes_of_ascii "` , /// triple
}MetaData
    MetaDataX { char[ 00 ] // a // b
packetx , //	t
}")).
Eval vm_compute in ("<<<M118>>>" ++ check (runes_of_ascii "options {
u8x /// triple
=""a\""b""
    //
    } root packet u8x { zchar[	255 ] Foo
// " ++ [27880; 37322]%N ++ runes_of_ascii "
//x
`
` , }packet trueish{ char[ 0123456789	] _x
    `line1
line2` , }root
packet repeatCount { } // `tick` ""quote"" 'q'")).
Eval vm_compute in ("<<<T118>>>" ++ terms [mkTok 1 "options" 1 0 false; mkTok 2 "{" 1 8 false; mkTok 42 "u8x" 2 0 false; mkTok 44 "/// triple" 2 4 true; mkTok 4 "=" 3 0 false; mkTok 31 """a\""b""" 3 1 false; mkTok 44 "//" 4 4 true; mkTok 3 "}" 5 4 false; mkTok 34 "root" 5 6 false; mkTok 35 "packet" 5 11 false; mkTok 42 "u8x" 5 18 false; mkTok 2 "{" 5 22 false; mkTok 14 "zchar[" 5 24 false; mkTok 30 "255" 5 31 false; mkTok 13 "]" 5 35 false; mkTok 42 "Foo" 5 37 false; mkTok 44 (string_of_bytes [47; 47; 32; 230; 179; 168; 233; 135; 138]%N) 6 0 true; mkTok 44 "//x" 7 0 true; mkTok 43 (string_of_bytes [96; 10; 96]%N) 8 0 false; mkTok 40 "," 9 2 false; mkTok 3 "}" 9 4 false; mkTok 35 "packet" 9 5 false; mkTok 42 "trueish" 9 12 false; mkTok 2 "{" 9 19 false; mkTok 12 "char[" 9 21 false; mkTok 30 "0123456789" 9 27 false; mkTok 13 "]" 9 38 false; mkTok 42 "_x" 9 40 false; mkTok 43 (string_of_bytes [96; 108; 105; 110; 101; 49; 10; 108; 105; 110; 101; 50; 96]%N) 10 4 false; mkTok 40 "," 11 7 false; mkTok 3 "}" 11 9 false; mkTok 34 "root" 11 10 false; mkTok 35 "packet" 12 0 false; mkTok 42 "repeatCount" 12 7 false; mkTok 2 "{" 12 19 false; mkTok 3 "}" 12 21 false; mkTok 44 "// `tick` ""quote"" 'q'" 12 23 true; mkTok 0 "<EOF>" 12 44 false] (mkPacket (mkPtok 1 "options" 1 0 0) (Some (mkPtok 3 "}" 12 21 35)) [(DOption (mkOptionDef (mkSpan (mkPtok 1 "options" 1 0 0) (mkPtok 3 "}" 5 4 7)) (mkPtok 1 "options" 1 0 0) (mkPtok 2 "{" 1 8 1) [(mkOptionDecl (mkSpan (mkPtok 42 "u8x" 2 0 2) (mkPtok 31 """a\""b""" 3 1 5)) (mkPtok 42 "u8x" 2 0 2) (mkPtok 4 "=" 3 0 4) (VString (mkSpan (mkPtok 31 """a\""b""" 3 1 5) (mkPtok 31 """a\""b""" 3 1 5)) (mkPtok 31 """a\""b""" 3 1 5)) None)] (mkPtok 3 "}" 5 4 7))); (DPacket (mkPacketDef (mkSpan (mkPtok 34 "root" 5 6 8) (mkPtok 3 "}" 9 4 20)) (Some (mkPtok 34 "root" 5 6 8)) (mkPtok 35 "packet" 5 11 9) (mkPtok 42 "u8x" 5 18 10) (mkPtok 2 "{" 5 22 11) [(mkFieldWithAttr (mkSpan (mkPtok 14 "zchar[" 5 24 12) (mkPtok 40 "," 9 2 19)) [] (MetaField (mkSpan (mkPtok 14 "zchar[" 5 24 12) (mkPtok 40 "," 9 2 19)) None (mkMetaDecl (mkSpan (mkPtok 14 "zchar[" 5 24 12) (mkPtok 40 "," 9 2 19)) (TyFixed (mkSpan (mkPtok 14 "zchar[" 5 24 12) (mkPtok 13 "]" 5 35 14)) (mkFixedString (mkSpan (mkPtok 14 "zchar[" 5 24 12) (mkPtok 13 "]" 5 35 14)) (mkPtok 14 "zchar[" 5 24 12) (mkPtok 30 "255" 5 31 13) (mkPtok 13 "]" 5 35 14))) (mkPtok 42 "Foo" 5 37 15) (Some (mkPtok 43 (string_of_bytes [96; 10; 96]%N) 8 0 18)) (mkPtok 40 "," 9 2 19))))] (mkPtok 3 "}" 9 4 20))); (DPacket (mkPacketDef (mkSpan (mkPtok 35 "packet" 9 5 21) (mkPtok 3 "}" 11 9 30)) None (mkPtok 35 "packet" 9 5 21) (mkPtok 42 "trueish" 9 12 22) (mkPtok 2 "{" 9 19 23) [(mkFieldWithAttr (mkSpan (mkPtok 12 "char[" 9 21 24) (mkPtok 40 "," 11 7 29)) [] (MetaField (mkSpan (mkPtok 12 "char[" 9 21 24) (mkPtok 40 "," 11 7 29)) None (mkMetaDecl (mkSpan (mkPtok 12 "char[" 9 21 24) (mkPtok 40 "," 11 7 29)) (TyFixed (mkSpan (mkPtok 12 "char[" 9 21 24) (mkPtok 13 "]" 9 38 26)) (mkFixedString (mkSpan (mkPtok 12 "char[" 9 21 24) (mkPtok 13 "]" 9 38 26)) (mkPtok 12 "char[" 9 21 24) (mkPtok 30 "0123456789" 9 27 25) (mkPtok 13 "]" 9 38 26))) (mkPtok 42 "_x" 9 40 27) (Some (mkPtok 43 (string_of_bytes [96; 108; 105; 110; 101; 49; 10; 108; 105; 110; 101; 50; 96]%N) 10 4 28)) (mkPtok 40 "," 11 7 29))))] (mkPtok 3 "}" 11 9 30))); (DPacket (mkPacketDef (mkSpan (mkPtok 34 "root" 11 10 31) (mkPtok 3 "}" 12 21 35)) (Some (mkPtok 34 "root" 11 10 31)) (mkPtok 35 "packet" 12 0 32) (mkPtok 42 "repeatCount" 12 7 33) (mkPtok 2 "{" 12 19 34) [] (mkPtok 3 "}" 12 21 35)))])).
Eval vm_compute in ("<<<M128>>>" ++ check (runes_of_ascii "
options//
{ a1  = char[ 255 ]
; } packet
    Logon { @tag(3
    // trailing space 
    ) match pack as // packet A { u8 x, }
len{7 : metadata  ,//	t
[
""packet""] : calculatedFrom ,[ ""a	b"" ] :BodyLength ,  0123456789 : pack , [// " ++ [128512]%N ++ runes_of_ascii " emoji
""packet""
]  :float , ""packet"": pack, } , } options { Pad = true	;	} // " ++ [128512]%N ++ runes_of_ascii " emoji
packet As { //	t
repeat
i64
T
    `two words`	, @rightPad	(
    ' ' )	@calculatedFrom( ""{,}"") u8 a1 @lengthOf(
// a // b
// trailing space 
T ) ,
@tag( 255 )repeatCount
// `tick` ""quote"" 'q'
// " ++ [27880; 37322]%N ++ runes_of_ascii "
`
` , repeat A {	string int
//
//x
, zchar[ 00 ]pack @calculatedFrom(""// no comment"" ) ,
    } , repeat
char[] Packet `" ++ [233]%N ++ runes_of_ascii "` , @calculatedFrom(
""x y"" )repeat falsey msg_type `say ""hi""` ,
    repeat u32 tag
,Foo @lengthOf(T )
    `say ""hi""` , } // c
packet Z9_{ char[ 0123456789
    ] len @lengthOf( options1)
`
`, }
")).
Eval vm_compute in ("<<<M138>>>" ++ check (runes_of_ascii "packet i64_ {match
    i64_ as
crc { [
    /// triple
    ""\" ++ [233]%N ++ runes_of_ascii """ ,
    ""`tick`""	]
:
    As ,[ 3 ,  3
//
// a // b
] // trailing space 
: u ,3: packetx """ ++ [128512]%N ++ runes_of_ascii """ :
pack
4294967296 :
// c
//
charz
, ""\" ++ [233]%N ++ runes_of_ascii """ : metadata , }  , @lengthOf( u )
    @calculatedFrom(  ""a\""b"" )	char[ 4294967296
/// triple
// `tick` ""quote"" 'q'
] msg_type	`// not a comment`//	t
,// " ++ [27880; 37322]%N ++ runes_of_ascii "
roots
options1
//x
//
, }
    options
    {
roots // c
= true
    } MetaData leftPad
    { } //")).
Eval vm_compute in ("<<<M148>>>" ++ check (runes_of_ascii "
root packet _x // trailing space 
{
@calculatedFrom( ""\" ++ [233]%N ++ runes_of_ascii """ ) repeat
    //x
    char[ 10]x ,	@lengthOf( Pad
    )zchar[ 4294967296 ]f32a @calculatedFrom( ""{,}"" ) ,match leftPad as Header {
/// triple
// " ++ [27880; 37322]%N ++ runes_of_ascii "
255 : msg_type ,
// @lengthOf(
// " ++ [27880; 37322]%N ++ runes_of_ascii "
[ 4294967296
    ]: Packet ,/// triple
""// no comment""
// c
//
:Packet ,
    /// triple
    """ ++ [233]%N ++ runes_of_ascii "t" ++ [233]%N ++ runes_of_ascii """ : //
A ,  0 :f32a  ,""// no comment"" :
packetx	, },@rightPad (
    '\x00'
    )	A
`two words`
, repeat char[
65535] trueish
, Foo { string Logon ,  zchar[ 007  ]leftPad @calculatedFrom( ""\n"" // packet A { u8 x, }
) `
`,int32 string_	`// not a comment`
    , }
, repeat
string_
    // " ++ [27880; 37322]%N ++ runes_of_ascii "
    , @leftPad(  '\x00' ) T@calculatedFrom( ""a\""b"" ) `" ++ [28040; 24687; 31867; 22411]%N ++ runes_of_ascii "` , @lengthOf( rootA) // `tick` ""quote"" 'q'
i32//x
stringy
    ,@calculatedFrom( """ ++ [128512]%N ++ runes_of_ascii """ )  @lengthOf( body)@lengthOf( _x // a // b
)
repeat
x_y_z
    {
A @lengthOf(
    // packet A { u8 x, }
    i64_),},}packet i8i8 {int16 rootA `it's`, // packet A { u8 x, }
@rightPad ()
    char[]
body @lengthOf( pack
    ) ,float{match pack as lengthOf{// packet A { u8 x, }
""x y"" :
    u128 , // trailing space 
} , } , stringy{
char[ 42 ]Packet// a // b
@lengthOf(  MetaDataX ) `" ++ [28040; 24687; 31867; 22411]%N ++ runes_of_ascii "`	,
} , @calculatedFrom( ""\n"") char[
7 ] float , @lengthOf(
T)	msg_type { float64  Pad `// not a comment` ,
    string As
, char[]_x
// @lengthOf(
// a // b
@lengthOf(	T) `two words`
, match
    u128 as asx{
255 :tag
    10: len ,
[""1""
    ,	007,""1""
,""CRC32"" , // @lengthOf(
""" ++ [28040; 24687]%N ++ runes_of_ascii """  , // " ++ [128512]%N ++ runes_of_ascii " emoji
""" ++ [28040; 24687]%N ++ runes_of_ascii """ , 0
    ,  ""x y""
    // packet A { u8 x, }
    ] :
x_y_z ,}
    ,
}
//x
//
, @tag(
// " ++ [27880; 37322]%N ++ runes_of_ascii "
// " ++ [128512]%N ++ runes_of_ascii " emoji
3
) repeat  o { // @lengthOf(
falsey `{ , }`
,
string calculatedFrom// packet A { u8 x, }
,
    match string_ as  falsey {
42 :
calculatedFrom
    , 255 : // c
Header	,
[ """ ++ [233]%N ++ runes_of_ascii "t" ++ [233]%N ++ runes_of_ascii """] : // a // b
asx ,[ ""packet""	, 255 //x
, """ ++ [128512]%N ++ runes_of_ascii """
] : lengthOf,
    ""{,}""  :metadata /// triple
, ""`tick`"" : pack , } ,_x ,
    // " ++ [128512]%N ++ runes_of_ascii " emoji
    } ,
    } MetaData BodyLength { f32 u
,} // a // b
options{ }	packet Logon {
@tag( 007)
    msg_type
    ,}
")).
Eval vm_compute in ("<<<M158>>>" ++ check (runes_of_ascii "root
packet calculatedFrom {//
}")).
Eval vm_compute in ("<<<M168>>>" ++ check (runes_of_ascii "options	{ u8x
    ='\x00' ;
//x
// @lengthOf(
} root packet options1
    { u128 msg_type `a\` , int64 pack
    @calculatedFrom( // `tick` ""quote"" 'q'
""CRC32"" // " ++ [128512]%N ++ runes_of_ascii " emoji
) ,
@rightPad (
    ) @lengthOf( A )
@lengthOf( matchKey	) uint32 float ,
@calculatedFrom( ""\" ++ [233]%N ++ runes_of_ascii """ )repeat int64 msg_type ,
}
root packet
lengthOf { body
/// triple
// trailing space 
,
repeat u
    , @lengthOf( leftPad )
//	t
// c
@lengthOf( x
    )match msg_type
as // trailing space 
len { ""abc"" : Pad
//
/// triple
, [ ""a	b""	] :
packetx
// " ++ [27880; 37322]%N ++ runes_of_ascii "
//	t
,
    [	""it's"" , ""`tick`"" ,
1 ,
// @lengthOf(
//
""""	, ""`tick`"" ] : // @lengthOf(
crc ,}	,@calculatedFrom(""it's"" ) @calculatedFrom(
""" ++ [128512]%N ++ runes_of_ascii """  )
// a // b
// c
@lengthOf( _x )i8i8
    // " ++ [27880; 37322]%N ++ runes_of_ascii "
    {Header
    @calculatedFrom(
    ""a\""b""
)	,
    },}")).
Eval vm_compute in ("<<<M178>>>" ++ check (runes_of_ascii "options{ As = false ; falsey	=
// trailing space 
//
""a\\"" ; a1
    = ' '
    }
packet u
{
    }
    root packet metadata { char[] repeatCount
`say ""hi""` ,@rightPad
    ('0'
)float32
    i8i8
    ,
//	t
// " ++ [128512]%N ++ runes_of_ascii " emoji
repeat lengthOf pack
    ,int8
A@calculatedFrom( """ ++ [233]%N ++ runes_of_ascii "t" ++ [233]%N ++ runes_of_ascii """
) `
`
,}
")).
Eval vm_compute in ("<<<M188>>>" ++ check (runes_of_ascii "packet chars {	} MetaData options1
    {Logon repeatCount`" ++ [28040; 24687; 31867; 22411]%N ++ runes_of_ascii "` , }
/// triple
// c
MetaData u8x
    { int64
    //
    Pad,	}//x
MetaData
    // c
    packetx
    {}
")).
Eval vm_compute in ("<<<T188>>>" ++ terms [mkTok 35 "packet" 1 0 false; mkTok 42 "chars" 1 7 false; mkTok 2 "{" 1 13 false; mkTok 3 "}" 1 15 false; mkTok 37 "MetaData" 1 17 false; mkTok 42 "options1" 1 26 false; mkTok 2 "{" 2 4 false; mkTok 42 "Logon" 2 5 false; mkTok 42 "repeatCount" 2 11 false; mkTok 43 (string_of_bytes [96; 230; 182; 136; 230; 129; 175; 231; 177; 187; 229; 158; 139; 96]%N) 2 22 false; mkTok 40 "," 2 29 false; mkTok 3 "}" 2 31 false; mkTok 44 "/// triple" 3 0 true; mkTok 44 "// c" 4 0 true; mkTok 37 "MetaData" 5 0 false; mkTok 42 "u8x" 5 9 false; mkTok 2 "{" 6 4 false; mkTok 27 "int64" 6 6 false; mkTok 44 "//" 7 4 true; mkTok 42 "Pad" 8 4 false; mkTok 40 "," 8 7 false; mkTok 3 "}" 8 9 false; mkTok 44 "//x" 8 10 true; mkTok 37 "MetaData" 9 0 false; mkTok 44 "// c" 10 4 true; mkTok 42 "packetx" 11 4 false; mkTok 2 "{" 12 4 false; mkTok 3 "}" 12 5 false; mkTok 0 "<EOF>" 13 0 false] (mkPacket (mkPtok 35 "packet" 1 0 0) (Some (mkPtok 3 "}" 12 5 27)) [(DPacket (mkPacketDef (mkSpan (mkPtok 35 "packet" 1 0 0) (mkPtok 3 "}" 1 15 3)) None (mkPtok 35 "packet" 1 0 0) (mkPtok 42 "chars" 1 7 1) (mkPtok 2 "{" 1 13 2) [] (mkPtok 3 "}" 1 15 3))); (DMeta (mkMetaDef (mkSpan (mkPtok 37 "MetaData" 1 17 4) (mkPtok 3 "}" 2 31 11)) (mkPtok 37 "MetaData" 1 17 4) (mkPtok 42 "options1" 1 26 5) (mkPtok 2 "{" 2 4 6) [(MIRef (mkRefMetaDecl (mkSpan (mkPtok 42 "Logon" 2 5 7) (mkPtok 40 "," 2 29 10)) (mkPtok 42 "Logon" 2 5 7) (mkPtok 42 "repeatCount" 2 11 8) (Some (mkPtok 43 (string_of_bytes [96; 230; 182; 136; 230; 129; 175; 231; 177; 187; 229; 158; 139; 96]%N) 2 22 9)) (mkPtok 40 "," 2 29 10)))] (mkPtok 3 "}" 2 31 11))); (DMeta (mkMetaDef (mkSpan (mkPtok 37 "MetaData" 5 0 14) (mkPtok 3 "}" 8 9 21)) (mkPtok 37 "MetaData" 5 0 14) (mkPtok 42 "u8x" 5 9 15) (mkPtok 2 "{" 6 4 16) [(MIDecl (mkMetaDecl (mkSpan (mkPtok 27 "int64" 6 6 17) (mkPtok 40 "," 8 7 20)) (TyBasic (mkSpan (mkPtok 27 "int64" 6 6 17) (mkPtok 27 "int64" 6 6 17)) (mkBasicType (mkSpan (mkPtok 27 "int64" 6 6 17) (mkPtok 27 "int64" 6 6 17)) (mkPtok 27 "int64" 6 6 17))) (mkPtok 42 "Pad" 8 4 19) None (mkPtok 40 "," 8 7 20)))] (mkPtok 3 "}" 8 9 21))); (DMeta (mkMetaDef (mkSpan (mkPtok 37 "MetaData" 9 0 23) (mkPtok 3 "}" 12 5 27)) (mkPtok 37 "MetaData" 9 0 23) (mkPtok 42 "packetx" 11 4 25) (mkPtok 2 "{" 12 4 26) [] (mkPtok 3 "}" 12 5 27)))])).
Eval vm_compute in ("<<<M198>>>" ++ check (runes_of_ascii "// " ++ [27880; 37322]%N ++ runes_of_ascii "
packet _x{ @lengthOf(  metadata ) repeat zchar[ 4294967296  ]metadata
    , float `it's`, f64 Z9_ @calculatedFrom(	""a\""b"" )
`u8 x,`	, } packet
Pad {} packet
    pack {i8
Header@lengthOf( //
MetaDataX
    ) `// not a comment` ,
@calculatedFrom( ""\n"")repeat a1 Logon ,}
")).
Eval vm_compute in ("<<<M208>>>" ++ check (runes_of_ascii " 	 ")).
Eval vm_compute in ("<<<M218>>>" ++ check (runes_of_ascii "options {
zchar
// `tick` ""quote"" 'q'
// @lengthOf(
= 255 stringy
= char[]; // " ++ [27880; 37322]%N ++ runes_of_ascii "
i8i8 =
zchar[255 ] }
")).
Eval vm_compute in ("<<<M228>>>" ++ check (runes_of_ascii "
packet
    int{  } root packet As { options1
    // c
    {match
    // c
    u8x as
    //
    u8x {""" ++ [233]%N ++ runes_of_ascii "t" ++ [233]%N ++ runes_of_ascii """
    :
Logon //x
, 1 : matchKey ,""`tick`"" : string_
    ,
} ,char[] leftPad
// a // b
// trailing space 
,
    match A as metadata
{7
    // `tick` ""quote"" 'q'
    :
calculatedFrom ,
    } ,
    Z9_	@calculatedFrom(
""// no comment"" ) ,}// @lengthOf(
,i16 // c
Logon@lengthOf(
// a // b
//	t
Logon ) ,
asx falsey, match Foo
    as  repeatCount
    {	0:Packet 0123456789 // " ++ [27880; 37322]%N ++ runes_of_ascii "
:
// " ++ [128512]%N ++ runes_of_ascii " emoji
//	t
T
    ,[ ""1""
,
""a	b"" ,
    ""x y"", ""// no comment""
    ] :	uint8x , },
    }")).
Eval vm_compute in ("<<<M238>>>" ++ check (runes_of_ascii "  ")).
Eval vm_compute in ("<<<M248>>>" ++ check (runes_of_ascii " 	 ")).
Eval vm_compute in ("<<<M258>>>" ++ check (runes_of_ascii "
MetaData Pad {} MetaData
BodyLength { i32
i64_
    , } //	t")).
Eval vm_compute in ("<<<T258>>>" ++ terms [mkTok 37 "MetaData" 2 0 false; mkTok 42 "Pad" 2 9 false; mkTok 2 "{" 2 13 false; mkTok 3 "}" 2 14 false; mkTok 37 "MetaData" 2 16 false; mkTok 42 "BodyLength" 3 0 false; mkTok 2 "{" 3 11 false; mkTok 26 "i32" 3 13 false; mkTok 42 "i64_" 4 0 false; mkTok 40 "," 5 4 false; mkTok 3 "}" 5 6 false; mkTok 44 (string_of_bytes [47; 47; 9; 116]%N) 5 8 true; mkTok 0 "<EOF>" 5 12 false] (mkPacket (mkPtok 37 "MetaData" 2 0 0) (Some (mkPtok 3 "}" 5 6 10)) [(DMeta (mkMetaDef (mkSpan (mkPtok 37 "MetaData" 2 0 0) (mkPtok 3 "}" 2 14 3)) (mkPtok 37 "MetaData" 2 0 0) (mkPtok 42 "Pad" 2 9 1) (mkPtok 2 "{" 2 13 2) [] (mkPtok 3 "}" 2 14 3))); (DMeta (mkMetaDef (mkSpan (mkPtok 37 "MetaData" 2 16 4) (mkPtok 3 "}" 5 6 10)) (mkPtok 37 "MetaData" 2 16 4) (mkPtok 42 "BodyLength" 3 0 5) (mkPtok 2 "{" 3 11 6) [(MIDecl (mkMetaDecl (mkSpan (mkPtok 26 "i32" 3 13 7) (mkPtok 40 "," 5 4 9)) (TyBasic (mkSpan (mkPtok 26 "i32" 3 13 7) (mkPtok 26 "i32" 3 13 7)) (mkBasicType (mkSpan (mkPtok 26 "i32" 3 13 7) (mkPtok 26 "i32" 3 13 7)) (mkPtok 26 "i32" 3 13 7))) (mkPtok 42 "i64_" 4 0 8) None (mkPtok 40 "," 5 4 9)))] (mkPtok 3 "}" 5 6 10)))])).
Eval vm_compute in ("<<<M268>>>" ++ check (runes_of_ascii "packet tag { @calculatedFrom("""" )Pad { int16 matchKey
    @calculatedFrom(""" ++ [233]%N ++ runes_of_ascii "t" ++ [233]%N ++ runes_of_ascii """), /// triple
char[] metadata, string _x `{ , }` ,// trailing space 
} , A , match crc as msg_type {
0123456789 :Packet , """ ++ [128512]%N ++ runes_of_ascii """ : Z9_
    ,
} ,repeat x_y_z
repeatCount,repeat	BodyLength{  char[ 255 ] A `tab	here` ,
    char[]f32a , repeat body `say ""hi""` ,
    }
    , zchar[ 7] //x
A@calculatedFrom(  ""`tick`"" )
// trailing space 
//
,	int32 len `{ , }`
    ,
}MetaData leftPad
    { int16 packetx ,i64
u128, u8 x_y_z
    ,// @lengthOf(
char[]
u ,
matchKey rootA
`a\`
    ,	} options { int =int32 ; }
root
    packet	MetaDataX {
u8  _x , @lengthOf(metadata ) repeatCount/// triple
, } //x")).
Eval vm_compute in ("<<<M278>>>" ++ check (runes_of_ascii "options
{
//	t
//
Packet //
=
u8
    //	t
    }	packet string_ {
u8x`// not a comment` ,matchKey zchar
, @tag( 42
    ) char[] body,	crc //x
calculatedFrom `" ++ [233]%N ++ runes_of_ascii "` ,
@leftPad(
' ' )
    i8 MetaDataX `line1
line2` , char[1] x	@lengthOf( Logon)
    ,	T@calculatedFrom(
    """ ++ [128512]%N ++ runes_of_ascii """ )  , }
MetaData
A  { MetaDataX
chars, }

")).
Eval vm_compute in ("<<<M288>>>" ++ check (runes_of_ascii "
packet roots // c
{ u32 msg_type
// `tick` ""quote"" 'q'
// " ++ [128512]%N ++ runes_of_ascii " emoji
@lengthOf(
Header) `u8 x,` , a1 u128  ,
match options1 as i8i8 // `tick` ""quote"" 'q'
{10 : string_ 7  :	Pad, 10 : /// triple
msg_type
,""it's""
: chars, },
}

")).
Eval vm_compute in ("<<<M298>>>" ++ check (runes_of_ascii "// a // b
root
    packet	falsey { char[ 007 ]
// `tick` ""quote"" 'q'
// @lengthOf(
T
, Z9_ u
`u8 x,`,
    repeat char[
7 ]u
`crlf
line` , @calculatedFrom(  ""\n"" ) Pad { repeat asx
float
`line1
line2` ,u32
    calculatedFrom , char[ 007	] tag `crlf
line`
    ,
    } , /// triple
@tag(
//	t
// c
0123456789
    ) match int as body{
[ 10
, 4294967296 ]
: Pad , ""// no comment"" :u8x [
1]
// `tick` ""quote"" 'q'
//x
: As[ ""it's"" , 255
] : u128  , [	""" ++ [233]%N ++ runes_of_ascii "t" ++ [233]%N ++ runes_of_ascii """  ,
/// triple
//	t
007
,
    4294967296, ""{,}"" ,""" ++ [128512]%N ++ runes_of_ascii """
    // c
    ]
// " ++ [27880; 37322]%N ++ runes_of_ascii "
//	t
:
    i8i8
, } , @lengthOf(
i8i8 )  _x `{ , }` //
,
} options
{ asx ='\x00' ; u8x = ""\n""
    ; i8i8 =
    // c
    true ; Foo
=	' '
    // a // b
    }
//x
// @lengthOf(
packet o{repeat f32a
    // trailing space 
    {
repeat
charz // trailing space 
lengthOf , len , repeat MetaDataX falsey  , match falsey as string_ // " ++ [27880; 37322]%N ++ runes_of_ascii "
{ 0123456789 // " ++ [27880; 37322]%N ++ runes_of_ascii "
: trueish
, 0123456789 : calculatedFrom, [ ""it's""
    , 0 , 42 , ""`tick`""
, 3 ,1 , // @lengthOf(
""" ++ [233]%N ++ runes_of_ascii "t" ++ [233]%N ++ runes_of_ascii """]
: falsey,""CRC32"" :
int },
    } , u8x
@lengthOf( body
    )
// packet A { u8 x, }
//
,	rootA
    , u8x
, match Packet as As
{[ ""a\\"" , 3
    ] : // @lengthOf(
body
    // " ++ [128512]%N ++ runes_of_ascii " emoji
    ,
00 : Pad ,
} , match charz
    as A
{ [ // @lengthOf(
007 , 10 ,	4294967296 ]
    : As,  [ 4294967296
] :zchar ,} ,
    @leftPad(
// c
// a // b
'\x00' ) repeat i64 rootA , string
len
    @calculatedFrom( ""a	b"" )`
`
    , zchar[ 0123456789 ] x_y_z	@calculatedFrom( """ ++ [28040; 24687]%N ++ runes_of_ascii """ )
, @lengthOf(leftPad  )repeatCount	@lengthOf( Header) `it's`
, } packet matchKey  { string o	@lengthOf( falsey ) , @calculatedFrom( ""CRC32""
    ) repeat char[ 007] zchar `a\` ,
    BodyLength @lengthOf(Foo ) `line1
line2` ,@rightPad (
    '0'  )
    float64
u8x ,Logon @lengthOf(_x ) //x
,
} packet MetaDataX{
    }

")).
Eval vm_compute in ("<<<M308>>>" ++ check (runes_of_ascii "root packet SimpleMessage {
	uint16 MsgType `" ++ [28040; 24687; 31867; 22411]%N ++ runes_of_ascii "`,
	string JsonBody `Json" ++ [23383; 31526; 20018; 28040; 24687; 20307]%N ++ runes_of_ascii "`,
}")).
Eval vm_compute in ("<<<M318>>>" ++ check (runes_of_ascii "packet")).
Eval vm_compute in ("<<<M328>>>" ++ check (runes_of_ascii "packet  calculatedFrom{")).
Eval vm_compute in ("<<<M338>>>" ++ check (runes_of_ascii "packet  calculatedFrom{ @rightPad(")).
Eval vm_compute in ("<<<M348>>>" ++ check (runes_of_ascii "packet  calculatedFrom{ @rightPad(	' '
    )")).
Eval vm_compute in ("<<<M358>>>" ++ check (runes_of_ascii "packet  calculatedFrom{ @rightPad(	' '
    )@lengthOf( uint8x")).
Eval vm_compute in ("<<<M368>>>" ++ check (runes_of_ascii "packet  calculatedFrom{ @rightPad(	' '
    )@lengthOf( uint8x
)	i32")).
Eval vm_compute in ("<<<M378>>>" ++ check (runes_of_ascii "packet  calculatedFrom{ @rightPad(	' '
    )@lengthOf( uint8x
)	i32  options1 ,")).
Eval vm_compute in ("<<<M388>>>" ++ check (runes_of_ascii "packet  calculatedFrom{ @rightPad(	' '
    )@lengthOf( uint8x
)	i32  options1 ,u ,")).
Eval vm_compute in ("<<<M398>>>" ++ check (runes_of_ascii "packet  calculatedFrom{ @rightPad(	' '
    )@lengthOf( uint8x
)	i32  options1 ,u ,
    //	t
    len @lengthOf(")).
Eval vm_compute in ("<<<M408>>>" ++ check (runes_of_ascii "packet  calculatedFrom{ @rightPad(	' '
    )@lengthOf( uint8x
)	i32  options1 ,u ,
    //	t
    len @lengthOf(
int // trailing space 
)")).
Eval vm_compute in ("<<<M418>>>" ++ check (runes_of_ascii "packet  calculatedFrom{ @rightPad(	' '
    )@lengthOf( uint8x
)	i32  options1 ,u ,
    //	t
    len @lengthOf(
int // trailing space 
)
    , @tag(")).
Eval vm_compute in ("<<<M428>>>" ++ check (runes_of_ascii "packet  calculatedFrom{ @rightPad(	' '
    )@lengthOf( uint8x
)	i32  options1 ,u ,
    //	t
    len @lengthOf(
int // trailing space 
)
    , @tag( 42 )")).
Eval vm_compute in ("<<<M438>>>" ++ check (runes_of_ascii "packet  calculatedFrom{ @rightPad(	' '
    )@lengthOf( uint8x
)	i32  options1 ,u ,
    //	t
    len @lengthOf(
int // trailing space 
)
    , @tag( 42 ) repeat uint32")).
Eval vm_compute in ("<<<M448>>>" ++ check (runes_of_ascii "packet  calculatedFrom{ @rightPad(	' '
    )@lengthOf( uint8x
)	")).
Eval vm_compute in ("<<<M458>>>" ++ check (runes_of_ascii "packet  calculatedFrom{ @rightPad(	' '
    )@lengthOf( uint8x
)	i32  options1 ,u ,
    //	t
    len @lengthOf(
int // trailing s?pace 
)
    , @tag( 42 ) repeat uint32 u ,
    }")).
Eval vm_compute in ("<<<M468>>>" ++ check (runes_of_ascii "packet  calculatedFrom{ @rightPad(	' '
    )@lengthOf( uint8x
)	i32  options1 ,u ,
    //	t
    len @lengthOf(
x" ++ [178]%N ++ runes_of_ascii " // trailing space 
)
    , @tag( 42 ) repeat uint32 u ,
    }")).
Eval vm_compute in ("<<<M478>>>" ++ check (runes_of_ascii "MetaData u// packet A { u8 x, }
{ A
// c
//	t
i64_ ,char[ 255 ]
    repeatCount , zchar[
65535 ]
    tag 
    ,int32 lengthOf	, }
")).
Eval vm_compute in ("<<<M488>>>" ++ check (runes_of_ascii "MetaData u// packet A { u8 x, }
{ A
// c
//	t
i64_ ,char[ 255 ]
    repeatCount , 
65535 ]
    tag `" ++ [233]%N ++ runes_of_ascii "`
    ,int32 lengthOf	, }
")).
Eval vm_compute in ("<<<M498>>>" ++ check (runes_of_ascii "MetaData u// packet A { u8 x, }
{ A
// c
//	t
i64_ ,char[ 255 ]
    repeatCount , zchar[
65535 ]
    `" ++ [233]%N ++ runes_of_ascii "` tag
    ,int32 lengthOf	, }
")).
Eval vm_compute in ("<<<M508>>>" ++ check (runes_of_ascii "MetaData u// packet A { u8 x, }
{ A
// c
//	t
i64_ ,char[ 255 ]
    repeatCount repeatCount , zchar[
65535 ]
    tag `" ++ [233]%N ++ runes_of_ascii "`
    ,int32 lengthOf	, }
")).
Eval vm_compute in ("<<<M518>>>" ++ check (runes_of_ascii "MetaData u// packet A { u8 x, }
{ A A
// c
//	t
i64_ ,char[ 255 ]
    repeatCount , zchar[
65535 ]
    tag `" ++ [233]%N ++ runes_of_ascii "`
    ,int32 lengthOf	, }
")).
Eval vm_compute in ("<<<M528>>>" ++ check (runes_of_ascii "MetaData u// packet A { u8 x, }
{ A
// c
//	t
i64_ ,char[ 255 ]
    repeatCount , zchar[
65535 ]
    " ++ [252]%N ++ runes_of_ascii "ber `" ++ [233]%N ++ runes_of_ascii "`
    ,int32 lengthOf	, }
")).
Eval vm_compute in ("<<<M538>>>" ++ check (runes_of_ascii "MetaData u// packet A { u8 x, }
{ A
// c
//	t
i64_ ,char[ 255 255 ]
    repeatCount , zchar[
65535 ]
    tag `" ++ [233]%N ++ runes_of_ascii "`
    ,int32 lengthOf	, }
")).
Eval vm_compute in ("<<<M548>>>" ++ check (runes_of_ascii "MetaData u// packet A { u8 x, }
{ A
// c
//	t
i64_ ,char[ 255 
    repeatCount , zchar[
65535 ]
    tag `" ++ [233]%N ++ runes_of_ascii "`
    ,int32 lengthOf	, }
")).
Eval vm_compute in ("<<<M558>>>" ++ check (runes_of_ascii "MetaData")).
Eval vm_compute in ("<<<M568>>>" ++ check (runes_of_ascii "		")).
Eval vm_compute in ("<<<M578>>>" ++ check (runes_of_ascii "tr.%TH<4INC*-#>*#{US")).
Eval vm_compute in ("<<<M588>>>" ++ check (runes_of_ascii "@lengthOf( char[ ) @tag( float64 int64 @rightPad u16 zchar[ char[] root match")).
Eval vm_compute in ("<<<M598>>>" ++ check (runes_of_ascii "0> PYQkIdZN?#_[h|kZ7b&pavy0s""0")).
