From FP Require Import Lexer Parser ShowPT Digest.
From Coq Require Import String List NArith.
Import ListNotations.
Open Scope string_scope.
Set Printing Width 100000000.
Set Printing Depth 100000000.
Definition nl : string := String (Ascii.ascii_of_nat 10) EmptyString.
Definition model_lex (rs : list rune) : string := show_toks (lex rs).
Definition model_parse (rs : list rune) : string :=
  show_pt (match lex rs with Some ts => parse ts | None => None end).
(* coqc is slow at printing long strings: digests first (Digest.v), full texts on demand *)
Definition check (rs : list rune) : string :=
  digest (model_lex rs) ++ " " ++ digest (model_parse rs).
Definition full (rs : list rune) : string := model_lex rs ++ nl ++ model_parse rs.
Definition terms (ts : list tok) (t : pt) : string :=
  digest (show_toks (Some ts)) ++ " " ++ digest (show_pt (Some t)) ++ " " ++ digest (show_pt (parse ts)).
Definition terms_full (ts : list tok) (t : pt) : string :=
  show_toks (Some ts) ++ nl ++ show_pt (Some t) ++ nl ++ show_pt (parse ts).
Eval vm_compute in ("<<<M8>>>" ++ check (runes_of_ascii "MetaData string_{
} packet
    Packet
// c
// c
{
    // @lengthOf(
    zchar[ 65535 ]	metadata  ,} MetaData  body { u
    packetx ,
char[] roots `" ++ [233]%N ++ runes_of_ascii "`,
i32 Header , uint32
    packetx /// triple
,	} packet Foo  { @rightPad ()
match crc
    as u128{ // c
""it's"":	As , 0
    :x_y_z , """"
:
msg_type } // @lengthOf(
, match pack
as	x_y_z {255: msg_type , } , i8 A , int8 BodyLength
@lengthOf( tag ) , @calculatedFrom( ""CRC32""
) match int as Header {
4294967296	: x_y_z ,
    // @lengthOf(
    }	, match
chars	as // a // b
calculatedFrom {  [0 ,
0
, // c
1 , 0123456789 , 00 // c
, ""a\""b""	,// `tick` ""quote"" 'q'
4294967296 ]:
stringy
    ,""`tick`"" : T }, @tag( 0 )@tag(
    1 )
@lengthOf(u8x ) u8x {  body
    , repeat// trailing space 
calculatedFrom x_y_z `two words` ,  } , match  falsey
as leftPad {	007	:  A, [""" ++ [28040; 24687]%N ++ runes_of_ascii """ ] : tag ,
1:
    //
    Pad ,}
    , // c
float64
repeatCount , @tag(10 ) match stringy
    as
Logon {7:
Pad, }	, }
    packet Packet {
@calculatedFrom( ""\n"" ) @calculatedFrom( ""`tick`"" ) matchKey
, @lengthOf( zchar )
roots	{repeat i16 Z9_, match
    repeatCount as
stringy { [ ""x y""
    ]:packetx	, [""" ++ [128512]%N ++ runes_of_ascii """ , ""x y""	, ""\n"" ] : crc , },}
// `tick` ""quote"" 'q'
//x
, // packet A { u8 x, }
match // trailing space 
tag as
a1 // " ++ [128512]%N ++ runes_of_ascii " emoji
{ ""abc"": packetx 1
: u8x 1 : body
007 : leftPad
0123456789
    :Header} ,
i16 x_y_z
    ,@calculatedFrom( ""{,}""
    )o `it's` , string_@calculatedFrom( ""it's"" ) `crlf
line` , match i8i8 as lengthOf
    { [ 1 , ""a\\"" ,
    42 ,""""  ,
""a\\"" ]
    // " ++ [128512]%N ++ runes_of_ascii " emoji
    : o , 10
    :
Foo //x
[7 ]:// trailing space 
lengthOf , } ,repeat
    A { repeat T { char[
    007
    //x
    ] i64_ @lengthOf( Packet
    // a // b
    ) ,
    match T as repeatCount // " ++ [27880; 37322]%N ++ runes_of_ascii "
{  ""x y"" :
As
,
    } , repeat metadata, msg_type
{
float64//
float , i8 o`u8 x,` // " ++ [27880; 37322]%N ++ runes_of_ascii "
,char[
0 ]	A @calculatedFrom(
""1""
    )
    `two words` //	t
, i8 body
    @lengthOf( Packet), } ,//
} ,rootA{
f32a
@lengthOf( pack
    ), }, repeat char[] u , }
, }
")).
Eval vm_compute in ("<<<M18>>>" ++ check (runes_of_ascii "
")).
Eval vm_compute in ("<<<M28>>>" ++ check (runes_of_ascii "root
// c
// packet A { u8 x, }
packet
    // packet A { u8 x, }
    f32a {@rightPad ()// packet A { u8 x, }
options1 ,uint64
    MetaDataX ,
x_y_z `two words` ,
// packet A { u8 x, }
// trailing space 
i8i8
    `" ++ [28040; 24687; 31867; 22411]%N ++ runes_of_ascii "` ,int16 f32a@lengthOf( zchar	) ,}
//x
//x
root
    packet u8x { @rightPad	(
' ' ) repeat a1
    { repeat string_ stringy  ,
    } , stringy// `tick` ""quote"" 'q'
a1
`// not a comment` ,
@tag(	4294967296 ) float64 o, @lengthOf(a1 )
repeat string_ {
    // `tick` ""quote"" 'q'
    match BodyLength// trailing space 
as int {65535:u
, } , pack
    options1`a\` ,
repeat lengthOf	matchKey , }
    , repeat
char[65535 ] BodyLength
    , }
")).
Eval vm_compute in ("<<<M38>>>" ++ check (runes_of_ascii "MetaData charz{ }")).
Eval vm_compute in ("<<<M48>>>" ++ check (runes_of_ascii "options
    {
    }packet
    repeatCount { // `tick` ""quote"" 'q'
}options{}
")).
Eval vm_compute in ("<<<T48>>>" ++ terms [mkTok 1 "options" 1 0 false; mkTok 2 "{" 2 4 false; mkTok 3 "}" 3 4 false; mkTok 35 "packet" 3 5 false; mkTok 42 "repeatCount" 4 4 false; mkTok 2 "{" 4 16 false; mkTok 44 "// `tick` ""quote"" 'q'" 4 18 true; mkTok 3 "}" 5 0 false; mkTok 1 "options" 5 1 false; mkTok 2 "{" 5 8 false; mkTok 3 "}" 5 9 false; mkTok 0 "<EOF>" 6 0 false] (mkPacket (mkPtok 1 "options" 1 0 0) (Some (mkPtok 3 "}" 5 9 10)) [(DOption (mkOptionDef (mkSpan (mkPtok 1 "options" 1 0 0) (mkPtok 3 "}" 3 4 2)) (mkPtok 1 "options" 1 0 0) (mkPtok 2 "{" 2 4 1) [] (mkPtok 3 "}" 3 4 2))); (DPacket (mkPacketDef (mkSpan (mkPtok 35 "packet" 3 5 3) (mkPtok 3 "}" 5 0 7)) None (mkPtok 35 "packet" 3 5 3) (mkPtok 42 "repeatCount" 4 4 4) (mkPtok 2 "{" 4 16 5) [] (mkPtok 3 "}" 5 0 7))); (DOption (mkOptionDef (mkSpan (mkPtok 1 "options" 5 1 8) (mkPtok 3 "}" 5 9 10)) (mkPtok 1 "options" 5 1 8) (mkPtok 2 "{" 5 8 9) [] (mkPtok 3 "}" 5 9 10)))])).
Eval vm_compute in ("<<<M58>>>" ++ check (runes_of_ascii "
packet Foo
    {
    repeat
int
    //x
    { string u @calculatedFrom( ""packet"")	`` // @lengthOf(
,}
,zchar[ 007 ]  A
    `doc`, }
options { }")).
Eval vm_compute in ("<<<M68>>>" ++ check (runes_of_ascii "MetaData chars {
char[] // " ++ [128512]%N ++ runes_of_ascii " emoji
As `a\` , } packet repeatCount {repeat
    //x
    charz
{ char[ 00 ]	Pad,
} , @calculatedFrom( ""// no comment"" )
char[] matchKey //x
`doc` ,u64 T@lengthOf(
int
) , }
packet Header /// triple
{  @calculatedFrom(""a\""b"") char[65535 ]
// trailing space 
// `tick` ""quote"" 'q'
falsey , }
")).
Eval vm_compute in ("<<<M78>>>" ++ check (runes_of_ascii " 	 ")).
Eval vm_compute in ("<<<M88>>>" ++ check (runes_of_ascii "packet
x { char matchKey
    @lengthOf( x_y_z ) //
, }packet	trueish  {
    @tag( 255
    )
char calculatedFrom @lengthOf( Header ) , }
    MetaData options1
    // trailing space 
    { }
packet MetaDataX {
    }
    packet trueish{	}")).
Eval vm_compute in ("<<<M98>>>" ++ check (runes_of_ascii "root
    packet packetx {	uint32
x_y_z@calculatedFrom( """ ++ [233]%N ++ runes_of_ascii "t" ++ [233]%N ++ runes_of_ascii """ ) ,@calculatedFrom(
    ""{,}"" // trailing space 
)	float calculatedFrom
`line1
line2` ,u16 Packet @lengthOf( f32a ) ,
char[] o `tab	here`, @calculatedFrom( ""x y""  )T {
repeat i64 chars , } ,
i16  roots	,
} // @lengthOf(")).
Eval vm_compute in ("<<<M108>>>" ++ check (runes_of_ascii "packet u128
{ i64 A `{ , }`
,
    } MetaData
    i64_ {
trueish
Z9_ ,
// " ++ [128512]%N ++ runes_of_ascii " emoji
// `tick` ""quote"" 'q'
} options { metadata = i16 ; charz=
false}
")).
Eval vm_compute in ("<<<M118>>>" ++ check (runes_of_ascii "options { calculatedFrom  =// `tick` ""quote"" 'q'
""packet""; }
")).
Eval vm_compute in ("<<<T118>>>" ++ terms [mkTok 1 "options" 1 0 false; mkTok 2 "{" 1 8 false; mkTok 42 "calculatedFrom" 1 10 false; mkTok 4 "=" 1 26 false; mkTok 44 "// `tick` ""quote"" 'q'" 1 27 true; mkTok 31 """packet""" 2 0 false; mkTok 41 ";" 2 8 false; mkTok 3 "}" 2 10 false; mkTok 0 "<EOF>" 3 0 false] (mkPacket (mkPtok 1 "options" 1 0 0) (Some (mkPtok 3 "}" 2 10 7)) [(DOption (mkOptionDef (mkSpan (mkPtok 1 "options" 1 0 0) (mkPtok 3 "}" 2 10 7)) (mkPtok 1 "options" 1 0 0) (mkPtok 2 "{" 1 8 1) [(mkOptionDecl (mkSpan (mkPtok 42 "calculatedFrom" 1 10 2) (mkPtok 41 ";" 2 8 6)) (mkPtok 42 "calculatedFrom" 1 10 2) (mkPtok 4 "=" 1 26 3) (VString (mkSpan (mkPtok 31 """packet""" 2 0 5) (mkPtok 31 """packet""" 2 0 5)) (mkPtok 31 """packet""" 2 0 5)) (Some (mkPtok 41 ";" 2 8 6)))] (mkPtok 3 "}" 2 10 7)))])).
Eval vm_compute in ("<<<M128>>>" ++ check (runes_of_ascii "packet body{ Z9_ {
    string leftPad `crlf
line` , msg_type { // c
uint64 tag  `{ , }` ,repeat f64 BodyLength
,} , i8i8 BodyLength , }
    // " ++ [128512]%N ++ runes_of_ascii " emoji
    , falsey //
,@leftPad ( // c
'0') @lengthOf(
    falsey	)
    f32 Z9_
@lengthOf(  o )
    , @calculatedFrom(
""" ++ [233]%N ++ runes_of_ascii "t" ++ [233]%N ++ runes_of_ascii """ )
repeat string //x
As
,@lengthOf(falsey) @calculatedFrom( ""a	b"")
    @tag( 3
) repeat Header{
Packet@lengthOf(
    crc )
    , repeat int16
As
, repeat uint16 // packet A { u8 x, }
f32a , } , @lengthOf(float )@tag(
    3 )
    // a // b
    @tag(// " ++ [128512]%N ++ runes_of_ascii " emoji
10 )	roots
BodyLength , string tag //	t
,
} MetaData int {  char[ 1 ] As
, Packet u128 , // c
pack
    x_y_z
`{ , }` ,
    string_
len ,
zchar[
0
] Header , string
    zchar `
`, } root packet uint8x { char[] u128
, }root packet crc { repeat trueish { f32 lengthOf `say ""hi""` , i8 crc	@calculatedFrom( """ ++ [233]%N ++ runes_of_ascii "t" ++ [233]%N ++ runes_of_ascii """) , match Z9_ as repeatCount
    {
    [ 3 ] :  string_
, ""it's""  : A 0 :	u8x 65535 : u128  } , // trailing space 
i32 x , },char[]
    pack `// not a comment` , char[]leftPad @calculatedFrom("""" ) `
` ,
string o `doc` ,}
    packet// " ++ [27880; 37322]%N ++ runes_of_ascii "
rootA  { // " ++ [128512]%N ++ runes_of_ascii " emoji
repeat x_y_z{
    zchar[
//	t
//	t
3 ]
    stringy
`crlf
line`,  BodyLength
    BodyLength
    `` , lengthOf
@calculatedFrom(
""x y""
) , // c
float64
    // " ++ [27880; 37322]%N ++ runes_of_ascii "
    Logon	@calculatedFrom(
""a\\"" ) ,
} , @lengthOf( Pad
)// `tick` ""quote"" 'q'
@calculatedFrom( ""abc"") @tag(4294967296 )uint8x @lengthOf( // packet A { u8 x, }
crc )  ,
@calculatedFrom( //	t
""" ++ [233]%N ++ runes_of_ascii "t" ++ [233]%N ++ runes_of_ascii """  )
string u
@lengthOf(
uint8x)
    `// not a comment` ,u
    metadata`u8 x,`
,
    }
")).
Eval vm_compute in ("<<<M138>>>" ++ check (runes_of_ascii "
packet
    o {// trailing space 
body {
string options1@lengthOf(int ) ,
    // " ++ [27880; 37322]%N ++ runes_of_ascii "
    repeat u
{ match  tag
    as
BodyLength { [	""" ++ [128512]%N ++ runes_of_ascii """
, /// triple
""`tick`"" ,
    // @lengthOf(
    ""packet"" ,
""a\\"" ,65535
, 0123456789 // trailing space 
]: u
// `tick` ""quote"" 'q'
// c
""a\\"" : rootA ,
    """ ++ [128512]%N ++ runes_of_ascii """: Foo 3
:  uint8x ,	} , match leftPad as // `tick` ""quote"" 'q'
a1
    {1 : //	t
Header
,
}
, },
    }
,
    chars , repeatCount body
//	t
// " ++ [128512]%N ++ runes_of_ascii " emoji
`a\` ,}	packet metadata {
@rightPad ('0' // " ++ [27880; 37322]%N ++ runes_of_ascii "
)
@leftPad
( //x
'0' ) @calculatedFrom( ""packet"") match o as	Logon{ """"
: A, [
    007// c
, 7  , 1
, """"// trailing space 
,  42, ""a	b""]  :	A	""it's"" :
    _x,  },@lengthOf(//x
Header
)char[  3 ] i8i8@lengthOf( int )	,char[]Packet @calculatedFrom( ""a	b"")
, leftPad ,
    }packet charz { }")).
Eval vm_compute in ("<<<M148>>>" ++ check (runes_of_ascii "
packet len{ repeat i8i8 `u8 x,`
    ,
// @lengthOf(
// a // b
repeat char[ // c
0123456789
//x
//
]	a1 ,
@rightPad ( )
// trailing space 
// " ++ [27880; 37322]%N ++ runes_of_ascii "
match options1 as
    string_
{ 007 :uint8x  [
""it's"", // c
""\n"" ] : body } , zchar[ 1
] float @lengthOf( Header) , @lengthOf( rootA )  @tag(
    // packet A { u8 x, }
    00 ) @lengthOf( metadata ) repeat
    //x
    metadata { int16
    // " ++ [27880; 37322]%N ++ runes_of_ascii "
    i64_
    ,} ,
i64_ , zchar[ 0123456789 ] lengthOf @calculatedFrom(""it's"" ) ,  } root
    packet
f32a { @leftPad
    ( '0' ) @leftPad // " ++ [128512]%N ++ runes_of_ascii " emoji
( '\x00' ) i64_`tab	here`
,repeat x Packet ,char[ 42 ] Foo @calculatedFrom( ""abc"" ) , int16  uint8x @lengthOf( MetaDataX ) // @lengthOf(
`a\`
, // " ++ [27880; 37322]%N ++ runes_of_ascii "
i8 Header `
` /// triple
, repeat//
Pad
    A , char[3  ] _x , @calculatedFrom(// trailing space 
""x y"")
match MetaDataX	as As {
//	t
//x
[	""a	b"", """ ++ [28040; 24687]%N ++ runes_of_ascii """
]
:	options1, [""" ++ [28040; 24687]%N ++ runes_of_ascii """ ,
""it's""
    , 3
    , 7
,
42 ,""abc""	] :	_x , """"
    //	t
    :
charz ,
""a\\"" :// trailing space 
a1
, //
} , @tag( 7 ) u8 float ,
    }
")).
Eval vm_compute in ("<<<M158>>>" ++ check (runes_of_ascii "MetaData As{
    u//
matchKey	, char[] T	, char[] Foo// @lengthOf(
`{ , }`,
    }root
packet
    T { @lengthOf(
tag ) @tag( 0123456789 ) match repeatCount as
    BodyLength { """ ++ [233]%N ++ runes_of_ascii "t" ++ [233]%N ++ runes_of_ascii """  :o ,
65535 : float,
    ""a	b""	: _x , [ ""x y"" , 65535
// packet A { u8 x, }
//x
] : string_ ,}
,}
    root packet
_x { match msg_type
    // trailing space 
    as
    f32a {""\" ++ [233]%N ++ runes_of_ascii """ : Header 3	:
repeatCount [7, ""a	b"" ] :
_x
, ""it's"":
stringy 10
:
//	t
/// triple
As ,""it's"" :lengthOf }
, @calculatedFrom(""packet"" ) int64// `tick` ""quote"" 'q'
falsey ,	@leftPad// packet A { u8 x, }
( )
//	t
//
char[ 1 ]len// @lengthOf(
@lengthOf( Foo ) ,	chars
T ,
    zchar[
007	]	options1
,
match f32a as
asx
{[ ""1"" ] :matchKey, """ ++ [28040; 24687]%N ++ runes_of_ascii """: As ,
    // c
    4294967296 : options1 ,
}
    , }	MetaData o
    {	zchar[ 42] repeatCount ,packetx falsey,Packet options1
`{ , }` ,} options { falsey = ""a\\""	} // " ++ [128512]%N ++ runes_of_ascii " emoji")).
Eval vm_compute in ("<<<M168>>>" ++ check (runes_of_ascii "packet crc { // " ++ [128512]%N ++ runes_of_ascii " emoji
int `" ++ [28040; 24687; 31867; 22411]%N ++ runes_of_ascii "`,  repeat Header	`doc` ,
    @tag(
    // " ++ [128512]%N ++ runes_of_ascii " emoji
    65535 )
    leftPad BodyLength
    `// not a comment` // " ++ [128512]%N ++ runes_of_ascii " emoji
, /// triple
char[ 42 ]
    roots	`` // a // b
, } packet
    uint8x
    // `tick` ""quote"" 'q'
    { @lengthOf(
i8i8 )
// trailing space 
//	t
Pad
    MetaDataX//	t
,}
")).
Eval vm_compute in ("<<<M178>>>" ++ check (runes_of_ascii "root
packet i64_{
    packetx
// " ++ [128512]%N ++ runes_of_ascii " emoji
// " ++ [27880; 37322]%N ++ runes_of_ascii "
{	string zchar // c
@calculatedFrom(
""`tick`""
    )
    `
`
, zchar[1 ]  metadata	`doc`	, Foo
    @calculatedFrom(
""CRC32""
    )
    ,}
    //	t
    ,char[]roots `crlf
line`
//	t
//x
, @calculatedFrom(""it's"" )  char
    rootA
    ,
@tag( 7 )
    charz o //x
`it's`
, // a // b
char[ 007] msg_type@lengthOf(x_y_z )
,
    repeat //	t
zchar[ 007 ]repeatCount `say ""hi""` , match i64_ as rootA
{ [""abc"" ] :T }
, repeat chars ,  }
")).
Eval vm_compute in ("<<<M188>>>" ++ check (runes_of_ascii "MetaData Header
{ trueish u8x , zchar[ 42 ] Packet
    , char asx	,// @lengthOf(
}")).
Eval vm_compute in ("<<<T188>>>" ++ terms [mkTok 37 "MetaData" 1 0 false; mkTok 42 "Header" 1 9 false; mkTok 2 "{" 2 0 false; mkTok 42 "trueish" 2 2 false; mkTok 42 "u8x" 2 10 false; mkTok 40 "," 2 14 false; mkTok 14 "zchar[" 2 16 false; mkTok 30 "42" 2 23 false; mkTok 13 "]" 2 26 false; mkTok 42 "Packet" 2 28 false; mkTok 40 "," 3 4 false; mkTok 19 "char" 3 6 false; mkTok 42 "asx" 3 11 false; mkTok 40 "," 3 15 false; mkTok 44 "// @lengthOf(" 3 16 true; mkTok 3 "}" 4 0 false; mkTok 0 "<EOF>" 4 1 false] (mkPacket (mkPtok 37 "MetaData" 1 0 0) (Some (mkPtok 3 "}" 4 0 15)) [(DMeta (mkMetaDef (mkSpan (mkPtok 37 "MetaData" 1 0 0) (mkPtok 3 "}" 4 0 15)) (mkPtok 37 "MetaData" 1 0 0) (mkPtok 42 "Header" 1 9 1) (mkPtok 2 "{" 2 0 2) [(MIRef (mkRefMetaDecl (mkSpan (mkPtok 42 "trueish" 2 2 3) (mkPtok 40 "," 2 14 5)) (mkPtok 42 "trueish" 2 2 3) (mkPtok 42 "u8x" 2 10 4) None (mkPtok 40 "," 2 14 5))); (MIDecl (mkMetaDecl (mkSpan (mkPtok 14 "zchar[" 2 16 6) (mkPtok 40 "," 3 4 10)) (TyFixed (mkSpan (mkPtok 14 "zchar[" 2 16 6) (mkPtok 13 "]" 2 26 8)) (mkFixedString (mkSpan (mkPtok 14 "zchar[" 2 16 6) (mkPtok 13 "]" 2 26 8)) (mkPtok 14 "zchar[" 2 16 6) (mkPtok 30 "42" 2 23 7) (mkPtok 13 "]" 2 26 8))) (mkPtok 42 "Packet" 2 28 9) None (mkPtok 40 "," 3 4 10))); (MIDecl (mkMetaDecl (mkSpan (mkPtok 19 "char" 3 6 11) (mkPtok 40 "," 3 15 13)) (TyBasic (mkSpan (mkPtok 19 "char" 3 6 11) (mkPtok 19 "char" 3 6 11)) (mkBasicType (mkSpan (mkPtok 19 "char" 3 6 11) (mkPtok 19 "char" 3 6 11)) (mkPtok 19 "char" 3 6 11))) (mkPtok 42 "asx" 3 11 12) None (mkPtok 40 "," 3 15 13)))] (mkPtok 3 "}" 4 0 15)))])).
Eval vm_compute in ("<<<M198>>>" ++ check (runes_of_ascii "//	t
MetaData asx { char[]asx , x
_x , } root packet lengthOf{ @tag(
10
)@rightPad ( '0' )
    @rightPad('0' ) // " ++ [128512]%N ++ runes_of_ascii " emoji
u32
BodyLength, //	t
}
")).
Eval vm_compute in ("<<<M208>>>" ++ check (runes_of_ascii "root
packet
// packet A { u8 x, }
//	t
Z9_ {
}
")).
Eval vm_compute in ("<<<M218>>>" ++ check (runes_of_ascii "

")).
Eval vm_compute in ("<<<M228>>>" ++ check (@nil rune)).
Eval vm_compute in ("<<<M238>>>" ++ check (runes_of_ascii "options //	t
{  MetaDataX = // " ++ [128512]%N ++ runes_of_ascii " emoji
'0';  } /// triple")).
Eval vm_compute in ("<<<M248>>>" ++ check (runes_of_ascii " // a // b")).
Eval vm_compute in ("<<<M258>>>" ++ check (runes_of_ascii "packet leftPad{
    trueish { char[] charz	@calculatedFrom(  ""\n"" )
// @lengthOf(
//x
,
    } , @rightPad
    ( '0' ) @tag( 255 )len {
    zchar[
65535
] f32a , }
,f64
    i8i8	`` , } options {chars = 00 Pad =
    false // a // b
stringy =
string
    }
")).
Eval vm_compute in ("<<<T258>>>" ++ terms [mkTok 35 "packet" 1 0 false; mkTok 42 "leftPad" 1 7 false; mkTok 2 "{" 1 14 false; mkTok 42 "trueish" 2 4 false; mkTok 2 "{" 2 12 false; mkTok 16 "char[]" 2 14 false; mkTok 42 "charz" 2 21 false; mkTok 5 "@calculatedFrom(" 2 27 false; mkTok 31 """\n""" 2 45 false; mkTok 6 ")" 2 50 false; mkTok 44 "// @lengthOf(" 3 0 true; mkTok 44 "//x" 4 0 true; mkTok 40 "," 5 0 false; mkTok 3 "}" 6 4 false; mkTok 40 "," 6 6 false; mkTok 32 "@rightPad" 6 8 false; mkTok 8 "(" 7 4 false; mkTok 33 "'0'" 7 6 false; mkTok 6 ")" 7 10 false; mkTok 9 "@tag(" 7 12 false; mkTok 30 "255" 7 18 false; mkTok 6 ")" 7 22 false; mkTok 42 "len" 7 23 false; mkTok 2 "{" 7 27 false; mkTok 14 "zchar[" 8 4 false; mkTok 30 "65535" 9 0 false; mkTok 13 "]" 10 0 false; mkTok 42 "f32a" 10 2 false; mkTok 40 "," 10 7 false; mkTok 3 "}" 10 9 false; mkTok 40 "," 11 0 false; mkTok 29 "f64" 11 1 false; mkTok 42 "i8i8" 12 4 false; mkTok 43 "``" 12 9 false; mkTok 40 "," 12 12 false; mkTok 3 "}" 12 14 false; mkTok 1 "options" 12 16 false; mkTok 2 "{" 12 24 false; mkTok 42 "chars" 12 25 false; mkTok 4 "=" 12 31 false; mkTok 30 "00" 12 33 false; mkTok 42 "Pad" 12 36 false; mkTok 4 "=" 12 40 false; mkTok 11 "false" 13 4 false; mkTok 44 "// a // b" 13 10 true; mkTok 42 "stringy" 14 0 false; mkTok 4 "=" 14 8 false; mkTok 15 "string" 15 0 false; mkTok 3 "}" 16 4 false; mkTok 0 "<EOF>" 17 0 false] (mkPacket (mkPtok 35 "packet" 1 0 0) (Some (mkPtok 3 "}" 16 4 48)) [(DPacket (mkPacketDef (mkSpan (mkPtok 35 "packet" 1 0 0) (mkPtok 3 "}" 12 14 35)) None (mkPtok 35 "packet" 1 0 0) (mkPtok 42 "leftPad" 1 7 1) (mkPtok 2 "{" 1 14 2) [(mkFieldWithAttr (mkSpan (mkPtok 42 "trueish" 2 4 3) (mkPtok 40 "," 6 6 14)) [] (InerObjectField (mkSpan (mkPtok 42 "trueish" 2 4 3) (mkPtok 40 "," 6 6 14)) None (InerObjectDecl (mkSpan (mkPtok 42 "trueish" 2 4 3) (mkPtok 3 "}" 6 4 13)) (mkPtok 42 "trueish" 2 4 3) (mkPtok 2 "{" 2 12 4) [(CheckSumField (mkSpan (mkPtok 16 "char[]" 2 14 5) (mkPtok 40 "," 5 0 12)) (mkChecksumFieldDecl (mkSpan (mkPtok 16 "char[]" 2 14 5) (mkPtok 40 "," 5 0 12)) (Some (TyDynamic (mkSpan (mkPtok 16 "char[]" 2 14 5) (mkPtok 16 "char[]" 2 14 5)) (mkDynamicString (mkSpan (mkPtok 16 "char[]" 2 14 5) (mkPtok 16 "char[]" 2 14 5)) (mkPtok 16 "char[]" 2 14 5)))) (mkPtok 42 "charz" 2 21 6) (mkCalculatedFrom (mkSpan (mkPtok 5 "@calculatedFrom(" 2 27 7) (mkPtok 6 ")" 2 50 9)) (mkPtok 5 "@calculatedFrom(" 2 27 7) (mkPtok 31 """\n""" 2 45 8) (mkPtok 6 ")" 2 50 9)) None (mkPtok 40 "," 5 0 12)))] (mkPtok 3 "}" 6 4 13)) (mkPtok 40 "," 6 6 14))); (mkFieldWithAttr (mkSpan (mkPtok 32 "@rightPad" 6 8 15) (mkPtok 40 "," 11 0 30)) [(FAPadding (mkSpan (mkPtok 32 "@rightPad" 6 8 15) (mkPtok 6 ")" 7 10 18)) (mkPaddingAttr (mkSpan (mkPtok 32 "@rightPad" 6 8 15) (mkPtok 6 ")" 7 10 18)) (mkPtok 32 "@rightPad" 6 8 15) (mkPtok 8 "(" 7 4 16) (Some (mkPtok 33 "'0'" 7 6 17)) (mkPtok 6 ")" 7 10 18))); (FATag (mkSpan (mkPtok 9 "@tag(" 7 12 19) (mkPtok 6 ")" 7 22 21)) (mkTagAttr (mkSpan (mkPtok 9 "@tag(" 7 12 19) (mkPtok 6 ")" 7 22 21)) (mkPtok 9 "@tag(" 7 12 19) (mkPtok 30 "255" 7 18 20) (mkPtok 6 ")" 7 22 21)))] (InerObjectField (mkSpan (mkPtok 42 "len" 7 23 22) (mkPtok 40 "," 11 0 30)) None (InerObjectDecl (mkSpan (mkPtok 42 "len" 7 23 22) (mkPtok 3 "}" 10 9 29)) (mkPtok 42 "len" 7 23 22) (mkPtok 2 "{" 7 27 23) [(MetaField (mkSpan (mkPtok 14 "zchar[" 8 4 24) (mkPtok 40 "," 10 7 28)) None (mkMetaDecl (mkSpan (mkPtok 14 "zchar[" 8 4 24) (mkPtok 40 "," 10 7 28)) (TyFixed (mkSpan (mkPtok 14 "zchar[" 8 4 24) (mkPtok 13 "]" 10 0 26)) (mkFixedString (mkSpan (mkPtok 14 "zchar[" 8 4 24) (mkPtok 13 "]" 10 0 26)) (mkPtok 14 "zchar[" 8 4 24) (mkPtok 30 "65535" 9 0 25) (mkPtok 13 "]" 10 0 26))) (mkPtok 42 "f32a" 10 2 27) None (mkPtok 40 "," 10 7 28)))] (mkPtok 3 "}" 10 9 29)) (mkPtok 40 "," 11 0 30))); (mkFieldWithAttr (mkSpan (mkPtok 29 "f64" 11 1 31) (mkPtok 40 "," 12 12 34)) [] (MetaField (mkSpan (mkPtok 29 "f64" 11 1 31) (mkPtok 40 "," 12 12 34)) None (mkMetaDecl (mkSpan (mkPtok 29 "f64" 11 1 31) (mkPtok 40 "," 12 12 34)) (TyBasic (mkSpan (mkPtok 29 "f64" 11 1 31) (mkPtok 29 "f64" 11 1 31)) (mkBasicType (mkSpan (mkPtok 29 "f64" 11 1 31) (mkPtok 29 "f64" 11 1 31)) (mkPtok 29 "f64" 11 1 31))) (mkPtok 42 "i8i8" 12 4 32) (Some (mkPtok 43 "``" 12 9 33)) (mkPtok 40 "," 12 12 34))))] (mkPtok 3 "}" 12 14 35))); (DOption (mkOptionDef (mkSpan (mkPtok 1 "options" 12 16 36) (mkPtok 3 "}" 16 4 48)) (mkPtok 1 "options" 12 16 36) (mkPtok 2 "{" 12 24 37) [(mkOptionDecl (mkSpan (mkPtok 42 "chars" 12 25 38) (mkPtok 30 "00" 12 33 40)) (mkPtok 42 "chars" 12 25 38) (mkPtok 4 "=" 12 31 39) (VDigits (mkSpan (mkPtok 30 "00" 12 33 40) (mkPtok 30 "00" 12 33 40)) (mkPtok 30 "00" 12 33 40)) None); (mkOptionDecl (mkSpan (mkPtok 42 "Pad" 12 36 41) (mkPtok 11 "false" 13 4 43)) (mkPtok 42 "Pad" 12 36 41) (mkPtok 4 "=" 12 40 42) (VFalse (mkSpan (mkPtok 11 "false" 13 4 43) (mkPtok 11 "false" 13 4 43)) (mkPtok 11 "false" 13 4 43)) None); (mkOptionDecl (mkSpan (mkPtok 42 "stringy" 14 0 45) (mkPtok 15 "string" 15 0 47)) (mkPtok 42 "stringy" 14 0 45) (mkPtok 4 "=" 14 8 46) (VType (mkSpan (mkPtok 15 "string" 15 0 47) (mkPtok 15 "string" 15 0 47)) (TyDynamic (mkSpan (mkPtok 15 "string" 15 0 47) (mkPtok 15 "string" 15 0 47)) (mkDynamicString (mkSpan (mkPtok 15 "string" 15 0 47) (mkPtok 15 "string" 15 0 47)) (mkPtok 15 "string" 15 0 47)))) None)] (mkPtok 3 "}" 16 4 48)))])).
Eval vm_compute in ("<<<M268>>>" ++ check (runes_of_ascii "packet
f32a { //
@tag( 1 )  Z9_ chars ,chars// " ++ [128512]%N ++ runes_of_ascii " emoji
`
`, }
")).
Eval vm_compute in ("<<<M278>>>" ++ check (runes_of_ascii "packet charz
{ @lengthOf(leftPad ) charz  @calculatedFrom( ""a\""b""
)`it's`	, char[]
Foo ,	uint8 MetaDataX `u8 x,`
    ,int64 i8i8 , @calculatedFrom( ""a	b""
) zchar[ // trailing space 
7 ] string_, } MetaData Pad{
    }")).
Eval vm_compute in ("<<<M288>>>" ++ check (runes_of_ascii "
")).
Eval vm_compute in ("<<<M298>>>" ++ check (runes_of_ascii "// @lengthOf(
root packet  leftPad{ match Logon as	msg_type { ""it's"" :
    int , """ ++ [128512]%N ++ runes_of_ascii """
    :charz ""a\\""
: options1 , } , @rightPad(
    ' ') asx `doc`
, @leftPad( '0' ) uint32 charz, @tag(
255 ) zchar[ 10 ]Pad ``
, string  asx	`it's` , }
packet
// packet A { u8 x, }
// trailing space 
Pad {@lengthOf(lengthOf )
@lengthOf( crc  )u8x
    `a\` ,
float64 f32a  @calculatedFrom(
""a\""b""
    ) `it's`  ,@lengthOf(	options1 ) @tag( 42 )@calculatedFrom(
// a // b
//x
""1""	) zchar[ 7 ] repeatCount	`say ""hi""` , @calculatedFrom( ""// no comment"" )
    //x
    zchar[ 3] i8i8 @calculatedFrom(
""// no comment"" ) `" ++ [233]%N ++ runes_of_ascii "`,@tag( //
65535 )
    match o
    as float
    { [ // @lengthOf(
10 ]
    :len } ,@tag(3//x
)
match repeatCount as Pad {
    [ ""// no comment"",
42 , ""\n""
,
    007 , 3
    , ""// no comment""
    // c
    ]
:
    calculatedFrom}
    , u8x
{ repeat
    string x `it's` ,	x @calculatedFrom( """ ++ [128512]%N ++ runes_of_ascii """
)//
, falsey
    { match	f32a as// c
u128 { [ ""it's""
    //x
    ,
    0123456789
    , 0, """ ++ [233]%N ++ runes_of_ascii "t" ++ [233]%N ++ runes_of_ascii """ ,42 , 65535 // c
,
1 , 255 ] :
    uint8x ,
0 :asx ,} , repeat packetx u `{ , }` , string Foo	, x @calculatedFrom(
""a	b"")//	t
,
} , o
    pack
    , }  , // a // b
} packet i64_ { repeat
char[ 3 ]
a1
,} options
    // a // b
    {	}")).
Eval vm_compute in ("<<<M308>>>" ++ check (runes_of_ascii "root packet SimpleMessage {
	uint16 MsgType `" ++ [28040; 24687; 31867; 22411]%N ++ runes_of_ascii "`,
	string JsonBody `Json" ++ [23383; 31526; 20018; 28040; 24687; 20307]%N ++ runes_of_ascii "`,
}")).
Eval vm_compute in ("<<<M318>>>" ++ check (runes_of_ascii "root")).
Eval vm_compute in ("<<<M328>>>" ++ check (runes_of_ascii "root packet asx")).
Eval vm_compute in ("<<<M338>>>" ++ check (runes_of_ascii "root packet asx { @tag(")).
Eval vm_compute in ("<<<M348>>>" ++ check (runes_of_ascii "root packet asx { @tag(007 )")).
Eval vm_compute in ("<<<M358>>>" ++ check (runes_of_ascii "root packet asx { @tag(007 ) // @lengthOf(
repeat
    u64")).
Eval vm_compute in ("<<<M368>>>" ++ check (runes_of_ascii "root packet asx { @tag(007 ) // @lengthOf(
repeat
    u64  leftPad ,")).
Eval vm_compute in ("<<<M378>>>" ++ check (runes_of_ascii "root packet asx { @tag(007 ) // @lengthOf(
repeat
    u64  leftPad , } packet")).
Eval vm_compute in ("<<<M388>>>" ++ check (runes_of_ascii "root packet asx { @tag(007 ) // @lengthOf(
repeat
    u64  leftPad , } packet
i64_{")).
Eval vm_compute in ("<<<M398>>>" ++ check (runes_of_ascii "root packet asx { @tag(007 ) // @lengthOf(
repeat
    u64  leftPad , } packet
i64_{ // packet A { u8 x, }
@calculatedFrom(
""a\""b""")).
Eval vm_compute in ("<<<M408>>>" ++ check (runes_of_ascii "root packet asx { @tag(007 ) // @lengthOf(
repeat
    u64  leftPad , } packet
i64_{ // packet A { u8 x, }
@calculatedFrom(
""a\""b"" )
    zchar[")).
Eval vm_compute in ("<<<M418>>>" ++ check (runes_of_ascii "root packet asx { @tag(007 ) // @lengthOf(
repeat
    u64  leftPad , } packet
i64_{ // packet A { u8 x, }
@calculatedFrom(
""a\""b"" )
    zchar[
    10]")).
Eval vm_compute in ("<<<M428>>>" ++ check (runes_of_ascii "root packet asx { @tag(007 ) // @lengthOf(
repeat
    u64  leftPad , } packet
i64_{ // packet A { u8 x, }
@calculatedFrom(
""a\""b"" )
    zchar[
    10]
    chars,")).
Eval vm_compute in ("<<<M438>>>" ++ check (runes_of_ascii "root packet asx { @tag(007 ) // @lengthOf(
repeat
    u64  leftPad , } packet
i64_{ // packet A { u8 x, }
@calculatedFrom(
""a\""b"" )
    zchar[
    10]
    chars,
    }
    MetaData")).
Eval vm_compute in ("<<<M448>>>" ++ check (runes_of_ascii "root packet asx { @tag(007 ) // @lengthOf(
repeat
    u64  leftPad , } packet
i64_{ // packet A { u8 x, }
@calculatedFrom(
""a\""b"" )
    zchar[
    10]
    chars,
    }
    MetaData A {")).
Eval vm_compute in ("<<<M458>>>" ++ check (runes_of_ascii "root packet asx { @tag(007 ) // @lengthOf(
repeat
    u64  leftPad , } packet
i64_{ // packet A { u8 x, }
@calculatedFrom(
""a\""b"" )
    zchar[
    10]
    chars,
    }
    MetaData A { charz
uint8x")).
Eval vm_compute in ("<<<M468>>>" ++ check (runes_of_ascii "root packet asx { @tag(007 ) // @lengthOf(
repeat
    u64  leftPad , } packet
i64_{ // packet A { u8 x, }
@calculatedFrom(
""a\""b"" )
    zchar[
    10]
    chars,
    }
    MetaData A { charz
uint8x
    // trailing space 
    , len")).
Eval vm_compute in ("<<<M478>>>" ++ check (runes_of_ascii "root packet asx { @tag(007 ) // @lengthOf(
repeat
    u64  leftPad , } packet
i64_{ // packet A { u8 x, }
@calculatedFrom(
""a\""b"" )
    zchar[
    10]
    chars,
    }
    MetaData A { charz
uint8x
    // trailing space 
    , len uint8x ,")).
Eval vm_compute in ("<<<M488>>>" ++ check (runes_of_ascii "root packet asx { @tag(007 ) // @lengthOf(
repeat
    u64  leftPad , } packet
i64_{ // packet A { u8 x, }
@calculatedFrom(
""a\""b"" )
    zchar[
    10]
    chars,
    }
    MetaData A { charz
uint8x
    // trailing space 
    , len uint8x , u8
    charz")).
Eval vm_compute in ("<<<M498>>>" ++ check (runes_of_ascii "root packet asx { @tag(007 ) // @lengthOf(
repeat
    u64  leftPad , } packet
i64_{ // packet A { u8 x, }
@calculatedFrom(
""a\""b"" )
    zchar[
    10]
    chars,
    }
    MetaData A { charz
uint8x
    // trailing space 
    , len uint8x , u8
    charz,	string_")).
Eval vm_compute in ("<<<M508>>>" ++ check (runes_of_ascii "root packet asx { @tag(007 ) // @lengthOf(
repeat
    u64  leftPad , } packet
i64_{ // packet A { u8 x, }
@calculatedFrom(
""a\""b"" )
    zchar[
    10]
    chars,
    }
    MetaData A { charz
uint8x
    // trailing space 
    , len uint8x , u8
    charz,	string")).
Eval vm_compute in ("<<<M518>>>" ++ check (runes_of_ascii "root packet asx { @tag(007 ) // @lengthOf(
repeat
  " ++ [0]%N ++ runes_of_ascii "  u64  leftPad , } packet
i64_{ // packet A { u8 x, }
@calculatedFrom(
""a\""b"" )
    zchar[
    10]
    chars,
    }
    MetaData A { charz
uint8x
    // trailing space 
    , len uint8x , u8
    charz,	string_ msg_type ,}
")).
Eval vm_compute in ("<<<M528>>>" ++ check (runes_of_ascii "root packet asx { @tag(007 ) // @lengthOf(
repeat
    u64  leftPad , } packet
i64_{ // packet A { u8 x, }
@calculatedFrom(
""a\""b"" )
    zchar[
    10]
    chars,
    }
    MetaData A { charz
uint8x
    // trailing space 
    , len uint8x , u8
    charz,	string_ " ++ [252]%N ++ runes_of_ascii "ber ,}
")).
Eval vm_compute in ("<<<M538>>>" ++ check (runes_of_ascii "MetaData asx
{ zchar[ 7
] roots
leftPad
Foo
    `" ++ [233]%N ++ runes_of_ascii "`
, Header Header , int16
falsey , // `tick` ""quote"" 'q'
u16 Packet , int64 packetx// " ++ [128512]%N ++ runes_of_ascii " emoji
,}")).
Eval vm_compute in ("<<<M548>>>" ++ check (runes_of_ascii "MetaData asx
{ zchar[ 7
] roots
,leftPad
Foo
    `" ++ [233]%N ++ runes_of_ascii "`
, Header Header  int16
falsey , // `tick` ""quote"" 'q'
u16 Packet , int64 packetx// " ++ [128512]%N ++ runes_of_ascii " emoji
,}")).
Eval vm_compute in ("<<<M558>>>" ++ check (runes_of_ascii "MetaData")).
Eval vm_compute in ("<<<M568>>>" ++ check (runes_of_ascii "		")).
Eval vm_compute in ("<<<M578>>>" ++ check (runes_of_ascii ":4m3tD]CYN u|^aYJm4iV|4P$)l#bb")).
Eval vm_compute in ("<<<M588>>>" ++ check (runes_of_ascii "i64 options as float32 i32 = repeat ; @lengthOf( `tab	here` @tag( = ] true")).
Eval vm_compute in ("<<<M598>>>" ++ check (runes_of_ascii "XsIun2HP$F].07\}~C0LG!v(\Ow[%NjfGzlB")).
