From FP Require Import Lexer Parser ShowPT Digest Formatter.
From Coq Require Import String List NArith.
Import ListNotations.
Open Scope string_scope.
Set Printing Width 100000000.
Set Printing Depth 100000000.
Definition show_fres (r : fres) : string :=
  match r with
  | FOk s => "OK:" ++ sh_escaped s ""
  | FErr s => "ERR:" ++ sh_escaped s ""
  | FPanic p => "PANIC:" ++ p
  end.
Definition check (rs : list rune) : string := digest (show_fres (format_res rs)).
Definition full (rs : list rune) : string := show_fres (format_res rs).
Eval vm_compute in ("<<<M277>>>" ++ check (runes_of_ascii "root packet
// `tick` ""quote"" 'q'
// trailing space 
repeatCount
    {
    @tag( 65535
) A
{ u128
, u8x{ repeatCount @lengthOf( // @lengthOf(
As	) ,i32 _x @calculatedFrom(
""" ++ [128512]%N ++ runes_of_ascii """ ) , }
,
    /// triple
    } ,
} options {//x
u128 =
7 ;
    asx= 0123456789
    //
    } packet len
    { int8 u128 @lengthOf(
a1 ) ,
@calculatedFrom( // @lengthOf(
""" ++ [233]%N ++ runes_of_ascii "t" ++ [233]%N ++ runes_of_ascii """)@leftPad
    // " ++ [128512]%N ++ runes_of_ascii " emoji
    ( )@tag( 1 // packet A { u8 x, }
) //
msg_type  {
    // " ++ [128512]%N ++ runes_of_ascii " emoji
    match leftPad
as
BodyLength { 1
: Foo , [ 007 , 255 ] :zchar
,0 : As ,[ 10 , 3
    ,7 ,""abc""
    , // packet A { u8 x, }
42 ]: A, [ 65535] :calculatedFrom, } // c
,},
@lengthOf( falsey
//
// " ++ [27880; 37322]%N ++ runes_of_ascii "
) repeat BodyLength { char[ 7
    ] u128
    @calculatedFrom(""x y"" ) ,
    }
,	@leftPad('\x00'
) roots@calculatedFrom(  ""{,}"" ) ,
    i8i8 @lengthOf( charz) ,
char[ 7 ]Header ,  zchar[
42 ] pack , repeat asx float `{ , }` , }
    MetaData
    // a // b
    float{u64 len , uint32 MetaDataX`// not a comment` ,
    uint64	Header , crc Logon ,}packet u8x
    { Pad _x `u8 x,`,@calculatedFrom( ""packet"" ) repeat BodyLength
metadata ,
//
/// triple
@tag( 00 )repeat u8x { msg_type// `tick` ""quote"" 'q'
o  `two words` ,uint8x@lengthOf( //
_x
    ),string_ {repeat string string_ ,repeat	string body `a\`,
    // trailing space 
    repeat A `" ++ [28040; 24687; 31867; 22411]%N ++ runes_of_ascii "` , match u8x as u8x { ""// no comment""
    :
    options1, [ ""abc""
, 10
    ,	""// no comment"",
""abc"", ""CRC32"" ,
    ""CRC32""
, ""a	b"", ""packet""
] :
// " ++ [128512]%N ++ runes_of_ascii " emoji
// a // b
i64_ , ["""" ,
""1"" ] :
float ,""1"" :
    crc , 0 //
: Foo ,""x y""
    // c
    :A  , // a // b
} ,
    }	, } , char[ 0]
len
    ,body @calculatedFrom( """ ++ [233]%N ++ runes_of_ascii "t" ++ [233]%N ++ runes_of_ascii """ )`{ , }` , @tag(
    0 )i32 a1 `line1
line2`, @tag( 4294967296
// 50% %s
/// triple
)@tag( 7  )
body ,
}")).
Eval vm_compute in ("<<<M136>>>" ++ check (runes_of_ascii "//	t
packet MetaDataX  {
@leftPad ( ) repeat
float64 asx, }MetaData
Foo { // a // b
char[65535 ]
    Pad ,} packet
    body// 50% %s
{
match
asx as charz
{// `tick` ""quote"" 'q'
10 : u8x ,	""it's"" : leftPad ,3 :
metadata
// trailing space 
//x
,
    ""it's""
:
x,
    [ 65535,""" ++ [233]%N ++ runes_of_ascii "t" ++ [233]%N ++ runes_of_ascii """ ] :u128
    ,
10:// @lengthOf(
len } ,
repeat f32 rootA `` , // 50% %s
@leftPad (
    //
    ' ' ) repeat i64
    BodyLength // c
,repeatCount {i16 crc @lengthOf( u128 ) ,} , u16// " ++ [27880; 37322]%N ++ runes_of_ascii "
u @lengthOf(f32a)`// not a comment` ,// trailing space 
len
    { match Logon as // @lengthOf(
Foo { """ ++ [233]%N ++ runes_of_ascii "t" ++ [233]%N ++ runes_of_ascii """
:stringy,10
: msg_type ,//	t
[""\n""
    , ""`tick`""
, ""abc""	,
""""
    ,	007	,  1
    , ""a\""b""  ] :
i64_ // packet A { u8 x, }
, 255
    //x
    : T ,""{,}"": f32a }  , string
    tag
@lengthOf( Z9_ ) ,
    // a // b
    u32 charz `crlf
line`
, u8x
@lengthOf(/// triple
rootA  )  ,
} , float	, int8  repeatCount @lengthOf(f32a )
    `crlf
line` , zchar[
    // packet A { u8 x, }
    7 // a // b
] BodyLength
    @lengthOf( string_// a // b
)
    ,} packet u128 {	x`// not a comment`  , }//
packet
x { A  `doc`
, Packet@calculatedFrom(// `tick` ""quote"" 'q'
""\" ++ [233]%N ++ runes_of_ascii """)	`say ""hi""` ,
repeat string asx
,
@lengthOf(	MetaDataX ) repeat char[ 4294967296 //
]
    string_`u8 x,` ,
    @lengthOf( charz
) char[ 0123456789	] f32a  `say ""hi""`
,
}
")).
Eval vm_compute in ("<<<M1925>>>" ++ check (runes_of_ascii "
options{
	}
root 
packet
    tag	{
	@calculatedFrom(

    // @lengthOf(
    ""packet"") u128 @lengthOf(
zchar 
)

    , }  packet
    _x
	{ 
@calculatedFrom(
    ""a\\"")	//
	@rightPad(

    ' ' )
	As
, zchar // c
	@calculatedFrom(

    """ ++ [233]%N ++ runes_of_ascii "t" ++ [233]%N ++ runes_of_ascii """ )
`tab	here` // trailing space 
	, 
@tag( 007
	)

    @lengthOf(  //	t
    zchar  )	// packet A { u8 x, }
    string
crc 
,

string u128
	// c
    @calculatedFrom(

    ""packet""
//
// `tick` ""quote"" 'q'
  ) // c

,
	repeat
uint64
asx,	@lengthOf( 
zchar
) lengthOf
	{
string 
trueish `// not a comment`
    ,}
, 

// trailing space 
		// `tick` ""quote"" 'q'
  @tag(
0)
u128 
{
repeat
f64  /// triple
    crc

`` ,  char[ 3

    ]  Foo`crlf
line` 
,
repeat

//x

// @lengthOf(
float	uint8x  ,char[  10
]	msg_type
    `u8 x,`
    , } // packet A { u8 x, }
	,

    uint64

string_ ,

packetx 
matchKey ,// 50% %s
  @leftPad	(  ' '

) repeat
zchar[ 	 // @lengthOf(

255] Z9_ , 
}
    MetaData
    crc

    {  calculatedFrom
body
`// not a comment` ,  i64_ i8i8,
	o

options1	`u8 x,` 
,

char[
    10
	] pack
,
	}
    // a // b
")).
Eval vm_compute in ("<<<M1477>>>" ++ check (runes_of_ascii "
options {

LittleEndian=true

    ;
StringPrefixLenType = u8
	;
    ArrayPrefixLenType
=
    u8 
;

FixedStringPadFromLeft=true;

    FixedStringPadChar	= '0'; } packet Logon	{	repeat 
i8 Ref
    ,	@rightPad
	( 
'0')

    char[

8 
]msgKind , 
repeat InOrderid72
    { u8 Side2
	, uint32
Qty
, repeat
InPrice27
{
	repeat
char[ 
4
]
Acct , u64  sym  ,

} ,

    zchar[
    4 ]
	clOrdID,
int16

    lastPx,

InAcct22 {repeat
char[
    3
	]

OrderId ,	}

,

    },  int64 Px	, }

packet
	Fill
{ uint16

Qty,

repeat
char[ 1
] 
Flags

    ,
	i8 Ref,}	packet

Logout
	{ @leftPad
(

'0' )
    char[

3

    ]

x
,  int8
	f1 
,  Logon
    ,

uint16	venue ,

    zchar[ 2]Px ,
}	packet
	Reject {	}
    root packet
Leg
	{

    Fill  ,	u16 msgKind,	match 
msgKind	as	Body

{
[

182

,83	]
: 
Fill  , 199	:  Reject
,  137 : 
Logout
,

35
:
    Logon ,

    }
	,u32
    lastPx

@calculatedFrom(""CR\
C32""
)  ,
	}
")).
Eval vm_compute in ("<<<M1728>>>" ++ check (runes_of_ascii "packet i8i8 {
    // trailing space 
    // " ++ [27880; 37322]%N ++ runes_of_ascii "
    MetaDataX @lengthOf(chars) `" ++ [233]%N ++ runes_of_ascii "`,// 50% %s
    char[] u128 @lengthOf(u8x),
    @lengthOf(T)
    float64 repeatCount,
    @tag(00)
    MetaDataX,
    // a // b
    // trailing space 
    uint64 chars `tab	here`,
    string_ @lengthOf(As) ``,
    zchar[00] asx @lengthOf(metadata) `line1
    line2`,
    @lengthOf(charz)
    charz f32a `" ++ [28040; 24687; 31867; 22411]%N ++ runes_of_ascii "`,
    @rightPad('\x00')
    repeat BodyLength tag,
}

packet repeatCount {
    crc stringy,
}

options {
    zchar = char[];
    options1 = false
    repeatCount = ""a	b""
    body = ""`tick`""
}

// a // b
//x
MetaData MetaDataX {
    Pad repeatCount `u8 x,`,
    char[42] f32a ``,
    _x Z9_,
}

packet Logon {
    @tag(007)
    o {
        char Packet @lengthOf(repeatCount),
    },
}// a // b")).
Eval vm_compute in ("<<<M1155>>>" ++ check (runes_of_ascii "options { uint8x
    // c2
= // c3
007 // c4
;
    // c5
lengthOf // c6
= // c7
i8 ;
    // c9
}
    // c10
packet i64_ // c12
{ // c13
@calculatedFrom( // c14a
  // c14b
""1"" // c15a
  // c15b
) // c16
@tag( // c17
3 // c18a
  // c18b
)
    // c19
@lengthOf( // c20a
  // c20b
rootA
    // c21
) // c22a
  // c22b
repeat int8 Packet // c25
`tab	here` // c26
, // c27a
  // c27b
} // c28
packet // c29
_x { // c31a
  // c31b
matchKey // c32
x // c33a
  // c33b
`" ++ [28040; 24687; 31867; 22411]%N ++ runes_of_ascii "`
    // c34
, // c35
int32
    // c36
calculatedFrom
    // c37
`100% of %d` ,
    // c39
@lengthOf( // c40a
  // c40b
trueish // c41a
  // c41b
) // c42
Packet , repeat f32 o
    // c47
, // c48
}
    // c49
")).
Eval vm_compute in ("<<<M1946>>>" ++ check (runes_of_ascii "

  options{charz
= false
	;
Z9_

    =  ""\" ++ [233]%N ++ runes_of_ascii """

    ;// c
}
options  {falsey=char[];

    }packet metadata

{

    @tag( 4294967296
)  match 
int as float { [0

,

    0123456789
    ,	42
,
    7 ,

""a\""b""

, 7 
]

: zchar

    , ""1"":  options1 

    //
    // " ++ [128512]%N ++ runes_of_ascii " emoji
      ,
},

    @tag(
	10 ) match 
msg_type
as	Foo

{  ""a	b"":rootA, 
65535	:	roots /// triple
	,
00: 	 // `tick` ""quote"" 'q'
    trueish
,

    ""\" ++ [233]%N ++ runes_of_ascii """
:
    MetaDataX	, 
	    //x
  // 50% %s
    	00
    :
	Logon ,
	}
,repeat

    len

packetx
, @lengthOf(
    Foo) 
len
	`two words`	,
    roots ,
}  //x
")).
Eval vm_compute in ("<<<M1410>>>" ++ check (runes_of_ascii "packet charz {
    repeat i64_,
    trueish {
        repeat _x,
        repeatCount,
        repeat u16 matchKey `
        `,
        trueish @lengthOf(Z9_),
    },
    zchar[3] body,
    @rightPad(' ')
    body packetx `{ , }`,// packet A { u8 x, }
    repeat matchKey {
        uint8 metadata ``,
        trueish @calculatedFrom(""abc""),
    },
    @lengthOf(packetx)
    int32 uint8x `tab	here`,
    @rightPad()
    @rightPad()
    f32a,
    tag _x `a\`,
}

packet a1 {
    @tag(4294967296)
    repeat f32 a1 `line1
    line2`,
}")).
Eval vm_compute in ("<<<M1958>>>" ++ check (runes_of_ascii "packet BodyLength {
}

packet tag {
    repeat Logon {
        u @calculatedFrom(""// no comment"") `crlf
                line`,
        char u8x,
        uint32 uint8x,
    },
}

packet T {
    float32 Z9_,
    @lengthOf(pack)
    @calculatedFrom(""`tick`"")
    @lengthOf(u8x)
    u {
        // `tick` ""quote"" 'q'
        match repeatCount as u {
            ""// no comment"" : packetx,
            //	t
            1 : falsey,
        },
        Z9_ @calculatedFrom("""") `doc`,
    },
}/// triple")).
Eval vm_compute in ("<<<M135>>>" ++ check (runes_of_ascii "packet	repeatCount {
@tag(
7 )
    match
T as
    i64_ {
""" ++ [233]%N ++ runes_of_ascii "t" ++ [233]%N ++ runes_of_ascii """:/// triple
body,
    }
,@lengthOf( crc ) float64 body  `u8 x,` , repeat // a // b
rootA //	t
{  int16 x_y_z`two words` // " ++ [27880; 37322]%N ++ runes_of_ascii "
, zchar[  4294967296
    // @lengthOf(
    ] trueish`two words` ,Pad@lengthOf(	Pad )  `// not a comment` ,  } ,
tag string_
    , @lengthOf( len )
    // packet A { u8 x, }
    @tag(255 ) @lengthOf(
    // " ++ [27880; 37322]%N ++ runes_of_ascii "
    Logon
)int
, Foo @lengthOf( leftPad )`
` , }
")).
Eval vm_compute in ("<<<M297>>>" ++ check (runes_of_ascii "packet uint8x{ @calculatedFrom(""" ++ [233]%N ++ runes_of_ascii "t" ++ [233]%N ++ runes_of_ascii """)int16 x_y_z
// trailing space 
//x
,repeatCount , Logon  { repeat // c
i8 Packet //
`// not a comment`
, } , @rightPad (  '0'// trailing space 
)string msg_type
, @calculatedFrom( ""`tick`"")
repeat
Z9_// " ++ [128512]%N ++ runes_of_ascii " emoji
repeatCount
//
// trailing space 
, o `doc`
, i64_ Pad , match
repeatCount as
roots {[
// packet A { u8 x, }
// " ++ [27880; 37322]%N ++ runes_of_ascii "
42,007 ] :
    // packet A { u8 x, }
    i8i8 ,
}, }
")).
Eval vm_compute in ("<<<M300>>>" ++ check (runes_of_ascii "// c
packet A// trailing space 
{ i64_`100% of %d` // `tick` ""quote"" 'q'
,@calculatedFrom( ""packet"") string
Z9_ `{ , }` ,match BodyLength as
    matchKey {
7:MetaDataX ,
} ,repeat	a1 { repeat Pad , }
, pack  T, u64
MetaDataX
    ,	@calculatedFrom(	""a	b"" ) tag
{ u32 body  ,
pack @lengthOf( _x
) `it's` , repeatCount ,// c
repeat int32 BodyLength ,} , uint64 tag , } options{ //x
} 	 ")).
Eval vm_compute in ("<<<M1270>>>" ++ check (runes_of_ascii "// top
packet
    // c0
B // c1a
  // c1b
{ u8 // c3a
  // c3b
a // c4a
  // c4b
,
    // c5
} // c6a
  // c6b
root packet
    // c8
P
    // c9
{ u8 K // c12
, // c13
u8
    // c14
L
    // c15
@lengthOf( Body ) , match // c20a
  // c20b
K // c21a
  // c21b
as
    // c22
Body // c23
{ 1 // c25
: // c26a
  // c26b
B , // c28a
  // c28b
}
    // c29
, } ")).
Eval vm_compute in ("<<<M198>>>" ++ check (runes_of_ascii "options {
    rootA=i16
    ;} MetaData len{ float64 pack `crlf
line`
,a1
roots//	t
, int16
Header ,zchar[ 65535 ]charz , Packet//
body `say ""hi""`
, // `tick` ""quote"" 'q'
repeatCount x `line1
line2` ,
    // packet A { u8 x, }
    }options{ a1 =
""`tick`"" ;	float	=	""" ++ [233]%N ++ runes_of_ascii "t" ++ [233]%N ++ runes_of_ascii """ ; Logon = zchar[
00	]
; Header= '0' ; }")).
Eval vm_compute in ("<<<M1862>>>" ++ check (runes_of_ascii "
MetaData
    i64_  {
int16
u128
,
}
	MetaData
	packetx
	{char[]T,uint16
    a1  `a\` 
,
zchar[
007 ]

uint8x,
	}
    root
packet	//	t
		A  {

    @leftPad
    (

    ' '
)

@tag( 255	// " ++ [27880; 37322]%N ++ runes_of_ascii "

	)  @leftPad

    ('\x00'

) 
repeat
leftPad
i64_
	// `tick` ""quote"" 'q'

  ,
	}")).
Eval vm_compute in ("<<<M1752>>>" ++ check (runes_of_ascii "packet 
asx{ 
@calculatedFrom(

"""" )

    @tag(	255

    )  repeat  
  // packet A { u8 x, }
      // trailing space 
int16	u8x

,
@tag( 
    //
      007	)
	@tag( 0 
/// triple

  ) 
@tag( 1
    )u

@lengthOf( 
T

    )
,
// `tick` ""quote"" 'q'
	//x
}
")).
Eval vm_compute in ("<<<M419>>>" ++ check (runes_of_ascii "packet
    asx { @calculatedFrom(
""""  ) @lengthOf( 255 )repeat
// packet A { u8 x, }
// trailing space 
int16 u8x
,
@tag(
    //
    007 )
    @tag( 0
    /// triple
    ) @tag( 1) u
    @lengthOf( T ),
// `tick` ""quote"" 'q'
//x
} // " ++ [128512]%N ++ runes_of_ascii " emoji")).
Eval vm_compute in ("<<<M534>>>" ++ check (runes_of_ascii "packet
    asx { @calculatedFrom(
""""  ) @tag( 255 )repeat
// packet A { u8 x, }
// trailing space 
int16 u8x
,
@tag(
    //
    007 )
    @tag( 0
    /// triple
    ) @tag( 1| ) u
    @lengthOf( T ),
// `tick` ""quote"" 'q'
//x
} // " ++ [128512]%N ++ runes_of_ascii " emoji")).
Eval vm_compute in ("<<<M458>>>" ++ check (runes_of_ascii "packet
    asx { @calculatedFrom(
""""  ) @tag( 255 )repeat
// packet A { u8 x, }
// trailing space 
int16 u8x
,
@tag(
    //
    ) 007
    @tag( 0
    /// triple
    ) @tag( 1) u
    @lengthOf( T ),
// `tick` ""quote"" 'q'
//x
} // " ++ [128512]%N ++ runes_of_ascii " emoji")).
Eval vm_compute in ("<<<M506>>>" ++ check (runes_of_ascii "packet
    asx { @calculatedFrom(
""""  ) @tag( 255 )repeat
// packet A { u8 x, }
// trailing space 
int16 u8x
,
@tag(
    //
    007 )
    @tag( 0
    /// triple
    ) @tag( 1) u
    @lengthOf(  ),
// `tick` ""quote"" 'q'
//x
} // " ++ [128512]%N ++ runes_of_ascii " emoji")).
Eval vm_compute in ("<<<M1400>>>" ++ check (runes_of_ascii "packet Sub {
    u8 a,
    @calculatedFrom(""CRC16"") i64 SubSum,
}
root packet Frame {
    u16 MsgType,
    u16 BodyLen @lengthOf(Body),
    Sub Body,
    string note,
    @calculatedFrom(""CRC16"") i64 Checksum,
    u8 tail,
}
")).
Eval vm_compute in ("<<<M1758>>>" ++ check (runes_of_ascii "packet roots {
    @rightPad('\x00')
    @lengthOf(calculatedFrom)
    asx zchar,
    char[255] charz `" ++ [233]%N ++ runes_of_ascii "`,
    @tag(1)
    repeat MetaDataX,
    repeat zchar[0] BodyLength `a\`,
}

MetaData string_ {
}")).
Eval vm_compute in ("<<<M337>>>" ++ check (runes_of_ascii "
MetaData x_y_z	{ f32a tag, crc
    chars	`doc`, calculatedFrom Packet `crlf
line` , repeatCount
int ,string
    matchKey , charz trueish `" ++ [28040; 24687; 31867; 22411]%N ++ runes_of_ascii "`  , }packet Pad // trailing space 
{
}")).
Eval vm_compute in ("<<<M1304>>>" ++ check (runes_of_ascii "packet A {
    u8 a,
}
packet B {
    u16 b,
}
root packet P {
    u8 K1,
    u8 K2,
    match K1 as M1 {
        1 : A,
    },
    match K2 as M2 {
        1 : B,
    },
}
")).
Eval vm_compute in ("<<<M699>>>" ++ check (runes_of_ascii "MetaData u
    { } MetaData o
{ float uint8x
`100% of %d` ,repeatCount u8x, string_ leftPad
, i32
    Foo , int64 x `two '1'words` , calculatedFrom
stringy `a\` ,
}
")).
Eval vm_compute in ("<<<M697>>>" ++ check (runes_of_ascii "MetaData u
    { } MetaData o
{ float uin\t8x
`100% of %d` ,repeatCount u8x, string_ leftPad
, i32
    Foo , int64 x `two words` , calculatedFrom
stringy `a\` ,
}
")).
Eval vm_compute in ("<<<M644>>>" ++ check (runes_of_ascii "MetaData u
    { } MetaData o
{ float uint8x
`100% of %d` ,repeatCount u8x, string_ leftPad
, i32
    Foo } int64 x `two words` , calculatedFrom
stringy `a\` ,
}
")).
Eval vm_compute in ("<<<M1725>>>" ++ check (runes_of_ascii "MetaData float {
}

packet x {
    // 50% %s
    // a // b
    float @calculatedFrom(""\" ++ [233]%N ++ runes_of_ascii """),
    uint32 body,
}

options {
    repeatCount = float32
}// @lengthOf(")).
Eval vm_compute in ("<<<M547>>>" ++ check (runes_of_ascii " u
    { } MetaData o
{ float uint8x
`100% of %d` ,repeatCount u8x, string_ leftPad
, i32
    Foo , int64 x `two words` , calculatedFrom
stringy `a\` ,
}
")).
Eval vm_compute in ("<<<M480>>>" ++ check (runes_of_ascii "packet
    asx { @calculatedFrom(
""""  ) @tag( 255 )repeat
// packet A { u8 x, }
// trailing space 
int16 u8x
,
@tag(
    //
    007 )
    @tag( 0")).
Eval vm_compute in ("<<<M1969>>>" ++ check (runes_of_ascii "packet A {
    match k as n {
        [
            1, 22, ""c c"", 4, 5,
            ""f"", 7, 8, ""i""
        ] : B,
        2 : C,
    },
}")).
Eval vm_compute in ("<<<M1649>>>" ++ check (runes_of_ascii "packet A {
    match k as n {
        [
            ""a"", ""bb"", 007, ""d"", ""e"",
            66
        ] : B,
        2 : C,
    },
}")).
Eval vm_compute in ("<<<M1269>>>" ++ check (runes_of_ascii "packet B {
    u8 a,
}
root packet P {
    u8 K,
    u8 L @lengthOf(Body),
    match K as Body {
        1 : B,
    },
}
")).
Eval vm_compute in ("<<<M50>>>" ++ check (runes_of_ascii "
root
    packet //
u {float32 BodyLength ,
} packet u {  char[ 1]  a1
@calculatedFrom(
""a\""b""	) ,
} /// triple")).
Eval vm_compute in ("<<<M1233>>>" ++ check (runes_of_ascii "options { } options { MetaDataX = char ; } MetaData Pad { i8 metadata , // c
string stringy , int8 As `{ , }` , }")).
Eval vm_compute in ("<<<M283>>>" ++ check (runes_of_ascii "
packet trueish
    {} packet Z9_
{  stringy
    calculatedFrom	`say ""hi""` ,
    u64
Z9_ , } packet f32a { }")).
Eval vm_compute in ("<<<M896>>>" ++ check (runes_of_ascii "packet A {
  match k as n {
    [""a"", 22, ""c c"", 4, ""e"", 66, ""g"", 8, ""i"", 10, ""k""] : B
    2 : C
  },
}")).
Eval vm_compute in ("<<<M1546>>>" ++ check (runes_of_ascii "packet A {
    u32 crc @calculatedFrom(""\
        ""),
    @calculatedFrom(""\
        "")
    u8 y,
}")).
Eval vm_compute in ("<<<M1794>>>" ++ check (runes_of_ascii "packet
    A
{
u32  crc

    @calculatedFrom( ""\
""
	)	, @calculatedFrom(  ""\
"" 
) u8 
y , } ")).
Eval vm_compute in ("<<<M384>>>" ++ check (runes_of_ascii "root packet SimpleMessage {
    uint16 MsgType `" ++ [28040; 24687; 31867; 22411]%N ++ runes_of_ascii "`,
    string JsonBody `Json" ++ [23383; 31526; 20018; 28040; 24687; 20307]%N ++ runes_of_ascii "`,
}")).
Eval vm_compute in ("<<<M1318>>>" ++ check (runes_of_ascii "

  packet 
orderItem{
u8 
a
,
    }root packet
newOrder

    {orderItem	,u8
	x, }
")).
Eval vm_compute in ("<<<M813>>>" ++ check (runes_of_ascii "packet A {
  match k as n {
    [""a"", ""bb"", ""c c"", ""d"", ""e""] : B,
    2 : C
  },
}")).
Eval vm_compute in ("<<<M86>>>" ++ check (runes_of_ascii "MetaData	f32a // @lengthOf(
{ // `tick` ""quote"" 'q'
charz msg_type , } // " ++ [27880; 37322]%N)).
Eval vm_compute in ("<<<M819>>>" ++ check (runes_of_ascii "packet A {
  match k as n {
    [1, 22, ""c c"", 4, 5] : B,
    2 : C
  },
}")).
Eval vm_compute in ("<<<M791>>>" ++ check (runes_of_ascii "packet A {
  match k as n {
    [""a"", 22, ""c c""] : B,
    2 : C
  },
}")).
Eval vm_compute in ("<<<M1117>>>" ++ check (runes_of_ascii "packet A {
    match k as n {
        1 : B,
        // c
    },
}")).
Eval vm_compute in ("<<<M1256>>>" ++ check (runes_of_ascii "

  root packet
P

    {
repeat

char 
cs , 
u8
	x  ,

}

")).
Eval vm_compute in ("<<<M1116>>>" ++ check (runes_of_ascii "packet A {
    match k as n {
        1 : B,// c
    },
}")).
Eval vm_compute in ("<<<M1104>>>" ++ check (runes_of_ascii "packet A { B { // a
 u8 x, // b
 } // c
 , // d
 }")).
Eval vm_compute in ("<<<M1596>>>" ++ check (runes_of_ascii "options {
    // c
    A = ""// no comment""
}")).
Eval vm_compute in ("<<<M1734>>>" ++ check (runes_of_ascii "options {
    A = ""// no comment""
}// c")).
Eval vm_compute in ("<<<M1184>>>" ++ check (runes_of_ascii "options
// c
{ A = ""// no comment"" }")).
Eval vm_compute in ("<<<M1524>>>" ++ check (runes_of_ascii "packet A {
    u8 x `d 	`,// c 	
}")).
Eval vm_compute in ("<<<M932>>>" ++ check (runes_of_ascii "root packet A {
    u8 x `
`,
}")).
Eval vm_compute in ("<<<M1748>>>" ++ check (runes_of_ascii "

  packet A{
	} 
    // c 	
")).
Eval vm_compute in ("<<<M96>>>" ++ check (runes_of_ascii "// c
MetaData o
    { }
")).
Eval vm_compute in ("<<<M1131>>>" ++ check (runes_of_ascii "MetaData tag { }
// c
")).
Eval vm_compute in ("<<<M1006>>>" ++ check (runes_of_ascii "// c" ++ [160]%N ++ runes_of_ascii "
packet A {
}")).
Eval vm_compute in ("<<<M1173>>>" ++ check (runes_of_ascii "packet x { } // c
")).
Eval vm_compute in ("<<<M154>>>" ++ check (runes_of_ascii "packet  i64_ { }")).
Eval vm_compute in ("<<<M1504>>>" ++ check (runes_of_ascii "// a
// b")).
Eval vm_compute in ("<<<M731>>>" ++ check (runes_of_ascii "


")).
