From FP Require Import Lexer Parser ShowPT Digest Formatter.
From Coq Require Import String List NArith.
Import ListNotations.
Open Scope string_scope.
Set Printing Width 100000000.
Set Printing Depth 100000000.
Definition show_fres (r : fres) : string :=
  match r with
  | FOk s => "OK:" ++ sh_escaped s ""
  | FErr s => "ERR:" ++ sh_escaped s ""
  | FPanic p => "PANIC:" ++ p
  end.
Definition check (rs : list rune) : string := digest (show_fres (format_res rs)).
Definition full (rs : list rune) : string := show_fres (format_res rs).
Eval vm_compute in ("<<<M1354>>>" ++ check (runes_of_ascii "// top
options // c0
{
    // c1
StringPrefixLenType = u16 ; // c5
ArrayPrefixLenType
    // c6
= // c7a
  // c7b
u32 ;
    // c9
FixedStringPadFromLeft
    // c10
= // c11
true // c12a
  // c12b
; FixedStringPadChar = // c15a
  // c15b
'0' // c16a
  // c16b
;
    // c17
} packet Cancel // c20
{ // c21a
  // c21b
} // c22a
  // c22b
packet
    // c23
Party { }
    // c26
packet // c27a
  // c27b
Logon // c28
{ } packet
    // c31
Ack // c32
{ // c33a
  // c33b
} // c34
packet // c35a
  // c35b
Logout // c36
{ // c37a
  // c37b
repeat // c38
InSym87
    // c39
{ // c40a
  // c40b
InClordid94 // c41
{
    // c42
string // c43a
  // c43b
clOrdID ,
    // c45
} ,
    // c47
string // c48a
  // c48b
Px // c49
, i16 // c51a
  // c51b
Qty
    // c52
, // c53
repeat
    // c54
InCount71 { repeat // c57a
  // c57b
Cancel
    // c58
,
    // c59
uint16 // c60
Tail
    // c61
,
    // c62
char[
    // c63
2 // c64a
  // c64b
] // c65
x , // c67a
  // c67b
repeat
    // c68
string // c69
Ref // c70a
  // c70b
, // c71
} , Cancel , // c75a
  // c75b
}
    // c76
, }
    // c78
root // c79
packet // c80a
  // c80b
Order // c81a
  // c81b
{ // c82
repeat // c83a
  // c83b
string
    // c84
tag7
    // c85
, @leftPad // c87
( // c88a
  // c88b
' ' ) // c90
char[ 3 ]
    // c93
Px
    // c94
, // c95a
  // c95b
u8
    // c96
Qty ,
    // c98
match Qty as // c101a
  // c101b
Body { [ // c104a
  // c104b
28 // c105a
  // c105b
, // c106
62 // c107
] // c108
:
    // c109
Logon
    // c110
, // c111a
  // c111b
148 // c112
: // c113a
  // c113b
Ack
    // c114
, // c115a
  // c115b
88
    // c116
: Party // c118a
  // c118b
, // c119
184 // c120a
  // c120b
: Cancel // c122a
  // c122b
, // c123
} // c124
, // c125a
  // c125b
u16
    // c126
Note // c127
@calculatedFrom( ""CRC32"" // c129
) // c130
, // c131
} ")).
Eval vm_compute in ("<<<M1869>>>" ++ check (runes_of_ascii "root packet crc {
    uint32 repeatCount @lengthOf(MetaDataX) `say ""hi""`,
    @tag(65535)
    A {
        u128,
        u8x {
            repeatCount @lengthOf(As),// packet A { u8 x, }
            i32 _x @calculatedFrom(""" ++ [128512]%N ++ runes_of_ascii """),
        },
    },
    @lengthOf(As)
    @tag(0)
    @tag(4294967296)
    string metadata,
    string lengthOf @lengthOf(f32a),
    @tag(3)
    string packetx,
    @lengthOf(Pad)
    @lengthOf(packetx)
    BodyLength @calculatedFrom(""a	b""),
    repeat u8x {
        zchar[3] tag `doc`,
        match As as leftPad {
            [10, 3, 7, ""abc"", 42] : A,
        },
        match Header as falsey {
            42 : msg_type,
            00 : A,
            1 : charz,
            ""// no comment"" : int,
            0123456789 : chars,
            4294967296 : x,
        },
    },
    @tag(10)
    @tag(007)
    @calculatedFrom(""`tick`"")
    i8i8 @lengthOf(charz),
    char[7] Header,
}

packet lengthOf {
    match metadata as asx {
        7 : float,
        // " ++ [128512]%N ++ runes_of_ascii " emoji
        """ ++ [233]%N ++ runes_of_ascii "t" ++ [233]%N ++ runes_of_ascii """ : stringy,
        """ ++ [28040; 24687]%N ++ runes_of_ascii """ : BodyLength,
        7 : leftPad,
    },
    @lengthOf(MetaDataX)
    repeat zchar[7] float,
    @tag(0)
    matchKey @calculatedFrom(""packet""),
}

packet Pad {
    options1 @lengthOf(rootA),
}

root packet BodyLength {
    string uint8x @lengthOf(Z9_),
}// c")).
Eval vm_compute in ("<<<M134>>>" ++ check (runes_of_ascii "packet // " ++ [128512]%N ++ runes_of_ascii " emoji
x{
    //x
    lengthOf @calculatedFrom(""abc"")
`u8 x,`
    ,
@rightPad( )
//x
// @lengthOf(
float32 Packet @lengthOf( falsey ) ,	char[ 10] falsey , @tag( 3  ) repeat zchar[
    4294967296 ] repeatCount ,repeatCount`say ""hi""` , int16 u128 // `tick` ""quote"" 'q'
,
char[ 3
] crc
@calculatedFrom( ""x y"" )
, // trailing space 
@leftPad
    (
    // " ++ [27880; 37322]%N ++ runes_of_ascii "
    '\x00' )	match chars as i8i8 {
    42 : charz// trailing space 
,}
, }  options {	} MetaData metadata { char[ 4294967296 ] i8i8	,
    float
    rootA , i64
    packetx // " ++ [27880; 37322]%N ++ runes_of_ascii "
, i8 // " ++ [27880; 37322]%N ++ runes_of_ascii "
roots `crlf
line`
    ,
    tag i64_  , uint8 Pad `" ++ [233]%N ++ runes_of_ascii "`
, }root packet Header{
u64 options1  `two words`
    , @calculatedFrom(""a\\"" // trailing space 
) // " ++ [128512]%N ++ runes_of_ascii " emoji
i32 //	t
x_y_z	@calculatedFrom( ""a\""b"")`tab	here` , match
A as len { [ ""CRC32"" // " ++ [128512]%N ++ runes_of_ascii " emoji
,""it's""  ] //	t
: Z9_ ""a	b"" :
    o ,
} , match asx
as pack {0 :	x_y_z , }
    , char[] i64_ `{ , }`
,
    }
MetaData stringy
{ // trailing space 
lengthOf
// `tick` ""quote"" 'q'
//	t
o, string//
u8x , f32 string_ `doc` ,}
")).
Eval vm_compute in ("<<<M17>>>" ++ check (runes_of_ascii "
MetaData
    x{ len
    crc , float
    // " ++ [128512]%N ++ runes_of_ascii " emoji
    asx, i32 uint8x`line1
line2` ,u16
tag
// `tick` ""quote"" 'q'
//x
`it's` , As string_
    ,
}
packet metadata {@lengthOf(zchar )// c
i64_ @calculatedFrom(
""\" ++ [233]%N ++ runes_of_ascii """	) , //x
@leftPad
    ( '\x00' ) zchar[ 10
] zchar
    ,
    lengthOf //x
string_ ,int @lengthOf( pack
    ),
    zchar[ 00 ]
    Foo , @lengthOf( packetx )
    @leftPad (
'\x00'// " ++ [27880; 37322]%N ++ runes_of_ascii "
) @calculatedFrom(
    // @lengthOf(
    ""x y"" )uint16
len@calculatedFrom( """" )
`two words` , int8
    metadata @lengthOf( Foo )`two words`	, // @lengthOf(
}options
{ }
packet
pack{
// `tick` ""quote"" 'q'
//
f64
    o , T BodyLength  ,
    repeat
    uint8 chars  `" ++ [233]%N ++ runes_of_ascii "`
    ,repeat
    // c
    Logon
u
    // " ++ [128512]%N ++ runes_of_ascii " emoji
    ,@tag(
    0123456789 )
char[] repeatCount @lengthOf(// " ++ [27880; 37322]%N ++ runes_of_ascii "
_x )
    // c
    `
` ,//
@tag(
// packet A { u8 x, }
/// triple
7 )  repeatCount @calculatedFrom(""packet"" ) `{ , }` , }")).
Eval vm_compute in ("<<<M371>>>" ++ check (runes_of_ascii "root
    packet
packetx
    {
    @tag( 0) char[00 ] Z9_
    ,
    // a // b
    falsey
    // c
    { match
    x as options1 { [//	t
42 ,
    007 ]:
    uint8x } , uint8 falsey `crlf
line` , }
, f64 Pad
, @tag(7  ) string Logon// " ++ [27880; 37322]%N ++ runes_of_ascii "
`a\`, @lengthOf(
lengthOf//	t
) char[
3
    ]
// " ++ [27880; 37322]%N ++ runes_of_ascii "
//
calculatedFrom @calculatedFrom(
""" ++ [28040; 24687]%N ++ runes_of_ascii """
)
, char[]
    T , //x
@tag(
42 ) @leftPad ( )
    char[]trueish
@calculatedFrom(""`tick`"" ) ,match
    // `tick` ""quote"" 'q'
    uint8x as pack { [
    ""abc"",
    ""1"" ,""packet""
,
// `tick` ""quote"" 'q'
// `tick` ""quote"" 'q'
1,
    ""a\""b""]: As	, """ ++ [28040; 24687]%N ++ runes_of_ascii """ :
    trueish ,} ,
}
packet/// triple
charz
{
    repeat
Z9_ { Pad  {match len as string_{
    // a // b
    4294967296
    : msg_type , [""// no comment""
    ] :u
    ,
} ,} , zchar[
    65535
] As  @lengthOf(//x
string_
)
,
} ,
    }")).
Eval vm_compute in ("<<<M312>>>" ++ check (runes_of_ascii "packet // packet A { u8 x, }
tag
    { @calculatedFrom(""x y"" ) lengthOf{ options1
    `
`,} , @tag( 7 )
int {
//x
// " ++ [27880; 37322]%N ++ runes_of_ascii "
char[ 007  ] // `tick` ""quote"" 'q'
calculatedFrom @lengthOf(
metadata
)  , tag @lengthOf( falsey
) ,	f32
    // " ++ [128512]%N ++ runes_of_ascii " emoji
    calculatedFrom
// `tick` ""quote"" 'q'
//
`{ , }` , i8i8
    {string
    i64_ @lengthOf( asx )	`it's` , u @calculatedFrom(  ""\n"" ) ,
    } ,	}
    ,
    @calculatedFrom(""abc"" //
)  @leftPad ( ' '
    )  uint64 calculatedFrom
,// " ++ [27880; 37322]%N ++ runes_of_ascii "
} packet o { Header ,
    @lengthOf(	i8i8
) float32
    Pad // c
,char[ 42 ]
leftPad
    @calculatedFrom(	"""" // " ++ [128512]%N ++ runes_of_ascii " emoji
)
    , @tag( 255 )
body
    u , } packet lengthOf{
// packet A { u8 x, }
// c
@tag(
    255 //x
) char[ 0123456789 ] o
`
` , }

")).
Eval vm_compute in ("<<<M1924>>>" ++ check (runes_of_ascii "options {
    // c1a
    // c1b
    LittleEndian = true;
    // c5
    StringPrefixLenType = u64;
    // c9
    ArrayPrefixLenType = u16;// c13a
    // c13b
    FixedStringPadFromLeft = false;
    FixedStringPadChar = ' ';
    // c21
}

packet Logon {
    // c25
    zchar[5] Side2,// c30
}

root packet Logout {
    // c35
    repeat i64 Tail,// c39
    Logon,// c41
    repeat i16 OrderId,// c45
    char[] venue,
    uint64 x,
    // c51
    repeat i16 count,
    u8 Flags,
    match Flags as Body {
        25 : Logon,
        // c67a
        // c67b
    },// c69a
    // c69b
    u16 Qty @calculatedFrom(""CRC32""),// c75a
    // c75b
}
// c76")).
Eval vm_compute in ("<<<M305>>>" ++ check (runes_of_ascii "packet
pack{ u8 x ,
char[
    255 ]trueish
@calculatedFrom(
""// no comment"" ) `tab	here`,	@lengthOf( asx) repeat //
zchar[
0
] stringy `
`, @leftPad( '0' ) @calculatedFrom( // trailing space 
""abc"" )
    @calculatedFrom( ""it's""
) char[] packetx@calculatedFrom( ""a	b"" ) `doc` , repeat string len
    `two words`
, uint16 matchKey
    @lengthOf(
    asx ) ,zchar[ 0 ]
x `it's` // trailing space 
, }
    packet packetx {body  , string trueish `" ++ [233]%N ++ runes_of_ascii "` , @tag(255 )
@tag(
3
// packet A { u8 x, }
//	t
) @calculatedFrom(
    ""\n"" ) repeat f64 roots// trailing space 
`" ++ [233]%N ++ runes_of_ascii "`	, /// triple
} 	 ")).
Eval vm_compute in ("<<<M1686>>>" ++ check (runes_of_ascii "options {
    StringPrefixLenType = u8;
    ArrayPrefixLenType = u8;
    FixedStringPadFromLeft = false;
    FixedStringPadChar = ' ';
}

packet Ack {
    char[] tag7,
}

packet Reject {
    InSym61 {
        repeat Ack,
        zchar[4] f1,
    },
}

packet Logout {
    char[4] clOrdID,
}

root packet Cancel {
    @leftPad(' ')
    char[10] price,
    u8 x,
    u32 venue @lengthOf(Body),
    match x as Body {
        [92, 175] : Logout,
        26 : Reject,
        144 : Ack,
    },
    u16 count @calculatedFrom(""CRC32""),
}")).
Eval vm_compute in ("<<<M334>>>" ++ check (runes_of_ascii "MetaData pack {
int16 rootA `{ , }` ,
    //	t
    int16 // c
x,// " ++ [27880; 37322]%N ++ runes_of_ascii "
u32 msg_type,
    }
packet i64_
    {// trailing space 
@leftPad
    ( '0') @rightPad ( '\x00' // packet A { u8 x, }
)
@lengthOf(options1	)
    string body @lengthOf( asx) `" ++ [233]%N ++ runes_of_ascii "` ,
    }
options { msg_type
    //	t
    = 00//
;} MetaData
    stringy// c
{
    zchar MetaDataX `line1
line2` , char[255] len `it's` , f32 pack ,
    uint16 Foo
`it's` , int16 i64_`two words` ,
    // `tick` ""quote"" 'q'
    }")).
Eval vm_compute in ("<<<M1374>>>" ++ check (runes_of_ascii "

  options
{	LittleEndian
=	true	;
    StringPrefixLenType= 
u64 
;
	ArrayPrefixLenType	=
u16
	;
	FixedStringPadFromLeft

=false ;

FixedStringPadChar	=  ' '
	; } 
packet

Logon{
	zchar[  5 ] Side2

,
	} root

packet Logout

{repeat	i64 Tail
, Logon
    ,repeat
i16
OrderId

,
	char[]venue  ,
    uint64
	x,repeat
	i16 count,
	u8	Flags,	match Flags as Body{
25 :
Logon	,

    }
,

u16 
Qty
    @calculatedFrom( ""CRC32""
)	,	}
")).
Eval vm_compute in ("<<<M1673>>>" ++ check (runes_of_ascii "
packet int

{
	T/// triple
	{	repeat
_x ,	}	,
i64_
_x
	`
`
    ,  @calculatedFrom( 
""x y""
	) u32	A

    ,
match
a1  as
i8i8

{	[

    ""1"" 
, 4294967296 
]
    : a1 , """"

    : a1 
,007:
	a1
    ,
[
    ""CRC32""

    ]

    :	Header }
,

    int64  As 
,
int8

    a1
	,//
    char[]
	float `tab	here` /// triple
, repeat 
zchar[ 1

    ]u8x	,
	}	/// triple
")).
Eval vm_compute in ("<<<M77>>>" ++ check (runes_of_ascii "
packet	float { char[ 42] int`say ""hi""` , @tag( 255// packet A { u8 x, }
) match// a // b
stringy  as
    x { [ 00 ,42
]: i64_ 42 : matchKey , [ ""1"" , 1
, 42
    ,
""" ++ [28040; 24687]%N ++ runes_of_ascii """ , ""abc"" ,
// a // b
//x
1 // trailing space 
]
: //
roots
,
    65535
: trueish ,	} ,@calculatedFrom( ""{,}"" )body @calculatedFrom(""" ++ [28040; 24687]%N ++ runes_of_ascii """ ) , zchar[
    007 ] lengthOf, }
")).
Eval vm_compute in ("<<<M1268>>>" ++ check (runes_of_ascii "// top
packet
    // c0
B
    // c1
{ // c2
u8
    // c3
a // c4
, string // c6
s
    // c7
, } root // c10
packet
    // c11
P // c12a
  // c12b
{
    // c13
u16
    // c14
L // c15a
  // c15b
@lengthOf( B
    // c17
)
    // c18
,
    // c19
B
    // c20
, u8 // c22a
  // c22b
t
    // c23
, // c24
} ")).
Eval vm_compute in ("<<<M1676>>>" ++ check (runes_of_ascii "options {
    A = i16;
}

/// triple
root packet rootA {
    @tag(7)
    int16 pack,
    Logon @calculatedFrom(""a\""b"") `{ , }`,
    @rightPad('\x00')
    //
    //
    char[7] options1 `tab	here`,
    @calculatedFrom(""" ++ [233]%N ++ runes_of_ascii "t" ++ [233]%N ++ runes_of_ascii """)
    int @lengthOf(Packet) `crlf
    line`,
}")).
Eval vm_compute in ("<<<M1615>>>" ++ check (runes_of_ascii "packet body {
    @lengthOf(T)
    @lengthOf(int)
    @leftPad('\x00')
    asx len,
    repeat zchar[3] int `" ++ [28040; 24687; 31867; 22411]%N ++ runes_of_ascii "`,
    @lengthOf(options1)
    match x as leftPad {
        7 : x_y_z,
        65535 : u128,
        42 : x,
    },//
}")).
Eval vm_compute in ("<<<M1326>>>" ++ check (runes_of_ascii "packet Logon {
    string user,
}
root packet Frame {
    u8 K,
    match K as Body {
        1 : Logon,
        2 : Logout,
    },
    Tail,
}
packet Logout {
    u16 reason,
}
packet Tail {
    u32 crc,
}
")).
Eval vm_compute in ("<<<M186>>>" ++ check (runes_of_ascii "root packet packetx	{	char[ 1 ]chars @calculatedFrom(
""packet"" ) `say ""hi""` ,} options
    // trailing space 
    { asx
    // a // b
    = 65535 u = float64 repeatCount  =""\" ++ [233]%N ++ runes_of_ascii """}
")).
Eval vm_compute in ("<<<M431>>>" ++ check (runes_of_ascii "packet uint8x
{ match pack
    as msg_type	{
    0123456789 0123456789 :	float
}
,
} packet //	t
a1
    { } options {packetx
    = '\x00'	; u128= ""a	b""  ; }
")).
Eval vm_compute in ("<<<M458>>>" ++ check (runes_of_ascii "packet uint8x
{ match pack
    as msg_type	{
    0123456789 :	float
}
,
char[] packet //	t
a1
    { } options {packetx
    = '\x00'	; u128= ""a	b""  ; }
")).
Eval vm_compute in ("<<<M476>>>" ++ check (runes_of_ascii "packet uint8x
{ match pack
    as msg_type	{
    0123456789 :	float
}
,
} packet //	t
a1
    { } } options {packetx
    = '\x00'	; u128= ""a	b""  ; }
")).
Eval vm_compute in ("<<<M402>>>" ++ check (runes_of_ascii "packet uint8x
match { pack
    as msg_type	{
    0123456789 :	float
}
,
} packet //	t
a1
    { } options {packetx
    = '\x00'	; u128= ""a	b""  ; }
")).
Eval vm_compute in ("<<<M1623>>>" ++ check (runes_of_ascii "
packet
string_
{  @lengthOf(  float

    )  // @lengthOf(

BodyLength
	{
match uint8x

    as  i64_
	{0123456789
	:
	As

    ,}

,

}
    ,}

")).
Eval vm_compute in ("<<<M652>>>" ++ check (runes_of_ascii "// @lengthOf(
packet i8i8 { u128 o , }
options { MetaDataX = true;
    BodyLength =""packet"" x_y_z= 007
crc crc //x
= ""abc"" ;
    msg_type =
i16 }")).
Eval vm_compute in ("<<<M395>>>" ++ check (runes_of_ascii "packet 
{ match pack
    as msg_type	{
    0123456789 :	float
}
,
} packet //	t
a1
    { } options {packetx
    = '\x00'	; u128= ""a	b""  ; }
")).
Eval vm_compute in ("<<<M137>>>" ++ check (runes_of_ascii "
packet u128//x
{ @calculatedFrom(  ""x y""
    ) // `tick` ""quote"" 'q'
@rightPad (  ' ') char[ 42 ]  Header
    @calculatedFrom( ""abc"" ),  }

")).
Eval vm_compute in ("<<<M329>>>" ++ check (runes_of_ascii "  packet calculatedFrom
{ uint8x {body `line1
line2`
, string crc
@lengthOf(uint8x// " ++ [128512]%N ++ runes_of_ascii " emoji
) , char[]As@lengthOf(	Pad )
    , } , }
")).
Eval vm_compute in ("<<<M1691>>>" ++ check (runes_of_ascii "// top
root packet P {
    // c3
    u8 s_u8,// c6
    repeat u8 r_u8,
    // c10
    u16 b_len,// c13a
    // c13b
}// c14a
// c14b")).
Eval vm_compute in ("<<<M1934>>>" ++ check (runes_of_ascii "

  packet u 
{

    @tag(

10// a // b
  )  tag
@lengthOf(
    A 

// " ++ [128512]%N ++ runes_of_ascii " emoji
// a // b
    )
    ,  repeat options1, }")).
Eval vm_compute in ("<<<M1147>>>" ++ check (runes_of_ascii "MetaData leftPad { // c
chars MetaDataX , } packet repeatCount { char[ 255 ] uint8x `" ++ [233]%N ++ runes_of_ascii "` , } MetaData pack { As Foo , }")).
Eval vm_compute in ("<<<M1179>>>" ++ check (runes_of_ascii "MetaData leftPad { chars MetaDataX , } packet repeatCount { char[ 255 ] uint8x `" ++ [233]%N ++ runes_of_ascii "` , } MetaData pack // c
{ As Foo , }")).
Eval vm_compute in ("<<<M1424>>>" ++ check (runes_of_ascii "
packet B

    {u8
a  , string 
s
,} root
	packet

P 
{
	u16 L
	@lengthOf(  B

    )  , B  ,

u8
    t ,
	}
")).
Eval vm_compute in ("<<<M902>>>" ++ check (runes_of_ascii "packet A {
  match k as n {
    [""a"", ""bb"", 007, ""d"", ""e"", 66, ""g"", ""h"", 9, ""j"", ""k""] : B
    2 : C
  },
}")).
Eval vm_compute in ("<<<M889>>>" ++ check (runes_of_ascii "packet A {
  match k as n {
    [""a"", ""bb"", 007, ""d"", ""e"", 66, ""g"", ""h"", 9, ""j""] : B
    2 : C
  },
}")).
Eval vm_compute in ("<<<M904>>>" ++ check (runes_of_ascii "packet A {
  match k as n {
    [1, 22, 007, 4, 5, 66, 7, 8, 9, 10, 11, 12] : B,
    2 : C
  },
}")).
Eval vm_compute in ("<<<M593>>>" ++ check (runes_of_ascii "
packet
    asx {match u128 as lengthOf
{
//	t
// `tick` ""quote"" 'q'
255 255 : x ,
    } ,	}")).
Eval vm_compute in ("<<<M682>>>" ++ check (runes_of_ascii "// @lengthOf(
packet i8i8 { u128 o , }
options { MetaDataX = true;
    BodyLength =""packet""")).
Eval vm_compute in ("<<<M614>>>" ++ check (runes_of_ascii "
packet
    asx {match u128 as lengthOf
{
//	t
// `tick` ""quote"" 'q'
255 : x ,
    , }	}")).
Eval vm_compute in ("<<<M557>>>" ++ check (runes_of_ascii "
packet
     {match u128 as lengthOf
{
//	t
// `tick` ""quote"" 'q'
255 : x ,
    } ,	}")).
Eval vm_compute in ("<<<M647>>>" ++ check (runes_of_ascii "// @lengthOf(
packet i8i8 { u128 o , }
options { MetaDataX = true;
    BodyLength =")).
Eval vm_compute in ("<<<M839>>>" ++ check (runes_of_ascii "packet A {
  match k as n {
    [1, 22, 007, 4, 5, 66, 7] : B,
    2 : C
  },
}")).
Eval vm_compute in ("<<<M827>>>" ++ check (runes_of_ascii "packet A {
  match k as n {
    [1, 22, 007, 4, 5, 66] : B
    2 : C
  },
}")).
Eval vm_compute in ("<<<M1475>>>" ++ check (runes_of_ascii "// top
root packet P {
    // c3
    repeat char cs,
    u8 x,
}
// c11")).
Eval vm_compute in ("<<<M787>>>" ++ check (runes_of_ascii "packet A {
  match k as n {
    [1, 22, 007] : B,
    2 : C
  },
}")).
Eval vm_compute in ("<<<M88>>>" ++ check (runes_of_ascii "options// @lengthOf(
{a1 = 65535
// `tick` ""quote"" 'q'
// c
}")).
Eval vm_compute in ("<<<M1922>>>" ++ check (runes_of_ascii "// top
root packet P {
    // c3
    string s,
    // c6
}")).
Eval vm_compute in ("<<<M1198>>>" ++ check (runes_of_ascii "
// c
packet body { i32 f32a `{ , }` , } options { }")).
Eval vm_compute in ("<<<M1079>>>" ++ check (runes_of_ascii "packet A { u8 x, } // a
// b
packet B {} // c
// d")).
Eval vm_compute in ("<<<M1737>>>" ++ check (runes_of_ascii "options {
    len = ""packet""
    int = ""abc""
}")).
Eval vm_compute in ("<<<M940>>>" ++ check (runes_of_ascii "root packet A {
    u8 x `a
    b
  c`,
}")).
Eval vm_compute in ("<<<M1699>>>" ++ check (runes_of_ascii "packet A {
    u8 x,// c
    u8 y,
}")).
Eval vm_compute in ("<<<M1833>>>" ++ check (runes_of_ascii "packet A {
    u8 x `d" ++ [8202]%N ++ runes_of_ascii "`,// c" ++ [8202]%N ++ runes_of_ascii "
}")).
Eval vm_compute in ("<<<M1053>>>" ++ check (runes_of_ascii "packet A {
 u8 x `d" ++ [65279]%N ++ runes_of_ascii "`, // c" ++ [65279]%N ++ runes_of_ascii "
}")).
Eval vm_compute in ("<<<M1588>>>" ++ check (runes_of_ascii "
MetaData tag
{  // c

}
")).
Eval vm_compute in ("<<<M63>>>" ++ check (runes_of_ascii "packet i64_
    { }

")).
Eval vm_compute in ("<<<M170>>>" ++ check (runes_of_ascii "packet pack
{
} 	 ")).
Eval vm_compute in ("<<<M1002>>>" ++ check (runes_of_ascii "// c" ++ [8192]%N ++ runes_of_ascii "
packet A {
}")).
Eval vm_compute in ("<<<M571>>>" ++ check (runes_of_ascii "
packet
    asx {")).
Eval vm_compute in ("<<<M356>>>" ++ check (runes_of_ascii "packet uint8x {}")).
Eval vm_compute in ("<<<M255>>>" ++ check (runes_of_ascii " /// triple")).
Eval vm_compute in ("<<<M1045>>>" ++ check (runes_of_ascii "// c" ++ [8203]%N)).
