From FP Require Import Lexer Parser ShowPT Digest Formatter.
From Coq Require Import String List NArith.
Import ListNotations.
Open Scope string_scope.
Set Printing Width 100000000.
Set Printing Depth 100000000.
Definition show_fres (r : fres) : string :=
  match r with
  | FOk s => "OK:" ++ sh_escaped s ""
  | FErr s => "ERR:" ++ sh_escaped s ""
  | FPanic p => "PANIC:" ++ p
  end.
Definition check (rs : list rune) : string := digest (show_fres (format_res rs)).
Definition full (rs : list rune) : string := show_fres (format_res rs).
Eval vm_compute in ("<<<M1726>>>" ++ check (runes_of_ascii "MetaData
chars {int8

    Z9_

,  float	rootA

`tab	here` 	 // @lengthOf(
	  , 
      //x
		// @lengthOf(
	  T

o`it's`

,
	roots  int	,  // c
    repeatCount MetaDataX
	, float32
	falsey `say ""hi""`, 
}  packet
msg_type
	{  repeat	f32
o  // `tick` ""quote"" 'q'
	, @tag(

0
) 
char[]A

,repeat 
char[] tag`say ""hi""`
,	repeat char[

0 ]
	Z9_ ,

    zchar[ 
1
	]  lengthOf
	,

    i64 
T  , 
match
	float
    as leftPad{ 
007 :
len/// triple
    ,
""it's"" : 
len

    , ""it's""  :// @lengthOf(
		float[

255	,
00	,
    ""abc"" , ""abc""
,

    1

,
	""" ++ [28040; 24687]%N ++ runes_of_ascii """ 	 // `tick` ""quote"" 'q'
      ,

""x y"" , """"  // a // b
]  :	_x

,	"""" 
:len ,
""\" ++ [233]%N ++ runes_of_ascii """
	: // a // b

i64_
, //	t
      }
    , roots{ 
char[1
	] 	 // @lengthOf(
  Header

    @lengthOf(
x_y_z ), 
body
u128 , 	 // `tick` ""quote"" 'q'
  char[]
float
, chars

@lengthOf( x

    )
`doc` ,

} ,
    crc`it's` 
    // `tick` ""quote"" 'q'
  ,
    @calculatedFrom(	""" ++ [128512]%N ++ runes_of_ascii """ ) BodyLength 
`" ++ [28040; 24687; 31867; 22411]%N ++ runes_of_ascii "` 
,

    } packet	u128
{

lengthOf
    ,	pack
@lengthOf( u8x// c
  )

    `// not a comment`  // " ++ [27880; 37322]%N ++ runes_of_ascii "
,@leftPad (' '
	)float
	{match
asx  as

charz{ 
[ 
4294967296  , """"
    , 255,

42
,
""1"" 
] :u8x ""{,}"" :

Foo 42 :
leftPad [	// trailing space 
255 
, 
	    // " ++ [128512]%N ++ runes_of_ascii " emoji

""a\""b"" ,
""it's"",
4294967296
	] :
stringy
,3
:Header
,} 
,
	match
o// `tick` ""quote"" 'q'
  as 
Pad 
    // trailing space 

  {3	:
    i64_	//x

	, 
} , repeat string msg_type ,
	match packetx// " ++ [27880; 37322]%N ++ runes_of_ascii "
as
	lengthOf { 
[""x y"" ,
    """"
	]
:x_y_z 
// " ++ [27880; 37322]%N ++ runes_of_ascii "

  // c
} ,

} ,
i64
    float

    , 
repeat	zchar[ 3
	]rootA  `crlf
line`
, 
match
	msg_type
    as

len { ""CRC32"" : MetaDataX  ,
}	,f32

A ,  char[ 
0123456789

]	chars	// " ++ [27880; 37322]%N ++ runes_of_ascii "
	`{ , }`
,/// triple

@calculatedFrom(	""a\""b"")
string	string_ `" ++ [233]%N ++ runes_of_ascii "`,
}")).
Eval vm_compute in ("<<<M1347>>>" ++ check (runes_of_ascii "// top
options // c0a
  // c0b
{ // c1
ArrayPrefixLenType
    // c2
=
    // c3
u64 // c4a
  // c4b
; // c5
FixedStringPadFromLeft
    // c6
= true
    // c8
; // c9a
  // c9b
FixedStringPadChar // c10
=
    // c11
'0'
    // c12
; }
    // c14
packet
    // c15
Quote // c16
{ // c17a
  // c17b
} // c18a
  // c18b
packet // c19
Ack // c20a
  // c20b
{ repeat // c22
InNote66 { // c24a
  // c24b
u8 // c25a
  // c25b
pad0 // c26
,
    // c27
} // c28
, // c29
} // c30
packet
    // c31
Reject // c32a
  // c32b
{
    // c33
} // c34a
  // c34b
root // c35
packet // c36a
  // c36b
Order
    // c37
{ // c38
Quote // c39
, repeat // c41
Reject , // c43a
  // c43b
string
    // c44
venue
    // c45
, string
    // c47
seqNo // c48a
  // c48b
, // c49
uint32
    // c50
Ref // c51a
  // c51b
, // c52a
  // c52b
u16 // c53a
  // c53b
lastPx
    // c54
,
    // c55
u32 // c56a
  // c56b
clOrdID // c57
@lengthOf(
    // c58
Body ) // c60
, // c61a
  // c61b
match
    // c62
lastPx // c63
as // c64a
  // c64b
Body // c65a
  // c65b
{ 190 // c67
: // c68a
  // c68b
Reject // c69
,
    // c70
186 : // c72a
  // c72b
Quote ,
    // c74
22 :
    // c76
Ack
    // c77
, // c78
} // c79
,
    // c80
u16 // c81a
  // c81b
Flags // c82
@calculatedFrom( // c83a
  // c83b
""CRC32"" ) , // c86
} // c87a
  // c87b
")).
Eval vm_compute in ("<<<M149>>>" ++ check (runes_of_ascii "// trailing space 
packet
    charz {	@calculatedFrom( ""1""
)match x
as tag
    {	[
7 , // @lengthOf(
0
, 65535	,
    // `tick` ""quote"" 'q'
    ""it's""/// triple
,0
    ,
""x y"", 255 ] :tag  , [ ""1"" // a // b
, //	t
3  , 007, // " ++ [27880; 37322]%N ++ runes_of_ascii "
255 ,  ""x y""
    // @lengthOf(
    ] :pack ,[""" ++ [233]%N ++ runes_of_ascii "t" ++ [233]%N ++ runes_of_ascii """	, 7  , 10  , 3
, 0
    , ""a\""b"" ] :
    // packet A { u8 x, }
    leftPad, [ 65535
    // " ++ [27880; 37322]%N ++ runes_of_ascii "
    ,
""x y""]
: chars [ ""\n"" ,65535 , ""a\\""
] :
A	, ""\n"" :
    lengthOf , } ,
match string_
    as	i8i8 { 7 :msg_type , // c
""abc"" :
tag ,""a\""b"" :metadata, 255
    : matchKey	,
    [""CRC32"" ,""1""
// " ++ [27880; 37322]%N ++ runes_of_ascii "
// " ++ [128512]%N ++ runes_of_ascii " emoji
, 007 , ""packet"" ,""a\\"" /// triple
,	""a\""b""
    // " ++ [128512]%N ++ runes_of_ascii " emoji
    , 007 , 4294967296 ] : lengthOf , }
,uint16
pack , string Pad@lengthOf( o ) `say ""hi""` ,repeat i8 body
    ,
@lengthOf( //x
crc ) float64 body `// not a comment`
, repeat rootA { int16 x_y_z `tab	here` ,
falsey @calculatedFrom( ""{,}"" ), trueish @lengthOf(
crc) `{ , }` , }
, match Pad as
Header
{
    4294967296: Header,""\n"" :msg_type,""a	b"" :
    x_y_z
    , }
,
    //	t
    Logon
, } 	 ")).
Eval vm_compute in ("<<<M1939>>>" ++ check (runes_of_ascii "

  options{
StringPrefixLenType

    = 
u64 ; 
ArrayPrefixLenType =u32 ;
FixedStringPadFromLeft	=false 
;}
packet  Party
{

zchar[

7  ] OrderId

    ,
    InTail6
	{

repeat	char[ 1  ]

msgKind ,  char[3
	]Tail ,char[3  ] 
Flags

    ,	i16 tag7 
, },
    @rightPad

(	'0' )char[
12 
]
clOrdID,

} packet

    Quote  { @leftPad
    (
'0'
    ) char[	11 ] price,
repeat  InCount7	{ i32 x
    ,	Party,	u8 Ref
	, u8 tag7
	,},char[] seqNo ,

    Party ,	}
packet  Logon
	{ @rightPad
    ('\x00' ) char[5]Note	,
i16

    sym

    ,

    InPrice72{
	char[9 
]

Ref 
, zchar[
1  ]  venue 
,  }
,

    char[]
clOrdID, }root	packet Reject{

    repeat
	Logon
    , @leftPad  (
' '
)	char[ 
4
	]

    seqNo, 
zchar[

    5

]

Acct  ,  u32	x
,
u16	f1 @lengthOf( Body
),	match x
as Body

{ [
	169
,
74
    ]:  Quote,
    45 
:
	Party , 7

    :

    Logon,

    }
,
	}")).
Eval vm_compute in ("<<<M1619>>>" ++ check (runes_of_ascii "
// top

  packet 	 // c0
  MDSnapshotZZ	// c1a
  	// c1b
    	{// c2
u8
    a 	 // c4
		,	// c5a

// c5b
}  // c6
	  packet
	OrderACK	// c8
	{// c9a
    // c9b
u16
	b 	 // c11
	, 
    // c12
    } 	 // c13a
	// c13b
packet
	    // c14
    	HTTPServerInfo

    // c15
    { 	 // c16
		string
s
	// c18
, 
    // c19
} 

// c20
root // c21a
    // c21b

  packet // c22
FIXMsg  // c23
    	{
u8	// c25a
      // c25b
      KType 	 // c26a
	// c26b
, // c27a
      // c27b
  MDSnapshotZZ 

    // c28
	, // c29a

	// c29b
  repeat  
      // c30
  	OrderACK  , // c32a
    // c32b

match  // c33
	KType  as// c35a
    // c35b
    Body  // c36
    { 
// c37
1 :
    // c39
  HTTPServerInfo,
2 // c42
    : 
// c43
  OrderACK 
      // c44
  ,  }// c46a
	// c46b
	,
    // c47
	} 	 // c48a
  	// c48b
")).
Eval vm_compute in ("<<<M1643>>>" ++ check (runes_of_ascii "
options  {  StringPrefixLenType =u16 ;	ArrayPrefixLenType 
=  u32
	; FixedStringPadFromLeft
=true
;FixedStringPadChar

=	'0' ; } packet 
Cancel  { } packet 
Party { }
packet Logon {
	}packet
    Ack { }	packet

    Logout

    {repeat
InSym87 { 
InClordid94
    { string
    clOrdID ,} ,
string Px ,
	i16 Qty

, repeat InCount71  {
    repeat Cancel
	, uint16 Tail
,	char[

2  ]x
, repeat
string  Ref,
},  Cancel

    ,

}

    ,

    } root packet Order 
{
repeat 
string tag7
,

@leftPad
(
    ' '  )
char[
	3 
]  Px,
	u8 Qty

    , match Qty  as

    Body{[
    28,
    62
    ]
:

    Logon	,  148
: Ack
, 88
: 
Party	,
	184

:  Cancel
	,
    }, u16

    Note
	@calculatedFrom(
""CR\
C32""
    )	,
}

")).
Eval vm_compute in ("<<<M1120>>>" ++ check (runes_of_ascii "// top
root
    // c0
packet
    // c1
_x
    // c2
{
    // c3
match
    // c4
Foo
    // c5
as
    // c6
Z9_
    // c7
{
    // c8
""a	b""
    // c9
:
    // c10
Pad
    // c11
,
    // c12
}
    // c13
,
    // c14
repeat
    // c15
x
    // c16
`line1
line2`
    // c17
,
    // c18
@rightPad
    // c19
(
    // c20
' '
    // c21
)
    // c22
@calculatedFrom(
    // c23
""a\\""
    // c24
)
    // c25
metadata
    // c26
MetaDataX
    // c27
,
    // c28
@tag(
    // c29
0
    // c30
)
    // c31
Logon
    // c32
int
    // c33
``
    // c34
,
    // c35
}
    // c36
options
    // c37
{
    // c38
T
    // c39
=
    // c40
'\x00'
    // c41
}
    // c42
")).
Eval vm_compute in ("<<<M1344>>>" ++ check (runes_of_ascii "options { 
LittleEndian 
=
false;
    ArrayPrefixLenType=  u8 ;

    FixedStringPadFromLeft
	= true

;
    FixedStringPadChar
= '0'; } packet Heartbeat{

string

    lastPx
,  uint8
Qty ,i64
Acct , 
char[
4
]
    Ref,

    }  packet Fill	{

    uint8
Ref ,

Heartbeat	,
	f32 OrderId

, repeat
	f32
x , 
}
root packet

Order {zchar[	2
    ]  OrderId ,
    zchar[
2
    ] Acct
,zchar[ 
1
]Note,
zchar[ 9]

    Qty
,
string  price 
,	string tag7

    ,u32
x ,match 
x as

    Body	{
123
:	Fill 
,

112:

    Heartbeat,
}

    ,

u32 seqNo@calculatedFrom(
	""CRC32"")
	,	}
")).
Eval vm_compute in ("<<<M296>>>" ++ check (runes_of_ascii "MetaData u128
{  zchar[ 3 ] matchKey	`crlf
line` //
, } // packet A { u8 x, }
options
{ //x
} root	packet rootA
    { @calculatedFrom(
    ""{,}"" ) repeat u16 len ,repeat body,i8i8 @lengthOf( packetx),metadata int `line1
line2` ,  uint8x `two words` // c
, int16 //
x_y_z
, repeatCount , Logon {  repeat// trailing space 
i8 Packet `line1
line2`
, } ,}
options
{// " ++ [128512]%N ++ runes_of_ascii " emoji
lengthOf
//
// trailing space 
= ' ' ;
i64_ = ""{,}"" ; msg_type
= '0'
; u=
// packet A { u8 x, }
// " ++ [27880; 37322]%N ++ runes_of_ascii "
i32;_x = ""abc""
    // packet A { u8 x, }
    ; }
")).
Eval vm_compute in ("<<<M1919>>>" ++ check (runes_of_ascii "//	t
packet u8x {
    u8x {
        body @calculatedFrom(""`tick`"") `say ""hi""`,
        match a1 as asx {
            //	t
            0 : asx,
        },
    },
    @rightPad()
    match Logon as x {
        [
            00, ""// no comment"", ""a\\"",
            0123456789, 4294967296
        ] : crc,
        00 : options1,
        // " ++ [27880; 37322]%N ++ runes_of_ascii "
        42 : i8i8,
        0 : o,
        0123456789 : body,
    },
    @tag(7)
    float @lengthOf(stringy) `" ++ [233]%N ++ runes_of_ascii "`,
    u @lengthOf(msg_type),
}")).
Eval vm_compute in ("<<<M1374>>>" ++ check (runes_of_ascii "

  options
{	LittleEndian
=	true	;
    StringPrefixLenType= 
u64 
;
	ArrayPrefixLenType	=
u16
	;
	FixedStringPadFromLeft

=false ;

FixedStringPadChar	=  ' '
	; } 
packet

Logon{
	zchar[  5 ] Side2

,
	} root

packet Logout

{repeat	i64 Tail
, Logon
    ,repeat
i16
OrderId

,
	char[]venue  ,
    uint64
	x,repeat
	i16 count,
	u8	Flags,	match Flags as Body{
25 :
Logon	,

    }
,

u16 
Qty
    @calculatedFrom( ""CRC32""
)	,	}
")).
Eval vm_compute in ("<<<M101>>>" ++ check (runes_of_ascii "MetaData T {  a1 Packet,// " ++ [128512]%N ++ runes_of_ascii " emoji
uint8x
// @lengthOf(
//x
Pad `" ++ [233]%N ++ runes_of_ascii "` , a1
    // " ++ [27880; 37322]%N ++ runes_of_ascii "
    MetaDataX ,	zchar[00]metadata`u8 x,` ,Pad// trailing space 
x `
` ,
    i8
u8x ,
}  options { As =
    false;}root packet options1 { @calculatedFrom( ""// no comment"" ) @lengthOf( _x	)
    @tag(007 ) repeat
// trailing space 
// @lengthOf(
f32 i8i8
    `" ++ [233]%N ++ runes_of_ascii "` ,
    @rightPad	( ' '// " ++ [27880; 37322]%N ++ runes_of_ascii "
) repeat Pad , }
")).
Eval vm_compute in ("<<<M1572>>>" ++ check (runes_of_ascii "// top
options {
    // c1
    zchar = true;
    // c5
    Pad = char[00]
    // c10
    a1 = uint32
    // c13
    BodyLength = true;
    // c17
}

// c18
root packet T {
    // c22
    @lengthOf(repeatCount)
    // c25
    @tag(1)
    // c28
    @calculatedFrom(""a	b"")
    // c31
    string stringy @calculatedFrom(""\n"") `u8 x,`,
    // c38
}
// c39")).
Eval vm_compute in ("<<<M1475>>>" ++ check (runes_of_ascii "// `tick` ""quote"" 'q'
options {
}

packet lengthOf {
}

packet Foo {
    @tag(1)
    string uint8x,
    _x {
        chars,
        string uint8x,
        i64 _x `it's`,
        repeat uint8 As,
    },
    float32 f32a,
    @leftPad('\x00')
    @calculatedFrom(""" ++ [28040; 24687]%N ++ runes_of_ascii """)
    // trailing space 
    uint8 Logon,
}")).
Eval vm_compute in ("<<<M1316>>>" ++ check (runes_of_ascii "  packet

    MDSnapshotZZ	{	u8

a 
, }  packet
    OrderACK  { u16
b, }packet
	HTTPServerInfo	{
string
s

    ,
}	root
    packet  FIXMsg
    { u8
KType
,MDSnapshotZZ  , repeat

    OrderACK,  match 
KType as Body{1 :

HTTPServerInfo  ,	2

:OrderACK	,

}

    ,}")).
Eval vm_compute in ("<<<M1921>>>" ++ check (runes_of_ascii "
root packet string_ 
{@leftPad
	( ' '  ) chars {
repeat zchar[

    0	]

    tag ,

    string	falsey ,// " ++ [128512]%N ++ runes_of_ascii " emoji
	  repeat
    char[
	007  ]
    body	`two words`
	,

}
,
@calculatedFrom(
""// no comment"" ) Foo
	T
    ,// " ++ [128512]%N ++ runes_of_ascii " emoji
}
")).
Eval vm_compute in ("<<<M21>>>" ++ check (runes_of_ascii "packet  Logon //	t
{pack	_x
    ,
Z9_ i8i8  `" ++ [28040; 24687; 31867; 22411]%N ++ runes_of_ascii "`	, } options
    { tag	= 4294967296 ; As = string
    ; rootA = true ; }root packet f32a { //x
@leftPad
// " ++ [27880; 37322]%N ++ runes_of_ascii "
// c
(' ') repeat _x`" ++ [233]%N ++ runes_of_ascii "`	, @rightPad ( )i8i8 len,}

")).
Eval vm_compute in ("<<<M1931>>>" ++ check (runes_of_ascii "packet A {
    Inner {
        match k as n {
            [
                1, 22, 007, 4, 5,
                66, 7, 8, 9, 10,
                11
            ] : B,
        },
    },
}")).
Eval vm_compute in ("<<<M1875>>>" ++ check (runes_of_ascii "packet A {
    match k as n {
        [
            ""a"", 22, ""c c"", 4, ""e"",
            66, ""g"", 8, ""i"", 10,
            ""k""
        ] : B,
        2 : C,
    },
}")).
Eval vm_compute in ("<<<M1744>>>" ++ check (runes_of_ascii "packet
	A  { 
match 
k
	as
    n
    {	[  1
,
	""bb"" , 007
,
""d""

    ,
5,  ""f""
    ,
	7,
    ""h"" ,
    9,

""j""
, 11
]

    : B
,  2	:
    C
}
,
    }

")).
Eval vm_compute in ("<<<M1272>>>" ++ check (runes_of_ascii "
options{
LittleEndian=

true; } packet
	B	{
u8 a

    ,
string  s, 
}	root

packet

P

{ u16
    L
    @lengthOf(

    B
)
,
B,
    u8
t ,  }")).
Eval vm_compute in ("<<<M541>>>" ++ check (runes_of_ascii "packet uint8x
{ match pack
    as msg_type	{
    0123456789 :	float
}
,
} packet //	t
a1
    { } options {packetx
    = '\x0" ++ [233]%N ++ runes_of_ascii "0'	; u128= ""a	b""  ; }
")).
Eval vm_compute in ("<<<M497>>>" ++ check (runes_of_ascii "packet uint8x
{ match pack
    as msg_type	{
    0123456789 :	float
}
,
} packet //	t
a1
    { } options {packetx
    '\x00' =	; u128= ""a	b""  ; }
")).
Eval vm_compute in ("<<<M272>>>" ++ check (runes_of_ascii "packet _x	{ } packet BodyLength { int64
Packet
@lengthOf( float ),
options1 /// triple
{rootA x	, u8
Packet @calculatedFrom( """ ++ [28040; 24687]%N ++ runes_of_ascii """) `it's`  ,
} , }")).
Eval vm_compute in ("<<<M674>>>" ++ check (runes_of_ascii "// @lengthOf(
packet i8i8 { { u128 o , }
options { MetaDataX = true;
    BodyLength =""packet"" x_y_z= 007
crc //x
= ""abc"" ;
    msg_type =
i16 }")).
Eval vm_compute in ("<<<M681>>>" ++ check (runes_of_ascii "// @lengthOf(
packet i8i8 { u128 o , }
options { MetaDataX = true;
    BodyLength =""packet"" x_y_z= 007
crc //x
= ""abc"" ;
    msg_type i16
= }")).
Eval vm_compute in ("<<<M669>>>" ++ check (runes_of_ascii "// @lengthOf(
packet i8i8 {  o , }
options { MetaDataX = true;
    BodyLength =""packet"" x_y_z= 007
crc //x
= ""abc"" ;
    msg_type =
i16 }")).
Eval vm_compute in ("<<<M1421>>>" ++ check (runes_of_ascii "
packet

    A  {match

    k
    as

    n
    { [
1	, 
22, 
""c c""
    ,
4,

    5
, ""f"" 
,7
,	8]	: B
    2 :C  }
    ,  }")).
Eval vm_compute in ("<<<M1540>>>" ++ check (runes_of_ascii "
packet	A	{ match
    k 
as n

    {
    [
""a"" 
,
    22

    ,

    ""c c"",
4
	]

:
	B

    2
:C

    } ,
    }
")).
Eval vm_compute in ("<<<M970>>>" ++ check (runes_of_ascii "packet A {
    match k as n {
        ""x\
y"" : B,
        [""x\
y"", 1] : C,
        [1,2,3,4,5,""x\
y""] : D,
    },
}")).
Eval vm_compute in ("<<<M1173>>>" ++ check (runes_of_ascii "MetaData leftPad { chars MetaDataX , } packet repeatCount { char[ 255 ] uint8x `" ++ [233]%N ++ runes_of_ascii "` , // c
} MetaData pack { As Foo , }")).
Eval vm_compute in ("<<<M967>>>" ++ check (runes_of_ascii "packet A {
    match k as n {
        ""x\
y"" : B,
        [""x\
y"", 1] : C,
        [1,2,3,4,5,""x\
y""] : D,
    },
}")).
Eval vm_compute in ("<<<M1502>>>" ++ check (runes_of_ascii "
packet
    A {
match k as

    n { 
[

1 ,
22 ,007 
,
	4
	, 
5

, 66 ]  :  B ,

    2
	:  C}
    , }

")).
Eval vm_compute in ("<<<M926>>>" ++ check (runes_of_ascii "packet A {
    Inner {
        u8 x `a
b`,
        Deep {
            u8 y `a
b`,
        },
    },
}")).
Eval vm_compute in ("<<<M899>>>" ++ check (runes_of_ascii "packet A {
  match k as n {
    [1, 22, ""c c"", 4, 5, ""f"", 7, 8, ""i"", 10, 11] : B,
    2 : C
  },
}")).
Eval vm_compute in ("<<<M610>>>" ++ check (runes_of_ascii "
packet
    asx {match u128 as lengthOf
{
//	t
// `tick` ""quote"" 'q'
255 : x repeat
    } ,	}")).
Eval vm_compute in ("<<<M603>>>" ++ check (runes_of_ascii "
packet
    asx {match u128 as lengthOf
{
//	t
// `tick` ""quote"" 'q'
255 : x x ,
    } ,	}")).
Eval vm_compute in ("<<<M574>>>" ++ check (runes_of_ascii "
packet
    asx {match as u128 lengthOf
{
//	t
// `tick` ""quote"" 'q'
255 : x ,
    } ,	}")).
Eval vm_compute in ("<<<M643>>>" ++ check (runes_of_ascii "
packet
    asx {match x" ++ [178]%N ++ runes_of_ascii " as lengthOf
{
//	t
// `tick` ""quote"" 'q'
255 : x ,
    } ,	}")).
Eval vm_compute in ("<<<M866>>>" ++ check (runes_of_ascii "packet A {
  match k as n {
    [1, 22, 007, 4, 5, 66, 7, 8, 9] : B
    2 : C
  },
}")).
Eval vm_compute in ("<<<M1094>>>" ++ check (runes_of_ascii "packet A { u16 // a
 len // b
 @lengthOf( // c
 body // d
 ) // e
 `d` // f
 , }")).
Eval vm_compute in ("<<<M1835>>>" ++ check (runes_of_ascii "packet A {
    match k as n {
        [1, ""bb""] : B,
        2 : C,
    },
}")).
Eval vm_compute in ("<<<M1762>>>" ++ check (runes_of_ascii "  options {  // " ++ [128512]%N ++ runes_of_ascii " emoji

	Packet = // `tick` ""quote"" 'q'

char[
3 ]

}
")).
Eval vm_compute in ("<<<M796>>>" ++ check (runes_of_ascii "packet A {
  match k as n {
    [1, 22, ""c c""] : B
    2 : C
  },
}")).
Eval vm_compute in ("<<<M783>>>" ++ check (runes_of_ascii "packet A {
  match k as n {
    [1, ""bb""] : B
    2 : C
  },
}")).
Eval vm_compute in ("<<<M1701>>>" ++ check (runes_of_ascii "MetaData M {
    u8 x `
        x`,
    T t `
        x`,
}")).
Eval vm_compute in ("<<<M1093>>>" ++ check (runes_of_ascii "packet A { repeat // a
 B // b
 b // c
 `d` // e
 , }")).
Eval vm_compute in ("<<<M181>>>" ++ check (runes_of_ascii "options{ packetx=// " ++ [27880; 37322]%N ++ runes_of_ascii "
string Logon // " ++ [27880; 37322]%N ++ runes_of_ascii "
=  int8}")).
Eval vm_compute in ("<<<M1445>>>" ++ check (runes_of_ascii "
options { 
x
= ""{,}""matchKey
=
    true;
}

")).
Eval vm_compute in ("<<<M772>>>" ++ check (runes_of_ascii "false int8 uint64 @lengthOf( , @leftPad :")).
Eval vm_compute in ("<<<M1665>>>" ++ check (runes_of_ascii "options
{ Foo
=
0123456789
	;
	}
")).
Eval vm_compute in ("<<<M1549>>>" ++ check (runes_of_ascii "packet A {
    u8 x `d `,// c 
}")).
Eval vm_compute in ("<<<M1033>>>" ++ check (runes_of_ascii "packet A {
 u8 x `d" ++ [11]%N ++ runes_of_ascii "`, // c" ++ [11]%N ++ runes_of_ascii "
}")).
Eval vm_compute in ("<<<M1815>>>" ++ check (runes_of_ascii "// " ++ [128512]%N ++ runes_of_ascii " emoji
MetaData crc {
}")).
Eval vm_compute in ("<<<M1922>>>" ++ check (runes_of_ascii "
packet
	A	{	// a

}
")).
Eval vm_compute in ("<<<M1591>>>" ++ check (runes_of_ascii "//	t
options {
}// c")).
Eval vm_compute in ("<<<M991>>>" ++ check (runes_of_ascii "packet A {
}
// c" ++ [133]%N)).
Eval vm_compute in ("<<<M1233>>>" ++ check (runes_of_ascii "packet x { }
// c
")).
Eval vm_compute in ("<<<M1606>>>" ++ check (runes_of_ascii "// c
packet x {
}")).
Eval vm_compute in ("<<<M749>>>" ++ check ([1; 65533]%N ++ runes_of_ascii ">&EQX" ++ [65533]%N ++ runes_of_ascii "P" ++ [65533; 65533]%N)).
Eval vm_compute in ("<<<M1050>>>" ++ check (runes_of_ascii "// c" ++ [65279]%N)).
