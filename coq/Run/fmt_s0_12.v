From FP Require Import Lexer Parser ShowPT Digest Formatter.
From Coq Require Import String List NArith.
Import ListNotations.
Open Scope string_scope.
Set Printing Width 100000000.
Set Printing Depth 100000000.
Definition show_fres (r : fres) : string :=
  match r with
  | FOk s => "OK:" ++ sh_escaped s ""
  | FErr s => "ERR:" ++ sh_escaped s ""
  | FPanic p => "PANIC:" ++ p
  end.
Definition check (rs : list rune) : string := digest (show_fres (format_res rs)).
Definition full (rs : list rune) : string := show_fres (format_res rs).
Eval vm_compute in ("<<<M277>>>" ++ check (runes_of_ascii "root packet
// `tick` ""quote"" 'q'
// trailing space 
repeatCount
    {
    @tag( 65535
) A
{ u128
, u8x{ repeatCount @lengthOf( // @lengthOf(
As	) ,i32 _x @calculatedFrom(
""" ++ [128512]%N ++ runes_of_ascii """ ) , }
,
    /// triple
    } ,
} options {//x
u128 =
7 ;
    asx= 0123456789
    //
    } packet len
    { int8 u128 @lengthOf(
a1 ) ,
@calculatedFrom( // @lengthOf(
""" ++ [233]%N ++ runes_of_ascii "t" ++ [233]%N ++ runes_of_ascii """)@leftPad
    // " ++ [128512]%N ++ runes_of_ascii " emoji
    ( )@tag( 1 // packet A { u8 x, }
) //
msg_type  {
    // " ++ [128512]%N ++ runes_of_ascii " emoji
    match leftPad
as
BodyLength { 1
: Foo , [ 007 , 255 ] :zchar
,0 : As ,[ 10 , 3
    ,7 ,""abc""
    , // packet A { u8 x, }
42 ]: A, [ 65535] :calculatedFrom, } // c
,},
@lengthOf( falsey
//
// " ++ [27880; 37322]%N ++ runes_of_ascii "
) repeat BodyLength { char[ 7
    ] u128
    @calculatedFrom(""x y"" ) ,
    }
,	@leftPad('\x00'
) roots@calculatedFrom(  ""{,}"" ) ,
    i8i8 @lengthOf( charz) ,
char[ 7 ]Header ,  zchar[
42 ] pack , repeat asx float `{ , }` , }
    MetaData
    // a // b
    float{u64 len , uint32 MetaDataX`// not a comment` ,
    uint64	Header , crc Logon ,}packet u8x
    { Pad _x `u8 x,`,@calculatedFrom( ""packet"" ) repeat BodyLength
metadata ,
//
/// triple
@tag( 00 )repeat u8x { msg_type// `tick` ""quote"" 'q'
o  `two words` ,uint8x@lengthOf( //
_x
    ),string_ {repeat string string_ ,repeat	string body `a\`,
    // trailing space 
    repeat A `" ++ [28040; 24687; 31867; 22411]%N ++ runes_of_ascii "` , match u8x as u8x { ""// no comment""
    :
    options1, [ ""abc""
, 10
    ,	""// no comment"",
""abc"", ""CRC32"" ,
    ""CRC32""
, ""a	b"", ""packet""
] :
// " ++ [128512]%N ++ runes_of_ascii " emoji
// a // b
i64_ , ["""" ,
""1"" ] :
float ,""1"" :
    crc , 0 //
: Foo ,""x y""
    // c
    :A  , // a // b
} ,
    }	, } , char[ 0]
len
    ,body @calculatedFrom( """ ++ [233]%N ++ runes_of_ascii "t" ++ [233]%N ++ runes_of_ascii """ )`{ , }` , @tag(
    0 )i32 a1 `line1
line2`, @tag( 4294967296
// 50% %s
/// triple
)@tag( 7  )
body ,
}")).
Eval vm_compute in ("<<<M320>>>" ++ check (runes_of_ascii "// @lengthOf(
MetaData BodyLength{ u8x	u128 `a\` , }packet
    // c
    stringy  { } packet// " ++ [128512]%N ++ runes_of_ascii " emoji
a1
{i8 f32a
    `
`	,repeat  i64 len,@calculatedFrom( ""\" ++ [233]%N ++ runes_of_ascii """ ) string
    leftPad
`line1
line2` , match a1
as float { [ 007 , 3 ] : repeatCount, 3 /// triple
: MetaDataX ""CRC32""
    /// triple
    : u128
    // trailing space 
    , [ ""a\""b"" ,""// no comment""
]
:roots,""\" ++ [233]%N ++ runes_of_ascii """: // c
A}// packet A { u8 x, }
, zchar[ 42]Pad,/// triple
@calculatedFrom( """ ++ [233]%N ++ runes_of_ascii "t" ++ [233]%N ++ runes_of_ascii """) // `tick` ""quote"" 'q'
match
    chars	as// trailing space 
string_
{3 :
options1 , } , uint32
packetx
    `` ,
@tag(// 50% %s
42) @tag( 1 ) /// triple
@calculatedFrom( """ ++ [128512]%N ++ runes_of_ascii """ )
_x`// not a comment` ,}root packet repeatCount {
@leftPad (
) char[ 0] x_y_z@calculatedFrom(""1"" //x
),
@rightPad ( ) char[] int
, f64 // c
asx ,	repeat Pad
, match i64_
as
roots{
[ ""1""
    , ""packet""]
    /// triple
    :a1,""`tick`""  :
    // c
    trueish  , [3 ,	""\n"" // `tick` ""quote"" 'q'
, ""`tick`"", ""it's"" , 10 ,
""a\""b"" // a // b
, ""CRC32"" // a // b
]
    //	t
    : As, [ 10
,
10 ]: options1
, ""CRC32"": a1
,65535 :u
    , // c
} , @calculatedFrom( ""x y"" )
@tag(255
    )@tag( 1 )// c
zchar[1 ] crc // " ++ [27880; 37322]%N ++ runes_of_ascii "
`
` , repeat u16 tag `crlf
line` ,
@leftPad (' ') roots
@calculatedFrom(
    //	t
    """" )
    ,}

")).
Eval vm_compute in ("<<<M237>>>" ++ check (runes_of_ascii "options
    { }
packet
x{ repeat // trailing space 
rootA {
    repeat string Header , } ,
chars	float , @tag(65535
)
x_y_z { repeat	T`// not a comment` ,string string_ /// triple
@lengthOf( x_y_z) `say ""hi""`, Header len  ``,	string lengthOf , }, @tag(  0123456789
)match crc
as BodyLength{ ""\" ++ [233]%N ++ runes_of_ascii """	:	repeatCount 65535//x
: i8i8 ,
0  : A  ,
    [ ""a	b"" ,  7	] :packetx , }, @lengthOf(charz	) match
    body as uint8x{// 50% %s
00:	stringy
    [007 , ""`tick`"" // 50% %s
, ""\n"" ]	:
T [ ""// no comment"", ""a\\""] : float , [ 10
] : //x
A , ""a	b"": //	t
roots	}
    , pack { match // a // b
Pad as
    calculatedFrom { 255
    :string_""" ++ [28040; 24687]%N ++ runes_of_ascii """
    :  i64_,}  , // " ++ [27880; 37322]%N ++ runes_of_ascii "
uint32  matchKey@calculatedFrom(
    ""1""
    // 50% %s
    ) ,len leftPad , repeat MetaDataX{ i64
// " ++ [128512]%N ++ runes_of_ascii " emoji
//
len , }
    ,
    } ,char[]tag
// packet A { u8 x, }
//x
@calculatedFrom( ""packet"" )
// `tick` ""quote"" 'q'
// a // b
`line1
line2`, float , uint8x
    @lengthOf(
crc )
    `it's`,
    @tag(	007 )
float32 tag @calculatedFrom(""" ++ [233]%N ++ runes_of_ascii "t" ++ [233]%N ++ runes_of_ascii """) , }
")).
Eval vm_compute in ("<<<M1691>>>" ++ check (runes_of_ascii "  // top
    options
// c0

	{ 
// c1
uint8x  
      // c2
=
	    // c3
	007
    // c4

;
// c5
    lengthOf
// c6

=
	    // c7

	i8 
        // c8
		; 
// c9
  	} 
// c10
packet 
// c11
	i64_ 
  // c12
	{ 
// c13

@calculatedFrom( 

    // c14
    ""1"" 

    // c15

) 
// c16
    @tag( 
// c17

	3 

// c18
	) 

    // c19

@lengthOf(  
  // c20

rootA
// c21
)  
      // c22
    repeat  
      // c23

int8

// c24
  Packet
    // c25
    `tab	here`  
      // c26

,
	// c27
    	}
    // c28

packet 
        // c29
	_x
// c30
	{ 
    // c31
	matchKey 
// c32
  x 
    // c33
	`" ++ [28040; 24687; 31867; 22411]%N ++ runes_of_ascii "`
// c34
	,

    // c35
		int32 
	    // c36
  	calculatedFrom 
    // c37

	`100% of %d` 
// c38
	, 
        // c39
    @lengthOf( 
	// c40
  	trueish
// c41
) 
  // c42
  Packet

// c43
,
	    // c44
  repeat 

// c45
  	f32
    // c46

o

// c47
    	,
    // c48
	  }
    // c49
")).
Eval vm_compute in ("<<<M1724>>>" ++ check (runes_of_ascii "root
packet u8x {
@calculatedFrom(  ""it's""

    )

zchar[ 007
]Logon  ,	@rightPad( 
' '
	) @calculatedFrom(
""\n"")
    @lengthOf(
	Header )	repeat 
zchar[ 0]
options1

,
    // " ++ [27880; 37322]%N ++ runes_of_ascii "
  	// `tick` ""quote"" 'q'
	@lengthOf( i8i8

) 
@lengthOf( repeatCount

    )

    zchar[

    65535
] packetx `doc`

,	uint32

Foo 
@calculatedFrom(""1""

    ) ,
matchKey
, int16
Header,
}	options
    {
x

=7}
MetaData 
	    // " ++ [27880; 37322]%N ++ runes_of_ascii "
		// `tick` ""quote"" 'q'
  string_ {
trueish trueish`it's` 
,  char[4294967296]
x //x
	, 
    // a // b

  string u `100% of %d` ,
f32
	stringy
`// not a comment`, 
  // `tick` ""quote"" 'q'
string
	BodyLength , // a // b
}options

    {// @lengthOf(

	Logon 
=	10
roots	=  uint8

;

float=
""a\\""
;
Header
=""CRC32"" ;  }
")).
Eval vm_compute in ("<<<M344>>>" ++ check (runes_of_ascii "// a // b
packet
    rootA	{ @tag( 0 ) string falsey @calculatedFrom( ""// no comment"" ) ,
u32 string_ ,
} packet Header {
    //	t
    repeat // c
zchar[10// " ++ [27880; 37322]%N ++ runes_of_ascii "
] Header`" ++ [28040; 24687; 31867; 22411]%N ++ runes_of_ascii "`
    ,
}root
    packet// trailing space 
charz
    { @tag(42 ) f32 Z9_ // packet A { u8 x, }
@calculatedFrom(
""a\""b"")	`it's`
    , @calculatedFrom( ""\" ++ [233]%N ++ runes_of_ascii """ )match rootA as
    rootA
{ """ ++ [28040; 24687]%N ++ runes_of_ascii """ :
    //	t
    x 7//
:charz }
    ,// c
int64
    metadata @calculatedFrom( """ ++ [233]%N ++ runes_of_ascii "t" ++ [233]%N ++ runes_of_ascii """ ) ,match i8i8 as i64_ { 3 : Logon
    , [
7 , """ ++ [28040; 24687]%N ++ runes_of_ascii """ ]: repeatCount
    // `tick` ""quote"" 'q'
    , ""\" ++ [233]%N ++ runes_of_ascii """ : msg_type//
, }
    //
    ,
@lengthOf( Logon
) repeat
    leftPad  BodyLength
,	repeat//	t
uint8x `
` , }
")).
Eval vm_compute in ("<<<M1344>>>" ++ check (runes_of_ascii "// top
packet // c0a
  // c0b
u128
    // c1
{ // c2a
  // c2b
u8
    // c3
a ,
    // c5
} // c6a
  // c6b
root // c7a
  // c7b
packet // c8a
  // c8b
Msg // c9
{ // c10a
  // c10b
u8
    // c11
k // c12a
  // c12b
, u24 // c14a
  // c14b
{ // c15
u8 // c16a
  // c16b
Hi
    // c17
, u16 // c19
Lo , // c21
} , // c23a
  // c23b
repeat
    // c24
i24
    // c25
{ // c26
u32
    // c27
q
    // c28
, // c29
} // c30
, // c31
u128 // c32
, // c33
u16 // c34a
  // c34b
float32x , // c36
string // c37a
  // c37b
s // c38a
  // c38b
, // c39a
  // c39b
} // c40a
  // c40b
")).
Eval vm_compute in ("<<<M156>>>" ++ check (runes_of_ascii "  MetaData
T { char[ 0123456789 ] rootA
`line1
line2` , i32	Logon
,rootA
asx ,} root/// triple
packet
    Header { uint32
len
    @lengthOf( u ) `
` , repeat
    char MetaDataX/// triple
`" ++ [28040; 24687; 31867; 22411]%N ++ runes_of_ascii "` ,
    uint8x @lengthOf( zchar) // @lengthOf(
`u8 x,`
// " ++ [27880; 37322]%N ++ runes_of_ascii "
// packet A { u8 x, }
, uint8
Z9_,
    @lengthOf( u128 ) @lengthOf(
MetaDataX )
@tag( 0123456789
) Logon @lengthOf(
    /// triple
    body ),	}  options { Z9_
= uint32; options1 = '\x00' } options {Foo  = ""// no comment"" ; }
packet
    float
{
}")).
Eval vm_compute in ("<<<M1765>>>" ++ check (runes_of_ascii "

  packet

    i64_
{ @calculatedFrom( 
""a	b"" ) match
Logon
as
	packetx {  10 
: rootA	""it's""

    : BodyLength,

    [ """ ++ [28040; 24687]%N ++ runes_of_ascii """, 
3 
] 
:

roots[
	// packet A { u8 x, }
      ""\" ++ [233]%N ++ runes_of_ascii """  ]
	:	rootA

,""{,}""

:
	chars

    ,  [	""" ++ [28040; 24687]%N ++ runes_of_ascii """

] 
:

    pack,  },
    }

    MetaData

    trueish { u64  uint8x  //
  `say ""hi""`

    , string uint8x`{ , }` ,
    BodyLength 
uint8x 
      //x

	// " ++ [27880; 37322]%N ++ runes_of_ascii "
  	`{ , }`
,
char[] pack	`u8 x,`,// `tick` ""quote"" 'q'
  } ")).
Eval vm_compute in ("<<<M1918>>>" ++ check (runes_of_ascii "options {
    LittleEndian = false;
    StringPrefixLenType = u16;
    FixedStringPadFromLeft = true;
    FixedStringPadChar = '0';
}

packet Fill {
}

root packet Order {
    repeat Fill,
    char[] clOrdID,
    @rightPad('\x00'	)
    char[4] lastPx,
    char[] OrderId,
    int8 tag7,
    u8 f1,
    u16 count @lengthOf(Body),
    match f1 as Body {
        [159, 49] : Fill,
    },
    u16 Tail @calculatedFrom(""CRC32""),
}")).
Eval vm_compute in ("<<<M253>>>" ++ check (runes_of_ascii "packet // a // b
u8x  {// trailing space 
repeat roots{ zchar[ 42
]
// 50% %s
// a // b
u@lengthOf( i64_)  `line1
line2`
, f64 Packet
`` , zchar[
    4294967296 ]
msg_type ,
}, }root packet rootA{
    @calculatedFrom( ""// no comment""
)  @calculatedFrom(// " ++ [128512]%N ++ runes_of_ascii " emoji
""" ++ [233]%N ++ runes_of_ascii "t" ++ [233]%N ++ runes_of_ascii """ ) match	body
    as Foo
    /// triple
    {  10 :
a1} , @tag( 42 )@calculatedFrom( ""1"" )
repeat int64 float  `u8 x,` ,}
")).
Eval vm_compute in ("<<<M1360>>>" ++ check (runes_of_ascii "options {
    LittleEndian = true;
    StringPrefixLenType = u16;
    ArrayPrefixLenType = u16;
    FixedStringPadFromLeft = true;
    FixedStringPadChar = '0';
}
packet Leg {
    u16 Flags,
    u8 price,
}
packet Quote {
    uint16 count,
    InNote89 {
        repeat Leg,
    },
}
root packet Ack {
    char[3] price,
    u64 sym,
    zchar[1] Tail,
}
")).
Eval vm_compute in ("<<<M1551>>>" ++ check (runes_of_ascii "options{
    len=
00
    ;
//	t
	// packet A { u8 x, }
		charz
	= zchar[3 ]	//
;  Pad

    =
    255  ;falsey=	""" ++ [28040; 24687]%N ++ runes_of_ascii """
} root
    packet
	repeatCount

{char[
4294967296  ]x_y_z
@lengthOf( 
string_
)

, @calculatedFrom( 
""packet"" )  @tag( 
4294967296	) 
float32 
asx

@lengthOf(x_y_z	), u64

    zchar

,
    }")).
Eval vm_compute in ("<<<M94>>>" ++ check (runes_of_ascii "packet BodyLength{ }
    MetaData Z9_{ // c
Z9_ _x
    , }	packet
float
{@tag(
    42 )
@calculatedFrom(// `tick` ""quote"" 'q'
""// no comment"")
    char[
    42
]	packetx
    `it's`
, } MetaData body{  uint16 zchar `" ++ [233]%N ++ runes_of_ascii "` // " ++ [27880; 37322]%N ++ runes_of_ascii "
, i32 Pad`" ++ [28040; 24687; 31867; 22411]%N ++ runes_of_ascii "`
,i8 Header
,  u16 u128 , i32 u, }
")).
Eval vm_compute in ("<<<M292>>>" ++ check (runes_of_ascii "
packet len{
    // @lengthOf(
    } root packet stringy
//
/// triple
{
    // `tick` ""quote"" 'q'
    } MetaData	stringy {char[ 0 ]	falsey `tab	here`,falsey u
    /// triple
    , Header crc,
// `tick` ""quote"" 'q'
// `tick` ""quote"" 'q'
trueish
zchar, //x
}
")).
Eval vm_compute in ("<<<M489>>>" ++ check (runes_of_ascii "packet
    asx { @calculatedFrom(
""""  ) @tag( 255 )repeat
// packet A { u8 x, }
// trailing space 
int16 u8x
,
@tag(
    //
    007 )
    @tag( 0
    /// triple
    ) @tag( options) u
    @lengthOf( T ),
// `tick` ""quote"" 'q'
//x
} // " ++ [128512]%N ++ runes_of_ascii " emoji")).
Eval vm_compute in ("<<<M507>>>" ++ check (runes_of_ascii "packet
    asx { @calculatedFrom(
""""  ) @tag( 255 )repeat
// packet A { u8 x, }
// trailing space 
int16 u8x
,
@tag(
    //
    007 )
    @tag( 0
    /// triple
    ) @tag( 1) u
    @lengthOf( T T ),
// `tick` ""quote"" 'q'
//x
} // " ++ [128512]%N ++ runes_of_ascii " emoji")).
Eval vm_compute in ("<<<M438>>>" ++ check (runes_of_ascii "packet
    asx { @calculatedFrom(
""""  ) @tag( 255 )repeat
// packet A { u8 x, }
// trailing space 
u8x int16
,
@tag(
    //
    007 )
    @tag( 0
    /// triple
    ) @tag( 1) u
    @lengthOf( T ),
// `tick` ""quote"" 'q'
//x
} // " ++ [128512]%N ++ runes_of_ascii " emoji")).
Eval vm_compute in ("<<<M461>>>" ++ check (runes_of_ascii "packet
    asx { @calculatedFrom(
""""  ) @tag( 255 )repeat
// packet A { u8 x, }
// trailing space 
int16 u8x
,
@tag(
    //
    007 
    @tag( 0
    /// triple
    ) @tag( 1) u
    @lengthOf( T ),
// `tick` ""quote"" 'q'
//x
} // " ++ [128512]%N ++ runes_of_ascii " emoji")).
Eval vm_compute in ("<<<M1516>>>" ++ check (runes_of_ascii "options {
    // " ++ [27880; 37322]%N ++ runes_of_ascii "
    // " ++ [128512]%N ++ runes_of_ascii " emoji
    string_ = false;
    falsey = char[4294967296];
}

packet zchar {
    match float as len {
        [""" ++ [233]%N ++ runes_of_ascii "t" ++ [233]%N ++ runes_of_ascii """] : matchKey,
        3 : u,
        [4294967296, ""1""] : zchar,
    },
}

MetaData T {
}")).
Eval vm_compute in ("<<<M1261>>>" ++ check (runes_of_ascii "// top
packet // c0
Inner {
    // c2
u8
    // c3
a // c4a
  // c4b
,
    // c5
}
    // c6
root
    // c7
packet
    // c8
P { // c10a
  // c10b
Inner
    // c11
ref_obj , u8 // c14a
  // c14b
x // c15
, } // c17
")).
Eval vm_compute in ("<<<M1299>>>" ++ check (runes_of_ascii "// top
root
    // c0
packet // c1a
  // c1b
P
    // c2
{
    // c3
repeat string
    // c5
ss // c6
, // c7
repeat
    // c8
u16 // c9
ns
    // c10
, // c11a
  // c11b
} // c12a
  // c12b
")).
Eval vm_compute in ("<<<M228>>>" ++ check (runes_of_ascii "root packet
    //	t
    Logon {zchar[42// packet A { u8 x, }
]
// c
// 50% %s
uint8x `it's` ,
    //x
    @lengthOf( Z9_	) Pad{repeat// `tick` ""quote"" 'q'
i64_ `" ++ [28040; 24687; 31867; 22411]%N ++ runes_of_ascii "` ,
},	}

")).
Eval vm_compute in ("<<<M719>>>" ++ check (runes_of_ascii "packet
crc
{repeat  Foo A  `u8 x,` ,	@lengthOf( uint8x ) string
matchKey @lengthOf( stringy ) `a\`
,
    // c
    } }
MetaData chars{
leftPad
    //	t
    crc
`" ++ [233]%N ++ runes_of_ascii "`
,}")).
Eval vm_compute in ("<<<M682>>>" ++ check (runes_of_ascii "MetaData u
    { } MetaData o
{ float uint8x
`100% of %d` ,repeatCount u8x, string_ leftPad
, i32
    Foo , int64 x `two words` , calculatedFrom
stringy `a\` , ,
}
")).
Eval vm_compute in ("<<<M588>>>" ++ check (runes_of_ascii "MetaData u
    { } MetaData o
{ float `100% of %d`
uint8x ,repeatCount u8x, string_ leftPad
, i32
    Foo , int64 x `two words` , calculatedFrom
stringy `a\` ,
}
")).
Eval vm_compute in ("<<<M611>>>" ++ check (runes_of_ascii "MetaData u
    { } MetaData o
{ float uint8x
`100% of %d` ,repeatCount u8x string_ leftPad
, i32
    Foo , int64 x `two words` , calculatedFrom
stringy `a\` ,
}
")).
Eval vm_compute in ("<<<M685>>>" ++ check (runes_of_ascii "MetaData u
    { } MetaData o
{ float uint8x
`100% of %d` ,repeatCount u8x, string_ leftPad
, i32
    Foo , int64 x `two words` , calculatedFrom
stringy `a\`")).
Eval vm_compute in ("<<<M188>>>" ++ check (runes_of_ascii "// `tick` ""quote"" 'q'
options
    //	t
    { metadata  = ""abc"" // `tick` ""quote"" 'q'
a1  = true
// a // b
// " ++ [27880; 37322]%N ++ runes_of_ascii "
; }
MetaData
falsey
{ char[]
Logon ,}")).
Eval vm_compute in ("<<<M317>>>" ++ check (runes_of_ascii "root	packet // " ++ [27880; 37322]%N ++ runes_of_ascii "
matchKey {	Z9_ @calculatedFrom("""") ,  } MetaData pack
    {
    u32 leftPad, x zchar , uint32  i8i8	, u16
    zchar ,
    }
")).
Eval vm_compute in ("<<<M965>>>" ++ check (runes_of_ascii "packet A {
    u16 len @lengthOf(body) `100% of %s %d %v`,
    u32 crc @calculatedFrom(""CRC32"") `100% of %s %d %v`,
    string body,
}")).
Eval vm_compute in ("<<<M1759>>>" ++ check (runes_of_ascii "packet A {
    u16 len @lengthOf(body) `a
        b`,
    u32 crc @calculatedFrom(""CRC32"") `a
        b`,
    string body,
}")).
Eval vm_compute in ("<<<M986>>>" ++ check (runes_of_ascii "packet A {
    match k as n {
        ""x\
y"" : B,
        [""x\
y"", 1] : C,
        [1,2,3,4,5,""x\
y""] : D,
    },
}")).
Eval vm_compute in ("<<<M1210>>>" ++ check (runes_of_ascii "options { } options
// c
{ MetaDataX = char ; } MetaData Pad { i8 metadata , string stringy , int8 As `{ , }` , }")).
Eval vm_compute in ("<<<M1242>>>" ++ check (runes_of_ascii "options { } options { MetaDataX = char ; } MetaData Pad { i8 metadata , string stringy , int8
// c
As `{ , }` , }")).
Eval vm_compute in ("<<<M960>>>" ++ check (runes_of_ascii "packet A {
    Inner {
        u8 x `tab
	x`,
        Deep {
            u8 y `tab
	x`,
        },
    },
}")).
Eval vm_compute in ("<<<M328>>>" ++ check (runes_of_ascii "// `tick` ""quote"" 'q'
packet o {} options { }MetaData
    trueish{ u64
repeatCount`100% of %d`,
    }")).
Eval vm_compute in ("<<<M897>>>" ++ check (runes_of_ascii "packet A {
  match k as n {
    [1, 22, ""c c"", 4, 5, ""f"", 7, 8, ""i"", 10, 11] : B,
    2 : C
  },
}")).
Eval vm_compute in ("<<<M1293>>>" ++ check (runes_of_ascii "root packet

    P
{
    u16  a ,
u32
    Sum

    @calculatedFrom(
	""CRC32"" ) ,

    } ")).
Eval vm_compute in ("<<<M1700>>>" ++ check (runes_of_ascii "  packet A{

match
    k
    as
    n

    {  [	1 ]

    :  B 
,

2  :  C 
} ,
    }
")).
Eval vm_compute in ("<<<M1890>>>" ++ check (runes_of_ascii "packet A {
    Inner {
        match k as n {
            [1] : B,
        },
    },
}")).
Eval vm_compute in ("<<<M850>>>" ++ check (runes_of_ascii "packet A {
  match k as n {
    [1, 22, 007, 4, 5, 66, 7, 8] : B,
    2 : C
  },
}")).
Eval vm_compute in ("<<<M1262>>>" ++ check (runes_of_ascii "
packet Inner	{ 
u8	a ,

} root packet P{Inner

ref_obj
	,
u8

    x

, }
")).
Eval vm_compute in ("<<<M1793>>>" ++ check (runes_of_ascii "packet A {
    match k as n {
        [1, 22] : B,
        2 : C,
    },
}")).
Eval vm_compute in ("<<<M795>>>" ++ check (runes_of_ascii "packet A {
  match k as n {
    [""a"", ""bb"", 007] : B,
    2 : C
  },
}")).
Eval vm_compute in ("<<<M1117>>>" ++ check (runes_of_ascii "packet A {
    match k as n {
        1 : B,
        // c
    },
}")).
Eval vm_compute in ("<<<M605>>>" ++ check (runes_of_ascii "MetaData u
    { } MetaData o
{ float uint8x
`100% of %d` ,")).
Eval vm_compute in ("<<<M1116>>>" ++ check (runes_of_ascii "packet A {
    match k as n {
        1 : B,// c
    },
}")).
Eval vm_compute in ("<<<M1694>>>" ++ check (runes_of_ascii "options  {

    A = 
""// no comment"" 	 // c
    }")).
Eval vm_compute in ("<<<M595>>>" ++ check (runes_of_ascii "MetaData u
    { } MetaData o
{ float uint8x")).
Eval vm_compute in ("<<<M1251>>>" ++ check (runes_of_ascii "root packet P {
    char c,
    u8 x,
}
")).
Eval vm_compute in ("<<<M962>>>" ++ check (runes_of_ascii "root packet A {
    u8 x `tab
	x`,
}")).
Eval vm_compute in ("<<<M944>>>" ++ check (runes_of_ascii "root packet A {
    u8 x `a

b`,
}")).
Eval vm_compute in ("<<<M173>>>" ++ check (runes_of_ascii "options	{ Z9_	= ""abc""
    ;
}
")).
Eval vm_compute in ("<<<M770>>>" ++ check (runes_of_ascii "match char[ false @lengthOf(")).
Eval vm_compute in ("<<<M1103>>>" ++ check (runes_of_ascii "packet A { // a
 u8 x, }")).
Eval vm_compute in ("<<<M1083>>>" ++ check (runes_of_ascii "packet A {
}// a// b")).
Eval vm_compute in ("<<<M1010>>>" ++ check (runes_of_ascii "packet A {
}
// c" ++ [133]%N)).
Eval vm_compute in ("<<<M1174>>>" ++ check (runes_of_ascii "packet x { }
// c
")).
Eval vm_compute in ("<<<M212>>>" ++ check (runes_of_ascii "options {
    }
")).
Eval vm_compute in ("<<<M1824>>>" ++ check (runes_of_ascii "
// c" ++ [8202]%N ++ runes_of_ascii "
")).
Eval vm_compute in ("<<<M726>>>" ++ check (runes_of_ascii "		")).
