From FP Require Import Lexer Parser ShowPT Digest Formatter.
From Coq Require Import String List NArith.
Import ListNotations.
Open Scope string_scope.
Set Printing Width 100000000.
Set Printing Depth 100000000.
Definition show_fres (r : fres) : string :=
  match r with
  | FOk s => "OK:" ++ sh_escaped s ""
  | FErr s => "ERR:" ++ sh_escaped s ""
  | FPanic p => "PANIC:" ++ p
  end.
Definition check (rs : list rune) : string := digest (show_fres (format_res rs)).
Definition full (rs : list rune) : string := show_fres (format_res rs).
Eval vm_compute in ("<<<M1364>>>" ++ check (runes_of_ascii "// top
options // c0
{ // c1a
  // c1b
StringPrefixLenType // c2a
  // c2b
= // c3a
  // c3b
u8 // c4
; ArrayPrefixLenType // c6a
  // c6b
=
    // c7
u32 // c8a
  // c8b
; // c9
FixedStringPadFromLeft = // c11a
  // c11b
true
    // c12
;
    // c13
FixedStringPadChar = // c15a
  // c15b
' ' // c16a
  // c16b
;
    // c17
} // c18a
  // c18b
packet
    // c19
Leg { } packet // c23
Heartbeat
    // c24
{
    // c25
zchar[
    // c26
6 ] // c28
msgKind // c29a
  // c29b
, @rightPad // c31
( '0' // c33
) // c34
char[ 3 // c36a
  // c36b
] // c37
Qty
    // c38
, zchar[ 9 // c41
] // c42
Side2 ,
    // c44
i8 // c45a
  // c45b
Acct // c46
,
    // c47
} // c48a
  // c48b
packet // c49a
  // c49b
Logout { // c51a
  // c51b
int8 // c52
x ,
    // c54
} // c55
packet Order { // c58a
  // c58b
char[]
    // c59
Acct , // c61
zchar[ // c62
8
    // c63
] count
    // c65
, u32 // c67a
  // c67b
OrderId // c68
, uint8 // c70a
  // c70b
lastPx // c71
, u16 // c73
clOrdID // c74a
  // c74b
, zchar[ // c76a
  // c76b
7
    // c77
]
    // c78
Note ,
    // c80
} // c81
root // c82a
  // c82b
packet // c83
Reject { @leftPad ( // c87
' ' ) char[ // c90
8 // c91
] Side2 , // c94a
  // c94b
i8 clOrdID
    // c96
,
    // c97
repeat f32 x
    // c100
,
    // c101
u32
    // c102
lastPx
    // c103
,
    // c104
match // c105a
  // c105b
lastPx
    // c106
as
    // c107
Body
    // c108
{ // c109a
  // c109b
[ 30 , // c112
147
    // c113
]
    // c114
:
    // c115
Heartbeat // c116
, // c117
134
    // c118
: Leg // c120a
  // c120b
,
    // c121
183
    // c122
: // c123
Logout // c124
, 40 :
    // c127
Order
    // c128
, // c129a
  // c129b
} // c130
, // c131
u16 Ref @calculatedFrom( // c134
""CRC32""
    // c135
) ,
    // c137
} // c138
")).
Eval vm_compute in ("<<<M1755>>>" ++ check (runes_of_ascii "options {
    BodyLength = 3;// " ++ [128512]%N ++ runes_of_ascii " emoji
    T = ""packet"";
    // c
    // trailing space 
    crc = true;
    falsey = '\x00';
}

root packet A {
    @leftPad('0')
    char[65535] Header `" ++ [233]%N ++ runes_of_ascii "`,
    @rightPad('0')
    //
    a1 @lengthOf(msg_type),
    @lengthOf(rootA)
    match _x as stringy {
        ""CRC32"" : chars,
        3 : float,
        255 : asx,
        10 : tag,
        //
    },
    @calculatedFrom(""" ++ [128512]%N ++ runes_of_ascii """)
    u32 u8x `crlf
        line`,
    repeat char[] asx `a\`,
    @rightPad('0')
    match f32a as Packet {
        [
            255, ""CRC32"", 007, ""1"", ""packet"",
            00, 4294967296
        ] : calculatedFrom,
        ""packet"" : falsey,
        ""a\""b"" : body,
        7 : Packet,
        // " ++ [128512]%N ++ runes_of_ascii " emoji
        0123456789 : i64_,
        // a // b
        [4294967296, 0123456789] : options1,
    },
    crc @lengthOf(Foo),
    @calculatedFrom(""{,}"")
    @lengthOf(metadata)
    @lengthOf(i8i8)
    int64 options1 @calculatedFrom(""CRC32"") `line1
        line2`,// @lengthOf(
}

packet a1 {
    match lengthOf as x_y_z {
        ""it's"" : matchKey,
        10 : Packet,
        [""abc""] : A,
        10 : metadata,
    },
}

MetaData body {
    char string_,
    char[] x,
    len Pad,
    string leftPad,
}// trailing space ")).
Eval vm_compute in ("<<<M174>>>" ++ check (runes_of_ascii "
root packet asx { leftPad
    {u128 @calculatedFrom( ""1""
) , //x
}
, lengthOf // packet A { u8 x, }
@calculatedFrom( """ ++ [128512]%N ++ runes_of_ascii """ ) `a\`
, i64 // `tick` ""quote"" 'q'
Packet @lengthOf(  calculatedFrom ) , @calculatedFrom(
""" ++ [233]%N ++ runes_of_ascii "t" ++ [233]%N ++ runes_of_ascii """ ) stringy	a1 `doc` // `tick` ""quote"" 'q'
, @rightPad
    (
    // a // b
    )
    // c
    a1
    `a\`
,  char
Header @lengthOf(
    x )`say ""hi""`, uint8x
Z9_ `tab	here` ,  }
options
    {
    calculatedFrom// packet A { u8 x, }
= 0}	packet metadata {@leftPad ( '\x00'	) f32
    pack
//	t
//
, @tag( 65535 ) u32 uint8x @lengthOf( repeatCount) ``,MetaDataX	{ repeat options1 , match
matchKey as len { """ ++ [128512]%N ++ runes_of_ascii """:
    u8x	, 1 :
zchar
, /// triple
[ ""a\\""
    ,
    ""x y"" ] : charz 0
    :
    x_y_z
    //
    ,[// trailing space 
4294967296// `tick` ""quote"" 'q'
]: asx  , [/// triple
""a\""b"" , ""\n"" , ""\" ++ [233]%N ++ runes_of_ascii """ ,10 ] : _x ,
    }	, uint8  metadata
@lengthOf(float
) ,
zchar[
    255] i8i8 , },
    }root  packet
f32a
    { }")).
Eval vm_compute in ("<<<M1962>>>" ++ check (runes_of_ascii "root packet asx {
    leftPad {
        u128 @calculatedFrom(""1""),//x
    },
    lengthOf @calculatedFrom(""" ++ [128512]%N ++ runes_of_ascii """) `a\`,
    i64 Packet @lengthOf(calculatedFrom),
    @calculatedFrom(""" ++ [233]%N ++ runes_of_ascii "t" ++ [233]%N ++ runes_of_ascii """)
    stringy a1 `doc`,
    @rightPad()
    // c
    a1 `a\`,
    char Header @lengthOf(x) `say ""hi""`,
    uint8x Z9_ `tab	here`,
}

options {
    calculatedFrom = 0
}

packet metadata {
    @leftPad('\x00')
    f32 pack,
    @tag(65535)
    u32 uint8x @lengthOf(repeatCount) ``,
    MetaDataX {
        repeat options1,
        match matchKey as len {
            """ ++ [128512]%N ++ runes_of_ascii """ : u8x,
            1 : zchar,
            /// triple
            [""a\\"", ""x y""] : charz,
            0 : x_y_z,
            [4294967296] : asx,
            [""a\""b"", ""\n"", ""\" ++ [233]%N ++ runes_of_ascii """, 10] : _x,
        },
        uint8 metadata @lengthOf(float),
        zchar[255] i8i8,
    },
}

root packet f32a {
}")).
Eval vm_compute in ("<<<M230>>>" ++ check (runes_of_ascii "packet rootA{	match
zchar as
    // " ++ [128512]%N ++ runes_of_ascii " emoji
    int {
    [ ""it's""
, ""1""]
    :// c
tag ,
    } , char Packet @lengthOf( body ) , metadata @lengthOf( packetx ) ,@calculatedFrom( """ ++ [128512]%N ++ runes_of_ascii """	)match
    repeatCount as f32a { """ ++ [28040; 24687]%N ++ runes_of_ascii """
    :chars ,
    }
    ,@lengthOf(string_ )char[ 0
    //
    ] len @calculatedFrom(
""abc"" )
,
    // `tick` ""quote"" 'q'
    u8 uint8x@lengthOf( roots)  `say ""hi""`
, int @calculatedFrom( ""a\""b"") ,match
msg_type as i8i8 {// c
""\" ++ [233]%N ++ runes_of_ascii """
// " ++ [27880; 37322]%N ++ runes_of_ascii "
// packet A { u8 x, }
: Header , 1 : zchar,
    [ ""\n""	]
:	string_
""\n"" :i8i8 0123456789 : Logon
    [ 00 , 007 ,""1"" ,
    //	t
    ""it's""
    , ""// no comment""
    ,
    0
, ""a\\"" ,// packet A { u8 x, }
007 ]
    :BodyLength}
, match rootA as // c
chars  {
7
:
    // @lengthOf(
    Header }
, A Foo `tab	here` ,
}
")).
Eval vm_compute in ("<<<M1366>>>" ++ check (runes_of_ascii "options {
    StringPrefixLenType = u8;
    ArrayPrefixLenType = u32;
    FixedStringPadFromLeft = true;
    FixedStringPadChar = ' ';
}
packet Leg {
}
packet Heartbeat {
    zchar[6] msgKind,
    @rightPad('0') char[3] Qty,
    zchar[9] Side2,
    i8 Acct,
}
packet Logout {
    int8 x,
}
packet Order {
    char[] Acct,
    zchar[8] count,
    u32 OrderId,
    uint8 lastPx,
    u16 clOrdID,
    zchar[7] Note,
}
root packet Reject {
    @leftPad(' ') char[8] Side2,
    i8 clOrdID,
    repeat f32 x,
    u32 lastPx,
    match lastPx as Body {
        [30, 147] : Heartbeat,
        134 : Leg,
        183 : Logout,
        40 : Order,
    },
    u16 Ref @calculatedFrom(""CR\
C32""),
}
")).
Eval vm_compute in ("<<<M1600>>>" ++ check (runes_of_ascii "root packet matchKey {
    match Foo as Z9_ {
        // c
        [""x y"", ""1"", 007, 7] : pack,
        ""`tick`"" : u128,
        ""a	b"" : msg_type,
        [00, 65535] : a1,
        ""it's"" : Foo,
        // " ++ [128512]%N ++ runes_of_ascii " emoji
        [""""] : u,
    },
}

packet calculatedFrom {
    msg_type {
        T @calculatedFrom(""\n""),
        float64 i8i8,
        As `
                `,
        u32 rootA @lengthOf(float),
    },
}

packet x_y_z {
    @tag(0)
    i64_ @lengthOf(MetaDataX),
}

packet A {
    @calculatedFrom(""a\\"")
    @calculatedFrom(""abc"")
    _x u `say ""hi""`,
}

options {
    // trailing space 
    metadata = ""a\\"";// a // b
}")).
Eval vm_compute in ("<<<M1116>>>" ++ check (runes_of_ascii "// top
MetaData // c0
Packet // c1
{ // c2
} // c3
packet // c4
charz // c5
{ // c6
Foo // c7
asx // c8
`it's` // c9
, // c10
@lengthOf( // c11
T // c12
) // c13
@calculatedFrom( // c14
"""" // c15
) // c16
@calculatedFrom( // c17
""x y"" // c18
) // c19
zchar[ // c20
007 // c21
] // c22
repeatCount // c23
@lengthOf( // c24
int // c25
) // c26
`a\` // c27
, // c28
i8 // c29
string_ // c30
, // c31
repeat // c32
options1 // c33
Pad // c34
, // c35
} // c36
root // c37
packet // c38
Packet // c39
{ // c40
int8 // c41
float // c42
`doc` // c43
, // c44
} // c45
")).
Eval vm_compute in ("<<<M1349>>>" ++ check (runes_of_ascii "options {
    ArrayPrefixLenType = u64;
    FixedStringPadFromLeft = true;
    FixedStringPadChar = '0';
}
packet Quote {
}
packet Ack {
    repeat InNote66 {
        u8 pad0,
    },
}
packet Reject {
}
root packet Order {
    Quote,
    repeat Reject,
    string venue,
    string seqNo,
    uint32 Ref,
    u16 lastPx,
    u32 clOrdID @lengthOf(Body),
    match lastPx as Body {
        190 : Reject,
        186 : Quote,
        22 : Ack,
    },
    u16 Flags @calculatedFrom(""CRC32""),
}
")).
Eval vm_compute in ("<<<M48>>>" ++ check (runes_of_ascii "root	packet Logon { @calculatedFrom( """" ) @lengthOf( int ) @tag( 3
) match _x
as // a // b
i64_ { 10:asx
// `tick` ""quote"" 'q'
/// triple
""" ++ [128512]%N ++ runes_of_ascii """ : crc ,[ 0
,
007
] : float  ,// trailing space 
}
    , repeat //	t
uint16
leftPad  ,
    }
    // " ++ [27880; 37322]%N ++ runes_of_ascii "
    packet charz
{  } MetaData
int {
//
// trailing space 
zchar[ 4294967296 ]matchKey
,
asx rootA
    `doc`
, Foo string_ `// not a comment`
,
    char[]u8x , // `tick` ""quote"" 'q'
roots
float , }
")).
Eval vm_compute in ("<<<M256>>>" ++ check (runes_of_ascii "
options // " ++ [27880; 37322]%N ++ runes_of_ascii "
{ T = zchar[ 42
] options1 = uint8 ;
lengthOf
=
    // a // b
    char[4294967296
    ]
    ; } packet Z9_ { repeat
MetaDataX
`crlf
line`
    ,
repeat string x_y_z	,
    u32 x
, // `tick` ""quote"" 'q'
@tag(
// " ++ [128512]%N ++ runes_of_ascii " emoji
// " ++ [128512]%N ++ runes_of_ascii " emoji
00 )repeat i64 Logon ,
u8x
f32a, repeat
    lengthOf``, repeat
stringy Pad
    // @lengthOf(
    `
`,
    repeat
    string_ chars `// not a comment` , }

")).
Eval vm_compute in ("<<<M1692>>>" ++ check (runes_of_ascii "packet T {
    @tag(00)
    repeat char[] charz `
        `,
    char[0123456789] BodyLength @lengthOf(Z9_) `u8 x,`,
}

MetaData crc {
    float64 int `" ++ [28040; 24687; 31867; 22411]%N ++ runes_of_ascii "`,
    As Logon ``,// `tick` ""quote"" 'q'
    uint8 u,
    u32 stringy `
        `,
    // a // b
    //	t
    uint64 uint8x,
    asx calculatedFrom,//x
}

MetaData chars {
    char[1] chars,
}// trailing space ")).
Eval vm_compute in ("<<<M1390>>>" ++ check (runes_of_ascii "options

    { LittleEndian=

    true
    ;}packet
Logon {
    u8 
x,
}
packet Logout

    {u16
reason
,
	}
root packet Frame {

    u64

Kind

,
u64  Kind2

    ,

match Kind 
as

    Body
{ 1
:  Logon
    , 
[
2 ,	3
	,
4

]	: Logout
,
    100 : Logon
	,
}
    ,	match  Kind2	as Trailer{ 
0 :  Logout	,
	} ,
	}

")).
Eval vm_compute in ("<<<M1388>>>" ++ check (runes_of_ascii "options {
    LittleEndian = true;
}
packet Logon {
    u8 x,
}
packet Logout {
    u16 reason,
}
root packet Frame {
    u64 Kind,
    u64 Kind2,
    match Kind as Body {
        1 : Logon,
        [2, 3, 4] : Logout,
        100 : Logon,
    },
    match Kind2 as Trailer {
        0 : Logout,
    },
}
")).
Eval vm_compute in ("<<<M94>>>" ++ check (runes_of_ascii "MetaData chars{ uint64	A, msg_type asx
    // c
    , Z9_  a1,
    stringy
    i64_ //
`doc` , }packet
/// triple
// a // b
x_y_z {	} options {
float // c
=float32 rootA= false ;
repeatCount// c
=  char[ 10 ]
; }	packet Z9_{zchar[007 ]
    //	t
    charz // c
,
} //x")).
Eval vm_compute in ("<<<M1306>>>" ++ check (runes_of_ascii "// top
packet // c0a
  // c0b
orderItem // c1a
  // c1b
{ u8 // c3
a // c4
, // c5a
  // c5b
}
    // c6
root packet // c8a
  // c8b
newOrder // c9a
  // c9b
{ orderItem // c11
, u8
    // c13
x // c14a
  // c14b
,
    // c15
} // c16
")).
Eval vm_compute in ("<<<M1496>>>" ++ check (runes_of_ascii "
packet
u128
    {
    @calculatedFrom(""a	b""  ) // packet A { u8 x, }
@leftPad

( ' '

)  //	t
  @lengthOf(

Header 	 // packet A { u8 x, }
)char[  10

] crc  @lengthOf(len
	) , } MetaData

    i8i8
{
	}
")).
Eval vm_compute in ("<<<M1843>>>" ++ check (runes_of_ascii "

  packet	A{

    match k as

    n  {
[ ""a"" ,

    22  , 
""c c"",4 ,

""e""
,  66

    , 
""g"" 
,

8	,""i"" ,

    10

    ,""k""

    ,

    12 ]
	:	B ,  2 
: C 
} , } ")).
Eval vm_compute in ("<<<M152>>>" ++ check (runes_of_ascii "packet T {
int u ,
@calculatedFrom( ""\" ++ [233]%N ++ runes_of_ascii """ ) // `tick` ""quote"" 'q'
repeat// @lengthOf(
string	x_y_z// a // b
,
uint32// `tick` ""quote"" 'q'
int `crlf
line` , }
")).
Eval vm_compute in ("<<<M521>>>" ++ check (runes_of_ascii "packet uint8x
{ match pack
    as msg_type	{
    0123456789 :	float
}
,
} packet //	t
a1
    { } options {packetx
    = '\x00'	; u128= ""a	b"" ""a	b""  ; }
")).
Eval vm_compute in ("<<<M446>>>" ++ check (runes_of_ascii "packet uint8x
{ match pack
    as msg_type	{
    0123456789 :	float
} }
,
} packet //	t
a1
    { } options {packetx
    = '\x00'	; u128= ""a	b""  ; }
")).
Eval vm_compute in ("<<<M1557>>>" ++ check (runes_of_ascii "

  packet
    // " ++ [27880; 37322]%N ++ runes_of_ascii "
  Logon{
repeatCount@lengthOf(
    roots	) , @tag(
	0	)
	repeat
zchar[
    007	]

    crc ,rootA 
a1
	`{ , }`
, 
string_`" ++ [233]%N ++ runes_of_ascii "`
	,
}")).
Eval vm_compute in ("<<<M527>>>" ++ check (runes_of_ascii "packet uint8x
{ match pack
    as msg_type	{
    0123456789 :	float
}
,
} packet //	t
a1
    { } options {packetx
    = '\x00'	; u128= ""a	b""  } ;
")).
Eval vm_compute in ("<<<M1810>>>" ++ check (runes_of_ascii "packet roots {
    // " ++ [27880; 37322]%N ++ runes_of_ascii "
    @tag(0)
    repeat zchar[0] x,
}

options {
    As = ""\" ++ [233]%N ++ runes_of_ascii """;
    pack = ' ';
    int = '\x00';
    options1 = ""`tick`"";
}")).
Eval vm_compute in ("<<<M705>>>" ++ check (runes_of_ascii "// @lengthOf(
packet i8i8 { u128 o , }
options { MetaDataX = true;
    BodyLength =""packet"" x_y_z= 007
crc //x
= = ""abc"" ;
    msg_type =
i16 }")).
Eval vm_compute in ("<<<M722>>>" ++ check (runes_of_ascii "// @lengthOf(
packet i8i8 { u128 o , }
options { MetaDataX = true;
    BodyLength =x_y_z ""packet""= 007
crc //x
= ""abc"" ;
    msg_type =
i16 }")).
Eval vm_compute in ("<<<M1792>>>" ++ check (runes_of_ascii "
MetaData leftPad

{ 
    // c

chars MetaDataX
, 
}	packet repeatCount 
{ char[ 255	]  uint8x	`" ++ [233]%N ++ runes_of_ascii "`,

    } MetaData
pack{  As
Foo, 
}
")).
Eval vm_compute in ("<<<M1433>>>" ++ check (runes_of_ascii "packet stringy {
}

MetaData u8x {
    zchar[65535] Pad,
    stringy string_ `u8 x,`,
    u8 lengthOf `
    `,
    char[255] pack,
}")).
Eval vm_compute in ("<<<M1941>>>" ++ check (runes_of_ascii "MetaData uint8x {
    char[007] leftPad,
    Pad T,
    u64 BodyLength,
    char[] int,
    float Z9_,
    float32 metadata,
}")).
Eval vm_compute in ("<<<M1141>>>" ++ check (runes_of_ascii "// c
MetaData leftPad { chars MetaDataX , } packet repeatCount { char[ 255 ] uint8x `" ++ [233]%N ++ runes_of_ascii "` , } MetaData pack { As Foo , }")).
Eval vm_compute in ("<<<M1174>>>" ++ check (runes_of_ascii "MetaData leftPad { chars MetaDataX , } packet repeatCount { char[ 255 ] uint8x `" ++ [233]%N ++ runes_of_ascii "` ,
// c
} MetaData pack { As Foo , }")).
Eval vm_compute in ("<<<M961>>>" ++ check (runes_of_ascii "packet A {
    u16 len @lengthOf(body) `tab
	x`,
    u32 crc @calculatedFrom(""CRC32"") `tab
	x`,
    string body,
}")).
Eval vm_compute in ("<<<M962>>>" ++ check (runes_of_ascii "packet A {
    Inner {
        u8 x `tab
	x`,
        Deep {
            u8 y `tab
	x`,
        },
    },
}")).
Eval vm_compute in ("<<<M867>>>" ++ check (runes_of_ascii "packet A {
  match k as n {
    [""a"", ""bb"", ""c c"", ""d"", ""e"", ""f"", ""g"", ""h"", ""i""] : B,
    2 : C
  },
}")).
Eval vm_compute in ("<<<M875>>>" ++ check (runes_of_ascii "packet A {
  match k as n {
    [""a"", ""bb"", 007, ""d"", ""e"", 66, ""g"", ""h"", 9] : B,
    2 : C
  },
}")).
Eval vm_compute in ("<<<M119>>>" ++ check (runes_of_ascii "packet u{ @tag(10 // a // b
) tag  @lengthOf( A
// " ++ [128512]%N ++ runes_of_ascii " emoji
// a // b
) , repeat options1 ,  }")).
Eval vm_compute in ("<<<M613>>>" ++ check (runes_of_ascii "
packet
    asx {match u128 as lengthOf
{
//	t
// `tick` ""quote"" 'q'
255 : x ,
    } } ,	}")).
Eval vm_compute in ("<<<M574>>>" ++ check (runes_of_ascii "
packet
    asx {match as u128 lengthOf
{
//	t
// `tick` ""quote"" 'q'
255 : x ,
    } ,	}")).
Eval vm_compute in ("<<<M577>>>" ++ check (runes_of_ascii "
packet
    asx {match u128  lengthOf
{
//	t
// `tick` ""quote"" 'q'
255 : x ,
    } ,	}")).
Eval vm_compute in ("<<<M567>>>" ++ check (runes_of_ascii "
packet
    asx { u128 as lengthOf
{
//	t
// `tick` ""quote"" 'q'
255 : x ,
    } ,	}")).
Eval vm_compute in ("<<<M1894>>>" ++ check (runes_of_ascii "packet A {
    match k as n {
        [1, ""bb"", 007] : B,
        2 : C,
    },
}")).
Eval vm_compute in ("<<<M820>>>" ++ check (runes_of_ascii "packet A {
  match k as n {
    [""a"", 22, ""c c"", 4, ""e""] : B
    2 : C
  },
}")).
Eval vm_compute in ("<<<M1754>>>" ++ check (runes_of_ascii "
root

packet string_  {  char[]

matchKey
    ,
} packet	x

    {  }
")).
Eval vm_compute in ("<<<M864>>>" ++ check (runes_of_ascii "packet A { Inner { match k as n { [1,22,007,4,5,66,7,8] : B, }, }, }")).
Eval vm_compute in ("<<<M782>>>" ++ check (runes_of_ascii "packet A {
  match k as n {
    [1, ""bb""] : B,
    2 : C
  },
}")).
Eval vm_compute in ("<<<M775>>>" ++ check (runes_of_ascii "packet A {
  match k as n {
    [""a""] : B,
    2 : C
  },
}")).
Eval vm_compute in ("<<<M1556>>>" ++ check (runes_of_ascii "
MetaData
M {
    u8 x
    `a
b`
,
T t`a
b` ,
	}

")).
Eval vm_compute in ("<<<M1214>>>" ++ check (runes_of_ascii "packet body { i32 f32a `{ , }` , }
// c
options { }")).
Eval vm_compute in ("<<<M284>>>" ++ check (runes_of_ascii "
options{ trueish=
'0' //	t
;a1 = u64
; }")).
Eval vm_compute in ("<<<M1066>>>" ++ check (runes_of_ascii "packet A {
    u8 x,    // c    u8 y,
}")).
Eval vm_compute in ("<<<M1626>>>" ++ check (runes_of_ascii "packet A {
    u8 x `a
        b`,
}")).
Eval vm_compute in ("<<<M958>>>" ++ check (runes_of_ascii "root packet A {
    u8 x `
x`,
}")).
Eval vm_compute in ("<<<M1003>>>" ++ check (runes_of_ascii "packet A {
 u8 x `d" ++ [8192]%N ++ runes_of_ascii "`, // c" ++ [8192]%N ++ runes_of_ascii "
}")).
Eval vm_compute in ("<<<M953>>>" ++ check (runes_of_ascii "packet A {
    u8 x `
x`,
}")).
Eval vm_compute in ("<<<M268>>>" ++ check (runes_of_ascii " // packet A { u8 x, }")).
Eval vm_compute in ("<<<M20>>>" ++ check (runes_of_ascii "packet MetaDataX { }")).
Eval vm_compute in ("<<<M977>>>" ++ check (runes_of_ascii "// c 
packet A {
}")).
Eval vm_compute in ("<<<M1059>>>" ++ check (runes_of_ascii "packet A {
}// c x")).
Eval vm_compute in ("<<<M1228>>>" ++ check (runes_of_ascii "packet x // c
{ }")).
Eval vm_compute in ("<<<M376>>>" ++ check (runes_of_ascii "
// " ++ [128512]%N ++ runes_of_ascii " emoji
")).
Eval vm_compute in ("<<<M1020>>>" ++ check (runes_of_ascii "// c" ++ [8239]%N)).
