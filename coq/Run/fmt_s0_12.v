From FP Require Import Lexer Parser ShowPT Digest Formatter.
From Coq Require Import String List NArith.
Import ListNotations.
Open Scope string_scope.
Set Printing Width 100000000.
Set Printing Depth 100000000.
Definition show_fres (r : fres) : string :=
  match r with
  | FOk s => "OK:" ++ sh_escaped s ""
  | FErr s => "ERR:" ++ sh_escaped s ""
  | FPanic p => "PANIC:" ++ p
  end.
Definition check (rs : list rune) : string := digest (show_fres (format_res rs)).
Definition full (rs : list rune) : string := show_fres (format_res rs).
Eval vm_compute in ("<<<M1345>>>" ++ check (runes_of_ascii "options { StringPrefixLenType
    // c2
= u16 // c4
; // c5a
  // c5b
ArrayPrefixLenType = // c7a
  // c7b
u32
    // c8
;
    // c9
FixedStringPadFromLeft = // c11a
  // c11b
true // c12
; // c13
FixedStringPadChar = // c15a
  // c15b
'0' // c16a
  // c16b
; // c17
} // c18
packet
    // c19
Cancel { } packet // c23a
  // c23b
Party // c24a
  // c24b
{ }
    // c26
packet
    // c27
Logon // c28a
  // c28b
{ // c29a
  // c29b
} packet // c31
Ack
    // c32
{ // c33a
  // c33b
}
    // c34
packet
    // c35
Logout // c36
{ repeat // c38a
  // c38b
InSym87 // c39
{ InClordid94 {
    // c42
string // c43
clOrdID // c44a
  // c44b
, // c45a
  // c45b
} // c46a
  // c46b
,
    // c47
string Px ,
    // c50
i16 // c51
Qty // c52
,
    // c53
repeat // c54a
  // c54b
InCount71 // c55
{ // c56
repeat // c57a
  // c57b
Cancel
    // c58
,
    // c59
uint16 // c60a
  // c60b
Tail // c61a
  // c61b
,
    // c62
char[ // c63a
  // c63b
2 // c64
]
    // c65
x // c66
,
    // c67
repeat string Ref , } // c72
,
    // c73
Cancel // c74a
  // c74b
, // c75a
  // c75b
} // c76a
  // c76b
, // c77
}
    // c78
root // c79
packet // c80
Order // c81a
  // c81b
{ repeat // c83a
  // c83b
string tag7 // c85
, @leftPad // c87a
  // c87b
( ' '
    // c89
) // c90a
  // c90b
char[
    // c91
3
    // c92
] // c93a
  // c93b
Px // c94
,
    // c95
u8
    // c96
Qty // c97
,
    // c98
match // c99a
  // c99b
Qty as // c101
Body // c102
{ // c103
[ // c104
28 // c105
, // c106
62 // c107
] // c108a
  // c108b
:
    // c109
Logon
    // c110
, 148 // c112
: // c113
Ack ,
    // c115
88 // c116a
  // c116b
: // c117
Party , 184 // c120
: // c121a
  // c121b
Cancel // c122
, // c123a
  // c123b
} // c124a
  // c124b
, // c125
u16 Note
    // c127
@calculatedFrom( ""CRC32"" // c129a
  // c129b
) // c130a
  // c130b
, } // c132
")).
Eval vm_compute in ("<<<M1415>>>" ++ check (runes_of_ascii "options {
    BodyLength = 3;// " ++ [128512]%N ++ runes_of_ascii " emoji
    T = ""packet"";
    // c
    // trailing space 
    crc = true;
    falsey = '\x00';
}

root packet A {
    @leftPad('0')
    char[65535] Header `" ++ [233]%N ++ runes_of_ascii "`,
    @rightPad('0')
    //
    a1 @lengthOf(msg_type),
    @lengthOf(rootA)
    match _x as stringy {
        ""CRC32"" : chars,
        3 : float,
        255 : asx,
        10 : tag,
    },
    @calculatedFrom(""" ++ [128512]%N ++ runes_of_ascii """)
    u32 u8x `crlf
        line`,
    repeat char[] asx `a\`,
    @rightPad('0')
    match f32a as Packet {
        [
            255, 007, 00, 4294967296, ""CRC32"",
            ""1"", ""packet""
        ] : calculatedFrom,
        ""packet"" : falsey,
        ""a\""b"" : body,
        7 : Packet,
        // " ++ [128512]%N ++ runes_of_ascii " emoji
        0123456789 : i64_,
        // a // b
        [4294967296, 0123456789] : options1,
    },
    crc @lengthOf(Foo),
    @calculatedFrom(""{,}"")
    @lengthOf(metadata)
    @lengthOf(i8i8)
    int64 options1 @calculatedFrom(""CRC32"") `line1
        line2`,// @lengthOf(
}

packet a1 {
    match lengthOf as x_y_z {
        ""it's"" : matchKey,
        10 : Packet,
        [""abc""] : A,
        10 : metadata,
    },
}

MetaData body {
    char string_,
    char[] x,
    len Pad,
    string leftPad,
}// trailing space")).
Eval vm_compute in ("<<<M1766>>>" ++ check (runes_of_ascii "root packet metadata {
    @lengthOf(options1)
    int32 zchar @calculatedFrom(""// no comment"") `
        `,
    repeat calculatedFrom `it's`,//
    match BodyLength as lengthOf {
        3 : leftPad,
    },
    repeat u128,
    char[10] chars,// @lengthOf(
    falsey @calculatedFrom(""x y"") `{ , }`,
    @tag(42)
    float64 i64_,
    u8x @calculatedFrom(""{,}"") `two words`,
    @lengthOf(T)
    char[255] pack `it's`,
    match MetaDataX as i64_ {
        //
        """ ++ [28040; 24687]%N ++ runes_of_ascii """ : Header,
        0 : x_y_z,
        3 : int,
        ""abc"" : u8x,
    },
}

packet i64_ {
    @rightPad()
    /// triple
    pack {
        match MetaDataX as trueish {
            1 : len,
            00 : falsey,
            """" : x,
        },
    },
    @tag(1)
    char[] int @lengthOf(metadata),
    a1 @lengthOf(calculatedFrom),
    @tag(7)
    tag @lengthOf(u),
    BodyLength @calculatedFrom(""it's"") `say ""hi""`,
    string msg_type,
}

MetaData Logon {
    BodyLength _x `it's`,
    int32 body,
}

root packet body {
}")).
Eval vm_compute in ("<<<M1368>>>" ++ check (runes_of_ascii "// top
options
    // c0
{ // c1
LittleEndian =
    // c3
true
    // c4
; // c5a
  // c5b
} // c6
packet // c7a
  // c7b
Logon // c8a
  // c8b
{ u8
    // c10
x // c11a
  // c11b
, // c12
} // c13a
  // c13b
packet // c14a
  // c14b
Logout // c15
{
    // c16
u16
    // c17
reason
    // c18
, // c19a
  // c19b
}
    // c20
root packet Frame { // c24
u16 // c25a
  // c25b
Kind // c26
, // c27a
  // c27b
u16
    // c28
Kind2 // c29a
  // c29b
, match Kind
    // c32
as // c33
Body // c34
{
    // c35
1 : // c37
Logon // c38a
  // c38b
,
    // c39
[ // c40
2 , // c42
3
    // c43
, // c44
4 ] :
    // c47
Logout
    // c48
, // c49
100
    // c50
:
    // c51
Logon // c52a
  // c52b
,
    // c53
} , match Kind2 // c57a
  // c57b
as
    // c58
Trailer // c59
{ // c60
0 // c61a
  // c61b
: // c62
Logout // c63a
  // c63b
,
    // c64
} // c65a
  // c65b
,
    // c66
} // c67
")).
Eval vm_compute in ("<<<M298>>>" ++ check (runes_of_ascii "
options  { } options
    {  uint8x =
// @lengthOf(
// " ++ [27880; 37322]%N ++ runes_of_ascii "
42 uint8x = /// triple
""abc"" ; //x
_x='0'
    }
    packet u8x
    { zchar[ 1 ] As
`crlf
line`, match metadata as float  { ""packet"" ://
trueish , } , repeat
rootA
, repeat metadata repeatCount// trailing space 
, @rightPad( // `tick` ""quote"" 'q'
'0') i64 body `// not a comment`
, @tag( 1) string string_
    `line1
line2` ,
uint8 u8x`" ++ [28040; 24687; 31867; 22411]%N ++ runes_of_ascii "` ,
packetx u128,	u tag , repeat Logon zchar
`` ,  }packet zchar
{
    }	packet	MetaDataX { @lengthOf(
Packet ) repeatCount  int
`doc` , @tag(
7 ) packetx @calculatedFrom( ""a\""b""// c
) , match msg_type as x { ""\n"" : calculatedFrom }, //x
@leftPad (// packet A { u8 x, }
'\x00')@lengthOf( MetaDataX // c
)
    // a // b
    char[007
] a1`tab	here`, As
    @calculatedFrom( ""`tick`"") `// not a comment`,} 	 ")).
Eval vm_compute in ("<<<M1693>>>" ++ check (runes_of_ascii "MetaData len {
    i8 _x ``,
    zchar[00] tag,
    roots u,
    uint16 repeatCount,
    msg_type tag,
}

packet x_y_z {
    metadata {
        i8i8 chars,
        i64 chars,
    },
    repeat u16 asx,
}

packet u8x {
    @lengthOf(BodyLength)
    @leftPad()
    float `
    `,
    @calculatedFrom(""// no comment"")
    float32 chars `// not a comment`,
    uint32 u128,
    @tag(0)
    int16 tag,
    leftPad msg_type,// trailing space 
    pack `tab	here`,
    @lengthOf(repeatCount)
    zchar[4294967296] len,
    i32 packetx `tab	here`,
    calculatedFrom,
    metadata @calculatedFrom(""// no comment""),
}

options {
    // trailing space 
    options1 = 42;
    i64_ = char[]
    falsey = 42// a // b
    Packet = true;
}")).
Eval vm_compute in ("<<<M1561>>>" ++ check (runes_of_ascii "
//x

root  
      // " ++ [128512]%N ++ runes_of_ascii " emoji
    packet 
// `tick` ""quote"" 'q'

	/// triple
float { 
options1
A ,
@tag( 42
) u8x
{tag//x
    	@calculatedFrom(""\" ++ [233]%N ++ runes_of_ascii """

    ) 	 // packet A { u8 x, }
	`tab	here`	, }, int16 
asx ,@lengthOf(	o) @rightPad

    (
)repeat int

/// triple
		/// triple

Logon
,  @calculatedFrom(
	""// no comment"")
	@leftPad  ( '\x00' 
) @rightPad

('0'
)
    zchar[ 65535	//x
    	]
o`
`

, repeat As
	{ 	 //x
  repeat

uint16
    o
	,
    repeat
char[ 	 // trailing space 
1	]  o	,

    u128

    metadata

    , 
repeat
	char[7 ] Header,	}
,@tag(
0123456789

)a1
tag
    ,float32
asx
	, repeat // packet A { u8 x, }
	  len ``
    ,	} ")).
Eval vm_compute in ("<<<M208>>>" ++ check (runes_of_ascii "packet // packet A { u8 x, }
u8x {}root packet
    matchKey{
repeat zchar[ 0123456789 ] // packet A { u8 x, }
int , char[
// `tick` ""quote"" 'q'
// a // b
4294967296 ]
asx `{ , }`
    ,
repeat i8i8, repeat Packet { repeat
    leftPad {	f32 u128
@lengthOf(As ), body`two words` ,// packet A { u8 x, }
rootA Pad , } , char[ 00
] msg_type `tab	here` // " ++ [128512]%N ++ runes_of_ascii " emoji
,
    repeat
    //x
    i64_ `doc` , zchar x_y_z ,}
,
}
root
packet int {
repeat f32a {repeat f32a  asx
`u8 x,` ,} ,@lengthOf(
// @lengthOf(
//	t
msg_type// packet A { u8 x, }
) body ,
// c
//
Z9_ // c
zchar `a\` //x
, } //x")).
Eval vm_compute in ("<<<M65>>>" ++ check (runes_of_ascii "packet leftPad {
match A as x {""`tick`""
    : MetaDataX //
, [""it's""
,""\n"" ,
""" ++ [28040; 24687]%N ++ runes_of_ascii """ ] :
string_ , 0123456789 : o ,
[
""{,}"", ""x y"" ]
:uint8x	} , char[3	] msg_type// " ++ [128512]%N ++ runes_of_ascii " emoji
@lengthOf( u
//	t
// " ++ [27880; 37322]%N ++ runes_of_ascii "
)`two words` ,
    // c
    repeat
    int
// packet A { u8 x, }
// @lengthOf(
Foo ,
@rightPad
(
    )
@rightPad
( ' ' )
    Foo charz`{ , }`, }
MetaData A {
zchar[
0 ]A `{ , }`
    , float32 a1
    //
    ,
    char[]  pack , /// triple
string body `" ++ [233]%N ++ runes_of_ascii "` , string chars `doc` , int _x`two words`
,} options { Z9_ =
    uint16 ; }")).
Eval vm_compute in ("<<<M334>>>" ++ check (runes_of_ascii "MetaData pack {
int16 rootA `{ , }` ,
    //	t
    int16 // c
x,// " ++ [27880; 37322]%N ++ runes_of_ascii "
u32 msg_type,
    }
packet i64_
    {// trailing space 
@leftPad
    ( '0') @rightPad ( '\x00' // packet A { u8 x, }
)
@lengthOf(options1	)
    string body @lengthOf( asx) `" ++ [233]%N ++ runes_of_ascii "` ,
    }
options { msg_type
    //	t
    = 00//
;} MetaData
    stringy// c
{
    zchar MetaDataX `line1
line2` , char[255] len `it's` , f32 pack ,
    uint16 Foo
`it's` , int16 i64_`two words` ,
    // `tick` ""quote"" 'q'
    }")).
Eval vm_compute in ("<<<M1563>>>" ++ check (runes_of_ascii "packet 
rootA  { repeat uint16
stringy	`" ++ [233]%N ++ runes_of_ascii "`	,
    body
	@lengthOf( stringy )
,	int32
    matchKey	// " ++ [27880; 37322]%N ++ runes_of_ascii "

,	@lengthOf( roots
)@calculatedFrom(
""a\""b"")
@leftPad (
    ' ' 
)i64 leftPad @lengthOf( repeatCount ) 
`u8 x,`

, //	t
	f64 len
@lengthOf(
	BodyLength  // trailing space 
)

    `// not a comment`,@rightPad
	( )
    @leftPad

(

'0')repeat string
    len  ,// c
	char[]

    chars `two words` ,
} //	t
 
")).
Eval vm_compute in ("<<<M1259>>>" ++ check (runes_of_ascii "// top
packet // c0
B // c1a
  // c1b
{ // c2
u8 // c3a
  // c3b
a // c4
, } // c6
root // c7a
  // c7b
packet // c8a
  // c8b
P { // c10
u8
    // c11
K , // c13
u8 // c14a
  // c14b
L // c15a
  // c15b
@lengthOf( // c16a
  // c16b
Body )
    // c18
, match // c20
K as // c22a
  // c22b
Body
    // c23
{ 1 :
    // c26
B // c27
, }
    // c29
,
    // c30
}
    // c31
")).
Eval vm_compute in ("<<<M1651>>>" ++ check (runes_of_ascii "

  packet
    A
    { 
u8

    a ,
	}
    packet
B
{	u16

    b
	,

}packet

    C  { u32 c
	, 
}

root	packet  M {	u16

Kc

    ,

u16
Kb, u16
Ka	,

    match
Kc 
as
	X

{ 9

    :
    A, 
10 
:
	B	, }	,	match 
Kb 
as 
Y
{

2 :
C 
, 1

    : A
, } ,
match
Ka as	Z {1 :

    B
,}

    ,

    A
	,
	B
    ,

C	,}
")).
Eval vm_compute in ("<<<M57>>>" ++ check (runes_of_ascii "packet	tag { }
packet falsey
    { string charz @lengthOf(
    zchar ) ,
string // trailing space 
u @calculatedFrom( """ ++ [233]%N ++ runes_of_ascii "t" ++ [233]%N ++ runes_of_ascii """	) `// not a comment`
, @leftPad( '0' )
char[] leftPad @calculatedFrom(
    ""a	b"")`// not a comment` , @calculatedFrom(
    ""`tick`"" )
    @lengthOf(roots
) repeat MetaDataX
, }

")).
Eval vm_compute in ("<<<M130>>>" ++ check (runes_of_ascii "packet zchar { @lengthOf( a1
// " ++ [128512]%N ++ runes_of_ascii " emoji
//	t
) i64_ @lengthOf( Header )
`" ++ [28040; 24687; 31867; 22411]%N ++ runes_of_ascii "`, charz`" ++ [233]%N ++ runes_of_ascii "` , char[007] i64_ , tag  { u16  matchKey // " ++ [27880; 37322]%N ++ runes_of_ascii "
,match Pad as lengthOf { [""CRC32"" ,	""abc""
] : Packet
,	}
, }
    , } MetaData body {char[
    10 ]u128
    `doc`
    ,
/// triple
//x
} //x")).
Eval vm_compute in ("<<<M308>>>" ++ check (runes_of_ascii "options { pack// `tick` ""quote"" 'q'
= 0123456789
}
packet metadata { @leftPad ( ' ' ) stringy
@lengthOf( _x )
    , repeat	u8
int
    `{ , }` ,
@leftPad //	t
('0' ) repeat char msg_type `it's`,
} MetaData x_y_z { // trailing space 
}")).
Eval vm_compute in ("<<<M1429>>>" ++ check (runes_of_ascii "root
packet
// `tick` ""quote"" 'q'

  string_
	{  repeat char[ 00

    ]

    rootA ,  
  // " ++ [128512]%N ++ runes_of_ascii " emoji

  // " ++ [27880; 37322]%N ++ runes_of_ascii "

  }MetaData u	{i32	options1  ,
    }
MetaData rootA { u16
chars ,
	/// triple
	//x
}

")).
Eval vm_compute in ("<<<M186>>>" ++ check (runes_of_ascii "root packet packetx	{	char[ 1 ]chars @calculatedFrom(
""packet"" ) `say ""hi""` ,} options
    // trailing space 
    { asx
    // a // b
    = 65535 u = float64 repeatCount  =""\" ++ [233]%N ++ runes_of_ascii """}
")).
Eval vm_compute in ("<<<M60>>>" ++ check (runes_of_ascii "root packet _x
{ uint32 trueish @calculatedFrom( ""1"" ) `crlf
line`
,  }
    //
    packet	Header { repeat u64
stringy `// not a comment` , float32  msg_type ,}
")).
Eval vm_compute in ("<<<M458>>>" ++ check (runes_of_ascii "packet uint8x
{ match pack
    as msg_type	{
    0123456789 :	float
}
,
char[] packet //	t
a1
    { } options {packetx
    = '\x00'	; u128= ""a	b""  ; }
")).
Eval vm_compute in ("<<<M476>>>" ++ check (runes_of_ascii "packet uint8x
{ match pack
    as msg_type	{
    0123456789 :	float
}
,
} packet //	t
a1
    { } } options {packetx
    = '\x00'	; u128= ""a	b""  ; }
")).
Eval vm_compute in ("<<<M397>>>" ++ check (runes_of_ascii "packet {
uint8x match pack
    as msg_type	{
    0123456789 :	float
}
,
} packet //	t
a1
    { } options {packetx
    = '\x00'	; u128= ""a	b""  ; }
")).
Eval vm_compute in ("<<<M1241>>>" ++ check (runes_of_ascii "// top
root
    // c0
packet // c1
P // c2a
  // c2b
{ // c3
char
    // c4
c // c5a
  // c5b
, // c6a
  // c6b
u8
    // c7
x // c8
, // c9
} // c10
")).
Eval vm_compute in ("<<<M408>>>" ++ check (runes_of_ascii "packet uint8x
{ i8 pack
    as msg_type	{
    0123456789 :	float
}
,
} packet //	t
a1
    { } options {packetx
    = '\x00'	; u128= ""a	b""  ; }
")).
Eval vm_compute in ("<<<M395>>>" ++ check (runes_of_ascii "packet 
{ match pack
    as msg_type	{
    0123456789 :	float
}
,
} packet //	t
a1
    { } options {packetx
    = '\x00'	; u128= ""a	b""  ; }
")).
Eval vm_compute in ("<<<M722>>>" ++ check (runes_of_ascii "// @lengthOf(
packet i8i8 { u128 o , }
options { MetaDataX = true;
    BodyLength =x_y_z ""packet""= 007
crc //x
= ""abc"" ;
    msg_type =
i16 }")).
Eval vm_compute in ("<<<M329>>>" ++ check (runes_of_ascii "  packet calculatedFrom
{ uint8x {body `line1
line2`
, string crc
@lengthOf(uint8x// " ++ [128512]%N ++ runes_of_ascii " emoji
) , char[]As@lengthOf(	Pad )
    , } , }
")).
Eval vm_compute in ("<<<M514>>>" ++ check (runes_of_ascii "packet uint8x
{ match pack
    as msg_type	{
    0123456789 :	float
}
,
} packet //	t
a1
    { } options {packetx
    = '\x00'	;")).
Eval vm_compute in ("<<<M1617>>>" ++ check (runes_of_ascii "packet A {
    u16 len @lengthOf(body) `tab
    	x`,
    u32 crc @calculatedFrom(""CRC32"") `tab
    	x`,
    string body,
}")).
Eval vm_compute in ("<<<M1159>>>" ++ check (runes_of_ascii "MetaData leftPad { chars MetaDataX , } packet repeatCount // c
{ char[ 255 ] uint8x `" ++ [233]%N ++ runes_of_ascii "` , } MetaData pack { As Foo , }")).
Eval vm_compute in ("<<<M102>>>" ++ check (runes_of_ascii "packet
    // " ++ [128512]%N ++ runes_of_ascii " emoji
    body {match Logon  as _x
    {
4294967296
// a // b
//x
:
_x , """ ++ [28040; 24687]%N ++ runes_of_ascii """
    : u128
    ,} , }
")).
Eval vm_compute in ("<<<M290>>>" ++ check (runes_of_ascii "options {
    /// triple
    asx // " ++ [27880; 37322]%N ++ runes_of_ascii "
= 3 } MetaData T
{  f32/// triple
Pad `u8 x,` , } // `tick` ""quote"" 'q'")).
Eval vm_compute in ("<<<M909>>>" ++ check (runes_of_ascii "packet A {
  match k as n {
    [1, ""bb"", 007, ""d"", 5, ""f"", 7, ""h"", 9, ""j"", 11, ""l""] : B
    2 : C
  },
}")).
Eval vm_compute in ("<<<M160>>>" ++ check (runes_of_ascii "
MetaData zchar { roots
A , char[] falsey `line1
line2` ,
// " ++ [128512]%N ++ runes_of_ascii " emoji
// @lengthOf(
int crc ,	} //	t")).
Eval vm_compute in ("<<<M855>>>" ++ check (runes_of_ascii "packet A {
  match k as n {
    [""a"", ""bb"", ""c c"", ""d"", ""e"", ""f"", ""g"", ""h""] : B
    2 : C
  },
}")).
Eval vm_compute in ("<<<M1819>>>" ++ check (runes_of_ascii "packet 
metadata
	{
	u32  // `tick` ""quote"" 'q'
  Packet `say ""hi""` ,
// trailing space 

	}")).
Eval vm_compute in ("<<<M632>>>" ++ check (runes_of_ascii "
packet
    asx {match u128 a|s lengthOf
{
//	t
// `tick` ""quote"" 'q'
255 : x ,
    } ,	}")).
Eval vm_compute in ("<<<M1741>>>" ++ check (runes_of_ascii "MetaData crc {
    Pad T,
    zchar[0123456789] a1,
    int8 trueish,
}

packet float {
}")).
Eval vm_compute in ("<<<M1700>>>" ++ check (runes_of_ascii "packet A {
    match k as n {
        [1, 007, ""bb"", ""d""] : B,
        2 : C,
    },
}")).
Eval vm_compute in ("<<<M1903>>>" ++ check (runes_of_ascii "// top
packet body {
    // c2
    i32 f32a `{ , }`,// c6
}// c7

options {
}// c10")).
Eval vm_compute in ("<<<M1771>>>" ++ check (runes_of_ascii "packet A {
    match k as n {
        [1, 22, 007] : B,
        2 : C,
    },
}")).
Eval vm_compute in ("<<<M1587>>>" ++ check (runes_of_ascii "options {
    charz = ""1""
    _x = """ ++ [128512]%N ++ runes_of_ascii """
    u = string;
    stringy = """ ++ [28040; 24687]%N ++ runes_of_ascii """
}")).
Eval vm_compute in ("<<<M1842>>>" ++ check (runes_of_ascii "packet A {
    B b `
    x`,
    B `
    x`,
    repeat B bs `
    x`,
}")).
Eval vm_compute in ("<<<M787>>>" ++ check (runes_of_ascii "packet A {
  match k as n {
    [1, 22, 007] : B,
    2 : C
  },
}")).
Eval vm_compute in ("<<<M444>>>" ++ check (runes_of_ascii "packet uint8x
{ match pack
    as msg_type	{
    0123456789 :")).
Eval vm_compute in ("<<<M776>>>" ++ check (runes_of_ascii "packet A {
  match k as n {
    [""a""] : B
    2 : C
  },
}")).
Eval vm_compute in ("<<<M1219>>>" ++ check (runes_of_ascii "packet body { i32 f32a `{ , }` , } options { } // c
")).
Eval vm_compute in ("<<<M1588>>>" ++ check (runes_of_ascii "root 
packet
    A
	{u8 x

    `a
    b
  c` , }")).
Eval vm_compute in ("<<<M47>>>" ++ check (runes_of_ascii "MetaData	lengthOf
{
Header o `doc`
    ,}
")).
Eval vm_compute in ("<<<M591>>>" ++ check (runes_of_ascii "
packet
    asx {match u128 as lengthOf")).
Eval vm_compute in ("<<<M197>>>" ++ check (runes_of_ascii "
options {u8x
=
    ""packet"" ;	}
")).
Eval vm_compute in ("<<<M1839>>>" ++ check (runes_of_ascii "packet A {
    // a
    u8 x,
}")).
Eval vm_compute in ("<<<M757>>>" ++ check (runes_of_ascii "z>" ++ [65533]%N ++ runes_of_ascii "*" ++ [65533]%N ++ runes_of_ascii "7" ++ [65533; 65533; 65533; 65533]%N ++ runes_of_ascii "+" ++ [65533]%N ++ runes_of_ascii "~" ++ [65533; 0; 65533; 65533]%N ++ runes_of_ascii "c" ++ [1171]%N ++ runes_of_ascii "n" ++ [65533; 65533; 65533; 12; 65533]%N ++ runes_of_ascii "E>K")).
Eval vm_compute in ("<<<M380>>>" ++ check (runes_of_ascii "root packet	Packet { }
")).
Eval vm_compute in ("<<<M1109>>>" ++ check (runes_of_ascii "MetaData tag { // c
}")).
Eval vm_compute in ("<<<M103>>>" ++ check (runes_of_ascii "packet packetx	{ }")).
Eval vm_compute in ("<<<M1047>>>" ++ check (runes_of_ascii "// c" ++ [8203]%N ++ runes_of_ascii "
packet A {
}")).
Eval vm_compute in ("<<<M1049>>>" ++ check (runes_of_ascii "packet A {
}// c" ++ [65279]%N)).
Eval vm_compute in ("<<<M297>>>" ++ check (runes_of_ascii "// " ++ [128512]%N ++ runes_of_ascii " emoji


")).
Eval vm_compute in ("<<<M985>>>" ++ check (runes_of_ascii "// c" ++ [160]%N)).
Eval vm_compute in ("<<<M745>>>" ++ check ([65533]%N ++ runes_of_ascii "1")).
