From FP Require Import Lexer Parser ShowPT Digest Formatter.
From Coq Require Import String List NArith.
Import ListNotations.
Open Scope string_scope.
Set Printing Width 100000000.
Set Printing Depth 100000000.
Definition show_fres (r : fres) : string :=
  match r with
  | FOk s => "OK:" ++ sh_escaped s ""
  | FErr s => "ERR:" ++ sh_escaped s ""
  | FPanic p => "PANIC:" ++ p
  end.
Definition check (rs : list rune) : string := digest (show_fres (format_res rs)).
Definition full (rs : list rune) : string := show_fres (format_res rs).
Eval vm_compute in ("<<<M1345>>>" ++ check (runes_of_ascii "options { StringPrefixLenType
    // c2
= u16 // c4
; // c5a
  // c5b
ArrayPrefixLenType = // c7a
  // c7b
u32
    // c8
;
    // c9
FixedStringPadFromLeft = // c11a
  // c11b
true // c12
; // c13
FixedStringPadChar = // c15a
  // c15b
'0' // c16a
  // c16b
; // c17
} // c18
packet
    // c19
Cancel { } packet // c23a
  // c23b
Party // c24a
  // c24b
{ }
    // c26
packet
    // c27
Logon // c28a
  // c28b
{ // c29a
  // c29b
} packet // c31
Ack
    // c32
{ // c33a
  // c33b
}
    // c34
packet
    // c35
Logout // c36
{ repeat // c38a
  // c38b
InSym87 // c39
{ InClordid94 {
    // c42
string // c43
clOrdID // c44a
  // c44b
, // c45a
  // c45b
} // c46a
  // c46b
,
    // c47
string Px ,
    // c50
i16 // c51
Qty // c52
,
    // c53
repeat // c54a
  // c54b
InCount71 // c55
{ // c56
repeat // c57a
  // c57b
Cancel
    // c58
,
    // c59
uint16 // c60a
  // c60b
Tail // c61a
  // c61b
,
    // c62
char[ // c63a
  // c63b
2 // c64
]
    // c65
x // c66
,
    // c67
repeat string Ref , } // c72
,
    // c73
Cancel // c74a
  // c74b
, // c75a
  // c75b
} // c76a
  // c76b
, // c77
}
    // c78
root // c79
packet // c80
Order // c81a
  // c81b
{ repeat // c83a
  // c83b
string tag7 // c85
, @leftPad // c87a
  // c87b
( ' '
    // c89
) // c90a
  // c90b
char[
    // c91
3
    // c92
] // c93a
  // c93b
Px // c94
,
    // c95
u8
    // c96
Qty // c97
,
    // c98
match // c99a
  // c99b
Qty as // c101
Body // c102
{ // c103
[ // c104
28 // c105
, // c106
62 // c107
] // c108a
  // c108b
:
    // c109
Logon
    // c110
, 148 // c112
: // c113
Ack ,
    // c115
88 // c116a
  // c116b
: // c117
Party , 184 // c120
: // c121a
  // c121b
Cancel // c122
, // c123a
  // c123b
} // c124a
  // c124b
, // c125
u16 Note
    // c127
@calculatedFrom( ""CRC32"" // c129a
  // c129b
) // c130a
  // c130b
, } // c132
")).
Eval vm_compute in ("<<<M1415>>>" ++ check (runes_of_ascii "options {
    BodyLength = 3;// " ++ [128512]%N ++ runes_of_ascii " emoji
    T = ""packet"";
    // c
    // trailing space 
    crc = true;
    falsey = '\x00';
}

root packet A {
    @leftPad('0')
    char[65535] Header `" ++ [233]%N ++ runes_of_ascii "`,
    @rightPad('0')
    //
    a1 @lengthOf(msg_type),
    @lengthOf(rootA)
    match _x as stringy {
        ""CRC32"" : chars,
        3 : float,
        255 : asx,
        10 : tag,
    },
    @calculatedFrom(""" ++ [128512]%N ++ runes_of_ascii """)
    u32 u8x `crlf
        line`,
    repeat char[] asx `a\`,
    @rightPad('0')
    match f32a as Packet {
        [
            255, 007, 00, 4294967296, ""CRC32"",
            ""1"", ""packet""
        ] : calculatedFrom,
        ""packet"" : falsey,
        ""a\""b"" : body,
        7 : Packet,
        // " ++ [128512]%N ++ runes_of_ascii " emoji
        0123456789 : i64_,
        // a // b
        [4294967296, 0123456789] : options1,
    },
    crc @lengthOf(Foo),
    @calculatedFrom(""{,}"")
    @lengthOf(metadata)
    @lengthOf(i8i8)
    int64 options1 @calculatedFrom(""CRC32"") `line1
        line2`,// @lengthOf(
}

packet a1 {
    match lengthOf as x_y_z {
        ""it's"" : matchKey,
        10 : Packet,
        [""abc""] : A,
        10 : metadata,
    },
}

MetaData body {
    char string_,
    char[] x,
    len Pad,
    string leftPad,
}// trailing space")).
Eval vm_compute in ("<<<M1762>>>" ++ check (runes_of_ascii "packet
pack
	{ @lengthOf(
Foo 
    // c
    )asx
@lengthOf( 
_x

    )/// triple
  	, u8
x_y_z	`two words`,	repeat zchar[ 0]	roots
`
` 
      // `tick` ""quote"" 'q'
	,

lengthOf  @calculatedFrom( 
""abc""
    )
,@tag(	3 
) 
@rightPad ( 
' ') @calculatedFrom(

    ""1"" 
  //x
  // " ++ [27880; 37322]%N ++ runes_of_ascii "
  ) repeat

uint64 i64_  // trailing space 
  `say ""hi""`  // @lengthOf(

	,
@tag(	007 )match
	roots as  float { ""a	b"":
    lengthOf  ,  [ 
1
,  // @lengthOf(

""\n""
    ,	""a\""b""
    , ""\" ++ [233]%N ++ runes_of_ascii """
    , ""1""
	,	42

    ] 
:
    msg_type
    ,
""" ++ [128512]%N ++ runes_of_ascii """:
	Foo 
} 
,
T //x
{
match
Header as	trueish
{ [ 
  // `tick` ""quote"" 'q'
	// @lengthOf(
  0
,
	3// @lengthOf(
,
""{,}"" ,
	""1""  , 00 
,

0123456789,
""// no comment"" 
]

:As
    ,
    }  ,}

    ,  repeat	char[
10
    ]

    o`
`

    ,@calculatedFrom(  
      //
  ""`tick`""//x
	  ) repeat
crc { repeatCount o	,
u8x
	As 
,
	}

, 
}packet pack {  @calculatedFrom(
    """ ++ [233]%N ++ runes_of_ascii "t" ++ [233]%N ++ runes_of_ascii """

) 
u32	f32a,}

    MetaData float { u32
    options1	, }
	packet
f32a
{  }
")).
Eval vm_compute in ("<<<M1920>>>" ++ check (runes_of_ascii "packet i8i8 {
    @tag(0)
    int32 leftPad `it's`,
    repeat char[] Header `crlf
    line`,
    @calculatedFrom(""\" ++ [233]%N ++ runes_of_ascii """)
    /// triple
    repeat uint8 float,
    @rightPad('\x00')
    char[] zchar @lengthOf(leftPad) `
    `,
    Z9_,
    @lengthOf(x)
    match As as tag {
        ""a	b"" : string_,
        [
            10, 7, 255, 3, 42,
            0123456789, ""1"", """ ++ [128512]%N ++ runes_of_ascii """
        ] : x_y_z,
        ""CRC32"" : Z9_,
        00 : Logon,
    },
    @tag(007)
    o {
        char Packet @lengthOf(repeatCount),
    },
    @lengthOf(pack)
    float64 rootA `two words`,
    repeat char[] BodyLength,
}

packet Z9_ {
    match As as a1 {
        //
        0 : trueish,
    },
}

root packet u8x {
    /// triple
    // " ++ [128512]%N ++ runes_of_ascii " emoji
    repeat string Logon `tab	here`,// " ++ [128512]%N ++ runes_of_ascii " emoji
}

options {
    _x = ""packet"";
    f32a = 007
}

packet i8i8 {
    @calculatedFrom(""CRC32"")
    A @lengthOf(a1),
}")).
Eval vm_compute in ("<<<M298>>>" ++ check (runes_of_ascii "
options  { } options
    {  uint8x =
// @lengthOf(
// " ++ [27880; 37322]%N ++ runes_of_ascii "
42 uint8x = /// triple
""abc"" ; //x
_x='0'
    }
    packet u8x
    { zchar[ 1 ] As
`crlf
line`, match metadata as float  { ""packet"" ://
trueish , } , repeat
rootA
, repeat metadata repeatCount// trailing space 
, @rightPad( // `tick` ""quote"" 'q'
'0') i64 body `// not a comment`
, @tag( 1) string string_
    `line1
line2` ,
uint8 u8x`" ++ [28040; 24687; 31867; 22411]%N ++ runes_of_ascii "` ,
packetx u128,	u tag , repeat Logon zchar
`` ,  }packet zchar
{
    }	packet	MetaDataX { @lengthOf(
Packet ) repeatCount  int
`doc` , @tag(
7 ) packetx @calculatedFrom( ""a\""b""// c
) , match msg_type as x { ""\n"" : calculatedFrom }, //x
@leftPad (// packet A { u8 x, }
'\x00')@lengthOf( MetaDataX // c
)
    // a // b
    char[007
] a1`tab	here`, As
    @calculatedFrom( ""`tick`"") `// not a comment`,} 	 ")).
Eval vm_compute in ("<<<M1693>>>" ++ check (runes_of_ascii "MetaData len {
    i8 _x ``,
    zchar[00] tag,
    roots u,
    uint16 repeatCount,
    msg_type tag,
}

packet x_y_z {
    metadata {
        i8i8 chars,
        i64 chars,
    },
    repeat u16 asx,
}

packet u8x {
    @lengthOf(BodyLength)
    @leftPad()
    float `
    `,
    @calculatedFrom(""// no comment"")
    float32 chars `// not a comment`,
    uint32 u128,
    @tag(0)
    int16 tag,
    leftPad msg_type,// trailing space 
    pack `tab	here`,
    @lengthOf(repeatCount)
    zchar[4294967296] len,
    i32 packetx `tab	here`,
    calculatedFrom,
    metadata @calculatedFrom(""// no comment""),
}

options {
    // trailing space 
    options1 = 42;
    i64_ = char[]
    falsey = 42// a // b
    Packet = true;
}")).
Eval vm_compute in ("<<<M1561>>>" ++ check (runes_of_ascii "
//x

root  
      // " ++ [128512]%N ++ runes_of_ascii " emoji
    packet 
// `tick` ""quote"" 'q'

	/// triple
float { 
options1
A ,
@tag( 42
) u8x
{tag//x
    	@calculatedFrom(""\" ++ [233]%N ++ runes_of_ascii """

    ) 	 // packet A { u8 x, }
	`tab	here`	, }, int16 
asx ,@lengthOf(	o) @rightPad

    (
)repeat int

/// triple
		/// triple

Logon
,  @calculatedFrom(
	""// no comment"")
	@leftPad  ( '\x00' 
) @rightPad

('0'
)
    zchar[ 65535	//x
    	]
o`
`

, repeat As
	{ 	 //x
  repeat

uint16
    o
	,
    repeat
char[ 	 // trailing space 
1	]  o	,

    u128

    metadata

    , 
repeat
	char[7 ] Header,	}
,@tag(
0123456789

)a1
tag
    ,float32
asx
	, repeat // packet A { u8 x, }
	  len ``
    ,	} ")).
Eval vm_compute in ("<<<M208>>>" ++ check (runes_of_ascii "packet // packet A { u8 x, }
u8x {}root packet
    matchKey{
repeat zchar[ 0123456789 ] // packet A { u8 x, }
int , char[
// `tick` ""quote"" 'q'
// a // b
4294967296 ]
asx `{ , }`
    ,
repeat i8i8, repeat Packet { repeat
    leftPad {	f32 u128
@lengthOf(As ), body`two words` ,// packet A { u8 x, }
rootA Pad , } , char[ 00
] msg_type `tab	here` // " ++ [128512]%N ++ runes_of_ascii " emoji
,
    repeat
    //x
    i64_ `doc` , zchar x_y_z ,}
,
}
root
packet int {
repeat f32a {repeat f32a  asx
`u8 x,` ,} ,@lengthOf(
// @lengthOf(
//	t
msg_type// packet A { u8 x, }
) body ,
// c
//
Z9_ // c
zchar `a\` //x
, } //x")).
Eval vm_compute in ("<<<M65>>>" ++ check (runes_of_ascii "packet leftPad {
match A as x {""`tick`""
    : MetaDataX //
, [""it's""
,""\n"" ,
""" ++ [28040; 24687]%N ++ runes_of_ascii """ ] :
string_ , 0123456789 : o ,
[
""{,}"", ""x y"" ]
:uint8x	} , char[3	] msg_type// " ++ [128512]%N ++ runes_of_ascii " emoji
@lengthOf( u
//	t
// " ++ [27880; 37322]%N ++ runes_of_ascii "
)`two words` ,
    // c
    repeat
    int
// packet A { u8 x, }
// @lengthOf(
Foo ,
@rightPad
(
    )
@rightPad
( ' ' )
    Foo charz`{ , }`, }
MetaData A {
zchar[
0 ]A `{ , }`
    , float32 a1
    //
    ,
    char[]  pack , /// triple
string body `" ++ [233]%N ++ runes_of_ascii "` , string chars `doc` , int _x`two words`
,} options { Z9_ =
    uint16 ; }")).
Eval vm_compute in ("<<<M1520>>>" ++ check (runes_of_ascii "packet Logon {
    repeatCount {
        BodyLength `crlf
                line`,
    },
    zchar a1 `u8 x,`,
    match Foo as Foo {
        ""\n"" : i8i8,
        [""abc"", ""CRC32""] : crc,
        [
            3, 42, 1, 255, ""x y"",
            ""`tick`"", ""a\""b"", ""CRC32""
        ] : repeatCount,
        [
            1, 007, 007, 7, 255,
            ""\n"", ""// no comment""
        ] : uint8x,
        00 : f32a,
    },
    // a // b
    uint16 Pad @lengthOf(uint8x) `doc`,
}")).
Eval vm_compute in ("<<<M1563>>>" ++ check (runes_of_ascii "packet 
rootA  { repeat uint16
stringy	`" ++ [233]%N ++ runes_of_ascii "`	,
    body
	@lengthOf( stringy )
,	int32
    matchKey	// " ++ [27880; 37322]%N ++ runes_of_ascii "

,	@lengthOf( roots
)@calculatedFrom(
""a\""b"")
@leftPad (
    ' ' 
)i64 leftPad @lengthOf( repeatCount ) 
`u8 x,`

, //	t
	f64 len
@lengthOf(
	BodyLength  // trailing space 
)

    `// not a comment`,@rightPad
	( )
    @leftPad

(

'0')repeat string
    len  ,// c
	char[]

    chars `two words` ,
} //	t
 
")).
Eval vm_compute in ("<<<M1259>>>" ++ check (runes_of_ascii "// top
packet // c0
B // c1a
  // c1b
{ // c2
u8 // c3a
  // c3b
a // c4
, } // c6
root // c7a
  // c7b
packet // c8a
  // c8b
P { // c10
u8
    // c11
K , // c13
u8 // c14a
  // c14b
L // c15a
  // c15b
@lengthOf( // c16a
  // c16b
Body )
    // c18
, match // c20
K as // c22a
  // c22b
Body
    // c23
{ 1 :
    // c26
B // c27
, }
    // c29
,
    // c30
}
    // c31
")).
Eval vm_compute in ("<<<M1651>>>" ++ check (runes_of_ascii "

  packet
    A
    { 
u8

    a ,
	}
    packet
B
{	u16

    b
	,

}packet

    C  { u32 c
	, 
}

root	packet  M {	u16

Kc

    ,

u16
Kb, u16
Ka	,

    match
Kc 
as
	X

{ 9

    :
    A, 
10 
:
	B	, }	,	match 
Kb 
as 
Y
{

2 :
C 
, 1

    : A
, } ,
match
Ka as	Z {1 :

    B
,}

    ,

    A
	,
	B
    ,

C	,}
")).
Eval vm_compute in ("<<<M1268>>>" ++ check (runes_of_ascii "// top
packet
    // c0
B
    // c1
{ // c2
u8
    // c3
a // c4
, string // c6
s
    // c7
, } root // c10
packet
    // c11
P // c12a
  // c12b
{
    // c13
u16
    // c14
L // c15a
  // c15b
@lengthOf( B
    // c17
)
    // c18
,
    // c19
B
    // c20
, u8 // c22a
  // c22b
t
    // c23
, // c24
} ")).
Eval vm_compute in ("<<<M1465>>>" ++ check (runes_of_ascii "options {
}

MetaData string_ {
    u32 matchKey `u8 x,`,
    string MetaDataX,
    uint8 Logon,
    uint64 options1,
    char[00] len `tab	here`,
    u8 options1,
}

// a // b
packet a1 {
    chars,
    char[] i64_ @lengthOf(stringy),
    char T,
    repeat i8 charz `a\`,
}")).
Eval vm_compute in ("<<<M308>>>" ++ check (runes_of_ascii "options { pack// `tick` ""quote"" 'q'
= 0123456789
}
packet metadata { @leftPad ( ' ' ) stringy
@lengthOf( _x )
    , repeat	u8
int
    `{ , }` ,
@leftPad //	t
('0' ) repeat char msg_type `it's`,
} MetaData x_y_z { // trailing space 
}")).
Eval vm_compute in ("<<<M1429>>>" ++ check (runes_of_ascii "root
packet
// `tick` ""quote"" 'q'

  string_
	{  repeat char[ 00

    ]

    rootA ,  
  // " ++ [128512]%N ++ runes_of_ascii " emoji

  // " ++ [27880; 37322]%N ++ runes_of_ascii "

  }MetaData u	{i32	options1  ,
    }
MetaData rootA { u16
chars ,
	/// triple
	//x
}

")).
Eval vm_compute in ("<<<M186>>>" ++ check (runes_of_ascii "root packet packetx	{	char[ 1 ]chars @calculatedFrom(
""packet"" ) `say ""hi""` ,} options
    // trailing space 
    { asx
    // a // b
    = 65535 u = float64 repeatCount  =""\" ++ [233]%N ++ runes_of_ascii """}
")).
Eval vm_compute in ("<<<M60>>>" ++ check (runes_of_ascii "root packet _x
{ uint32 trueish @calculatedFrom( ""1"" ) `crlf
line`
,  }
    //
    packet	Header { repeat u64
stringy `// not a comment` , float32  msg_type ,}
")).
Eval vm_compute in ("<<<M458>>>" ++ check (runes_of_ascii "packet uint8x
{ match pack
    as msg_type	{
    0123456789 :	float
}
,
char[] packet //	t
a1
    { } options {packetx
    = '\x00'	; u128= ""a	b""  ; }
")).
Eval vm_compute in ("<<<M476>>>" ++ check (runes_of_ascii "packet uint8x
{ match pack
    as msg_type	{
    0123456789 :	float
}
,
} packet //	t
a1
    { } } options {packetx
    = '\x00'	; u128= ""a	b""  ; }
")).
Eval vm_compute in ("<<<M397>>>" ++ check (runes_of_ascii "packet {
uint8x match pack
    as msg_type	{
    0123456789 :	float
}
,
} packet //	t
a1
    { } options {packetx
    = '\x00'	; u128= ""a	b""  ; }
")).
Eval vm_compute in ("<<<M1241>>>" ++ check (runes_of_ascii "// top
root
    // c0
packet // c1
P // c2a
  // c2b
{ // c3
char
    // c4
c // c5a
  // c5b
, // c6a
  // c6b
u8
    // c7
x // c8
, // c9
} // c10
")).
Eval vm_compute in ("<<<M408>>>" ++ check (runes_of_ascii "packet uint8x
{ i8 pack
    as msg_type	{
    0123456789 :	float
}
,
} packet //	t
a1
    { } options {packetx
    = '\x00'	; u128= ""a	b""  ; }
")).
Eval vm_compute in ("<<<M395>>>" ++ check (runes_of_ascii "packet 
{ match pack
    as msg_type	{
    0123456789 :	float
}
,
} packet //	t
a1
    { } options {packetx
    = '\x00'	; u128= ""a	b""  ; }
")).
Eval vm_compute in ("<<<M722>>>" ++ check (runes_of_ascii "// @lengthOf(
packet i8i8 { u128 o , }
options { MetaDataX = true;
    BodyLength =x_y_z ""packet""= 007
crc //x
= ""abc"" ;
    msg_type =
i16 }")).
Eval vm_compute in ("<<<M329>>>" ++ check (runes_of_ascii "  packet calculatedFrom
{ uint8x {body `line1
line2`
, string crc
@lengthOf(uint8x// " ++ [128512]%N ++ runes_of_ascii " emoji
) , char[]As@lengthOf(	Pad )
    , } , }
")).
Eval vm_compute in ("<<<M514>>>" ++ check (runes_of_ascii "packet uint8x
{ match pack
    as msg_type	{
    0123456789 :	float
}
,
} packet //	t
a1
    { } options {packetx
    = '\x00'	;")).
Eval vm_compute in ("<<<M1617>>>" ++ check (runes_of_ascii "packet A {
    u16 len @lengthOf(body) `tab
    	x`,
    u32 crc @calculatedFrom(""CRC32"") `tab
    	x`,
    string body,
}")).
Eval vm_compute in ("<<<M1159>>>" ++ check (runes_of_ascii "MetaData leftPad { chars MetaDataX , } packet repeatCount // c
{ char[ 255 ] uint8x `" ++ [233]%N ++ runes_of_ascii "` , } MetaData pack { As Foo , }")).
Eval vm_compute in ("<<<M102>>>" ++ check (runes_of_ascii "packet
    // " ++ [128512]%N ++ runes_of_ascii " emoji
    body {match Logon  as _x
    {
4294967296
// a // b
//x
:
_x , """ ++ [28040; 24687]%N ++ runes_of_ascii """
    : u128
    ,} , }
")).
Eval vm_compute in ("<<<M290>>>" ++ check (runes_of_ascii "options {
    /// triple
    asx // " ++ [27880; 37322]%N ++ runes_of_ascii "
= 3 } MetaData T
{  f32/// triple
Pad `u8 x,` , } // `tick` ""quote"" 'q'")).
Eval vm_compute in ("<<<M909>>>" ++ check (runes_of_ascii "packet A {
  match k as n {
    [1, ""bb"", 007, ""d"", 5, ""f"", 7, ""h"", 9, ""j"", 11, ""l""] : B
    2 : C
  },
}")).
Eval vm_compute in ("<<<M160>>>" ++ check (runes_of_ascii "
MetaData zchar { roots
A , char[] falsey `line1
line2` ,
// " ++ [128512]%N ++ runes_of_ascii " emoji
// @lengthOf(
int crc ,	} //	t")).
Eval vm_compute in ("<<<M855>>>" ++ check (runes_of_ascii "packet A {
  match k as n {
    [""a"", ""bb"", ""c c"", ""d"", ""e"", ""f"", ""g"", ""h""] : B
    2 : C
  },
}")).
Eval vm_compute in ("<<<M1819>>>" ++ check (runes_of_ascii "packet 
metadata
	{
	u32  // `tick` ""quote"" 'q'
  Packet `say ""hi""` ,
// trailing space 

	}")).
Eval vm_compute in ("<<<M632>>>" ++ check (runes_of_ascii "
packet
    asx {match u128 a|s lengthOf
{
//	t
// `tick` ""quote"" 'q'
255 : x ,
    } ,	}")).
Eval vm_compute in ("<<<M1741>>>" ++ check (runes_of_ascii "MetaData crc {
    Pad T,
    zchar[0123456789] a1,
    int8 trueish,
}

packet float {
}")).
Eval vm_compute in ("<<<M1700>>>" ++ check (runes_of_ascii "packet A {
    match k as n {
        [1, 007, ""bb"", ""d""] : B,
        2 : C,
    },
}")).
Eval vm_compute in ("<<<M1903>>>" ++ check (runes_of_ascii "// top
packet body {
    // c2
    i32 f32a `{ , }`,// c6
}// c7

options {
}// c10")).
Eval vm_compute in ("<<<M1771>>>" ++ check (runes_of_ascii "packet A {
    match k as n {
        [1, 22, 007] : B,
        2 : C,
    },
}")).
Eval vm_compute in ("<<<M1587>>>" ++ check (runes_of_ascii "options {
    charz = ""1""
    _x = """ ++ [128512]%N ++ runes_of_ascii """
    u = string;
    stringy = """ ++ [28040; 24687]%N ++ runes_of_ascii """
}")).
Eval vm_compute in ("<<<M1842>>>" ++ check (runes_of_ascii "packet A {
    B b `
    x`,
    B `
    x`,
    repeat B bs `
    x`,
}")).
Eval vm_compute in ("<<<M787>>>" ++ check (runes_of_ascii "packet A {
  match k as n {
    [1, 22, 007] : B,
    2 : C
  },
}")).
Eval vm_compute in ("<<<M444>>>" ++ check (runes_of_ascii "packet uint8x
{ match pack
    as msg_type	{
    0123456789 :")).
Eval vm_compute in ("<<<M776>>>" ++ check (runes_of_ascii "packet A {
  match k as n {
    [""a""] : B
    2 : C
  },
}")).
Eval vm_compute in ("<<<M1219>>>" ++ check (runes_of_ascii "packet body { i32 f32a `{ , }` , } options { } // c
")).
Eval vm_compute in ("<<<M1588>>>" ++ check (runes_of_ascii "root 
packet
    A
	{u8 x

    `a
    b
  c` , }")).
Eval vm_compute in ("<<<M47>>>" ++ check (runes_of_ascii "MetaData	lengthOf
{
Header o `doc`
    ,}
")).
Eval vm_compute in ("<<<M591>>>" ++ check (runes_of_ascii "
packet
    asx {match u128 as lengthOf")).
Eval vm_compute in ("<<<M197>>>" ++ check (runes_of_ascii "
options {u8x
=
    ""packet"" ;	}
")).
Eval vm_compute in ("<<<M1839>>>" ++ check (runes_of_ascii "packet A {
    // a
    u8 x,
}")).
Eval vm_compute in ("<<<M757>>>" ++ check (runes_of_ascii "z>" ++ [65533]%N ++ runes_of_ascii "*" ++ [65533]%N ++ runes_of_ascii "7" ++ [65533; 65533; 65533; 65533]%N ++ runes_of_ascii "+" ++ [65533]%N ++ runes_of_ascii "~" ++ [65533; 0; 65533; 65533]%N ++ runes_of_ascii "c" ++ [1171]%N ++ runes_of_ascii "n" ++ [65533; 65533; 65533; 12; 65533]%N ++ runes_of_ascii "E>K")).
Eval vm_compute in ("<<<M380>>>" ++ check (runes_of_ascii "root packet	Packet { }
")).
Eval vm_compute in ("<<<M1109>>>" ++ check (runes_of_ascii "MetaData tag { // c
}")).
Eval vm_compute in ("<<<M103>>>" ++ check (runes_of_ascii "packet packetx	{ }")).
Eval vm_compute in ("<<<M1047>>>" ++ check (runes_of_ascii "// c" ++ [8203]%N ++ runes_of_ascii "
packet A {
}")).
Eval vm_compute in ("<<<M1049>>>" ++ check (runes_of_ascii "packet A {
}// c" ++ [65279]%N)).
Eval vm_compute in ("<<<M297>>>" ++ check (runes_of_ascii "// " ++ [128512]%N ++ runes_of_ascii " emoji


")).
Eval vm_compute in ("<<<M985>>>" ++ check (runes_of_ascii "// c" ++ [160]%N)).
Eval vm_compute in ("<<<M745>>>" ++ check ([65533]%N ++ runes_of_ascii "1")).
