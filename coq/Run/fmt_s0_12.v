From FP Require Import Lexer Parser ShowPT Digest Formatter.
From Coq Require Import String List NArith.
Import ListNotations.
Open Scope string_scope.
Set Printing Width 100000000.
Set Printing Depth 100000000.
Definition show_fres (r : fres) : string :=
  match r with
  | FOk s => "OK:" ++ sh_escaped s ""
  | FErr s => "ERR:" ++ sh_escaped s ""
  | FPanic p => "PANIC:" ++ p
  end.
Definition check (rs : list rune) : string := digest (show_fres (format_res rs)).
Definition full (rs : list rune) : string := show_fres (format_res rs).
Eval vm_compute in ("<<<M1345>>>" ++ check (runes_of_ascii "options { StringPrefixLenType
    // c2
= u16 // c4
; // c5a
  // c5b
ArrayPrefixLenType = // c7a
  // c7b
u32
    // c8
;
    // c9
FixedStringPadFromLeft = // c11a
  // c11b
true // c12
; // c13
FixedStringPadChar = // c15a
  // c15b
'0' // c16a
  // c16b
; // c17
} // c18
packet
    // c19
Cancel { } packet // c23a
  // c23b
Party // c24a
  // c24b
{ }
    // c26
packet
    // c27
Logon // c28a
  // c28b
{ // c29a
  // c29b
} packet // c31
Ack
    // c32
{ // c33a
  // c33b
}
    // c34
packet
    // c35
Logout // c36
{ repeat // c38a
  // c38b
InSym87 // c39
{ InClordid94 {
    // c42
string // c43
clOrdID // c44a
  // c44b
, // c45a
  // c45b
} // c46a
  // c46b
,
    // c47
string Px ,
    // c50
i16 // c51
Qty // c52
,
    // c53
repeat // c54a
  // c54b
InCount71 // c55
{ // c56
repeat // c57a
  // c57b
Cancel
    // c58
,
    // c59
uint16 // c60a
  // c60b
Tail // c61a
  // c61b
,
    // c62
char[ // c63a
  // c63b
2 // c64
]
    // c65
x // c66
,
    // c67
repeat string Ref , } // c72
,
    // c73
Cancel // c74a
  // c74b
, // c75a
  // c75b
} // c76a
  // c76b
, // c77
}
    // c78
root // c79
packet // c80
Order // c81a
  // c81b
{ repeat // c83a
  // c83b
string tag7 // c85
, @leftPad // c87a
  // c87b
( ' '
    // c89
) // c90a
  // c90b
char[
    // c91
3
    // c92
] // c93a
  // c93b
Px // c94
,
    // c95
u8
    // c96
Qty // c97
,
    // c98
match // c99a
  // c99b
Qty as // c101
Body // c102
{ // c103
[ // c104
28 // c105
, // c106
62 // c107
] // c108a
  // c108b
:
    // c109
Logon
    // c110
, 148 // c112
: // c113
Ack ,
    // c115
88 // c116a
  // c116b
: // c117
Party , 184 // c120
: // c121a
  // c121b
Cancel // c122
, // c123a
  // c123b
} // c124a
  // c124b
, // c125
u16 Note
    // c127
@calculatedFrom( ""CRC32"" // c129a
  // c129b
) // c130a
  // c130b
, } // c132
")).
Eval vm_compute in ("<<<M1737>>>" ++ check (runes_of_ascii "
options {StringPrefixLenType
	=	u16	;
    ArrayPrefixLenType
	=
	u16
;

    }
	packet 
SampleBinary {
	uint16 
MsgType
`" ++ [28040; 24687; 31867; 22411]%N ++ runes_of_ascii "`,
u16 BodyLenght @lengthOf(Body ) `" ++ [28040; 24687; 20307; 38271; 24230]%N ++ runes_of_ascii "`  ,
match 
MsgType
	as 
Body
{ 1
: Logon
    , 2
:Logout
	,3
    :
Heartbeat
,	4 : 
RiskControlRequest , 5	:RiskControlResponse
	,} 
,	@calculatedFrom(
    ""CRC32""
)
u32
    Ckecksum`" ++ [26657; 39564; 21644]%N ++ runes_of_ascii "` ,
    }packet Logon

{
@leftPad
	(
	'0'

)char[
	10
    ] UserName`" ++ [29992; 25143; 21517]%N ++ runes_of_ascii "`

,

    string
    Password  `" ++ [23494; 30721]%N ++ runes_of_ascii "`
, uint64	ClientId	`" ++ [23458; 25143; 31471]%N ++ runes_of_ascii "ID` ,u16
HeartbeatInterval  `" ++ [24515; 36339; 38388; 38548]%N ++ runes_of_ascii "`
    , } packet
    Logout {  @rightPad ( '0'
) char[ 
10 ] UserName
`" ++ [29992; 25143; 21517]%N ++ runes_of_ascii "`	,uint64 
ClientId `" ++ [23458; 25143; 31471]%N ++ runes_of_ascii "ID` , }

    packet 
Heartbeat

    { } packet RiskControlRequest {
string  UniqueOrderId  `" ++ [21807; 19968; 35746; 21333; 21495]%N ++ runes_of_ascii "` , char[
16
    ]

ClOrdID`" ++ [23458; 25143; 35746; 21333; 21495]%N ++ runes_of_ascii "`
, char[3
]MarketID
    `" ++ [24066; 22330]%N ++ runes_of_ascii "id`
	,char[
	12
] SecurityID  `" ++ [35777; 21048; 20195; 30721]%N ++ runes_of_ascii "` ,
char

    Side	`" ++ [20080; 21334; 26041; 21521]%N ++ runes_of_ascii "` ,

char
	OrderType `" ++ [35746; 21333; 31867; 22411]%N ++ runes_of_ascii "`,  u64 Price `" ++ [20215; 26684]%N ++ runes_of_ascii "`
,
u32 Qty
`" ++ [25968; 37327]%N ++ runes_of_ascii "`,
repeat string
ExtraInfo	`" ++ [38468; 21152; 20449; 24687]%N ++ runes_of_ascii "`,
repeat
SubOrder{	char[
    16]	ClOrdID	`" ++ [23376; 35746; 21333; 21495]%N ++ runes_of_ascii "`
	,
	u64	Price
`" ++ [23376; 35746; 21333; 20215; 26684]%N ++ runes_of_ascii "`

    ,	u32
	Qty
`" ++ [23376; 35746; 21333; 25968; 37327]%N ++ runes_of_ascii "` ,

}
    ,
    }	packet
RiskControlResponse{	string

    UniqueOrderId  `" ++ [21807; 19968; 35746; 21333; 21495]%N ++ runes_of_ascii "`,i32
Status `" ++ [29366; 24577]%N ++ runes_of_ascii "`
,  string Msg`" ++ [32467; 26524; 20449; 24687]%N ++ runes_of_ascii "` 
,	repeat Detail

,} packet
	Detail {
string RuleName	`" ++ [35268; 21017; 21517; 31216]%N ++ runes_of_ascii "`, u16
Code	`" ++ [21407; 22240; 20195; 30721]%N ++ runes_of_ascii "`,

} ")).
Eval vm_compute in ("<<<M1865>>>" ++ check (runes_of_ascii "

  packet 
//

// " ++ [27880; 37322]%N ++ runes_of_ascii "

	BodyLength

{repeat
// @lengthOf(
  zchar[
    255
]

    tag

    `crlf
line`

,  }
MetaData

    BodyLength
    {
    char[
65535 ]	//	t
packetx 
`" ++ [28040; 24687; 31867; 22411]%N ++ runes_of_ascii "` ,  }options

{
metadata = 3
;  // trailing space 

  }
	packet  Packet {
o 
{	uint16

    Logon ,
}
    ,

@leftPad

    (
) 
char[0123456789  ]a1 `" ++ [28040; 24687; 31867; 22411]%N ++ runes_of_ascii "` // a // b
  ,

    repeat
	string
lengthOf
`{ , }` 
,	stringy
	crc  , @rightPad (' ' )

u32
MetaDataX  ,@rightPad
(	'0'
)

    tag

{
repeat
	f64
    tag	`u8 x,`
,
}
//	t
,	char[ 00 ]
	uint8x``, match	leftPad as
    Header	{ """ ++ [233]%N ++ runes_of_ascii "t" ++ [233]%N ++ runes_of_ascii """:	Foo ,[

""\" ++ [233]%N ++ runes_of_ascii """
    , 
007 , 00 ,
	10  ,""\" ++ [233]%N ++ runes_of_ascii """

]:
	crc

,

[	1  , 007 , 
""a\\""	,
    ""packet""] : //	t
  	len 	 // packet A { u8 x, }
    ,10
: MetaDataX
    //x
  // " ++ [128512]%N ++ runes_of_ascii " emoji
    , } 
    //	t
	/// triple
	  ,

    } packet

    i64_

{  @rightPad	( 
'\x00'  )

@leftPad()

    i8
body	@calculatedFrom(
	""" ++ [233]%N ++ runes_of_ascii "t" ++ [233]%N ++ runes_of_ascii """ )
    `it's`
	,}

// @lengthOf(
 
")).
Eval vm_compute in ("<<<M1755>>>" ++ check (runes_of_ascii "packet lengthOf {
    @tag(65535)
    @tag(3)
    @tag(0123456789)
    options1 @calculatedFrom(""abc""),
    @rightPad('0')
    falsey @lengthOf(a1),
    @lengthOf(Pad)
    body @calculatedFrom(""packet""),
}

packet int {
    string Foo @calculatedFrom(""CRC32""),
}

root packet uint8x {
}

root packet len {
    x_y_z _x,
    BodyLength rootA,
    match f32a as Logon {
        [
            65535, 00, 4294967296, ""a\""b"", """ ++ [28040; 24687]%N ++ runes_of_ascii """,
            """ ++ [128512]%N ++ runes_of_ascii """, """", ""abc""
        ] : roots,
        [00] : A,
        [65535, 65535, """"] : pack,
    },
    repeat Pad `say ""hi""`,
    /// triple
    a1 calculatedFrom,
    @lengthOf(stringy)
    char[] As @calculatedFrom(""\" ++ [233]%N ++ runes_of_ascii """),
    zchar[0123456789] Z9_ @lengthOf(repeatCount) `a\`,
    repeat string lengthOf,//x
    u8 falsey @calculatedFrom(""a\\""),
    @calculatedFrom(""it's"")
    string calculatedFrom @lengthOf(MetaDataX),
}")).
Eval vm_compute in ("<<<M209>>>" ++ check (runes_of_ascii "packet calculatedFrom { // a // b
string charz
`two words`
//	t
//x
, } packet stringy {
@lengthOf(msg_type
)	crc
    // " ++ [128512]%N ++ runes_of_ascii " emoji
    , @leftPad
(	'0')crc @lengthOf(
u128 //	t
) ,@leftPad(
    ' '
)match
x_y_z as
rootA { [// @lengthOf(
3 ,255 ] : int
    ""1"": o ,// a // b
10:tag
, // c
10// " ++ [128512]%N ++ runes_of_ascii " emoji
: Header
    ,3 :
a1,""" ++ [128512]%N ++ runes_of_ascii """ :
packetx
    , }
// packet A { u8 x, }
// packet A { u8 x, }
, match
// " ++ [27880; 37322]%N ++ runes_of_ascii "
// a // b
o as x//x
{  ""a	b"" : u8x ,} ,  @rightPad () repeat
u packetx
,
    T // " ++ [27880; 37322]%N ++ runes_of_ascii "
,repeat
Logon ,	T{repeat
x_y_z , // a // b
i8 crc
`two words` ,
char[] calculatedFrom
    @calculatedFrom(""x y""
) , } , roots calculatedFrom,
@lengthOf(
asx)  repeat x_y_z{ T
matchKey, } , }
options { float
=char[1 ]
    ;
    msg_type // c
=i8 x =
//
// `tick` ""quote"" 'q'
zchar[ 7] ; f32a =""\n""}
")).
Eval vm_compute in ("<<<M93>>>" ++ check (runes_of_ascii "packet float { char[]
    u8x
@lengthOf( roots ) ,
}MetaData leftPad	{ string
    // `tick` ""quote"" 'q'
    a1, }root
packet // " ++ [27880; 37322]%N ++ runes_of_ascii "
pack { falsey,
    /// triple
    match Logon
as // " ++ [128512]%N ++ runes_of_ascii " emoji
trueish
{""packet""
    : Foo ,"""" : len, 0123456789: i64_ , ""it's"" : packetx
    ,
    255
    : len
, }
    , repeat
As As `" ++ [233]%N ++ runes_of_ascii "` , @tag( 3  ) uint32 a1
, repeat  zchar[ 4294967296]
pack	,@leftPad (' ' )  zchar  @lengthOf( string_ ) `// not a comment` , repeat int ,
repeat
i8i8 // " ++ [27880; 37322]%N ++ runes_of_ascii "
{ u64
    // a // b
    tag `say ""hi""`	,u8x , char trueish  , repeat // packet A { u8 x, }
float32
    stringy `line1
line2` ,} ,match o
as	o { 007  : float },
// packet A { u8 x, }
// c
repeat
    Pad ,
// " ++ [27880; 37322]%N ++ runes_of_ascii "
// trailing space 
}")).
Eval vm_compute in ("<<<M154>>>" ++ check (runes_of_ascii "packet BodyLength
    // a // b
    {@rightPad (
'\x00' )
u8x/// triple
,  @tag(  007
) @calculatedFrom( ""packet""	) repeat  uint8x x_y_z, }
    MetaData A {
    // packet A { u8 x, }
    Z9_ // a // b
f32a ,
    zchar[ 255// a // b
]
    msg_type`say ""hi""` ,char[ 1	]Logon  `tab	here` ,//
}
packet uint8x {  @calculatedFrom(
""" ++ [28040; 24687]%N ++ runes_of_ascii """ )@tag(// `tick` ""quote"" 'q'
65535)	u32 int
@lengthOf( u8x )
`say ""hi""`
,	@leftPad ( ' ') stringy //
{
    string_ A ,
    char[ 4294967296
] i8i8 `" ++ [233]%N ++ runes_of_ascii "`	, char[]  Logon
,
string
x_y_z@lengthOf(	Packet ),
} , zchar[	4294967296 ]
int	`{ , }` , }
// trailing space 
// " ++ [27880; 37322]%N ++ runes_of_ascii "
packet u8x
    { }
// a // b
")).
Eval vm_compute in ("<<<M1336>>>" ++ check (runes_of_ascii "options {
    LittleEndian = false;
    ArrayPrefixLenType = u8;
    FixedStringPadFromLeft = true;
    FixedStringPadChar = '0';
}
packet Heartbeat {
    string lastPx,
    uint8 Qty,
    i64 Acct,
    char[4] Ref,
}
packet Fill {
    uint8 Ref,
    Heartbeat,
    f32 OrderId,
    repeat f32 x,
}
root packet Order {
    zchar[2] OrderId,
    zchar[2] Acct,
    zchar[1] Note,
    zchar[9] Qty,
    string price,
    string tag7,
    u32 x,
    match x as Body {
        123 : Fill,
        112 : Heartbeat,
    },
    u32 seqNo @calculatedFrom(""CR\
C32""),
}
")).
Eval vm_compute in ("<<<M1752>>>" ++ check (runes_of_ascii "root packet lengthOf {
    char[3] Pad,
    @rightPad('0')
    crc `doc`,
    i32 uint8x,
    zchar {
        match Logon as int {
            [0, """ ++ [233]%N ++ runes_of_ascii "t" ++ [233]%N ++ runes_of_ascii """] : o,
            ""// no comment"" : len,
        },
        asx {
            //x
            char[10] u128 @lengthOf(x_y_z) `say ""hi""`,
        },
        char[1] A,
        u chars ``,
    },
    repeat matchKey {
        //x
        string trueish @calculatedFrom(""a	b""),
        repeat i8 msg_type `it's`,
    },/// triple
}

packet float {
}")).
Eval vm_compute in ("<<<M1495>>>" ++ check (runes_of_ascii "options {
    LittleEndian = true;
    StringPrefixLenType = u64;
    ArrayPrefixLenType = u16;
    FixedStringPadFromLeft = false;
    FixedStringPadChar = ' ';
}

packet Logon {
    zchar[5] Side2,
}

root packet Logout {
    repeat i64 Tail,
    Logon,
    repeat i16 OrderId,
    char[] venue,
    uint64 x,
    repeat i16 count,
    u8 Flags,
    match Flags as Body {
        25 : Logon,
    },
    u16 Qty @calculatedFrom(""CR\
        C32""),
}")).
Eval vm_compute in ("<<<M1325>>>" ++ check (runes_of_ascii "
options{	LittleEndian  =
	false	;
StringPrefixLenType 
=
u8
	;
ArrayPrefixLenType = u64
; FixedStringPadFromLeft
=

false ; 
FixedStringPadChar = ' ' ;	}
packet 
Reject

    {  repeat
	char[

    4

] seqNo ,

string Px ,

}
root
	packet
	Trade{
	@rightPad
( '0'
    )
char[  2 ] msgKind

, repeat
f64 price	,
    InAcct79

{

    repeat
Reject, zchar[	7	]OrderId , } 
,
    Reject  , 
}
")).
Eval vm_compute in ("<<<M1639>>>" ++ check (runes_of_ascii "packet crc {
    match trueish as len {
        42 : uint8x,
        // " ++ [128512]%N ++ runes_of_ascii " emoji
        ""1"" : asx,
        3 : body,
        [0123456789, ""1""] : u,
        ""packet"" : o,
    },
}

MetaData tag {
    string o `line1
        line2`,
    char[] Header `{ , }`,
    uint8x Z9_,
}

MetaData tag {
    i8 len,
}

options {
    // `tick` ""quote"" 'q'
    /// triple
    x = 10;
}")).
Eval vm_compute in ("<<<M178>>>" ++ check (runes_of_ascii "packet // c
As
{@tag( 42
    )
    repeat Logon	uint8x
// " ++ [128512]%N ++ runes_of_ascii " emoji
//
``, repeat int32
    x_y_z ,char[7 // trailing space 
]	pack , repeat string crc
/// triple
// c
`// not a comment`
, @calculatedFrom(
    ""`tick`""
    ) @tag( 1 )match
    // @lengthOf(
    chars as
MetaDataX { 4294967296 : // @lengthOf(
T ,
} /// triple
,
}
")).
Eval vm_compute in ("<<<M1268>>>" ++ check (runes_of_ascii "// top
packet
    // c0
B
    // c1
{ // c2
u8
    // c3
a // c4
, string // c6
s
    // c7
, } root // c10
packet
    // c11
P // c12a
  // c12b
{
    // c13
u16
    // c14
L // c15a
  // c15b
@lengthOf( B
    // c17
)
    // c18
,
    // c19
B
    // c20
, u8 // c22a
  // c22b
t
    // c23
, // c24
} ")).
Eval vm_compute in ("<<<M1583>>>" ++ check (runes_of_ascii "  MetaData
	BodyLength
{
	uint16 leftPad
`" ++ [233]%N ++ runes_of_ascii "`	// a // b
,
	uint8x asx 
,
    len

lengthOf	`// not a comment` ,string uint8x `doc`,
}options

    { i8i8=
0 lengthOf=

    0123456789
;
	}  packet uint8x

    { @lengthOf( pack)  float64	u8x @lengthOf( asx //x
    )  ,
}")).
Eval vm_compute in ("<<<M1375>>>" ++ check (runes_of_ascii "packet
    Sub 
{u8 a	, 
@calculatedFrom(  ""CRC16""

)
	i32 SubSum 
,
}
    root

packet
    Frame {
u16 
MsgType	,
u16	BodyLen	@lengthOf(
    Body) 
, 
Sub
	Body	,
string
	note
	,

@calculatedFrom(""CRC16"" )

i32	Checksum  ,
	u8 tail 
,

}")).
Eval vm_compute in ("<<<M1514>>>" ++ check (runes_of_ascii "packet Logon {
    pack _x,
    Z9_ i8i8 `" ++ [28040; 24687; 31867; 22411]%N ++ runes_of_ascii "`,
}

options {
    tag = 4294967296;
    As = string;
    rootA = true;
}

root packet f32a {
    @leftPad(' ')
    repeat _x `" ++ [233]%N ++ runes_of_ascii "`,
    @rightPad()
    i8i8 len,
}")).
Eval vm_compute in ("<<<M1293>>>" ++ check (runes_of_ascii "packet A {
    u8 a,
}
packet B {
    u16 b,
}
root packet P {
    u8 K1,
    u8 K2,
    match K1 as M1 {
        1 : A,
    },
    match K2 as M2 {
        1 : B,
    },
}
")).
Eval vm_compute in ("<<<M73>>>" ++ check (runes_of_ascii "root
    packet As { //
char	charz @lengthOf( packetx
) `{ , }`,//
char[0123456789
]
MetaDataX
// " ++ [27880; 37322]%N ++ runes_of_ascii "
// `tick` ""quote"" 'q'
`it's` , zchar[
    7]o `u8 x,`
, }")).
Eval vm_compute in ("<<<M458>>>" ++ check (runes_of_ascii "packet uint8x
{ match pack
    as msg_type	{
    0123456789 :	float
}
,
char[] packet //	t
a1
    { } options {packetx
    = '\x00'	; u128= ""a	b""  ; }
")).
Eval vm_compute in ("<<<M451>>>" ++ check (runes_of_ascii "packet uint8x
{ match pack
    as msg_type	{
    0123456789 :	float
}
, ,
} packet //	t
a1
    { } options {packetx
    = '\x00'	; u128= ""a	b""  ; }
")).
Eval vm_compute in ("<<<M1299>>>" ++ check (runes_of_ascii "packet A {
    u8 a,
}
packet B {
    u16 b,
}
root packet P {
    u8 K,
    match K as M {
        [1, 2] : A,
        3 : B,
        7 : A,
    },
}
")).
Eval vm_compute in ("<<<M522>>>" ++ check (runes_of_ascii "packet uint8x
{ match pack
    as msg_type	{
    0123456789 :	float
}
,
} packet //	t
a1
    { } options {packetx
    = '\x00'	; u128= ;  ""a	b"" }
")).
Eval vm_compute in ("<<<M700>>>" ++ check (runes_of_ascii "// @lengthOf(
packet i8i8 { u128 o , }
options { MetaDataX = true true;
    BodyLength =""packet"" x_y_z= 007
crc //x
= ""abc"" ;
    msg_type =
i16 }")).
Eval vm_compute in ("<<<M687>>>" ++ check (runes_of_ascii "// @lengthOf(
packet i8i8 { u128 o , , }
options { MetaDataX = true;
    BodyLength =""packet"" x_y_z= 007
crc //x
= ""abc"" ;
    msg_type =
i16 }")).
Eval vm_compute in ("<<<M685>>>" ++ check (runes_of_ascii "// @lengthOf(
packet i8i8 { u128 o , }
options { MetaDataX = true;
    BodyLength =""packet"" x_y_z= 007
crc //x
= ""abc"" ;
    = msg_type
i16 }")).
Eval vm_compute in ("<<<M430>>>" ++ check (runes_of_ascii "packet uint8x
{ match pack
    as msg_type	{
     :	float
}
,
} packet //	t
a1
    { } options {packetx
    = '\x00'	; u128= ""a	b""  ; }
")).
Eval vm_compute in ("<<<M1641>>>" ++ check (runes_of_ascii "packet A {
    match k as n {
        [
            ""a"", ""bb"", ""c c"", ""d"", ""e"",
            ""f""
        ] : B,
        2 : C,
    },
}")).
Eval vm_compute in ("<<<M1769>>>" ++ check (runes_of_ascii "

  packet

A
{ match k  as n 
{ [
    ""a""
	,22

,""c c"" ,	4
,

    ""e"" , 66 
,
	""g""  , 
8, 
""i"" ,	10
, ""k""	] :
B	2 :	C},
} ")).
Eval vm_compute in ("<<<M1143>>>" ++ check (runes_of_ascii "MetaData // c
leftPad { chars MetaDataX , } packet repeatCount { char[ 255 ] uint8x `" ++ [233]%N ++ runes_of_ascii "` , } MetaData pack { As Foo , }")).
Eval vm_compute in ("<<<M1175>>>" ++ check (runes_of_ascii "MetaData leftPad { chars MetaDataX , } packet repeatCount { char[ 255 ] uint8x `" ++ [233]%N ++ runes_of_ascii "` , } // c
MetaData pack { As Foo , }")).
Eval vm_compute in ("<<<M961>>>" ++ check (runes_of_ascii "packet A {
    u16 len @lengthOf(body) `tab
	x`,
    u32 crc @calculatedFrom(""CRC32"") `tab
	x`,
    string body,
}")).
Eval vm_compute in ("<<<M1269>>>" ++ check (runes_of_ascii "  packet	B
{
u8 a , 
string	s
	,
    }
    root
	packet P

{ u16

L @lengthOf( B ), B
    , 
u8  t ,
}
")).
Eval vm_compute in ("<<<M889>>>" ++ check (runes_of_ascii "packet A {
  match k as n {
    [""a"", ""bb"", 007, ""d"", ""e"", 66, ""g"", ""h"", 9, ""j""] : B
    2 : C
  },
}")).
Eval vm_compute in ("<<<M258>>>" ++ check (runes_of_ascii "packet
    metadata{ u32 // `tick` ""quote"" 'q'
Packet `say ""hi""`
,
    // trailing space 
    }")).
Eval vm_compute in ("<<<M863>>>" ++ check (runes_of_ascii "packet A {
  match k as n {
    [""a"", ""bb"", 007, ""d"", ""e"", 66, ""g"", ""h""] : B
    2 : C
  },
}")).
Eval vm_compute in ("<<<M1718>>>" ++ check (runes_of_ascii "packet A {
    u32 crc @calculatedFrom(""\
    ""),
    @calculatedFrom(""\
    "")
    u8 y,
}")).
Eval vm_compute in ("<<<M856>>>" ++ check (runes_of_ascii "packet A {
  match k as n {
    [1, ""bb"", 007, ""d"", 5, ""f"", 7, ""h""] : B,
    2 : C
  },
}")).
Eval vm_compute in ("<<<M771>>>" ++ check (runes_of_ascii "true @tag( root : repeat @calculatedFrom( match f64 int32 ] { zchar[ packet @lengthOf(")).
Eval vm_compute in ("<<<M837>>>" ++ check (runes_of_ascii "packet A {
  match k as n {
    [""a"", ""bb"", 007, ""d"", ""e"", 66] : B
    2 : C
  },
}")).
Eval vm_compute in ("<<<M972>>>" ++ check (runes_of_ascii "packet A {
    u32 crc @calculatedFrom(""\
""),
    @calculatedFrom(""\
"") u8 y,
}")).
Eval vm_compute in ("<<<M464>>>" ++ check (runes_of_ascii "packet uint8x
{ match pack
    as msg_type	{
    0123456789 :	float
}
,
}")).
Eval vm_compute in ("<<<M808>>>" ++ check (runes_of_ascii "packet A {
  match k as n {
    [1, 22, ""c c"", 4] : B,
    2 : C
  },
}")).
Eval vm_compute in ("<<<M796>>>" ++ check (runes_of_ascii "packet A {
  match k as n {
    [1, 22, ""c c""] : B
    2 : C
  },
}")).
Eval vm_compute in ("<<<M1843>>>" ++ check (runes_of_ascii "MetaData M {
    u8 x `a
    
    b`,
    T t `a
    
    b`,
}")).
Eval vm_compute in ("<<<M812>>>" ++ check (runes_of_ascii "packet A { Inner { match k as n { [1,22,007,4] : B, }, }, }")).
Eval vm_compute in ("<<<M1093>>>" ++ check (runes_of_ascii "packet A { repeat // a
 B // b
 b // c
 `d` // e
 , }")).
Eval vm_compute in ("<<<M1217>>>" ++ check (runes_of_ascii "packet body { i32 f32a `{ , }` , } options { // c
}")).
Eval vm_compute in ("<<<M1286>>>" ++ check (runes_of_ascii "

  root
    packet P{ 
string
	s

    , }
")).
Eval vm_compute in ("<<<M1066>>>" ++ check (runes_of_ascii "packet A {
    u8 x,    // c    u8 y,
}")).
Eval vm_compute in ("<<<M1092>>>" ++ check (runes_of_ascii "root // a
 packet // b
 A // c
 { }")).
Eval vm_compute in ("<<<M959>>>" ++ check (runes_of_ascii "packet A {
    u8 x `tab
	x`,
}")).
Eval vm_compute in ("<<<M923>>>" ++ check (runes_of_ascii "packet A {
    u8 x `a
b`,
}")).
Eval vm_compute in ("<<<M1882>>>" ++ check (runes_of_ascii "packet calculatedFrom {
}")).
Eval vm_compute in ("<<<M747>>>" ++ check (runes_of_ascii "true int16 u16 { f32a")).
Eval vm_compute in ("<<<M1130>>>" ++ check (runes_of_ascii "MetaData // c
u { }")).
Eval vm_compute in ("<<<M1027>>>" ++ check (runes_of_ascii "// c" ++ [8287]%N ++ runes_of_ascii "
packet A {
}")).
Eval vm_compute in ("<<<M1009>>>" ++ check (runes_of_ascii "packet A {
}// c" ++ [8232]%N)).
Eval vm_compute in ("<<<M1389>>>" ++ check (runes_of_ascii "packet pack {
}")).
Eval vm_compute in ("<<<M985>>>" ++ check (runes_of_ascii "// c" ++ [160]%N)).
Eval vm_compute in ("<<<M727>>>" ++ check (runes_of_ascii "")).
