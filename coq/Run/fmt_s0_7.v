From FP Require Import Lexer Parser ShowPT Digest Formatter.
From Coq Require Import String List NArith.
Import ListNotations.
Open Scope string_scope.
Set Printing Width 100000000.
Set Printing Depth 100000000.
Definition show_fres (r : fres) : string :=
  match r with
  | FOk s => "OK:" ++ sh_escaped s ""
  | FErr s => "ERR:" ++ sh_escaped s ""
  | FPanic p => "PANIC:" ++ p
  end.
Definition check (rs : list rune) : string := digest (show_fres (format_res rs)).
Definition full (rs : list rune) : string := show_fres (format_res rs).
Eval vm_compute in ("<<<M1733>>>" ++ check (runes_of_ascii "  packet falsey
{
char[7 ]  Foo
@calculatedFrom( 
""CRC32"" ) ,
@tag( 
	    //
  	10

)
	u8 Packet  `" ++ [233]%N ++ runes_of_ascii "` , 
repeat
    stringy ,  @lengthOf( // a // b
  float )
tag
	{	repeat
    u8x {
int16

charz
	@lengthOf(trueish
	)
,  //	t
		repeat
string calculatedFrom

,

charz@calculatedFrom(
    ""a\""b"") `line1
line2`
,

}	,
u64
	MetaDataX
@calculatedFrom(""" ++ [128512]%N ++ runes_of_ascii """)
`" ++ [233]%N ++ runes_of_ascii "` ,  rootA
	    // packet A { u8 x, }
{ repeat

u64 BodyLength
	`" ++ [233]%N ++ runes_of_ascii "`
    ,

    pack  @calculatedFrom( //x
""{,}"")	`" ++ [28040; 24687; 31867; 22411]%N ++ runes_of_ascii "`,  repeat 	 // c
	x
    charz	,  }, 
// a // b
char[]
packetx,
} 
,  // `tick` ""quote"" 'q'

  calculatedFrom

    , u

x_y_z,
    repeat	int	i64_, @leftPad
(
' ' )

u32  T
    @calculatedFrom(  ""{,}"" ) ,	repeat metadata  ,  }
root
    packet

chars 
{char[
65535  ]pack  @lengthOf( As )

    `tab	here`  ,

char[
255 ] msg_type
	`// not a comment` ,@calculatedFrom(
""// no comment""
	)

@tag(	//	t
      0
)
@tag(10  )  repeat
	Header
{ char[]
        // @lengthOf(
// " ++ [27880; 37322]%N ++ runes_of_ascii "
i64_, repeat

T //x
      ``
    ,

    match
uint8x
as

    i64_	{ 00// `tick` ""quote"" 'q'
	: _x
    ,
	65535
:  //
  Z9_ ,
""1""  :
u8x , 007 :
    Z9_
,  255

:  matchKey""1"" :crc
, } 
,  } 
,@calculatedFrom( ""packet""	)

match int as

    x_y_z
    {	0123456789
:

Logon

// @lengthOf(
    ,
	//	t

[
0123456789 ,
""it's"" ]

:
    int ,
[  ""a	b"" ,
""CRC32""
    ,

    0,
    4294967296 
, 
"""" 
] :	pack 
, 0: 
u

    , }
	, 
match  // @lengthOf(
	  string_
	as
int{
0 :repeatCount[

    ""abc""

    ] :	// " ++ [27880; 37322]%N ++ runes_of_ascii "
  	float 007	: msg_type

    , [
	""a\""b""

] :charz
	,} 
,

i16 MetaDataX `say ""hi""` ,
repeat
u	`tab	here`  ,

repeat falsey  { repeat
    i8
    lengthOf	`a\`
    ,
    repeatCount

@lengthOf(
    o )	`{ , }`

    ,},	} packet
	rootA
	{
calculatedFrom //	t
  @calculatedFrom(
""x y""

) 
,

char

Pad

    @calculatedFrom(

    ""a\""b""
	)

`" ++ [233]%N ++ runes_of_ascii "`
	, @leftPad(
'\x00'
) 
repeat float64 tag, 
      // " ++ [27880; 37322]%N ++ runes_of_ascii "
    	@calculatedFrom( ""1""
) 
repeat
    Foo  ,

    }  // " ++ [27880; 37322]%N)).
Eval vm_compute in ("<<<M156>>>" ++ check (runes_of_ascii "packet
A { @rightPad ( '0' ) repeat	i8i8
    { zchar[ 007 ]
    packetx,
    metadata `" ++ [28040; 24687; 31867; 22411]%N ++ runes_of_ascii "` ,	repeat float64  T ,}, @tag(0)Z9_ { int
@lengthOf( tag
)`line1
line2`
, repeat i8i8 // packet A { u8 x, }
{  zchar[  00 ]stringy
,
repeat f32a{ match i64_ //
as
    string_ {[ 255 , ""{,}"" , 0123456789 ]
: x_y_z
, """ ++ [233]%N ++ runes_of_ascii "t" ++ [233]%N ++ runes_of_ascii """ : A
, ""`tick`"" : len ,} , } ,
    //
    repeat u8x {u16 Z9_
@calculatedFrom(""" ++ [128512]%N ++ runes_of_ascii """ ) `line1
line2` ,f32 matchKey
    ,} ,// " ++ [27880; 37322]%N ++ runes_of_ascii "
float64 u8x `
`,
    },//
} , // `tick` ""quote"" 'q'
a1	{ repeat
    // trailing space 
    zchar[ 007
] Foo `two words`
,f32a	@calculatedFrom( """ ++ [28040; 24687]%N ++ runes_of_ascii """// trailing space 
) ,int64 i64_  @calculatedFrom( // trailing space 
""`tick`"" ) , } ,
    @lengthOf(
    // c
    Header )	f32
stringy @calculatedFrom(
""x y"" )`say ""hi""` , Foo , float64
BodyLength@calculatedFrom( // " ++ [27880; 37322]%N ++ runes_of_ascii "
""packet"") ,
    uint32
// packet A { u8 x, }
//
int
//
//x
, } packet string_{ @tag( 4294967296
) repeat u
`two words` , repeat zchar[ 0 ]
BodyLength
, @tag( 255 )/// triple
int `line1
line2` ,	uint8x`it's`,@tag(
65535 )
int8
    metadata
`" ++ [233]%N ++ runes_of_ascii "` ,/// triple
match
options1
//x
// " ++ [128512]%N ++ runes_of_ascii " emoji
as
    float// packet A { u8 x, }
{ 3: f32a , """ ++ [28040; 24687]%N ++ runes_of_ascii """
    : charz
,}
,match uint8x	as
string_ { ""CRC32"" //x
:
x
, } , uint8	packetx`crlf
line` ,
@leftPad (
)
    zchar[
0
] Foo `say ""hi""`, }
")).
Eval vm_compute in ("<<<M128>>>" ++ check (runes_of_ascii "root
packet // " ++ [27880; 37322]%N ++ runes_of_ascii "
crc
    {	@lengthOf(	As
)@calculatedFrom(""\" ++ [233]%N ++ runes_of_ascii """
    ) zchar[ 4294967296 ]MetaDataX `doc` ,/// triple
rootA @calculatedFrom( ""it's"" )	,@tag( 65535
    ) @tag( // c
7 )@tag( 00
//
// c
) len @lengthOf( A ) `two words` ,
// trailing space 
// " ++ [128512]%N ++ runes_of_ascii " emoji
string	rootA@lengthOf( pack
// trailing space 
//	t
) ,
// " ++ [128512]%N ++ runes_of_ascii " emoji
// trailing space 
repeat zchar ,
@calculatedFrom( ""abc"" )@leftPad ('\x00' ) @rightPad
( )match x_y_z
    as Z9_{
""it's""
    :
Logon//x
, ""x y"" : Packet,""abc""
: trueish 4294967296 // @lengthOf(
:
    repeatCount """ ++ [128512]%N ++ runes_of_ascii """:  x_y_z
} , char[ 10 // @lengthOf(
]
    stringy	`it's`
, @leftPad (
'\x00' )
rootA @lengthOf(  i64_  )
    , } MetaData falsey {
Packet repeatCount `tab	here` ,
}MetaData string_ {
    float64 roots `line1
line2` , char
As //
`
` , zchar[ 65535 ]falsey`a\` ,A
    T , _x metadata, } packet
_x // packet A { u8 x, }
{zchar[255 ] string_@lengthOf(
//	t
// @lengthOf(
u128 ) `{ , }`	,
}root packet Packet
    {repeat // " ++ [128512]%N ++ runes_of_ascii " emoji
lengthOf , }")).
Eval vm_compute in ("<<<M107>>>" ++ check (runes_of_ascii "packet falsey { i64_ ,	charz  {
match Packet  as Pad { ""\n"" :Packet
    , ""// no comment"" // " ++ [128512]%N ++ runes_of_ascii " emoji
:
f32a// `tick` ""quote"" 'q'
, [
    /// triple
    3  ,4294967296,
    10 ,//
7 , 10	]
: u
, // trailing space 
""`tick`"": u8x
,
[ 7 , ""it's"" ]:Packet, 0 : len
    //
    , }
    , }, /// triple
@lengthOf(	f32a) char[ 3 ]options1
    @lengthOf(
Pad)
, zchar[ 0123456789 ]// trailing space 
T ``
,
} packet
Pad
{
    // c
    o roots `{ , }` // " ++ [128512]%N ++ runes_of_ascii " emoji
, }packet f32a {
_x//
@calculatedFrom(	""x y"") //x
,@tag( 65535
) //	t
char pack @lengthOf( zchar  ) ,repeat //
int64 falsey  ,repeat len {match A
    as rootA {[ 42,  ""\n"" ]:
Z9_ , }
,repeat i16
A , repeat zchar[ 65535 ] tag `
` ,
f64 float
    @lengthOf( f32a ) ``  ,
// `tick` ""quote"" 'q'
// packet A { u8 x, }
} , x
    u8x
, @tag(  42	) repeat As Packet	, @lengthOf( Pad
    )repeat
    f64 rootA ,// @lengthOf(
}")).
Eval vm_compute in ("<<<M141>>>" ++ check (runes_of_ascii "options // @lengthOf(
{zchar = char[] Z9_	='0' ;
} options
{ asx = char[] }root packet leftPad { T @lengthOf(
    f32a//
)
, } //
root
//x
// @lengthOf(
packet calculatedFrom {
u
    {//	t
char[] // packet A { u8 x, }
T `" ++ [233]%N ++ runes_of_ascii "`	,	match stringy /// triple
as //	t
chars { [
    0123456789 ]
: T ,
// `tick` ""quote"" 'q'
// " ++ [27880; 37322]%N ++ runes_of_ascii "
}	, uint16 a1 @lengthOf( x) , string
chars `two words` ,
} , @calculatedFrom(
    ""x y"")char[]
// " ++ [27880; 37322]%N ++ runes_of_ascii "
// " ++ [128512]%N ++ runes_of_ascii " emoji
body @lengthOf(
lengthOf )
    /// triple
    ,
    @lengthOf(	A	)rootA
,	@lengthOf(i64_ ) // packet A { u8 x, }
repeat f32a { lengthOf
    // " ++ [128512]%N ++ runes_of_ascii " emoji
    charz // a // b
`" ++ [28040; 24687; 31867; 22411]%N ++ runes_of_ascii "`, }
    // packet A { u8 x, }
    ,
match tag as
//x
//	t
T { [
3
] : falsey , }	,zchar[
    00
    ] charz@lengthOf(
    Pad
) ,
@tag( 3	) lengthOf{ i16 As ,
} ,
} root
packet	body{ }
")).
Eval vm_compute in ("<<<M1876>>>" ++ check (runes_of_ascii "root packet i64_ {
    trueish,
    @calculatedFrom(""abc"")
    @tag(7)
    // c
    int16 asx,
    @calculatedFrom(""a\\"")
    float32 crc @lengthOf(Foo),
    @tag(42)
    zchar[7] asx @lengthOf(calculatedFrom) `// not a comment`,//
    repeat zchar[1] As,
    chars `two words`,
    @calculatedFrom(""1"")
    @tag(0123456789)
    @leftPad('0')
    repeat char[] BodyLength `tab	here`,
}

MetaData u128 {
    u16 i64_,
    float32 asx `two words`,
    i64 leftPad,
    zchar[00] _x,
}

MetaData chars {
    Foo crc `say ""hi""`,
    uint8 u `two words`,
    f32 pack `crlf
    line`,
    string _x `" ++ [233]%N ++ runes_of_ascii "`,
}

packet x_y_z {
}

options {
    calculatedFrom = ""CRC32""
    crc = uint16;
    u = false
    Foo = char
}// " ++ [128512]%N ++ runes_of_ascii " emoji")).
Eval vm_compute in ("<<<M1238>>>" ++ check (runes_of_ascii "// top
options
    // c0
{
    // c1
zchar
    // c2
=
    // c3
true
    // c4
;
    // c5
Pad
    // c6
=
    // c7
char[
    // c8
00
    // c9
]
    // c10
a1
    // c11
=
    // c12
uint32
    // c13
BodyLength
    // c14
=
    // c15
true
    // c16
;
    // c17
}
    // c18
root
    // c19
packet
    // c20
T
    // c21
{
    // c22
@lengthOf(
    // c23
repeatCount
    // c24
)
    // c25
@tag(
    // c26
1
    // c27
)
    // c28
@calculatedFrom(
    // c29
""a	b""
    // c30
)
    // c31
string
    // c32
stringy
    // c33
@calculatedFrom(
    // c34
""\n""
    // c35
)
    // c36
`u8 x,`
    // c37
,
    // c38
}
    // c39
")).
Eval vm_compute in ("<<<M1695>>>" ++ check (runes_of_ascii "options {
    LittleEndian = false;
    ArrayPrefixLenType = u8;
    FixedStringPadFromLeft = true;
    FixedStringPadChar = '0';
}

packet Heartbeat {
    string lastPx,
    uint8 Qty,
    i64 Acct,
    char[4] Ref,
}

packet Fill {
    uint8 Ref,
    Heartbeat,
    f32 OrderId,
    repeat f32 x,
}

root packet Order {
    zchar[2] OrderId,
    zchar[2] Acct,
    zchar[1] Note,
    zchar[9] Qty,
    string price,
    string tag7,
    u32 x,
    match x as Body {
        123 : Fill,
        112 : Heartbeat,
    },
    u32 seqNo @calculatedFrom(""CR\
        C32""),
}")).
Eval vm_compute in ("<<<M40>>>" ++ check (runes_of_ascii "packet stringy
//	t
//
{ repeat T// trailing space 
{ u64 lengthOf
`tab	here`  ,
repeat
_x { match calculatedFrom as Header { [""" ++ [233]%N ++ runes_of_ascii "t" ++ [233]%N ++ runes_of_ascii """
    ] : _x  ,// @lengthOf(
[""packet"" ] :
MetaDataX , 255 : u128,42 :
A
""// no comment"" : body
    , }
, repeat crc Foo, charz
    ,
}	,zchar[ 1
    ]i8i8@calculatedFrom( ""x y"" ),  uint8x
    // " ++ [27880; 37322]%N ++ runes_of_ascii "
    Pad
`line1
line2` , } ,
@lengthOf( u )
char[ //x
4294967296 ]crc, @tag(  007 //x
)repeatCount ,
repeat
    //x
    char[] Header, @rightPad ( )char[] string_ `a\` ,
    }
")).
Eval vm_compute in ("<<<M307>>>" ++ check (runes_of_ascii "  packet	charz	{
// " ++ [27880; 37322]%N ++ runes_of_ascii "
/// triple
repeat // c
string int `" ++ [28040; 24687; 31867; 22411]%N ++ runes_of_ascii "` , @calculatedFrom( ""it's"" ) @tag(
255 )  f64 // a // b
asx
,
string
T `doc` ,zchar[
007 ]tag @lengthOf( //
Z9_ )`// not a comment` , }
options{ u= u16; }
MetaData
    chars
    { i16 falsey , f64 pack,
    char[  1
    ]
asx
`it's`, char[] body ,
// `tick` ""quote"" 'q'
//x
}packet leftPad { @rightPad
(
// @lengthOf(
//x
)
repeat Pad float
    `{ , }`
,
    }	options {
    roots= true;  }
")).
Eval vm_compute in ("<<<M0>>>" ++ check (runes_of_ascii "packet leftPad// trailing space 
{@tag( 10 )
    @tag( 007 ) @lengthOf(	a1 )
// a // b
//
repeat metadata
    ,
} // " ++ [128512]%N ++ runes_of_ascii " emoji
options
    // @lengthOf(
    { lengthOf
= """ ++ [128512]%N ++ runes_of_ascii """	;
}  packet T
    // " ++ [27880; 37322]%N ++ runes_of_ascii "
    { A
{
//
// `tick` ""quote"" 'q'
tag@calculatedFrom(""abc"")
, }
    , @lengthOf( matchKey
    ) string	Header @lengthOf( metadata
) ,leftPad
    // trailing space 
    @calculatedFrom(
""a\""b"" )`crlf
line`,}
")).
Eval vm_compute in ("<<<M1679>>>" ++ check (runes_of_ascii "packet crc {
    u128 packetx,// " ++ [128512]%N ++ runes_of_ascii " emoji
    match roots as falsey {
        0123456789 : Header,
        ""packet"" : Z9_,
        3 : A,
        // trailing space 
        // a // b
        ""a	b"" : roots,
        10 : _x,
    },
    @tag(255)
    match calculatedFrom as o {
        255 : string_,
        """ ++ [28040; 24687]%N ++ runes_of_ascii """ : i64_,
    },
}

MetaData T {
    float64 u,
}

packet Pad {
}")).
Eval vm_compute in ("<<<M1637>>>" ++ check (runes_of_ascii "

  packet
zchar 
{ @lengthOf( a1 
    // " ++ [128512]%N ++ runes_of_ascii " emoji
//	t
)i64_
@lengthOf(
Header )`" ++ [28040; 24687; 31867; 22411]%N ++ runes_of_ascii "`

    , charz `" ++ [233]%N ++ runes_of_ascii "`

    ,

    char[

    007 ]
i64_
, tag

{ u16 matchKey	// " ++ [27880; 37322]%N ++ runes_of_ascii "
		, match
Pad
    as lengthOf
	{ [

    ""CRC32""	, 
""abc""  ]
:Packet ,},  } ,

}
	MetaData
    body {char[ 
10

] 
u128 `doc` , 

    /// triple

	//x

} //x
")).
Eval vm_compute in ("<<<M79>>>" ++ check (runes_of_ascii "packet	Pad //
{ u32 i64_
@lengthOf(u8x) `tab	here` , T,
@tag(
1) @calculatedFrom(	""CRC32""
)
    @leftPad ()
    match stringy as lengthOf	{[ 255  ,	7
    ,
""CRC32""
,""a	b"" , """ ++ [233]%N ++ runes_of_ascii "t" ++ [233]%N ++ runes_of_ascii """ ,// c
""a\""b""
    , ""\n"" ]: falsey  , /// triple
} ,string i8i8// trailing space 
@calculatedFrom( """ ++ [128512]%N ++ runes_of_ascii """
    ) ,packetx, } // c")).
Eval vm_compute in ("<<<M1593>>>" ++ check (runes_of_ascii "packet tag {
}

packet falsey {
    string charz @lengthOf(zchar),
    string u @calculatedFrom(""" ++ [233]%N ++ runes_of_ascii "t" ++ [233]%N ++ runes_of_ascii """) `// not a comment`,
    @leftPad('0')
    char[] leftPad @calculatedFrom(""a	b"") `// not a comment`,
    @calculatedFrom(""`tick`"")
    @lengthOf(roots)
    repeat MetaDataX,
}")).
Eval vm_compute in ("<<<M1803>>>" ++ check (runes_of_ascii "options
{
	FixedStringPadChar= 
'0'  ;
    }

packet
Q

{
zchar[ 4

]	z	,
@rightPad

( '\x00'

    )

    char[ 3
    ]
n
, char[

    5 ] d

,
	}

    root packet
    R  { Q
,
	zchar[
    8
]  top

    ,
	repeat
zchar[
    2	]zs ,  } ")).
Eval vm_compute in ("<<<M21>>>" ++ check (runes_of_ascii "packet  Logon //	t
{pack	_x
    ,
Z9_ i8i8  `" ++ [28040; 24687; 31867; 22411]%N ++ runes_of_ascii "`	, } options
    { tag	= 4294967296 ; As = string
    ; rootA = true ; }root packet f32a { //x
@leftPad
// " ++ [27880; 37322]%N ++ runes_of_ascii "
// c
(' ') repeat _x`" ++ [233]%N ++ runes_of_ascii "`	, @rightPad ( )i8i8 len,}

")).
Eval vm_compute in ("<<<M186>>>" ++ check (runes_of_ascii "root packet packetx	{	char[ 1 ]chars @calculatedFrom(
""packet"" ) `say ""hi""` ,} options
    // trailing space 
    { asx
    // a // b
    = 65535 u = float64 repeatCount  =""\" ++ [233]%N ++ runes_of_ascii """}
")).
Eval vm_compute in ("<<<M60>>>" ++ check (runes_of_ascii "root packet _x
{ uint32 trueish @calculatedFrom( ""1"" ) `crlf
line`
,  }
    //
    packet	Header { repeat u64
stringy `// not a comment` , float32  msg_type ,}
")).
Eval vm_compute in ("<<<M537>>>" ++ check (runes_of_ascii "packet uint8x
{ match pack
    as msg_type	{
    0123456789 :	float
}
,
} packet //	t
a1
    { } o'\x01'ptions {packetx
    = '\x00'	; u128= ""a	b""  ; }
")).
Eval vm_compute in ("<<<M401>>>" ++ check (runes_of_ascii "packet uint8x
{ { match pack
    as msg_type	{
    0123456789 :	float
}
,
} packet //	t
a1
    { } options {packetx
    = '\x00'	; u128= ""a	b""  ; }
")).
Eval vm_compute in ("<<<M541>>>" ++ check (runes_of_ascii "packet uint8x
{ match pack
    as msg_type	{
    0123456789 :	float
}
,
} packet //	t
a1
    { } options {packetx
    = '\x0" ++ [233]%N ++ runes_of_ascii "0'	; u128= ""a	b""  ; }
")).
Eval vm_compute in ("<<<M498>>>" ++ check (runes_of_ascii "packet uint8x
{ match pack
    as msg_type	{
    0123456789 :	float
}
,
} packet //	t
a1
    { } options {packetx
    ; '\x00'	; u128= ""a	b""  ; }
")).
Eval vm_compute in ("<<<M415>>>" ++ check (runes_of_ascii "packet uint8x
{ match pack
     msg_type	{
    0123456789 :	float
}
,
} packet //	t
a1
    { } options {packetx
    = '\x00'	; u128= ""a	b""  ; }
")).
Eval vm_compute in ("<<<M665>>>" ++ check (runes_of_ascii "// @lengthOf(
packet i8i8 { u128 o , }
options { MetaDataX = true;
    BodyLength =""packet"" x_y_z= 007
crc //x
= ""abc"" ; ;
    msg_type =
i16 }")).
Eval vm_compute in ("<<<M648>>>" ++ check (runes_of_ascii "// @lengthOf(
packet i8i8 { u128 o , }
options { = MetaDataX true;
    BodyLength =""packet"" x_y_z= 007
crc //x
= ""abc"" ;
    msg_type =
i16 }")).
Eval vm_compute in ("<<<M1396>>>" ++ check (runes_of_ascii "packet A {
    match k as n {
        [
            1, 22, 4, 5, 7,
            8, 10, ""c c"", ""f"", ""i""
        ] : B,
        2 : C,
    },
}")).
Eval vm_compute in ("<<<M659>>>" ++ check (runes_of_ascii "// @lengthOf(
packet i8i8 { u128 o , }
options { MetaDataX = true;
    " ++ [21517; 23383]%N ++ runes_of_ascii " =""packet"" x_y_z= 007
crc //x
= ""abc"" ;
    msg_type =
i16 }")).
Eval vm_compute in ("<<<M1918>>>" ++ check (runes_of_ascii "  packet A { 
match

k

as

    n

    {[""a""
,
""bb""  , ""c c""  ,
""d""	, 
""e""

    ,
""f""	,

    ""g"" ] : B

2
:
	C }  ,} ")).
Eval vm_compute in ("<<<M1601>>>" ++ check (runes_of_ascii "packet A {
    Inner {
        u8 x `
        x`,
        Deep {
            u8 y `
            x`,
        },
    },
}")).
Eval vm_compute in ("<<<M1170>>>" ++ check (runes_of_ascii "MetaData leftPad { chars MetaDataX , } packet repeatCount { char[ 255 ] uint8x
// c
`" ++ [233]%N ++ runes_of_ascii "` , } MetaData pack { As Foo , }")).
Eval vm_compute in ("<<<M1319>>>" ++ check (runes_of_ascii "
packet FooBar  {  u8
	a , }
    packet  foo_bar

    {  u16 
b

    , } root
	packet R{FooBar , foo_bar
,	}
")).
Eval vm_compute in ("<<<M881>>>" ++ check (runes_of_ascii "packet A {
  match k as n {
    [""a"", ""bb"", ""c c"", ""d"", ""e"", ""f"", ""g"", ""h"", ""i"", ""j""] : B
    2 : C
  },
}")).
Eval vm_compute in ("<<<M683>>>" ++ check (runes_of_ascii "// @lengthOf(
packet i8i8 { u128 o , }
options { MetaDataX = true;
    BodyLength =""packet"" x_y_z= 007")).
Eval vm_compute in ("<<<M882>>>" ++ check (runes_of_ascii "packet A {
  match k as n {
    [1, ""bb"", 007, ""d"", 5, ""f"", 7, ""h"", 9, ""j""] : B,
    2 : C
  },
}")).
Eval vm_compute in ("<<<M558>>>" ++ check (runes_of_ascii "
packet
    asx asx {match u128 as lengthOf
{
//	t
// `tick` ""quote"" 'q'
255 : x ,
    } ,	}")).
Eval vm_compute in ("<<<M645>>>" ++ check (runes_of_ascii "
packet
    asx {match u128 as lengthOf
{
//	t
// `tick` ""quote"" 'q'
255 : a" ++ [769]%N ++ runes_of_ascii "b ,
    } ,	}")).
Eval vm_compute in ("<<<M604>>>" ++ check (runes_of_ascii "
packet
    asx {match u128 as lengthOf
{
//	t
// `tick` ""quote"" 'q'
255 : , x
    } ,	}")).
Eval vm_compute in ("<<<M1415>>>" ++ check (runes_of_ascii "options {
    Z9_ = '\x00'
}

packet trueish {
    // " ++ [128512]%N ++ runes_of_ascii " emoji
    u16 calculatedFrom,
}")).
Eval vm_compute in ("<<<M1725>>>" ++ check (runes_of_ascii "packet order_item {
    u8 a,
}

root packet new_order {
    order_item,
    u8 x,
}")).
Eval vm_compute in ("<<<M616>>>" ++ check (runes_of_ascii "
packet
    asx {match u128 as lengthOf
{
//	t
// `tick` ""quote"" 'q'
255 : x ,")).
Eval vm_compute in ("<<<M1609>>>" ++ check (runes_of_ascii "  packet A
	{  match
    k
	as
    n
{ [
""a""
	,	22 ] :
	B
	,  2 :	C}
, }

")).
Eval vm_compute in ("<<<M813>>>" ++ check (runes_of_ascii "packet A {
  match k as n {
    [1, 22, 007, 4, 5] : B,
    2 : C
  },
}")).
Eval vm_compute in ("<<<M1765>>>" ++ check (runes_of_ascii "MetaData x_y_z {
    i8i8 u8x,
    string uint8x `crlf
    line`,
}")).
Eval vm_compute in ("<<<M782>>>" ++ check (runes_of_ascii "packet A {
  match k as n {
    [1, ""bb""] : B,
    2 : C
  },
}")).
Eval vm_compute in ("<<<M1468>>>" ++ check (runes_of_ascii "  root packet

    P 
{ hdr	{ u8
	a  ,
}
	,
	u8

x ,
    }")).
Eval vm_compute in ("<<<M1070>>>" ++ check (runes_of_ascii "packet A { match k as n { 1 : B // a // b 2 : C }, }")).
Eval vm_compute in ("<<<M1212>>>" ++ check (runes_of_ascii "packet body { i32 f32a `{ , }` ,
// c
} options { }")).
Eval vm_compute in ("<<<M1453>>>" ++ check (runes_of_ascii "options {
    // " ++ [128512]%N ++ runes_of_ascii " emoji
    Packet = char[3]
}")).
Eval vm_compute in ("<<<M31>>>" ++ check (runes_of_ascii "options {
x=
""{,}""
matchKey=  true	; }
")).
Eval vm_compute in ("<<<M1081>>>" ++ check (runes_of_ascii "options { a = 1; // a
 b = 2 // b
 }")).
Eval vm_compute in ("<<<M1926>>>" ++ check (runes_of_ascii "packet A {
    repeat B b `d`,
}")).
Eval vm_compute in ("<<<M1705>>>" ++ check (runes_of_ascii "

  packet
    A{} // a

// b
")).
Eval vm_compute in ("<<<M338>>>" ++ check (runes_of_ascii "root packet
msg_type { }
")).
Eval vm_compute in ("<<<M51>>>" ++ check (runes_of_ascii "options {} // " ++ [128512]%N ++ runes_of_ascii " emoji")).
Eval vm_compute in ("<<<M1041>>>" ++ check (runes_of_ascii "packet A {
}
// c 	")).
Eval vm_compute in ("<<<M1016>>>" ++ check (runes_of_ascii "packet A {
}
// c" ++ [8233]%N)).
Eval vm_compute in ("<<<M984>>>" ++ check (runes_of_ascii "packet A {
}// c" ++ [160]%N)).
Eval vm_compute in ("<<<M566>>>" ++ check (runes_of_ascii "
packet
    asx")).
Eval vm_compute in ("<<<M1060>>>" ++ check (runes_of_ascii "// c x")).
Eval vm_compute in ("<<<M730>>>" ++ check (runes_of_ascii "//")).
